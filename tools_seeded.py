#!/venv/bin/python
"""Run the registered checks against the seeded changes kept under /verif/seeded/<id>/.

For each seeded change a scratch git worktree of /repo is created outside /repo and /verif,
the patch is applied there, the check of the property it breaks is run with
PYTHONPATH / PAGEXML_REPO pointing at the worktree (evidence and replays redirected to a
scratch directory), and the worktree is removed again.  With --in-repo the patch is applied
to /repo itself (git apply … / git checkout -- .) as the brief describes.

usage: tools_seeded.py [--tier quick|thorough] [--in-repo] [seed-id …]
"""
import argparse
import json
import os
import shutil
import subprocess
import sys
import tempfile

HERE = os.path.dirname(os.path.abspath(__file__))
SEEDED = os.path.join(HERE, 'seeded')


def sh(cmd, cwd=None, env=None, timeout=3600):
    p = subprocess.run(cmd, shell=True, cwd=cwd, env=env, stdout=subprocess.PIPE, stderr=subprocess.STDOUT,
                       timeout=timeout)
    out = '\n'.join(l for l in p.stdout.decode('utf-8', 'replace').split('\n') if 'conda.cli.condarc' not in l)
    return p.returncode, out


def main():
    ap = argparse.ArgumentParser()
    ap.add_argument('--tier', default='quick')
    ap.add_argument('--in-repo', action='store_true')
    ap.add_argument('--seed', type=int, default=0)
    ap.add_argument('--dir', default='seeded', help="'seeded' (breaking changes, expect exit 1) or 'harmless' (expect exit 0)")
    ap.add_argument('ids', nargs='*')
    a = ap.parse_args()
    global SEEDED
    SEEDED = os.path.join(HERE, a.dir)
    ids = a.ids or sorted(d for d in os.listdir(SEEDED) if os.path.isdir(os.path.join(SEEDED, d)))
    results = {}
    for sid in ids:
        d = os.path.join(SEEDED, sid)
        meta = json.load(open(os.path.join(d, 'meta.json')))
        pid = meta['property']
        if not os.path.exists(os.path.join(HERE, 'harness', 'props', pid.lower() + '.py')):
            results[sid] = {'property': pid, 'status': 'no check registered'}
            print(sid, results[sid], flush=True)
            continue
        scratch = tempfile.mkdtemp(prefix='seeded-')
        env = dict(os.environ, VERIF_EVIDENCE_DIR=os.path.join(scratch, 'evidence'),
                   VERIF_REPLAY_DIR=os.path.join(scratch, 'replays'), VERIF_SEED=str(a.seed))
        try:
            if a.in_repo:
                tree = '/repo'
                rc, out = sh(f'git -C /repo apply {d}/patch.diff')
            else:
                tree = os.path.join(scratch, 'tree')
                rc, out = sh(f'git -C /repo worktree add --detach {tree} HEAD')
                assert rc == 0, out
                rc, out = sh(f'git apply {d}/patch.diff', cwd=tree)
                env['PYTHONPATH'] = tree
                env['PAGEXML_REPO'] = tree
            if rc != 0:
                results[sid] = {'property': pid, 'status': 'patch does not apply', 'detail': out[-300:]}
            else:
                rc, out = sh(f'/venv/bin/python {HERE}/run_check.py {pid} --tier {a.tier}', cwd=HERE, env=env)
                vio = [l for l in out.split('\n') if l.startswith('VIOLATION')]
                results[sid] = {'property': pid, 'exit': rc, 'violations': vio[:3],
                                'caught': rc == 1 and bool(vio),
                                'with_failing_input': any('no-failing-input-found' not in v for v in vio),
                                'summary': out.strip().split('\n')[-1][-300:]}
        finally:
            if a.in_repo:
                sh('git -C /repo checkout -- .')
            else:
                sh(f'git -C /repo worktree remove --force {os.path.join(scratch, "tree")}')
            shutil.rmtree(scratch, ignore_errors=True)
        print(sid, json.dumps(results[sid]), flush=True)
    caught = sum(1 for r in results.values() if r.get('caught'))
    quiet = sum(1 for r in results.values() if r.get('exit') == 0)
    print(f'{a.dir}: exit 1 with VIOLATION on {caught}, exit 0 on {quiet}, of {len(results)}')
    # merge into the stored results, so that a run on a few ids does not forget the others
    rp = os.path.join(SEEDED, 'RESULTS.json')
    stored = json.load(open(rp)) if os.path.exists(rp) else {}
    stored.update(results)
    stored = {k: v for k, v in stored.items() if os.path.isdir(os.path.join(SEEDED, k))}
    with open(rp, 'w') as fh:
        json.dump(stored, fh, indent=1, sort_keys=True)


if __name__ == '__main__':
    main()
