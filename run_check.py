#!/venv/bin/python
"""Entry point: run_check.py <Cxx> [--tier quick|thorough] [--seed N]

exit 0: the property held on everything explored (known findings are printed as
        KNOWN-FINDING lines); exit 1: a VIOLATION line was printed; exit 2: infrastructure.
"""
import argparse
import importlib
import os
import signal
import sys
import traceback

sys.path.insert(0, os.path.dirname(os.path.abspath(__file__)))
from harness import core  # noqa: E402


def main() -> int:
    ap = argparse.ArgumentParser()
    ap.add_argument('pid')
    ap.add_argument('--tier', default=os.environ.get('VERIF_TIER', 'quick'), choices=['quick', 'thorough'])
    ap.add_argument('--seed', type=int, default=int(os.environ.get('VERIF_SEED', '0') or 0))
    ap.add_argument('--deadline', type=int, default=None, help='seconds; exceeding it is exit 2')
    a = ap.parse_args()
    deadline = a.deadline or (900 if a.tier == 'quick' else 3300)

    def on_alarm(signum, frame):
        print(f'[{a.pid}] timeout after {deadline}s (infrastructure, not a violation)', file=sys.stderr)
        os._exit(2)
    signal.signal(signal.SIGALRM, on_alarm)
    signal.alarm(deadline)
    try:
        mod = importlib.import_module(f'harness.props.{a.pid.lower()}')
        check = mod.CHECK
        return core.run_check(check, a.tier, a.seed, deadline)
    except core.Infra as e:
        print(f'[{a.pid}] infrastructure failure: {e}', file=sys.stderr)
        return 2
    except Exception:  # noqa
        traceback.print_exc()
        return 2


if __name__ == '__main__':
    sys.exit(main())
