#!/venv/bin/python
"""Run every registered check (MANIFEST.json) for several seeds and summarise.
usage: tools_checkall.py [--tier quick] [--seeds 0,1,2] [--keep-evidence] [ids…]
Evidence/replays of these runs go to a scratch directory unless --keep-evidence."""
import argparse, json, os, shutil, subprocess, sys, tempfile, time
HERE = os.path.dirname(os.path.abspath(__file__))
ap = argparse.ArgumentParser()
ap.add_argument('--tier', default='quick'); ap.add_argument('--seeds', default='0,1,2')
ap.add_argument('--keep-evidence', action='store_true'); ap.add_argument('ids', nargs='*')
a = ap.parse_args()
man = json.load(open(os.path.join(HERE, 'MANIFEST.json')))
ids = a.ids or [c['property_id'] for c in man['checks']]
scratch = tempfile.mkdtemp(prefix='checkall-')
bad = 0
for pid in ids:
    for seed in a.seeds.split(','):
        env = dict(os.environ, VERIF_SEED=seed)
        if not a.keep_evidence:
            env.update(VERIF_EVIDENCE_DIR=scratch + '/ev', VERIF_REPLAY_DIR=scratch + '/rp')
        t = time.time()
        p = subprocess.run(['/venv/bin/python', os.path.join(HERE, 'run_check.py'), pid, '--tier', a.tier], cwd=HERE,
                           env=env, stdout=subprocess.PIPE, stderr=subprocess.STDOUT)
        out = [l for l in p.stdout.decode('utf-8', 'replace').split('\n') if l.strip() and 'conda.cli' not in l]
        flag = 'ok ' if p.returncode == 0 else f'EXIT {p.returncode}'
        if p.returncode != 0:
            bad += 1
        print(f'{pid} seed={seed} {flag} {time.time()-t:6.1f}s  {out[-1][-160:] if out else ""}', flush=True)
        for l in out:
            if l.startswith(('VIOLATION', 'KNOWN-FINDING')):
                print('    ', l[:200])
shutil.rmtree(scratch, ignore_errors=True)
print('failures:', bad)
sys.exit(1 if bad else 0)
