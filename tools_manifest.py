#!/venv/bin/python
"""Regenerates MANIFEST.json from harness/props/*.py (the registered checks) so that the
manifest always lists exactly the checks that exist; properties without a check are
listed under not_applicable with the reason recorded in PENDING below."""
import importlib
import json
import os
import sys

HERE = os.path.dirname(os.path.abspath(__file__))
sys.path.insert(0, HERE)

ALL = [f'C{i:02d}' for i in range(1, 21)]
PENDING_REASON = ('no check registered yet: the Lean model and correspondence harness for this property are '
                  'under construction (DESIGN §7 gives the plan); proof in Lean 4 does apply to it')

TEXT = {}


def main():
    checks, na = [], []
    for pid in ALL:
        path = os.path.join(HERE, 'harness', 'props', pid.lower() + '.py')
        if not os.path.exists(path):
            na.append({'property_id': pid, 'reason': PENDING_REASON})
            continue
        mod = importlib.import_module(f'harness.props.{pid.lower()}')
        c = mod.CHECK
        checks.append({
            'property_id': pid,
            'quick_cmd': f'/venv/bin/python run_check.py {pid} --tier quick',
            'thorough_cmd': f'/venv/bin/python run_check.py {pid} --tier thorough',
            'evidence_file': f'/verif/evidence/{pid}.json',
            'replay_cmd_template': '/venv/bin/python harness/replay.py {path}',
            'engine': 'lean4-model+correspondence',
            'level_claimed': {
                'category': 'proof',
                'text': getattr(c, 'level_text', None) or (
                    'Lean 4 theorems about a functional model of the anchored code, for every input the property '
                    'quantifies over; the model is tied to /repo on every run by a differential correspondence check '
                    '(same inputs through the real code and the compiled model driver) and by tables regenerated from '
                    'the source; a property oracle judges the real code directly and supplies concrete replays'),
                'design_ref': f'DESIGN.md §7 {pid}',
            },
            'level_note': c.level_note,
            'technique': getattr(c, 'technique', 'Lean 4 proof over hand-written model + differential correspondence'),
        })
    man = {
        'version': 1,
        'setup_cmd': 'cd /verif/lean && lake build',
        'hooks': {
            'guard': 'KNAW_HUC_PAGEXML_VERIF',
            'enable': 'no hooks: every observation point is a public function or attribute; the harness imports '
                      '/repo in-process (KNAW_HUC_PAGEXML_VERIF=1 is exported by run_check.py but nothing in /repo reads it)',
            'baseline_off_cmd': 'cd /repo && /venv/bin/python -m pytest -ra -q -p no:cacheprovider --timeout=900 '
                                '--continue-on-collection-errors',
            'source_commits': [],
            'add_only': True,
        },
        'engines': [{
            'name': 'lean4-model+correspondence', 'path': '/verif/lean',
            'serves_properties': [c['property_id'] for c in checks],
            'kind_free_text': 'Lean 4.33 lake project PagexmlModel (models, lemmas, property theorems, compiled '
                              'JSON-lines driver) + Python harness (/verif/harness) calling /repo in-process',
        }],
        'checks': checks,
        'not_applicable': na,
        'notes': 'See DESIGN.md. known_findings.json lists fixed (and any known) defects; fix: commits are in /repo history.',
    }
    with open(os.path.join(HERE, 'MANIFEST.json'), 'w') as fh:
        json.dump(man, fh, indent=1)
    print(f'{len(checks)} checks, {len(na)} pending')


if __name__ == '__main__':
    main()
