/-
C05 — Explicit reading order decides region order; otherwise document order is kept.

`orderRegions idOf ro rs` is the reading-order part of `PageXMLTextRegion.__init__`
(`set_text_regions_in_reader_order` / `get_text_regions_in_reading_order`), `ro` the dict
`index -> region id` built by `parse_page_reading_order` with overwrite semantics
(`roOfEntries`), `sortedItems` Python's `sorted(…, key=index)` (`List.mergeSort`, stable).
Indices are `Int`: the order is numeric, not lexical.  Region ids are pairwise different
(the quantifier of the property); indices are pairwise different (reading chosen: two
entries with one index overwrite each other in the dict, so one region is no longer
listed and document order is kept — covered by `C05_otherwise_doc_order`).
-/
import PagexmlModel.Lemmas.C05Order
import PagexmlModel.Props.C01

set_option linter.unusedSimpArgs false

namespace Pagexml.C05
open Pagexml.X Pagexml.C01 Pagexml.Scan
open Pagexml.C03 (Pt Coords)

variable {α : Type}

theorem sortedItems_perm (ro : RO) : (sortedItems ro).Perm ro := List.mergeSort_perm _ _

theorem sortedItems_sorted (ro : RO) : (sortedItems ro).Pairwise (fun a b => a.1 ≤ b.1) := by
  have := List.pairwise_mergeSort (le := fun (a b : Int × String) => decide (a.1 ≤ b.1))
    (by intro a b c hab hbc; simp only [decide_eq_true_eq] at *; omega)
    (by intro a b; simp only [Bool.or_eq_true, decide_eq_true_eq]; omega) ro
  simpa [sortedItems] using this

/-- the regions delivered in reading order are the regions the entries name, read in
    ascending index order -/
theorem inReadingOrder_ids (idOf : α → Option String) (ro : RO) (rs : List α) (hnd : (rs.map idOf).Nodup) :
    (inReadingOrder idOf ro rs).map idOf
      = ((dedup ((sortedItems ro).map (·.2))).filter (fun i => decide (some i ∈ rs.map idOf))).map some := by
  rw [inReadingOrder_eq idOf ro rs hnd]
  generalize dedup ((sortedItems ro).map (·.2)) = l
  induction l with
  | nil => rfl
  | cons i l ih =>
    simp only [List.filterMap_cons, List.filter_cons]
    cases hf : rs.find? (fun r => idOf r = some i) with
    | none =>
      have : some i ∉ rs.map idOf := by
        intro hm
        obtain ⟨r, hr, e⟩ := List.mem_map.mp hm
        have := List.find?_eq_none.mp hf r hr
        simp [e] at this
      simp [this, ih]
    | some b =>
      have hb : idOf b = some i := by simpa using List.find?_some hf
      have : some i ∈ rs.map idOf := by
        rw [← hb]; exact List.mem_map_of_mem (List.mem_of_find?_eq_some hf)
      simp [this, ih, hb]

/-- **every region exactly once**, whatever the reading order says -/
theorem C05_each_once (idOf : α → Option String) (ro : RO) (rs : List α) (hnd : (rs.map idOf).Nodup) :
    (orderRegions idOf ro rs).1.Perm rs := by
  unfold orderRegions
  split
  · exact List.Perm.refl _
  · split
    · next hcov =>
      rw [inReadingOrder_eq idOf ro rs hnd]
      have hrs : rs.Nodup := List.Nodup.of_map idOf hnd
      have hout : ((dedup ((sortedItems ro).map (·.2))).filterMap
          (fun i => rs.find? (fun r => idOf r = some i))).Nodup := by
        apply List.Nodup.filterMap _ (nodup_dedup _)
        intro a a' b hb hb'
        have h1 : idOf b = some a := by simpa using List.find?_some (Option.mem_def.mp hb)
        have h2 : idOf b = some a' := by simpa using List.find?_some (Option.mem_def.mp hb')
        rw [h1] at h2
        exact Option.some.inj h2
      rw [List.perm_ext_iff_of_nodup hout hrs]
      intro b
      simp only [List.mem_filterMap]
      constructor
      · rintro ⟨i, _, hf⟩
        exact List.mem_of_find?_eq_some hf
      · intro hb
        obtain ⟨i, hi, hm⟩ := (covered_iff idOf ro rs).mp hcov b hb
        refine ⟨i, ?_, find_id idOf rs hnd b hb i hi⟩
        rw [mem_dedup]
        obtain ⟨e, he, rfl⟩ := List.mem_map.mp hm
        exact List.mem_map_of_mem ((sortedItems_perm ro).mem_iff.mpr he)
    · exact List.Perm.refl _

/-- **full coverage ⇒ ascending numeric index order**: the ids of the delivered regions are
    the region references of the entries, read in ascending index order (references to
    unknown regions skipped); the result is a permutation of the regions, and the reading
    order is kept on the scan -/
theorem C05_full_coverage_sorted (idOf : α → Option String) (ro : RO) (rs : List α)
    (hnd : (rs.map idOf).Nodup) (hne : ro ≠ []) (hcov : covered idOf ro rs = true) :
    let out := orderRegions idOf ro rs
    out.1.Perm rs ∧ out.2 = some ro ∧
    out.1.map idOf = ((dedup ((sortedItems ro).map (·.2))).filter
      (fun i => decide (some i ∈ rs.map idOf))).map some ∧
    (sortedItems ro).Pairwise (fun a b => a.1 ≤ b.1) ∧ (sortedItems ro).Perm ro := by
  have he : ro.isEmpty = false := by cases ro <;> simp_all
  refine ⟨C05_each_once idOf ro rs hnd, ?_, ?_, sortedItems_sorted ro, sortedItems_perm ro⟩
  · simp [orderRegions, he, hcov]
  · simp only [orderRegions, he, hcov, Bool.false_eq_true, if_false, if_true]
    exact inReadingOrder_ids idOf ro rs hnd

/-- with pairwise different indices the order of the sorted entries is strict -/
theorem C05_strictly_ascending (ro : RO) (hidx : (ro.map (·.1)).Nodup) :
    (sortedItems ro).Pairwise (fun a b => a.1 < b.1) := by
  have hs := sortedItems_sorted ro
  have hn : ((sortedItems ro).map (·.1)).Nodup := ((sortedItems_perm ro).map _).nodup_iff.mpr hidx
  have hn' := List.pairwise_map.mp hn
  exact (hs.and hn').imp (fun ⟨h1, h2⟩ => by omega)

/-- two orderings of the same entries (pairwise different indices) sort to the same list -/
theorem sortedItems_perm_eq (es es' : List (Int × String)) (hp : es.Perm es') (hidx : (es.map (·.1)).Nodup) :
    sortedItems es = sortedItems es' := by
  have hp' : (sortedItems es).Perm (sortedItems es') :=
    (sortedItems_perm es).trans (hp.trans (sortedItems_perm es').symm)
  refine List.Perm.eq_of_pairwise (le := fun a b => a.1 ≤ b.1) ?_ (sortedItems_sorted es) (sortedItems_sorted es') hp'
  intro a b ha hb hab hba
  have ha' : a ∈ es := (sortedItems_perm es).mem_iff.mp ha
  have hb' : b ∈ es := hp.mem_iff.mpr ((sortedItems_perm es').mem_iff.mp hb)
  have hi : a.1 = b.1 := by omega
  exact List.inj_on_of_nodup_map hidx ha' hb' hi

/-- **the textual order of the index entries does not matter** -/
theorem C05_entry_order_irrelevant (idOf : α → Option String) (es es' : List (Int × String)) (rs : List α)
    (hp : es.Perm es') (hidx : (es.map (·.1)).Nodup) :
    (orderRegions idOf (roOfEntries es) rs).1 = (orderRegions idOf (roOfEntries es') rs).1 := by
  have hidx' : (es'.map (·.1)).Nodup := (hp.map _).nodup_iff.mp hidx
  rw [roOfEntries_nodup es hidx, roOfEntries_nodup es' hidx']
  have hem : es.isEmpty = es'.isEmpty := by
    cases es <;> cases es' <;> simp_all
  have hcov : covered idOf es rs = covered idOf es' rs := by
    rw [Bool.eq_iff_iff, covered_iff, covered_iff]
    constructor
    · intro h r hr
      obtain ⟨i, hi, hm⟩ := h r hr
      exact ⟨i, hi, (hp.map _).mem_iff.mp hm⟩
    · intro h r hr
      obtain ⟨i, hi, hm⟩ := h r hr
      exact ⟨i, hi, (hp.map _).mem_iff.mpr hm⟩
  simp only [orderRegions, hem, hcov, inReadingOrder, sortedItems_perm_eq es es' hp hidx]
  split <;> [rfl; (split <;> rfl)]

/-- **the order of the regions in the file does not matter** when the reading order lists them all -/
theorem C05_region_order_irrelevant (idOf : α → Option String) (ro : RO) (rs rs' : List α)
    (hp : rs.Perm rs') (hnd : (rs.map idOf).Nodup) (hne : ro ≠ []) (hcov : covered idOf ro rs = true) :
    (orderRegions idOf ro rs).1 = (orderRegions idOf ro rs').1 := by
  have he : ro.isEmpty = false := by cases ro <;> simp_all
  have hnd' : (rs'.map idOf).Nodup := (hp.map _).nodup_iff.mp hnd
  have hcov' : covered idOf ro rs' = true := by
    rw [covered_iff] at hcov ⊢
    intro r hr
    exact hcov r (hp.mem_iff.mpr hr)
  simp only [orderRegions, he, hcov, hcov', Bool.false_eq_true, if_false, if_true]
  rw [inReadingOrder_eq idOf ro rs hnd, inReadingOrder_eq idOf ro rs' hnd']
  apply List.filterMap_congr
  intro i _
  cases hf : rs.find? (fun r => idOf r = some i) with
  | some b =>
    have hb : idOf b = some i := by simpa using List.find?_some hf
    exact (find_id idOf rs' hnd' b (hp.mem_iff.mp (List.mem_of_find?_eq_some hf)) i hb).symm
  | none =>
    symm
    rw [List.find?_eq_none] at hf ⊢
    intro x hx
    exact hf x (hp.mem_iff.mpr hx)

/-- **entries that reference unknown ids are ignored** -/
theorem C05_dangling_ignored (idOf : α → Option String) (es ds : List (Int × String)) (rs : List α)
    (hnd : (rs.map idOf).Nodup) (hidx : ((es ++ ds).map (·.1)).Nodup) (href : ((es ++ ds).map (·.2)).Nodup)
    (hd : ∀ d ∈ ds, some d.2 ∉ rs.map idOf) (hcov : covered idOf es rs = true) :
    (orderRegions idOf (roOfEntries (es ++ ds)) rs).1 = (orderRegions idOf (roOfEntries es) rs).1 := by
  have hidx1 : (es.map (·.1)).Nodup := by
    rw [List.map_append] at hidx; exact (List.nodup_append.mp hidx).1
  rw [roOfEntries_nodup _ hidx, roOfEntries_nodup _ hidx1]
  have hcov2 : covered idOf (es ++ ds) rs = true := by
    rw [covered_iff] at hcov ⊢
    intro r hr
    obtain ⟨i, hi, hm⟩ := hcov r hr
    exact ⟨i, hi, by simp only [List.map_append, List.mem_append]; exact Or.inl hm⟩
  by_cases hes : es = []
  · -- no entry names a region, yet all are covered: there are no regions
    have hrs : rs = [] := by
      cases rs with
      | nil => rfl
      | cons r rs' =>
        obtain ⟨i, _, hm⟩ := (covered_iff idOf es (r :: rs')).mp hcov r (by simp)
        simp [hes] at hm
    subst hrs
    have hnil : ∀ ro : RO, (orderRegions idOf ro ([] : List α)).1 = [] := by
      intro ro
      unfold orderRegions
      split
      · rfl
      · split
        · simp [inReadingOrder, assocGet]
        · rfl
    rw [hnil, hnil]
  · have he1 : es.isEmpty = false := by cases es <;> simp_all
    have he2 : (es ++ ds).isEmpty = false := by cases es <;> simp_all
    simp only [orderRegions, he1, he2, hcov, hcov2, Bool.false_eq_true, if_false, if_true]
    rw [inReadingOrder_eq idOf _ rs hnd, inReadingOrder_eq idOf _ rs hnd]
    have href1 : (es.map (·.2)).Nodup := by
      rw [List.map_append] at href; exact (List.nodup_append.mp href).1
    rw [dedup_of_nodup _ (((sortedItems_perm (es ++ ds)).map _).nodup_iff.mpr href),
        dedup_of_nodup _ (((sortedItems_perm es).map _).nodup_iff.mpr href1)]
    -- the sorted list of all entries, restricted to `es`, is the sorted list of `es`
    have hmemds : ∀ e ∈ es ++ ds, e ∉ es → e ∈ ds := by
      intro e he hne; rcases List.mem_append.mp he with h | h
      · exact absurd h hne
      · exact h
    have hnodup : (es ++ ds).Nodup := List.Nodup.of_map _ hidx
    have hdisj : ∀ e ∈ es, e ∉ ds := fun e he hd' => (List.nodup_append.mp hnodup).2.2 e he e hd' rfl
    classical
    have hfilter : (sortedItems (es ++ ds)).filter (fun e => decide (e ∈ es)) = sortedItems es := by
      refine List.Perm.eq_of_pairwise (le := fun a b => a.1 ≤ b.1) ?_
        ((sortedItems_sorted _).sublist List.filter_sublist) (sortedItems_sorted es) ?_
      · intro a b ha hb hab hba
        have ha' : a ∈ es := by simpa using (List.mem_filter.mp ha).2
        have hb' : b ∈ es := (sortedItems_perm es).mem_iff.mp hb
        exact List.inj_on_of_nodup_map hidx1 ha' hb' (by omega)
      · refine ((sortedItems_perm (es ++ ds)).filter _).trans (List.Perm.trans ?_ (sortedItems_perm es).symm)
        rw [List.filter_append]
        have h1 : es.filter (fun e => decide (e ∈ es)) = es := List.filter_eq_self.mpr (by simp)
        have h2 : ds.filter (fun e => decide (e ∈ es)) = [] := by
          apply List.filter_eq_nil_iff.mpr
          intro e he
          simp only [decide_eq_true_eq]
          exact fun h => hdisj e h he
        rw [h1, h2, List.append_nil]
    rw [← hfilter]
    have hl : ∀ e ∈ sortedItems (es ++ ds), e ∈ es ∨ rs.find? (fun r => idOf r = some e.2) = none := by
      intro e he
      by_cases hm : e ∈ es
      · exact Or.inl hm
      · right
        have hds := hmemds e ((sortedItems_perm _).mem_iff.mp he) hm
        rw [List.find?_eq_none]
        intro r hr
        simp only [decide_eq_true_eq]
        intro e'
        exact hd e hds (by rw [← e']; exact List.mem_map_of_mem hr)
    revert hl
    generalize sortedItems (es ++ ds) = l
    intro hl
    induction l with
    | nil => rfl
    | cons e l ih =>
      have ih' := ih (fun x hx => hl x (by simp [hx]))
      simp only [List.map_cons, List.filterMap_cons, List.filter_cons]
      by_cases hm : e ∈ es
      · simp only [hm, decide_true, if_true, List.map_cons, List.filterMap_cons]
        cases rs.find? (fun r => idOf r = some e.2) <;> simp [ih']
      · have hnone : rs.find? (fun r => idOf r = some e.2) = none := by
          rcases hl e (by simp) with h | h
          · exact absurd h hm
          · exact h
        simp only [hm, decide_false, Bool.false_eq_true, if_false, hnone]
        exact ih'

/-- **otherwise document order is kept**: no reading order, or one that does not list every region -/
theorem C05_otherwise_doc_order (idOf : α → Option String) (ro : RO) (rs : List α)
    (h : ro = [] ∨ covered idOf ro rs = false) : (orderRegions idOf ro rs).1 = rs := by
  unfold orderRegions
  rcases h with rfl | h
  · rfl
  · split
    · rfl
    · simp [h]

/-- an absent, empty or unordered ReadingOrder element, or an ordered group without
    entries, denotes the empty reading order -/
theorem C05_no_order_cases :
    roOf .absent = [] ∧ roOf .empty = [] ∧ (∀ id refs, roOf (.unordered id refs) = []) ∧
    (∀ id cap, roOf (.ordered id cap []) = []) := ⟨rfl, rfl, fun _ _ => rfl, fun _ _ => rfl⟩

/-- a region whose id is missing from the reading order (or that has no id) is not covered -/
theorem C05_partial_not_covered (idOf : α → Option String) (ro : RO) (rs : List α) (r : α) (hr : r ∈ rs)
    (h : ∀ i, idOf r = some i → i ∉ ro.map (·.2)) : covered idOf ro rs = false := by
  cases hc : covered idOf ro rs with
  | false => rfl
  | true =>
    obtain ⟨i, hi, hm⟩ := (covered_iff idOf ro rs).mp hc r hr
    exact absurd hm (h i hi)

theorem allLinesList_eq_flatMap (rs : List Region) : allLinesList rs = rs.flatMap Region.allLines := by
  induction rs with
  | nil => rfl
  | cons r rs ih => simp [allLinesList, ih]

/-- **the lines follow the regions**: `get_lines()` of a scan is the concatenation of the
    lines of its regions in the delivered order (then the table lines) — hence in reading
    order when it covers the regions, in document order otherwise — and every line is
    delivered exactly once -/
theorem C05_lines_follow (hullT : List Pt → List Pt) (fname : String) (p : SrcPage) :
    let s := mirrorScan hullT fname p
    s.regions = (orderRegions Region.id (roOf p.ro) (mirrorRegions hullT p.regions)).1 ∧
    s.getLines = s.regions.flatMap Region.allLines ++ (s.tables.map (·.allLines)).flatten ∧
    (((mirrorRegions hullT p.regions).map Region.id).Nodup →
      s.getLines.Perm ((mirrorRegions hullT p.regions).flatMap Region.allLines
        ++ (s.tables.map (·.allLines)).flatten)) := by
  refine ⟨rfl, ?_, ?_⟩
  · simp [Scan.Scan.getLines, allLinesList_eq_flatMap]
  · intro hnd
    simp only [Scan.Scan.getLines, allLinesList_eq_flatMap, mirrorScan]
    exact List.Perm.append_right _ ((C05_each_once Region.id _ _ hnd).flatMap_right _)

/-- **the position of the ReadingOrder element does not matter**: before or after the
    regions, the parsed scan is the same -/
theorem C05_position_irrelevant (hull : List Pt → Res (List Pt)) (hullT : List Pt → List Pt) (fname : String)
    (p : SrcPage) (h : Conformant hull hullT p) :
    parseScan hull fname (toDictDoc (renderDoc { p with roFirst := true }))
      = parseScan hull fname (toDictDoc (renderDoc { p with roFirst := false })) := by
  rw [C01_parse_lossless hull hullT fname { p with roFirst := true } h,
      C01_parse_lossless hull hullT fname { p with roFirst := false } h]
  rfl

/-- what the parser delivers for a conformant page, in terms of the ReadingOrder element -/
theorem C05_parsed_regions (hull : List Pt → Res (List Pt)) (hullT : List Pt → List Pt) (fname : String)
    (p : SrcPage) (h : Conformant hull hullT p) :
    (parseScan hull fname (toDictDoc (renderDoc p))).map (fun s => (s.regions, s.readingOrder))
      = .ok (orderRegions Region.id (roOf p.ro) (mirrorRegions hullT p.regions)) := by
  rw [C01_parse_lossless hull hullT fname p h]
  rfl

/-- get_text_regions_in_reading_order() on the finished scan returns the regions as delivered -/
theorem C05_get_in_reading_order_stable (idOf : α → Option String) (ro : RO) (rs : List α)
    (hnd : (rs.map idOf).Nodup) :
    let out := orderRegions idOf ro rs
    getInReadingOrder idOf out.2 out.1 = out.1 := by
  simp only [orderRegions]
  split
  · simp [getInReadingOrder]
  · next he =>
    split
    · next hcov =>
      have he' : ro.isEmpty = false := by simpa using he
      simp only [getInReadingOrder, he', Bool.false_eq_true, if_false]
      -- sorting the already sorted regions again: same lookup results
      have hperm : (inReadingOrder idOf ro rs).Perm rs := by
        have := C05_each_once idOf ro rs hnd
        simpa [orderRegions, he', hcov] using this
      have hXeq := inReadingOrder_eq idOf ro rs hnd
      generalize inReadingOrder idOf ro rs = X at hperm hXeq ⊢
      have hnd' : (X.map idOf).Nodup := (hperm.map _).nodup_iff.mpr hnd
      rw [inReadingOrder_eq idOf ro X hnd']
      conv_rhs => rw [hXeq]
      apply List.filterMap_congr
      intro i _
      cases hf : rs.find? (fun r => idOf r = some i) with
      | some b =>
        have hb : idOf b = some i := by simpa using List.find?_some hf
        exact find_id idOf _ hnd' b (hperm.mem_iff.mpr (List.mem_of_find?_eq_some hf)) i hb
      | none =>
        rw [List.find?_eq_none] at hf ⊢
        intro x hx
        exact hf x (hperm.mem_iff.mp hx)
    · simp [getInReadingOrder]

/-! ### non-vacuity -/

private def rg (i : String) : Region := .mk (some i) none none .none [] []

example : (([rg "a", rg "b", rg "c"].map Region.id).Nodup) := by decide
example : covered Region.id [(10, "a"), (9, "b"), (100, "c")] [rg "a", rg "b", rg "c"] = true := by decide
example : (([(10, "a"), (9, "b"), (100, "c")] : RO).map (·.1)).Nodup := by decide
/-- numeric, not lexical: 9 < 10 < 100 -/
example : (orderRegions Region.id [(10, "a"), (9, "b"), (100, "c")] [rg "a", rg "b", rg "c"]).1.map Region.id
    = [some "b", some "a", some "c"] := by
  simp [orderRegions, covered, roNumber, assocSet, assocGet, inReadingOrder, sortedItems, List.mergeSort, dedup, rg,
    Region.id]
/-- partial coverage: document order, reading order dropped -/
example : orderRegions Region.id [(1, "b")] [rg "a", rg "b"] = ([rg "a", rg "b"], none) := by
  simp [orderRegions, covered, roNumber, assocSet, assocGet, rg, Region.id]
example : covered Region.id [(1, "b")] [rg "a", rg "b"] = false := by decide
example : ∀ d ∈ [((7 : Int), "ghost")], some d.2 ∉ [rg "a"].map Region.id := by decide

end Pagexml.C05
