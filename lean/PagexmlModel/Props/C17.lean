/-
C17 — Word splitting is total and conservative; the hyphen rule decides merges.
Property theorems only.  Every theorem quantifies over all strings (`List Char`, no length bound),
all break-character sets `B : Char → Bool`, all character classifications `cc : CharClass`
(where stated: obeying `CharClass.Lawful`) and, for the detector theorems, all detector records.
-/
import PagexmlModel.Model.C17
import PagexmlModel.Lemmas.Words
import PagexmlModel.Lemmas.WordLoop
import PagexmlModel.Lemmas.Reduce
import PagexmlModel.Lemmas.Determine

deriving instance DecidableEq for Except

namespace Pagexml.C17

/-! ### a concrete classification for the non-vacuity examples (ASCII) -/

def asciiCC : CharClass where
  isWord c := c.isAlphanum || c = '_'
  isAlpha c := c.isAlpha
  isUpper c := c.isUpper
  isLower c := c.isLower
  isTitle _ := false
  isDigit c := c.isDigit
  isSpace c := c = ' ' || c = '\t'

theorem asciiCC_lawful : asciiCC.Lawful where
  alpha_word c h := by
    simp only [asciiCC] at h ⊢
    simp [Char.isAlphanum, h]
  space_not_word c h := by
    simp only [asciiCC, Bool.or_eq_true, decide_eq_true_eq] at h
    rcases h with rfl | rfl <;> decide
  blank_space := by decide

def hyphen : BreakSet := fun c => c = '-'

/-! ### splitting: totality, no empty or blank token, conservation -/

/-- `get_line_words` never raises: for every line (missing, empty or any string), every break set and
    every classification, none of the subscripts `line[-1]`, `line[-2]`, `term[0]`, `prev_term[0]`,
    `prev_term[-1]`, `new_terms[-1]` fails. -/
theorem C17_total (cc : CharClass) (B : BreakSet) (line : Option Str) :
    ∃ ws, lineWords cc B line = .ok ws := by
  cases line with
  | none => exact ⟨[], rfl⟩
  | some s =>
    by_cases hs : s = []
    · subst hs; exact ⟨[], rfl⟩
    · obtain ⟨out, h, _⟩ := lineWords_steps cc B s hs
      exact ⟨out, h⟩

example : lineWords asciiCC hyphen (some ['a', ' ', ' ', '-']) = .ok [['a'], ['-']] := by decide

/-- no token is empty and no token consists of whitespace only -/
theorem C17_no_empty_token (cc : CharClass) (B : BreakSet) (line : Option Str) (ws : List Str)
    (h : lineWords cc B line = .ok ws) : ∀ w ∈ ws, w ≠ [] ∧ ∃ c ∈ w, cc.isSpace c = false := by
  cases line with
  | none => simp [lineWords] at h; subst h; simp
  | some s =>
    by_cases hs : s = []
    · subst hs; simp [lineWords] at h; subst h; simp
    · obtain ⟨out, h', hst⟩ := lineWords_steps cc B s hs
      rw [h] at h'; cases h'
      intro w hw
      have := hst.nonblank (by simp) w hw
      exact ⟨this.ne_nil, this⟩

example : lineWords asciiCC hyphen (some ['a', ' ', ' ', 'b', '\t']) = .ok [['a'], ['b']] := by decide

/-- conservation: the tokens contain, in order, exactly the non-whitespace characters of the line after
    the trailing-break normalisation (`normTrail`: one of a doubled trailing break character is dropped,
    and so is a blank before a trailing break character) -/
theorem C17_conservation (cc : CharClass) (law : cc.Lawful) (B : BreakSet) (s : Str) (ws : List Str)
    (h : lineWords cc B (some s) = .ok ws) :
    ws.flatten.filter (fun c => !cc.isSpace c) = (normTrail B s).filter (fun c => !cc.isSpace c) := by
  by_cases hs : s = []
  · subst hs; simp [lineWords] at h; subst h; simp [normTrail]
  · obtain ⟨out, h', hst⟩ := lineWords_steps cc B s hs
    rw [h] at h'; cases h'
    have := hst.conserve law.blank_space
    rw [(splitRuns_spec cc (normTrail B s)).1] at this
    have e : notSpace cc = fun c => !cc.isSpace c := rfl
    rw [e] at this
    simpa using this

example : True := by
  have := C17_conservation asciiCC asciiCC_lawful hyphen ['a', ' ', 'b', '-', '-'] [['a'], ['b', '-']] (by decide)
  trivial

example : lineWords asciiCC hyphen (some ['a', 'b', '-', '-']) = .ok [['a', 'b', '-']] ∧
    normTrail hyphen ['a', 'b', '-', '-'] = ['a', 'b', '-'] := by decide

/-- what the normalisation does, stated without recursion: it only looks at the last two characters -/
theorem C17_norm_trail (B : BreakSet) (p : Str) (a b : Char) :
    normTrail B (p ++ [a, b]) =
      if B b = true ∧ B a = true then p ++ [a]
      else if B b = true ∧ a = ' ' then p ++ [b]
      else p ++ [a, b] := by
  rw [normTrail_concat2]
  by_cases hb : B b = true <;> by_cases ha : B a = true <;> by_cases hsp : a = ' ' <;>
    simp [normTrail, hb, ha, hsp] <;> (split <;> rfl)

example : normTrail hyphen (['x'] ++ [' ', '-']) = ['x', '-'] := by decide

/-- every token starts and ends with a non-whitespace character -/
theorem C17_tokens_trimmed (cc : CharClass) (law : cc.Lawful) (B : BreakSet) (line : Option Str) (ws : List Str)
    (h : lineWords cc B line = .ok ws) :
    ∀ w ∈ ws, (∀ a r, w = a :: r → cc.isSpace a = false) ∧ (∀ p a, w = p ++ [a] → cc.isSpace a = false) := by
  cases line with
  | none => simp [lineWords] at h; subst h; simp
  | some s =>
    by_cases hs : s = []
    · subst hs; simp [lineWords] at h; subst h; simp
    · obtain ⟨out, h', hst⟩ := lineWords_steps cc B s hs
      rw [h] at h'; cases h'
      intro w hw
      exact (hst.trimmed law (splitRuns_spec cc _).2.2.1 (by simp) w hw).1

example : lineWords asciiCC hyphen (some [' ', '.', ' ', '.', ' ']) = .ok [['.', ' ', '.']] := by decide
example : True := by
  have := C17_tokens_trimmed asciiCC asciiCC_lawful hyphen (some [' ', '.', ' ', '.', ' ']) [['.', ' ', '.']] (by decide)
  trivial

/-- `split_line_words`: first word, middle words, last word; concatenating them gives the line back
    when there are at least two words -/
theorem C17_split_line_words (a z : Str) (mid : List Str) :
    splitLineWords (a :: (mid ++ [z])) = .ok ([a], mid, [z]) ∧ splitLineWords [a] = .ok ([a], [], [a]) ∧
    splitLineWords [] = .ok ([], [], []) := by
  refine ⟨?_, rfl, rfl⟩
  have hl : pyLast (a :: (mid ++ [z])) = .ok z := by
    have := pyLast_concat (a :: mid) z
    simpa using this
  have hd : (mid ++ [z]).dropLast = mid := List.dropLast_concat
  simp [splitLineWords, hl, hd, pyHead, bind, Except.bind, pure, Except.pure]

example : splitLineWords [['a'], ['b'], ['c']] = .ok ([['a']], [['b']], [['c']]) := by decide

/-! ### the decision -/

/-- the hyphen rule: without a detector two consecutive lines (with words) are merged exactly when the
    first line's last word ends with a break character, and the merged word is `joinReduced` -/
theorem C17_hyphen_rule (cc : CharClass) (B : BreakSet) (pw cw : List Str) (e s : Str)
    (he : e ≠ []) (hs : s ≠ []) :
    determine cc none B (pw ++ [e]) (s :: cw) =
      .ok (if B (e.getLast he) = true then (true, some (joinReduced B e s)) else (false, none)) := by
  have := determine_none_eq cc B pw cw e s (e.getLast he) e.dropLast (List.dropLast_concat_getLast he).symm hs
  exact this

example : determine asciiCC none hyphen [['x'], ['a', 'b', '-']] [['c'], ['d']] = .ok (true, some ['a', 'b', 'c']) := by
  decide
example : determine asciiCC none hyphen [['x'], ['a', 'b']] [['c'], ['d']] = .ok (false, none) := by decide

/-- the merged word of the hyphen rule is the two words joined, with at most two trailing break characters
    of the first and at most one leading break character of the second removed — nothing else -/
theorem C17_join_reduced (B : BreakSet) (e s : Str) :
    ∃ e' t u s', e = e' ++ t ∧ s = u ++ s' ∧ joinReduced B e s = e' ++ s' ∧ t.length ≤ 2 ∧ u.length ≤ 1 ∧
      (∀ c ∈ t, B c = true) ∧ (∀ c ∈ u, B c = true) ∧
      ((∃ p a, e = p ++ [a] ∧ B a = true) → t ≠ []) := by
  obtain ⟨t, h1, h2, h3, h4⟩ := stripEnd_spec B e
  obtain ⟨u, g1, g2, g3⟩ := stripStart_spec B s
  refine ⟨stripEnd B e, t, u, stripStart B s, h1, g1, rfl, h2, g2, h3, g3, ?_⟩
  rintro ⟨p, a, hpa, hB⟩ ht
  have := (h4.mp ht) p a hpa
  rw [hB] at this; cases this

example : joinReduced hyphen ['a', '-', '-'] ['-', '-', 'b'] = ['a', '-', 'b'] := by decide

/-- without words on either side there is no merge, with or without a detector -/
theorem C17_no_words_no_merge (cc : CharClass) (det : Option Detector) (B : BreakSet) (pw cw : List Str)
    (h : pw = [] ∨ cw = []) : determine cc det B pw cw = .ok (false, none) :=
  determine_no_words cc det B pw cw h

example : determine asciiCC none hyphen [] [['a']] = .ok (false, none) := by decide

/-- with a detector — any record of counters and sets whatsoever — the answer is no merge, or a merge
    into the plain concatenation, or a merge into the junction join (over the detector's break set) -/
theorem C17_detector_range (cc : CharClass) (D : Detector) (B0 : BreakSet) (pw cw : List Str) (e s : Str)
    (he : e ≠ []) (hs : s ≠ []) :
    ∃ d, determine cc (some D) B0 (pw ++ [e]) (s :: cw) = .ok d ∧
      (d = (false, none) ∨ d = (true, some (e ++ s)) ∨ d = (true, some (joinReduced D.breakChars e s))) :=
  determine_some_range cc D B0 pw cw e s he hs

/-- some detector with non-trivial counters -/
def busyDetector : Detector where
  freqAll _ := 1
  freqMid _ := 2
  freqStart _ := 0
  freqEnd _ := 7
  bigram _ _ := 11
  typicalMergeEnds _ := false
  typicalMergeStarts w := w = ['c']
  typicalNonMergeEnds _ := false
  typicalNonMergeStarts _ := false
  commonNonMergeStarts _ := false
  breakChars := hyphen

example : True := by
  have := C17_detector_range asciiCC busyDetector hyphen [['x']] [] ['a', '-'] ['c'] (by simp) (by simp)
  trivial

/-- a bigram count above `factor` × the merged word's frequency (and above `factor`), for the factor of the
    first call of end_start_are_bigram whatever it is now: treated as two words -/
example : determine asciiCC (some { busyDetector with bigram := fun _ _ => 2 * Generated.C17.bigramFactorFirst + 1 })
    hyphen [['x'], ['a', '-']] [['c']] = .ok (false, none) := by
  decide
example : determine asciiCC (some { busyDetector with bigram := fun _ _ => 0 }) hyphen [['x'], ['a', '-']] [['c']] =
    .ok (true, some ['a', 'c']) := by decide

/-- a detector that knows nothing (all counters 0, all sets empty) -/
def emptyDetector : Detector where
  freqAll _ := 0
  freqMid _ := 0
  freqStart _ := 0
  freqEnd _ := 0
  bigram _ _ := 0
  typicalMergeEnds _ := false
  typicalMergeStarts _ := false
  typicalNonMergeEnds _ := false
  typicalNonMergeStarts _ := false
  commonNonMergeStarts _ := false
  breakChars := hyphen

example : determine asciiCC (some emptyDetector) hyphen [['a', 'b', '-']] [['c']] = .ok (true, some ['a', 'b', 'c']) := by
  decide
example : determine asciiCC (some { emptyDetector with freqAll := fun w => if w = ['a', '-', 'c'] then 3 else 0 })
    hyphen [['a', '-']] [['c']] = .ok (true, some ['a', '-', 'c']) := by decide

/-- never a merge when either word is pure punctuation (has no `\w` character) -/
theorem C17_punct_never_merges (cc : CharClass) (D : Detector) (B0 : BreakSet) (pw cw : List Str) (e s : Str)
    (he : e ≠ []) (hs : s ≠ [])
    (hp : (∀ c ∈ e, cc.isWord c = false) ∨ (∀ c ∈ s, cc.isWord c = false)) :
    determine cc (some D) B0 (pw ++ [e]) (s :: cw) = .ok (false, none) := by
  apply determine_some_punct cc D B0 pw cw e s he hs
  rcases hp with hp | hp
  · left; simp only [hasWordChar, List.any_eq_false]; intro c hc; simp [hp c hc]
  · right; simp only [hasWordChar, List.any_eq_false]; intro c hc; simp [hp c hc]

example : determine asciiCC (some emptyDetector) hyphen [['a', '-']] [['.']] = .ok (false, none) := by decide

/-- the decision on the words of any two lines is total and well formed: a merge always carries a word,
    a non-merge never does — with or without a detector -/
theorem C17_decision_wellformed (cc : CharClass) (det : Option Detector) (B B0 : BreakSet) (l1 l2 : Option Str)
    (pw cw : List Str) (h1 : lineWords cc B l1 = .ok pw) (h2 : lineWords cc B l2 = .ok cw) :
    ∃ d, determine cc det B0 pw cw = .ok d ∧ (d.1 = true → d.2.isSome = true) ∧ (d.1 = false → d.2 = none) := by
  by_cases hpw : pw = []
  · exact ⟨_, determine_no_words cc det B0 pw cw (Or.inl hpw), by simp, by simp⟩
  by_cases hcw : cw = []
  · exact ⟨_, determine_no_words cc det B0 pw cw (Or.inr hcw), by simp, by simp⟩
  obtain ⟨pi, e, rfl⟩ := exists_concat hpw
  obtain ⟨s, cr, rfl⟩ : ∃ s cr, cw = s :: cr := by
    cases cw with
    | nil => exact absurd rfl hcw
    | cons s cr => exact ⟨s, cr, rfl⟩
  have he : e ≠ [] := (C17_no_empty_token cc B l1 _ h1 e (by simp)).1
  have hs : s ≠ [] := (C17_no_empty_token cc B l2 _ h2 s (by simp)).1
  cases det with
  | none =>
    refine ⟨_, C17_hyphen_rule cc B0 pi cr e s he hs, ?_, ?_⟩ <;> split <;> simp
  | some D =>
    obtain ⟨d, hd, hr⟩ := determine_some_range cc D B0 pi cr e s he hs
    refine ⟨d, hd, ?_, ?_⟩ <;> rcases hr with rfl | rfl | rfl <;> simp

example : ∃ pw cw, lineWords asciiCC hyphen (some ['a', '-']) = .ok pw ∧ lineWords asciiCC hyphen (some ['b']) = .ok cw ∧
    determine asciiCC none hyphen pw cw = .ok (true, some ['a', 'b']) := ⟨_, _, rfl, rfl, by decide⟩

/-! ### the strip helpers -/

/-- `remove_word_break_chars` on two words: total, and the result is obtained by deleting at most two
    trailing characters of the end word and at most one leading character of the start word, all of
    them break characters -/
theorem C17_strip_only_breaks (B : BreakSet) (e s : Str) (he : e ≠ []) (hs : s ≠ []) :
    ∃ r e' t u s', removeWordBreakChars B e s = .ok r ∧ e = e' ++ t ∧ s = u ++ s' ∧ r = e' ++ s' ∧
      t.length ≤ 2 ∧ u.length ≤ 1 ∧ (∀ c ∈ t, B c = true) ∧ (∀ c ∈ u, B c = true) := by
  obtain ⟨e', t, u, s', h1, h2, h3, h4, h5, h6, h7, _⟩ := C17_join_reduced B e s
  exact ⟨_, e', t, u, s', removeWordBreakChars_eq B e s he hs, h1, h2, h3, h4, h5, h6, h7⟩

example : removeWordBreakChars hyphen ['a', 'b', '-', '-'] ['-', 'c'] = .ok ['a', 'b', 'c'] := by decide

/-- `remove_hyphen` on a word: total, removes at most two trailing characters, all from `-`, `=`, `:`
    (the character set and the doubled hyphen of the source are regenerated; that they stay within the
    statement's three hyphens is `C17_consts_hyphen_set_within_spec` / `C17_consts_double_hyphen_in_set`) -/
theorem C17_remove_hyphen_only_breaks (w : Str) (hw : w ≠ []) :
    ∃ r t, removeHyphen w = .ok r ∧ w = r ++ t ∧ t.length ≤ 2 ∧ (∀ c ∈ t, c = '-' ∨ c = '=' ∨ c = ':') := by
  obtain ⟨r, t, h1, h2, h3, h4⟩ := removeHyphen_spec w hw
  exact ⟨r, t, h1, h2, h3, fun c hc => hyphenSet_spec c (h4 c hc)⟩

example : ∃ r t, removeHyphen ['a', '-', '-'] = .ok r ∧ ['a', '-', '-'] = r ++ t ∧ t.length ≤ 2 :=
  let ⟨r, t, h1, h2, h3, _⟩ := C17_remove_hyphen_only_breaks ['a', '-', '-'] (by simp); ⟨r, t, h1, h2, h3⟩
/-- with the character set and doubled hyphen as they are in the source now (whatever they are), a word ending
    in the doubled hyphen loses … what the model computes; the result is a prefix of the word -/
example : ∃ r, removeHyphen (['a'] ++ Generated.C17.doubleHyphen) = .ok r := ⟨_, rfl⟩

/-- the same in terms of the source's own character set, whatever it is: only characters of that set go -/
theorem C17_remove_hyphen_only_own_set (w : Str) (hw : w ≠ []) :
    ∃ r t, removeHyphen w = .ok r ∧ w = r ++ t ∧ t.length ≤ 2 ∧ (∀ c ∈ t, c ∈ Generated.C17.hyphenChars) := by
  obtain ⟨r, t, h1, h2, h3, h4⟩ := removeHyphen_spec w hw
  exact ⟨r, t, h1, h2, h3, fun c hc => (hyphenSet_iff c).mp (h4 c hc)⟩

example : ∃ r, removeHyphen (['a'] ++ Generated.C17.hyphenChars.take 1) = .ok r := ⟨_, rfl⟩

/-! ### the regenerated literals (Generated/C17.lean): what the theorems above need of them

Nothing for the factors, thresholds, `'-'` literals of the word-break decision and the default break
characters: every theorem above is proved with those as unknown values.  The exceptions: the character
set of `remove_hyphen` and the two blanks of `get_line_words`. -/

/-- the doubled hyphen that `remove_hyphen` strips as a whole consists of characters of its own set, if it
    can match at all (two characters, the last one in the set) -/
theorem C17_consts_double_hyphen_in_set :
    Generated.C17.doubleHyphen.length = 2 → Generated.C17.doubleHyphen.getLast?.all hyphenSet = true →
      ∀ c ∈ Generated.C17.doubleHyphen, hyphenSet c = true :=
  consts_double_hyphen_in_set

/-- the character set of `remove_hyphen` is within the statement's hyphens `-`, `=`, `:` -/
theorem C17_consts_hyphen_set_within_spec : ∀ c ∈ Generated.C17.hyphenChars, c ∈ specHyphens :=
  consts_hyphen_set_within_spec

example : specHyphens = ['-', '=', ':'] := rfl

/-- the two blanks of `get_line_words` (`line[-2] == ' '`, `term == ' '`) are written by hand in the model
    (`normLine`, `wordLoop`); these obligations tie them to the source: both are the single blank U+0020 -/
theorem C17_consts_word_blanks : Generated.C17.normBlank = [' '] ∧ Generated.C17.skipTerm = [' '] :=
  ⟨consts_norm_blank_is_blank, consts_skip_term_is_blank⟩

example : lineWords asciiCC hyphen (some ['a', ' ', '-']) = .ok [['a', '-']] := by decide

/-- the defaults: the functions called without `word_break_chars` are the same functions at the regenerated
    default set, so every theorem above covers them (here: totality) -/
theorem C17_default_total (cc : CharClass) (line : Option Str) : ∃ ws, lineWordsD cc none line = .ok ws :=
  C17_total cc _ line

example : ∃ ws, lineWordsD asciiCC none (some ['a', ' ', 'b']) = .ok ws := ⟨_, rfl⟩

end Pagexml.C17
