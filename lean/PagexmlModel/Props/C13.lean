/-
C13 — With ignore-errors a bad member never aborts or corrupts a batch.

Every theorem quantifies over ALL member sequences (any length, any interleaving of good and faulty
members, any fault at any position) and is checked against the except clauses REGENERATED from
pagexml/parser.py (`Generated/C13.lean`): the finite facts about the clause lists are closed by
`decide` on the generated data, so an edit of the clauses (order, tuple, guard) that breaks the
property breaks the proof.

Which exception class a fault kind raises is not assumed: it is measured from the real parser on
every run.  The theorems hold for every assignment of classes to members, restricted where stated to
the classes listed in `covered`.
-/
import PagexmlModel.Model.C13

namespace Pagexml.C13
open Pagexml.Generated.C13

/-! ### vocabulary of the statements -/

/-- the scans of the well-formed members, in order -/
def goods {α} : List (Member α) → List α
  | [] => []
  | m :: ms => match m.out with
    | .good a => a :: goods ms
    | .fault _ => goods ms

def isGood {α} (m : Member α) : Bool := match m.out with | .good _ => true | .fault _ => false

/-- a non-XML file inside an archive: its name lacks the `.xml` suffix and its content is not XML,
    i.e. the single-file parser raises `ExpatError` on it -/
def isNonXml {α} (m : Member α) : Bool :=
  match m.out with
  | .fault c => c == "ExpatError" && nameLacks m.name ".xml"
  | .good _ => false

/-- the exception classes for which the theorems claim that `ignore_errors` absorbs them, in both
    routes: the "parser error" classes both except tuples name, and the subclasses of `ValueError` a
    non-UTF-8 file raises.  (The archive reader currently also absorbs `FileNotFoundError`; nothing in
    the statement needs that, so it is not claimed.) -/
def covered : List String :=
  ["KeyError", "AttributeError", "IndexError", "ValueError", "TypeError", "ExpatError",
   "UnicodeDecodeError", "UnicodeError"]

/-- every fault of the batch raises a class of `S` -/
def FaultsIn {α} (S : List String) (ms : List (Member α)) : Prop :=
  ∀ m ∈ ms, ∀ c, m.out = .fault c → c ∈ S

/-! ### the clause body depends on the name only through the suffixes it tests -/

def armSuffixes : List Arm → List String
  | [] => []
  | (g, arg, _) :: rest => if g = "name-lacks-suffix" then arg :: armSuffixes rest else armSuffixes rest

def clauseSuffixes : List Clause → List String
  | [] => []
  | (_, arms) :: rest => armSuffixes arms ++ clauseSuffixes rest

private theorem runArms_congr (ig : Bool) (l1 l2 : String → Bool) (arms : List Arm)
    (h : ∀ s ∈ armSuffixes arms, l1 s = l2 s) : runArms ig l1 arms = runArms ig l2 arms := by
  induction arms with
  | nil => rfl
  | cons a rest ih =>
    obtain ⟨g, arg, act⟩ := a
    by_cases hg : g = "name-lacks-suffix"
    · have h1 : l1 arg = l2 arg := h arg (by simp [armSuffixes, hg])
      have h2 : ∀ s ∈ armSuffixes rest, l1 s = l2 s := fun s hs => h s (by simp [armSuffixes, hg, hs])
      simp only [runArms, h1, ih h2]
    · have h2 : ∀ s ∈ armSuffixes rest, l1 s = l2 s := fun s hs => h s (by simp [armSuffixes, hg, hs])
      simp only [runArms, hg, ih h2, if_false]

private theorem handle_congr (ig : Bool) (l1 l2 : String → Bool) (cls : String) (clauses : List Clause)
    (h : ∀ s ∈ clauseSuffixes clauses, l1 s = l2 s) : handle clauses ig l1 cls = handle clauses ig l2 cls := by
  induction clauses with
  | nil => rfl
  | cons cl rest ih =>
    obtain ⟨classes, arms⟩ := cl
    have h1 : ∀ s ∈ armSuffixes arms, l1 s = l2 s := fun s hs => h s (by simp [clauseSuffixes, hs])
    have h2 : ∀ s ∈ clauseSuffixes rest, l1 s = l2 s := fun s hs => h s (by simp [clauseSuffixes, hs])
    simp only [handle, runArms_congr ig l1 l2 arms h1, ih h2]

/-- the only suffix the generated clauses test is `.xml` -/
private theorem suffixes_files : ∀ s ∈ clauseSuffixes filesExcept, s = ".xml" := by decide
private theorem suffixes_archive : ∀ s ∈ clauseSuffixes archiveExcept, s = ".xml" := by decide

private theorem handle_files_name (ig : Bool) (name : List Char) (cls : String) :
    handle filesExcept ig (nameLacks name) cls = handle filesExcept ig (fun _ => nameLacks name ".xml") cls :=
  handle_congr ig _ _ cls filesExcept (fun s hs => by rw [suffixes_files s hs])

private theorem handle_archive_name (ig : Bool) (name : List Char) (cls : String) :
    handle archiveExcept ig (nameLacks name) cls = handle archiveExcept ig (fun _ => nameLacks name ".xml") cls :=
  handle_congr ig _ _ cls archiveExcept (fun s hs => by rw [suffixes_archive s hs])

/-! ### finite facts about the generated clauses (closed by `decide` on the regenerated data) -/

private theorem files_ignore_continue :
    ∀ c ∈ covered, ∀ b : Bool, handle filesExcept true (fun _ => b) c = .continue_ := by decide
private theorem archive_ignore_continue :
    ∀ c ∈ covered, ∀ b : Bool, handle archiveExcept true (fun _ => b) c = .continue_ := by decide

/-- strict mode: in every clause the arms end in `raise` once `ignore_errors` is false (files), resp.
    once additionally the name carries the `.xml` suffix (archive) -/
private theorem files_strict_arms :
    ∀ cl ∈ filesExcept, ∀ b : Bool, runArms false (fun _ => b) cl.2 = .raise_ := by decide
private theorem archive_strict_arms :
    ∀ cl ∈ archiveExcept, runArms false (fun _ => false) cl.2 = .raise_ := by decide

private theorem handle_all_raise (clauses : List Clause) (lacks : String → Bool) (cls : String)
    (h : ∀ cl ∈ clauses, runArms false lacks cl.2 = .raise_) : handle clauses false lacks cls = .raise_ := by
  induction clauses with
  | nil => rfl
  | cons cl rest ih =>
    obtain ⟨classes, arms⟩ := cl
    have h1 : runArms false lacks arms = .raise_ := h (classes, arms) (by simp)
    have h2 := ih (fun cl hcl => h cl (by simp [hcl]))
    simp only [handle, h1, h2, ite_self]

private theorem nonxml_continue :
    ∀ ig : Bool, handle archiveExcept ig (fun _ => true) "ExpatError" = .continue_ := by decide

/-! ### induction over the batch -/

private theorem batch_ignore {α} (clauses : List Clause) (S : List String)
    (h : ∀ c ∈ S, ∀ name, handle clauses true (nameLacks name) c = .continue_)
    (ms : List (Member α)) (hf : FaultsIn S ms) : batch clauses true ms = (goods ms, none) := by
  induction ms with
  | nil => rfl
  | cons m ms ih =>
    have ih' := ih (fun x hx c hc => hf x (by simp [hx]) c hc)
    cases hm : m.out with
    | good a => simp [batch, goods, hm, ih']
    | fault c =>
      have hc : c ∈ S := hf m (by simp) c hm
      simp [batch, goods, hm, h c hc m.name, ih']

/-- **ignore_errors never aborts.**  For every sequence of members, with any faults at any positions
    raising any of the covered classes, the batch reader with `ignore_errors=True` yields every
    well-formed member exactly once, in order (the scan it yields is the member's own stand-alone
    parse, `Outcome.good a`), and no exception escapes — for loose files and for archive members. -/
theorem C13_ignore_never_aborts {α} (ms : List (Member α)) :
    (FaultsIn covered ms → batchFiles true ms = (goods ms, none)) ∧
    (FaultsIn covered ms → batchArchive true ms = (goods ms, none)) := by
  constructor
  · intro hf
    exact batch_ignore filesExcept covered
      (fun c hc name => by rw [handle_files_name]; exact files_ignore_continue c hc _) ms hf
  · intro hf
    exact batch_ignore archiveExcept covered
      (fun c hc name => by rw [handle_archive_name]; exact archive_ignore_continue c hc _) ms hf

example : FaultsIn covered
    [(⟨"a.xml".toList, .good 1⟩ : Member Nat), ⟨"b.xml".toList, .fault "ExpatError"⟩, ⟨"n.txt".toList, .fault "ExpatError"⟩,
     ⟨"c.xml".toList, .fault "KeyError"⟩, ⟨"d.xml".toList, .good 2⟩] := by
  intro m hm c hc
  simp only [List.mem_cons, List.not_mem_nil, or_false] at hm
  rcases hm with rfl | rfl | rfl | rfl | rfl <;> simp_all [covered]
example : batchArchive true
    [(⟨"a.xml".toList, .good 1⟩ : Member Nat), ⟨"b.xml".toList, .fault "ExpatError"⟩, ⟨"n.txt".toList, .fault "ExpatError"⟩,
     ⟨"c.xml".toList, .fault "KeyError"⟩, ⟨"d.xml".toList, .good 2⟩] = ([1, 2], none) := by decide

example : isSubclass "FileNotFoundError" "OSError" = true ∧ isSubclass "UnicodeDecodeError" "ValueError" = true ∧
    isSubclass "ExpatError" "ValueError" = false := by decide

/-! ### strict mode -/

private theorem batch_prefix {α} (clauses : List Clause) (ig : Bool) (pre tail : List (Member α))
    (hpre : ∀ m ∈ pre, isGood m = true ∨
      (∃ c, m.out = .fault c ∧ handle clauses ig (nameLacks m.name) c = .continue_)) :
    batch clauses ig (pre ++ tail) = (goods pre ++ (batch clauses ig tail).1, (batch clauses ig tail).2) := by
  induction pre with
  | nil => simp [goods]
  | cons m ms ih =>
    have ih' := ih (fun x hx => hpre x (by simp [hx]))
    rcases hpre m (by simp) with hg | ⟨c, hc, hh⟩
    · cases hm : m.out with
      | good a => simp [batch, goods, hm, ih']
      | fault c => simp [isGood, hm] at hg
    · simp [batch, goods, hc, hh, ih']

/-- What the coverage hypothesis excludes, exactly: a fault raising a class that no except clause handles
    (or that the clause handling it re-raises) escapes — whatever `ignore_errors` says — and ends the batch:
    the members before it that were good are yielded, nothing after it is.  Stated for ANY clause tables, so it
    holds of the tables the source has now, whatever classes they name; which classes escape today is read off
    the regenerated tables (Generated/C13.lean) and sampled by the examples below.  None of the escaping classes
    is among the fault kinds of the statement (they are measured to raise ExpatError / TypeError / KeyError /
    ValueError). -/
theorem C13_uncovered_class_escapes {α} (clauses : List Clause) (ig : Bool) (pre rest : List (Member α))
    (bad : Member α) (c : String)
    (hpre : ∀ m ∈ pre, isGood m = true ∨
      (∃ c, m.out = .fault c ∧ handle clauses ig (nameLacks m.name) c = .continue_))
    (hbad : bad.out = .fault c) (hraise : handle clauses ig (nameLacks bad.name) c = .raise_) :
    batch clauses ig (pre ++ bad :: rest) = (goods pre, some c) := by
  rw [batch_prefix clauses ig pre (bad :: rest) hpre]
  simp [batch, hbad, hraise]

/-- sampled on the tables of the source as they are now: a class outside every hierarchy the clauses could name
    escapes both routes (non-vacuity of `C13_uncovered_class_escapes`); nothing here depends on WHICH classes
    the clauses list, so widening a clause keeps it true -/
example : batchFiles true [(⟨"a.xml".toList, .good 1⟩ : Member Nat), ⟨"b.xml".toList, .fault "NoSuchErrorClass"⟩,
                           ⟨"c.xml".toList, .good 2⟩] = ([1], some "NoSuchErrorClass") ∧
    batchArchive true [(⟨"b.xml".toList, .fault "NoSuchErrorClass"⟩ : Member Nat), ⟨"c.xml".toList, .good 2⟩]
      = ([], some "NoSuchErrorClass") := by decide

private theorem nonxml_skipped {α} (ig : Bool) (m : Member α) (h : isNonXml m = true) :
    ∃ c, m.out = .fault c ∧ handle archiveExcept ig (nameLacks m.name) c = .continue_ := by
  cases hm : m.out with
  | good a => simp [isNonXml, hm] at h
  | fault c =>
    simp only [isNonXml, hm, Bool.and_eq_true, beq_iff_eq] at h
    refine ⟨c, rfl, ?_⟩
    rw [handle_archive_name, h.1, h.2]
    exact nonxml_continue ig

/-- **Without ignore_errors the first bad PageXML member raises.**  Loose files: the scans of the good
    files before the first faulty file are yielded, then that file's own exception escapes (whatever
    its class).  Archives: the same for the first faulty member *with an `.xml` name*; non-XML members
    before it are skipped.  Nothing after the bad member is read (the generator has ended). -/
theorem C13_strict_raises_first_bad {α} (pre rest : List (Member α)) (bad : Member α) (c : String)
    (hbad : bad.out = .fault c) :
    ((∀ m ∈ pre, isGood m = true) →
        batchFiles false (pre ++ bad :: rest) = (goods pre, some c)) ∧
    ((∀ m ∈ pre, isGood m = true ∨ isNonXml m = true) → nameLacks bad.name ".xml" = false →
        batchArchive false (pre ++ bad :: rest) = (goods pre, some c)) := by
  constructor
  · intro hpre
    have hh : handle filesExcept false (nameLacks bad.name) c = .raise_ := by
      rw [handle_files_name]
      exact handle_all_raise filesExcept _ c (fun cl hcl => files_strict_arms cl hcl _)
    unfold batchFiles
    rw [batch_prefix filesExcept false pre (bad :: rest) (fun m hm => Or.inl (hpre m hm))]
    simp [batch, hbad, hh]
  · intro hpre hname
    have hh : handle archiveExcept false (nameLacks bad.name) c = .raise_ := by
      rw [handle_archive_name, hname]
      exact handle_all_raise archiveExcept _ c archive_strict_arms
    unfold batchArchive
    rw [batch_prefix archiveExcept false pre (bad :: rest) (fun m hm => by
      rcases hpre m hm with h | h
      · exact Or.inl h
      · exact Or.inr (nonxml_skipped false m h))]
    simp [batch, hbad, hh]

example : batchArchive false
    [(⟨"a.xml".toList, .good 1⟩ : Member Nat), ⟨"n.txt".toList, .fault "ExpatError"⟩, ⟨"b.xml".toList, .good 2⟩,
     ⟨"c.xml".toList, .fault "TypeError"⟩, ⟨"d.xml".toList, .good 3⟩] = ([1, 2], some "TypeError") := by decide
example : nameLacks "dir.xml/c.xml".toList ".xml" = false ∧ nameLacks "c.xml.txt".toList ".xml" = true := by decide

/-- strict mode without any bad PageXML member: every good member is yielded, nothing is raised -/
theorem C13_strict_no_bad_member {α} (ms : List (Member α)) :
    ((∀ m ∈ ms, isGood m = true) → batchFiles false ms = (goods ms, none)) ∧
    ((∀ m ∈ ms, isGood m = true ∨ isNonXml m = true) → batchArchive false ms = (goods ms, none)) := by
  constructor
  · intro h
    have := batch_prefix filesExcept false ms [] (fun m hm => Or.inl (h m hm))
    simpa [batchFiles, batch] using this
  · intro h
    have := batch_prefix archiveExcept false ms [] (fun m hm => by
      rcases h m hm with h | h
      · exact Or.inl h
      · exact Or.inr (nonxml_skipped false m h))
    simpa [batchArchive, batch] using this

example : batchArchive false [(⟨"n.jpg".toList, .fault "ExpatError"⟩ : Member Nat), ⟨"a.xml".toList, .good 1⟩]
    = ([1], none) := by decide

/-- **Non-XML files inside archives are skipped in both modes**: deleting them from the archive
    changes neither the scans yielded nor the exception raised, with and without `ignore_errors`. -/
theorem C13_nonxml_skipped_both {α} (ig : Bool) (ms : List (Member α)) :
    batchArchive ig ms = batchArchive ig (ms.filter (fun m => !isNonXml m)) := by
  induction ms with
  | nil => rfl
  | cons m ms ih =>
    unfold batchArchive at ih ⊢
    by_cases h : isNonXml m = true
    · obtain ⟨c, hc, hh⟩ := nonxml_skipped ig m h
      simp [List.filter, h, batch, hc, hh, ih]
    · have h' : isNonXml m = false := by simpa using h
      cases hm : m.out with
      | good a => simp [List.filter, h', batch, hm, ih]
      | fault c =>
        simp only [List.filter, h', Bool.not_false, batch, hm]
        cases handle archiveExcept ig (nameLacks m.name) c <;> simp [ih]

example : (([(⟨"n.txt".toList, .fault "ExpatError"⟩ : Member Nat), ⟨"a.xml".toList, .good 1⟩,
            ⟨"e.dat".toList, .fault "ExpatError"⟩]).filter (fun m => !isNonXml m)) = [⟨"a.xml".toList, .good 1⟩] := by
  decide

/-- boundary of the reading chosen for "non-XML file" (recorded, not hidden): a member whose name
    lacks `.xml` but whose content is well-formed XML that is not PageXML raises `TypeError`, which in
    strict mode escapes; with `ignore_errors` it is skipped. -/
theorem C13_other_name_wellformed_xml_boundary :
    batchArchive false [(⟨"a.xml".toList, .good 1⟩ : Member Nat), ⟨"w.svg".toList, .fault "TypeError"⟩,
                        ⟨"b.xml".toList, .good 2⟩] = ([1], some "TypeError") ∧
    batchArchive true [(⟨"a.xml".toList, .good 1⟩ : Member Nat), ⟨"w.svg".toList, .fault "TypeError"⟩,
                       ⟨"b.xml".toList, .good 2⟩] = ([1, 2], none) := by decide

end Pagexml.C13
