/-
C12 — Every source yields the same parsed document; archives are read completely.

Property theorems only.  The dispatch theorem is a statement about `os.path.splitext` (transcribed)
and the tables REGENERATED from pagexml/helper/file_helper.py (`Generated/C12.lean`): its finite
facts are closed by `decide` on the generated data, so removing an extension from one table, or
mapping it to the wrong archiver or mode, breaks the proof.
-/
import PagexmlModel.Model.C12
import PagexmlModel.Model.C13
import PagexmlModel.Lemmas.Path

namespace Pagexml.C12
open Pagexml.Generated.C12

/-! ### vocabulary -/

/-- every accepted file-name extension with the container format it stands for and the reader that
    must be used for it (the statement's list: .zip .tar .tar.gz .tgz .tar.bz2 .tbz2 .7z) -/
def accepted : List (String × Kind × String) :=
  [(".zip", .zip, "read_zip_handle"), (".tar", .tar, "read_tar_handle"),
   (".tar.gz", .targz, "read_tar_handle"), (".tgz", .targz, "read_tar_handle"),
   (".tar.bz2", .tarbz2, "read_tar_handle"), (".tbz2", .tarbz2, "read_tar_handle"),
   (".7z", .sevenz, "read_7z_handle")]

/-- `p` is the path of a file called `stem ++ ext`: any directory part (none, written with `/`,
    written with `\\`, or mixing both — `IsPathOf` has one case per branch of
    `parse_archived_filename`), any stem that is not made of dots only -/
def NamedAs (p : Path) (ext : String) : Prop :=
  ∃ stem : Path, (∃ c ∈ stem, c ≠ '.') ∧ IsPathOf p (stem ++ ext.toList)

/-! ### dispatch -/

private theorem dispatch_core (p x : Path) (kind : Kind) (reader a m o : String)
    (hx : (parseArchivedFilename p).ext = x)
    (h0 : isZipExt x = true)
    (h1 : lookupMode x archiverModeChain = some (a, m))
    (h2 : lookupFns a archiveFunctions = some (o, reader))
    (h3 : opens o m kind = true) :
    isZipExt (parseArchivedFilename p).ext = true ∧ openInner p (some kind) = .ok reader ∧
    archiverMode p = .ok (a, m) ∧ archiveFns a = .ok (o, reader) ∧ opens o m kind = true := by
  have e1 : archiverMode p = .ok (a, m) := by simp only [archiverMode, hx, h1]
  have e2 : archiveFns a = .ok (o, reader) := by simp only [archiveFns, h2]
  refine ⟨by rw [hx]; exact h0, ?_, e1, e2, h3⟩
  simp only [openInner, e1, e2, h3, bind, Except.bind, if_true]

private theorem stem_facts {p stem x : Path} (h : IsPathOf p (stem ++ x)) : '/' ∉ stem ∧ '/' ∉ x := by
  have := h.no_slash
  simp only [List.mem_append, not_or] at this
  exact this

/-- **Dispatch is total on the accepted extensions.**  For every accepted extension, every stem that
    is not only dots and every directory part, `get_archiver_mode` resolves the path to an archiver and
    mode whose library opens exactly that container format, `get_archive_functions` hands out the
    matching reader, and the extension is in `ZIP_EXTENSIONS` (so the same file is also expanded when
    it is found inside a zip or tar archive). -/
theorem C12_dispatch_total (p : Path) (ext : String) (kind : Kind) (reader : String)
    (h : (ext, kind, reader) ∈ accepted) (hp : NamedAs p ext) :
    (parseArchivedFilename p).ext = ext.toList ∧
    isZipExt (parseArchivedFilename p).ext = true ∧
    openInner p (some kind) = .ok reader ∧
    ∃ a m o, archiverMode p = .ok (a, m) ∧ archiveFns a = .ok (o, reader) ∧ opens o m kind = true := by
  obtain ⟨stem, hs, hpath⟩ := hp
  have hfile : (splitDirFile p).2 = stem ++ ext.toList := splitDirFile_file p _ hpath
  have hext : (parseArchivedFilename p).ext = extOfFile (stem ++ ext.toList) := by
    rw [parseArchivedFilename_ext, hfile]
  have hb : '/' ∉ doubleBaseSuffix.toList := by decide
  simp only [accepted, List.mem_cons, Prod.mk.injEq, List.not_mem_nil, or_false] at h
  rcases h with ⟨rfl, rfl, rfl⟩ | ⟨rfl, rfl, rfl⟩ | ⟨rfl, rfl, rfl⟩ | ⟨rfl, rfl, rfl⟩ | ⟨rfl, rfl, rfl⟩ |
    ⟨rfl, rfl, rfl⟩ | ⟨rfl, rfl, rfl⟩
  · have e : (".zip" : String).toList = '.' :: "zip".toList := by decide
    rw [e] at hpath hext ⊢
    obtain ⟨n1, n2⟩ := stem_facts hpath
    have hx := hext.trans (extOfFile_single stem _ hs n1 (by decide) (by decide) (by decide))
    obtain ⟨q1, q2, q3, q4, q5⟩ := dispatch_core p _ .zip "read_zip_handle" "zip" "r" "zipfile.ZipFile" hx
      (by decide) (by decide) (by decide) (by decide)
    exact ⟨hx, q1, q2, _, _, _, q3, q4, q5⟩
  · have e : (".tar" : String).toList = '.' :: "tar".toList := by decide
    rw [e] at hpath hext ⊢
    obtain ⟨n1, n2⟩ := stem_facts hpath
    have hx := hext.trans (extOfFile_single stem _ hs n1 (by decide) (by decide) (by decide))
    obtain ⟨q1, q2, q3, q4, q5⟩ := dispatch_core p _ .tar "read_tar_handle" "tar" "r:" "tarfile.open" hx
      (by decide) (by decide) (by decide) (by decide)
    exact ⟨hx, q1, q2, _, _, _, q3, q4, q5⟩
  · have e : (".tar.gz" : String).toList = doubleBaseSuffix.toList ++ '.' :: "gz".toList := by decide
    rw [e, ← List.append_assoc] at hpath hext
    rw [e]
    obtain ⟨n1, n2⟩ := stem_facts hpath
    simp only [List.mem_append, not_or] at n1
    have hx := hext.trans (extOfFile_double stem _ hs n1.1 (by decide) (by decide) hb (by decide))
    obtain ⟨q1, q2, q3, q4, q5⟩ := dispatch_core p _ .targz "read_tar_handle" "tar" "r:gz" "tarfile.open" hx
      (by decide) (by decide) (by decide) (by decide)
    exact ⟨hx.trans (by decide), q1, q2, _, _, _, q3, q4, q5⟩
  · have e : (".tgz" : String).toList = '.' :: "tgz".toList := by decide
    rw [e] at hpath hext ⊢
    obtain ⟨n1, n2⟩ := stem_facts hpath
    have hx := hext.trans (extOfFile_single stem _ hs n1 (by decide) (by decide) (by decide))
    obtain ⟨q1, q2, q3, q4, q5⟩ := dispatch_core p _ .targz "read_tar_handle" "tar" "r:gz" "tarfile.open" hx
      (by decide) (by decide) (by decide) (by decide)
    exact ⟨hx, q1, q2, _, _, _, q3, q4, q5⟩
  · have e : (".tar.bz2" : String).toList = doubleBaseSuffix.toList ++ '.' :: "bz2".toList := by decide
    rw [e, ← List.append_assoc] at hpath hext
    rw [e]
    obtain ⟨n1, n2⟩ := stem_facts hpath
    simp only [List.mem_append, not_or] at n1
    have hx := hext.trans (extOfFile_double stem _ hs n1.1 (by decide) (by decide) hb (by decide))
    obtain ⟨q1, q2, q3, q4, q5⟩ := dispatch_core p _ .tarbz2 "read_tar_handle" "tar" "r:bz2" "tarfile.open" hx
      (by decide) (by decide) (by decide) (by decide)
    exact ⟨hx.trans (by decide), q1, q2, _, _, _, q3, q4, q5⟩
  · have e : (".tbz2" : String).toList = '.' :: "tbz2".toList := by decide
    rw [e] at hpath hext ⊢
    obtain ⟨n1, n2⟩ := stem_facts hpath
    have hx := hext.trans (extOfFile_single stem _ hs n1 (by decide) (by decide) (by decide))
    obtain ⟨q1, q2, q3, q4, q5⟩ := dispatch_core p _ .tarbz2 "read_tar_handle" "tar" "r:bz2" "tarfile.open" hx
      (by decide) (by decide) (by decide) (by decide)
    exact ⟨hx, q1, q2, _, _, _, q3, q4, q5⟩
  · have e : (".7z" : String).toList = '.' :: "7z".toList := by decide
    rw [e] at hpath hext ⊢
    obtain ⟨n1, n2⟩ := stem_facts hpath
    have hx := hext.trans (extOfFile_single stem _ hs n1 (by decide) (by decide) (by decide))
    obtain ⟨q1, q2, q3, q4, q5⟩ := dispatch_core p _ .sevenz "read_7z_handle" "py7zr" "r" "py7zr.SevenZipFile" hx
      (by decide) (by decide) (by decide) (by decide)
    exact ⟨hx, q1, q2, _, _, _, q3, q4, q5⟩

example : NamedAs "/data/scans v1.2/batch.2024.tar.gz".toList ".tar.gz" :=
  ⟨"batch.2024".toList, ⟨'b', by decide, by decide⟩,
   IsPathOf.posix "/data/scans v1.2".toList "batch.2024.tar.gz".toList (by decide) (by decide) (by decide)⟩
example : NamedAs "C:\\scans\\x.7z".toList ".7z" :=
  ⟨"x".toList, ⟨'x', by decide, by decide⟩,
   IsPathOf.backslash "C:\\scans".toList "x.7z".toList (by decide) (by decide) (by decide)⟩
example : NamedAs "a\\b/./c\\x.tbz2".toList ".tbz2" :=
  ⟨"c\\x".toList, ⟨'c', by decide, by decide⟩,
   IsPathOf.mixed "a\\b/.".toList "c\\x.tbz2".toList (by decide) (by decide) (by decide) (by decide) (by decide)⟩
/-- the hypothesis on the stem is needed: a file called `.zip` has no extension for `splitext` -/
example : archiverMode ".zip".toList = .error "ValueError" := by rfl

/-! ### reading an archive -/

mutual
/-- what the statement demands of a reader, written without reference to the reader: the regular
    members of the archive tree, in archive order, each with the chain of enclosing archives, its base
    name (what follows the last `/`), its full archived path and its exact bytes; directories
    contribute nothing; a nested archive contributes its own regular members, in place -/
def regular (chain : List Path) : Member → List (FileInfo × Bytes)
  | .file p d => [({ sourceFile := chain, archivedFilename := lastSeg '/' p, archivedFilepath := p }, d)]
  | .dir _ => []
  | .nested p _ _ inner => regulars (chain ++ [p]) inner
def regulars (chain : List Path) : List Member → List (FileInfo × Bytes)
  | [] => []
  | m :: ms => regular chain m ++ regulars chain ms
end

/-- an item as the reader yields it: with the bytes, or (names-only) without -/
def view (namesOnly : Bool) (it : FileInfo × Bytes) : Item := (it.1, content namesOnly it.2)

mutual
/-- the archive trees of the statement: member paths written with `/`; a plain file does not carry an
    archive extension; a nested archive is a zip or tar container (any depth) stored under one of the
    accepted extensions of its own format -/
def WFm : Member → Prop
  | .file p _ => '\\' ∉ p ∧ isZipExt (parseArchivedFilename p).ext = false
  | .dir _ => True
  | .nested p k _ inner =>
    '\\' ∉ p ∧ (∃ ext reader, (ext, k, reader) ∈ accepted ∧ k ≠ .sevenz ∧ NamedAs p ext) ∧ WFs inner
def WFs : List Member → Prop
  | [] => True
  | m :: ms => WFm m ∧ WFs ms
end

private def prep (pre : List Path) (it : FileInfo × Bytes) : FileInfo × Bytes :=
  ({ it.1 with sourceFile := pre ++ it.1.sourceFile }, it.2)

mutual
private theorem regular_chain (pre : List Path) : (m : Member) → (ch : List Path) →
    regular (pre ++ ch) m = (regular ch m).map (prep pre)
  | .file p d, ch => by simp [regular, prep]
  | .dir _, ch => by simp [regular]
  | .nested p k raw inner, ch => by
    simp only [regular]
    rw [List.append_assoc]
    exact regulars_chain pre inner (ch ++ [p])
private theorem regulars_chain (pre : List Path) : (ms : List Member) → (ch : List Path) →
    regulars (pre ++ ch) ms = (regulars ch ms).map (prep pre)
  | [], ch => by simp [regulars]
  | m :: ms, ch => by
    simp only [regulars, List.map_append]
    rw [regular_chain pre m ch, regulars_chain pre ms ch]
end

private theorem view_prep (b : Bool) (pre : List Path) (it : FileInfo × Bytes) :
    view b (prep pre it) = prependSource pre (view b it) := rfl

private theorem accepted_reader : ∀ t ∈ accepted, t.2.1 ≠ Kind.sevenz →
    t.2.2 = "read_zip_handle" ∨ t.2.2 = "read_tar_handle" := by decide

private theorem gen_append_ok {α} (xs ys : List α) (e : Option String) :
    (Gen.append ⟨xs, none⟩ ⟨ys, e⟩ : Gen α) = ⟨xs ++ ys, e⟩ := rfl

mutual
private theorem readMember_spec (b : Bool) : (m : Member) → (reader : String) → (name : Path) →
    (reader = "read_zip_handle" ∨ reader = "read_tar_handle") → WFm m →
    readMember b reader name m = ⟨(regular [name] m).map (view b), none⟩
  | .dir _, reader, name, _, _ => by simp [readMember, regular, Gen.nil]
  | .file p d, reader, name, hr, h => by
    have h7 : reader ≠ "read_7z_handle" := by rcases hr with rfl | rfl <;> decide
    obtain ⟨hb, hz⟩ := h
    simp only [readMember, h7, if_false, hz, Bool.false_eq_true, regular, List.map, view, Gen.yield, mkInfo,
      parseArchivedFilename_file, splitDirFile_posix p hb]
  | .nested p k raw inner, reader, name, hr, h => by
    have h7 : reader ≠ "read_7z_handle" := by rcases hr with rfl | rfl <;> decide
    obtain ⟨hb, ⟨ext, ireader, hacc, hk, hnamed⟩, hin⟩ := h
    obtain ⟨_, hz, hopen, _⟩ := C12_dispatch_total p ext k ireader hacc hnamed
    have hir : ireader = "read_zip_handle" ∨ ireader = "read_tar_handle" := accepted_reader _ hacc hk
    have ih := readHandle_spec b inner ireader p hir hin
    have hir' : ireader = "read_zip_handle" ∨ ireader = "read_tar_handle" ∨ ireader = "read_7z_handle" := by
      rcases hir with h | h
      · exact Or.inl h
      · exact Or.inr (Or.inl h)
    simp only [readMember, h7, if_false, hz, if_true, hopen, hir', ih, Gen.map, mkInfo, regular]
    have e : (regulars ([name] ++ [p]) inner).map (view b)
        = ((regulars [p] inner).map (view b)).map (prependSource [name]) := by
      rw [regulars_chain [name] inner [p], List.map_map, List.map_map]; rfl
    rw [e]
private theorem readHandle_spec (b : Bool) : (ms : List Member) → (reader : String) → (name : Path) →
    (reader = "read_zip_handle" ∨ reader = "read_tar_handle") → WFs ms →
    readHandle b reader name ms = ⟨(regulars [name] ms).map (view b), none⟩
  | [], reader, name, _, _ => by simp [readHandle, regulars, Gen.nil]
  | m :: ms, reader, name, hr, h => by
    simp only [readHandle, regulars, List.map_append]
    rw [readMember_spec b m reader name hr h.1, readHandle_spec b ms reader name hr h.2]
    rfl
end

/-- the base name in `regular` is what the statement calls the base name: the part of the archived
    path after its last `/` (the whole path if it has none) -/
theorem C12_base_name (dir base : Path) (h : '/' ∉ base) :
    lastSeg '/' (dir ++ '/' :: base) = base ∧ lastSeg '/' base = base :=
  ⟨lastSeg_append '/' dir base h, lastSeg_no_sep '/' base h⟩

/-- the hypothesis `WFm` makes about plain files is met by every member called `….xml` (any
    directory, any stem that is not only dots): it is never mistaken for an archive -/
theorem C12_xml_member_is_plain (p : Path) (hp : NamedAs p ".xml") :
    (parseArchivedFilename p).ext = ".xml".toList ∧ isZipExt (parseArchivedFilename p).ext = false := by
  obtain ⟨stem, hs, hpath⟩ := hp
  have hfile : (splitDirFile p).2 = stem ++ ".xml".toList := splitDirFile_file p _ hpath
  have e : (".xml" : String).toList = '.' :: "xml".toList := by decide
  have hno := hpath.no_slash
  rw [e] at hfile hno
  simp only [List.mem_append, not_or] at hno
  have hx : (parseArchivedFilename p).ext = '.' :: "xml".toList := by
    rw [parseArchivedFilename_ext, hfile]
    exact extOfFile_single stem _ hs hno.1 (by decide) (by decide) (by decide)
  rw [hx]
  exact ⟨by decide, by decide⟩

example : NamedAs "pages/deep/er/doc 12.xml".toList ".xml" :=
  ⟨"doc 12".toList, ⟨'d', by decide, by decide⟩,
   IsPathOf.posix "pages/deep/er".toList "doc 12.xml".toList (by decide) (by decide) (by decide)⟩

/-- **Every regular member exactly once, in archive order** (zip and tar family, nesting of
    unbounded depth).  For an archive file stored under any accepted extension of its format, holding
    any well-formed archive tree, `read_page_archive_file` yields exactly the list `regulars`: every
    regular member once, in archive order, with its base name, its full archived path, its exact
    bytes (names-only: no content) and the chain of enclosing archives; directories are skipped,
    nested zip / tar archives are expanded in place; and no exception ends the generator. -/
theorem C12_members_once_in_order (namesOnly : Bool) (p : Path) (ext : String) (kind : Kind) (reader : String)
    (hacc : (ext, kind, reader) ∈ accepted) (hk : kind ≠ .sevenz) (hp : NamedAs p ext)
    (a : Archive) (hwf : WFs a) :
    readPageArchiveFile namesOnly p kind a = ⟨(regulars [p] a).map (view namesOnly), none⟩ := by
  obtain ⟨_, _, _, am, m, o, h1, h2, h3⟩ := C12_dispatch_total p ext kind reader hacc hp
  have hr : reader = "read_zip_handle" ∨ reader = "read_tar_handle" := accepted_reader _ hacc hk
  have hr' : reader = "read_zip_handle" ∨ reader = "read_tar_handle" ∨ reader = "read_7z_handle" := by
    rcases hr with h | h
    · exact Or.inl h
    · exact Or.inr (Or.inl h)
  simp only [readPageArchiveFile, h1, h2, h3, if_true, hr', readHandle_spec namesOnly a reader p hr hwf]

/-- a 7z archive of the statement: regular files and directories (the 7z reader never opens a member,
    whatever it is called) -/
def Flat7z : List Member → Prop
  | [] => True
  | .file p _ :: ms => '\\' ∉ p ∧ Flat7z ms
  | .dir _ :: ms => Flat7z ms
  | .nested _ _ _ _ :: _ => False

private theorem read7z_spec (b : Bool) (name : Path) : (ms : List Member) → Flat7z ms →
    readHandle b "read_7z_handle" name ms = ⟨(regulars [name] ms).map (view b), none⟩
  | [], _ => by simp [readHandle, regulars, Gen.nil]
  | .file p d :: ms, h => by
    simp only [readHandle, regulars, List.map_append, readMember, if_true, read7z_spec b name ms h.2,
      regular, Gen.yield, mkInfo, parseArchivedFilename_file, splitDirFile_posix p h.1]
    rfl
  | .dir _ :: ms, h => by
    simp only [readHandle, regulars, readMember, read7z_spec b name ms h, regular, Gen.nil]
    rfl
  | .nested _ _ _ _ :: _, h => by simp [Flat7z] at h

/-- … and the same for 7z archives -/
theorem C12_members_once_in_order_7z (namesOnly : Bool) (p : Path) (hp : NamedAs p ".7z")
    (a : Archive) (hflat : Flat7z a) :
    readPageArchiveFile namesOnly p .sevenz a = ⟨(regulars [p] a).map (view namesOnly), none⟩ := by
  obtain ⟨_, _, _, am, m, o, h1, h2, h3⟩ :=
    C12_dispatch_total p ".7z" .sevenz "read_7z_handle" (by decide) hp
  simp only [readPageArchiveFile, h1, h2, h3, if_true, or_true, read7z_spec namesOnly p a hflat]

/-! non-vacuity: a tar.gz holding a directory, two documents, an empty member and a zip that holds a
    tgz (depth 2); the members come out flattened, in order, with chains -/
private def demoInner2 : List Member := [.file "deep/d.xml".toList [1]]
private def demoInner1 : List Member :=
  [.file "m.xml".toList [2], .nested "x/l2.tgz".toList .targz [] demoInner2, .file "e.txt".toList []]
private def demo : Archive :=
  [.dir "d/".toList, .file "d/a.xml".toList [3], .nested "l1.zip".toList .zip [] demoInner1,
   .file "top.xml".toList [4]]

example : WFs demo := by
  refine ⟨trivial, ⟨by decide, by decide⟩, ⟨by decide, ⟨".zip", "read_zip_handle", by decide, by decide, ?_⟩, ?_⟩,
    ⟨by decide, by decide⟩, trivial⟩
  · exact ⟨"l1".toList, ⟨'l', by decide, by decide⟩, IsPathOf.bare _ (by decide) (by decide)⟩
  · refine ⟨⟨by decide, by decide⟩, ⟨by decide, ⟨".tgz", "read_tar_handle", by decide, by decide, ?_⟩, ?_⟩,
      ⟨by decide, by decide⟩, trivial⟩
    · exact ⟨"l2".toList, ⟨'l', by decide, by decide⟩,
        IsPathOf.posix "x".toList "l2.tgz".toList (by decide) (by decide) (by decide)⟩
    · exact ⟨⟨by decide, by decide⟩, trivial⟩

example : (regulars ["/t/o.tar.gz".toList] demo).map (fun it => (it.1.sourceFile.map String.ofList,
    String.ofList it.1.archivedFilename, String.ofList it.1.archivedFilepath, it.2)) =
    [(["/t/o.tar.gz"], "a.xml", "d/a.xml", [3]),
     (["/t/o.tar.gz", "l1.zip"], "m.xml", "m.xml", [2]),
     (["/t/o.tar.gz", "l1.zip", "x/l2.tgz"], "d.xml", "deep/d.xml", [1]),
     (["/t/o.tar.gz", "l1.zip"], "e.txt", "e.txt", []),
     (["/t/o.tar.gz"], "top.xml", "top.xml", [4])] := by decide

example : Flat7z [.dir "d".toList, .file "d/a.xml".toList [1], .file "in.zip".toList [2]] := by
  exact ⟨by decide, by decide, trivial⟩

/-! ### names-only -/

private def dropContent (it : Item) : Item := (it.1, none)

private theorem gen_map_append {α β} (f : α → β) (g h : Gen α) :
    (g.append h).map f = (g.map f).append (h.map f) := by
  cases g with
  | mk gi ge =>
    cases ge with
    | none => simp [Gen.append, Gen.map]
    | some e => simp [Gen.append, Gen.map]

private theorem gen_map_map {α β γ} (f : α → β) (g : β → γ) (x : Gen α) :
    (x.map f).map g = x.map (g ∘ f) := by
  simp [Gen.map]

mutual
private theorem readMember_names (r : String) : (m : Member) → (n : Path) →
    readMember true r n m = (readMember false r n m).map dropContent
  | .dir _, n => by simp [readMember, Gen.nil, Gen.map]
  | .file p d, n => by
    simp only [readMember]
    split
    · rfl
    · split
      · cases openInner p none <;> rfl
      · rfl
  | .nested p k raw inner, n => by
    simp only [readMember]
    split
    · rfl
    · split
      · cases openInner p (some k) with
        | error e => rfl
        | ok ir =>
          simp only []
          split
          · rw [readHandle_names ir inner p, gen_map_map, gen_map_map]
            rfl
          · rfl
      · rfl
private theorem readHandle_names (r : String) : (ms : List Member) → (n : Path) →
    readHandle true r n ms = (readHandle false r n ms).map dropContent
  | [], n => by simp [readHandle, Gen.nil, Gen.map]
  | m :: ms, n => by
    simp only [readHandle]
    rw [gen_map_append, readMember_names r m n, readHandle_names r ms n]
end

/-- **Names-only mode yields the same members without content** — for every archive tree whatsoever
    (no well-formedness needed), every file name and every container format: the same file infos in
    the same order, the same exception (if any) at the same place, every content `None`. -/
theorem C12_names_only (p : Path) (kind : Kind) (a : Archive) :
    readPageArchiveFile true p kind a = (readPageArchiveFile false p kind a).map (fun it => (it.1, none)) := by
  unfold readPageArchiveFile
  cases archiverMode p with
  | error e => rfl
  | ok am =>
    obtain ⟨ar, m⟩ := am
    simp only []
    cases archiveFns ar with
    | error e => rfl
    | ok orr =>
      obtain ⟨o, r⟩ := orr
      simp only []
      split
      · split
        · exact readHandle_names r a p
        · rfl
      · rfl

example : readPageArchiveFile true "/t/o.zip".toList .zip demo
    = (readPageArchiveFile false "/t/o.zip".toList .zip demo).map (fun it => (it.1, none)) :=
  C12_names_only _ _ _
example : ((readPageArchiveFile true "/t/o.zip".toList .zip demo).items.map (·.2)) = [none, none, none, none, none] := by
  decide

/-! ### the single-file parser depends on the content only -/

open Pagexml.C13 in
/-- **Source independence.**  Whatever the parser proper does with the bytes it is handed (`parse`),
    however text is encoded (`enc`) and whatever the disk holds (`disk`): a document read from a file
    path, passed as text, or passed as bytes reaches the parser as the same bytes, so the three routes
    give the same scan (or the same error); the route shows only in the recorded file name.  This
    includes EMPTY content passed explicitly — it is parsed (and rejected) as it is, not replaced by
    whatever file of that name lies on disk: that part rests on the generated test `pagexml_data is
    None` and fails to check if the test is a truthiness test. -/
theorem C12_source_independent {α} (disk : List Char → Except String (List Char)) (enc : List Char → List UInt8)
    (parse : List UInt8 → Except String α) (path name1 name2 text : List Char) (hdisk : disk path = .ok text) :
    (parseFile disk enc parse path .absent).map Prod.fst = parse (enc text) ∧
    (parseFile disk enc parse name1 (.text text)).map Prod.fst = parse (enc text) ∧
    (parseFile disk enc parse name2 (.bytes (enc text))).map Prod.fst = parse (enc text) ∧
    (∀ s, parseFile disk enc parse name1 (.text text) = .ok s → s.2 = name1) := by
  have ht : Pagexml.Generated.C13.dataAbsentTest = "is-none" := by decide
  refine ⟨?_, ?_, ?_, ?_⟩
  · simp only [parseFile, readsDisk, ht, true_or, if_true, bind, Except.bind, hdisk, pure, Except.pure]
    cases parse (enc text) <;> rfl
  · simp only [parseFile, readsDisk, ht, if_true, bind, Except.bind, pure, Except.pure]
    cases parse (enc text) <;> rfl
  · simp only [parseFile, readsDisk, ht, if_true, bind, Except.bind, pure, Except.pure]
    cases parse (enc text) <;> rfl
  · intro s hs
    simp only [parseFile, readsDisk, ht, if_true, bind, Except.bind, pure, Except.pure] at hs
    cases hp : parse (enc text) with
    | error e => simp [hp] at hs
    | ok v =>
      simp only [hp] at hs
      cases hs
      rfl

open Pagexml.C13 in
example : (parseFile (fun _ => .ok "<on disk/>".toList) (fun t => t.map (fun c => UInt8.ofNat c.toNat))
    (fun b => if b = [] then .error "ExpatError" else .ok b.length) "a.xml".toList (.text [])).map Prod.fst
    = .error "ExpatError" := by rfl
/-! ### directory trees -/

/-- the path of a regular file of a directory tree -/
def regularPath : Member → Option Path
  | .file p _ => some p
  | .dir _ => none
  | .nested p _ _ _ => some p

/-- **Directory route.**  The files `parse_pagexml_files_from_directory` / `read_pagexml_dirs` hand to the
    parser are exactly the regular files of the tree whose name ends in `.xml` (at any depth), apart
    from hidden entries (a path component starting with a dot), which `glob` does not list. -/
theorem C12_directory_route (ms : List Member) (p : Path) :
    p ∈ globXml ms ↔
      (∃ m ∈ ms, regularPath m = some p) ∧
        endsWith (lastSeg '/' p) ".xml".toList = true ∧ hiddenPath p = false := by
  have hv : ∀ q, xmlVisible q = true ↔
      (endsWith (lastSeg '/' q) ".xml".toList = true ∧ hiddenPath q = false) := by
    intro q; simp [xmlVisible]
  rw [← hv]
  induction ms with
  | nil => simp [globXml]
  | cons m ms ih =>
    cases m with
    | dir q =>
      simp only [globXml, ih, List.mem_cons, exists_eq_or_imp, regularPath, reduceCtorEq, false_or]
    | file q d =>
      by_cases hq : xmlVisible q = true
      · simp only [globXml, hq, if_true, List.mem_cons, ih, exists_eq_or_imp, regularPath, Option.some.injEq]
        constructor
        · rintro (rfl | h)
          · exact ⟨Or.inl rfl, hq⟩
          · exact ⟨Or.inr h.1, h.2⟩
        · rintro ⟨h | h, h2⟩
          · exact Or.inl h.symm
          · exact Or.inr ⟨h, h2⟩
      · simp only [globXml, hq, if_false, ih, List.mem_cons, exists_eq_or_imp, regularPath, Option.some.injEq,
          Bool.false_eq_true]
        constructor
        · rintro ⟨h, h2⟩
          exact ⟨Or.inr h, h2⟩
        · rintro ⟨h | h, h2⟩
          · subst h
            exact absurd h2 hq
          · exact ⟨h, h2⟩
    | nested q k raw inner =>
      by_cases hq : xmlVisible q = true
      · simp only [globXml, hq, if_true, List.mem_cons, ih, exists_eq_or_imp, regularPath, Option.some.injEq]
        constructor
        · rintro (rfl | h)
          · exact ⟨Or.inl rfl, hq⟩
          · exact ⟨Or.inr h.1, h.2⟩
        · rintro ⟨h | h, h2⟩
          · exact Or.inl h.symm
          · exact Or.inr ⟨h, h2⟩
      · simp only [globXml, hq, if_false, ih, List.mem_cons, exists_eq_or_imp, regularPath, Option.some.injEq,
          Bool.false_eq_true]
        constructor
        · rintro ⟨h, h2⟩
          exact ⟨Or.inr h, h2⟩
        · rintro ⟨h | h, h2⟩
          · subst h
            exact absurd h2 hq
          · exact ⟨h, h2⟩

example : globXml [.file "a/b/p.xml".toList [], .file "a/n.txt".toList [], .dir "a/".toList,
    .file ".h/q.xml".toList [], .file "r.xml".toList []] = ["a/b/p.xml".toList, "r.xml".toList] := by decide

end Pagexml.C12
