/-
C16 — Running text keeps every character and maps it back to its line.
Property theorems only.  Every theorem quantifies over all line sequences (text missing, empty or any
string; no bound on the number or length of lines), all break-character sets, all character
classifications in which U+0020 is whitespace (the rule theorems: all lawful ones) and — through the
abstraction `decide : prev_words → curr_words → Res (Bool × Option Word)` with the interface contract
`DecideOK` — all detectors.  `C16_detector_ok` shows that `determine_word_break` meets the contract
with no detector and with every detector record.
-/
import PagexmlModel.Model.C16
import PagexmlModel.Lemmas.Para
import PagexmlModel.Lemmas.ParaLoop
import PagexmlModel.Lemmas.ParaRules
import PagexmlModel.Lemmas.MergeLines
import PagexmlModel.Props.C17

namespace Pagexml.C16
open Pagexml.C17

/-- the lines that contribute: `line.text is not None and line.text != ''` -/
def nonEmptyLines (lines : List Line) : List Line := lines.filter (fun l => truthy l.text)

/-- every detector (and no detector) meets the interface contract of the paragraph builder:
    here `B` is the break set the builder uses for splitting and `B0` the argument passed on -/
theorem C16_detector_ok (cc : CharClass) (det : Option Detector) (B B0 : BreakSet) :
    DecideOK cc B (determine cc det B0) := by
  intro l1 l2 pw cw h1 h2
  obtain ⟨d, hd, hm, _⟩ := C17_decision_wellformed cc det B B0 l1 l2 pw cw h1 h2
  exact ⟨d, hd, hm⟩

example : DecideOK asciiCC hyphen (determine asciiCC (some emptyDetector) hyphen) :=
  C16_detector_ok asciiCC (some emptyDetector) hyphen hyphen

/-- `make_text_region_text` never raises, whatever the line texts -/
theorem C16_total (cc : CharClass) (hsp : cc.isSpace ' ' = true) (B : BreakSet) (decide : Decide)
    (hdec : DecideOK cc B decide) (lines : List Line) :
    ∃ out, makeText cc B decide lines = .ok out := by
  rcases makeText_spec cc hsp B decide hdec lines with ⟨_, h⟩ | ⟨contribs, _, h⟩
  · exact ⟨_, h⟩
  · exact ⟨_, h⟩

def exLines : List Line :=
  [⟨['1'], some ['r'], some ['a', 'b', ' ', ' ']⟩, ⟨['2'], none, none⟩, ⟨['3'], some ['r'], some ['c', 'd', '-']⟩,
   ⟨['4'], some ['r'], some []⟩, ⟨['5'], some ['r'], some ['e', 'f']⟩]

example : makeText asciiCC hyphen (determine asciiCC none hyphen) exLines =
    .ok (some ['a', 'b', ' ', ' ', ' ', 'c', 'd', 'e', 'f'],
         [⟨0, 5, ['1'], some ['r']⟩, ⟨5, 7, ['3'], some ['r']⟩, ⟨7, 9, ['5'], some ['r']⟩]) := by decide

/-- the full description of the result: without a non-empty line `(None, [])`; otherwise there are
    contributions, one per non-empty line, the text is their concatenation and the ranges are their
    cumulative offsets labelled with the lines' ids and parent ids -/
theorem C16_result (cc : CharClass) (hsp : cc.isSpace ' ' = true) (B : BreakSet) (decide : Decide)
    (hdec : DecideOK cc B decide) (lines : List Line) (text : Option Str) (ranges : List Range)
    (h : makeText cc B decide lines = .ok (text, ranges)) :
    (nonEmptyLines lines = [] ∧ text = none ∧ ranges = []) ∨
    (∃ contribs, contribs.length = (nonEmptyLines lines).length ∧ text = some contribs.flatten ∧
      ranges = offsets 0 (nonEmptyLines lines) contribs ∧
      ParaSpec cc B decide (nonEmptyLines lines) contribs) := by
  rcases makeText_spec cc hsp B decide hdec lines with ⟨h0, h1⟩ | ⟨contribs, hp, h1⟩
  · rw [h] at h1; cases h1; exact Or.inl ⟨h0, rfl, rfl⟩
  · rw [h] at h1; cases h1; exact Or.inr ⟨contribs, hp.length, rfl, rfl, hp⟩

/-- ranges: one per non-empty line, in line order, labelled with that line's id and parent id;
    the first starts at 0, each ends where the next starts, the last ends at the text length
    (and without non-empty lines there is no text and no range) -/
theorem C16_ranges (cc : CharClass) (hsp : cc.isSpace ' ' = true) (B : BreakSet) (decide : Decide)
    (hdec : DecideOK cc B decide) (lines : List Line) (text : Option Str) (ranges : List Range)
    (h : makeText cc B decide lines = .ok (text, ranges)) :
    ranges.length = (nonEmptyLines lines).length ∧
    (∀ (i : Nat) (l : Line), (nonEmptyLines lines)[i]? = some l →
      ∃ r, ranges[i]? = some r ∧ r.lineId = l.id ∧ r.parentId = l.parent ∧ r.start ≤ r.stop) ∧
    (∀ r, ranges[0]? = some r → r.start = 0) ∧
    (∀ (i : Nat) (r r' : Range), ranges[i]? = some r → ranges[i + 1]? = some r' → r.stop = r'.start) ∧
    (∀ r, ranges.getLast? = some r → ∃ t, text = some t ∧ r.stop = t.length) ∧
    (nonEmptyLines lines = [] → text = none) := by
  rcases C16_result cc hsp B decide hdec lines text ranges h with ⟨h0, h1, h2⟩ | ⟨contribs, hlen, ht, hr, _⟩
  · subst h1; subst h2; rw [h0]; simp
  · have hlen' : (nonEmptyLines lines).length = contribs.length := hlen.symm
    -- the i-th range, explicitly
    have hget : ∀ (i : Nat) (r : Range), ranges[i]? = some r →
        ∃ l c, (nonEmptyLines lines)[i]? = some l ∧ contribs[i]? = some c ∧
          r = ⟨(contribs.take i).flatten.length, (contribs.take i).flatten.length + c.length, l.id, l.parent⟩ := by
      intro i r hri
      have hi : i < (nonEmptyLines lines).length := by
        have : i < ranges.length := by
          rcases Nat.lt_or_ge i ranges.length with h | h
          · exact h
          · rw [List.getElem?_eq_none h] at hri; cases hri
        rw [hr, offsets_length 0 _ _ hlen'] at this; exact this
      have hi2 : i < contribs.length := by omega
      have hl : (nonEmptyLines lines)[i]? = some (nonEmptyLines lines)[i] := List.getElem?_eq_getElem hi
      have hc : contribs[i]? = some contribs[i] := List.getElem?_eq_getElem hi2
      have := offsets_get 0 _ _ hlen' i _ _ hl hc
      rw [← hr, hri] at this
      refine ⟨_, _, hl, hc, ?_⟩
      simpa using this
    refine ⟨by rw [hr, offsets_length 0 _ _ hlen'], ?_, ?_, ?_, ?_, ?_⟩
    · intro i l hl
      have hi : i < contribs.length := by
        rcases Nat.lt_or_ge i (nonEmptyLines lines).length with h | h
        · omega
        · rw [List.getElem?_eq_none h] at hl; cases hl
      have hc : contribs[i]? = some contribs[i] := List.getElem?_eq_getElem hi
      have := offsets_get 0 _ _ hlen' i l _ hl hc
      rw [← hr] at this
      exact ⟨_, this, rfl, rfl, by simp⟩
    · intro r hr0
      obtain ⟨l, c, _, _, rfl⟩ := hget 0 r hr0
      simp
    · intro i r r' h1 h2
      obtain ⟨l, c, _, hc, rfl⟩ := hget i r h1
      obtain ⟨l', c', _, _, rfl⟩ := hget (i + 1) r' h2
      simp only [(flatten_split contribs i c hc).2, List.length_append]
    · intro r hlast
      refine ⟨_, ht, ?_⟩
      have hne : ranges ≠ [] := by intro e; rw [e] at hlast; cases hlast
      have hpos : 0 < ranges.length := List.length_pos_iff.mpr hne
      have hidx : ranges[ranges.length - 1]? = some r := by
        rw [List.getLast?_eq_getElem?] at hlast; exact hlast
      obtain ⟨l, c, _, hc, rfl⟩ := hget _ r hidx
      have hrl : ranges.length = contribs.length := by rw [hr, offsets_length 0 _ _ hlen', hlen']
      have hsplit := (flatten_split contribs _ c hc).1
      have hdrop : contribs.drop (ranges.length - 1 + 1) = [] := by
        apply List.drop_eq_nil_of_le; omega
      rw [hdrop] at hsplit
      simp only [List.flatten_nil, List.append_nil] at hsplit
      simp only [hsplit, List.length_append]
    · intro h0
      rw [h0] at hlen
      have : contribs = [] := List.length_eq_zero_iff.mp hlen
      subst this
      have := ‹ParaSpec cc B decide (nonEmptyLines lines) []›
      obtain ⟨cs, _, _, _, _, _, _, h3, _, _⟩ := this
      simp at h3

example : (nonEmptyLines exLines).map (fun l => l.id) = [['1'], ['3'], ['5']] := by decide

private theorem exLines_eval : makeText asciiCC hyphen (determine asciiCC none hyphen) exLines =
    .ok (some ['a', 'b', ' ', ' ', ' ', 'c', 'd', 'e', 'f'],
         [⟨0, 5, ['1'], some ['r']⟩, ⟨5, 7, ['3'], some ['r']⟩, ⟨7, 9, ['5'], some ['r']⟩]) := by decide

/-- the hypotheses of `C16_ranges` are met by a concrete paragraph (no detector, ASCII classes) -/
example : True := by
  have := C16_ranges asciiCC (by decide) hyphen _ (C16_detector_ok asciiCC none hyphen hyphen) exLines _ _ exLines_eval
  trivial

/-- each range is its line's contribution: the slice of the text cut out by range `i` contains, in
    order, exactly the characters of line `i` that are neither whitespace nor break characters -/
theorem C16_range_slice (cc : CharClass) (hsp : cc.isSpace ' ' = true) (B : BreakSet) (decide : Decide)
    (hdec : DecideOK cc B decide) (lines : List Line) (t : Str) (ranges : List Range)
    (h : makeText cc B decide lines = .ok (some t, ranges)) (i : Nat) (r : Range) (hri : ranges[i]? = some r) :
    ∃ (l : Line) (lt : Str), (nonEmptyLines lines)[i]? = some l ∧ l.text = some lt ∧
      ((t.drop r.start).take (r.stop - r.start)).filter (keep cc B) = lt.filter (keep cc B) := by
  rcases C16_result cc hsp B decide hdec lines _ ranges h with ⟨_, h1, _⟩ | ⟨contribs, hlen, ht, hr, hp⟩
  · cases h1
  · have hlen' : (nonEmptyLines lines).length = contribs.length := hlen.symm
    have hi : i < contribs.length := by
      have : i < ranges.length := by
        rcases Nat.lt_or_ge i ranges.length with h | h
        · exact h
        · rw [List.getElem?_eq_none h] at hri; cases hri
      rw [hr, offsets_length 0 _ _ hlen'] at this; omega
    have hc : contribs[i]? = some contribs[i] := List.getElem?_eq_getElem hi
    have hl : (nonEmptyLines lines)[i]? = some (nonEmptyLines lines)[i] :=
      List.getElem?_eq_getElem (by omega)
    have hrange := offsets_get 0 _ _ hlen' i _ _ hl hc
    rw [← hr, hri] at hrange
    have hr' : r = ⟨(contribs.take i).flatten.length, (contribs.take i).flatten.length + contribs[i].length,
        (nonEmptyLines lines)[i].id, (nonEmptyLines lines)[i].parent⟩ := by simpa using hrange
    obtain ⟨l, lt, g1, g2, g3⟩ := hp.pointwise hsp i _ hc
    refine ⟨l, lt, g1, g2, ?_⟩
    have hsplit := (flatten_split contribs i _ hc).1
    cases ht
    rw [hr', hsplit]
    simp only [List.append_assoc, List.drop_left', Nat.add_sub_cancel_left, List.take_left']
    exact g3

example : True := by
  have := C16_range_slice asciiCC (by decide) hyphen _ (C16_detector_ok asciiCC none hyphen hyphen) exLines _ _
    exLines_eval 1 ⟨5, 7, ['3'], some ['r']⟩ (by decide)
  trivial

/-- conservation: the paragraph preserves, in order, every character of the lines other than
    whitespace and break characters -/
theorem C16_conservation (cc : CharClass) (hsp : cc.isSpace ' ' = true) (B : BreakSet) (decide : Decide)
    (hdec : DecideOK cc B decide) (lines : List Line) (t : Str) (ranges : List Range)
    (h : makeText cc B decide lines = .ok (some t, ranges)) :
    t.filter (keep cc B) = (lines.flatMap (fun l => l.text.getD [])).filter (keep cc B) := by
  rcases C16_result cc hsp B decide hdec lines _ ranges h with ⟨_, h1, _⟩ | ⟨contribs, hlen, ht, _, hp⟩
  · cases h1
  · cases ht
    rw [flatten_filter_of_pointwise (keep cc B) (nonEmptyLines lines) contribs hlen (hp.pointwise hsp)]
    -- lines without text contribute nothing to the right-hand side either
    unfold nonEmptyLines
    rw [flatMap_filter_truthy]


example : True := by
  have := C16_conservation asciiCC (by decide) hyphen _ (C16_detector_ok asciiCC none hyphen hyphen) exLines _ _
    exLines_eval
  trivial

example : (['a', 'b', ' ', ' ', ' ', 'c', 'd', 'e', 'f'] : Str).filter (keep asciiCC hyphen) =
    (exLines.flatMap (fun l => l.text.getD [])).filter (keep asciiCC hyphen) := by decide

/-- the last non-empty line appears verbatim at the end of the paragraph, and the last range covers
    exactly it -/
theorem C16_last_verbatim (cc : CharClass) (hsp : cc.isSpace ' ' = true) (B : BreakSet) (decide : Decide)
    (hdec : DecideOK cc B decide) (lines : List Line) (t : Str) (ranges : List Range)
    (h : makeText cc B decide lines = .ok (some t, ranges)) :
    ∃ (pre lastT : Str) (lastL : Line) (r : Range), (nonEmptyLines lines).getLast? = some lastL ∧
      lastL.text = some lastT ∧ t = pre ++ lastT ∧ ranges.getLast? = some r ∧
      r.start = pre.length ∧ r.stop = t.length ∧ r.lineId = lastL.id := by
  rcases C16_result cc hsp B decide hdec lines _ ranges h with ⟨_, h1, _⟩ | ⟨contribs, _, ht, hr, hp⟩
  · cases h1
  · obtain ⟨cs, f, init, lastL, lastT, g1, g2, g3, _, g5⟩ := hp
    cases ht
    refine ⟨cs.flatten, lastT, lastL, ⟨cs.flatten.length, cs.flatten.length + lastT.length, lastL.id, lastL.parent⟩,
      by rw [g1]; simp, g2, by rw [g3]; simp, ?_, rfl, by rw [g3]; simp, rfl⟩
    rw [hr, g1, g3, offsets_snoc 0 init cs lastL lastT g5]
    simp

example : True := by
  have := C16_last_verbatim asciiCC (by decide) hyphen _ (C16_detector_ok asciiCC none hyphen hyphen) exLines _ _
    exLines_eval
  trivial

example : makeText asciiCC hyphen (determine asciiCC none hyphen)
    [⟨['1'], none, some ['a', '-']⟩, ⟨['2'], none, some ['b', ' ']⟩] =
    .ok (some ['a', 'b', ' '], [⟨0, 1, ['1'], none⟩, ⟨1, 3, ['2'], none⟩]) := by decide

/-- access to the iteration that produced range `i` when line `i` is followed by another non-empty line -/
private theorem step_of_range (cc : CharClass) (hsp : cc.isSpace ' ' = true) (B : BreakSet) (decide : Decide)
    (hdec : DecideOK cc B decide) (lines : List Line) (t : Str) (ranges : List Range)
    (h : makeText cc B decide lines = .ok (some t, ranges)) (i : Nat) (l next : Line) (r : Range)
    (hl : (nonEmptyLines lines)[i]? = some l) (hnext : (nonEmptyLines lines)[i + 1]? = some next)
    (hri : ranges[i]? = some r) :
    ∃ (fl fl' : Bool), StepRel cc B decide fl l next ((t.drop r.start).take (r.stop - r.start)) fl' ∧
      (fl = true → B lowQuote = true) := by
  rcases C16_result cc hsp B decide hdec lines _ ranges h with ⟨_, h1, _⟩ | ⟨contribs, hlen, ht, hr, hp⟩
  · cases h1
  · cases ht
    rw [hr] at hri
    obtain ⟨l', c, g1, g2, _, g4⟩ := offsets_slice _ _ hlen.symm i r hri
    rw [g4]
    obtain ⟨cs, f, init, lastL, lastT, k1, _, k3, k4, k5⟩ := hp
    have hi : i + 1 < (nonEmptyLines lines).length := by
      rcases Nat.lt_or_ge (i + 1) (nonEmptyLines lines).length with h' | h'
      · exact h'
      · rw [List.getElem?_eq_none h'] at hnext; cases hnext
    have hlen2 : (nonEmptyLines lines).length = cs.length + 1 := k4.length
    have hics : i < cs.length := by omega
    rw [k3, List.getElem?_append_left hics] at g2
    obtain ⟨fl, fl', l2, n2, e1, e2, e3, e4⟩ := k4.get hsp (by simp) i c g2
    rw [hl] at e1; cases e1
    rw [hnext] at e2; cases e2
    exact ⟨fl, fl', e3, e4⟩

/-- no detector: a line that ends in a letter (not itself a break character) and is followed by another
    non-empty line contributes its text plus exactly one blank (`dropPrefixIf`: minus a leading „ when „ is
    a break character and the previous line's last word ended with „) -/
theorem C16_letter_then_space (cc : CharClass) (law : cc.Lawful) (B : BreakSet) (lines : List Line) (t : Str)
    (ranges : List Range) (h : makeText cc B (determine cc none B) lines = .ok (some t, ranges))
    (i : Nat) (l next : Line) (r : Range)
    (hl : (nonEmptyLines lines)[i]? = some l) (hnext : (nonEmptyLines lines)[i + 1]? = some next)
    (hri : ranges[i]? = some r)
    (p : Str) (ch : Char) (hlt : l.text = some (p ++ [ch])) (hal : cc.isAlpha ch = true) (hB : B ch = false) :
    ∃ fl : Bool, (fl = true → B lowQuote = true) ∧
      (t.drop r.start).take (r.stop - r.start) = dropPrefixIf fl (p ++ [ch] ++ [' ']) := by
  obtain ⟨fl, fl', hs, hf⟩ := step_of_range cc law.blank_space B _ (C16_detector_ok cc none B B) lines t ranges h
    i l next r hl hnext hri
  exact ⟨fl, hf, hs.letter_then_space law p ch hlt hal hB⟩

example : True := by
  have h : makeText asciiCC hyphen (determine asciiCC none hyphen)
      [⟨['1'], none, some ['a', 'b']⟩, ⟨['2'], none, some ['c']⟩] =
      .ok (some ['a', 'b', ' ', 'c'], [⟨0, 3, ['1'], none⟩, ⟨3, 4, ['2'], none⟩]) := by decide
  have := C16_letter_then_space asciiCC asciiCC_lawful hyphen _ _ _ h 0 ⟨['1'], none, some ['a', 'b']⟩
    ⟨['2'], none, some ['c']⟩ ⟨0, 3, ['1'], none⟩ (by decide) (by decide) (by decide)
    ['a'] 'b' rfl (by decide) (by decide)
  trivial

example : makeText asciiCC hyphen (determine asciiCC none hyphen)
    [⟨['1'], none, some ['a', 'b']⟩, ⟨['2'], none, some ['c']⟩] =
    .ok (some ['a', 'b', ' ', 'c'], [⟨0, 3, ['1'], none⟩, ⟨3, 4, ['2'], none⟩]) := by decide

/-- no detector: a line that ends in a letter plus one break character, followed by a non-empty line whose
    first character is neither whitespace nor a break character (in particular a lower-case letter),
    contributes its text without the break character and without a blank -/
theorem C16_hyphen_join (cc : CharClass) (law : cc.Lawful) (B : BreakSet) (lines : List Line) (t : Str)
    (ranges : List Range) (h : makeText cc B (determine cc none B) lines = .ok (some t, ranges))
    (i : Nat) (l next : Line) (r : Range)
    (hl : (nonEmptyLines lines)[i]? = some l) (hnext : (nonEmptyLines lines)[i + 1]? = some next)
    (hri : ranges[i]? = some r)
    (p : Str) (ch b : Char) (hlt : l.text = some (p ++ [ch, b])) (hal : cc.isAlpha ch = true)
    (hBc : B ch = false) (hBb : B b = true) (hsb : cc.isSpace b = false)
    (lo : Char) (nr : Str) (hnt : next.text = some (lo :: nr)) (hslo : cc.isSpace lo = false) (hBlo : B lo = false) :
    ∃ fl : Bool, (fl = true → B lowQuote = true) ∧
      (t.drop r.start).take (r.stop - r.start) = dropPrefixIf fl (p ++ [ch]) := by
  obtain ⟨fl, fl', hs, hf⟩ := step_of_range cc law.blank_space B _ (C16_detector_ok cc none B B) lines t ranges h
    i l next r hl hnext hri
  exact ⟨fl, hf, hs.hyphen_join law p ch b hlt hal hBc hBb hsb lo nr hnt hslo hBlo⟩

example : True := by
  have h : makeText asciiCC hyphen (determine asciiCC none hyphen)
      [⟨['1'], none, some ['a', 'b', '-']⟩, ⟨['2'], none, some ['c']⟩] =
      .ok (some ['a', 'b', 'c'], [⟨0, 2, ['1'], none⟩, ⟨2, 3, ['2'], none⟩]) := by decide
  have := C16_hyphen_join asciiCC asciiCC_lawful hyphen _ _ _ h 0 ⟨['1'], none, some ['a', 'b', '-']⟩
    ⟨['2'], none, some ['c']⟩ ⟨0, 2, ['1'], none⟩ (by decide) (by decide) (by decide)
    ['a'] 'b' '-' rfl (by decide) (by decide) (by decide) (by decide) 'c' [] rfl (by decide) (by decide)
  trivial

example : makeText asciiCC hyphen (determine asciiCC none hyphen)
    [⟨['1'], none, some ['a', 'b', '-']⟩, ⟨['2'], none, some ['c']⟩] =
    .ok (some ['a', 'b', 'c'], [⟨0, 2, ['1'], none⟩, ⟨2, 3, ['2'], none⟩]) := by decide

/-- when „ is not a break character the prefix rule never fires: `dropPrefixIf` is the identity -/
theorem C16_no_prefix_rule (B : BreakSet) (hq : B lowQuote = false) (fl : Bool) (hf : fl = true → B lowQuote = true)
    (x : Str) : dropPrefixIf fl x = x := by
  cases fl with
  | false => simp [dropPrefixIf]
  | true => rw [hf rfl] at hq; cases hq

example : dropPrefixIf false ['a'] = ['a'] := C16_no_prefix_rule (fun _ => false) rfl false (by simp) _

/-! ### merge_lines -/

/-- `merge_lines`: under the hull of the lines' coordinates (a parameter: C09's contract) the text is the
    fold of `mergeStep` over the lines that have text — lines without text add nothing, and no text makes
    it raise; an empty list of lines raises `IndexError` (`lines[0]`), a failing hull is passed on -/
theorem C16_merge_lines {γ : Type} (hull : List γ → Res γ) (cc : CharClass) (removeWordBreak : Bool) (wb : Str)
    (lines : List (γ × Option Str)) :
    mergeLines hull cc removeWordBreak wb lines =
      match hull (lines.map Prod.fst) with
      | .error e => .error e
      | .ok c =>
        if lines = [] then .error .IndexError
        else .ok (c, (presentTexts (lines.map Prod.snd)).foldl (mergeStep cc removeWordBreak wb) []) := by
  unfold mergeLines
  cases hh : hull (lines.map Prod.fst) with
  | error e => rfl
  | ok c =>
    simp only [bind, Except.bind, mergeText_eq]
    cases lines with
    | nil => rfl
    | cons a r => simp [pyHead, pure, Except.pure]

example : mergeLines (fun (cs : List Nat) => .ok cs.sum) asciiCC true ['-']
    [(1, some ['a', 'b', '-']), (2, none), (3, some ['c']), (4, some ['-']), (5, some ['D'])] =
    .ok (15, ['a', 'b', 'c', '-', 'D']) := by decide

/-- without `remove_word_break` the merged text is the plain concatenation of the texts -/
theorem C16_merge_lines_concat {γ : Type} (hull : List γ → Res γ) (cc : CharClass) (wb : Str)
    (lines : List (γ × Option Str)) (c : γ) (t : Str) (h : mergeLines hull cc false wb lines = .ok (c, t)) :
    t = (lines.flatMap (fun l => l.2.getD [])) := by
  rw [C16_merge_lines] at h
  cases hh : hull (lines.map Prod.fst) with
  | error e => rw [hh] at h; cases h
  | ok c' =>
    rw [hh] at h
    by_cases hl : lines = []
    · simp [hl] at h
    · simp only [hl, if_false] at h
      cases h
      rw [foldl_mergeStep_false]
      simp only [List.nil_append]
      clear hh hl
      induction lines with
      | nil => rfl
      | cons a r ih =>
        obtain ⟨g, o⟩ := a
        cases o with
        | none => simpa [presentTexts] using ih
        | some x =>
          cases x with
          | nil => simpa [presentTexts] using ih
          | cons y z =>
            simp only [presentTexts, List.map_cons, List.filterMap_cons, List.flatten_cons, List.flatMap_cons,
              Option.getD_some]
            rw [← ih]; rfl

example : mergeLines (fun (cs : List Nat) => .ok cs.sum) asciiCC false ['-'] [(1, some ['a', '-']), (2, some ['b'])] =
    .ok (3, ['a', '-', 'b']) := by decide

/-- with `remove_word_break` and a one-character `word_break_char`: a text that ends with it loses that
    character exactly when the next text starts with a lower-case character (the guarded hyphen drop) -/
theorem C16_merge_step_single (cc : CharClass) (h : Char) (p txt : Str) (a : Char) (r : Str) (htxt : txt = a :: r) :
    mergeStep cc true [h] (p ++ [h]) txt = (if cc.isLower a then p else p ++ [h]) ++ txt ∧
    (∀ (q : Str) (z : Char), z ≠ h → mergeStep cc true [h] (q ++ [z]) txt = q ++ [z] ++ txt) ∧
    mergeStep cc true [h] [] txt = txt := by
  subst htxt
  refine ⟨?_, ?_, ?_⟩
  · have : [h].isSuffixOf (p ++ [h]) = true := by
      rw [List.isSuffixOf_iff_suffix]; exact List.suffix_append _ _
    simp [mergeStep, this]
  · intro q z hz
    have : [h].isSuffixOf (q ++ [z]) = false := by
      cases hs : [h].isSuffixOf (q ++ [z]) with
      | false => rfl
      | true =>
        rw [List.isSuffixOf_iff_suffix] at hs
        obtain ⟨u, hu⟩ := hs
        have := List.append_inj' hu rfl
        exact absurd (by simpa using this.2.symm) hz
    simp [mergeStep, this]
  · simp [mergeStep]

example : mergeStep asciiCC true ['-'] ['a', '-'] ['b'] = ['a', 'b'] ∧
    mergeStep asciiCC true ['-'] ['a', '-'] ['B'] = ['a', '-', 'B'] := by decide

/-! ### line_ends_with_word_break -/

/-- `line_ends_with_word_break` never raises on a current line with a non-empty text, and answers False
    whenever there is no next line or the next line has no text -/
theorem C16_word_break_total (cc : CharClass) (t : Str) (ht : t ≠ []) (next : Option (Option Str))
    (wf : Option WordFreq) :
    (∃ b, lineEndsWithWordBreak cc (some t) next wf = .ok b) ∧
    (∀ cur, lineEndsWithWordBreak cc cur none wf = .ok false ∧
            lineEndsWithWordBreak cc cur (some none) wf = .ok false ∧
            lineEndsWithWordBreak cc cur (some (some [])) wf = .ok false) := by
  refine ⟨?_, fun cur => ⟨rfl, rfl, rfl⟩⟩
  obtain ⟨l, hl⟩ := pyLast_ok_of_ne_nil ht
  unfold lineEndsWithWordBreak
  cases next with
  | none => exact ⟨_, rfl⟩
  | some n =>
    cases n with
    | none => exact ⟨_, rfl⟩
    | some nt =>
      cases nt with
      | nil => exact ⟨_, rfl⟩
      | cons a r =>
        simp only [hl, bind, Except.bind, pure, Except.pure]
        by_cases hp : (!isAsciiPunct l) = true
        · simp only [hp, if_true]; exact ⟨_, rfl⟩
        · simp only [hp]
          cases lastWordBeforeTail cc t with
          | none => exact ⟨_, rfl⟩
          | some lw =>
            cases firstWord cc (a :: r) with
            | none => exact ⟨_, rfl⟩
            | some nw =>
              by_cases hh : [l] = Generated.C16.wordBreakHyphen
              · simp only [hh, if_true]; exact ⟨_, rfl⟩
              · simp only [hh]
                cases wf with
                | none => exact ⟨_, rfl⟩
                | some w =>
                  simp only []
                  repeat' split
                  all_goals exact ⟨_, rfl⟩

example : (∃ b, lineEndsWithWordBreak asciiCC (some ['a', 'b', '-']) (some (some ['c', 'd'])) none = .ok b) ∧
    lineEndsWithWordBreak asciiCC (some ['a', 'b']) (some (some ['c', 'd'])) none = .ok false := ⟨⟨_, rfl⟩, by decide⟩

/-! ### the regenerated literals (Generated/C16.lean): what the theorems above need of them

The theorems above are proved with the four `„` literals, the blank of the detach test, the hyphen and the
PMI threshold of `line_ends_with_word_break` and all defaults as unknown values; three relations are needed. -/

/-- the prefix `make_text_region_text` cuts off is the character it tested to be a break character: only a
    break character is removed (needed by C16_conservation, C16_range_slice) -/
theorem C16_consts_quote_tested_is_stripped : Generated.C16.quoteTested = lowQuote :=
  consts_quote_tested_is_stripped

/-- a line that is not merged is followed by exactly one blank (the statement's "exactly one space";
    ties the blank the model writes in `makeLineText` to the source's `line_text + ' '`) -/
theorem C16_consts_line_pad_is_one_blank : Generated.C16.linePad = [' '] := consts_line_pad_is_one_blank

/-- a detached trailing break character is set between single blanks (ties the model's `[' ', l, ' ']` to the
    source's `f' {line_text[-1]} '`; conservation needs whitespace only) -/
theorem C16_consts_detach_pads_are_blanks :
    Generated.C16.detachPadBefore = [' '] ∧ Generated.C16.detachPadAfter = [' '] := consts_detach_pads_are_blanks

example : makeLineText hyphen ['a', '-'] false [] none = .ok (['a'] ++ Generated.C16.detachPadBefore ++ ['-'] ++
    Generated.C16.detachPadAfter) ∧ makeLineText hyphen ['a'] false [] none = .ok (['a'] ++ Generated.C16.linePad) := by
  decide

/-- the defaults: the builder called without `word_break_chars` is the same function at the regenerated
    default set (`makeTextBreak none`), so every theorem above covers it (here: totality, with no detector) -/
theorem C16_default_total (cc : CharClass) (hsp : cc.isSpace ' ' = true) (lines : List Line) :
    ∃ r, makeText cc (makeTextBreak none) (determine cc none (makeTextBreak none)) lines = .ok r :=
  C16_total cc hsp (makeTextBreak none) _ (C16_detector_ok cc none (makeTextBreak none) (makeTextBreak none)) lines

example : ∃ r, makeText asciiCC (makeTextBreak none) (determine asciiCC none (makeTextBreak none))
    [⟨['1'], none, some ['a', 'b']⟩, ⟨['2'], none, some ['c']⟩] = .ok r := ⟨_, rfl⟩

end Pagexml.C16
