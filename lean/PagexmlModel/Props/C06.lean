/-
C06 — The JSON view round-trips to an identical document.

Property theorems only.  `Doc.toJson kf d` is the JSON view of `d`; `kf` says how a
reading-order index appears as a key: `Key.i` for the dictionary `doc.json` handed to
`parse_pagexml_from_json` directly, `strKey` (its decimal string) for what `json.loads`
returns for `json.dumps(doc.json)`.  `fromJson fuel j` is `parse_pagexml_from_json` on the
decoded value (`some d`: the document built; `none`: the dispatch fell through).

For WHICH documents: `WF d` — the documents the constructors and the parser leave behind
(`Doc.ok`, decidable; every conjunct is a local, checkable fact):
* the `type` list starts with the tags the class's constructors put there and has no
  repetition, and holds no tag of a class the dispatch would try first;
* coordinates / baselines, when present, have at least one point;
* every child carries its parent in its metadata (`parent_type`, `parent_id`,
  `<parent_type>_id`), a line has `metadata['type'] = 'line'`, everything below a scan carries
  its `scan_id`;
* reading-order indexes are distinct; a region-like document with a reading order lists all
  its text regions in it and (except for a page, which does not sort) holds them in that order;
* table rows are non-empty, their cells share the row index and have a column index, the
  number of column slots is what the row constructor and the enclosing region's padding produce
  (table cell lines may lack a text: the cell value joins the texts that are present);
* attributes kept under a truthiness guard (`orientation`, `xheight`, `cornerpoints`) are truthy
  or `None` (the JSON view cannot tell `0.0` from `None`: the code only ever tests them for
  truthiness, and the harness compares them up to that).
No bound on sizes, nesting depth or values; metadata, ids, confidences are arbitrary values.
-/
import PagexmlModel.Lemmas.C06
import PagexmlModel.Lemmas.C06Parsed

namespace Pagexml.C06

/-- well-formed: as the constructors / the parser leave a document -/
def WF (d : Doc) : Prop := d.ok = true

instance (d : Doc) : Decidable (WF d) := inferInstanceAs (Decidable (d.ok = true))

theorem keyInt_i (i : Int) : keyInt (Key.i i) = .ok i := rfl

theorem keyInt_strKey (i : Int) : keyInt (strKey i) = .ok i := by
  simp [keyInt, strKey, strOfInt, String.toList_ofList, pyInt_showInt]

/-! ### the dispatch of json_to_pagexml_doc -/

private theorem hasTag_typesVal (ts : List String) (t : String) :
    hasTag (typesVal ts) t = .ok (ts.contains t) := by
  simp only [hasTag, typesVal, List.any_map]
  congr 1
  induction ts with
  | nil => rfl
  | cons a as ih => simp [List.any_cons, List.contains_cons, ih, eq_comm]

private theorem contains_of_prefix (base ts : List String) (t : String) (hp : base.isPrefixOf ts = true)
    (ht : t ∈ base) : ts.contains t = true := by
  obtain ⟨ex, rfl⟩ := List.isPrefixOf_iff_prefix.mp hp
  simp [ht]

private theorem req_type (kf : Int → Key) (d : Doc) : (d.toJson kf).req "type" = .ok (typesVal d.types) := by
  cases d with
  | word w => exact req_dict _ _ _ (by simp [Word.fields, baseFields, Doc.types])
  | line l => exact req_dict _ _ _ (by simp [Line.fields, baseFields, Doc.types])
  | region r =>
    obtain ⟨h, text, orientation, ro, roa, lines, regions, tables⟩ := r
    simp only [Doc.toJson, Region.toJson]
    exact req_dict _ _ _ (by simp [baseFields, Doc.types])
  | column c => exact req_dict _ _ _ (by simp [baseFields, Doc.types])
  | page p => exact req_dict _ _ _ (by simp [baseFields, Doc.types])
  | scan s => exact req_dict _ _ _ (by simp [baseFields, Doc.types])

/-- **C06_roundtrip** (both entry points).  For every well-formed document `d` of every class,
    every way `kf` of writing reading-order indexes that `int()` reads back (so: the dictionary
    itself and its string encoding), and every fuel above the nesting depth: rebuilding from the
    JSON view yields a document of the same class that is *equal* to `d` — same ids, types,
    metadata, text, coordinates, baselines, confidences, words, nesting, tables, reading order. -/
theorem C06_roundtrip (kf : Int → Key) (hk : ∀ i, keyInt (kf i) = .ok i) (d : Doc) (fuel : Nat)
    (hf : d.depth ≤ fuel) (hd : WF d) : fromJson fuel (d.toJson kf) = .ok (some d) := by
  unfold fromJson
  rw [req_type kf d]
  simp only [ok_bind, hasTag_typesVal]
  unfold WF at hd
  cases d with
  | word w =>
    simp only [Doc.ok, Bool.and_eq_true, noTags, List.all_cons, List.all_nil, Bool.and_true, Bool.not_eq_true'] at hd
    obtain ⟨hw, h1, h2, h3, h4, h5⟩ := hd
    have hb : (baseTypes "word").isPrefixOf w.h.types = true := by
      simp only [Word.ok, Hdr.ok, typesOk, Bool.and_eq_true] at hw; exact hw.1.1
    have hp := contains_of_prefix _ _ "pagexml_doc" hb (by simp [baseTypes])
    have hwd := contains_of_prefix _ _ "word" hb (by simp [baseTypes])
    simp only [Doc.types]
    simp only [hp, hwd, h1, h2, h3, h4, h5, Bool.not_true, Bool.false_eq_true, if_false, if_true, Doc.toJson,
      Word.roundtrip kf w hw, ok_bind, pure_eq_ok]
  | line l =>
    simp only [Doc.ok, Bool.and_eq_true, noTags, List.all_cons, List.all_nil, Bool.and_true, Bool.not_eq_true'] at hd
    obtain ⟨hl, h1, h2, h3, h4⟩ := hd
    have hb : (baseTypes "line").isPrefixOf l.h.types = true := by
      simp only [Line.ok, Hdr.ok, typesOk, Bool.and_eq_true] at hl; exact hl.1.1.1.1.1.1.1
    have hp := contains_of_prefix _ _ "pagexml_doc" hb (by simp [baseTypes])
    have hln := contains_of_prefix _ _ "line" hb (by simp [baseTypes])
    simp only [Doc.types]
    simp only [hp, hln, h1, h2, h3, h4, Bool.not_true, Bool.false_eq_true, if_false, if_true, Doc.toJson,
      Line.roundtrip kf hk l hl, ok_bind, pure_eq_ok]
  | region r =>
    simp only [Doc.ok, Bool.and_eq_true, noTags, List.all_cons, List.all_nil, Bool.and_true, Bool.not_eq_true'] at hd
    obtain ⟨hr, h1, h2, h3⟩ := hd
    have hb : (regionBase "text_region").isPrefixOf r.h.types = true := by
      obtain ⟨hh, text, orientation, ro, roa, lines, regions, tables⟩ := r
      simp only [Region.ok, Hdr.ok, typesOk, Bool.and_eq_true] at hr; exact hr.1.1.1.1.1.1.1.1
    have hp := contains_of_prefix _ _ "pagexml_doc" hb (by simp [regionBase, baseTypes])
    have hln := contains_of_prefix _ _ "text_region" hb (by simp [regionBase, baseTypes])
    simp only [Doc.types]
    simp only [hp, hln, h1, h2, h3, Bool.not_true, Bool.false_eq_true, if_false, if_true, Doc.toJson,
      Region.roundtrip kf hk r fuel hf hr, ok_bind, pure_eq_ok]
  | column c =>
    simp only [Doc.ok, Bool.and_eq_true, noTags, List.all_cons, List.all_nil, Bool.and_true, Bool.not_eq_true'] at hd
    obtain ⟨hc, h1, h2⟩ := hd
    have hb : (regionBase "column").isPrefixOf c.h.types = true := by
      simp only [Column.ok, Hdr.ok, typesOk, Bool.and_eq_true] at hc; exact hc.1.1.1.1.1.1.1.1
    have hp := contains_of_prefix _ _ "pagexml_doc" hb (by simp [regionBase, baseTypes])
    have hln := contains_of_prefix _ _ "column" hb (by simp [regionBase, baseTypes])
    simp only [Doc.types]
    simp only [hp, hln, h1, h2, Bool.not_true, Bool.false_eq_true, if_false, if_true, Doc.toJson,
      Column.roundtrip kf hk c fuel hf hc, ok_bind, pure_eq_ok]
  | page p =>
    simp only [Doc.ok, Bool.and_eq_true, noTags, List.all_cons, List.all_nil, Bool.and_true, Bool.not_eq_true'] at hd
    obtain ⟨hpg, h1⟩ := hd
    have hb : (regionBase "page").isPrefixOf p.h.types = true := by
      simp only [Page.ok, Hdr.ok, typesOk, Bool.and_eq_true] at hpg; exact hpg.1.1.1.1.1.1.1.1.1
    have hp := contains_of_prefix _ _ "pagexml_doc" hb (by simp [regionBase, baseTypes])
    have hln := contains_of_prefix _ _ "page" hb (by simp [regionBase, baseTypes])
    simp only [Doc.types]
    simp only [hp, hln, h1, Bool.not_true, Bool.false_eq_true, if_false, if_true, Doc.toJson,
      Page.roundtrip kf hk p fuel hf hpg, ok_bind, pure_eq_ok]
  | scan s =>
    simp only [Doc.ok] at hd
    have hb : (regionBase "scan").isPrefixOf s.h.types = true := by
      simp only [Scan.ok, Hdr.ok, typesOk, Bool.and_eq_true] at hd; exact hd.1.1.1.1.1.1.1.1.1.1.1
    have hp := contains_of_prefix _ _ "pagexml_doc" hb (by simp [regionBase, baseTypes])
    have hln := contains_of_prefix _ _ "scan" hb (by simp [regionBase, baseTypes])
    simp only [Doc.types]
    simp only [hp, hln, Bool.not_true, Bool.false_eq_true, if_false, if_true, Doc.toJson,
      Scan.roundtrip kf hk s fuel hf hd, ok_bind, pure_eq_ok]

/-- the dictionary entry point: `parse_pagexml_from_json(doc.json)` -/
theorem C06_roundtrip_dict (d : Doc) (fuel : Nat) (hf : d.depth ≤ fuel) (hd : WF d) :
    fromJson fuel (d.toJson Key.i) = .ok (some d) :=
  C06_roundtrip Key.i keyInt_i d fuel hf hd

/-- the string entry point: `parse_pagexml_from_json(json.dumps(doc.json))`, the decoded string
    being the view with every reading-order index written as its decimal string -/
theorem C06_string_or_dict (d : Doc) (fuel : Nat) (hf : d.depth ≤ fuel) (hd : WF d) :
    fromJson fuel (d.toJson strKey) = fromJson fuel (d.toJson Key.i) ∧
    fromJson fuel (d.toJson strKey) = .ok (some d) := by
  rw [C06_roundtrip strKey keyInt_strKey d fuel hf hd, C06_roundtrip Key.i keyInt_i d fuel hf hd]
  exact ⟨rfl, rfl⟩

/-- the rebuilt document has an identical JSON view (in both forms) -/
theorem C06_json_fixpoint (kf kf' : Int → Key) (hk : ∀ i, keyInt (kf i) = .ok i) (d d' : Doc) (fuel : Nat)
    (hf : d.depth ≤ fuel) (hd : WF d) (h : fromJson fuel (d.toJson kf) = .ok (some d')) :
    d'.toJson kf' = d.toJson kf' := by
  rw [C06_roundtrip kf hk d fuel hf hd] at h
  cases h; rfl

/-- rebuilding is a fixpoint: a second round trip changes nothing -/
theorem C06_second_trip (kf kf' : Int → Key) (hk : ∀ i, keyInt (kf i) = .ok i) (hk' : ∀ i, keyInt (kf' i) = .ok i)
    (d d' : Doc) (fuel : Nat) (hf : d.depth ≤ fuel) (hd : WF d)
    (h : fromJson fuel (d.toJson kf) = .ok (some d')) :
    fromJson fuel (d'.toJson kf') = .ok (some d') := by
  rw [C06_roundtrip kf hk d fuel hf hd] at h
  cases h
  exact C06_roundtrip kf' hk' d fuel hf hd

/-! ### non-vacuity: a concrete scan with a reading order (non-contiguous indexes ≥ 10), nested
    regions, a line without baseline and text, a word with coordinates and confidence 0.0, a table
    with a padded row — well-formed, and round-tripping by evaluation -/

private def P (x y : Int) : Pts := [(x, y), (x + 10, y), (x + 10, y + 5)]
private def par (t : String) (i : String) (more : Meta := []) : Meta :=
  [(.s "parent_type", .str t), (.s "parent_id", .str i), (.s (t ++ "_id"), .str i)] ++ more
private def sid : Meta := [(.s "scan_id", .str "s1")]

private def w1 : Word :=
  { h := ⟨.str "w1", baseTypes "word", par "line" "l1" sid, some (P 0 0)⟩, text := some "ab", conf := .num "0.0" }
private def l1 : Line :=
  { h := ⟨.str "l1", baseTypes "line" ++ ["header"], [(.s "type", .str "line")] ++ par "text_region" "r2" sid, some (P 0 0)⟩,
    baseline := some (P 0 4), text := some "ab cd", conf := .num "0.5", xheight := .int 7, ro := [], roa := .none,
    words := [w1] }
private def l2 : Line :=
  { h := ⟨.none, baseTypes "line", [(.s "type", .str "line")] ++ par "text_region" "r2" sid, none⟩,
    baseline := none, text := none, conf := .none, xheight := .none, ro := [], roa := .none, words := [] }
private def r2 : Region :=
  ⟨⟨.str "r2", baseTypes "text_region", par "text_region" "r1" sid, some (P 0 0)⟩, some "", .num "90.0", [], .none,
   [l1, l2], [], []⟩
private def r1 : Region :=
  ⟨⟨.str "r1", baseTypes "text_region", par "scan" "s1" sid, none⟩, none, .none, [], .dict [], [], [r2], []⟩
private def r0 : Region :=
  ⟨⟨.str "r0", baseTypes "text_region" ++ ["marginalia"], par "scan" "s1" sid, some (P 50 0)⟩, none, .none, [], .none, [], [], []⟩
private def cl (i : String) (c : String) : Line :=
  { h := ⟨.str i, baseTypes "line", [(.s "type", .str "line")] ++ par "table_cell" c sid, some (P 0 0)⟩,
    baseline := none, text := some "x y", conf := .none, xheight := .none, ro := [], roa := .none, words := [] }
private def cell (i : String) (row col : Int) : Cell :=
  { h := ⟨.str i, baseTypes "table_cell", [(.s "parent_type", .str "table_row"), (.s "parent_id", .int row),
          (.s "table_row_id", .int row)] ++ sid, some (P 0 0)⟩,
    row := .int row, col := some col, cellSpan := .none, rowSpan := .int 1, header := .str "true",
    cornerpoints := .list [.int 0, .int 1, .int 2, .int 3], orientation := .none, lines := [cl (i ++ "l") i] }
private def t1 : Table :=
  { h := ⟨.str "t1", baseTypes "table_region", sid, some (P 0 20)⟩, orientation := .none,
    rows := [{ h := ⟨.int 0, baseTypes "table_row", par "table_region" "t1" sid, some (P 0 20)⟩, numCols := 2,
               orientation := .none, cells := [cell "c00" 0 0, cell "c01" 0 1] },
             { h := ⟨.int 1, baseTypes "table_row", par "table_region" "t1" sid, some (P 0 25)⟩, numCols := 2,
               orientation := .none, cells := [cell "c10" 1 0] }] }
private def s1 : Scan :=
  { h := ⟨.str "s1", regionBase "scan", sid ++ [(.s "scan_width", .int 100)], some [(0, 0), (100, 0), (100, 100), (0, 100)]⟩,
    orientation := .none, ro := [(12, .str "r1"), (10, .str "r0"), (40, .str "gone")], roa := .dict [(.s "caption", .str "c")],
    pages := [], columns := [], regions := [r0, r1], tables := [t1], lines := [] }

example : WF (.scan s1) := by decide
example : (Doc.scan s1).depth = 2 := by decide
example : fromJson 2 ((Doc.scan s1).toJson Key.i) = .ok (some (.scan s1)) :=
  C06_roundtrip_dict _ 2 (by decide) (by decide)
example : fromJson 2 ((Doc.scan s1).toJson strKey) = .ok (some (.scan s1)) :=
  (C06_string_or_dict _ 2 (by decide) (by decide)).2
/-- the string form really has string keys: "12", "10", "40" -/
example : (roVal strKey s1.ro) = .dict [(.s "12", .str "r1"), (.s "10", .str "r0"), (.s "40", .str "gone")] := by decide
example : WF (.region r1) ∧ WF (.line l1) ∧ WF (.word w1) := by decide
example : (Doc.scan s1).toJson strKey = (Doc.scan s1).toJson strKey :=
  C06_json_fixpoint Key.i strKey keyInt_i _ _ 2 (by decide) (by decide) (C06_roundtrip_dict _ 2 (by decide) (by decide))
example : fromJson 5 ((Doc.scan s1).toJson strKey) = .ok (some (.scan s1)) :=
  C06_second_trip Key.i strKey keyInt_i keyInt_strKey _ _ 5 (by decide) (by decide)
    (C06_roundtrip_dict _ 5 (by decide) (by decide))

/-- a regions-out-of-order scan is *not* well-formed: the constructor would have sorted it -/
example : ¬ WF (.scan { s1 with regions := [r1, r0] }) := by decide


/-! ## Encodability and JSON text normalisation

`JV d` ("JSON-valued", `Doc.jv`, decidable, evaluated by the driver on every generated and every
rebuilt document): every attribute of `d` that carries an arbitrary Python value — ids, metadata,
confidences, reading-order targets and attributes, spans, header, corner points, orientation,
x-height — holds a value JSON text carries unchanged (`PyVal.stable`: no foreign object, all dict
keys strings; tuples and lists are identified, floats are opaque `repr` literals).  That is what
documents parsed from XML hold, and what every document rebuilt from decoded JSON text holds
(`C06_jv_closed`).  User metadata with a set or an int-keyed dict is outside: `json.dumps` rejects
the former and rewrites the keys of the latter. -/

/-- JSON-valued: every carried Python value survives JSON text unchanged -/
def JV (d : Doc) : Prop := d.jv = true

instance (d : Doc) : Decidable (JV d) := inferInstanceAs (Decidable (d.jv = true))

/-- **C06_encodable.**  The JSON view of a JSON-valued document of any class holds only what the
    standard encoder accepts (no foreign objects; keys are `str` or `int` by construction), in
    whichever way reading-order indexes are written. -/
theorem C06_encodable (kf : Int → Key) (d : Doc) (hj : JV d) : (d.toJson kf).encodable = true :=
  Doc.enc kf d hj

/-- **C06_norm.**  `json.loads ∘ json.dumps` (`norm`: int keys become their decimal strings) maps
    the dictionary view onto the string-route view. -/
theorem C06_norm (d : Doc) (hj : JV d) : (d.toJson Key.i).norm = d.toJson strKey :=
  Doc.norm_toJson d hj

/-- the string-route view is a fixpoint of JSON text: decoding its encoding gives it back -/
theorem C06_str_view_stable (d : Doc) (hj : JV d) : (d.toJson strKey).stable = true := by
  rw [← C06_norm d hj]
  exact norm_stable _ (C06_encodable Key.i d hj)

/-- **the string entry point, through the text**: rebuilding from `json.loads(json.dumps(doc.json))`
    gives the document back, and so does rebuilding from the dictionary; the two rebuilt documents
    have the same JSON view, which after normalisation is the normalised view of the original. -/
theorem C06_text_trip (d : Doc) (fuel : Nat) (hf : d.depth ≤ fuel) (hd : WF d) (hj : JV d) :
    fromJson fuel (d.toJson Key.i).norm = .ok (some d) ∧
    fromJson fuel (d.toJson Key.i) = .ok (some d) ∧
    ∀ d', fromJson fuel (d.toJson Key.i).norm = .ok (some d') → (d'.toJson Key.i).norm = (d.toJson Key.i).norm := by
  rw [C06_norm d hj]
  refine ⟨C06_roundtrip strKey keyInt_strKey d fuel hf hd, C06_roundtrip_dict d fuel hf hd, ?_⟩
  intro d' h
  rw [C06_roundtrip strKey keyInt_strKey d fuel hf hd] at h
  cases h; exact C06_norm d hj

example : JV (.scan s1) := by decide
example : ((Doc.scan s1).toJson Key.i).encodable = true := C06_encodable _ _ (by decide)
example : ((Doc.scan s1).toJson Key.i).norm = (Doc.scan s1).toJson strKey := C06_norm _ (by decide)
example : ((Doc.scan s1).toJson strKey).stable = true := C06_str_view_stable _ (by decide)
example : fromJson 2 ((Doc.scan s1).toJson Key.i).norm = .ok (some (.scan s1)) :=
  (C06_text_trip _ 2 (by decide) (by decide) (by decide)).1
/-- a document with a set in its metadata is not JSON-valued, and its view is not encodable -/
example : ¬ JV (.word { w1 with h := { w1.h with md := [(.s "k", .obj "set")] } }) := by decide
example : ((Doc.word { w1 with h := { w1.h with md := [(.s "k", .obj "set")] } }).toJson Key.i).encodable = false := by
  decide

/-! ## Closure: the builders and the constructors return well-formed documents

`guardsCanon j`: no dict inside the JSON value `j` holds a falsy value other than `None` under
`orientation`, `xheight` or `cornerpoints`.  Every JSON view the library produces is of this kind
(the three attributes are written only when truthy).  A JSON value that is not — `"xheight": 0` —
is accepted by the builders and yields a document holding `0`, which the library cannot tell from
one holding `None` (it only tests truthiness; the harness compares up to that). -/

/-- **C06_wf_closed.**  Every document `parse_pagexml_from_json` returns, for *any* JSON value it
    accepts (whatever keys, types lists or strings, reading orders, nesting; guarded entries
    canonical), is well-formed — hence covered by the round-trip theorems. -/
theorem C06_wf_closed (fuel : Nat) (j : PyVal) (d' : Doc) (h : fromJson fuel j = .ok (some d'))
    (hg : j.guardsCanon = true) : WF d' :=
  (fromJson_closed fuel j d' h).1 hg

/-- every document rebuilt from decoded JSON text is JSON-valued -/
theorem C06_jv_closed (fuel : Nat) (j : PyVal) (d' : Doc) (h : fromJson fuel j = .ok (some d'))
    (hs : j.stable = true) : JV d' :=
  (fromJson_closed fuel j d' h).2 hs

/-- rebuilding from an arbitrary accepted JSON value reaches a fixpoint at once: the rebuilt
    document round-trips exactly (both entry points), whatever the JSON value looked like -/
theorem C06_rebuilt_is_fixpoint (kf : Int → Key) (hk : ∀ i, keyInt (kf i) = .ok i) (fuel fuel' : Nat) (j : PyVal)
    (d' : Doc) (h : fromJson fuel j = .ok (some d')) (hg : j.guardsCanon = true) (hf : d'.depth ≤ fuel') :
    fromJson fuel' (d'.toJson kf) = .ok (some d') :=
  C06_roundtrip kf hk d' fuel' hf (C06_wf_closed fuel j d' h hg)

example : ((Doc.scan s1).toJson Key.i).guardsCanon = true := by decide
example : ((Doc.scan s1).toJson strKey).stable = true := by decide
example : WF (.scan s1) :=
  C06_wf_closed 2 _ _ (C06_roundtrip_dict _ 2 (by decide) (by decide)) (by decide)
/-- a JSON value no document view looks like (string `type`, no stats, string points, indexes out of
    order, one region not listed): accepted, and what comes out is well-formed -/
private def odd : PyVal :=
  .dict [(.s "type", .list [.str "pagexml_doc", .str "text_region", .str "x"]), (.s "id", .int 7), (.s "metadata", .none),
         (.s "coords", .str "1,2 3,4"), (.s "reading_order", .dict [(.s "5", .str "b"), (.s "2", .str "a")]),
         (.s "text_regions", .list [
            .dict [(.s "type", .str "pagexml_doc"), (.s "id", .str "b"), (.s "metadata", .dict [])],
            .dict [(.s "type", .list []), (.s "id", .str "a"), (.s "metadata", .dict []), (.s "orientation", .num "90.0")]])]
example : (match fromJson 3 odd with | .ok (some (.region _)) => true | _ => false) = true := by decide
example : ∀ d, fromJson 3 odd = .ok (some d) → WF d ∧ JV d :=
  fun d h => ⟨C06_wf_closed 3 odd d h (by decide), C06_jv_closed 3 odd d h (by decide)⟩

/-- **C06_constructed_wf** (one theorem per constructor): a document built by a model constructor
    from well-formed children (with whatever parents they had before) and canonical, non-empty
    arguments is well-formed.  Words and lines: -/
theorem C06_constructed_wf_word (id ty md text : PyVal) (coords : Option Pts) (conf : PyVal) (w : Word)
    (h : mkWord id ty md text coords conf = .ok w) (hc : coords ≠ some []) : w.ok = true :=
  mkWord_ok id ty md text coords conf w h hc

theorem C06_constructed_wf_line (id ty md : PyVal) (coords baseline : Option Pts) (text conf : PyVal)
    (words : List Word) (ro : RO) (roa xheight : PyVal) (l : Line)
    (h : mkLine id ty md coords baseline text conf words ro roa xheight = .ok l)
    (hc : coords ≠ some []) (hb : baseline ≠ some []) (hx : canon xheight = true)
    (hro : (ro.map (·.1)).Nodup) (hw : ∀ w ∈ words, w.ok = true) : l.ok = true :=
  mkLine_ok id ty md coords baseline text conf words ro roa xheight l h hc hb hx hro hw

/-- table cells, rows (any number of column slots), tables (rows fresh: `preOk`), padding -/
theorem C06_constructed_wf_table (id : PyVal) (ts : List String) (m : Meta) (coords : Option Pts) :
    (∀ (row : PyVal) (col : Option Int) (cellSpan rowSpan header cornerpoints orientation : PyVal) (lines : List Line),
      coords ≠ some [] → canon cornerpoints = true → canon orientation = true →
      (∀ l ∈ lines, l.ok = true) →
      (Cell.build id ts m coords row col cellSpan rowSpan header cornerpoints orientation lines).ok = true)
    ∧ (∀ (n : Nat) (orientation : PyVal) (cells : List Cell), coords ≠ some [] → canon orientation = true →
        cells.isEmpty = false → sameRow cells = true → (∀ c ∈ cells, c.ok = true ∧ c.col.isSome = true) →
        (Row.build id ts m coords n orientation cells).ok = true)
    ∧ (∀ (orientation : PyVal) (rows : List Row), coords ≠ some [] → canon orientation = true →
        (∀ r ∈ rows, r.ok = true ∧ r.numCols = colCellsN 0 r.cells) →
        (Table.build id ts m coords orientation rows).preOk = true
        ∧ (Table.build id ts m coords orientation rows).pad.ok = true) := by
  refine ⟨fun row col cs rs hd cp o lines hc h1 h2 h3 => Cell.build_ok id ts m coords row col cs rs hd cp o lines hc h1 h2 h3,
    fun n o cells hc h1 h2 h3 h4 => Row.build_ok id ts m coords n o cells hc h1 h2 h3 h4, ?_⟩
  intro o rows hc h1 h2
  have := Table.build_preOk id ts m coords o rows hc h1 h2
  exact ⟨this, Table.pad_ok _ this⟩

theorem C06_constructed_wf_region (id : PyVal) (ts : List String) (m : Meta) (coords : Option Pts) (text : Option String)
    (orientation : PyVal) (ro : RO) (roa : PyVal) (lines : List Line) (regions : List Region) (tables : List Table)
    (hc : coords ≠ some []) (hor : canon orientation = true) (hro : (ro.map (·.1)).Nodup)
    (hl : ∀ l ∈ lines, l.ok = true) (hr : ∀ r ∈ regions, r.ok = true) (htb : ∀ t ∈ tables, t.preOk = true) :
    (Region.build id ts m coords text orientation ro roa lines regions tables).ok = true :=
  Region.build_ok id ts m coords text orientation ro roa lines regions tables hc hor hro hl hr htb

theorem C06_constructed_wf_column (id : PyVal) (ts : List String) (m : Meta) (coords : Option Pts)
    (orientation : PyVal) (ro : RO) (roa : PyVal) (lines : List Line) (regions : List Region) (tables : List Table)
    (hc : coords ≠ some []) (hor : canon orientation = true) (hro : (ro.map (·.1)).Nodup)
    (hl : ∀ l ∈ lines, l.ok = true) (hr : ∀ r ∈ regions, r.ok = true) (htb : ∀ t ∈ tables, t.preOk = true) :
    (Column.build id ts m coords orientation ro roa lines regions tables).ok = true :=
  Column.build_ok id ts m coords orientation ro roa lines regions tables hc hor hro hl hr htb

theorem C06_constructed_wf_page (id : PyVal) (ts : List String) (m : Meta) (coords : Option Pts)
    (orientation : PyVal) (ro : RO) (roa : PyVal) (columns : List Column) (regions : List Region)
    (tables : List Table) (extra : List Region)
    (hc : coords ≠ some []) (hor : canon orientation = true) (hro : (ro.map (·.1)).Nodup)
    (hcs : ∀ c ∈ columns, c.ok = true) (hr : ∀ r ∈ regions, r.ok = true) (htb : ∀ t ∈ tables, t.preOk = true)
    (hex : ∀ r ∈ extra, r.ok = true) :
    (Page.build id ts m coords orientation ro roa columns regions tables extra).ok = true :=
  Page.build_ok id ts m coords orientation ro roa columns regions tables extra hc hor hro hcs hr htb hex

/-- the scan constructor (with `set_scan_id`), with and without the `set_parentage` that follows
    it in the JSON builder -/
theorem C06_constructed_wf_scan (id : PyVal) (ts : List String) (m : Meta) (coords : Option Pts)
    (orientation : PyVal) (ro : RO) (roa : PyVal) (pages : List Page) (columns : List Column)
    (lines : List Line) (regions : List Region) (tables : List Table)
    (hc : coords ≠ some []) (hor : canon orientation = true) (hro : (ro.map (·.1)).Nodup)
    (hps : ∀ p ∈ pages, p.ok = true) (hcs : ∀ c ∈ columns, c.ok = true)
    (hl : ∀ l ∈ lines, l.ok = true) (hr : ∀ r ∈ regions, r.ok = true) (htb : ∀ t ∈ tables, t.preOk = true) :
    WF (.scan (Scan.ctor id ts m coords orientation ro roa pages columns lines regions tables))
    ∧ WF (.scan (Scan.build id ts m coords orientation ro roa pages columns lines regions tables)) :=
  ⟨Scan.ctor_ok id ts m coords orientation ro roa pages columns lines regions tables hc hor hro hps hcs hl hr htb,
   Scan.build_ok id ts m coords orientation ro roa pages columns lines regions tables hc hor hro hps hcs hl hr htb⟩

/-- children with foreign parents, regions out of reading order, an unlisted-free reading order:
    the constructors re-parent, sort and pad -/
example : WF (.scan (Scan.build (.str "S") ["extra"] [] none .none [(3, .str "r0"), (1, .str "r1")] .none [] []
    [l2] [r0, r1] [t1.base])) :=
  (C06_constructed_wf_scan _ _ _ _ _ _ _ _ _ _ _ _ (by decide) (by decide) (by decide) (by decide) (by decide)
    (by decide) (by decide) (by decide)).2
example : (Scan.build (.str "S") ["extra"] [] none .none [(3, .str "r0"), (1, .str "r1")] .none [] []
    [l2] [r0, r1] [t1.base]).regions.map rid = [.str "r1", .str "r0"] := by decide
example : (Region.build (.str "R") [] [] none (some "t") .none [] .none [l1, l2] [r2] []).ok = true :=
  C06_constructed_wf_region _ _ _ _ _ _ _ _ _ _ _ (by decide) (by decide) (by decide) (by decide) (by decide) (by decide)
example : (Column.build (.str "C") [] [] none .none [] .none [l1] [r0] []).ok = true :=
  C06_constructed_wf_column _ _ _ _ _ _ _ _ _ _ (by decide) (by decide) (by decide) (by decide) (by decide) (by decide)
example : (Page.build (.str "P") [] [] none .none [] .none [] [r1] [] [r0]).ok = true :=
  C06_constructed_wf_page _ _ _ _ _ _ _ _ _ _ _ (by decide) (by decide) (by decide) (by decide) (by decide) (by decide)
    (by decide)
example : ∃ w, mkWord (.str "w") (.str "tag") .none (.str "x") (some (P 0 0)) .none = .ok w ∧ w.ok = true :=
  ⟨_, rfl, C06_constructed_wf_word (.str "w") (.str "tag") .none (.str "x") (some (P 0 0)) .none _ rfl (by decide)⟩
example : ∃ l, mkLine (.str "l") (.list []) .none none none .none .none [w1] [] .none .none = .ok l ∧ l.ok = true :=
  ⟨_, rfl, C06_constructed_wf_line (.str "l") (.list []) .none none none .none .none [w1] [] .none .none _ rfl
    (by decide) (by decide) (by decide) (by decide) (by decide)⟩
example : (Table.build (.str "T") [] [] none .none [(t1.rows.map Row.base).head!]).pad.ok = true :=
  ((C06_constructed_wf_table (.str "T") [] [] none).2.2 .none _ (by decide) (by decide) (by decide)).2

/-- **C06_parsed_wf.**  The scan the XML parser assembles — words, lines (with
    `metadata['type'] = 'line'`), text regions of any nesting built empty and then given their lines
    and sub-regions with `set_as_parent`, `add_type(metadata['type'])`, the scan constructor with its
    reading order, `set_scan_id` — is well-formed, for all raw trees whose coordinates / baselines
    are non-empty where present (tables: with rows as their constructors left them). -/
theorem C06_parsed_wf (id : PyVal) (m : Meta) (coords : Option Pts) (ro : RO) (roa : PyVal)
    (regions : List Region) (tables : List Table) (hc : coords ≠ some []) (hro : (ro.map (·.1)).Nodup)
    (hr : Region.rawOkL regions = true) (htb : ∀ t ∈ tables, t.preOk = true) :
    WF (.scan (Scan.parsed id m coords ro roa regions tables)) :=
  Scan.parsed_ok id m coords ro roa regions tables hc hro hr htb

/-- raw trees carry no types, parents or scan ids: the assembly puts them there -/
private def rawW : Word := { h := ⟨.str "w", [], [], some (P 0 0)⟩, text := some "a", conf := .none }
private def rawL : Line :=
  { h := ⟨.str "l", [], [(.s "custom_attributes", .list [])], some (P 0 0)⟩, baseline := some (P 0 3), text := some "a",
    conf := .none, xheight := .int 9, ro := [], roa := .none, words := [rawW] }
private def rawR2 : Region := ⟨⟨.str "b", [], [(.s "type", .str "paragraph")], some (P 0 0)⟩, none, .none, [], .none, [rawL], [], []⟩
private def rawR1 : Region := ⟨⟨.str "a", [], [], none⟩, none, .num "90.0", [], .none, [], [rawR2], []⟩
example : WF (.scan (Scan.parsed (.str "f.jpg") [(.s "scan_width", .int 10)] (some (P 0 0)) [(1, .str "a")] (.dict [])
    [rawR1] [])) :=
  C06_parsed_wf _ _ _ _ _ _ _ (by decide) (by decide) (by decide) (by decide)
example : ((Scan.parsed (.str "f.jpg") [] none [] .none [rawR1] []).regions.map (fun r => r.regions.map (fun q => q.h.types)))
    = [[baseTypes "text_region" ++ ["paragraph"]]] := by decide

end Pagexml.C06
