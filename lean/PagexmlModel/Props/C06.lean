/-
C06 — The JSON view round-trips to an identical document.

Property theorems only.  `Doc.toJson kf d` is the JSON view of `d`; `kf` says how a
reading-order index appears as a key: `Key.i` for the dictionary `doc.json` handed to
`parse_pagexml_from_json` directly, `strKey` (its decimal string) for what `json.loads`
returns for `json.dumps(doc.json)`.  `fromJson fuel j` is `parse_pagexml_from_json` on the
decoded value (`some d`: the document built; `none`: the dispatch fell through).

For WHICH documents: `WF d` — the documents the constructors and the parser leave behind
(`Doc.ok`, decidable; every conjunct is a local, checkable fact):
* the `type` list starts with the tags the class's constructors put there and has no
  repetition, and holds no tag of a class the dispatch would try first;
* coordinates / baselines, when present, have at least one point;
* every child carries its parent in its metadata (`parent_type`, `parent_id`,
  `<parent_type>_id`), a line has `metadata['type'] = 'line'`, everything below a scan carries
  its `scan_id`;
* reading-order indexes are distinct; a region-like document with a reading order lists all
  its text regions in it and (except for a page, which does not sort) holds them in that order;
* table rows are non-empty, their cells share the row index and have a column index, the
  number of column slots is what the row constructor and the enclosing region's padding produce;
  table cell lines have a text;
* attributes kept under a truthiness guard (`orientation`, `xheight`, `cornerpoints`) are truthy
  or `None` (the JSON view cannot tell `0.0` from `None`: the code only ever tests them for
  truthiness, and the harness compares them up to that).
No bound on sizes, nesting depth or values; metadata, ids, confidences are arbitrary values.
-/
import PagexmlModel.Lemmas.C06

namespace Pagexml.C06

/-- well-formed: as the constructors / the parser leave a document -/
def WF (d : Doc) : Prop := d.ok = true

instance (d : Doc) : Decidable (WF d) := inferInstanceAs (Decidable (d.ok = true))

theorem keyInt_i (i : Int) : keyInt (Key.i i) = .ok i := rfl

theorem keyInt_strKey (i : Int) : keyInt (strKey i) = .ok i := by
  simp [keyInt, strKey, strOfInt, String.toList_ofList, pyInt_showInt]

/-! ### the dispatch of json_to_pagexml_doc -/

private theorem hasTag_typesVal (ts : List String) (t : String) :
    hasTag (typesVal ts) t = .ok (ts.contains t) := by
  simp only [hasTag, typesVal, List.any_map]
  congr 1
  induction ts with
  | nil => rfl
  | cons a as ih => simp [List.any_cons, List.contains_cons, ih, eq_comm]

private theorem contains_of_prefix (base ts : List String) (t : String) (hp : base.isPrefixOf ts = true)
    (ht : t ∈ base) : ts.contains t = true := by
  obtain ⟨ex, rfl⟩ := List.isPrefixOf_iff_prefix.mp hp
  simp [ht]

private theorem req_type (kf : Int → Key) (d : Doc) : (d.toJson kf).req "type" = .ok (typesVal d.types) := by
  cases d with
  | word w => exact req_dict _ _ _ (by simp [Word.fields, baseFields, Doc.types])
  | line l => exact req_dict _ _ _ (by simp [Line.fields, baseFields, Doc.types])
  | region r =>
    obtain ⟨h, text, orientation, ro, roa, lines, regions, tables⟩ := r
    simp only [Doc.toJson, Region.toJson]
    exact req_dict _ _ _ (by simp [baseFields, Doc.types])
  | column c => exact req_dict _ _ _ (by simp [baseFields, Doc.types])
  | page p => exact req_dict _ _ _ (by simp [baseFields, Doc.types])
  | scan s => exact req_dict _ _ _ (by simp [baseFields, Doc.types])

/-- **C06_roundtrip** (both entry points).  For every well-formed document `d` of every class,
    every way `kf` of writing reading-order indexes that `int()` reads back (so: the dictionary
    itself and its string encoding), and every fuel above the nesting depth: rebuilding from the
    JSON view yields a document of the same class that is *equal* to `d` — same ids, types,
    metadata, text, coordinates, baselines, confidences, words, nesting, tables, reading order. -/
theorem C06_roundtrip (kf : Int → Key) (hk : ∀ i, keyInt (kf i) = .ok i) (d : Doc) (fuel : Nat)
    (hf : d.depth ≤ fuel) (hd : WF d) : fromJson fuel (d.toJson kf) = .ok (some d) := by
  unfold fromJson
  rw [req_type kf d]
  simp only [ok_bind, hasTag_typesVal]
  unfold WF at hd
  cases d with
  | word w =>
    simp only [Doc.ok, Bool.and_eq_true, noTags, List.all_cons, List.all_nil, Bool.and_true, Bool.not_eq_true'] at hd
    obtain ⟨hw, h1, h2, h3, h4, h5⟩ := hd
    have hb : (baseTypes "word").isPrefixOf w.h.types = true := by
      simp only [Word.ok, Hdr.ok, typesOk, Bool.and_eq_true] at hw; exact hw.1.1
    have hp := contains_of_prefix _ _ "pagexml_doc" hb (by simp [baseTypes])
    have hwd := contains_of_prefix _ _ "word" hb (by simp [baseTypes])
    simp only [Doc.types]
    simp only [hp, hwd, h1, h2, h3, h4, h5, Bool.not_true, Bool.false_eq_true, if_false, if_true, Doc.toJson,
      Word.roundtrip kf w hw, ok_bind, pure_eq_ok]
  | line l =>
    simp only [Doc.ok, Bool.and_eq_true, noTags, List.all_cons, List.all_nil, Bool.and_true, Bool.not_eq_true'] at hd
    obtain ⟨hl, h1, h2, h3, h4⟩ := hd
    have hb : (baseTypes "line").isPrefixOf l.h.types = true := by
      simp only [Line.ok, Hdr.ok, typesOk, Bool.and_eq_true] at hl; exact hl.1.1.1.1.1.1.1
    have hp := contains_of_prefix _ _ "pagexml_doc" hb (by simp [baseTypes])
    have hln := contains_of_prefix _ _ "line" hb (by simp [baseTypes])
    simp only [Doc.types]
    simp only [hp, hln, h1, h2, h3, h4, Bool.not_true, Bool.false_eq_true, if_false, if_true, Doc.toJson,
      Line.roundtrip kf hk l hl, ok_bind, pure_eq_ok]
  | region r =>
    simp only [Doc.ok, Bool.and_eq_true, noTags, List.all_cons, List.all_nil, Bool.and_true, Bool.not_eq_true'] at hd
    obtain ⟨hr, h1, h2, h3⟩ := hd
    have hb : (regionBase "text_region").isPrefixOf r.h.types = true := by
      obtain ⟨hh, text, orientation, ro, roa, lines, regions, tables⟩ := r
      simp only [Region.ok, Hdr.ok, typesOk, Bool.and_eq_true] at hr; exact hr.1.1.1.1.1.1.1.1
    have hp := contains_of_prefix _ _ "pagexml_doc" hb (by simp [regionBase, baseTypes])
    have hln := contains_of_prefix _ _ "text_region" hb (by simp [regionBase, baseTypes])
    simp only [Doc.types]
    simp only [hp, hln, h1, h2, h3, Bool.not_true, Bool.false_eq_true, if_false, if_true, Doc.toJson,
      Region.roundtrip kf hk r fuel hf hr, ok_bind, pure_eq_ok]
  | column c =>
    simp only [Doc.ok, Bool.and_eq_true, noTags, List.all_cons, List.all_nil, Bool.and_true, Bool.not_eq_true'] at hd
    obtain ⟨hc, h1, h2⟩ := hd
    have hb : (regionBase "column").isPrefixOf c.h.types = true := by
      simp only [Column.ok, Hdr.ok, typesOk, Bool.and_eq_true] at hc; exact hc.1.1.1.1.1.1.1.1
    have hp := contains_of_prefix _ _ "pagexml_doc" hb (by simp [regionBase, baseTypes])
    have hln := contains_of_prefix _ _ "column" hb (by simp [regionBase, baseTypes])
    simp only [Doc.types]
    simp only [hp, hln, h1, h2, Bool.not_true, Bool.false_eq_true, if_false, if_true, Doc.toJson,
      Column.roundtrip kf hk c fuel hf hc, ok_bind, pure_eq_ok]
  | page p =>
    simp only [Doc.ok, Bool.and_eq_true, noTags, List.all_cons, List.all_nil, Bool.and_true, Bool.not_eq_true'] at hd
    obtain ⟨hpg, h1⟩ := hd
    have hb : (regionBase "page").isPrefixOf p.h.types = true := by
      simp only [Page.ok, Hdr.ok, typesOk, Bool.and_eq_true] at hpg; exact hpg.1.1.1.1.1.1.1.1.1
    have hp := contains_of_prefix _ _ "pagexml_doc" hb (by simp [regionBase, baseTypes])
    have hln := contains_of_prefix _ _ "page" hb (by simp [regionBase, baseTypes])
    simp only [Doc.types]
    simp only [hp, hln, h1, Bool.not_true, Bool.false_eq_true, if_false, if_true, Doc.toJson,
      Page.roundtrip kf hk p fuel hf hpg, ok_bind, pure_eq_ok]
  | scan s =>
    simp only [Doc.ok] at hd
    have hb : (regionBase "scan").isPrefixOf s.h.types = true := by
      simp only [Scan.ok, Hdr.ok, typesOk, Bool.and_eq_true] at hd; exact hd.1.1.1.1.1.1.1.1.1.1.1
    have hp := contains_of_prefix _ _ "pagexml_doc" hb (by simp [regionBase, baseTypes])
    have hln := contains_of_prefix _ _ "scan" hb (by simp [regionBase, baseTypes])
    simp only [Doc.types]
    simp only [hp, hln, Bool.not_true, Bool.false_eq_true, if_false, if_true, Doc.toJson,
      Scan.roundtrip kf hk s fuel hf hd, ok_bind, pure_eq_ok]

/-- the dictionary entry point: `parse_pagexml_from_json(doc.json)` -/
theorem C06_roundtrip_dict (d : Doc) (fuel : Nat) (hf : d.depth ≤ fuel) (hd : WF d) :
    fromJson fuel (d.toJson Key.i) = .ok (some d) :=
  C06_roundtrip Key.i keyInt_i d fuel hf hd

/-- the string entry point: `parse_pagexml_from_json(json.dumps(doc.json))`, the decoded string
    being the view with every reading-order index written as its decimal string -/
theorem C06_string_or_dict (d : Doc) (fuel : Nat) (hf : d.depth ≤ fuel) (hd : WF d) :
    fromJson fuel (d.toJson strKey) = fromJson fuel (d.toJson Key.i) ∧
    fromJson fuel (d.toJson strKey) = .ok (some d) := by
  rw [C06_roundtrip strKey keyInt_strKey d fuel hf hd, C06_roundtrip Key.i keyInt_i d fuel hf hd]
  exact ⟨rfl, rfl⟩

/-- the rebuilt document has an identical JSON view (in both forms) -/
theorem C06_json_fixpoint (kf kf' : Int → Key) (hk : ∀ i, keyInt (kf i) = .ok i) (d d' : Doc) (fuel : Nat)
    (hf : d.depth ≤ fuel) (hd : WF d) (h : fromJson fuel (d.toJson kf) = .ok (some d')) :
    d'.toJson kf' = d.toJson kf' := by
  rw [C06_roundtrip kf hk d fuel hf hd] at h
  cases h; rfl

/-- rebuilding is a fixpoint: a second round trip changes nothing -/
theorem C06_second_trip (kf kf' : Int → Key) (hk : ∀ i, keyInt (kf i) = .ok i) (hk' : ∀ i, keyInt (kf' i) = .ok i)
    (d d' : Doc) (fuel : Nat) (hf : d.depth ≤ fuel) (hd : WF d)
    (h : fromJson fuel (d.toJson kf) = .ok (some d')) :
    fromJson fuel (d'.toJson kf') = .ok (some d') := by
  rw [C06_roundtrip kf hk d fuel hf hd] at h
  cases h
  exact C06_roundtrip kf' hk' d fuel hf hd

/-! ### non-vacuity: a concrete scan with a reading order (non-contiguous indexes ≥ 10), nested
    regions, a line without baseline and text, a word with coordinates and confidence 0.0, a table
    with a padded row — well-formed, and round-tripping by evaluation -/

private def P (x y : Int) : Pts := [(x, y), (x + 10, y), (x + 10, y + 5)]
private def par (t : String) (i : String) (more : Meta := []) : Meta :=
  [(.s "parent_type", .str t), (.s "parent_id", .str i), (.s (t ++ "_id"), .str i)] ++ more
private def sid : Meta := [(.s "scan_id", .str "s1")]

private def w1 : Word :=
  { h := ⟨.str "w1", baseTypes "word", par "line" "l1" sid, some (P 0 0)⟩, text := some "ab", conf := .num "0.0" }
private def l1 : Line :=
  { h := ⟨.str "l1", baseTypes "line" ++ ["header"], [(.s "type", .str "line")] ++ par "text_region" "r2" sid, some (P 0 0)⟩,
    baseline := some (P 0 4), text := some "ab cd", conf := .num "0.5", xheight := .int 7, ro := [], roa := .none,
    words := [w1] }
private def l2 : Line :=
  { h := ⟨.none, baseTypes "line", [(.s "type", .str "line")] ++ par "text_region" "r2" sid, none⟩,
    baseline := none, text := none, conf := .none, xheight := .none, ro := [], roa := .none, words := [] }
private def r2 : Region :=
  ⟨⟨.str "r2", baseTypes "text_region", par "text_region" "r1" sid, some (P 0 0)⟩, some "", .num "90.0", [], .none,
   [l1, l2], [], []⟩
private def r1 : Region :=
  ⟨⟨.str "r1", baseTypes "text_region", par "scan" "s1" sid, none⟩, none, .none, [], .dict [], [], [r2], []⟩
private def r0 : Region :=
  ⟨⟨.str "r0", baseTypes "text_region" ++ ["marginalia"], par "scan" "s1" sid, some (P 50 0)⟩, none, .none, [], .none, [], [], []⟩
private def cl (i : String) (c : String) : Line :=
  { h := ⟨.str i, baseTypes "line", [(.s "type", .str "line")] ++ par "table_cell" c sid, some (P 0 0)⟩,
    baseline := none, text := some "x y", conf := .none, xheight := .none, ro := [], roa := .none, words := [] }
private def cell (i : String) (row col : Int) : Cell :=
  { h := ⟨.str i, baseTypes "table_cell", [(.s "parent_type", .str "table_row"), (.s "parent_id", .int row),
          (.s "table_row_id", .int row)] ++ sid, some (P 0 0)⟩,
    row := .int row, col := some col, cellSpan := .none, rowSpan := .int 1, header := .str "true",
    cornerpoints := .list [.int 0, .int 1, .int 2, .int 3], orientation := .none, lines := [cl (i ++ "l") i] }
private def t1 : Table :=
  { h := ⟨.str "t1", baseTypes "table_region", sid, some (P 0 20)⟩, orientation := .none,
    rows := [{ h := ⟨.int 0, baseTypes "table_row", par "table_region" "t1" sid, some (P 0 20)⟩, numCols := 2,
               orientation := .none, cells := [cell "c00" 0 0, cell "c01" 0 1] },
             { h := ⟨.int 1, baseTypes "table_row", par "table_region" "t1" sid, some (P 0 25)⟩, numCols := 2,
               orientation := .none, cells := [cell "c10" 1 0] }] }
private def s1 : Scan :=
  { h := ⟨.str "s1", regionBase "scan", sid ++ [(.s "scan_width", .int 100)], some [(0, 0), (100, 0), (100, 100), (0, 100)]⟩,
    orientation := .none, ro := [(12, .str "r1"), (10, .str "r0"), (40, .str "gone")], roa := .dict [(.s "caption", .str "c")],
    pages := [], columns := [], regions := [r0, r1], tables := [t1], lines := [] }

example : WF (.scan s1) := by decide
example : (Doc.scan s1).depth = 2 := by decide
example : fromJson 2 ((Doc.scan s1).toJson Key.i) = .ok (some (.scan s1)) :=
  C06_roundtrip_dict _ 2 (by decide) (by decide)
example : fromJson 2 ((Doc.scan s1).toJson strKey) = .ok (some (.scan s1)) :=
  (C06_string_or_dict _ 2 (by decide) (by decide)).2
/-- the string form really has string keys: "12", "10", "40" -/
example : (roVal strKey s1.ro) = .dict [(.s "12", .str "r1"), (.s "10", .str "r0"), (.s "40", .str "gone")] := by decide
example : WF (.region r1) ∧ WF (.line l1) ∧ WF (.word w1) := by decide
example : (Doc.scan s1).toJson strKey = (Doc.scan s1).toJson strKey :=
  C06_json_fixpoint Key.i strKey keyInt_i _ _ 2 (by decide) (by decide) (C06_roundtrip_dict _ 2 (by decide) (by decide))
example : fromJson 5 ((Doc.scan s1).toJson strKey) = .ok (some (.scan s1)) :=
  C06_second_trip Key.i strKey keyInt_i keyInt_strKey _ _ 5 (by decide) (by decide)
    (C06_roundtrip_dict _ 5 (by decide) (by decide))

/-- a regions-out-of-order scan is *not* well-formed: the constructor would have sorted it -/
example : ¬ WF (.scan { s1 with regions := [r1, r0] }) := by decide

end Pagexml.C06
