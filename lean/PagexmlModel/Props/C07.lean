/-
C07 — XML export is structurally valid PageXML (and parses back to the same content).

Property theorems only.  `exportDoc d` is `d.to_pagexml()` as an abstract element tree (every element
is in the PAGE namespace `Gen.pageNamespace`); the structure rules `validChild` / `singleton` and the
tag sets of Coords / Baseline / text are interpreted from tables REGENERATED from
pagexml/model/xml.py on every run (`Generated/C07.lean`), so a change of the rules in the source
changes the premises of these theorems.

Quantifier: every scan, text region (nested to any depth), line and word; no bound on sizes or values.
`textHierarchy d`: no table region anywhere below (the property's "text-hierarchy documents").

Second half (`C07_export_tree`, `C07_content_carried`, `C07_ids_carried`, `C07_roundtrip`, …): a bare
region / line / word is exported as the scan `asScan d` that holds just it (for a line inside the dummy
`PageXMLTextRegion(coords=line.coords)`, for a word inside the dummy region and dummy line); the export is
the pure tree `scanTree s` exactly when `expScan s` holds (ids `None` or `str`, serialisable custom
attributes, …); and for the documents of the property (`rtDoc d`, decidable, evaluated by the driver on
every generated case) the C01 parser model on the xmltodict value of the exported tree returns
`contentScan fname s`.  Serialising with lxml and re-reading with expat is the identity on the abstract
tree up to the namespace declarations `docX` adds on the root (contract, DESIGN §3.6; the harness
compares `toDict (docX tree)` with `xmltodict.parse` of the REAL string and `parseScan` of it with the
REAL `parse_pagexml_file` on every case).
-/
import PagexmlModel.Lemmas.C07Trip
import PagexmlModel.Lemmas.C07Custom
import PagexmlModel.Props.C01
import PagexmlModel.Props.C11

namespace Pagexml.C07
open Pagexml.C06

/-- the property's documents: a scan (its text regions; pages / columns / direct lines are not
    exported), a text region, a line or a word, without table regions -/
def textHierarchy : Doc → Bool
  | .scan s => s.tables.isEmpty && noTablesL s.regions
  | .region r => noTables r
  | .line _ => true
  | .word _ => true
  | _ => false

/-- **C07_export_ok**: on a text-hierarchy document no structural guard of the export fires — the
    validity check and the singleton check of add_pagexml_sub_element, the tag checks of
    add_pagexml_coords / baseline / text, the ReadingOrder check: switching them all off
    (`exportDocG false`) gives the same outcome.  What can still raise is a value lxml rejects
    (an id, reading-order reference or metadata field that is not a string). -/
theorem C07_export_ok (d : Doc) (hd : textHierarchy d = true) : exportDocG true d = exportDocG false d := by
  cases d with
  | scan s =>
    simp only [textHierarchy, Bool.and_eq_true, List.isEmpty_iff] at hd
    exact toPagexml_g s.h _ _ (fun page hp hc => addScan_g page s hp hc hd.1 hd.2)
  | region r =>
    simp only [textHierarchy] at hd
    exact toPagexml_g r.h _ _ (fun page hp _ => addRegion_g r page (Or.inl hp) hd)
  | line l => exact toPagexml_g l.h _ _ (fun page hp _ => lineFill_g l page hp)
  | word w => exact toPagexml_g w.h _ _ (fun page hp _ => wordFill_g w page hp)
  | column c => simp [textHierarchy] at hd
  | page p => simp [textHierarchy] at hd

private theorem export_spec (d : Doc) (x : Xml) (h : exportDoc d = .ok x) :
    x.tag = "PcGts" ∧ x.children.map (·.tag) = ["Metadata", "Page"] ∧ validTree x = true := by
  unfold exportDoc at h
  cases d with
  | scan s =>
    exact toPagexml_spec s.h _ x (fun page p' hf hp => ⟨addScan_valid page s p' hf hp, addScan_tag true page s p' hf⟩) h
  | region r =>
    exact toPagexml_spec r.h _ x
      (fun page p' hf hp => ⟨addRegion_valid r page p' hf hp, addRegion_tag true r page p' hf⟩) h
  | line l => exact toPagexml_spec l.h _ x (fun page p' hf hp => lineFill_valid l page p' hf hp) h
  | word w => exact toPagexml_spec w.h _ x (fun page p' hf hp => wordFill_valid w page p' hf hp) h
  | column c => simp [exportDocG] at h
  | page p => simp [exportDocG] at h

/-- **C07_wellformed**: whatever is exported is a PcGts root (in the PAGE namespace: every element of
    the abstract tree is) whose children are exactly one Metadata and one Page element. -/
theorem C07_wellformed (d : Doc) (x : Xml) (h : exportDoc d = .ok x) :
    x.tag = "PcGts" ∧ x.children.map (·.tag) = ["Metadata", "Page"] ∧
    (x.children.filter (·.tag = "Metadata")).length = 1 ∧ (x.children.filter (·.tag = "Page")).length = 1 := by
  obtain ⟨h1, h2, _⟩ := export_spec d x h
  refine ⟨h1, h2, ?_⟩
  rcases hc : x.children with _ | ⟨a, _ | ⟨b, _ | ⟨c, rest⟩⟩⟩ <;> simp [hc] at h2
  simp [h2.1, h2.2]

/-- **C07_structure** (parent/child half): in every exported tree — also for scans holding table
    regions — every element sits under a parent for which the structure rules of xml.py
    (`is_valid_pagexml_sub_element`, as regenerated) answer True.  This covers the elements the code
    appends without asking (Coords, Baseline, TextEquiv, Unicode, PlainText, Metadata). -/
theorem C07_structure (d : Doc) (x : Xml) (h : exportDoc d = .ok x) : validTree x = true :=
  (export_spec d x h).2.2

/-! ### the second half: what the exported tree is, and what the parser makes of it -/

private theorem textHierarchy_asScan (d : Doc) (hd : textHierarchy d = true) : ∃ s, asScan d = some s := by
  cases d <;> simp [textHierarchy, asScan] at hd ⊢

/-- **C07_export_tree**: the export of a text-hierarchy document, in closed form.  `asScan d` is the scan
    whose Page the export writes (the scan; the scan holding just the region; the dummy region around the
    line; the dummy region and dummy line around the word).  The export succeeds exactly when `expScan`
    holds (every id is `None` or a `str`, the custom attributes serialise, `str()` of the confidences and
    truthy orientations is modelled, metadata fields and reading-order references are strings, the image
    size converts with `int()`), and then it returns exactly the pure tree `scanTree s`. -/
theorem C07_export_tree (d : Doc) (s : Scan) (hd : textHierarchy d = true) (hs : asScan d = some s) (x : Xml) :
    exportDoc d = .ok x ↔ expScan s = true ∧ x = scanTree s := by
  unfold exportDoc
  rw [C07_export_ok d hd]
  exact export_iff d s hs x

/-- **C07_content_carried**: whatever is exported for a text-hierarchy document, reading the exported
    tree back — for every TextRegion / TextLine / Word element at any depth its `id` attribute, the points
    of its Coords and Baseline children, the Unicode text and `conf` of its TextEquiv, its `custom`
    attribute, and the nesting (`readNodes`) — gives the content of the document's regions, lines and words
    (`regionNodes`: ids, point strings, baselines, texts, `str(conf)`, `make_custom_string(custom)`), one for
    one and in document order; and the RegionRefIndexed entries read from the Page are the entries of the
    document's reading order, in order. -/
theorem C07_content_carried (d : Doc) (hd : textHierarchy d = true) (x : Xml) (h : exportDoc d = .ok x) :
    ∃ s page, asScan d = some s ∧ pageOf x = some page ∧
      readNodes "TextRegion" page.children = regionNodes s.regions ∧
      readingOrderAt page = s.ro.map (fun e => (strOfInt e.1, strT e.2)) := by
  obtain ⟨s, hs⟩ := textHierarchy_asScan d hd
  obtain ⟨_, rfl⟩ := (C07_export_tree d s hd hs x).1 h
  exact ⟨s, pageTree s, hs, pageOf_scanTree s, readNodes_pageTree s, readingOrderAt_pageTree s⟩

/-- **C07_ids_carried** (the second half of the planned `C07_structure`): the `id` attributes of the
    TextRegion / TextLine / Word elements of the exported Page, in document order (an element, then its lines
    each followed by its words, then its sub-regions; `none` = no attribute) are the ids of the document's
    regions, lines and words in the same order (`none` = the element has no id): every element that
    corresponds to a document element with an id carries that id, and no other element has one. -/
theorem C07_ids_carried (d : Doc) (hd : textHierarchy d = true) (x : Xml) (h : exportDoc d = .ok x) :
    ∃ s page, asScan d = some s ∧ pageOf x = some page ∧
      idsL (readNodes "TextRegion" page.children) = regionsIds s.regions := by
  obtain ⟨s, page, hs, hp, hn, _⟩ := C07_content_carried d hd x h
  exact ⟨s, page, hs, hp, by rw [hn, idsL_regionNodes]⟩

/-- the bare documents: what `asScan` is -/
theorem C07_bare_wrappers (r : Region) (l : Line) (w : Word) :
    asScan (.region r) = some (wrapScan r.h [r]) ∧
    asScan (.line l) = some (wrapScan l.h [dummyRegionOf l.h.coords [l]]) ∧
    asScan (.word w) = some (wrapScan w.h [dummyRegionOf w.h.coords [dummyLineOf w.h.coords [w]]]) :=
  ⟨rfl, rfl, rfl⟩

private theorem rtDoc_textHierarchy (d : Doc) (s : Scan) (hs : asScan d = some s) (h : rtScan s = true) :
    textHierarchy d = true := by
  obtain ⟨ht, hr⟩ := rtScan_textHierarchy s h
  cases d with
  | scan s' => simp [asScan] at hs; subst hs; simp [textHierarchy, ht, hr]
  | region r =>
    simp [asScan] at hs; subst hs
    simpa [textHierarchy, wrapScan, noTablesL] using hr
  | line l => rfl
  | word w => rfl
  | column c => simp [asScan] at hs
  | page p => simp [asScan] at hs

/-- **C07_roundtrip**: for every document of the property — `rtDoc d`: a scan, text region (nested to any
    depth), line or word; every region, line and word has coordinates (PAGE requires them, the parser raises
    KeyError on a line or word without); lines with or without text, baseline, confidence, words; ids are
    strings or absent; confidences and truthy orientations are float literals; custom attributes that
    serialise; a reading order with string references; metadata fields that are strings; no table regions —
    the export succeeds, and the parser (the C01 model `parseScan`: `parse_pagexml_json` with the
    constructors), applied to the xmltodict value of the exported tree, returns without raising exactly
    `contentScan fname s` — for every hull routine (it is never called: every region has its Coords) and
    every file name.  `C07_same_content` spells out what that scan is. -/
theorem C07_roundtrip (hull : List C03.Pt → Res (List C03.Pt)) (fname : String) (d : Doc) (s : Scan)
    (hs : asScan d = some s) (h : rtDoc d = true) :
    ∃ x, exportDoc d = .ok x ∧
      Scan.parseScan hull fname (X.toDictDoc (docX x)) = .ok (contentScan fname s) := by
  have hrt : rtScan s = true := by simpa [rtDoc, hs] using h
  refine ⟨scanTree s, ?_, parseScan_scanTree hull fname s hrt⟩
  exact (C07_export_tree d s (rtDoc_textHierarchy d s hs hrt) hs _).2 ⟨rtScan_exp s hrt, rfl⟩

/-- **C07_same_content** (`SameContent d s'`): the re-parsed scan `contentScan fname s` has
    * the scan id the export wrote as `imageFilename` (`metadata['scan_id']`; the file name if there is none),
    * the image size of the document (`scan_width` / `scan_height`, else the extent of its coordinates) as
      its coordinates box — `None` when a side is 0 (the parser reads 0 as "unknown"),
    * the document's regions — ids, orientation, polygon (`boxOf` of the same points), lines (id, text as
      xmltodict strips it, polygon, baseline, confidence literal, words with id / text / polygon / confidence)
      and sub-regions, nested as in the document — in the order the constructor of the re-parsed scan gives
      them (`orderRegions`, C05: by the exported reading order when it covers every region, else document
      order),
    * the document's reading order (`contentRO`: the same index → region id entries) and the `id` / `caption`
      attributes of the group; no tables. -/
theorem C07_same_content (fname : String) (s : Scan) :
    let sc := contentScan fname s
    sc.id = (imageFilename s.h.md).getD fname ∧
    sc.coords = (if sizedB s then some (C01.boxOf (Scan.pageBox ((widthOf s.h).getD 0) ((heightOf s.h).getD 0))) else none) ∧
    sc.regions = (C05.orderRegions C01.Region.id (contentRO s.ro) (contentRegions s.regions)).1 ∧
    sc.readingOrder = (C05.orderRegions C01.Region.id (contentRO s.ro) (contentRegions s.regions)).2 ∧
    sc.roAttrs = contentRoAttrs s.ro s.roa ∧ sc.tables = [] :=
  ⟨rfl, rfl, rfl, rfl, rfl, rfl⟩

/-- … region by region: same id, polygon, lines and sub-regions (one for one, in document order); the
    region-level text is not exported, a falsy orientation (`None`, `0.0`) is not written -/
theorem C07_same_region (h : Hdr) (text : Option String) (o : PyVal) (ro : RO) (roa : PyVal) (lines : List Line)
    (regions : List Region) (tables : List Table) :
    contentRegion ⟨h, text, o, ro, roa, lines, regions, tables⟩
      = .mk (idStr h.id) (orientOf o) (h.coords.map C01.boxOf) .none (lines.map contentLine) (contentRegions regions) := by
  simp [contentRegion, boxOpt]

/-- … line by line: same id, polygon, baseline, words; the text / confidence as the parser reads them -/
theorem C07_same_line (l : Line) :
    (contentLine l).id = idStr l.h.id ∧ (contentLine l).coords = l.h.coords.map C01.boxOf ∧
    (contentLine l).baseline = l.baseline.map C01.boxOf ∧ (contentLine l).words = l.words.map contentWord ∧
    (contentLine l).conf = lineConf l.text l.conf ∧
    (contentLine l).text = (if hasTE l.text l.conf then C01.txtOf (uniVal l.text) else .none) :=
  ⟨rfl, rfl, rfl, rfl, rfl, rfl⟩

/-- text without leading / trailing white space that is not empty comes back unchanged (xmltodict strips
    the edges: known finding C01:text-edge-whitespace), for lines and for words -/
theorem C07_text_exact (t : String) (hne : t ≠ "")
    (hh : ∀ c, t.toList.head? = some c → X.isPySpace c = false)
    (hl : ∀ c, t.toList.getLast? = some c → X.isPySpace c = false) (l : Line) (w : Word)
    (hlt : l.text = some t) (hwt : w.text = some t) :
    (contentLine l).text = .str t ∧ (contentWord w).text = some t := by
  have := C01.C01_text_exact t hne hh hl
  simp [contentLine, contentWord, hlt, hwt, hasTE, uniVal, this, C01.txtOf]

/-- a confidence that is a non-empty float literal comes back as that literal -/
theorem C07_conf_exact (l : Line) (c : String) (hc : confStr l.conf = some c) (hne : c ≠ "") :
    (contentLine l).conf = some c := by
  have hte : hasTE l.text l.conf = true := by
    cases ht : l.text <;> cases hcf : l.conf <;> simp_all [hasTE, confStr]
  simp [contentLine, lineConf, hte, hc, hne]

/-- **C07_custom_entry**: the dict the parser receives for every Word / TextLine / TextRegion element of the
    export (at any depth: these are the trees `wordTree` / `lineTree` / `regionTree` the export is made of)
    has as its `@custom` entry — the string `parse_custom_metadata` reads — exactly
    `make_custom_string(element.custom)` (`customStr`; `custom=""` when there are no custom attributes). -/
theorem C07_custom_entry :
    (∀ w : Word, rtWord w = true → ∃ d, X.toDict (toX (wordTree w)) = .dict d ∧
      X.lookup "@custom" d = (customStr w.h.md).map X.PyVal.str) ∧
    (∀ l : Line, rtLine l = true → ∃ d, X.toDict (toX (lineTree l)) = .dict d ∧
      X.lookup "@custom" d = (customStr l.h.md).map X.PyVal.str) ∧
    (∀ (h : Hdr) (text : Option String) (o : PyVal) (ro : RO) (roa : PyVal) (lines : List Line) (regions : List Region),
      rtRegion ⟨h, text, o, ro, roa, lines, regions, []⟩ = true →
      ∃ d, X.toDict (toX (regionTree ⟨h, text, o, ro, roa, lines, regions, []⟩)) = .dict d ∧
        X.lookup "@custom" d = (customStr h.md).map X.PyVal.str) := by
  refine ⟨fun w hw => ?_, fun l hl => ?_, fun h text o ro roa lines regions hr => ?_⟩
  · simp only [rtWord, Bool.and_eq_true] at hw
    cases hco : w.h.coords with
    | none => simp [hco, ptsOk] at hw
    | some ps => exact ⟨_, toDict_wordTree w ps hco, custom_wordEntries w ps⟩
  · obtain ⟨⟨ps, hco, _⟩, _⟩ := rtLine_parts l hl
    exact ⟨_, toDict_lineTree l ps hco, custom_lineEntries l ps⟩
  · simp only [rtRegion, Bool.and_eq_true] at hr
    cases hco : h.coords with
    | none => simp [hco, ptsOk] at hr
    | some ps => exact ⟨_, toDict_regionTree h text o ro roa lines regions ps hco, custom_regionEntries h o lines regions ps⟩

/-- **C07_custom_roundtrip**: an element whose custom attributes are the entries `es` — as dicts: the
    pairs of each tag in order, then `tag_name` (`entryVal`, the shape `parse_custom_attributes` produces) —
    that are well formed (`C11.EntryOK`: what every parse returns, `C11.parse_ok`; also met by attributes
    built through the API with word-character tag names, clean keys / values and integer `offset` / `length`
    / `index`) is exported with a `custom` string that `parse_custom_attributes` (the C11 model, for every
    lawful character class) parses back to exactly `es`.  `C07.customString` (make_custom_string over JSON
    values) and `C11.makeCustomString` (over typed entries) are the same function there
    (`customString_entries`); the round trip itself is the C11 development (`C11_reserialise_stable`'s
    proof, for well-formed entries). -/
theorem C07_custom_roundtrip (cc : C11.CharClass) (hcc : C11.Lawful cc) (md : Meta) (es : List C11.Entry)
    (hmd : customOf md = .list (es.map entryVal)) (hok : ∀ e ∈ es, C11.EntryOK cc e) :
    ∃ c, customStr md = some c ∧ C11.parseCustomAttributes cc c.toList = .ok es :=
  custom_roundtrip cc hcc md es hmd hok

/-- no custom attributes: `custom=""`, which parses to no attributes -/
theorem C07_custom_none (cc : C11.CharClass) (md : Meta) (h : alookup (.s "custom_attributes") md = none) :
    customStr md = some "" ∧ C11.parseCustomAttributes cc "".toList = .ok [] := by
  refine ⟨by simp [customStr, customOf, h, customString], rfl⟩

/-- a reading order (a Python dict: pairwise different indices) comes back entry for entry, in order -/
theorem C07_reading_order_exact (s : Scan) (hnd : (s.ro.map (·.1)).Nodup) :
    contentRO s.ro = s.ro.map (fun e => (e.1, strT e.2)) :=
  contentRO_exact s.ro hnd

/-- without a reading order the regions come back in document order -/
theorem C07_roundtrip_no_order (fname : String) (s : Scan) (h : s.ro = []) :
    (contentScan fname s).regions = contentRegions s.regions ∧ (contentScan fname s).readingOrder = some [] := by
  simp [contentScan, h, contentRO, C05.roOfEntries, C05.orderRegions]

/-! ### non-vacuity: a scan with a reading order, nested regions, custom attributes, a line with
    baseline / text / confidence / a word, a line without anything — exported by evaluation -/

private def P (x y : Int) : Pts := [(x, y), (x + 10, y), (x + 10, y + 5)]
private def w1 : Word :=
  { h := ⟨.str "w1", baseTypes "word", [], some (P 0 0)⟩, text := some "ab", conf := .str "0.5" }
private def l1 : Line :=
  { h := ⟨.str "l1", baseTypes "line", [(.s "custom_attributes", .list [.dict [(.s "index", .int 0), (.s "tag_name", .str "readingOrder")]])],
          some (P 0 0)⟩,
    baseline := some (P 0 4), text := some "ab <&> cd", conf := .num "0.9", xheight := .none, ro := [], roa := .none,
    words := [w1] }
private def l2 : Line :=
  { h := ⟨.none, baseTypes "line", [], some (P 0 6)⟩, baseline := none, text := none, conf := .none, xheight := .none,
    ro := [], roa := .none, words := [] }
private def r2 : Region := ⟨⟨.str "r2", baseTypes "text_region", [], some (P 0 0)⟩, none, .num "90.0", [], .none, [l1, l2], [], []⟩
private def r1 : Region := ⟨⟨.str "r1", baseTypes "text_region", [], some (P 0 0)⟩, none, .none, [], .none, [], [r2], []⟩
private def r0 : Region := ⟨⟨.str "r0", baseTypes "text_region", [], some (P 50 0)⟩, none, .none, [], .none, [], [], []⟩
private def s1 : Scan :=
  { h := ⟨.str "s1.jpg", regionBase "scan", [(.s "scan_id", .str "s1.jpg"), (.s "scan_width", .int 100), (.s "scan_height", .int 200),
          (.s "Creator", .str "me")], some [(0, 0), (100, 0), (100, 200), (0, 200)]⟩,
    orientation := .none, ro := [(10, .str "r0"), (12, .str "r1")], roa := .dict [(.s "caption", .str "c")],
    pages := [], columns := [], regions := [r0, r1], tables := [], lines := [] }

example : textHierarchy (.scan s1) = true := by decide
example : (match exportDoc (.scan s1) with | .ok x => x.tag == "PcGts" && validTree x | .error _ => false) = true := by decide
example (x : Xml) (h : exportDoc (.scan s1) = .ok x) : validTree x = true := C07_structure _ x h
example (x : Xml) (h : exportDoc (.scan s1) = .ok x) : x.children.map (·.tag) = ["Metadata", "Page"] :=
  (C07_wellformed _ x h).2.1
example : (exportDoc (.scan s1)).toOption.map (fun x => x.children.map (·.tag)) = some ["Metadata", "Page"] := by decide
example : exportDocG true (.line l1) = exportDocG false (.line l1) := C07_export_ok _ (by decide)
/-- the content the parser reads from the exported tree is the content of the document -/
example : (exportDoc (.scan s1)).toOption.map (fun x => (readNodes "TextRegion" ((pageOf x).getD default).children).length) = some 2 := by
  decide
/-- the documents of the second half: in the quantifier, exportable, and their wrappers -/
example : rtDoc (.scan s1) = true := by decide
example : rtDoc (.line l1) = true ∧ rtDoc (.word w1) = true ∧ rtDoc (.region r1) = true := by decide
example : ∃ x, exportDoc (.scan s1) = .ok x ∧
    Scan.parseScan (fun pts => .ok pts) "f.xml" (X.toDictDoc (docX x)) = .ok (contentScan "f.xml" s1) :=
  C07_roundtrip _ "f.xml" (.scan s1) s1 rfl (by decide)
example : ((contentScan "f.xml" s1).id, (contentRegions s1.regions).map (·.id), contentRO s1.ro, contentRoAttrs s1.ro s1.roa)
    = ("s1.jpg", [some "r0", some "r1"], [(10, "r0"), (12, "r1")], [("caption", "c")]) := by decide
example : ∃ s page, asScan (.line l1) = some s ∧ pageOf (scanTree s) = some page ∧
    idsL (readNodes "TextRegion" page.children) = [none, some "l1", some "w1"] :=
  ⟨_, _, rfl, pageOf_scanTree _, by rw [readNodes_pageTree, idsL_regionNodes]; decide⟩
/-- custom attributes as the parser types them: written and parsed back -/
private def exEntries : List C11.Entry :=
  [⟨"structure".toList, [("type".toList, .str "paragraph".toList)]⟩,
   ⟨"textStyle".toList, [("offset".toList, .int 0), ("length".toList, .int 2), ("bold".toList, .str "true".toList)]⟩]
example : ∃ c, customStr [(.s "custom_attributes", .list (exEntries.map entryVal))] = some c ∧
    C11.parseCustomAttributes C11.asciiCC c.toList = .ok exEntries :=
  C07_custom_roundtrip C11.asciiCC C11.asciiCC_lawful _ exEntries rfl
    (C11.parse_ok (s := "structure {type:paragraph;} textStyle {offset:0; length:2; bold:true;}".toList) (by decide))
example : customStr [(.s "custom_attributes", .list (exEntries.map entryVal))]
    = some "structure {type:paragraph;}  textStyle {offset:0; length:2; bold:true;} " := by decide
example : rtWord w1 = true ∧ rtLine l1 = true := by decide
example : contentRO s1.ro = [(10, "r0"), (12, "r1")] := C07_reading_order_exact s1 (by decide)
example : exportDoc (.scan s1) = .ok (scanTree s1) := (C07_export_tree (.scan s1) s1 (by decide) rfl _).2 ⟨by decide, rfl⟩
example (x : Xml) (h : exportDoc (.word w1) = .ok x) : ∃ s page, asScan (.word w1) = some s ∧ pageOf x = some page ∧
    idsL (readNodes "TextRegion" page.children) = regionsIds s.regions := C07_ids_carried _ (by decide) x h
example (x : Xml) (h : exportDoc (.scan s1) = .ok x) : ∃ s page, asScan (.scan s1) = some s ∧ pageOf x = some page ∧
    readNodes "TextRegion" page.children = regionNodes s.regions ∧
    readingOrderAt page = s.ro.map (fun e => (strOfInt e.1, strT e.2)) := C07_content_carried _ (by decide) x h
example : regionsIds s1.regions = [some "r0", some "r1", some "r2", some "l1", some "w1", none] := by decide
example : (contentLine l1).text = .str "ab <&> cd" ∧ (contentWord { w1 with text := some "ab <&> cd" }).text = some "ab <&> cd" :=
  C07_text_exact "ab <&> cd" (by decide) (by intro c h; simp at h; subst h; decide) (by intro c h; simp at h; subst h; decide)
    l1 _ rfl rfl
example : (contentLine l1).conf = some "0.9" := C07_conf_exact l1 "0.9" (by decide) (by decide)
example : customStr l2.h.md = some "" := (C07_custom_none C11.asciiCC l2.h.md rfl).1
example : (contentScan "f.xml" { s1 with ro := [] }).regions = contentRegions s1.regions :=
  (C07_roundtrip_no_order "f.xml" { s1 with ro := [] } rfl).1
example : ∃ d, X.toDict (toX (lineTree l1)) = .dict d ∧ X.lookup "@custom" d = some (.str "readingOrder {index:0;} ") := by
  obtain ⟨d, h1, h2⟩ := C07_custom_entry.2.1 l1 (by decide)
  have hc : customStr l1.h.md = some "readingOrder {index:0;} " := by decide
  exact ⟨d, h1, by rw [h2, hc]; rfl⟩
/-- a table region with coordinates is the guard that does fire (outside the text hierarchy) -/
private def t1 : Table := { h := ⟨.str "t", baseTypes "table_region", [], some (P 0 0)⟩, orientation := .none, rows := [] }
example : (match exportDoc (.scan { s1 with tables := [t1] }) with | .error .TypeError => true | _ => false) = true := by decide

end Pagexml.C07
