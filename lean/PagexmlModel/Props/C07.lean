/-
C07 — XML export is structurally valid PageXML (and parses back to the same content).

Property theorems only.  `exportDoc d` is `d.to_pagexml()` as an abstract element tree (every element
is in the PAGE namespace `Gen.pageNamespace`); the structure rules `validChild` / `singleton` and the
tag sets of Coords / Baseline / text are interpreted from tables REGENERATED from
pagexml/model/xml.py on every run (`Generated/C07.lean`), so a change of the rules in the source
changes the premises of these theorems.

Quantifier: every scan, text region (nested to any depth), line and word; no bound on sizes or values.
`textHierarchy d`: no table region anywhere below (the property's "text-hierarchy documents").
-/
import PagexmlModel.Lemmas.C07

namespace Pagexml.C07
open Pagexml.C06

/-- the property's documents: a scan (its text regions; pages / columns / direct lines are not
    exported), a text region, a line or a word, without table regions -/
def textHierarchy : Doc → Bool
  | .scan s => s.tables.isEmpty && noTablesL s.regions
  | .region r => noTables r
  | .line _ => true
  | .word _ => true
  | _ => false

/-- **C07_export_ok**: on a text-hierarchy document no structural guard of the export fires — the
    validity check and the singleton check of add_pagexml_sub_element, the tag checks of
    add_pagexml_coords / baseline / text, the ReadingOrder check: switching them all off
    (`exportDocG false`) gives the same outcome.  What can still raise is a value lxml rejects
    (an id, reading-order reference or metadata field that is not a string). -/
theorem C07_export_ok (d : Doc) (hd : textHierarchy d = true) : exportDocG true d = exportDocG false d := by
  cases d with
  | scan s =>
    simp only [textHierarchy, Bool.and_eq_true, List.isEmpty_iff] at hd
    exact toPagexml_g s.h _ _ (fun page hp hc => addScan_g page s hp hc hd.1 hd.2)
  | region r =>
    simp only [textHierarchy] at hd
    exact toPagexml_g r.h _ _ (fun page hp _ => addRegion_g r page (Or.inl hp) hd)
  | line l => exact toPagexml_g l.h _ _ (fun page hp _ => lineFill_g l page hp)
  | word w => exact toPagexml_g w.h _ _ (fun page hp _ => wordFill_g w page hp)
  | column c => simp [textHierarchy] at hd
  | page p => simp [textHierarchy] at hd

private theorem export_spec (d : Doc) (x : Xml) (h : exportDoc d = .ok x) :
    x.tag = "PcGts" ∧ x.children.map (·.tag) = ["Metadata", "Page"] ∧ validTree x = true := by
  unfold exportDoc at h
  cases d with
  | scan s =>
    exact toPagexml_spec s.h _ x (fun page p' hf hp => ⟨addScan_valid page s p' hf hp, addScan_tag true page s p' hf⟩) h
  | region r =>
    exact toPagexml_spec r.h _ x
      (fun page p' hf hp => ⟨addRegion_valid r page p' hf hp, addRegion_tag true r page p' hf⟩) h
  | line l => exact toPagexml_spec l.h _ x (fun page p' hf hp => lineFill_valid l page p' hf hp) h
  | word w => exact toPagexml_spec w.h _ x (fun page p' hf hp => wordFill_valid w page p' hf hp) h
  | column c => simp [exportDocG] at h
  | page p => simp [exportDocG] at h

/-- **C07_wellformed**: whatever is exported is a PcGts root (in the PAGE namespace: every element of
    the abstract tree is) whose children are exactly one Metadata and one Page element. -/
theorem C07_wellformed (d : Doc) (x : Xml) (h : exportDoc d = .ok x) :
    x.tag = "PcGts" ∧ x.children.map (·.tag) = ["Metadata", "Page"] ∧
    (x.children.filter (·.tag = "Metadata")).length = 1 ∧ (x.children.filter (·.tag = "Page")).length = 1 := by
  obtain ⟨h1, h2, _⟩ := export_spec d x h
  refine ⟨h1, h2, ?_⟩
  rcases hc : x.children with _ | ⟨a, _ | ⟨b, _ | ⟨c, rest⟩⟩⟩ <;> simp [hc] at h2
  simp [h2.1, h2.2]

/-- **C07_structure** (parent/child half): in every exported tree — also for scans holding table
    regions — every element sits under a parent for which the structure rules of xml.py
    (`is_valid_pagexml_sub_element`, as regenerated) answer True.  This covers the elements the code
    appends without asking (Coords, Baseline, TextEquiv, Unicode, PlainText, Metadata). -/
theorem C07_structure (d : Doc) (x : Xml) (h : exportDoc d = .ok x) : validTree x = true :=
  (export_spec d x h).2.2

/-! ### non-vacuity: a scan with a reading order, nested regions, custom attributes, a line with
    baseline / text / confidence / a word, a line without anything — exported by evaluation -/

private def P (x y : Int) : Pts := [(x, y), (x + 10, y), (x + 10, y + 5)]
private def w1 : Word :=
  { h := ⟨.str "w1", baseTypes "word", [], some (P 0 0)⟩, text := some "ab", conf := .str "0.5" }
private def l1 : Line :=
  { h := ⟨.str "l1", baseTypes "line", [(.s "custom_attributes", .list [.dict [(.s "index", .int 0), (.s "tag_name", .str "readingOrder")]])],
          some (P 0 0)⟩,
    baseline := some (P 0 4), text := some "ab <&> cd", conf := .num "0.9", xheight := .none, ro := [], roa := .none,
    words := [w1] }
private def l2 : Line :=
  { h := ⟨.none, baseTypes "line", [], some (P 0 6)⟩, baseline := none, text := none, conf := .none, xheight := .none,
    ro := [], roa := .none, words := [] }
private def r2 : Region := ⟨⟨.str "r2", baseTypes "text_region", [], some (P 0 0)⟩, none, .num "90.0", [], .none, [l1, l2], [], []⟩
private def r1 : Region := ⟨⟨.str "r1", baseTypes "text_region", [], some (P 0 0)⟩, none, .none, [], .none, [], [r2], []⟩
private def r0 : Region := ⟨⟨.str "r0", baseTypes "text_region", [], some (P 50 0)⟩, none, .none, [], .none, [], [], []⟩
private def s1 : Scan :=
  { h := ⟨.str "s1.jpg", regionBase "scan", [(.s "scan_id", .str "s1.jpg"), (.s "scan_width", .int 100), (.s "scan_height", .int 200),
          (.s "Creator", .str "me")], some [(0, 0), (100, 0), (100, 200), (0, 200)]⟩,
    orientation := .none, ro := [(10, .str "r0"), (12, .str "r1")], roa := .dict [(.s "caption", .str "c")],
    pages := [], columns := [], regions := [r0, r1], tables := [], lines := [] }

example : textHierarchy (.scan s1) = true := by decide
example : (match exportDoc (.scan s1) with | .ok x => x.tag == "PcGts" && validTree x | .error _ => false) = true := by decide
example (x : Xml) (h : exportDoc (.scan s1) = .ok x) : validTree x = true := C07_structure _ x h
example (x : Xml) (h : exportDoc (.scan s1) = .ok x) : x.children.map (·.tag) = ["Metadata", "Page"] :=
  (C07_wellformed _ x h).2.1
example : (exportDoc (.scan s1)).toOption.map (fun x => x.children.map (·.tag)) = some ["Metadata", "Page"] := by decide
example : exportDocG true (.line l1) = exportDocG false (.line l1) := C07_export_ok _ (by decide)
/-- the content the parser reads from the exported tree is the content of the document -/
example : (exportDoc (.scan s1)).toOption.map (fun x => (readNodes "TextRegion" ((pageOf x).getD default).children).length) = some 2 := by
  decide
/-- a table region with coordinates is the guard that does fire (outside the text hierarchy) -/
private def t1 : Table := { h := ⟨.str "t", baseTypes "table_region", [], some (P 0 0)⟩, orientation := .none, rows := [] }
example : (match exportDoc (.scan { s1 with tables := [t1] }) with | .error .TypeError => true | _ => false) = true := by decide

end Pagexml.C07
