/-
C11 — Custom attribute strings are parsed completely and re-serialise stably.
Property theorems only; every theorem holds for all character classes satisfying `Lawful`
(which CPython's `\w` / `isspace` do: the harness checks it on every run), for tag lists,
attribute lists and whitespace runs of any length.
-/
import PagexmlModel.Lemmas.C11Inv
import PagexmlModel.Lemmas.C11Dedicated

namespace Pagexml.C11
open Pagexml.C03 (splitOn intercalate)

/-! ### from tags + layout to laid-out tags -/

private theorem layAttrs_ok {cc : CharClass} (l : Nat → AttrLay) (hl : ∀ j, (l j).OK cc) :
    ∀ (kvs : List (List Char × List Char)) (j : Nat),
      (∀ kv ∈ kvs, Clean kv.1 ∧ NoEdgeSpace cc kv.1 ∧ Clean kv.2 ∧ NoEdgeSpace cc kv.2 ∧
        (kv.1 ∈ Gen.intKeys → ∃ i, pyInt? kv.2 = some i)) →
      ∀ a ∈ layAttrs kvs l j, a.OK cc := by
  intro kvs
  induction kvs with
  | nil => intro j _ a ha; simp [layAttrs] at ha
  | cons kv kvs ih =>
    intro j h a ha
    simp only [layAttrs, List.mem_cons] at ha
    rcases ha with rfl | ha
    · obtain ⟨h1, h2, h3, h4, h5⟩ := h kv (by simp)
      exact { pre := (hl j).pre, postKey := (hl j).postKey, preVal := (hl j).preVal, postVal := (hl j).postVal,
              key_clean := h1, key_edges := h2, value_clean := h3, value_edges := h4, typed := h5 }
    · exact ih (j + 1) (fun x hx => h x (by simp [hx])) a ha

private theorem layTag_ok {cc : CharClass} {t : Tag} {l : TagLay} (ht : t.WF cc) (hl : l.OK cc) : (layTag t l).OK cc :=
  { sep := hl.sep, name_ne := ht.name_ne, name_word := ht.name_word, close := hl.close,
    attrs := layAttrs_ok l.attr hl.attr t.attrs 0 (fun kv hkv =>
      ⟨ht.key_clean kv hkv, ht.key_edges kv hkv, ht.value_clean kv hkv, ht.value_edges kv hkv, ht.typed kv hkv⟩) }

private theorem layTags_ok {cc : CharClass} (l : Nat → TagLay) (hl : ∀ i, (l i).OK cc) :
    ∀ (ts : List Tag) (i : Nat), (∀ t ∈ ts, t.WF cc) → ∀ x ∈ layTags ts l i, x.OK cc := by
  intro ts
  induction ts with
  | nil => intro i _ x hx; simp [layTags] at hx
  | cons t ts ih =>
    intro i h x hx
    simp only [layTags, List.mem_cons] at hx
    rcases hx with rfl | hx
    · exact layTag_ok (h t (by simp)) (hl i)
    · exact ih (i + 1) (fun y hy => h y (by simp [hy])) x hx

private theorem dictOfAttrs_lay (l : Nat → AttrLay) : ∀ (kvs : List (List Char × List Char)) (j : Nat) (d : Dict),
    dictOfAttrs (layAttrs kvs l j) d =
      (kvs.map (fun kv => (kv.1, typedVal kv.1 kv.2))).foldl (fun d kv => dictSet d kv.1 kv.2) d := by
  intro kvs
  induction kvs with
  | nil => intro j d; rfl
  | cons kv kvs ih =>
    intro j d
    have := ih (j + 1) (dictSet d kv.1 (typedVal kv.1 kv.2))
    unfold dictOfAttrs at this ⊢
    simp only [layAttrs, List.foldl_cons, List.map_cons]
    exact this

private theorem dictOfAttrs_layTag {cc : CharClass} {t : Tag} (l : TagLay) (ht : t.WF cc) :
    dictOfAttrs (layTag t l).attrs [] = (toEntry t).attrs := by
  show dictOfAttrs (layAttrs t.attrs l.attr 0) [] = _
  rw [dictOfAttrs_lay, foldl_dictSet_nodup]
  · simp [toEntry]
  · simpa [List.map_map, Function.comp_def] using ht.keys_distinct

private theorem entryOf_layTag {cc : CharClass} {t : Tag} (l : TagLay) (ht : t.WF cc) : entryOf (layTag t l) = toEntry t := by
  unfold entryOf
  rw [dictOfAttrs_layTag l ht]
  unfold toEntry
  unfold mkEntry
  congr 1
  apply List.filter_eq_self.mpr
  intro kv hkv
  obtain ⟨x, hx, rfl⟩ := List.mem_map.mp hkv
  have : x.1 ≠ tagNameKey := fun e => ht.no_tag_name (List.mem_map.mpr ⟨x, hx, e⟩)
  simpa using this

private theorem map_entryOf_lay {cc : CharClass} (l : Nat → TagLay) : ∀ (ts : List Tag) (i : Nat),
    (∀ t ∈ ts, t.WF cc) → (layTags ts l i).map entryOf = ts.map toEntry := by
  intro ts
  induction ts with
  | nil => intro i _; rfl
  | cons t ts ih =>
    intro i h
    simp only [layTags, List.map_cons, entryOf_layTag (l i) (h t (by simp)), ih (i + 1) (fun y hy => h y (by simp [hy]))]

/-! ### the property -/

/-- **Parsing is complete.**  For every list of tags (any length, repeated names, names that are
    suffixes of one another, empty attribute lists) and every layout the statement allows
    (any whitespace but a newline around keys, colons and semicolons, optional trailing
    semicolon, any non-word separator — or none — between `}` and the next name), parsing the
    string returns one entry per tag, in order, with the tag name and every pair, and the
    values of `offset`, `length`, `index` as integers. -/
theorem C11_parse_complete (cc : CharClass) (hcc : Lawful cc) (tags : List Tag) (lay : Layout)
    (htags : ∀ t ∈ tags, t.WF cc) (hlay : lay.OK cc) :
    parseCustomAttributes cc (renderCustom tags lay) = .ok (tags.map toEntry) := by
  unfold renderCustom
  rw [parse_renderLaid hcc _ _ (layTags_ok lay.tag hlay.tag tags 0 htags) hlay.tail]
  rw [map_entryOf_lay lay.tag tags 0 htags]

/-- The same in laid-out form and without the reading "keys are distinct and differ from
    `tag_name`": the entry of a tag is what Python's dict assignment makes of its pairs (a
    repeated key keeps its first position and its last value; a key `tag_name` is overwritten by
    the tag name), see `entryOf`. -/
theorem C11_parse_complete_any_keys (cc : CharClass) (hcc : Lawful cc) (ts : List LTag) (tail : List Char)
    (hts : ∀ t ∈ ts, t.OK cc) (htail : NoWord cc tail) :
    parseCustomAttributes cc (renderLaid ts tail) = .ok (ts.map entryOf) :=
  parse_renderLaid hcc ts tail hts htail

/-- **Re-serialising is stable**, for *every* input string: whatever `parse_custom_attributes`
    returned for `s`, writing those entries with `make_custom_string` and parsing again
    yields the same entries (so parse ∘ serialise ∘ parse = parse). -/
theorem C11_reserialise_stable (cc : CharClass) (hcc : Lawful cc) (s : List Char) (es : List Entry)
    (h : parseCustomAttributes cc s = .ok es) :
    parseCustomAttributes cc (makeCustomString es) = .ok es := by
  have hok := parse_ok h
  rw [make_eq_render]
  have htail : NoWord cc (if es.isEmpty then [] else [' ']) := by
    intro c hc
    split at hc
    · simp at hc
    · simp at hc; subst hc; exact hcc.space_not_word
  rw [parse_renderLaid hcc _ _ (canonTags_ok hcc es true hok) htail, map_entryOf_canon es true hok]

/-- the serialised form of parsed entries is itself a fixed point of parse-then-serialise -/
theorem C11_serialise_idempotent (cc : CharClass) (hcc : Lawful cc) (s : List Char) (es : List Entry)
    (h : parseCustomAttributes cc s = .ok es) :
    (parseCustomAttributes cc (makeCustomString es)).map makeCustomString = .ok (makeCustomString es) := by
  rw [C11_reserialise_stable cc hcc s es h]; rfl

/-- **A custom tag's value** is the substring of the line's text at its offset and length, with
    Python's clipping: an offset or an end beyond the text gives the clipped (possibly empty)
    substring, never an error. -/
theorem C11_tag_value (regionId lineId : String) (text : List Char) (tag : Dict) (ty : Val) (o l : Nat)
    (hty : dictGet? tag typeKey = some ty) (ho : dictGet? tag offsetKey = some (.int o))
    (hl : dictGet? tag lengthKey = some (.int l)) :
    tagRow regionId lineId (some text) tag =
      .ok { typeVal := ty, value := (text.drop o).take l, regionId := regionId, lineId := lineId,
            offset := o, length := l } := by
  unfold tagRow
  simp only [hty, ho, hl]
  have : pySlice text (o : Int) ((o : Int) + (l : Int)) = (text.drop o).take l := by
    unfold pySlice clampIdx
    have h1 : ¬ ((o : Int) < 0) := by omega
    have h2 : ¬ ((o : Int) + (l : Int) < 0) := by omega
    simp only [h1, h2, if_false]
    have e1 : (o : Int).toNat = o := by simp
    have e2 : ((o : Int) + (l : Int)).toNat = o + l := by omega
    rw [e1, e2]
    by_cases hle : o ≤ text.length
    · have e3 : min o text.length = o := by omega
      rw [e3]
      by_cases hle2 : o + l ≤ text.length
      · have e4 : min (o + l) text.length = o + l := by omega
        have e5 : o + l - o = l := by omega
        rw [e4, e5]
      · have e4 : min (o + l) text.length = text.length := by omega
        rw [e4]
        rw [List.take_of_length_le (by simp), List.take_of_length_le (by simp; omega)]
    · have e3 : min o text.length = text.length := by omega
      have e4 : min (o + l) text.length = text.length := by omega
      rw [e3, e4]
      simp [List.drop_of_length_le (by omega : text.length ≤ o)]
  rw [this]

/-- **Malformed pairs are rejected with ValueError** wherever they stand in the loop: a part
    without a colon, a part with two colons, and a non-integer value of an integer-typed key. -/
theorem C11_malformed_rejected (cc : CharClass) (ps : List (List Char)) (d : Dict) :
    (∀ p, p ≠ [] → ':' ∉ p → parsePartsAux cc (p :: ps) d = .error .ValueError) ∧
    (∀ a b c, ':' ∉ a → ':' ∉ b → ':' ∉ c →
      parsePartsAux cc ((a ++ ':' :: (b ++ ':' :: c)) :: ps) d = .error .ValueError) ∧
    (∀ f v, ':' ∉ f → ':' ∉ v → strip cc f ∈ Gen.intKeys → pyInt? (strip cc v) = none →
      parsePartsAux cc ((f ++ ':' :: v) :: ps) d = .error .ValueError) := by
  refine ⟨?_, ?_, ?_⟩
  · intro p hne hc
    rw [parsePartsAux]
    simp [hne, Pagexml.C03.splitOn_no_sep ':' p hc]
  · intro a b c ha hb hc
    rw [parsePartsAux]
    have hs : splitOn ':' (a ++ ':' :: (b ++ ':' :: c)) = [a, b, c] := by
      rw [Pagexml.C03.splitOn_append_sep ':' a _ ha, Pagexml.C03.splitOn_append_sep ':' b _ hb,
        Pagexml.C03.splitOn_no_sep ':' c hc]
    simp [hs]
  · intro f v hf hv hk hi
    rw [parsePartsAux]
    have hs : splitOn ':' (f ++ ':' :: v) = [f, v] := by
      rw [Pagexml.C03.splitOn_append_sep ':' f _ hf, Pagexml.C03.splitOn_no_sep ':' v hv]
    simp [hs, convertValue, hk, hi]

/-! ### dedicated metadata fields -/

/-- the dict a dedicated *list* field (`text_style`, `custom_tags`) holds for a tag: its pairs,
    with `type` set to the tag name -/
def listDict (t : Tag) : Dict := dictSet (toEntry t).attrs typeKey (.str t.name)

/-- what the statement says about the metadata of an element whose `custom` attribute is the
    rendering of `tags`: the entry list, and every dedicated field as a projection of it -/
def DedicatedSpec (cc : CharClass) (tags : List Tag) (lay : Layout) (customTags : List (List Char))
    (md : Metadata) : Prop :=
  md.customAttributes = tags.map toEntry ∧
  md.readingOrder = (tags.find? (fun t => t.name = Gen.readingOrderTag)).map (fun t => (toEntry t).attrs) ∧
  md.structureEl = (tags.find? (fun t => t.name = Gen.structureTag)).map (fun t => (toEntry t).attrs) ∧
  md.typeVal = md.structureEl.bind (fun d => dictGet? d typeKey) ∧
  md.textStyle = (if guardHolds cc Gen.textStyleGuardRegex Gen.textStyleGuardAnySpace Gen.textStyleTag (renderCustom tags lay) = true then
      some ((tags.filter (fun t => [Gen.textStyleTag].contains t.name)).map listDict) else none) ∧
  ((∃ t ∈ tags, t.name = Gen.textStyleTag) →
      guardHolds cc Gen.textStyleGuardRegex Gen.textStyleGuardAnySpace Gen.textStyleTag (renderCustom tags lay) = true) ∧
  md.customTags = (if customTags.isEmpty = true then none else
      some ((tags.filter (fun t => customTags.contains t.name)).map listDict))

private theorem find_lay {cc : CharClass} (l : Nat → TagLay) (f : List Char) : ∀ (ts : List Tag) (i : Nat),
    (∀ t ∈ ts, t.WF cc) →
    (match (layTags ts l i).find? (fun t => t.name = f) with
      | some t => (Except.ok (dictOfAttrs t.attrs []) : Res Dict)
      | none => .error .ValueError) =
    (match ts.find? (fun t => t.name = f) with
      | some t => .ok (toEntry t).attrs
      | none => .error .ValueError) := by
  intro ts
  induction ts with
  | nil => intro i _; rfl
  | cons t ts ih =>
    intro i h
    by_cases hn : t.name = f
    · simp [layTags, layTag, hn]
      have := dictOfAttrs_layTag (l i) (h t (by simp))
      simpa [layTag] using this
    · have hn' : (layTag t (l i)).name ≠ f := hn
      simp only [layTags, List.find?_cons, hn, hn', decide_false]
      exact ih (i + 1) (fun y hy => h y (by simp [hy]))

private theorem filter_lay {cc : CharClass} (l : Nat → TagLay) (p : List Char → Bool) : ∀ (ts : List Tag) (i : Nat),
    (∀ t ∈ ts, t.WF cc) →
    ((layTags ts l i).filter (fun t => p t.name)).map listDictOf = (ts.filter (fun t => p t.name)).map listDict := by
  intro ts
  induction ts with
  | nil => intro i _; rfl
  | cons t ts ih =>
    intro i h
    have e : listDictOf (layTag t (l i)) = listDict t := by
      unfold listDictOf listDict
      rw [dictOfAttrs_layTag (l i) (h t (by simp))]
      rfl
    have hn : (layTag t (l i)).name = t.name := rfl
    simp only [layTags, List.filter_cons, hn]
    split
    · simp only [List.map_cons, e, ih (i + 1) (fun y hy => h y (by simp [hy]))]
    · exact ih (i + 1) (fun y hy => h y (by simp [hy]))

private theorem mem_layTags_name (l : Nat → TagLay) (f : List Char) : ∀ (ts : List Tag) (i : Nat),
    (∃ t ∈ ts, t.name = f) → ∃ x ∈ layTags ts l i, x.name = f := by
  intro ts
  induction ts with
  | nil => intro i ⟨t, ht, _⟩; simp at ht
  | cons t ts ih =>
    intro i ⟨x, hx, hxn⟩
    rcases List.mem_cons.mp hx with rfl | hx'
    · exact ⟨layTag x (l i), by simp [layTags], hxn⟩
    · obtain ⟨y, hy, hyn⟩ := ih (i + 1) ⟨x, hx', hxn⟩
      exact ⟨y, by simp [layTags, hy], hyn⟩

private theorem layAttrs_no_lbrace (l : Nat → AttrLay) : ∀ (kvs : List (List Char × List Char)) (j : Nat),
    (∀ kv ∈ kvs, '{' ∉ kv.1 ∧ '{' ∉ kv.2) → ∀ a ∈ layAttrs kvs l j, '{' ∉ a.key ∧ '{' ∉ a.value := by
  intro kvs
  induction kvs with
  | nil => intro j _ a ha; simp [layAttrs] at ha
  | cons kv kvs ih =>
    intro j h a ha
    simp only [layAttrs, List.mem_cons] at ha
    rcases ha with rfl | ha
    · exact h kv (by simp)
    · exact ih (j + 1) (fun x hx => h x (by simp [hx])) a ha

private theorem layTags_no_lbrace {cc : CharClass} (hcc : Lawful cc) (l : Nat → TagLay) (hl : ∀ i, (l i).OK cc) :
    ∀ (ts : List Tag) (i : Nat), (∀ t ∈ ts, t.WF cc) → (∀ t ∈ ts, ∀ kv ∈ t.attrs, '{' ∉ kv.1 ∧ '{' ∉ kv.2) →
      ∀ x ∈ layTags ts l i, '{' ∉ x.body := by
  intro ts
  induction ts with
  | nil => intro i _ _ x hx; simp [layTags] at hx
  | cons t ts ih =>
    intro i h hb x hx
    simp only [layTags, List.mem_cons] at hx
    rcases hx with rfl | hx
    · have hok := layTag_ok (h t (by simp)) (hl i)
      exact body_no_lbrace hcc _ hok.attrs hok.close (layAttrs_no_lbrace _ _ 0 (hb t (by simp)))
    · exact ih (i + 1) (fun y hy => h y (by simp [hy])) (fun y hy => hb y (by simp [hy])) x hx

/-- **Dedicated fields are projections of the entry list** — for every grammar string whose keys
    and values are also free of `{` ("values free of braces").  `reading_order` and `structure`
    hold the pairs of the *first* tag of that name, `type` is `structure`'s `type` pair,
    `text_style` holds every `textStyle` tag in order, `custom_tags` every tag whose name was
    requested, in order (both with `type` set to the tag name).

    PARTIAL: the hypotheses `hro` / `hst` exclude the input class of the known finding
    `C11:document-rejected:name-ends-with-dedicated`: the guards of `parse_custom_metadata` are
    plain substring tests, so a tag name that merely *ends with* `structure` / `readingOrder`
    (while no tag has exactly that name) makes the real code raise ValueError; see
    `C11_dedicated_fields_counterexample`.  Without them the full statement is
    `∀ tags lay, WF → OK → ∃ md, parseCustomMetadata … = .ok md ∧ …` and it is false for the
    code as it stands. -/
theorem C11_dedicated_fields_partial (cc : CharClass) (hcc : Lawful cc) (tags : List Tag) (lay : Layout)
    (customTags : List (List Char))
    (htags : ∀ t ∈ tags, t.WF cc) (hlay : lay.OK cc)
    (hbr : ∀ t ∈ tags, ∀ kv ∈ t.attrs, '{' ∉ kv.1 ∧ '{' ∉ kv.2)
    (hro : guardHolds cc Gen.readingOrderGuardRegex Gen.readingOrderGuardAnySpace Gen.readingOrderTag (renderCustom tags lay) = true →
      ∃ t ∈ tags, t.name = Gen.readingOrderTag)
    (hst : guardHolds cc Gen.structureGuardRegex Gen.structureGuardAnySpace Gen.structureTag (renderCustom tags lay) = true →
      ∃ t ∈ tags, t.name = Gen.structureTag) :
    ∃ md, parseCustomMetadata cc (renderCustom tags lay) customTags = .ok md ∧
      DedicatedSpec cc tags lay customTags md := by
  unfold DedicatedSpec
  have hL := layTags_ok lay.tag hlay.tag tags 0 htags
  have hB := layTags_no_lbrace hcc lay.tag hlay.tag tags 0 htags hbr
  have hCA := C11_parse_complete cc hcc tags lay htags hlay
  have hElem : ∀ f, parseElement cc (renderCustom tags lay) f =
      match tags.find? (fun t => t.name = f) with
      | some t => .ok (toEntry t).attrs
      | none => .error .ValueError := by
    intro f
    unfold renderCustom
    rw [parseElement_laid hcc _ _ hL hlay.tail hB f]
    exact find_lay lay.tag f tags 0 htags
  have hList : ∀ fields, parseElementList cc (renderCustom tags lay) fields =
      .ok ((tags.filter (fun t => fields.contains t.name)).map listDict) := by
    intro fields
    unfold renderCustom
    rw [parseElementList_laid hcc _ _ hL hlay.tail hB fields]
    rw [filter_lay lay.tag (fun n => fields.contains n) tags 0 htags]
  have hGuard : ∀ (style gap : Bool) f, (∃ t ∈ tags, t.name = f) →
      guardHolds cc style gap f (renderCustom tags lay) = true := by
    intro style gap f h
    obtain ⟨x, hx, hxn⟩ := mem_layTags_name lay.tag f tags 0 h
    unfold guardHolds
    cases style
    · exact hasGuard_renderLaid hcc gap f _ _ ⟨x, hx, hxn⟩
    · simp only [if_true]
      unfold renderCustom findAll
      rw [scan_renderLaid hcc _ _ _ _ hL hlay.tail (fun t ht _ => hB t ht)]
      have : x ∈ (layTags tags lay.tag 0).filter (fun t => decide (t.name = f)) :=
        List.mem_filter.mpr ⟨hx, by simpa using hxn⟩
      cases hf : (layTags tags lay.tag 0).filter (fun t => decide (t.name = f)) with
      | nil => rw [hf] at this; simp at this
      | cons y ys => simp
  -- the two singular fields
  have hSing : ∀ (style gap : Bool) f,
      (guardHolds cc style gap f (renderCustom tags lay) = true → ∃ t ∈ tags, t.name = f) →
      whenGuard (guardHolds cc style gap f (renderCustom tags lay)) (parseElement cc (renderCustom tags lay) f) =
      .ok ((tags.find? (fun t => t.name = f)).map (fun t => (toEntry t).attrs)) := by
    intro style gap f hg
    unfold whenGuard
    by_cases hguard : guardHolds cc style gap f (renderCustom tags lay) = true
    · obtain ⟨t, ht, htn⟩ := hg hguard
      have hsome : (tags.find? (fun t => t.name = f)).isSome = true := by
        rw [List.find?_isSome]; exact ⟨t, ht, by simpa using htn⟩
      obtain ⟨t0, ht0⟩ := Option.isSome_iff_exists.mp hsome
      simp only [hguard, if_true, hElem f, ht0]
      rfl
    · have hnone : tags.find? (fun t => t.name = f) = none := by
        rw [List.find?_eq_none]
        intro t ht htn
        exact hguard (hGuard style gap f ⟨t, ht, by simpa using htn⟩)
      simp only [hguard, hnone]
      rfl
  have hRO := hSing Gen.readingOrderGuardRegex Gen.readingOrderGuardAnySpace Gen.readingOrderTag hro
  have hST := hSing Gen.structureGuardRegex Gen.structureGuardAnySpace Gen.structureTag hst
  have hTS : whenGuard (guardHolds cc Gen.textStyleGuardRegex Gen.textStyleGuardAnySpace Gen.textStyleTag (renderCustom tags lay))
        (parseElementList cc (renderCustom tags lay) [Gen.textStyleTag]) =
      .ok (if guardHolds cc Gen.textStyleGuardRegex Gen.textStyleGuardAnySpace Gen.textStyleTag (renderCustom tags lay) = true then
          some ((tags.filter (fun t => [Gen.textStyleTag].contains t.name)).map listDict) else none) := by
    unfold whenGuard
    rw [hList]; split <;> rfl
  have hCT : whenGuard (!customTags.isEmpty) (parseElementList cc (renderCustom tags lay) customTags) =
      .ok (if customTags.isEmpty = true then none else
          some ((tags.filter (fun t => customTags.contains t.name)).map listDict)) := by
    unfold whenGuard
    rw [hList]
    cases customTags <;> rfl
  refine ⟨{ customAttributes := tags.map toEntry,
            readingOrder := (tags.find? (fun t => t.name = Gen.readingOrderTag)).map (fun t => (toEntry t).attrs),
            structureEl := (tags.find? (fun t => t.name = Gen.structureTag)).map (fun t => (toEntry t).attrs),
            typeVal := ((tags.find? (fun t => t.name = Gen.structureTag)).map (fun t => (toEntry t).attrs)).bind
              (fun d => dictGet? d typeKey),
            textStyle := (if guardHolds cc Gen.textStyleGuardRegex Gen.textStyleGuardAnySpace Gen.textStyleTag (renderCustom tags lay) = true then
              some ((tags.filter (fun t => [Gen.textStyleTag].contains t.name)).map listDict) else none),
            customTags := (if customTags.isEmpty = true then none else
              some ((tags.filter (fun t => customTags.contains t.name)).map listDict)) },
    ?_, rfl, rfl, rfl, rfl, rfl, hGuard _ _ Gen.textStyleTag, rfl⟩
  unfold parseCustomMetadata
  rw [hCA]
  simp only
  rw [hRO]
  simp only
  rw [hST]
  simp only
  rw [hTS]
  simp only
  rw [hCT]

private theorem mem_layTags_tag (l : Nat → TagLay) : ∀ (ts : List Tag) (i : Nat) (x : LTag),
    x ∈ layTags ts l i → ∃ t ∈ ts, t.name = x.name := by
  intro ts
  induction ts with
  | nil => intro i x hx; simp [layTags] at hx
  | cons t ts ih =>
    intro i x hx
    simp only [layTags, List.mem_cons] at hx
    rcases hx with rfl | hx
    · exact ⟨t, by simp, rfl⟩
    · obtain ⟨y, hy, hyn⟩ := ih (i + 1) x hx
      exact ⟨y, by simp [hy], hyn⟩

/-- **The same at full strength for a source whose guards are word-boundary searches**
    (`re.search(r'\bstructure {.*?}', custom)` instead of `'structure {' in custom`): then the
    guard fires exactly when a tag of that name exists, and no grammar string is rejected.
    The two hypotheses are facts about the *current source*, regenerated on every run
    (`Generated/C11.lean`); on the pinned tree they are `false` (see the counterexample below),
    after the suggested repair they hold by `rfl`. -/
theorem C11_dedicated_fields_of_boundary_guards (cc : CharClass) (hcc : Lawful cc) (tags : List Tag) (lay : Layout)
    (customTags : List (List Char))
    (htags : ∀ t ∈ tags, t.WF cc) (hlay : lay.OK cc)
    (hbr : ∀ t ∈ tags, ∀ kv ∈ t.attrs, '{' ∉ kv.1 ∧ '{' ∉ kv.2)
    (h1 : Gen.readingOrderGuardRegex = true) (h2 : Gen.structureGuardRegex = true) :
    ∃ md, parseCustomMetadata cc (renderCustom tags lay) customTags = .ok md ∧
      DedicatedSpec cc tags lay customTags md := by
  have hL := layTags_ok lay.tag hlay.tag tags 0 htags
  have hB := layTags_no_lbrace hcc lay.tag hlay.tag tags 0 htags hbr
  have key : ∀ gap f, guardHolds cc true gap f (renderCustom tags lay) = true → ∃ t ∈ tags, t.name = f := by
    intro gap f hg
    unfold guardHolds renderCustom findAll at hg
    simp only [if_true] at hg
    rw [scan_renderLaid hcc _ _ _ _ hL hlay.tail (fun t ht _ => hB t ht)] at hg
    cases hf : (layTags tags lay.tag 0).filter (fun t => decide (t.name = f)) with
    | nil => rw [hf] at hg; simp at hg
    | cons x xs =>
      have hx : x ∈ (layTags tags lay.tag 0).filter (fun t => decide (t.name = f)) := by rw [hf]; simp
      obtain ⟨hx1, hx2⟩ := List.mem_filter.mp hx
      obtain ⟨t, ht, htn⟩ := mem_layTags_tag lay.tag tags 0 x hx1
      exact ⟨t, ht, by rw [htn]; simpa using hx2⟩
  exact C11_dedicated_fields_partial cc hcc tags lay customTags htags hlay hbr
    (by rw [h1]; exact key _ _) (by rw [h2]; exact key _ _)

/-- **The structure type becomes one of the element's types**: `parse_textregion` /
    `parse_tableregion` call `add_type(metadata['type'])`, which appends the type unless it is
    already there and keeps every other type. -/
theorem C11_structure_type_added (types : List (List Char)) (md : Metadata) (t : List Char)
    (h : md.typeVal = some (.str t)) :
    t ∈ typesAfter types (some md) ∧ (∀ x ∈ types, x ∈ typesAfter types (some md)) ∧
      (typesAfter types (some md) = types ∨ typesAfter types (some md) = types ++ [t]) := by
  have e : typesAfter types (some md) = addType types t := by simp [typesAfter, h]
  rw [e]
  unfold addType
  by_cases hc : types.contains t = true
  · rw [if_pos hc]
    exact ⟨by simpa using hc, fun x hx => hx, Or.inl rfl⟩
  · rw [if_neg hc]
    exact ⟨by simp, fun x hx => by simp [hx], Or.inr rfl⟩

/-! ### non-vacuity -/

/-- ASCII letters, digits and underscore are word characters; space, TAB, LF, CR are whitespace -/
def asciiCC : CharClass :=
  { isWord := fun c => c.isAlphanum || c = '_',
    isSpace := fun c => c = ' ' || c = '\t' || c = '\n' || c = '\r' }

theorem asciiCC_lawful : Lawful asciiCC := by
  refine ⟨by decide, by decide, by decide, by decide, by decide, by decide, by decide, by decide, by decide, ?_⟩
  intro c hc
  unfold isAsciiDigit at hc
  simp only [Bool.and_eq_true, decide_eq_true_eq] at hc
  simp only [asciiCC, Bool.or_eq_false_iff, decide_eq_false_iff_not]
  refine ⟨⟨⟨?_, ?_⟩, ?_⟩, ?_⟩ <;> rintro rfl <;> revert hc <;> decide

example : parseCustomAttributes asciiCC "readingOrder {index:2;}ab { k : v w ;offset:12 }b {}".toList =
    .ok [⟨"readingOrder".toList, [("index".toList, .int 2)]⟩,
         ⟨"ab".toList, [("k".toList, .str "v w".toList), ("offset".toList, .int 12)]⟩,
         ⟨"b".toList, []⟩] := by decide

example : (parseCustomAttributes asciiCC "a b {x:+3; index: 07 ;}".toList).map makeCustomString =
    .ok "b {x:+3; index:7;} ".toList := by decide

example : tagRow "r" "l" (some "abcdef".toList) [("offset".toList, .int 4), ("length".toList, .int 5), (typeKey, .str "p".toList)] =
    .ok ⟨.str "p".toList, "ef".toList, "r", "l", 4, 5⟩ := by decide

/-! concrete tags and layouts meeting the hypotheses of the theorems -/

def exTags : List Tag :=
  [⟨"readingOrder".toList, [("index".toList, "2".toList)]⟩,
   ⟨"mystyle".toList, []⟩,
   ⟨"structure".toList, [("type".toList, "p".toList)]⟩,
   ⟨"textStyle".toList, [("k".toList, "v w".toList), ("offset".toList, "12".toList)]⟩,
   ⟨"Style".toList, [("length".toList, "+3".toList)]⟩]

/-- one space in every place where the statement allows whitespace, no trailing semicolon -/
def looseLayout : Layout :=
  { tag := fun _ => { sep := [' '], attr := fun _ => ⟨[' '], [' '], [' '], [' ']⟩, trailing := false, close := [' '] },
    tail := [' '] }

/-- no optional whitespace at all, tags adjacent, trailing semicolons -/
def tightLayout : Layout :=
  { tag := fun _ => { sep := [], attr := fun _ => ⟨[], [], [], []⟩, trailing := true, close := [] }, tail := [] }

theorem looseLayout_ok {cc : CharClass} (hcc : Lawful cc) : looseLayout.OK cc := by
  have hb : Blank cc [' '] := blank_space hcc
  have hw : NoWord cc [' '] := by intro c hc; simp at hc; subst hc; exact hcc.space_not_word
  exact { tag := fun _ => { sep := hw, attr := fun _ => ⟨hb, hb, hb, hb⟩, close := hb }, tail := hw }

theorem tightLayout_ok (cc : CharClass) : tightLayout.OK cc := by
  have hb : Blank cc [] := blank_nil cc
  have hw : NoWord cc [] := by intro c hc; simp at hc
  exact { tag := fun _ => { sep := hw, attr := fun _ => ⟨hb, hb, hb, hb⟩, close := hb }, tail := hw }

/-- a computable check of the side conditions, so that concrete instances are closed by `decide` -/
def edgesB (cc : CharClass) (s : List Char) : Bool :=
  (match s.head? with | some c => !cc.isSpace c | none => true) &&
  (match s.getLast? with | some c => !cc.isSpace c | none => true)

def cleanB (s : List Char) : Bool := s.all (fun c => c != ';' && c != ':' && c != '}' && c != '\n')

def Tag.wfB (cc : CharClass) (t : Tag) : Bool :=
  !t.name.isEmpty && t.name.all cc.isWord &&
  t.attrs.all (fun kv => cleanB kv.1 && edgesB cc kv.1 && cleanB kv.2 && edgesB cc kv.2 &&
    (!(Gen.intKeys.contains kv.1) || (pyInt? kv.2).isSome)) &&
  decide ((t.attrs.map Prod.fst).Nodup) && !(t.attrs.map Prod.fst).contains tagNameKey

theorem noEdgeSpace_of_edgesB {cc : CharClass} {s : List Char} (h : edgesB cc s = true) : NoEdgeSpace cc s := by
  unfold edgesB at h
  simp only [Bool.and_eq_true] at h
  constructor
  · intro c hc; rw [hc] at h; simpa using h.1
  · intro c hc; rw [hc] at h; simpa using h.2

theorem clean_of_cleanB {s : List Char} (h : cleanB s = true) : Clean s := by
  unfold cleanB at h
  rw [List.all_eq_true] at h
  intro c hc
  have := h c hc
  simp only [Bool.and_eq_true, bne_iff_ne, ne_eq] at this
  exact ⟨this.1.1.1, this.1.1.2, this.1.2, this.2⟩

theorem Tag.wf_of_wfB {cc : CharClass} {t : Tag} (h : t.wfB cc = true) : t.WF cc := by
  unfold Tag.wfB at h
  simp only [Bool.and_eq_true, List.all_eq_true, Bool.or_eq_true, Bool.not_eq_true', decide_eq_true_eq] at h
  obtain ⟨⟨⟨⟨h1, h2⟩, h3⟩, h4⟩, h5⟩ := h
  exact
    { name_ne := by intro e; rw [e] at h1; simp at h1
      name_word := fun c hc => h2 c hc
      key_clean := fun kv hkv => clean_of_cleanB (h3 kv hkv).1.1.1.1
      key_edges := fun kv hkv => noEdgeSpace_of_edgesB (h3 kv hkv).1.1.1.2
      value_clean := fun kv hkv => clean_of_cleanB (h3 kv hkv).1.1.2
      value_edges := fun kv hkv => noEdgeSpace_of_edgesB (h3 kv hkv).1.2
      typed := by
        intro kv hkv hk
        rcases (h3 kv hkv).2 with h' | h'
        · have : Gen.intKeys.contains kv.1 = true := by simpa using hk
          rw [this] at h'; simp at h'
        · exact Option.isSome_iff_exists.mp h'
      keys_distinct := h4
      no_tag_name := by simpa using h5 }

theorem exTags_wf : ∀ t ∈ exTags, t.WF asciiCC :=
  fun t ht => Tag.wf_of_wfB ((by decide : ∀ t ∈ exTags, t.wfB asciiCC = true) t ht)

set_option maxRecDepth 8000 in
example : renderCustom exTags looseLayout =
    " readingOrder { index : 2 } mystyle { } structure { type : p } textStyle { k : v w ; offset : 12 } Style { length : +3 } ".toList := by
  decide

example : parseCustomAttributes asciiCC (renderCustom exTags looseLayout) = .ok (exTags.map toEntry) :=
  C11_parse_complete asciiCC asciiCC_lawful exTags looseLayout exTags_wf (looseLayout_ok asciiCC_lawful)

set_option maxRecDepth 8000 in
example : renderCustom exTags tightLayout =
    "readingOrder {index:2;}mystyle {}structure {type:p;}textStyle {k:v w;offset:12;}Style {length:+3;}".toList := by
  decide

example : (exTags.map toEntry).map (fun e => e.attrs) =
    [[("index".toList, .int 2)], [], [("type".toList, .str "p".toList)],
     [("k".toList, .str "v w".toList), ("offset".toList, .int 12)], [("length".toList, .int 3)]] := by decide

/-- the reserialisation theorem applied to a string that is *not* in the grammar's canonical form -/
example : parseCustomAttributes asciiCC
      (makeCustomString [⟨"b".toList, [("x".toList, .str "+3".toList), ("index".toList, .int 7)]⟩]) =
    .ok [⟨"b".toList, [("x".toList, .str "+3".toList), ("index".toList, .int 7)]⟩] :=
  C11_reserialise_stable asciiCC asciiCC_lawful "a b {x:+3; index: 07 ;}".toList _ (by decide)

/-- the dedicated-field theorem applies to `exTags` (which contains `mystyle`, `Style` next to
    `textStyle`, but no name ending in `structure` / `readingOrder` other than the tags themselves) -/
example : ∃ md, parseCustomMetadata asciiCC (renderCustom exTags tightLayout) ["Style".toList] = .ok md ∧
    md.readingOrder = some [("index".toList, .int 2)] ∧
    md.typeVal = some (.str "p".toList) ∧
    md.customTags = some [[("length".toList, .int 3), (typeKey, .str "Style".toList)]] := by
  obtain ⟨md, h, _, h2, h3, h4, _, _, h7⟩ := C11_dedicated_fields_partial asciiCC asciiCC_lawful exTags tightLayout
    ["Style".toList] exTags_wf (tightLayout_ok asciiCC) (by decide)
    (fun _ => ⟨⟨"readingOrder".toList, [("index".toList, "2".toList)]⟩, by simp [exTags], rfl⟩)
    (fun _ => ⟨⟨"structure".toList, [("type".toList, "p".toList)]⟩, by simp [exTags], rfl⟩)
  refine ⟨md, h, ?_, ?_, ?_⟩
  · rw [h2]; decide
  · rw [h4, h3]; decide
  · rw [h7]; decide

/-- **The known finding, as a theorem about the model of the current code**: a grammar string
    with one tag called `mystructure` parses (`custom_attributes` is fine), yet
    `parse_custom_metadata` raises ValueError, because `'structure {' in custom` is true while
    the regular expression `\bstructure {` finds nothing. -/
/- (`hsrc` is a fact about the source, regenerated on every run: it holds by `rfl` for the pinned
   tree; after the repair the theorem becomes vacuous and the boundary-guard theorem applies.) -/
theorem C11_dedicated_fields_counterexample (hsrc : Gen.structureGuardRegex = false) :
    renderCustom [⟨"mystructure".toList, [("type".toList, "p".toList)]⟩] tightLayout = "mystructure {type:p;}".toList ∧
    parseCustomAttributes asciiCC "mystructure {type:p;}".toList =
      .ok [⟨"mystructure".toList, [("type".toList, .str "p".toList)]⟩] ∧
    parseCustomMetadata asciiCC "mystructure {type:p;}".toList [] = .error .ValueError := by
  refine ⟨by decide, by decide, ?_⟩
  have hro : guardHolds asciiCC Gen.readingOrderGuardRegex Gen.readingOrderGuardAnySpace Gen.readingOrderTag "mystructure {type:p;}".toList = false := by
    cases Gen.readingOrderGuardRegex <;> decide
  have hst : guardHolds asciiCC Gen.structureGuardRegex Gen.structureGuardAnySpace Gen.structureTag "mystructure {type:p;}".toList = true := by
    rw [hsrc]; decide
  have hel : parseElement asciiCC "mystructure {type:p;}".toList Gen.structureTag = .error .ValueError := by decide
  have hca : parseCustomAttributes asciiCC "mystructure {type:p;}".toList =
      .ok [⟨"mystructure".toList, [("type".toList, .str "p".toList)]⟩] := by decide
  unfold parseCustomMetadata
  rw [hca]
  simp only [hro, hst, hel, whenGuard]
  rfl


/-- the reserved key and a repeated key, as the code treats them (DESIGN §9 reading) -/
example : parseCustomAttributes asciiCC "a {tag_name:q; x:1; y:2; x:3}".toList =
    .ok [⟨"a".toList, [("x".toList, .str "3".toList), ("y".toList, .str "2".toList)]⟩] := by decide

example : parseCustomAttributes asciiCC "a {x}".toList = .error .ValueError ∧
    parseCustomAttributes asciiCC "a {x:1:2}".toList = .error .ValueError ∧
    parseCustomAttributes asciiCC "a {offset:z}".toList = .error .ValueError ∧
    parseCustomAttributes asciiCC "a {x:1".toList = .ok [] := by decide

example : typesAfter ["text_region".toList] (some ⟨[], none, none, some (.str "p".toList), none, none⟩) =
    ["text_region".toList, "p".toList] := by decide

/-- the dedicated-fields clause at FULL strength for the current source: the two guards of
    `parse_custom_metadata` are word-boundary searches in the regenerated table
    (`Generated/C11.lean`; repaired by the `fix:` commit ba21591), so no hypothesis about the
    guards remains.  If the source goes back to substring tests, `rfl` no longer checks, the
    obligation breaks and the oracle finds the `mystructure {…}` input. -/
theorem C11_dedicated_fields (cc : CharClass) (hcc : Lawful cc) (tags : List Tag) (lay : Layout)
    (customTags : List (List Char))
    (htags : ∀ t ∈ tags, t.WF cc) (hlay : lay.OK cc)
    (hbr : ∀ t ∈ tags, ∀ kv ∈ t.attrs, '{' ∉ kv.1 ∧ '{' ∉ kv.2) :
    ∃ md, parseCustomMetadata cc (renderCustom tags lay) customTags = .ok md ∧
      DedicatedSpec cc tags lay customTags md :=
  C11_dedicated_fields_of_boundary_guards cc hcc tags lay customTags htags hlay hbr rfl rfl

end Pagexml.C11
