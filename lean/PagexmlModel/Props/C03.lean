/-
C03 — Coordinates report the exact bounding box of their points.
Property theorems only (helper lemmas about folds are local and marked `private`).
Every theorem quantifies over all point lists: no bound on length or magnitude.
-/
import PagexmlModel.Model.C03
import PagexmlModel.Lemmas.PyInt
import PagexmlModel.Lemmas.Split

namespace Pagexml.C03

/-! ### fold lemmas -/

private theorem foldl_min_spec (as : List Int) (a : Int) :
    (as.foldl min a ≤ a) ∧ (∀ x ∈ as, as.foldl min a ≤ x) ∧ (as.foldl min a = a ∨ as.foldl min a ∈ as) := by
  induction as generalizing a with
  | nil => simp
  | cons b bs ih =>
    obtain ⟨h1, h2, h3⟩ := ih (min a b)
    simp only [List.foldl_cons]
    refine ⟨by omega, ?_, ?_⟩
    · intro x hx
      rcases List.mem_cons.mp hx with rfl | hx
      · omega
      · exact h2 x hx
    · rcases h3 with h3 | h3
      · have e : min a b = a ∨ min a b = b := by omega
        rcases e with e | e
        · left; rw [h3, e]
        · right; rw [h3, e]; simp
      · right; exact List.mem_cons_of_mem _ h3

private theorem foldl_max_spec (as : List Int) (a : Int) :
    (a ≤ as.foldl max a) ∧ (∀ x ∈ as, x ≤ as.foldl max a) ∧ (as.foldl max a = a ∨ as.foldl max a ∈ as) := by
  induction as generalizing a with
  | nil => simp
  | cons b bs ih =>
    obtain ⟨h1, h2, h3⟩ := ih (max a b)
    simp only [List.foldl_cons]
    refine ⟨by omega, ?_, ?_⟩
    · intro x hx
      rcases List.mem_cons.mp hx with rfl | hx
      · omega
      · exact h2 x hx
    · rcases h3 with h3 | h3
      · have e : max a b = a ∨ max a b = b := by omega
        rcases e with e | e
        · left; rw [h3, e]
        · right; rw [h3, e]; simp
      · right; exact List.mem_cons_of_mem _ h3

private theorem minL_spec (l : List Int) (hne : l ≠ []) :
    ∃ m, minL l = .ok m ∧ (∀ x ∈ l, m ≤ x) ∧ m ∈ l := by
  cases l with
  | nil => exact absurd rfl hne
  | cons a as =>
    obtain ⟨h1, h2, h3⟩ := foldl_min_spec as a
    refine ⟨as.foldl min a, rfl, ?_, ?_⟩
    · intro x hx
      rcases List.mem_cons.mp hx with rfl | hx
      · exact h1
      · exact h2 x hx
    · rcases h3 with h3 | h3
      · rw [h3]; simp
      · exact List.mem_cons_of_mem _ h3

private theorem maxL_spec (l : List Int) (hne : l ≠ []) :
    ∃ m, maxL l = .ok m ∧ (∀ x ∈ l, x ≤ m) ∧ m ∈ l := by
  cases l with
  | nil => exact absurd rfl hne
  | cons a as =>
    obtain ⟨h1, h2, h3⟩ := foldl_max_spec as a
    refine ⟨as.foldl max a, rfl, ?_, ?_⟩
    · intro x hx
      rcases List.mem_cons.mp hx with rfl | hx
      · exact h1
      · exact h2 x hx
    · rcases h3 with h3 | h3
      · rw [h3]; simp
      · exact List.mem_cons_of_mem _ h3

/-! ### the property -/

/-- Everything the statement says about a coordinates object built from a non-empty
    point list `ps`: it exists (no error), keeps the points in input order, left/top are
    the minimum x/y *attained by some point*, right/bottom the maximum, width/height
    their (non-negative) differences, and the box consists of exactly these numbers. -/
structure ExactBox (ps : List Pt) (c : Coords) : Prop where
  points_kept : c.points = ps
  left_le : ∀ p ∈ ps, c.left ≤ p.1
  left_attained : ∃ p ∈ ps, p.1 = c.left
  right_ge : ∀ p ∈ ps, p.1 ≤ c.right
  right_attained : ∃ p ∈ ps, p.1 = c.right
  top_le : ∀ p ∈ ps, c.top ≤ p.2
  top_attained : ∃ p ∈ ps, p.2 = c.top
  bottom_ge : ∀ p ∈ ps, p.2 ≤ c.bottom
  bottom_attained : ∃ p ∈ ps, p.2 = c.bottom
  width_eq : c.width = c.right - c.left
  height_eq : c.height = c.bottom - c.top
  width_nonneg : 0 ≤ c.width
  height_nonneg : 0 ≤ c.height
  box_eq : c.box = (c.left, c.top, c.right - c.left, c.bottom - c.top)

theorem C03_exact_box (ps : List Pt) (hne : ps ≠ []) :
    ∃ c, mkCoords ps = .ok c ∧ ExactBox ps c := by
  have hx : ps.map (·.1) ≠ [] := by simpa using hne
  have hy : ps.map (·.2) ≠ [] := by simpa using hne
  obtain ⟨x, ex, hxle, hxmem⟩ := minL_spec _ hx
  obtain ⟨y, ey, hyle, hymem⟩ := minL_spec _ hy
  obtain ⟨mx, emx, hmxge, hmxmem⟩ := maxL_spec _ hx
  obtain ⟨my, emy, hmyge, hmymem⟩ := maxL_spec _ hy
  refine ⟨{ points := ps, x := x, y := y, w := mx - x, h := my - y }, ?_, ?_⟩
  · simp [mkCoords, ex, ey, emx, emy, bind, Except.bind, pure, Except.pure]
  · obtain ⟨px, hpx, epx⟩ := List.mem_map.mp hxmem
    obtain ⟨py, hpy, epy⟩ := List.mem_map.mp hymem
    obtain ⟨qx, hqx, eqx⟩ := List.mem_map.mp hmxmem
    obtain ⟨qy, hqy, eqy⟩ := List.mem_map.mp hmymem
    have hxm : x ≤ mx := le_trans (hxle _ (List.mem_map_of_mem hqx)) (by simp [eqx])
    have hym : y ≤ my := le_trans (hyle _ (List.mem_map_of_mem hqy)) (by simp [eqy])
    constructor <;> simp only [Coords.left, Coords.right, Coords.top, Coords.bottom, Coords.width,
      Coords.height, Coords.box]
    · intro p hp; exact hxle _ (List.mem_map_of_mem hp)
    · exact ⟨px, hpx, epx⟩
    · intro p hp; have := hmxge _ (List.mem_map_of_mem (f := (·.1)) hp); omega
    · exact ⟨qx, hqx, by have e : qx.1 = mx := eqx; omega⟩
    · intro p hp; exact hyle _ (List.mem_map_of_mem hp)
    · exact ⟨py, hpy, epy⟩
    · intro p hp; have := hmyge _ (List.mem_map_of_mem (f := (·.2)) hp); omega
    · exact ⟨qy, hqy, by have e : qy.2 = my := eqy; omega⟩
    · omega
    · omega
    · omega
    · omega
    · simp

/-- the list form accepts every non-empty list of integer pairs and keeps it unchanged -/
theorem C03_list_form_accepts (ps : List Pt) (hne : ps ≠ []) :
    parsePointsList (ps.map (fun p => PtIn.seq [.int p.1, .int p.2])) = .ok ps := by
  have h : ∀ qs : List Pt, (qs.map (fun p => PtIn.seq [.int p.1, .int p.2])).mapM checkPt = .ok qs := by
    intro qs
    induction qs with
    | nil => rfl
    | cons q qs ih =>
      simp only [List.map_cons, List.mapM_cons, checkPt, ih]
      rfl
  cases ps with
  | nil => exact absurd rfl hne
  | cons p ps =>
    show (List.map _ (p :: ps)).mapM checkPt = _
    exact h (p :: ps)

/-- the string form: the points string of a coordinates object parses back to the same
    points — for every non-empty list of integer points, of any magnitude or sign -/
theorem C03_string_roundtrip (ps : List Pt) (hne : ps ≠ []) :
    parsePointsStr (pointString ps) = .ok ps := by
  have htok : ∀ p : Pt, parseToken (ptString p) = .ok (some p) := by
    intro p
    unfold parseToken ptString
    have e : showInt p.1 ++ [','] ++ showInt p.2 = showInt p.1 ++ ',' :: showInt p.2 := by simp
    rw [e, splitOn_append_sep ',' _ _ (showInt_no_comma p.1), splitOn_no_sep ',' _ (showInt_no_comma p.2)]
    simp [pyInt_showInt]
  have hnosp : ∀ t ∈ ps.map ptString, ' ' ∉ t := by
    intro t ht
    obtain ⟨p, _, rfl⟩ := List.mem_map.mp ht
    unfold ptString
    intro hmem
    simp only [List.mem_append, List.mem_cons, List.not_mem_nil, or_false] at hmem
    rcases hmem with (h | h) | h
    · exact showInt_no_space _ h
    · revert h; decide
    · exact showInt_no_space _ h
  have hsplit : splitOn ' ' (pointString ps) = ps.map ptString :=
    splitOn_intercalate ' ' _ (by simpa using hne) hnosp
  have hmap : ∀ qs : List Pt, (qs.map ptString).mapM parseToken = .ok (qs.map some) := by
    intro qs
    induction qs with
    | nil => rfl
    | cons q qs ih => simp only [List.map_cons, List.mapM_cons, htok, ih]; rfl
  unfold parsePointsStr
  rw [hsplit, hmap]
  show Except.ok ((ps.map some).filterMap id) = _
  congr 1
  induction ps with
  | nil => rfl
  | cons p ps ih => simp

/-- … and hence to the same box (both input forms build the same object) -/
theorem C03_both_forms_agree (ps : List Pt) (hne : ps ≠ []) :
    coordsOfStr (pointString ps) = mkCoords ps ∧
    coordsOfList (ps.map (fun p => PtIn.seq [.int p.1, .int p.2])) = mkCoords ps := by
  unfold coordsOfStr coordsOfList
  rw [C03_string_roundtrip ps hne, C03_list_form_accepts ps hne]
  exact ⟨rfl, rfl⟩

/-- baselines obey the same laws: they are built by the same function -/
theorem C03_baseline_same (ps : List Pt) : mkBaseline ps = mkCoords ps := rfl

/-- an empty point list is rejected, in both forms -/
theorem C03_empty_rejected :
    coordsOfList [] = .error .IndexError ∧ coordsOfStr [] = .error .ValueError := by
  constructor <;> rfl

/-- a point list with a non-integer coordinate (or an element that is not a pair) is
    rejected, wherever it occurs in the list -/
theorem C03_nonint_rejected (pre post : List PtIn) (bad : PtIn)
    (hpre : ∀ p ∈ pre, ∃ q, checkPt p = .ok q)
    (hbad : bad = .notSeq ∨ (∃ r, bad = .seq (.nonint :: r)) ∨ (∃ a r, bad = .seq (.int a :: .nonint :: r))) :
    coordsOfList (pre ++ bad :: post) = .error .TypeError := by
  have hb : checkPt bad = .error .TypeError := by
    rcases hbad with rfl | ⟨r, rfl⟩ | ⟨a, r, rfl⟩ <;> rfl
  have h : ∀ pre : List PtIn, (∀ p ∈ pre, ∃ q, checkPt p = .ok q) →
      (pre ++ bad :: post).mapM checkPt = .error .TypeError := by
    intro pre
    induction pre with
    | nil => intro _; simp only [List.nil_append, List.mapM_cons, hb]; rfl
    | cons p pre ih =>
      intro hp
      obtain ⟨q, hq⟩ := hp p (by simp)
      simp only [List.cons_append, List.mapM_cons, hq, ih (fun x hx => hp x (by simp [hx]))]
      rfl
  have hne : pre ++ bad :: post ≠ [] := by simp
  have hpl : parsePointsList (pre ++ bad :: post) = (pre ++ bad :: post).mapM checkPt := by
    cases hpp : pre ++ bad :: post with
    | nil => exact absurd hpp hne
    | cons x xs => rfl
  unfold coordsOfList
  rw [hpl, h pre hpre]; rfl

/-- a points string containing a pair with a non-integer field is rejected -/
theorem C03_nonint_string_rejected (pre post a b : List Char)
    (hpre : ∃ qs, (splitOn ' ' pre).mapM parseToken = .ok qs) (hsp : ' ' ∉ pre)
    (hab : splitOn ',' (a ++ ',' :: b) = [a, b]) (hbad : pyInt? a = none ∨ pyInt? b = none)
    (hnosp : ' ' ∉ a ++ ',' :: b) :
    coordsOfStr (pre ++ ' ' :: (a ++ ',' :: b) ++ ' ' :: post) = .error .ValueError := by
  have htok : parseToken (a ++ ',' :: b) = .error .ValueError := by
    unfold parseToken
    rw [hab]
    rcases hbad with h | h
    · simp [h]
    · cases ha : pyInt? a <;> simp [h]
  obtain ⟨qs, hqs⟩ := hpre
  have e : pre ++ ' ' :: (a ++ ',' :: b) ++ ' ' :: post = pre ++ ' ' :: ((a ++ ',' :: b) ++ ' ' :: post) := by
    simp
  unfold coordsOfStr parsePointsStr
  rw [e, splitOn_append_sep ' ' pre _ hsp, splitOn_append_sep ' ' _ _ hnosp]
  rw [splitOn_no_sep ' ' pre hsp] at hqs
  simp only [List.mapM_cons, List.mapM_nil] at hqs
  simp only [List.mapM_cons]
  cases hp : parseToken pre with
  | error e => rw [hp] at hqs; simp [bind, Except.bind] at hqs
  | ok v => simp [htok, bind, Except.bind]

/-! ### non-vacuity: the hypotheses are met by concrete, non-trivial values -/

example : ∃ c, mkCoords [(5, 7), (-3, 10 ^ 30), (5, 7), (0, 0)] = .ok c ∧ c.box = (-3, 0, 8, 10 ^ 30) :=
  ⟨_, rfl, by decide⟩
example : parsePointsStr (pointString [(5, 7), (-3, 12), (5, 7)]) = .ok [(5, 7), (-3, 12), (5, 7)] := by
  decide
example : coordsOfList [.seq [.int 1, .int 2], .seq [.int 1, .nonint]] = .error .TypeError := rfl
example : coordsOfStr "1,2 a,b 3,4".toList = .error .ValueError := by decide

end Pagexml.C03
