/-
C20 — Corpus and document statistics are exact counts that add up.
Property theorems only; the lemmas live in Lemmas/C20*.lean.

Tokens (`α`), line texts (`L`) and the tokeniser / lower-casing / emptiness test (`ops`) are
arbitrary: every theorem about analysers holds for the character analyser, for the word analyser
with any `word_break_chars`, with and without ignorecase, and for corpora of any size.
A well-formed corpus is a list of `Option L` (`none` = a line without text); `corpusIn` turns it
into what the analyser iterates over; `tokenLists ops ic c` are the token lists of its non-empty
lines (texts that are neither None nor '', lower-cased under ignorecase).
-/
import PagexmlModel.Lemmas.C20Merge
import PagexmlModel.Lemmas.C20Keyness
import PagexmlModel.Lemmas.C20Tables
import PagexmlModel.Lemmas.C20Cfg

set_option linter.unusedSectionVars false
set_option linter.unusedSimpArgs false

namespace Pagexml.C20

variable {L α : Type} [DecidableEq α]

/-! ## exact counts -/

/-- number of lines whose piece `f` (first / last token) is the token `t` -/
def linesWith (f : List α → List α) (t : α) (tls : List (List α)) : Nat :=
  (tls.filter (fun ws => decide (f ws = [t]))).length

/-- what the statement says about the four counters of an analyser that has seen the token
    lists `tls` (one per non-empty line), `e` being the end-token rule of the analyser -/
structure ExactCounts (e : List α → List α) (tls : List (List α)) (a : Analyser α) : Prop where
  /-- every token of every line is counted once overall -/
  all : ∀ t, cget a.all t = (tls.map (fun ws => ws.count t)).sum
  /-- the first token of every line as start -/
  start : ∀ t, cget a.start t = linesWith startOf t tls
  /-- the tokens strictly between first and last as middle -/
  mid : ∀ t, cget a.mid t = (tls.map (fun ws => (midOf ws).count t)).sum
  /-- the last token as end (`e` decides for one-token lines) -/
  end_ : ∀ t, cget a.end_ t = linesWith e t tls
  /-- totals: all = number of tokens, start = lines with a token, end = lines the rule `e`
      gives an end token, mid = tokens beyond the first two of each line -/
  total_all : ctotal a.all = (tls.map List.length).sum
  total_start : ctotal a.start = (tls.filter (fun ws => decide (ws ≠ []))).length
  total_mid : ctotal a.mid = (tls.map (fun ws => ws.length - 2)).sum
  total_end : ctotal a.end_ = (tls.map (fun ws => (e ws).length)).sum

private theorem count_piece (f : List α → List α) (hf : ∀ ws, (f ws).length ≤ 1) (tls : List (List α)) (t : α) :
    (tls.flatMap f).count t = linesWith f t tls := by
  induction tls with
  | nil => rfl
  | cons ws r ih =>
    simp only [List.flatMap_cons, List.count_append, ih, linesWith, List.filter_cons]
    have hl := hf ws
    match h : f ws, hl with
    | [], _ => simp
    | [x], _ =>
      by_cases hx : x = t
      · subst hx; simp; omega
      · have : ¬ [x] = [t] := by simpa using hx
        simp [hx, this]

private theorem exactCounts_analysed (e : List α → List α) (he : ∀ ws, (e ws).length ≤ 1) (k : Nat)
    (tls : List (List α)) : ExactCounts e tls (analysed e k tls) := by
  have hs : ∀ ws : List α, (startOf ws).length ≤ 1 := by intro ws; rw [length_startOf]; split <;> omega
  refine ⟨?_, ?_, ?_, ?_, ?_, ?_, ?_, ?_⟩
  · intro t
    rw [(analysed_cget e k tls t).1]
    have := count_flatMap_sum (fun ws : List α => ws) tls t
    simpa [List.flatMap_id'] using this
  · intro t; rw [(analysed_cget e k tls t).2.1]; exact count_piece startOf hs tls t
  · intro t; rw [(analysed_cget e k tls t).2.2.1]; exact count_flatMap_sum midOf tls t
  · intro t; rw [(analysed_cget e k tls t).2.2.2]; exact count_piece e he tls t
  · rw [analysed_eq]; simp [ctotal_cupdate, List.length_flatten]
  · rw [analysed_eq]
    simp only [ctotal_cupdate, ctotal_nil, Nat.zero_add, length_flatMap_sum]
    have : (fun ws : List α => (startOf ws).length) = fun ws => if ws ≠ [] then 1 else 0 := by
      funext ws; rw [length_startOf]; by_cases h : ws = [] <;> simp [h]
    rw [this]
    exact sum_map_ite_length (fun ws : List α => ws ≠ []) tls
  · rw [analysed_eq]
    simp only [ctotal_cupdate, ctotal_nil, Nat.zero_add, length_flatMap_sum, length_midOf]
  · rw [analysed_eq]
    simp only [ctotal_cupdate, ctotal_nil, Nat.zero_add, length_flatMap_sum]

private theorem endW_le (ws : List α) : (endW ws).length ≤ 1 := by rw [length_endW]; split <;> omega
private theorem endC_le (ws : List α) : (endC ws).length ≤ 1 := by rw [length_endC]; split <;> omega

/-- **Counts, word analyser.** For every well-formed corpus, every tokeniser, ignore-case on or
    off: the analysis succeeds and its counters are exactly the counts of the statement, with a
    one-token line counted as start *and* end (`endW`). -/
theorem C20_counts_words (ops : LineOps L α) (ic : Bool) (c : List (Option L)) :
    ∃ a, analyseWords ops ic {} (corpusIn c) = .ok a ∧ ExactCounts endW (tokenLists ops ic c) a :=
  ⟨_, analyseWords_corpus ops ic {} c, exactCounts_analysed endW endW_le 1 _⟩

/-- **Counts, character analyser** (the tokeniser lists the characters, so a non-empty line has
    at least one token): a one-character line counts as start only (`endC`). -/
theorem C20_counts_chars (ops : LineOps L α) (ic : Bool) (c : List (Option L))
    (hne : ∀ ws ∈ tokenLists ops ic c, ws ≠ []) :
    ∃ a, analyseChars ops ic {} (corpusIn c) = .ok a ∧ ExactCounts endC (tokenLists ops ic c) a :=
  ⟨_, analyseChars_corpus ops ic {} c hne, exactCounts_analysed endC endC_le 0 _⟩

/-- the hypothesis of `C20_counts_chars` holds for the tokeniser that lists characters -/
example : ∀ ws ∈ tokenLists (L := List Char) (α := Char) ⟨fun s => s.isEmpty, id, id⟩ false
    [some ['a', 'b'], none, some [], some ['c']], ws ≠ [] := by decide

/-- **A line is its start, middle and end.** A line of at least two tokens splits into first
    token, middle tokens and last token (so `all t = start t + mid t + end t` line by line, for
    both analysers); a one-token line is its own start and, for words only, its own end. -/
theorem C20_line_pieces (ws : List α) :
    (2 ≤ ws.length → ws = startOf ws ++ midOf ws ++ endW ws ∧ endC ws = endW ws ∧
      ∀ t, ws.count t = (startOf ws).count t + (midOf ws).count t + (endW ws).count t) ∧
    (∀ w, ws = [w] → startOf ws = [w] ∧ midOf ws = [] ∧ endW ws = [w] ∧ endC ws = []) ∧
    (ws = [] → startOf ws = [] ∧ midOf ws = [] ∧ endW ws = [] ∧ endC ws = []) := by
  refine ⟨fun h => ⟨line_partition ws h, endC_of_two ws h, fun t => ?_⟩, ?_, ?_⟩
  · have := congrArg (List.count t) (line_partition ws h)
    simp only [List.count_append] at this
    omega
  · intro w hw; subst hw; exact line_single w
  · intro hw; subst hw; exact line_empty

example : ExactCounts endW [["a", "b", "a"], ["a"], []] (analysed endW 1 [["a", "b", "a"], ["a"], []]) :=
  exactCounts_analysed endW endW_le 1 _
example : cget (analysed endW 1 [["a", "b", "a"], ["a"], []]).end_ "a" = 2 ∧
    cget (analysed endC 0 [["a", "b", "a"], ["a"]]).end_ "a" = 1 := by decide

/-! ## line count -/

/-- the lines that count: text neither None nor empty -/
def nonEmptyLines (ops : LineOps L α) (c : List (Option L)) : Nat :=
  (c.filter (fun o => match o with | none => false | some t => !ops.isEmpty t)).length

private theorem length_yielded (ops : LineOps L α) (ic : Bool) (c : List (Option L)) :
    (yielded ops ic c).length = nonEmptyLines ops c := by
  induction c with
  | nil => rfl
  | cons o r ih =>
    cases o with
    | none => simpa [yielded, nonEmptyLines] using ih
    | some t =>
      by_cases h : ops.isEmpty t = true
      · simpa [yielded, nonEmptyLines, h] using ih
      · have h' : ops.isEmpty t = false := by simpa using h
        simp only [yielded, nonEmptyLines, List.filterMap_cons, h', Bool.false_eq_true, if_false,
          List.length_cons, List.filter_cons, Bool.not_false, if_true] at ih ⊢
        omega

/-- **Line count.** A word analyser's `num_lines` is the number of non-empty lines of the corpus
    (a non-empty line without any word token, like `'   '`, counts); the character analyser never
    counts lines. -/
theorem C20_num_lines (ops : LineOps L α) (ic : Bool) (c : List (Option L)) :
    (∃ a, analyseWords ops ic {} (corpusIn c) = .ok a ∧ a.numLines = nonEmptyLines ops c) ∧
    ((∀ ws ∈ tokenLists ops ic c, ws ≠ []) →
      ∃ a, analyseChars ops ic {} (corpusIn c) = .ok a ∧ a.numLines = 0) := by
  refine ⟨⟨_, analyseWords_corpus ops ic {} c, ?_⟩, fun hne => ⟨_, analyseChars_corpus ops ic {} c hne, ?_⟩⟩
  · have := foldG_eq endW 1 ({} : Analyser α) (tokenLists ops ic c)
    rw [this]
    simp [tokenLists, length_yielded]
  · have := foldG_eq endC 0 ({} : Analyser α) (tokenLists ops ic c)
    rw [this]
    simp

example : nonEmptyLines (L := String) (α := String) ⟨fun s => s.isEmpty, id, fun s => s.splitOn " "⟩
    [some "a b", none, some "", some "   "] = 2 := by decide

/-! ## no error on any corpus -/

/-- **Totality.** Constructing a word analyser on any well-formed corpus — however short its
    lines, including corpora whose lines all have at most two tokens and the empty corpus —
    returns an analyser, its `stats` are the four counter totals and the line count, and
    `get_stats()` returns one row per token type; the same for the character analyser. -/
theorem C20_total (ops : LineOps L α) (ic : Bool) (c : List (Option L)) :
    (∃ a, lineWordAnalyser ops ic (corpusIn c) = .ok (a, statsOf a) ∧
          ∃ rows, getStats a = .ok rows ∧ rows.length = (ckeys a.all).length) ∧
    ((∀ ws ∈ tokenLists ops ic c, ws ≠ []) →
      ∃ a, lineCharAnalyser ops ic (corpusIn c) = .ok (a, statsOf a) ∧
          ∃ rows, getStats a = .ok rows ∧ rows.length = (ckeys a.all).length) := by
  constructor
  · have hp : CPos (analysed endW 1 (tokenLists ops ic c)).all := analysed_cpos _ _ _
    refine ⟨analysed endW 1 (tokenLists ops ic c), ?_, getStats_ok _ hp⟩
    have := withStats_ok _ hp
    simp only [analysed] at this
    simp only [lineWordAnalyser, analyseWords_corpus, this, analysed]
  · intro hne
    have hp : CPos (analysed endC 0 (tokenLists ops ic c)).all := analysed_cpos _ _ _
    refine ⟨analysed endC 0 (tokenLists ops ic c), ?_, getStats_ok _ hp⟩
    have := withStats_ok _ hp
    simp only [analysed] at this
    simp only [lineCharAnalyser, analyseChars_corpus ops ic {} c hne, this, analysed]

/-- a malformed element (a dict without 'text', an object of another type) is rejected with the
    error of `get_line_text`, wherever it stands in the corpus -/
theorem C20_malformed_rejected (ops : LineOps L α) (ic : Bool) (c : List (Option L)) (rest : List (LineIn L)) :
    analyseWords ops ic {} (corpusIn c ++ LineIn.dictNoText :: rest) = .error .KeyError ∧
    analyseWords ops ic {} (corpusIn c ++ LineIn.badType :: rest) = .error .TypeError :=
  analyseWords_bad ops ic {} c rest

example : ∃ a, lineWordAnalyser (L := String) (α := String) ⟨fun s => s.isEmpty, id, fun s => s.splitOn " "⟩ false
    (corpusIn [some "a b", some "c"]) = .ok (a, statsOf a) := (C20_total _ _ _).1.imp fun _ h => h.1

/-! ## additivity -/

/-- the analyser a word / character analyser ends with on a well-formed corpus -/
def wordsOf (ops : LineOps L α) (ic : Bool) (c : List (Option L)) : Analyser α :=
  analysed endW 1 (tokenLists ops ic c)
def charsOf (ops : LineOps L α) (ic : Bool) (c : List (Option L)) : Analyser α :=
  analysed endC 0 (tokenLists ops ic c)

theorem wordsOf_spec (ops : LineOps L α) (ic : Bool) (c : List (Option L)) :
    analyseWords ops ic {} (corpusIn c) = .ok (wordsOf ops ic c) := analyseWords_corpus ops ic {} c

theorem charsOf_spec (ops : LineOps L α) (ic : Bool) (c : List (Option L))
    (hne : ∀ ws ∈ tokenLists ops ic c, ws ≠ []) :
    analyseChars ops ic {} (corpusIn c) = .ok (charsOf ops ic c) := analyseChars_corpus ops ic {} c hne

private theorem add_ok (x : Analyser α) (y : Analyser α) :
    addAnalysers x y = .ok (addCore x y, statsOf (addCore x y)) :=
  withStats_ok _ (cpos_cadd _ _)

/-- **`a + b`.** For every split of a corpus into two parts `c ++ d`: adding the analysers of
    the parts succeeds and gives, token by token and for the line count and the stats, the analyser
    of the whole corpus — for the word analyser and for the character analyser. -/
theorem C20_additive_add (ops : LineOps L α) (ic : Bool) (c d : List (Option L)) :
    (∃ m, addAnalysers (wordsOf ops ic c) (wordsOf ops ic d) = .ok (m, statsOf m) ∧
          AEquiv m (wordsOf ops ic (c ++ d)) ∧ statsOf m = statsOf (wordsOf ops ic (c ++ d))) ∧
    (∃ m, addAnalysers (charsOf ops ic c) (charsOf ops ic d) = .ok (m, statsOf m) ∧
          AEquiv m (charsOf ops ic (c ++ d)) ∧ statsOf m = statsOf (charsOf ops ic (c ++ d))) := by
  constructor
  · have h : AEquiv (addCore (wordsOf ops ic c) (wordsOf ops ic d)) (wordsOf ops ic (c ++ d)) := by
      simp only [wordsOf, tokenLists_append]; exact add_analysed endW 1 _ _
    exact ⟨_, add_ok _ _, h, statsOf_congr h⟩
  · have h : AEquiv (addCore (charsOf ops ic c) (charsOf ops ic d)) (charsOf ops ic (c ++ d)) := by
      simp only [charsOf, tokenLists_append]; exact add_analysed endC 0 _ _
    exact ⟨_, add_ok _ _, h, statsOf_congr h⟩

private theorem merge_ok (as : List (Analyser α)) (hne : as ≠ []) (hp : CPos (mergeCore as).all) :
    mergeAnalysers as = .ok (mergeCore as, statsOf (mergeCore as)) := by
  cases as with
  | nil => exact absurd rfl hne
  | cons a r => exact withStats_ok _ hp

/-- **`merge_analysers`.** For every split of a corpus into `k ≥ 1` parts: merging the analysers
    of the parts succeeds and gives, token by token, for the line count and for the stats, the
    analyser of the concatenated corpus. -/
theorem C20_additive_merge (ops : LineOps L α) (ic : Bool) (cs : List (List (Option L))) (hne : cs ≠ []) :
    (∃ m, mergeAnalysers (cs.map (wordsOf ops ic)) = .ok (m, statsOf m) ∧
          AEquiv m (wordsOf ops ic cs.flatten) ∧ statsOf m = statsOf (wordsOf ops ic cs.flatten)) ∧
    (∃ m, mergeAnalysers (cs.map (charsOf ops ic)) = .ok (m, statsOf m) ∧
          AEquiv m (charsOf ops ic cs.flatten) ∧ statsOf m = statsOf (charsOf ops ic cs.flatten)) := by
  have hne' : ∀ f : List (Option L) → Analyser α, cs.map f ≠ [] := by
    intro f; cases cs with
    | nil => exact absurd rfl hne
    | cons _ _ => simp
  constructor
  · have e1 : cs.map (wordsOf ops ic) = (cs.map (tokenLists ops ic)).map (analysed endW 1) := by
      simp [wordsOf, List.map_map, Function.comp_def]
    have h : AEquiv (mergeCore (cs.map (wordsOf ops ic))) (wordsOf ops ic cs.flatten) := by
      rw [e1]; simp only [wordsOf, tokenLists_flatten]
      exact merge_analysed endW subPick_endW 1 _
    refine ⟨_, merge_ok _ (hne' _) ?_, h, statsOf_congr h⟩
    rw [e1]; exact merge_cpos endW 1 _
  · have e1 : cs.map (charsOf ops ic) = (cs.map (tokenLists ops ic)).map (analysed endC 0) := by
      simp [charsOf, List.map_map, Function.comp_def]
    have h : AEquiv (mergeCore (cs.map (charsOf ops ic))) (charsOf ops ic cs.flatten) := by
      rw [e1]; simp only [charsOf, tokenLists_flatten]
      exact merge_analysed endC subPick_endC 0 _
    refine ⟨_, merge_ok _ (hne' _) ?_, h, statsOf_congr h⟩
    rw [e1]; exact merge_cpos endC 0 _

/-- merging an empty list of analysers is an IndexError (`line_analysers[0]`) -/
theorem C20_merge_empty : mergeAnalysers ([] : List (Analyser α)) = .error .IndexError := rfl

/-- analysers that agree token by token have the same `stats` (so every equality above is an
    equality of everything the analyser exposes: `freq` as Counters, `num_lines`, `stats`) -/
theorem C20_stats_congr (x y : Analyser α) (h : AEquiv x y) : statsOf x = statsOf y := statsOf_congr h

example : AEquiv
    (addCore (analysed endW 1 [["a", "b"], ["c"]]) (analysed endW 1 [["a"], [], ["e", "f", "a"]]))
    (analysed endW 1 ([["a", "b"], ["c"]] ++ [["a"], [], ["e", "f", "a"]])) := add_analysed endW 1 _ _
example : (mergeCore [analysed endW 1 [["a", "b"], ["c"]], analysed endW 1 [["a"], []]]).numLines = 4 := by decide

/-! ## partitions -/

/-- **Title / non-title.** Every word is counted in exactly one of `num_title_words` and
    `num_non_title_words`. -/
theorem C20_title_partition {W : Type} (cls : WordClass W) (useStop : Bool) (maxLen size : Nat) (ws : List W) :
    (wordCatStats cls useStop maxLen size ws).numTitle + (wordCatStats cls useStop maxLen size ws).numNonTitle =
      (wordCatStats cls useStop maxLen size ws).numWords ∧
    (wordCatStats cls useStop maxLen size ws).numWords = ws.length :=
  ⟨countP_compl cls.isTitle ws, rfl⟩

/-- **Word lengths.** For every word list without empty words (what `get_doc_words` returns after
    fix 39c156f), every `max_word_length` and every positive bin size: the `num_words_length_*`
    bins plus `num_oversized_words` add up to `num_words`. -/
theorem C20_word_length_partition {W : Type} (cls : WordClass W) (useStop : Bool) (maxLen size : Nat)
    (hs : 0 < size) (ws : List W) (hpos : ∀ w ∈ ws, 1 ≤ cls.len w) :
    sumSnd (wordCatStats cls useStop maxLen size ws).bins + (wordCatStats cls useStop maxLen size ws).numOversized
      = (wordCatStats cls useStop maxLen size ws).numWords :=
  wordLength_partition cls useStop maxLen size hs ws hpos

example : ∀ w ∈ [3, 1, 31, 30], 1 ≤ (⟨id, fun _ => true, fun _ => false, fun _ => false, fun _ => false,
    fun _ => false⟩ : WordClass Nat).len w := by decide
example : sumSnd (wordCatStats (W := Nat) ⟨id, fun _ => true, fun _ => false, fun _ => false, fun _ => false,
    fun _ => false⟩ false 30 5 [3, 1, 31, 30]).bins = 3 := by decide

/-- the hypothesis is needed: an empty word is counted in `num_words` but falls in no bin (this is
    what `get_doc_words(…, use_re_word_boundaries=True)` still produces for a run of blanks — the
    known finding `C20:partition-word-length:re`) -/
theorem C20_word_length_counterexample :
    let cls : WordClass Nat := ⟨id, fun _ => true, fun _ => false, fun _ => false, fun _ => false, fun _ => false⟩
    sumSnd (wordCatStats cls false 30 5 [1, 0, 1]).bins + (wordCatStats cls false 30 5 [1, 0, 1]).numOversized = 2 ∧
    (wordCatStats cls false 30 5 [1, 0, 1]).numWords = 3 := by decide

/-- **Words per line.** For every list of lines, with and without the alpha filter: the counters
    of the categories of `wpl_cat_range` (the table generated from the module) add up to the number
    of lines — also for lines with more than 100 words — and the category labels are distinct. -/
theorem C20_wpl_partition {W : Type} (cls : WordClass W) (alphaOnly : Bool) (lines : List (List W)) :
    ((Generated.C20.wplCats.map (fun c => c.1)).map (fun s => cget (wordsPerLine cls alphaOnly lines) s)).sum
      = lines.length ∧ (Generated.C20.wplCats.map (fun c => c.1)).Nodup :=
  ⟨wpl_partition cls alphaOnly lines, wpl_labels_nodup⟩

/-- the generated table is what its labels say: a line with `n ≤ 100` words is put in the range
    `min–max` that contains `n`, and the table has the 101 entries 0 … 100 -/
theorem C20_wpl_table :
    (∀ n < 101, ∃ c, Generated.C20.wplCats[wplCatIdx n]? = some c ∧ c.2.1 ≤ n ∧ n ≤ c.2.2) ∧
    Generated.C20.wplToCat.length = 101 := wpl_table_truthful

/-- **Line widths.** For every list of line widths and every list of boundary points (sorted or
    not, with repetitions): the range counters add up to the number of lines, every line falls in
    one of the ranges of `get_boundary_width_ranges`, and the set of ranges is the same whatever
    the lines are. -/
theorem C20_line_width_partition (widths : List Int) (bps : List Int) :
    ctotal (lineWidthStats widths bps) = widths.length ∧
    (∀ w, categoriseLineWidth w bps ∈ boundaryWidthRanges bps) ∧
    ckeys (lineWidthStats widths bps) = ckeys (lineWidthStats [] bps) := by
  obtain ⟨h1, h2, h3⟩ := lineWidth_partition widths bps
  exact ⟨h1, h2, h3.trans (lineWidth_partition [] bps).2.2.symm⟩

example : ctotal (lineWidthStats [10, 300, 299, 5000] [300, 600]) = 4 := by decide
example : cget (wordsPerLine (W := Nat) ⟨id, fun _ => true, fun _ => false, fun _ => false, fun _ => false,
    fun _ => false⟩ false [[1, 2], [], List.replicate 150 1]) "71-100" = 1 := by decide +kernel

/-! ## the per-document table -/

/-- **The column check holds in general.** For every list of line-width boundary points, with or
    without stop words, every bin size `s > 0` that reaches both `_init_doc_stats` and `get_word_cat_stats`,
    and every `max_word_length` that is a positive multiple of `s`: every row of `get_doc_stats` names exactly
    the columns `_init_doc_stats` created, each once (and the bin range of `_init_doc_stats` does not raise). -/
theorem C20_cfg_ok (cfg : DocCfg) (hs : 0 < cfg.wordSize) (he : cfg.initSize = cfg.wordSize)
    (hm : cfg.maxLen % cfg.wordSize = 0) (hpos : 0 < cfg.maxLen) : cfgOk cfg = true := by
  obtain ⟨bps, us, ml, si, sw⟩ := cfg
  simp only at hs he hm hpos
  subst he
  obtain ⟨q, hq⟩ := Nat.dvd_of_mod_eq_zero hm
  have hq0 : q ≠ 0 := by
    intro h0; rw [h0, Nat.mul_zero] at hq; omega
  have e : ml = si * ((q - 1) + 1) := by
    rw [hq]; congr 1; omega
  rw [e]
  exact cfgOk_of_multiple bps us si hs (q - 1)

/-- **The configurations of the code.** `get_doc_stats` called with any boundary points (or none, with a
    `line_bin_width` that is not 0 — the default is not), with or without stop words, and with a
    `max_word_length` (or none: the default) that is a positive multiple of the bin size the source uses:
    the call has a configuration, and it passes the column check.  The only facts used about the source's
    numbers are `consts_bin_sizes_agree` and `consts_bin_size_pos`. -/
theorem C20_cfg_ok_code (bps : Option (List Int)) (useStop : Bool) (maxLen : Option Nat) (lbw mb : Option Int)
    (hb : bps.isSome ∨ lbw.getD lineBinWidth ≠ 0)
    (hm : (maxLen.getD defaultMaxLen) % wordBinSize = 0) (hpos : 0 < maxLen.getD defaultMaxLen) :
    ∃ cfg, docCfgOf bps useStop maxLen lbw mb = .ok cfg ∧ cfgOk cfg = true := by
  obtain ⟨b, hcfg⟩ := docCfgOf_ok bps useStop maxLen lbw mb hb
  exact ⟨_, hcfg, C20_cfg_ok _ consts_bin_size_pos consts_bin_sizes_agree hm hpos⟩

/-- **The default configuration** (`get_doc_stats(docs)`, with or without stop words) passes the column
    check: `consts_line_bin_width_ne_zero` and `consts_default_max_len_ok` on top of the two above. -/
theorem C20_cfg_ok_default (useStop : Bool) :
    ∃ cfg, docCfgOf none useStop none none none = .ok cfg ∧ cfgOk cfg = true :=
  C20_cfg_ok_code none useStop none none none (Or.inr consts_line_bin_width_ne_zero)
    consts_default_max_len_ok.2 consts_default_max_len_ok.1

/-- **Document statistics.** For every configuration that passes the column check `cfgOk` (by
    `C20_cfg_ok`: every boundary list, every bin size, every `max_word_length` that is a positive multiple of
    the bin size; by `C20_cfg_ok_code`: the calls of the code)
    and all document lists `ds₁`, `ds₂`:
    `get_doc_stats` succeeds on `ds₁ ++ ds₂`, `ds₁` and `ds₂`; the three tables have the same
    columns; every column other than the positional `doc_num` is the concatenation of the columns
    for `ds₁` and `ds₂` (so the table of a list is the tables of its documents taken one at a time,
    put end to end); every column has one entry per document; the element-count columns hold each
    document's own statistics (0 for a missing field); `doc_num` is 1, 2, …. -/
theorem C20_doc_stats_concat {T W : Type} (ops : TextOps T W) (cls : WordClass W) (cfg : DocCfg)
    (hcfg : cfgOk cfg = true) (ds1 ds2 : List (Doc T)) :
    ∃ t t1 t2, getDocStats ops cls cfg (ds1 ++ ds2) = .ok t ∧ getDocStats ops cls cfg ds1 = .ok t1 ∧
      getDocStats ops cls cfg ds2 = .ok t2 ∧
      tkeys t = tkeys (initDocStats cfg) ∧ tkeys t1 = tkeys t ∧ tkeys t2 = tkeys t ∧
      (∀ c, c ≠ Col.docNum → getCol t c = getCol t1 c ++ getCol t2 c) ∧
      (∀ c ∈ tkeys t, (getCol t c).length = (ds1 ++ ds2).length) ∧
      (∀ j, j < numElems →
        getCol t (Col.elem j) = (ds1 ++ ds2).map (fun d => Val.int ((d.elems.getD j none).getD 0))) ∧
      getCol t Col.docNum = (List.range (ds1 ++ ds2).length).map (fun (i : Nat) => Val.int ((i : Int) + 1)) := by
  obtain ⟨hnd, hsub, hsup, hsz⟩ := cfgOk_spec cfg hcfg
  have hget : ∀ ds, getDocStats ops cls cfg ds = docStatsFrom ops cls cfg 0 (initDocStats cfg) ds := by
    intro ds; unfold getDocStats; rw [if_neg (by omega)]
  simp only [hget]
  have hrow : ∀ i d, ∀ p ∈ docRow ops cls cfg i d, p.1 ∈ tkeys (initDocStats cfg) := by
    intro i d p hp
    apply hsub
    rw [← docRow_keys ops cls cfg i d]
    exact List.mem_map.mpr ⟨p, hp, rfl⟩
  have hnd' : ∀ i d, ((docRow ops cls cfg i d).map (·.1)).Nodup := by
    intro i d; rw [docRow_keys]; exact hnd
  obtain ⟨t, e, k, g⟩ := docStatsFrom_spec ops cls cfg (ds1 ++ ds2) 0 (initDocStats cfg) hrow
  obtain ⟨t1, e1, k1, g1⟩ := docStatsFrom_spec ops cls cfg ds1 0 (initDocStats cfg) hrow
  obtain ⟨t2, e2, k2, g2⟩ := docStatsFrom_spec ops cls cfg ds2 0 (initDocStats cfg) hrow
  simp only [getCol_init, List.nil_append] at g g1 g2
  refine ⟨t, t1, t2, e, e1, e2, k, k1.trans k.symm, k2.trans k.symm, ?_, ?_, ?_, ?_⟩
  · intro c hc
    rw [g, g1, g2, colVals_append]
    congr 1
    exact colVals_shift ops cls cfg c (fun i j d => rowVals_shift ops cls cfg c hc i j d) _ _ ds2
  · intro c hc
    rw [g]
    apply colVals_length
    intro i d
    apply rowVals_length_one _ _ (hnd' i d)
    rw [docRow_keys]
    exact hsup c (k ▸ hc)
  · intro j hj
    rw [g]
    apply colVals_of_const
    intro i d
    exact rowVals_eq_of_mem_nodup _ _ _ (hnd' i d) (mem_docRow_elem ops cls cfg i d j hj)
  · rw [g]
    have : ∀ (es : List (Doc T)) (pi : Nat),
        colVals ops cls cfg Col.docNum pi es = (List.range es.length).map (fun (i : Nat) => Val.int (((pi + i : Nat) : Int) + 1)) := by
      intro es
      induction es with
      | nil => intro pi; rfl
      | cons d r ih =>
        intro pi
        rw [colVals, rowVals_eq_of_mem_nodup _ _ _ (hnd' pi d) (mem_docRow_num ops cls cfg pi d), ih (pi + 1)]
        simp only [List.length_cons, List.range_succ_eq_map, List.map_cons, List.map_map, Nat.add_zero,
          List.singleton_append, Function.comp_def]
        congr 1
        apply List.map_congr_left
        intro i _
        congr 2; omega
    rw [this]
    apply List.map_congr_left
    intro i _
    simp

/-- **Document statistics for the calls of the code**: `get_doc_stats` called as in `C20_cfg_ok_code`
    succeeds on every list of documents, with one entry per document in every column. -/
theorem C20_doc_stats_code {T W : Type} (ops : TextOps T W) (cls : WordClass W) (bps : Option (List Int))
    (useStop : Bool) (maxLen : Option Nat) (lbw mb : Option Int)
    (hb : bps.isSome ∨ lbw.getD lineBinWidth ≠ 0)
    (hm : (maxLen.getD defaultMaxLen) % wordBinSize = 0) (hpos : 0 < maxLen.getD defaultMaxLen) (ds : List (Doc T)) :
    ∃ cfg t, docCfgOf bps useStop maxLen lbw mb = .ok cfg ∧ cfgOk cfg = true ∧
      getDocStatsPy ops cls bps useStop maxLen lbw mb ds = .ok t ∧ getDocStats ops cls cfg ds = .ok t ∧
      ∀ c ∈ tkeys t, (getCol t c).length = ds.length := by
  obtain ⟨cfg, hcfg, hok⟩ := C20_cfg_ok_code bps useStop maxLen lbw mb hb hm hpos
  obtain ⟨t, _, _, h1, _, _, _, _, _, _, hlen, _, _⟩ := C20_doc_stats_concat ops cls cfg hok ds []
  simp only [List.append_nil] at h1 hlen
  exact ⟨cfg, t, hcfg, hok, by simp only [getDocStatsPy, hcfg, h1], h1, hlen⟩

/-- without boundary points and with `line_bin_width=0` the range of the default boundary points raises -/
theorem C20_doc_stats_zero_bin_width {T W : Type} (ops : TextOps T W) (cls : WordClass W) (useStop : Bool)
    (maxLen : Option Nat) (mb : Option Int) (ds : List (Doc T)) :
    getDocStatsPy ops cls none useStop maxLen (some 0) mb ds = .error .ValueError := rfl

/-- the boundary points `get_doc_stats` derives from a positive `line_bin_width` are strictly ascending -/
theorem C20_default_boundary_points_ascending (lbw mb : Int) (h : 0 < lbw) (l : List Int)
    (hl : boundaryPointsOf lbw mb = .ok l) : l.Pairwise (· < ·) := pyRange_ascending lbw mb lbw h l hl

example : cfgOk {} = true :=
  C20_cfg_ok {} consts_bin_size_pos consts_bin_sizes_agree consts_default_max_len_ok.2 consts_default_max_len_ok.1
example : cfgOk { bps := [700, 50, 50], useStop := true, maxLen := 35, initSize := 7, wordSize := 7 } = true :=
  C20_cfg_ok _ (by decide) rfl (by decide) (by decide)
example : boundaryPointsOf 300 1000 = .ok [300, 600, 900] ∧ boundaryPointsOf 4 3 = .ok [] ∧
    boundaryPointsOf (-2) (-7) = .ok [-2, -4, -6] ∧ boundaryPointsOf 300 1200 = .ok [300, 600, 900] := by decide

/-- a `max_word_length` that is not a multiple of the bin size makes `get_word_cat_stats` produce a bin column
    that `_init_doc_stats` did not create: `get_doc_stats` raises KeyError on the first document
    (outside the configurations of the statement; observed on the real code, too).  Likewise two different
    bin sizes (here 10 for the columns, 5 for the rows), and a bin size of 0 is a ValueError. -/
theorem C20_doc_stats_max_len_keyerror :
    getDocStats (T := Nat) (W := Nat) ⟨fun _ => [], fun _ => [], fun _ => true⟩
      ⟨id, fun _ => true, fun _ => false, fun _ => false, fun _ => false, fun _ => false⟩
      { bps := [], maxLen := 7, initSize := 5, wordSize := 5 } [⟨"d", none, [], []⟩] = .error .KeyError ∧
    getDocStats (T := Nat) (W := Nat) ⟨fun _ => [], fun _ => [], fun _ => true⟩
      ⟨id, fun _ => true, fun _ => false, fun _ => false, fun _ => false, fun _ => false⟩
      { bps := [], maxLen := 30, initSize := 10, wordSize := 5 } [⟨"d", none, [], []⟩] = .error .KeyError ∧
    getDocStats (T := Nat) (W := Nat) ⟨fun _ => [], fun _ => [], fun _ => true⟩
      ⟨id, fun _ => true, fun _ => false, fun _ => false, fun _ => false, fun _ => false⟩
      { bps := [], maxLen := 30, initSize := 0, wordSize := 0 } [⟨"d", none, [], []⟩] = .error .ValueError := by
  decide +kernel

example : (getDocStats (T := Nat) (W := Nat) ⟨fun n => List.replicate n 3, fun n => List.replicate n 3, fun n => n == 0⟩
      ⟨id, fun _ => true, fun _ => false, fun _ => false, fun _ => false, fun _ => false⟩
      { bps := [300, 600], maxLen := 30, initSize := 5, wordSize := 5 }
      [⟨"d1", some (100, 200), [some 2], [⟨some 4, 120⟩, ⟨none, 10⟩]⟩, ⟨"d2", none, [], []⟩]).toOption.map
      (fun t => (getCol t Col.numWords, getCol t (Col.elem 0), getCol t (Col.lineWidth (rangesStart, some 300)))) =
    some ([Val.int 4, Val.int 0], [Val.int 2, Val.int 0], [Val.int 1, Val.int 0]) := by decide +kernel

/-! ## keyness: direction -/

/-- **More iff relatively more frequent.** For a vocabulary token with counts `a` in the target
    counter (total `T`) and `b` in the reference counter (total `R`), the code's test
    `observed[0,0] > expected[0,0]` holds exactly when `a·R > b·T`, i.e. when the relative
    frequency `a/T` in the target exceeds `b/R` in the reference. -/
theorem C20_more_iff (tok : α) (target ref : Counter α) :
    (observed tok target (ctotal target) ref (ctotal ref)).more = true ↔
      (cget target tok : Int) * ctotal ref > (cget ref tok : Int) * ctotal target := by
  obtain ⟨h1, h2, h3, h4⟩ := observed_cells tok target (ctotal target) ref (ctotal ref)
  rw [table_more_iff]
  have hd : (observed tok target (ctotal target) ref (ctotal ref)).d = ctotal ref - cget ref tok := by omega
  have hc : (observed tok target (ctotal target) ref (ctotal ref)).c = ctotal target - cget target tok := by omega
  rw [h1, h2, hd, hc]
  constructor <;> intro g <;> nlinarith

/-- the same on the table: `more ↔ a·(b+d) > b·(a+c) ↔ a·d > b·c` -/
theorem C20_more_iff_table (t : Table) :
    (t.more = true ↔ t.a * (t.b + t.d) > t.b * (t.a + t.c)) ∧ (t.more = true ↔ t.a * t.d > t.b * t.c) :=
  ⟨(table_more_iff t).trans (cross_iff t.a t.b t.c t.d).symm, table_more_iff t⟩

/-- **Less when lower, never both.** A token is put in exactly one of 'more' / 'less'; it is in
    'less' when its relative frequency in the target is lower than (or equal to) that in the
    reference; with target and reference swapped a 'more' token becomes a 'less' token, and a
    strictly lower one becomes 'more'. -/
theorem C20_less_iff (t : Table) :
    (t.more = false ↔ t.a * t.d ≤ t.b * t.c) ∧ (t.more = true → t.swap.more = false) ∧
    (t.a * t.d < t.b * t.c → t.swap.more = true) := by
  have h := table_more_iff t
  have hs := table_more_iff t.swap
  simp only [Table.swap] at hs
  refine ⟨?_, ?_, ?_⟩
  · constructor
    · intro g; by_contra hc; have := h.mpr (by omega); simp [g] at this
    · intro g; cases hm : t.more
      · rfl
      · have := h.mp hm; omega
  · intro g
    have := h.mp g
    cases hm : t.swap.more
    · rfl
    · have := hs.mp hm; nlinarith
  · intro g; apply hs.mpr; nlinarith

/-- every vocabulary token gets exactly one entry (so it is never in both counters), and the
    default vocabulary is the set of keys of the two counters -/
theorem C20_one_entry_per_token (target ref : Counter α) :
    ((computeKeyness target ref none).map (·.1)).Nodup ∧
    ∀ tok, tok ∈ (computeKeyness target ref none).map (·.1) ↔ (tok ∈ ckeys target ∨ tok ∈ ckeys ref) := by
  have e : (computeKeyness target ref none).map (·.1) = keynessVocab target ref := by
    simp [computeKeyness, List.map_map, Function.comp_def]
  rw [e]
  exact ⟨nodup_dedupKeep _, fun tok => by simp [keynessVocab, mem_dedupKeep]⟩

example : (observed "a" [("a", 2), ("b", 1)] 3 [("a", 1), ("b", 2), ("c", 1)] 4).more = true := by decide
example : (observed "c" [("a", 2), ("b", 1)] 3 [("a", 1), ("b", 2), ("c", 1)] 4).more = false := by decide

/-! ## keyness: score -/

/-- **Swap invariance** (any function in the place of the logarithm, any regularisation constant):
    the score of the swapped table is the same sum over the same four cells. -/
theorem C20_score_swap (lg : ℝ → ℝ) (s : ℝ) (t : Table) :
    scoreL lg s (t.swap.a : ℝ) t.swap.b t.swap.c t.swap.d = scoreL lg s (t.a : ℝ) t.b t.c t.d := by
  simp only [Table.swap]
  exact scoreL_swap lg s _ _ _ _

/-- **Non-negativity** (real logarithm). For every table of non-negative counts with `N > 0` and
    every regularisation constant `s ≥ 0` the score is at least `−8·s`; the code's `s = 1e-20`
    gives `≥ −8e-20`, and without regularisation (`s = 0`) the score is non-negative (Gibbs'
    inequality). -/
theorem C20_score_nonneg (s : ℝ) (hs : 0 ≤ s) (t : Table) (ha : 0 ≤ t.a) (hb : 0 ≤ t.b) (hc : 0 ≤ t.c)
    (hd : 0 ≤ t.d) (hn : 0 < t.n) :
    -(8 * s) ≤ score s t.a t.b t.c t.d ∧ 0 ≤ score 0 t.a t.b t.c t.d := by
  have ha' : (0 : ℝ) ≤ t.a := by exact_mod_cast ha
  have hb' : (0 : ℝ) ≤ t.b := by exact_mod_cast hb
  have hc' : (0 : ℝ) ≤ t.c := by exact_mod_cast hc
  have hd' : (0 : ℝ) ≤ t.d := by exact_mod_cast hd
  have hn' : (0 : ℝ) < (t.a : ℝ) + t.b + t.c + t.d := by
    have : (0 : ℝ) < ((t.a + t.b + t.c + t.d : Int) : ℝ) := by exact_mod_cast hn
    push_cast at this; exact this
  refine ⟨score_lower s _ _ _ _ hs ha' hb' hc' hd' hn', ?_⟩
  have := score_lower 0 _ _ _ _ (le_refl 0) ha' hb' hc' hd' hn'
  simpa using this

/-- **Finiteness.** With `s > 0` every logarithm of the score is taken of a positive real and no
    denominator is zero: for every cell `o ≥ 0` with expected value `e ≥ 0`, `e + s ≠ 0` and
    `(o + s)/(e + s) > 0`; and `N ≠ 0` for non-empty counters. -/
theorem C20_score_finite (s : ℝ) (hs : 0 < s) (o e : ℝ) (ho : 0 ≤ o) (he : 0 ≤ e) :
    e + s ≠ 0 ∧ 0 < (o + s) / (e + s) := score_args_pos s o e hs ho he

example : (0 : ℝ) + 1e-20 ≠ 0 ∧ (0 : ℝ) < (0 + 1e-20) / (0 + 1e-20) :=
  C20_score_finite 1e-20 (by norm_num) 0 0 (le_refl 0) (le_refl 0)

example : (0 : ℝ) ≤ score 0 ((2 : Int) : ℝ) ((1 : Int) : ℝ) ((1 : Int) : ℝ) ((3 : Int) : ℝ) :=
  (C20_score_nonneg 0 (le_refl 0) ⟨2, 1, 1, 3⟩ (by decide) (by decide) (by decide) (by decide) (by decide)).2

/-! ## the regenerated literals

What the theorems above need to know about the numbers and names regenerated from the source on every run
(Generated/C20.lean), each decided in Lemmas/C20Consts.lean; listed here so that the audit names them.
Everything else holds for every value: every `DocCfg` (boundary points, `max_word_length`, the two bin
sizes), every `size` / `maxLen` of `wordCatStats`, every regularisation constant `s`. -/

/-- both binning functions are reached with the same bin size (used by `C20_cfg_ok_code`) -/
theorem C20_consts_bin_sizes_agree : initBinSize = wordBinSize := consts_bin_sizes_agree
/-- the bin size is positive (used by `C20_cfg_ok_code`) -/
theorem C20_consts_bin_size_pos : 0 < wordBinSize := consts_bin_size_pos
/-- the default `max_word_length` is a positive multiple of the bin size (used by `C20_cfg_ok_default`) -/
theorem C20_consts_default_max_len_ok : 0 < defaultMaxLen ∧ defaultMaxLen % wordBinSize = 0 :=
  consts_default_max_len_ok
/-- the default `line_bin_width` is not 0 (used by `C20_cfg_ok_default`) -/
theorem C20_consts_line_bin_width_ne_zero : lineBinWidth ≠ 0 := consts_line_bin_width_ne_zero
/-- line-width categories and ranges start at the same point (used by `C20_line_width_partition`) -/
theorem C20_consts_width_starts_agree : catStart = rangesStart := consts_width_starts_agree
/-- `get_word_cat_stats` with its own defaults has a positive bin size (`C20_word_length_partition` applies) -/
theorem C20_consts_word_cat_default_bin_size_pos : 0 < Generated.C20.wordCatDefaultBinSize :=
  consts_word_cat_default_bin_size_pos
/-- `_SMALL` is positive (used by `C20_score_code`) -/
theorem C20_consts_small_pos : 0 < Generated.C20.small.1 ∧ 0 < Generated.C20.small.2 := consts_small_pos
/-- `8·_SMALL ≤ 1e-9`, the oracle's tolerance for "non-negative" (used by `C20_score_code`) -/
theorem C20_consts_small_covers_spec : 8 * Generated.C20.small.1 * 1000000000 ≤ Generated.C20.small.2 :=
  consts_small_covers_spec
/-- hand-written in the model, tied to the source: the bounds of the two binning loops -/
theorem C20_consts_loop_bounds : Generated.C20.initBinStopPlus = 1 ∧ Generated.C20.wordLoop = (1, 1) :=
  consts_loop_bounds
/-- hand-written in the model, tied to the source: `fields` of `_init_doc_stats` = the fixed columns, named -/
theorem C20_consts_init_fields : Generated.C20.initFields = fixedCols.map colName := consts_init_fields
theorem C20_consts_init_fields_nodup : Generated.C20.initFields.Nodup := consts_init_fields_nodup
/-- hand-written in the model, tied to the source: the keys of the dict of `get_word_cat_stats`, named -/
theorem C20_consts_word_cat_keys : Generated.C20.wordCatKeys = wordCatCols.map colName := consts_word_cat_keys
/-- hand-written in `scoreL`, tied to the source: the factor 2 of the score -/
theorem C20_consts_score_factor : Generated.C20.scoreFactor = 2 := consts_score_factor

/-- `get_word_cat_stats(words)` with its own defaults: the word-length table is a partition -/
theorem C20_word_length_partition_defaults {W : Type} (cls : WordClass W) (useStop : Bool) (ws : List W)
    (hpos : ∀ w ∈ ws, 1 ≤ cls.len w) :
    sumSnd (wordCatStatsPy cls useStop none none ws).bins + (wordCatStatsPy cls useStop none none ws).numOversized
      = (wordCatStatsPy cls useStop none none ws).numWords :=
  wordLength_partition cls useStop _ _ consts_word_cat_default_bin_size_pos ws hpos

/-- the code's `_SMALL` as a real number -/
noncomputable def smallR : ℝ := (Generated.C20.small.1 : ℝ) / (Generated.C20.small.2 : ℝ)

/-- **The score with the code's constant.** With `s = _SMALL` as the source has it now, for every table of
    non-negative counts with `N > 0`: the score is at least `−1e-9` (what the oracle accepts as
    non-negative), and every logarithm is taken of a positive real over a non-zero denominator. -/
theorem C20_score_code (t : Table) (ha : 0 ≤ t.a) (hb : 0 ≤ t.b) (hc : 0 ≤ t.c) (hd : 0 ≤ t.d) (hn : 0 < t.n) :
    -(1 / 1000000000 : ℝ) ≤ score smallR t.a t.b t.c t.d ∧
    ∀ o e : ℝ, 0 ≤ o → 0 ≤ e → e + smallR ≠ 0 ∧ 0 < (o + smallR) / (e + smallR) := by
  have h1 : (0 : ℝ) < (Generated.C20.small.1 : ℝ) := by exact_mod_cast consts_small_pos.1
  have h2 : (0 : ℝ) < (Generated.C20.small.2 : ℝ) := by exact_mod_cast consts_small_pos.2
  have hpos : 0 < smallR := div_pos h1 h2
  have hle : (8 * (Generated.C20.small.1 : ℝ) * 1000000000) ≤ (Generated.C20.small.2 : ℝ) := by
    exact_mod_cast consts_small_covers_spec
  have hb8 : 8 * smallR ≤ 1 / 1000000000 := by
    unfold smallR
    rw [show 8 * ((Generated.C20.small.1 : ℝ) / (Generated.C20.small.2 : ℝ)) =
      (8 * (Generated.C20.small.1 : ℝ)) / (Generated.C20.small.2 : ℝ) by ring]
    rw [div_le_div_iff₀ h2 (by norm_num)]
    linarith
  refine ⟨?_, fun o e ho he => C20_score_finite smallR hpos o e ho he⟩
  have := (C20_score_nonneg smallR (le_of_lt hpos) t ha hb hc hd hn).1
  linarith

end Pagexml.C20
