/-
C08 — Tables are parsed into a faithful row/column grid.

`mirrorTable hullT t` is the table `parse_tableregion` builds from the cells of a source
table `t` (`make_rows_from_cells`: grouping by row index in first-occurrence order, the
`column_cells` loop of `PageXMLTableRow.__init__`), `padTable` the padding of short rows
done by `PageXMLTextRegion.__init__` when the table is attached to the scan.
`RowMajor t c`: every column index is below `c`, column indices ascend strictly within a
row, some row is complete — the quantifier of the property (`c ≥ 1`).
-/
import PagexmlModel.Lemmas.C08Table
import PagexmlModel.Lemmas.C08Parse
import PagexmlModel.Props.C01

set_option linter.unusedSimpArgs false

namespace Pagexml.C08
open Pagexml.X Pagexml.C01 Pagexml.Scan
open Pagexml.C03 (Pt Coords)

theorem ite_pad_cells (b : Prop) [Decidable b] (r : Row) (n : Nat) :
    (if b then r.pad n else r).cells = r.cells := by
  by_cases h : b <;> simp [h, Row.pad]

theorem ite_pad_id (b : Prop) [Decidable b] (r : Row) (n : Nat) :
    (if b then r.pad n else r).id = r.id := by
  by_cases h : b <;> simp [h, Row.pad]

theorem sum_map_one {γ : Type} (l : List γ) : (l.map (fun _ => 1)).sum = l.length := by
  induction l with
  | nil => rfl
  | cons a l ih => simp [ih]; omega

theorem padTable_rows (T : Table) :
    (padTable T).rows = T.rows.map (fun r => if r.cells.length < T.numColumns then r.pad T.numColumns else r) := rfl

theorem padTable_rows_cells (T : Table) : (padTable T).rows.map (·.cells) = T.rows.map (·.cells) := by
  rw [padTable_rows, List.map_map]
  apply List.map_congr_left
  intro r _
  exact ite_pad_cells _ r _

theorem padTable_rows_id (T : Table) : (padTable T).rows.map (·.id) = T.rows.map (·.id) := by
  rw [padTable_rows, List.map_map]
  apply List.map_congr_left
  intro r _
  exact ite_pad_id _ r _

theorem numColumns_padTable (T : Table) : (padTable T).numColumns = T.numColumns := by
  have := padTable_rows_cells T
  unfold Table.numColumns
  have e : ∀ rows : List Row, rows.map (fun r => r.cells.length) = (rows.map (·.cells)).map List.length := by
    intro rows; simp [List.map_map, Function.comp_def]
  rw [e, e, this]

theorem rows_padTable_length (T : Table) : (padTable T).rows.length = T.rows.length := by
  simp [padTable]

/-- **one row per distinct row index**, in first-occurrence order of the indices -/
theorem C08_rows_distinct (hullT : List Pt → List Pt) (t : SrcTable) :
    let T := padTable (mirrorTable hullT t)
    (T.rows.map (·.id)).Nodup ∧
    (∀ k : Nat, some (k : Int) ∈ T.rows.map (·.id) ↔ ∃ x ∈ t.cells, x.row = k) ∧
    (∀ r ∈ T.rows, ∃ k : Nat, r.id = some (k : Int)) := by
  have hids : (padTable (mirrorTable hullT t)).rows.map (·.id)
      = (groupByRow (t.cells.map mirrorCell)).map (·.1) := by
    rw [padTable_rows_id]
    simp only [mirrorTable, List.map_map]
    apply List.map_congr_left
    intro g _
    rfl
  obtain ⟨h1, _, h3⟩ := groupInv_all Cell.row (t.cells.map mirrorCell)
  refine ⟨by rw [hids]; exact h1, ?_, ?_⟩
  · intro k
    rw [hids]
    constructor
    · intro hk
      obtain ⟨g, hg, hgk⟩ := List.mem_map.mp hk
      obtain ⟨k', hk', hcs, hne⟩ := groups_of_table t g hg
      have : k' = k := by
        rw [hk'] at hgk; have := Option.some.inj hgk; omega
      subst this
      obtain ⟨c, hc⟩ := List.exists_mem_of_ne_nil _ hne
      rw [hcs] at hc
      obtain ⟨x, hx, _⟩ := List.mem_map.mp hc
      obtain ⟨hx1, hx2⟩ := List.mem_filter.mp hx
      exact ⟨x, hx1, by simpa using hx2⟩
    · rintro ⟨x, hx, rfl⟩
      have := h3 (mirrorCell x) (List.mem_map_of_mem hx)
      rwa [row_mirrorCell] at this
  · intro r hr
    have : r.id ∈ (padTable (mirrorTable hullT t)).rows.map (·.id) := List.mem_map_of_mem hr
    rw [hids] at this
    obtain ⟨g, hg, hgk⟩ := List.mem_map.mp this
    obtain ⟨k, hk, _, _⟩ := groups_of_table t g hg
    exact ⟨k, by rw [← hgk, hk]⟩

/-- **shape**: one row per distinct row index and as many columns as the fullest row -/
theorem C08_shape (hullT : List Pt → List Pt) (t : SrcTable) (c : Nat) (hc : 0 < c) (h : RowMajor t c) :
    (padTable (mirrorTable hullT t)).shape = ((mirrorTable hullT t).rows.length, c) := by
  simp [Table.shape, numColumns_padTable, numColumns_table hullT t c hc h, rows_padTable_length]

/-- the padded row `i` of the table -/
theorem padded_rows_get (hullT : List Pt → List Pt) (t : SrcTable) (c : Nat) (hc : 0 < c) (h : RowMajor t c)
    (i : Nat) (r : Row) (hr : (mirrorTable hullT t).rows[i]? = some r) :
    ∃ P : List (Option Cell), (padTable (mirrorTable hullT t)).rows[i]? = some { r with columnCells := P } ∧
      P.length = c ∧ (∀ x ∈ r.cells, P[colN x]? = some (some x)) ∧
      (∀ j, j < c → (∀ x ∈ r.cells, colN x ≠ j) → P[j]? = some none) := by
  have hmem : r ∈ (mirrorTable hullT t).rows := List.mem_of_getElem? hr
  obtain ⟨hasc, hlt⟩ := row_facts hullT t c h r hmem
  obtain ⟨_, _, _, _, hne, hcc⟩ := rows_of_table hullT t r hmem
  obtain ⟨_, h2, h3, h4⟩ := padded_row r.cells c hne hasc hlt
  refine ⟨_, ?_, h2, h3, h4⟩
  simp only [padTable, List.getElem?_map, hr, Option.map_some, numColumns_table hullT t c hc h, Row.pad]
  rw [← hcc]
  by_cases hlen : r.cells.length < c
  · simp [hlen]
  · simp only [hlen, if_false]

/-- **indexing**: `table[i][j]` is the cell of row `i` with column index `j`, or the empty
    placeholder (with that row and column) where the source has none -/
theorem C08_index (hullT : List Pt → List Pt) (t : SrcTable) (c : Nat) (hc : 0 < c) (h : RowMajor t c)
    (i : Nat) (r : Row) (hr : (mirrorTable hullT t).rows[i]? = some r) :
    (∀ x ∈ t.cells, some (x.row : Int) = r.id →
      (padTable (mirrorTable hullT t)).getItem i x.col = .ok (mirrorCell x)) ∧
    (∀ j, j < c → (∀ x ∈ t.cells, some (x.row : Int) = r.id → x.col ≠ j) →
      (padTable (mirrorTable hullT t)).getItem i j = .ok (emptyCell r.id j)) := by
  obtain ⟨P, hP, _, hM, hN⟩ := padded_rows_get hullT t c hc h i r hr
  have hmem : r ∈ (mirrorTable hullT t).rows := List.mem_of_getElem? hr
  obtain ⟨k, hk, hidx, hcs, _, _⟩ := rows_of_table hullT t r hmem
  constructor
  · intro x hx hrow
    have hxk : x.row = k := by
      rw [hk] at hrow; have := Option.some.inj hrow; omega
    have hxm : mirrorCell x ∈ r.cells := by
      rw [hcs]; exact List.mem_map_of_mem (List.mem_filter.mpr ⟨hx, by simpa using hxk⟩)
    have := hM _ hxm
    rw [colN_mirrorCell] at this
    simp [Table.getItem, hP, this]
  · intro j hj hnone
    have := hN j hj (by
      intro y hy
      rw [hcs] at hy
      obtain ⟨x, hx, rfl⟩ := List.mem_map.mp hy
      obtain ⟨hx1, hx2⟩ := List.mem_filter.mp hx
      rw [colN_mirrorCell]
      exact hnone x hx1 (by rw [hk]; simp only [decide_eq_true_eq] at hx2; rw [hx2]))
    simp [Table.getItem, hP, this, hidx, hk]

/-- **values**: rows × columns strings; entry `(i, j)` is the space-joined text of the lines of
    that cell, `""` where the source has none -/
theorem C08_values (hullT : List Pt → List Pt) (t : SrcTable) (c : Nat) (hc : 0 < c) (h : RowMajor t c) :
    let T := padTable (mirrorTable hullT t)
    T.values.length = (mirrorTable hullT t).rows.length ∧
    (∀ vs ∈ T.values, vs.length = c) ∧
    (∀ i j, i < (mirrorTable hullT t).rows.length → j < c →
      (T.values[i]?.bind (·[j]?)) = (T.getItem i j).toOption.map (·.value)) := by
  refine ⟨by simp [Table.values, rows_padTable_length], ?_, ?_⟩
  · intro vs hvs
    simp only [Table.values, List.mem_map] at hvs
    obtain ⟨pr, hpr, rfl⟩ := hvs
    obtain ⟨i, hi, hget⟩ := List.getElem_of_mem hpr
    have hi' : i < (mirrorTable hullT t).rows.length := by rwa [rows_padTable_length] at hi
    obtain ⟨P, hP, hlen, _, _⟩ := padded_rows_get hullT t c hc h i _ (List.getElem?_eq_getElem hi')
    have : pr = { (mirrorTable hullT t).rows[i] with columnCells := P } := by
      have h1 : (padTable (mirrorTable hullT t)).rows[i]? = some pr := by
        rw [List.getElem?_eq_getElem hi, hget]
      rw [hP] at h1
      exact (Option.some.inj h1).symm
    subst this
    simp [rowValues, numColumns_padTable, numColumns_table hullT t c hc h, hlen]
  · intro i j hi hj
    obtain ⟨P, hP, hlen, _, _⟩ := padded_rows_get hullT t c hc h i _ (List.getElem?_eq_getElem hi)
    simp only [Table.values, List.getElem?_map, hP, Option.map_some, Option.bind_some, rowValues,
      numColumns_padTable, numColumns_table hullT t c hc h, List.length_map, hlen, Nat.lt_irrefl, if_false,
      Table.getItem]
    have hjP : j < P.length := by omega
    rw [List.getElem?_eq_getElem hjP]
    cases P[j] <;> simp [emptyCell, Except.toOption]

/-- the value of a cell is the space-joined text of those of its lines that have a text
    (a line without TextEquiv, or with an empty / blank Unicode element, contributes nothing —
    not even a separator); the lines themselves are all kept -/
theorem C08_cell_value (x : SrcCell) :
    (mirrorCell x).value = joinSp ((x.lines.map mirrorLine).filterMap lineTextOpt) ∧
    (mirrorCell x).lines = x.lines.map mirrorLine ∧ (mirrorCell x).id = some x.id ∧
    (emptyCell none 0).value = "" := ⟨rfl, rfl, rfl, rfl⟩

/-- which lines have a text: those with a TextEquiv whose Unicode text is not blank -/
theorem C08_line_text_present (l : SrcLine) :
    lineTextOpt (mirrorLine l)
      = l.te.bind (fun te => if X.strip te.unicode = "" then none else some (X.strip te.unicode)) := by
  cases hte : l.te with
  | none => simp [lineTextOpt, mirrorLine, mirrorTEText, hte]
  | some te =>
    simp only [lineTextOpt, mirrorLine, mirrorTEText, hte, textVal, Option.bind_some]
    by_cases h : X.strip te.unicode = "" <;> simp [h, txtOf]

/-- lines without text do not change the value: it is the value of the cell holding only the
    lines that have one; a cell whose lines all lack text has the value `""` -/
theorem C08_textless_lines_skipped (x : SrcCell) :
    (mirrorCell x).value
      = (mirrorCell { x with lines := x.lines.filter (fun l => (lineTextOpt (mirrorLine l)).isSome) }).value ∧
    ((∀ l ∈ x.lines, lineTextOpt (mirrorLine l) = none) → (mirrorCell x).value = "") := by
  constructor
  · simp only [mirrorCell, List.filterMap_map]
    congr 1
    induction x.lines with
    | nil => rfl
    | cons l ls ih =>
      simp only [List.filterMap_cons, List.filter_cons, Function.comp_def] at ih ⊢
      cases h : lineTextOpt (mirrorLine l) <;> simp [h, ih]
  · intro h
    have : (x.lines.map mirrorLine).filterMap lineTextOpt = [] := by
      rw [List.filterMap_map]
      apply List.filterMap_eq_nil_iff.mpr
      intro l hl
      exact h l hl
    simp [mirrorCell, this, joinSp]

/-- **counts**: rows, cells and lines of the table equal those of the source -/
theorem C08_counts (hullT : List Pt → List Pt) (t : SrcTable) :
    let T := padTable (mirrorTable hullT t)
    T.allCells.length = t.cells.length ∧
    T.allLines.length = (t.cells.map (fun x => x.lines.length)).sum := by
  have hcells : ∀ w : Cell → Nat,
      (((padTable (mirrorTable hullT t)).rows.map (fun r => (r.cells.map w).sum)).sum
        = ((t.cells.map mirrorCell).map w).sum) := by
    intro w
    rw [← sum_groupByRow w (t.cells.map mirrorCell)]
    have e : ∀ rows : List Row, rows.map (fun r => (r.cells.map w).sum)
        = (rows.map (·.cells)).map (fun cs => (cs.map w).sum) := by
      intro rows; simp [List.map_map, Function.comp_def]
    rw [e, padTable_rows_cells]
    simp only [mirrorTable, List.map_map]
    congr 1
  constructor
  · have := hcells (fun _ => 1)
    simp only [sum_map_one, List.length_map] at this
    rw [← this]
    simp [Table.allCells, List.length_flatten, Function.comp_def]
  · have := hcells (fun c => c.lines.length)
    simp only [List.map_map, Function.comp_def] at this
    have e : ∀ x : SrcCell, (mirrorCell x).lines.length = x.lines.length := by intro x; simp [mirrorCell]
    simp only [e] at this
    rw [← this]
    simp [Table.allLines, Table.allCells, List.length_flatten, Function.comp_def, List.map_flatten, List.sum_flatten,
      List.map_map]

/-! ### from the XML to the table -/

/-- **a TableRegion parses to the mirrored table**: cells keep id, row, column, spans, header,
    orientation, corner points, polygon and their lines (ids, text, coordinates, words) -/
theorem C08_table_lossless (hull : List Pt → Res (List Pt)) (hullT : List Pt → List Pt) (t : SrcTable)
    (h : tableOk hull hullT t = true) :
    parseTable hull (toDict (renderTable t)) = .ok (mirrorTable hullT t) :=
  parseTable_render hull hullT t h

/-- every cell on its own -/
theorem C08_cell_lossless (c : SrcCell) (h : cellOk c = true) :
    parseCell (toDict (renderCell c)) = .ok (mirrorCell c) :=
  parseCell_render c h

/-- **the single-cell table** (xmltodict hands the parser a dict, not a list): it parses like
    any other table, to one row holding that cell -/
theorem C08_single_cell (hull : List Pt → Res (List Pt)) (hullT : List Pt → List Pt) (t : SrcTable) (c : SrcCell)
    (hc : t.cells = [c]) (h : tableOk hull hullT t = true) :
    (∃ d, lookup "TableCell" (tableEntries t) = some (.dict d)) ∧
    (∃ r, parseTable hull (toDict (renderTable t))
        = .ok { id := t.id, orientation := t.orientation, coords := t.coords.map boxOf, rows := [r] } ∧
      r.cells = [mirrorCell c] ∧ r.id = some (c.row : Int)) := by
  constructor
  · refine ⟨cellEntries c, ?_⟩
    have hA : lookup "TableCell" (attrEntries (optAttr "id" t.id ++ optAttr "orientation" t.orientation
        ++ optAttr "custom" t.custom)) = none :=
      lookup_none_of_not_mem _ _ (not_mem_attr_keys _ _ (by decide))
    simp only [tableEntries, lookup_append_or, hA, lookup_groupEntry]
    simp [cellVals, hc, collapse, toDict_renderCell]
  · rw [parseTable_render hull hullT t h]
    refine ⟨mirrorRow hullT (some (c.row : Int), [mirrorCell c]), ?_, rfl, rfl⟩
    simp [mirrorTable, hc, groupByRow, groupStep, C05.assocGet, mirrorCell]

/-- **a scan with tables next to its text regions**: the whole document parses to the mirrored
    scan, the tables padded as the scan constructor does -/
theorem C08_scan_lossless (hull : List Pt → Res (List Pt)) (hullT : List Pt → List Pt) (fname : String)
    (p : SrcPage) (hreg : regionsOk hull hullT p.regions = true)
    (htab : ∀ t ∈ p.tables, tableOk hull hullT t = true) :
    parseScan hull fname (toDictDoc (renderDoc p)) = .ok (mirrorScan hullT fname p) ∧
    (mirrorScan hullT fname p).tables = p.tables.map (fun t => padTable (mirrorTable hullT t)) :=
  ⟨parseScan_render_gen hull hullT fname p hreg (scanTables_ok hull hullT p htab), rfl⟩

/-! ### non-vacuity -/

private def sc (i : String) (r c : Nat) : SrcCell :=
  { id := i, row := r, col := c, rowSpan := none, colSpan := none, header := none, orientation := none, custom := none,
    coords := [(0, 0), (1, 1)], corner := none, lines := [] }

/-- a sparse 2 × 3 table (row indices 4 and 7), and the 1 × 1 table -/
example : RowMajor ⟨none, none, none, none, [sc "a" 4 0, sc "b" 4 1, sc "c" 4 2, sc "d" 7 1]⟩ 3 :=
  ⟨by decide, by
      intro k
      by_cases h4 : k = 4
      · subst h4; decide
      · by_cases h7 : k = 7
        · subst h7; decide
        · have e : List.filter (fun x => decide (x.row = k)) [sc "a" 4 0, sc "b" 4 1, sc "c" 4 2, sc "d" 7 1] = [] := by
            simp [sc, Ne.symm h4, Ne.symm h7]
          rw [e]; simp,
   ⟨4, by decide⟩⟩

example : RowMajor ⟨none, none, none, none, [sc "only" 0 0]⟩ 1 :=
  ⟨by decide, by
      intro k
      by_cases h0 : k = 0
      · subst h0; decide
      · have e : List.filter (fun x => decide (x.row = k)) [sc "only" 0 0] = [] := by simp [sc, Ne.symm h0]
        rw [e]; simp,
   ⟨0, by decide⟩⟩

example : tableOk (fun pts => .ok pts) id ⟨some "t", none, none, none, [sc "only" 0 0]⟩ = true := by decide

private def exLine : SrcLine :=
  { id := some "l", custom := none, xheight := none, coords := [(0, 0), (5, 5)], baseline := none,
    te := some { conf := none, plain := none, unicode := "a b" }, words := [] }

example : cellOk { sc "x" 2 1 with lines := [exLine], corner := some "1 2 3 4", orientation := some "90" } = true := by
  decide

/-- a cell with a line that has no TextEquiv and one with an empty Unicode element is conformant;
    its value is the text of the remaining line -/
example : cellOk { sc "x" 0 0 with lines := [{ exLine with te := none }, exLine,
    { exLine with te := some { conf := none, plain := none, unicode := "" } }] } = true := by decide

example : (mirrorCell { sc "x" 0 0 with lines := [{ exLine with te := none }, exLine,
    { exLine with te := some { conf := none, plain := none, unicode := " " } }] }).value = "a b" := by decide

end Pagexml.C08
