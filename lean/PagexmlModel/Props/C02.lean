/-
C02 — Parent links and provenance metadata agree with the actual tree.

Property theorems about the store model `PagexmlModel/Model/C02.lean` (objects = nodes,
`step` = one constructor / add_child / set_parent / set_parentage / type-tag call, mirrored
statement by statement).  Helper lemmas live in `Lemmas/C02Basic`, `Lemmas/C02Inv`, `Lemmas/C02Ops`.

The invariant `Inv σ` bundles
  * `Linked`     every listed text-hierarchy child refers to its container as parent and records
                 its id / main type under `parent_id`, `parent_type`, `<parent type>_id`;
  * `Shape`      the structure is a forest (one container per element, scans on top, no dangling ids);
  * `Typed`      main type of the class, duplicate-free tag list, main type + generic tags present;
  * `ScanTagged` everything below a scan (tables included) records the scan's id.
It is proved for every history whose operations meet the decidable precondition `Pre`
(children are attached while no container lists them, a scan is never attached, …).
-/
import PagexmlModel.Lemmas.C02Ops
import PagexmlModel.Lemmas.C02Fuel
import PagexmlModel.Lemmas.C02Step
import PagexmlModel.Lemmas.C02Parse

namespace Pagexml.C02

/-! ### every operation preserves the invariant -/

/-- **One step.**  An operation that meets the precondition keeps the invariant, whatever it
    returns (including the calls that raise after having mutated the objects). -/
theorem C02_step_preserves {σ σ' : Store} {op : Op} {o : Out}
    (hpre : Pre σ op = true) (hinv : Inv σ) (hstep : step σ op = .ok (σ', o)) : Inv σ' :=
  step_preserves hpre hinv hstep

/-! ### non-vacuity: a concrete history (word → line → region → scan, late add_child, tags) -/

private def A (i : String) : Args := { id := .str i, coords := some 1, text := some "a b" }

/-- scan `s` ⊃ region `r` ⊃ line `l` ⊃ word `w`; then a second line is added to `r` after the
    scan was built, tagged and untagged -/
private def demo : List Op :=
  [.mkWord (A "w"), .mkLine (A "l") [0], .mkRegion false (A "r") [1] [] [], .mkScan (A "s") [] [2] [] [] [],
   .mkLine (A "l2") [], .addChild 2 4 false, .addType 4 ["x"], .removeType 4 ["x"], .setParentage 3]

example : runPre Store.empty demo = true := by decide
example : (run Store.empty demo).toOption.isSome = true := by decide

private theorem demo_ok : ∃ σ, run Store.empty demo = .ok σ := by
  have ok : (run Store.empty demo).toOption.isSome = true := by decide
  cases h : run Store.empty demo with
  | error e => rw [h] at ok; cases ok
  | ok σ => exact ⟨σ, rfl⟩

/-- the step theorem applies to the late `add_child` of the demo history: its precondition
    holds in the store reached by the five operations before it -/
example : ∃ σ, run Store.empty (demo.take 5) = .ok σ ∧ Pre σ (.addChild 2 4 false) = true := by
  refine ⟨_, rfl, ?_⟩
  decide

/-! ### every history -/

theorem C02_init : Inv Store.empty := by
  have nog : ∀ n, Store.empty.get? n = none := fun n => by simp [Store.empty, Store.get?]
  refine ⟨?_, ⟨?_, ?_, ?_⟩, ?_, ?_⟩
  · intro p pn c g; rw [nog] at g; cases g
  · intro p q pn qn c g; rw [nog] at g; cases g
  · intro p pn c cn g; rw [nog] at g; cases g
  · intro p pn c g; rw [nog] at g; cases g
  · intro n nd _ g; rw [nog] at g; cases g
  · intro s sn n nn _ g; rw [nog] at g; cases g

example : Inv Store.empty := C02_init

/-- **Histories.**  From any store satisfying the invariant, a history all of whose operations
    meet the precondition ends in a store satisfying the invariant — for histories of any
    length over any number of objects. -/
theorem C02_run_preserves (ops : List Op) : ∀ (σ σ' : Store), Inv σ → runPre σ ops = true → run σ ops = .ok σ' → Inv σ' := by
  induction ops with
  | nil =>
    intro σ σ' h _ hr
    simp only [run, Except.ok.injEq] at hr
    rw [← hr]; exact h
  | cons op ops ih =>
    intro σ σ' h hp hr
    simp only [runPre, Bool.and_eq_true] at hp
    simp only [run] at hr
    cases hs : step σ op with
    | error e => rw [hs] at hr; cases hr
    | ok r =>
      obtain ⟨σ₁, o⟩ := r
      rw [hs] at hr hp
      exact ih σ₁ σ' (C02_step_preserves hp.1 h hs) hp.2 hr

/-- every store reachable from the empty world by a disciplined history satisfies the invariant -/
theorem C02_reachable (ops : List Op) (σ : Store) (hp : runPre Store.empty ops = true)
    (hr : run Store.empty ops = .ok σ) : Inv σ :=
  C02_run_preserves ops Store.empty σ C02_init hp hr

example : ∃ σ, run Store.empty demo = .ok σ ∧ Inv σ := by
  obtain ⟨σ, h⟩ := demo_ok
  exact ⟨σ, h, C02_reachable demo σ (by decide) h⟩

/-- **Clause 1 of the statement, spelled out.**  In a reachable store every element `c` that a
    container `p` lists among its pages / columns / extra / text regions / lines / words has
    `c.parent = p`, and `c.metadata` holds `parent_id = p.id`, `parent_type = <main type of p's class>`
    and `'<that type>_id' = p.id`. -/
theorem C02_linked (ops : List Op) (σ : Store) (hp : runPre Store.empty ops = true) (hr : run Store.empty ops = .ok σ)
    (p c : Nat) (pn : Node) (hpn : σ.get? p = some pn) (hc : c ∈ pn.kids) :
    ∃ cn, σ.get? c = some cn ∧ cn.parent = some p ∧
      mget cn.md "parent_id" = some pn.id ∧
      mget cn.md "parent_type" = some (.str pn.cls.mainType) ∧
      mget cn.md (pn.cls.mainType ++ "_id") = some pn.id := by
  have h := C02_reachable ops σ hp hr
  obtain ⟨pn', cn, g, gc, a, b, c', d⟩ := h.linked p pn c hpn hc trivial
  rw [hpn] at g
  cases g
  have ht := (h.typed p pn (fun f => f) hpn).1
  exact ⟨cn, gc, a, b, ht ▸ c', ht ▸ d⟩

example : ∃ σ cn, run Store.empty demo = .ok σ ∧ σ.get? 4 = some cn ∧ cn.parent = some 2 ∧
    mget cn.md "text_region_id" = some (.str "r") := by
  obtain ⟨σ, h⟩ := demo_ok
  have hn : ∃ pn, σ.get? 2 = some pn ∧ 4 ∈ pn.kids ∧ pn.cls = .region ∧ pn.id = .str "r" := by
    have : (run Store.empty demo).toOption.map (fun σ => (σ.get? 2).map (fun pn => (decide (4 ∈ pn.kids), pn.cls, pn.id)))
        = some (some (true, .region, .str "r")) := by decide
    rw [h] at this
    simp only [Except.toOption, Option.map_some, Option.some.injEq] at this
    cases g : σ.get? 2 with
    | none => rw [g] at this; cases this
    | some pn =>
      rw [g] at this
      simp only [Option.map_some, Option.some.injEq, Prod.mk.injEq, decide_eq_true_eq] at this
      exact ⟨pn, rfl, this.1, this.2.1, this.2.2⟩
  obtain ⟨pn, g, hk, hcls, hid⟩ := hn
  obtain ⟨cn, gc, a, _, _, d⟩ := C02_linked demo σ (by decide) h 2 4 pn g hk
  rw [hcls, hid] at d
  exact ⟨σ, cn, h, gc, a, d⟩

/-- **Clause 2: below a scan.**  In a reachable store every element below a scan — through text
    regions, pages, columns, lines, words or the table structure, at any depth, attached by a
    constructor or by a late `add_child` — records that scan's id as `scan_id`. -/
theorem C02_scan_tagged (ops : List Op) (σ : Store) (hp : runPre Store.empty ops = true) (hr : run Store.empty ops = .ok σ)
    (s n : Nat) (sn nn : Node) (hs : σ.get? s = some sn) (hscan : sn.cls = .scan) (hb : Below σ n s)
    (hn : σ.get? n = some nn) : mget nn.md "scan_id" = some sn.id :=
  (C02_reachable ops σ hp hr).scan s sn n nn (fun f => f) hs hscan hb hn

/-- an element sits below at most one scan, so the recorded scan id is unambiguous -/
theorem C02_scan_unique (ops : List Op) (σ : Store) (hp : runPre Store.empty ops = true) (hr : run Store.empty ops = .ok σ)
    (s r m : Nat) (sn rn : Node) (hs : σ.get? s = some sn) (hss : sn.cls = .scan) (hrn : σ.get? r = some rn)
    (hrs : rn.cls = .scan) (h₁ : Below σ m r) (h₂ : Below σ m s) : s = r :=
  Below.scan_unique (C02_reachable ops σ hp hr).shape hs hss hrn hrs h₁ h₂

example : ∃ σ nn, run Store.empty demo = .ok σ ∧ σ.get? 4 = some nn ∧ mget nn.md "scan_id" = some (.str "s") := by
  obtain ⟨σ, h⟩ := demo_ok
  have facts : ∃ sn rn nn, σ.get? 3 = some sn ∧ σ.get? 2 = some rn ∧ σ.get? 4 = some nn ∧ sn.cls = .scan ∧
      sn.id = .str "s" ∧ 2 ∈ sn.allKids ∧ 4 ∈ rn.allKids := by
    have : (run Store.empty demo).toOption.map (fun σ => ((σ.get? 3).map (fun x => (x.cls, x.id, decide (2 ∈ x.allKids))),
        (σ.get? 2).map (fun x => decide (4 ∈ x.allKids)), (σ.get? 4).isSome))
        = some (some (.scan, .str "s", true), some true, true) := by decide
    rw [h] at this
    simp only [Except.toOption, Option.map_some, Option.some.injEq, Prod.mk.injEq] at this
    obtain ⟨a, b, c⟩ := this
    cases g3 : σ.get? 3 with
    | none => rw [g3] at a; cases a
    | some sn =>
      cases g2 : σ.get? 2 with
      | none => rw [g2] at b; cases b
      | some rn =>
        cases g4 : σ.get? 4 with
        | none => rw [g4] at c; cases c
        | some nn =>
          rw [g3] at a; rw [g2] at b
          simp only [Option.map_some, Option.some.injEq, Prod.mk.injEq, decide_eq_true_eq] at a b
          exact ⟨sn, rn, nn, rfl, rfl, rfl, a.1, a.2.1, a.2.2, b⟩
  obtain ⟨sn, rn, nn, g3, g2, g4, hcls, hid, h2, h4⟩ := facts
  have hb : Below σ 4 3 := .step (.step (.refl 3) g3 h2) g2 h4
  have := C02_scan_tagged demo σ (by decide) h 3 4 sn nn g3 hcls hb g4
  rw [hid] at this
  exact ⟨σ, nn, h, g4, this⟩

/-- **Clause 3: types.**  Every element of a reachable store has the main type of its class, and
    its tag list has no duplicates and contains that main type and the three generic tags. -/
theorem C02_typed (ops : List Op) (σ : Store) (hp : runPre Store.empty ops = true) (hr : run Store.empty ops = .ok σ)
    (n : Nat) (nd : Node) (hn : σ.get? n = some nd) :
    nd.mainType = nd.cls.mainType ∧ nd.type.toList.Nodup ∧
      hasType nd.type nd.cls.mainType = true ∧ hasType nd.type "structure_doc" = true ∧
      hasType nd.type "physical_structure_doc" = true ∧ hasType nd.type "pagexml_doc" = true := by
  obtain ⟨h1, h2, h3⟩ := (C02_reachable ops σ hp hr).typed n nd (fun f => f) hn
  refine ⟨h1, h2, ?_, ?_, ?_, ?_⟩ <;> rw [hasType_iff] <;> apply h3 <;> simp [Cls.tags]

example : ∃ σ nd, run Store.empty demo = .ok σ ∧ σ.get? 3 = some nd ∧ hasType nd.type "pagexml_doc" = true := by
  obtain ⟨σ, h⟩ := demo_ok
  cases g : σ.get? 3 with
  | none =>
    have : (run Store.empty demo).toOption.map (fun σ => (σ.get? 3).isSome) = some true := by decide
    rw [h] at this
    simp [Except.toOption, g] at this
  | some nd => exact ⟨σ, nd, h, g, (C02_typed demo σ (by decide) h 3 nd g).2.2.2.2.2⟩

/-- the forest shape itself: one container per element, no scan below anything, no dangling ids -/
theorem C02_forest (ops : List Op) (σ : Store) (hp : runPre Store.empty ops = true) (hr : run Store.empty ops = .ok σ) :
    Shape σ := (C02_reachable ops σ hp hr).shape

example : ∃ σ, run Store.empty demo = .ok σ ∧ Shape σ := by
  obtain ⟨σ, h⟩ := demo_ok
  exact ⟨σ, h, C02_forest demo σ (by decide) h⟩

/-! ### type tags behave as a set -/

/-- adding is idempotent: a second `add_type` with the same tags changes nothing -/
theorem C02_add_idem (ty : PyType) (ts : List String) : addTypes (addTypes ty ts) ts = addTypes ty ts := by
  unfold addTypes
  congr 1
  show ts.foldl addOne (ts.foldl addOne ty.toList) = ts.foldl addOne ty.toList
  exact foldl_addOne_of_subset ts _ (fun t ht => (mem_foldl_addOne ts _ t).mpr (Or.inr ht))

example : addTypes (addTypes (.str "structure_doc") ["x", "y", "x"]) ["x", "y", "x"]
    = .list ["structure_doc", "x", "y"] := by decide

/-- after `add_type(ts)` exactly the old tags and `ts` are present -/
theorem C02_add_present (ty : PyType) (ts : List String) (t : String) :
    hasType (addTypes ty ts) t = true ↔ hasType ty t = true ∨ t ∈ ts := by
  rw [hasType_iff, hasType_iff, mem_toList_addTypes]

example : hasType (addTypes (.str "a") ["b"]) "b" = true := (C02_add_present _ _ _).mpr (Or.inr (by simp))

/-- removing makes the tag absent (for a duplicate-free tag list, which every reachable element has) -/
theorem C02_remove_absent (ty : PyType) (ts : List String) (t : String) (hn : ty.toList.Nodup) (ht : t ∈ ts) :
    hasType (removeTypes ty ts) t = false := by
  rw [Bool.eq_false_iff]
  intro h
  rw [hasType_iff, toList_removeTypes, mem_foldl_removeOne _ _ hn] at h
  exact h.2 ht

example : hasType (removeTypes (.list ["a", "b", "c"]) ["b"]) "b" = false :=
  C02_remove_absent _ _ _ (by decide) (by simp)

/-- the duplicate-freeness hypothesis is needed: `list.remove` deletes one occurrence only -/
theorem C02_remove_absent_needs_nodup : hasType (removeTypes (.list ["b", "b"]) ["b"]) "b" = true := by decide

example : hasType (removeTypes (.list ["b", "b"]) ["b"]) "b" = true := C02_remove_absent_needs_nodup

/-- removing leaves all other tags alone -/
theorem C02_remove_other (ty : PyType) (ts : List String) (t : String) (hn : ty.toList.Nodup) (ht : t ∉ ts) :
    hasType (removeTypes ty ts) t = hasType ty t := by
  rw [Bool.eq_iff_iff, hasType_iff, hasType_iff, toList_removeTypes, mem_foldl_removeOne _ _ hn]
  exact ⟨fun h => h.1, fun h => ⟨h, ht⟩⟩

example : hasType (removeTypes (.list ["a", "b", "c"]) ["b"]) "c" = true := by
  rw [C02_remove_other _ _ _ (by decide) (by simp)]; decide

/-- both operations keep the tag list duplicate-free -/
theorem C02_tags_nodup (ty : PyType) (ts : List String) (hn : ty.toList.Nodup) :
    (addTypes ty ts).toList.Nodup ∧ (removeTypes ty ts).toList.Nodup := by
  constructor
  · rw [toList_addTypes]; exact nodup_foldl_addOne _ _ hn
  · rw [toList_removeTypes]; exact nodup_foldl_removeOne _ _ hn

example : (addTypes (.str "a") ["a", "b", "b"]).toList.Nodup := (C02_tags_nodup _ _ (by simp [PyType.toList])).1

/-- `types` is a set: duplicate-free, and its members are exactly the tags `has_type` accepts -/
theorem C02_types_is_set (ty : PyType) :
    (typeSet ty).Nodup ∧ ∀ t, t ∈ typeSet ty ↔ hasType ty t = true := by
  unfold typeSet
  refine ⟨nodup_foldl_addOne _ _ List.nodup_nil, fun t => ?_⟩
  rw [mem_foldl_addOne, hasType_iff]
  simp

example : typeSet (.list ["a", "b", "a"]) = ["a", "b"] := by decide

/-- the tag algebra at the level of the store: after `add_type` on a reachable element the
    tags are present, a repeated `add_type` is a no-op on the whole store -/
theorem C02_addType_step (σ : Store) (n : Nat) (ts : List String) (nd : Node) (hn : σ.get? n = some nd) :
    ∃ nd', (σ.upd n (·.addType ts)).get? n = some nd' ∧ (∀ t ∈ ts, hasType nd'.type t = true) ∧
      (σ.upd n (·.addType ts)).upd n (·.addType ts) = σ.upd n (·.addType ts) := by
  refine ⟨nd.addType ts, by simp [hn], fun t ht => (C02_add_present _ _ _).mpr (Or.inr ht), ?_⟩
  apply upd_eq_self
  intro x g
  simp only [get?_upd, if_true, hn, Option.map_some, Option.some.injEq] at g
  subst g
  show ({ nd.addType ts with type := addTypes (addTypes nd.type ts) ts } : Node) = _
  rw [C02_add_idem]
  rfl

example : (run Store.empty [.mkWord (A "w"), .addType 0 ["x"]]).toOption.map (·.nodes) =
    (run Store.empty [.mkWord (A "w"), .addType 0 ["x"], .addType 0 ["x"]]).toOption.map (·.nodes) := by decide

/-- after `remove_type` on a reachable element the tags are absent -/
theorem C02_removeType_step (ops : List Op) (σ : Store) (hp : runPre Store.empty ops = true)
    (hr : run Store.empty ops = .ok σ) (n : Nat) (ts : List String) (nd : Node) (hn : σ.get? n = some nd) :
    ∃ nd', (σ.upd n (·.removeType ts)).get? n = some nd' ∧ ∀ t ∈ ts, hasType nd'.type t = false := by
  have hnd := ((C02_reachable ops σ hp hr).typed n nd (fun f => f) hn).2.1
  exact ⟨nd.removeType ts, by simp [hn], fun t ht => C02_remove_absent _ _ _ hnd ht⟩

example : ∃ σ nd, run Store.empty [.mkWord (A "w"), .addType 0 ["x"], .removeType 0 ["x"]] = .ok σ ∧
    σ.get? 0 = some nd ∧ hasType nd.type "x" = false ∧ hasType nd.type "word" = true := by
  refine ⟨_, _, rfl, rfl, ?_, ?_⟩ <;> decide

/-! ### fuel of the recursions over the object graph: the structure is a forest of bounded depth -/

private theorem runs_of {ops : List Op} {σ : Store} (hp : runPre Store.empty ops = true)
    (hr : run Store.empty ops = .ok σ) : Runs Store.empty ops σ := ⟨hr, hp⟩

/-- **No cycles.**  In a store reached by a disciplined history no element sits strictly below
    itself: `Pre` excludes attaching an element to itself or to something below it (that is the
    "trees" reading of the property; CPython raises RecursionError on such a structure). -/
theorem C02_acyclic (ops : List Op) (σ : Store) (hp : runPre Store.empty ops = true) (hr : run Store.empty ops = .ok σ) :
    Acyclic σ := (good_run good_empty (runs_of hp hr)).ac

/-- **Depth ≤ number of objects.**  Every chain of child links of a reachable store has at most
    `σ.size` nodes (`Height σ n d`: all chains from `n` have at most `d` nodes). -/
theorem C02_depth_le_size (ops : List Op) (σ : Store) (hp : runPre Store.empty ops = true)
    (hr : run Store.empty ops = .ok σ) (n : Nat) (hn : n < σ.size) : Height σ n σ.size :=
  height_of_acyclic (C02_reachable ops σ hp hr).shape.closed' (C02_acyclic ops σ hp hr) n hn

/-- **Fuel suffices.**  On a store reached by a disciplined history, an operation that meets the
    precondition never answers `.error`: `set_scan_id` and `set_parentage` (run with fuel
    `size + 1`) do not run out of fuel, and no object is missing.  (Replaces the earlier partial
    statement, which had the depth bound as a hypothesis.) -/
theorem C02_fuel_suffices (ops : List Op) (σ : Store) (hp : runPre Store.empty ops = true)
    (hr : run Store.empty ops = .ok σ) (op : Op) (hpre : Pre σ op = true) : ∃ r, step σ op = .ok r :=
  step_total (C02_reachable ops σ hp hr) (C02_acyclic ops σ hp hr) hpre

/-- a disciplined history never fails, however long -/
theorem C02_run_total (ops : List Op) (hp : runPre Store.empty ops = true) : ∃ σ, run Store.empty ops = .ok σ := by
  have : ∀ (ops : List Op) (σ : Store), Good σ → runPre σ ops = true → ∃ σ', run σ ops = .ok σ' := by
    intro ops
    induction ops with
    | nil => intro σ _ _; exact ⟨σ, rfl⟩
    | cons op ops ih =>
      intro σ g hp
      simp only [runPre, Bool.and_eq_true] at hp
      obtain ⟨σ', o, hs, g', _⟩ := good_step g hp.1
      rw [hs] at hp
      obtain ⟨σ'', h⟩ := ih σ' g' hp.2
      exact ⟨σ'', by simp only [run, hs]; exact h⟩
  exact this ops Store.empty good_empty hp

example : ∃ σ, run Store.empty demo = .ok σ := C02_run_total demo (by decide)
example : ∃ σ, run Store.empty demo = .ok σ ∧ Acyclic σ := by
  obtain ⟨σ, h⟩ := demo_ok
  exact ⟨σ, h, C02_acyclic demo σ (by decide) h⟩
example : ∃ σ, run Store.empty demo = .ok σ ∧ Height σ 3 σ.size := by
  obtain ⟨σ, h⟩ := demo_ok
  have hs : 3 < σ.size := by
    have : (run Store.empty demo).toOption.map (fun σ => decide (3 < σ.size)) = some true := by decide
    rw [h] at this
    simpa [Except.toOption] using this
  exact ⟨σ, h, C02_depth_le_size demo σ (by decide) h 3 hs⟩
example : ∃ σ, run Store.empty demo = .ok σ ∧ ∃ r, step σ (.setParentage 3) = .ok r := by
  obtain ⟨σ, h⟩ := demo_ok
  have hs : Pre σ (.setParentage 3) = true := by
    have : (run Store.empty demo).toOption.map (fun σ => Pre σ (.setParentage 3)) = some true := by decide
    rw [h] at this
    simpa [Except.toOption] using this
  exact ⟨σ, h, C02_fuel_suffices demo σ (by decide) h _ hs⟩

/-- attaching an ancestor is outside the discipline (and CPython's `set_scan_id` would recurse for
    ever on the result): the region `1` holds the region `0`; `add_child(0, 1)` does not meet `Pre` -/
example : runPre Store.empty [.mkRegion false (A "in") [] [] [], .mkRegion false (A "out") [] [0] [],
    .addChild 0 1 false] = false := by decide
example : runPre Store.empty [.mkRegion false (A "r") [] [] [], .addChild 0 0 false] = false := by decide
example : runPre Store.empty [.mkRegion false (A "r") [] [] [], .attachRegions 0 [0]] = false := by decide
/-- … while attaching an unrelated free element is inside -/
example : runPre Store.empty [.mkRegion false (A "in") [] [] [], .mkRegion false (A "out") [] [0] [],
    .mkRegion false (A "x") [] [] [], .addChild 0 2 false] = true := by decide

/-- the earlier, conditional form (kept: it also covers stores outside the discipline whose depth is
    known): the recursion succeeds whenever the nesting depth below the start node is within the fuel -/
theorem C02_fuel_suffices_partial (σ : Store) (n f : Nat) (v : MVal) (h : Height σ n f) :
    (∃ σ', setScanId f σ n v = .ok σ') ∧ (Inv σ → ∃ σ', setParentage f σ n = .ok σ') :=
  ⟨setScanId_ok f σ n v h, fun hI => setParentage_ok f σ n hI h⟩

/-- a line holding a word: depth 2 below the line, so fuel 2 is enough (and 1 is not) -/
private def twoLevel : Store := ((run Store.empty [.mkWord (A "w"), .mkLine (A "l") [0]]).toOption.getD Store.empty)

example : Height twoLevel 1 2 := by
  have g1 : ∃ nd, twoLevel.get? 1 = some nd ∧ nd.allKids = [0] := by
    refine ⟨_, rfl, ?_⟩
    decide
  have g0 : ∃ nd, twoLevel.get? 0 = some nd ∧ nd.allKids = [] := by
    refine ⟨_, rfl, ?_⟩
    decide
  obtain ⟨n1, e1, k1⟩ := g1
  obtain ⟨n0, e0, k0⟩ := g0
  refine .mk e1 (fun c hc => ?_)
  rw [k1] at hc
  simp only [List.mem_singleton] at hc
  subst hc
  exact .mk e0 (fun c hc => by rw [k0] at hc; cases hc)

example : (setScanId 2 twoLevel 1 (.str "s")).toOption.isSome = true := by decide
example : (setScanId 1 twoLevel 1 (.str "s")).toOption.isSome = false := by decide


/-! ### the three ways documents come into being are disciplined histories

`JTree.hist false` (bottom-up through the constructors), `JTree.hist true` (the JSON builders:
constructors bottom-up, each followed by `set_parentage`) and `PScan.hist` (the XML parser: regions
and tables constructed empty and filled through its attach statements, then the scan constructor)
are defined in Model/C02Hist.lean as functions from a document tree to `List Op`.  For EVERY tree
(any nesting, any fan-out, any arguments) these histories meet `Pre` at every operation, never
fail, and therefore end in a store satisfying the invariant — so `C02_linked`, `C02_scan_tagged`,
`C02_typed`, `C02_forest`, `C02_acyclic` hold of every parsed, rebuilt or bottom-up built
document, also when it is built next to documents that exist already (`ops₀`). -/

/-- **C02_json_linked** (and bottom-up construction: `json = false`).  After any disciplined
    history `ops₀`, the history of any tree runs to the end, meets `Pre` throughout, and the store
    it ends in satisfies the invariant; the root is the object created last but `0`/`1`. -/
theorem C02_json_linked (json : Bool) (t : JTree) (hv : t.valid = true) (ops₀ : List Op) (σ₀ : Store)
    (hp₀ : runPre Store.empty ops₀ = true) (hr₀ : run Store.empty ops₀ = .ok σ₀) :
    ∃ σ, run Store.empty (ops₀ ++ (t.hist json σ₀.size).1) = .ok σ ∧
      runPre Store.empty (ops₀ ++ (t.hist json σ₀.size).1) = true ∧ Inv σ ∧ Acyclic σ ∧
      clsOf σ (t.hist json σ₀.size).2 = some t.kind ∧ σ.size = (t.hist json σ₀.size).2 + 1 := by
  have g₀ := good_run good_empty (runs_of hp₀ hr₀)
  obtain ⟨σ, R, N⟩ := jtree_spec json t σ₀ g₀ hv
  have R' := (runs_of hp₀ hr₀).append R
  exact ⟨σ, R'.1, R'.2, N.good.inv, N.good.ac, N.cls, N.size⟩

/-- **C02_parse_linked.**  The same for the XML parser's history of any scan: text regions of any
    nesting with lines and words, in either child order, with or without a type tag; table regions
    with rows of cells of lines. -/
theorem C02_parse_linked (s : PScan) (hv : s.valid = true) (ops₀ : List Op) (σ₀ : Store)
    (hp₀ : runPre Store.empty ops₀ = true) (hr₀ : run Store.empty ops₀ = .ok σ₀) :
    ∃ σ, run Store.empty (ops₀ ++ (s.hist σ₀.size).1) = .ok σ ∧
      runPre Store.empty (ops₀ ++ (s.hist σ₀.size).1) = true ∧ Inv σ ∧ Acyclic σ ∧
      clsOf σ (s.hist σ₀.size).2 = some .scan ∧ σ.size = (s.hist σ₀.size).2 + 1 := by
  have g₀ := good_run good_empty (runs_of hp₀ hr₀)
  obtain ⟨σ, R, g, hc, hs⟩ := pscan_spec s σ₀ g₀ hv
  have R' := (runs_of hp₀ hr₀).append R
  exact ⟨σ, R'.1, R'.2, g.inv, g.ac, hc, hs⟩

/-- hence every clause of the statement holds of every parsed document: spelled out for the links -/
theorem C02_parsed_document_linked (s : PScan) (hv : s.valid = true) :
    ∃ σ, run Store.empty (s.hist 0).1 = .ok σ ∧
      ∀ p c pn, σ.get? p = some pn → c ∈ pn.kids →
        ∃ cn, σ.get? c = some cn ∧ cn.parent = some p ∧ mget cn.md "parent_id" = some pn.id ∧
          mget cn.md "parent_type" = some (.str pn.cls.mainType) ∧
          mget cn.md (pn.cls.mainType ++ "_id") = some pn.id := by
  obtain ⟨σ, hr, hp, _⟩ := C02_parse_linked s hv [] Store.empty rfl rfl
  exact ⟨σ, hr, fun p c pn g hc => C02_linked _ σ hp hr p c pn g hc⟩

/-- … and of every document rebuilt from JSON, for the scan id -/
theorem C02_rebuilt_document_scan_tagged (t : JTree) (hv : t.valid = true) :
    ∃ σ, run Store.empty (t.hist true 0).1 = .ok σ ∧
      ∀ s n sn nn, σ.get? s = some sn → sn.cls = .scan → Below σ n s → σ.get? n = some nn →
        mget nn.md "scan_id" = some sn.id := by
  obtain ⟨σ, hr, hp, _⟩ := C02_json_linked true t hv [] Store.empty rfl rfl
  exact ⟨σ, hr, fun s n sn nn gs hs hb gn => C02_scan_tagged _ σ hp hr s n sn nn gs hs hb gn⟩

/-! non-vacuity: a scan with a page (column, extra region), a nested region, a table -/

private def jw (i : String) : JTree := .node .word false (A i) []
private def jl (i : String) (ws : List JTree) : JTree := .node .line false (A i) ws
private def jr (i : String) (extra : Bool) (ks : List JTree) : JTree := .node .region extra (A i) ks
private def jtab : JTree :=
  .node .table false (A "t") [.node .row false (A "row0") [.node .cell false (A "c0") [jl "cl" []], .node .cell false (A "c1") []]]
private def jscan : JTree :=
  .node .scan false (A "s") [
    .node .page false (A "p") [jr "ex" true [jl "l0" []], .node .column false (A "col") [jr "r1" false [jl "l1" [jw "w1", jw "w2"]]]],
    jr "r2" false [jr "r3" false [jl "l3" []], jl "l2" []],
    jtab]

example : jscan.valid = true := by decide
example : ((jscan.hist true 0).1.length, (jscan.hist false 0).1.length, (jscan.hist true 0).2) = (29, 19, 17) := by decide
example : ∃ σ, run Store.empty (jscan.hist true 0).1 = .ok σ ∧ Inv σ := by
  obtain ⟨σ, hr, _, hi, _⟩ := C02_json_linked true jscan (by decide) [] Store.empty rfl rfl
  exact ⟨σ, hr, hi⟩
/-- rebuilt next to the original: the rebuild history starts when the original's objects exist -/
example : ∃ σ, run Store.empty ((jscan.hist false 0).1 ++ (jscan.hist true 18).1) = .ok σ ∧ Inv σ ∧ σ.size = 36 := by
  have h0 : ∃ σ₀, run Store.empty (jscan.hist false 0).1 = .ok σ₀ ∧ runPre Store.empty (jscan.hist false 0).1 = true
      ∧ σ₀.size = 18 := by
    obtain ⟨σ₀, hr, hp, _, _, _, hs⟩ := C02_json_linked false jscan (by decide) [] Store.empty rfl rfl
    exact ⟨σ₀, hr, hp, by rw [hs]; decide⟩
  obtain ⟨σ₀, hr₀, hp₀, hs₀⟩ := h0
  obtain ⟨σ, hr, _, hi, _, _, hs⟩ := C02_json_linked true jscan (by decide) _ σ₀ hp₀ hr₀
  rw [hs₀] at hr hs
  exact ⟨σ, hr, hi, by rw [hs]; decide⟩
/-- a row without cells is not a document (the row constructor raises) -/
example : (JTree.node .row false (A "r") []).valid = false := by decide

private def pscan : PScan :=
  { a := A "img.jpg",
    regions := [.mk (A "r1") ["paragraph"] true [jl "l1" [jw "w1"], jl "l2" []] [.mk (A "r2") [] false [jl "l3" []] [.mk (A "r3") [] true [] []]],
                .mk (A "r4") [] false [] []],
    tables := [{ a := A "t", addT := ["tab"], rows := [.node .row false (A "row0") [.node .cell false (A "c0") [jl "cl" []]]] }],
    file := "doc.xml" }

example : pscan.valid = true := by decide
example : ((pscan.hist 0).1.length, (pscan.hist 0).2) = (22, 12) := by decide
example : ∃ σ, run Store.empty (pscan.hist 0).1 = .ok σ ∧ Inv σ ∧ clsOf σ (pscan.hist 0).2 = some .scan := by
  obtain ⟨σ, hr, _, hi, _, hc, _⟩ := C02_parse_linked pscan (by decide) [] Store.empty rfl rfl
  exact ⟨σ, hr, hi, hc⟩
example : ∃ σ, run Store.empty (pscan.hist 0).1 = .ok σ := by
  obtain ⟨σ, hr, _⟩ := C02_parsed_document_linked pscan (by decide)
  exact ⟨σ, hr⟩

end Pagexml.C02
