/-
C02 — Parent links and provenance metadata agree with the actual tree.

Property theorems about the store model `PagexmlModel/Model/C02.lean` (objects = nodes,
`step` = one constructor / add_child / set_parent / set_parentage / type-tag call, mirrored
statement by statement).  Helper lemmas live in `Lemmas/C02Basic`, `Lemmas/C02Inv`, `Lemmas/C02Ops`.

The invariant `Inv σ` bundles
  * `Linked`     every listed text-hierarchy child refers to its container as parent and records
                 its id / main type under `parent_id`, `parent_type`, `<parent type>_id`;
  * `Shape`      the structure is a forest (one container per element, scans on top, no dangling ids);
  * `Typed`      main type of the class, duplicate-free tag list, main type + generic tags present;
  * `ScanTagged` everything below a scan (tables included) records the scan's id.
It is proved for every history whose operations meet the decidable precondition `Pre`
(children are attached while no container lists them, a scan is never attached, …).
-/
import PagexmlModel.Lemmas.C02Ops
import PagexmlModel.Lemmas.C02Fuel

namespace Pagexml.C02

/-! ### every operation preserves the invariant -/

private theorem refs_all {σ : Store} {l : List Nat} (h : l.all σ.has = true) : ∀ c ∈ l, σ.has c = true :=
  fun c hc => List.all_eq_true.mp h c hc

private theorem freeKids_of_pre {σ : Store} {l : List Nat} (hr : ∀ c ∈ l, σ.has c = true)
    (hp : l.all (fun c => σ.free c && σ.notScan c) = true) : ∀ c ∈ l, FreeKid σ c := by
  intro c hc
  have := List.all_eq_true.mp hp c hc
  simp only [Bool.and_eq_true] at this
  exact freeKid_of (hr c hc) this.1 this.2

private theorem attachables_of_pre {σ : Store} {p : Nat} {l : List Nat} (hr : ∀ c ∈ l, σ.has c = true)
    (hp : l.all (fun c => σ.onlyBy c p && σ.notScan c) = true) : ∀ c ∈ l, Attachable σ p c := by
  intro c hc
  have := List.all_eq_true.mp hp c hc
  simp only [Bool.and_eq_true] at this
  exact attachable_of (hr c hc) this.1 this.2

/-- **One step.**  An operation that meets the precondition keeps the invariant, whatever it
    returns (including the calls that raise after having mutated the objects). -/
theorem C02_step_preserves {σ σ' : Store} {op : Op} {o : Out}
    (hpre : Pre σ op = true) (hinv : Inv σ) (hstep : step σ op = .ok (σ', o)) : Inv σ' := by
  unfold Pre at hpre
  rw [Bool.and_eq_true] at hpre
  obtain ⟨hrefs, hpre⟩ := hpre
  unfold step at hstep
  rw [hrefs] at hstep
  simp only [Bool.not_true, Bool.false_eq_true, if_false] at hstep
  have hr := refs_all hrefs
  cases op with
  | mkWord a =>
    simp only [Except.ok.injEq] at hstep
    rw [show σ' = (mkWord σ a).1 from by rw [hstep]]; exact inv_mkWord a hinv
  | mkLine a ws =>
    simp only [Except.ok.injEq] at hstep
    rw [show σ' = (mkLine σ a ws).1 from by rw [hstep]]; exact inv_mkLine a ws hinv (freeKids_of_pre hr hpre)
  | mkRegion col a ls rs ts =>
    simp only [Except.ok.injEq] at hstep
    rw [show σ' = (mkRegion σ col a ls rs ts).1 from by rw [hstep]]; exact inv_mkRegion col a ls rs ts hinv (freeKids_of_pre hr hpre)
  | mkPage a ls rs ts cols ex =>
    simp only [Except.ok.injEq] at hstep
    rw [show σ' = (mkPage σ a ls rs ts cols ex).1 from by rw [hstep]]; exact inv_mkPage a ls rs ts cols ex hinv (freeKids_of_pre hr hpre)
  | mkScan a ls rs ts cols pages =>
    exact inv_mkScan a ls rs ts cols pages hinv (freeKids_of_pre hr hpre) hstep
  | mkCell a ls =>
    simp only [Except.ok.injEq] at hstep
    rw [show σ' = (mkCell σ a ls).1 from by rw [hstep]]; exact inv_mkCell a ls hinv (freeKids_of_pre hr hpre)
  | mkRow a cs =>
    simp only [Except.ok.injEq] at hstep
    rw [show σ' = (mkRow σ a cs).1 from by rw [hstep]]; exact inv_mkRow a cs hinv (freeKids_of_pre hr hpre)
  | mkTable a rs =>
    simp only [Except.ok.injEq] at hstep
    rw [show σ' = (mkTable σ a rs).1 from by rw [hstep]]; exact inv_mkTable a rs hinv (freeKids_of_pre hr hpre)
  | addChild p c asExtra =>
    simp only [Bool.and_eq_true] at hpre
    have hc : FreeKid σ c := freeKid_of (hr c (by simp [Op.refs])) hpre.1 hpre.2
    obtain ⟨pn, gp⟩ := get?_of_lt (has_iff.mp (hr p (by simp [Op.refs])))
    obtain ⟨cn, gc⟩ := get?_of_lt (has_iff.mp (hr c (by simp [Op.refs])))
    simp only [clsOf, gp, gc, Option.map_some] at hstep
    cases hcl : pn.cls <;> simp only [hcl] at hstep
    case region => exact inv_addChildRegion cn.cls hinv gp (Or.inl hcl) hc hstep
    case column => exact inv_addChildRegion cn.cls hinv gp (Or.inr hcl) hc hstep
    case page => exact inv_addChildPage cn.cls asExtra hinv gp hcl hc hstep
    case scan => exact inv_addChildScan cn.cls hinv gp hcl hc hstep
    all_goals
      simp only [Except.ok.injEq, Prod.mk.injEq] at hstep
      rw [← hstep.1]; exact hinv
  | setParent c p =>
    simp only [Bool.and_eq_true] at hpre
    simp only [Except.ok.injEq, Prod.mk.injEq] at hstep
    rw [← hstep.1]
    exact inv_setParent1 hinv (has_iff.mp (hr p (by simp [Op.refs])))
      (attachable_of (hr c (by simp [Op.refs])) hpre.1 hpre.2)
  | setAsParent p cs =>
    simp only [Except.ok.injEq, Prod.mk.injEq] at hstep
    rw [← hstep.1]
    exact (inv_setAsParent cs hinv (has_iff.mp (hr p (by simp [Op.refs])))
      (attachables_of_pre (fun c hc => hr c (by simp [Op.refs, hc])) hpre)).1
  | attachLines p cs =>
    simp only [Bool.and_eq_true] at hpre
    simp only [Except.ok.injEq, Prod.mk.injEq] at hstep
    rw [← hstep.1]
    obtain ⟨pn, gp⟩ := get?_of_lt (has_iff.mp (hr p (by simp [Op.refs])))
    refine inv_attach (f := fun nd => { nd with lines := cs }) hinv gp ?_
      (attachables_of_pre (fun c hc => hr c (by simp [Op.refs, hc])) hpre.2)
      (free_iff.mp hpre.1.1) (notScan_iff.mp hpre.1.2 pn gp) (fun x hx => by simp [Node.allKids, hx])
    refine ⟨rfl, rfl, rfl, rfl, rfl, rfl, ?_, ?_⟩
    · intro x hx
      simp only [Node.allKids, List.mem_append] at hx ⊢
      grind
    · intro x hx
      unfold Node.kids at hx ⊢
      cases hc : pn.cls <;> simp only [hc, List.mem_append, List.not_mem_nil] at hx ⊢ <;> grind
  | attachRegions p cs =>
    simp only [Bool.and_eq_true] at hpre
    simp only [Except.ok.injEq, Prod.mk.injEq] at hstep
    rw [← hstep.1]
    obtain ⟨pn, gp⟩ := get?_of_lt (has_iff.mp (hr p (by simp [Op.refs])))
    refine inv_attach (f := fun nd => { nd with regions := cs }) hinv gp ?_
      (attachables_of_pre (fun c hc => hr c (by simp [Op.refs, hc])) hpre.2)
      (free_iff.mp hpre.1.1) (notScan_iff.mp hpre.1.2 pn gp) (fun x hx => by simp [Node.allKids, hx])
    refine ⟨rfl, rfl, rfl, rfl, rfl, rfl, ?_, ?_⟩
    · intro x hx
      simp only [Node.allKids, List.mem_append] at hx ⊢
      grind
    · intro x hx
      unfold Node.kids at hx ⊢
      cases hc : pn.cls <;> simp only [hc, List.mem_append, List.not_mem_nil] at hx ⊢ <;> grind
  | attachRows p cs =>
    simp only [Bool.and_eq_true] at hpre
    simp only [Except.ok.injEq, Prod.mk.injEq] at hstep
    rw [← hstep.1]
    obtain ⟨pn, gp⟩ := get?_of_lt (has_iff.mp (hr p (by simp [Op.refs])))
    refine inv_attach (f := fun nd => { nd with rows := cs }) hinv gp ?_
      (attachables_of_pre (fun c hc => hr c (by simp [Op.refs, hc])) hpre.2)
      (free_iff.mp hpre.1.1) (notScan_iff.mp hpre.1.2 pn gp) (fun x hx => by simp [Node.allKids, hx])
    refine ⟨rfl, rfl, rfl, rfl, rfl, rfl, ?_, ?_⟩
    · intro x hx
      simp only [Node.allKids, List.mem_append] at hx ⊢
      grind
    · intro x hx
      unfold Node.kids at hx ⊢
      cases hc : pn.cls <;> simp only [hc, List.mem_append, List.not_mem_nil] at hx ⊢ <;> grind
  | setParentage p =>
    simp only [] at hstep
    cases hsp : setParentage (σ.size + 1) σ p with
    | error e => rw [hsp] at hstep; cases hstep
    | ok σ₁ =>
      rw [hsp] at hstep
      simp only [bind, Except.bind, pure, Except.pure, Except.ok.injEq, Prod.mk.injEq] at hstep
      rw [← hstep.1]
      exact (inv_setParentage _ _ _ _ hinv hsp).1
  | addType n ts =>
    simp only [Except.ok.injEq, Prod.mk.injEq] at hstep
    rw [← hstep.1]
    exact inv_upd_local (localChange_addType ts) (fun nd _ ht => typedNode_addType ts ht) hinv
  | removeType n ts =>
    simp only [Except.ok.injEq, Prod.mk.injEq] at hstep
    rw [← hstep.1]
    refine inv_upd_local (localChange_removeType ts) (fun nd g ht => typedNode_removeType ts ht ?_) hinv
    simp only [clsOf, g, Option.map_some] at hpre
    intro t ht hmem
    have := List.all_eq_true.mp hpre t ht
    simp [hmem] at this
  | hasType n t =>
    simp only [] at hstep
    cases hg : σ.get? n with
    | none => rw [hg] at hstep; cases hstep
    | some nd =>
      rw [hg] at hstep
      simp only [Except.ok.injEq, Prod.mk.injEq] at hstep
      rw [← hstep.1]; exact hinv
  | types n =>
    simp only [] at hstep
    cases hg : σ.get? n with
    | none => rw [hg] at hstep; cases hstep
    | some nd =>
      rw [hg] at hstep
      simp only [Except.ok.injEq, Prod.mk.injEq] at hstep
      rw [← hstep.1]; exact hinv
  | setFilename n v =>
    simp only [Except.ok.injEq, Prod.mk.injEq] at hstep
    rw [← hstep.1]
    exact inv_setMeta_other "filename" (.str v) hinv (by decide) (by decide) (by decide)
      (fun c => by cases c <;> decide)

/-! ### non-vacuity: a concrete history (word → line → region → scan, late add_child, tags) -/

private def A (i : String) : Args := { id := .str i, coords := some 1, text := some "a b" }

/-- scan `s` ⊃ region `r` ⊃ line `l` ⊃ word `w`; then a second line is added to `r` after the
    scan was built, tagged and untagged -/
private def demo : List Op :=
  [.mkWord (A "w"), .mkLine (A "l") [0], .mkRegion false (A "r") [1] [] [], .mkScan (A "s") [] [2] [] [] [],
   .mkLine (A "l2") [], .addChild 2 4 false, .addType 4 ["x"], .removeType 4 ["x"], .setParentage 3]

example : runPre Store.empty demo = true := by decide
example : (run Store.empty demo).toOption.isSome = true := by decide

private theorem demo_ok : ∃ σ, run Store.empty demo = .ok σ := by
  have ok : (run Store.empty demo).toOption.isSome = true := by decide
  cases h : run Store.empty demo with
  | error e => rw [h] at ok; cases ok
  | ok σ => exact ⟨σ, rfl⟩

/-- the step theorem applies to the late `add_child` of the demo history: its precondition
    holds in the store reached by the five operations before it -/
example : ∃ σ, run Store.empty (demo.take 5) = .ok σ ∧ Pre σ (.addChild 2 4 false) = true := by
  refine ⟨_, rfl, ?_⟩
  decide

/-! ### every history -/

theorem C02_init : Inv Store.empty := by
  have nog : ∀ n, Store.empty.get? n = none := fun n => by simp [Store.empty, Store.get?]
  refine ⟨?_, ⟨?_, ?_, ?_⟩, ?_, ?_⟩
  · intro p pn c g; rw [nog] at g; cases g
  · intro p q pn qn c g; rw [nog] at g; cases g
  · intro p pn c cn g; rw [nog] at g; cases g
  · intro p pn c g; rw [nog] at g; cases g
  · intro n nd _ g; rw [nog] at g; cases g
  · intro s sn n nn _ g; rw [nog] at g; cases g

example : Inv Store.empty := C02_init

/-- **Histories.**  From any store satisfying the invariant, a history all of whose operations
    meet the precondition ends in a store satisfying the invariant — for histories of any
    length over any number of objects. -/
theorem C02_run_preserves (ops : List Op) : ∀ (σ σ' : Store), Inv σ → runPre σ ops = true → run σ ops = .ok σ' → Inv σ' := by
  induction ops with
  | nil =>
    intro σ σ' h _ hr
    simp only [run, Except.ok.injEq] at hr
    rw [← hr]; exact h
  | cons op ops ih =>
    intro σ σ' h hp hr
    simp only [runPre, Bool.and_eq_true] at hp
    simp only [run] at hr
    cases hs : step σ op with
    | error e => rw [hs] at hr; cases hr
    | ok r =>
      obtain ⟨σ₁, o⟩ := r
      rw [hs] at hr hp
      exact ih σ₁ σ' (C02_step_preserves hp.1 h hs) hp.2 hr

/-- every store reachable from the empty world by a disciplined history satisfies the invariant -/
theorem C02_reachable (ops : List Op) (σ : Store) (hp : runPre Store.empty ops = true)
    (hr : run Store.empty ops = .ok σ) : Inv σ :=
  C02_run_preserves ops Store.empty σ C02_init hp hr

example : ∃ σ, run Store.empty demo = .ok σ ∧ Inv σ := by
  obtain ⟨σ, h⟩ := demo_ok
  exact ⟨σ, h, C02_reachable demo σ (by decide) h⟩

/-- **Clause 1 of the statement, spelled out.**  In a reachable store every element `c` that a
    container `p` lists among its pages / columns / extra / text regions / lines / words has
    `c.parent = p`, and `c.metadata` holds `parent_id = p.id`, `parent_type = <main type of p's class>`
    and `'<that type>_id' = p.id`. -/
theorem C02_linked (ops : List Op) (σ : Store) (hp : runPre Store.empty ops = true) (hr : run Store.empty ops = .ok σ)
    (p c : Nat) (pn : Node) (hpn : σ.get? p = some pn) (hc : c ∈ pn.kids) :
    ∃ cn, σ.get? c = some cn ∧ cn.parent = some p ∧
      mget cn.md "parent_id" = some pn.id ∧
      mget cn.md "parent_type" = some (.str pn.cls.mainType) ∧
      mget cn.md (pn.cls.mainType ++ "_id") = some pn.id := by
  have h := C02_reachable ops σ hp hr
  obtain ⟨pn', cn, g, gc, a, b, c', d⟩ := h.linked p pn c hpn hc trivial
  rw [hpn] at g
  cases g
  have ht := (h.typed p pn (fun f => f) hpn).1
  exact ⟨cn, gc, a, b, ht ▸ c', ht ▸ d⟩

example : ∃ σ cn, run Store.empty demo = .ok σ ∧ σ.get? 4 = some cn ∧ cn.parent = some 2 ∧
    mget cn.md "text_region_id" = some (.str "r") := by
  obtain ⟨σ, h⟩ := demo_ok
  have hn : ∃ pn, σ.get? 2 = some pn ∧ 4 ∈ pn.kids ∧ pn.cls = .region ∧ pn.id = .str "r" := by
    have : (run Store.empty demo).toOption.map (fun σ => (σ.get? 2).map (fun pn => (decide (4 ∈ pn.kids), pn.cls, pn.id)))
        = some (some (true, .region, .str "r")) := by decide
    rw [h] at this
    simp only [Except.toOption, Option.map_some, Option.some.injEq] at this
    cases g : σ.get? 2 with
    | none => rw [g] at this; cases this
    | some pn =>
      rw [g] at this
      simp only [Option.map_some, Option.some.injEq, Prod.mk.injEq, decide_eq_true_eq] at this
      exact ⟨pn, rfl, this.1, this.2.1, this.2.2⟩
  obtain ⟨pn, g, hk, hcls, hid⟩ := hn
  obtain ⟨cn, gc, a, _, _, d⟩ := C02_linked demo σ (by decide) h 2 4 pn g hk
  rw [hcls, hid] at d
  exact ⟨σ, cn, h, gc, a, d⟩

/-- **Clause 2: below a scan.**  In a reachable store every element below a scan — through text
    regions, pages, columns, lines, words or the table structure, at any depth, attached by a
    constructor or by a late `add_child` — records that scan's id as `scan_id`. -/
theorem C02_scan_tagged (ops : List Op) (σ : Store) (hp : runPre Store.empty ops = true) (hr : run Store.empty ops = .ok σ)
    (s n : Nat) (sn nn : Node) (hs : σ.get? s = some sn) (hscan : sn.cls = .scan) (hb : Below σ n s)
    (hn : σ.get? n = some nn) : mget nn.md "scan_id" = some sn.id :=
  (C02_reachable ops σ hp hr).scan s sn n nn (fun f => f) hs hscan hb hn

/-- an element sits below at most one scan, so the recorded scan id is unambiguous -/
theorem C02_scan_unique (ops : List Op) (σ : Store) (hp : runPre Store.empty ops = true) (hr : run Store.empty ops = .ok σ)
    (s r m : Nat) (sn rn : Node) (hs : σ.get? s = some sn) (hss : sn.cls = .scan) (hrn : σ.get? r = some rn)
    (hrs : rn.cls = .scan) (h₁ : Below σ m r) (h₂ : Below σ m s) : s = r :=
  Below.scan_unique (C02_reachable ops σ hp hr).shape hs hss hrn hrs h₁ h₂

example : ∃ σ nn, run Store.empty demo = .ok σ ∧ σ.get? 4 = some nn ∧ mget nn.md "scan_id" = some (.str "s") := by
  obtain ⟨σ, h⟩ := demo_ok
  have facts : ∃ sn rn nn, σ.get? 3 = some sn ∧ σ.get? 2 = some rn ∧ σ.get? 4 = some nn ∧ sn.cls = .scan ∧
      sn.id = .str "s" ∧ 2 ∈ sn.allKids ∧ 4 ∈ rn.allKids := by
    have : (run Store.empty demo).toOption.map (fun σ => ((σ.get? 3).map (fun x => (x.cls, x.id, decide (2 ∈ x.allKids))),
        (σ.get? 2).map (fun x => decide (4 ∈ x.allKids)), (σ.get? 4).isSome))
        = some (some (.scan, .str "s", true), some true, true) := by decide
    rw [h] at this
    simp only [Except.toOption, Option.map_some, Option.some.injEq, Prod.mk.injEq] at this
    obtain ⟨a, b, c⟩ := this
    cases g3 : σ.get? 3 with
    | none => rw [g3] at a; cases a
    | some sn =>
      cases g2 : σ.get? 2 with
      | none => rw [g2] at b; cases b
      | some rn =>
        cases g4 : σ.get? 4 with
        | none => rw [g4] at c; cases c
        | some nn =>
          rw [g3] at a; rw [g2] at b
          simp only [Option.map_some, Option.some.injEq, Prod.mk.injEq, decide_eq_true_eq] at a b
          exact ⟨sn, rn, nn, rfl, rfl, rfl, a.1, a.2.1, a.2.2, b⟩
  obtain ⟨sn, rn, nn, g3, g2, g4, hcls, hid, h2, h4⟩ := facts
  have hb : Below σ 4 3 := .step (.step (.refl 3) g3 h2) g2 h4
  have := C02_scan_tagged demo σ (by decide) h 3 4 sn nn g3 hcls hb g4
  rw [hid] at this
  exact ⟨σ, nn, h, g4, this⟩

/-- **Clause 3: types.**  Every element of a reachable store has the main type of its class, and
    its tag list has no duplicates and contains that main type and the three generic tags. -/
theorem C02_typed (ops : List Op) (σ : Store) (hp : runPre Store.empty ops = true) (hr : run Store.empty ops = .ok σ)
    (n : Nat) (nd : Node) (hn : σ.get? n = some nd) :
    nd.mainType = nd.cls.mainType ∧ nd.type.toList.Nodup ∧
      hasType nd.type nd.cls.mainType = true ∧ hasType nd.type "structure_doc" = true ∧
      hasType nd.type "physical_structure_doc" = true ∧ hasType nd.type "pagexml_doc" = true := by
  obtain ⟨h1, h2, h3⟩ := (C02_reachable ops σ hp hr).typed n nd (fun f => f) hn
  refine ⟨h1, h2, ?_, ?_, ?_, ?_⟩ <;> rw [hasType_iff] <;> apply h3 <;> simp [Cls.tags]

example : ∃ σ nd, run Store.empty demo = .ok σ ∧ σ.get? 3 = some nd ∧ hasType nd.type "pagexml_doc" = true := by
  obtain ⟨σ, h⟩ := demo_ok
  cases g : σ.get? 3 with
  | none =>
    have : (run Store.empty demo).toOption.map (fun σ => (σ.get? 3).isSome) = some true := by decide
    rw [h] at this
    simp [Except.toOption, g] at this
  | some nd => exact ⟨σ, nd, h, g, (C02_typed demo σ (by decide) h 3 nd g).2.2.2.2.2⟩

/-- the forest shape itself: one container per element, no scan below anything, no dangling ids -/
theorem C02_forest (ops : List Op) (σ : Store) (hp : runPre Store.empty ops = true) (hr : run Store.empty ops = .ok σ) :
    Shape σ := (C02_reachable ops σ hp hr).shape

example : ∃ σ, run Store.empty demo = .ok σ ∧ Shape σ := by
  obtain ⟨σ, h⟩ := demo_ok
  exact ⟨σ, h, C02_forest demo σ (by decide) h⟩

/-! ### type tags behave as a set -/

/-- adding is idempotent: a second `add_type` with the same tags changes nothing -/
theorem C02_add_idem (ty : PyType) (ts : List String) : addTypes (addTypes ty ts) ts = addTypes ty ts := by
  unfold addTypes
  congr 1
  show ts.foldl addOne (ts.foldl addOne ty.toList) = ts.foldl addOne ty.toList
  exact foldl_addOne_of_subset ts _ (fun t ht => (mem_foldl_addOne ts _ t).mpr (Or.inr ht))

example : addTypes (addTypes (.str "structure_doc") ["x", "y", "x"]) ["x", "y", "x"]
    = .list ["structure_doc", "x", "y"] := by decide

/-- after `add_type(ts)` exactly the old tags and `ts` are present -/
theorem C02_add_present (ty : PyType) (ts : List String) (t : String) :
    hasType (addTypes ty ts) t = true ↔ hasType ty t = true ∨ t ∈ ts := by
  rw [hasType_iff, hasType_iff, mem_toList_addTypes]

example : hasType (addTypes (.str "a") ["b"]) "b" = true := (C02_add_present _ _ _).mpr (Or.inr (by simp))

/-- removing makes the tag absent (for a duplicate-free tag list, which every reachable element has) -/
theorem C02_remove_absent (ty : PyType) (ts : List String) (t : String) (hn : ty.toList.Nodup) (ht : t ∈ ts) :
    hasType (removeTypes ty ts) t = false := by
  rw [Bool.eq_false_iff]
  intro h
  rw [hasType_iff, toList_removeTypes, mem_foldl_removeOne _ _ hn] at h
  exact h.2 ht

example : hasType (removeTypes (.list ["a", "b", "c"]) ["b"]) "b" = false :=
  C02_remove_absent _ _ _ (by decide) (by simp)

/-- the duplicate-freeness hypothesis is needed: `list.remove` deletes one occurrence only -/
theorem C02_remove_absent_needs_nodup : hasType (removeTypes (.list ["b", "b"]) ["b"]) "b" = true := by decide

example : hasType (removeTypes (.list ["b", "b"]) ["b"]) "b" = true := C02_remove_absent_needs_nodup

/-- removing leaves all other tags alone -/
theorem C02_remove_other (ty : PyType) (ts : List String) (t : String) (hn : ty.toList.Nodup) (ht : t ∉ ts) :
    hasType (removeTypes ty ts) t = hasType ty t := by
  rw [Bool.eq_iff_iff, hasType_iff, hasType_iff, toList_removeTypes, mem_foldl_removeOne _ _ hn]
  exact ⟨fun h => h.1, fun h => ⟨h, ht⟩⟩

example : hasType (removeTypes (.list ["a", "b", "c"]) ["b"]) "c" = true := by
  rw [C02_remove_other _ _ _ (by decide) (by simp)]; decide

/-- both operations keep the tag list duplicate-free -/
theorem C02_tags_nodup (ty : PyType) (ts : List String) (hn : ty.toList.Nodup) :
    (addTypes ty ts).toList.Nodup ∧ (removeTypes ty ts).toList.Nodup := by
  constructor
  · rw [toList_addTypes]; exact nodup_foldl_addOne _ _ hn
  · rw [toList_removeTypes]; exact nodup_foldl_removeOne _ _ hn

example : (addTypes (.str "a") ["a", "b", "b"]).toList.Nodup := (C02_tags_nodup _ _ (by simp [PyType.toList])).1

/-- `types` is a set: duplicate-free, and its members are exactly the tags `has_type` accepts -/
theorem C02_types_is_set (ty : PyType) :
    (typeSet ty).Nodup ∧ ∀ t, t ∈ typeSet ty ↔ hasType ty t = true := by
  unfold typeSet
  refine ⟨nodup_foldl_addOne _ _ List.nodup_nil, fun t => ?_⟩
  rw [mem_foldl_addOne, hasType_iff]
  simp

example : typeSet (.list ["a", "b", "a"]) = ["a", "b"] := by decide

/-- the tag algebra at the level of the store: after `add_type` on a reachable element the
    tags are present, a repeated `add_type` is a no-op on the whole store -/
theorem C02_addType_step (σ : Store) (n : Nat) (ts : List String) (nd : Node) (hn : σ.get? n = some nd) :
    ∃ nd', (σ.upd n (·.addType ts)).get? n = some nd' ∧ (∀ t ∈ ts, hasType nd'.type t = true) ∧
      (σ.upd n (·.addType ts)).upd n (·.addType ts) = σ.upd n (·.addType ts) := by
  refine ⟨nd.addType ts, by simp [hn], fun t ht => (C02_add_present _ _ _).mpr (Or.inr ht), ?_⟩
  apply upd_eq_self
  intro x g
  simp only [get?_upd, if_true, hn, Option.map_some, Option.some.injEq] at g
  subst g
  show ({ nd.addType ts with type := addTypes (addTypes nd.type ts) ts } : Node) = _
  rw [C02_add_idem]
  rfl

example : (run Store.empty [.mkWord (A "w"), .addType 0 ["x"]]).toOption.map (·.nodes) =
    (run Store.empty [.mkWord (A "w"), .addType 0 ["x"], .addType 0 ["x"]]).toOption.map (·.nodes) := by decide

/-- after `remove_type` on a reachable element the tags are absent -/
theorem C02_removeType_step (ops : List Op) (σ : Store) (hp : runPre Store.empty ops = true)
    (hr : run Store.empty ops = .ok σ) (n : Nat) (ts : List String) (nd : Node) (hn : σ.get? n = some nd) :
    ∃ nd', (σ.upd n (·.removeType ts)).get? n = some nd' ∧ ∀ t ∈ ts, hasType nd'.type t = false := by
  have hnd := ((C02_reachable ops σ hp hr).typed n nd (fun f => f) hn).2.1
  exact ⟨nd.removeType ts, by simp [hn], fun t ht => C02_remove_absent _ _ _ hnd ht⟩

example : ∃ σ nd, run Store.empty [.mkWord (A "w"), .addType 0 ["x"], .removeType 0 ["x"]] = .ok σ ∧
    σ.get? 0 = some nd ∧ hasType nd.type "x" = false ∧ hasType nd.type "word" = true := by
  refine ⟨_, _, rfl, rfl, ?_, ?_⟩ <;> decide

/-! ### fuel of the recursions over the object graph -/

/-
Full statement wanted (BUILDING.md: "fuel suffices is a theorem"):
    for every store reachable by a disciplined history, `set_scan_id` / `set_parentage` with the
    fuel `σ.size + 1` used by `step` never answer `.error RecursionError`.
Proved below: the recursion succeeds whenever the nesting depth below the start node is within
the fuel (`Height`).  Missing: that reachable stores have depth ≤ size — `Pre` does not exclude
`add_child` of an ancestor (which builds a cycle, on which CPython raises RecursionError too),
and the bound needs a counting argument over the forest.  All invariant theorems above are
conditional on `step … = .ok …`, so they do not depend on this.
-/
theorem C02_fuel_suffices_partial (σ : Store) (n f : Nat) (v : MVal) (h : Height σ n f) :
    (∃ σ', setScanId f σ n v = .ok σ') ∧ (Inv σ → ∃ σ', setParentage f σ n = .ok σ') :=
  ⟨setScanId_ok f σ n v h, fun hI => setParentage_ok f σ n hI h⟩

/-- a line holding a word: depth 2 below the line, so fuel 2 is enough (and 1 is not) -/
private def twoLevel : Store := ((run Store.empty [.mkWord (A "w"), .mkLine (A "l") [0]]).toOption.getD Store.empty)

example : Height twoLevel 1 2 := by
  have g1 : ∃ nd, twoLevel.get? 1 = some nd ∧ nd.allKids = [0] := by
    refine ⟨_, rfl, ?_⟩
    decide
  have g0 : ∃ nd, twoLevel.get? 0 = some nd ∧ nd.allKids = [] := by
    refine ⟨_, rfl, ?_⟩
    decide
  obtain ⟨n1, e1, k1⟩ := g1
  obtain ⟨n0, e0, k0⟩ := g0
  refine .mk e1 (fun c hc => ?_)
  rw [k1] at hc
  simp only [List.mem_singleton] at hc
  subst hc
  exact .mk e0 (fun c hc => by rw [k0] at hc; cases hc)

example : (setScanId 2 twoLevel 1 (.str "s")).toOption.isSome = true := by decide
example : (setScanId 1 twoLevel 1 (.str "s")).toOption.isSome = false := by decide

end Pagexml.C02
