/-
C01 — Parsing is lossless and order-preserving for the text hierarchy.

`Src` (typed source documents) --render--> `Xml` --toDict (= xmltodict.parse)--> `PyVal`
--parseScan (= pagexml/parser.py + the constructors)--> `Scan`, and `mirrorScan`, the
structural map that *is* the statement: same ids, text, points, baseline, confidence,
orientation, in document order per child kind; a region with neither coordinates nor
content skipped; scan id / size from the Page attributes; Metadata carried.

Text is compared after xmltodict's white-space stripping (`textVal`): this is the known
finding `C01:text-edge-whitespace`; `C01_text_exact` says when nothing is lost and
`C01_edge_whitespace_counterexample` exhibits the loss.
-/
import PagexmlModel.Lemmas.ScanParse

set_option linter.unusedSimpArgs false

namespace Pagexml.C01
open Pagexml.X Pagexml.Scan Pagexml.C05 Pagexml.C08
open Pagexml.C03 (Pt Coords)

/-- **Main theorem.** For every conformant source page — any nesting depth, any number of
    children per element, every optional part present or absent, either namespace,
    ReadingOrder before or after the regions — parsing the xmltodict value of its XML
    yields exactly the mirrored scan; in particular the parser does not raise. -/
theorem C01_parse_lossless (hull : List Pt → Res (List Pt)) (hullT : List Pt → List Pt) (fname : String)
    (p : SrcPage) (h : Conformant hull hullT p) :
    parseScan hull fname (toDictDoc (renderDoc p)) = .ok (mirrorScan hullT fname p) :=
  parseScan_render hull hullT fname p h

/-- no conformant document makes the parser raise -/
theorem C01_no_raise (hull : List Pt → Res (List Pt)) (hullT : List Pt → List Pt) (fname : String)
    (p : SrcPage) (h : Conformant hull hullT p) :
    ∃ s, parseScan hull fname (toDictDoc (renderDoc p)) = .ok s :=
  ⟨_, C01_parse_lossless hull hullT fname p h⟩

/-- every TextRegion, at any nesting depth: the parser returns the mirrored region
    (`none` exactly when the region has neither coordinates nor content) -/
theorem C01_region_lossless (hull : List Pt → Res (List Pt)) (hullT : List Pt → List Pt) (r : SrcRegion)
    (h : regionOk hull hullT r = true) :
    regionItem hull (toDict (renderRegion r)) = .ok (mirrorRegion hullT r) :=
  regionItem_render hull hullT r h

/-- every TextLine: id, text, points, baseline, confidence, x-height and all Word children in order -/
theorem C01_line_lossless (l : SrcLine) (h : lineOk l = true) :
    parseLine (toDict (renderLine l)) = .ok (mirrorLine l) :=
  parseLine_render l h

/-- every Word (with or without TextEquiv) -/
theorem C01_word_lossless (w : SrcWord) (h : w.coords ≠ []) :
    parseWord (toDict (renderWord w)) = .ok (mirrorWord w) :=
  parseWord_render w h

/-- the children of a kept region are the mirrored children, one for one and in document order -/
theorem C01_children_in_order (hullT : List Pt → List Pt) (id orientation custom : Option String)
    (coords : Option (List Pt)) (te : Option SrcTE) (lf : Bool) (lines : List SrcLine) (subs : List SrcRegion)
    (x : Region) (h : mirrorRegion hullT (.mk id orientation custom coords te lf lines subs) = some x) :
    x.id = id ∧ x.orientation = orientation ∧ x.lines = lines.map mirrorLine ∧
      x.subs = mirrorRegions hullT subs ∧ x.lines.length = lines.length ∧
      x.lines.map (·.id) = lines.map (·.id) ∧
      (∀ i (hi : i < lines.length), (x.lines[i]?).map (·.words.length) = some (lines[i].words.length)) := by
  simp only [mirrorRegion, mkRegionOpt] at h
  split at h
  · exact absurd h (by simp)
  · injection h with h
    subst h
    refine ⟨rfl, rfl, rfl, rfl, by simp [Region.lines], by simp [Region.lines, mirrorLine, Function.comp_def], ?_⟩
    intro i hi
    simp [Region.lines, hi, mirrorLine]

/-- a region is skipped exactly when it has no Coords, no lines, no kept sub-region and no text -/
theorem C01_skipped_iff (hullT : List Pt → List Pt) (id orientation custom : Option String)
    (coords : Option (List Pt)) (te : Option SrcTE) (lf : Bool) (lines : List SrcLine) (subs : List SrcRegion) :
    mirrorRegion hullT (.mk id orientation custom coords te lf lines subs) = none ↔
      coords = none ∧ lines = [] ∧ mirrorRegions hullT subs = [] ∧ mirrorTEText te = .none := by
  simp only [mirrorRegion, mkRegionOpt]
  constructor
  · intro h
    split at h
    · next hc =>
      simp only [Bool.and_eq_true, decide_eq_true_eq, List.isEmpty_iff, Option.isNone_iff_eq_none] at hc
      obtain ⟨⟨⟨hcs, hl⟩, hs⟩, ht⟩ := hc
      refine ⟨?_, by simpa using hl, hs, ht⟩
      cases coords with
      | none => rfl
      | some ps => simp [regionCoords] at hcs
    · cases h
  · rintro ⟨rfl, rfl, hs, ht⟩
    simp [hs, ht, regionCoords]

/-- a region without Coords takes the hull of ALL its kept sub-regions and lines that have
    coordinates (sub-regions first), whichever child kind comes first in the file -/
theorem C01_derived_from_all_children (hullT : List Pt → List Pt) (id orientation custom : Option String)
    (te : Option SrcTE) (lines : List SrcLine) (subs : List SrcRegion) :
    mirrorRegion hullT (.mk id orientation custom none te true lines subs)
      = mirrorRegion hullT (.mk id orientation custom none te false lines subs) ∧
    (∀ x, mirrorRegion hullT (.mk id orientation custom none te true lines subs) = some x →
      x.coords = (let all := (mirrorRegions hullT subs).map (·.coords) ++ (lines.map mirrorLine).map (·.coords)
                  if (all.filterMap _root_.id).isEmpty then none else some (derived hullT all))) := by
  refine ⟨by simp [mirrorRegion], ?_⟩
  intro x hx
  simp only [mirrorRegion, mkRegionOpt] at hx
  split at hx
  · exact absurd hx (by simp)
  · injection hx with hx
    subst hx
    rfl

/-! ### the shape of xmltodict values (the dict-vs-list cases are proof cases, not samples) -/

/-- the children of one tag become one entry: one child ↦ its value, several ↦ the list of the
    values in document order (`collapse`); a tag without children has no entry -/
theorem C01_toDict_shape (t : String) (attrs : List (String × String)) (k : String) (xs others : List Xml)
    (hx : ∀ x ∈ xs, x.tag = k) (ho : ∀ x ∈ others, x.tag = "Other") (hk : k ≠ "Other")
    (hk' : k.toList.head? ≠ some '@') (hne : xs ≠ []) :
    toDict (.elem t attrs "" (others ++ xs)) =
      .dict (attrEntries attrs ++ groupEntry "Other" (others.map toDict) ++ [(k, collapse (xs.map toDict))]) ∧
    (∀ x, collapse [toDict x] = toDict x) ∧
    (∀ x y r, collapse (toDict x :: toDict y :: r) = .list (toDict x :: toDict y :: r)) := by
  refine ⟨?_, fun _ => rfl, fun _ _ _ => rfl⟩
  have e : others ++ xs = [("Other", others), (k, xs)].flatMap (·.2) := by simp
  rw [e, toDict_groups]
  · have hne' : xs.map toDict ≠ [] := by simpa using hne
    have hg : groupEntry k (xs.map toDict) = [(k, collapse (xs.map toDict))] := by
      unfold groupEntry
      cases hxs : xs.map toDict with
      | nil => exact absurd hxs hne'
      | cons _ _ => rfl
    simp [groupsEntries, hg]
  · intro g hg x hxm
    simp at hg
    rcases hg with rfl | rfl
    · exact ho x hxm
    · exact hx x hxm
  · simp [Ne.symm hk]
  · intro g hg
    simp at hg
    rcases hg with rfl | rfl
    · simp
    · exact hk'

/-- a text-only element is its stripped text (or `None`); an empty element is `None` -/
theorem C01_toDict_text (t x : String) :
    toDict (.elem t [] x []) = (if X.strip x = "" then .none else .str (X.strip x)) := by
  rw [toDict_text]; rfl

/-! ### white space at the edges of a text node -/

/-- text without leading/trailing white space that is not empty is carried over unchanged -/
theorem C01_text_exact (t : String) (hne : t ≠ "")
    (hh : ∀ c, t.toList.head? = some c → isPySpace c = false)
    (hl : ∀ c, t.toList.getLast? = some c → isPySpace c = false) : textVal t = .str t := by
  have hs : stripChars t.toList = t.toList := by
    have hne' : t.toList ≠ [] := by
      intro e; apply hne
      have : String.ofList t.toList = String.ofList [] := by rw [e]
      simpa using this
    unfold stripChars
    cases hcs : t.toList with
    | nil => exact absurd hcs hne'
    | cons c cs =>
      have h1 : dropSpace (c :: cs) = c :: cs := by simp [dropSpace, hh c (by rw [hcs]; rfl)]
      rw [h1]
      cases hrev : (c :: cs).reverse with
      | nil => simp at hrev
      | cons d ds =>
        have hd : (c :: cs).getLast? = some d := by
          rw [List.getLast?_eq_head?_reverse, hrev]; rfl
        have h2 : dropSpace (d :: ds) = d :: ds := by simp [dropSpace, hl d (by rw [hcs]; exact hd)]
        rw [h2, ← hrev, List.reverse_reverse]
  have : X.strip t = t := by simp [X.strip, hs]
  simp [textVal, this, hne]

/-- KNOWN FINDING `C01:text-edge-whitespace`: a line whose Unicode text is `" ab "` parses with
    text `"ab"` — the text in the file is not the text of the parsed line -/
theorem C01_edge_whitespace_counterexample :
    ∃ l : SrcLine, lineOk l = true ∧ (∃ te, l.te = some te ∧ te.unicode = " ab ") ∧
      (parseLine (toDict (renderLine l))).map (·.text) = .ok (.str "ab") := by
  refine ⟨{ id := some "l1", custom := none, xheight := none, coords := [(0, 0), (10, 5)], baseline := none,
            te := some { conf := none, plain := none, unicode := " ab " }, words := [] }, by decide,
          ⟨_, rfl, rfl⟩, ?_⟩
  rw [parseLine_render _ (by decide)]
  decide

/-- … and a white-space-only text parses as `None` -/
theorem C01_blank_text_counterexample :
    mirrorTEText (some { conf := none, plain := none, unicode := " \n\t " }) = .none := by decide

/-! ### non-vacuity -/

/-- a three-level nested page: single- and multi-child lists, a region without Coords,
    an empty region that is skipped, a reading order — with the identity as hull routine -/
def examplePage : SrcPage :=
  let te (t : String) : SrcTE := { conf := some "0.5", plain := none, unicode := t }
  let line (i : String) (t : String) : SrcLine :=
    { id := some i, custom := none, xheight := none, coords := [(0, 0), (10, 0), (10, 5)], baseline := some [(0, 4), (10, 4)],
      te := some (te t), words := [{ id := some (i ++ "w"), custom := none, coords := [(0, 0), (4, 4)], te := some (te "w") },
                                    { id := none, custom := none, coords := [(5, 0), (9, 4)], te := none }] }
  let inner : SrcRegion := .mk (some "r1.1.1") none none (some [(1, 1), (2, 2), (1, 2)]) none true [line "l3" "deep"] []
  let mid : SrcRegion := .mk (some "r1.1") (some "90.0") none none none false [line "l2" "mid & <x>"] [inner]
  let empty : SrcRegion := .mk (some "r1.2") none none none none true [] []
  let top : SrcRegion := .mk (some "r1") none (some "structure {type:paragraph;}") (some [(0, 0), (100, 0), (100, 100)])
    (some (te "region text")) true [line "l1a" "first", line "l1b" "second"] [mid, empty]
  let second : SrcRegion := .mk (some "r2") none none (some [(0, 200), (50, 250)]) none true [] []
  { ns2019 := true, mdata := some { creator := some "me", created := some "2020-01-02T03:04:05", lastChange := none, comments := some "12" },
    imageFilename := some "img.jpg", width := 100, height := 300, roFirst := false,
    ro := .ordered "og" none [(10, "r1"), (9, "r2")], regions := [top, second], tables := [] }

example : Conformant (fun pts => .ok pts) id examplePage := by
  refine ⟨by decide, rfl⟩

example : ((parseScan (fun pts => .ok pts) "f.xml"
      (toDictDoc (renderDoc { examplePage with ro := .absent }))).map
    (fun s => (s.id, s.regions.map (·.id), s.getLines.map (·.id)))) =
    .ok ("img.jpg", [some "r1", some "r2"], [some "l3", some "l2", some "l1a", some "l1b"]) := by
  rw [C01_parse_lossless (fun pts => .ok pts) id "f.xml" _ ⟨by decide, rfl⟩]
  decide

example : regionOk (fun pts => .ok pts) id
    (.mk none none none none none true [] [.mk (some "b") none none none none true [] []]) = true := by decide

example : lineOk { id := none, custom := none, xheight := some (-2), coords := [(3, 4)], baseline := none,
                   te := some { conf := some "", plain := some "p", unicode := "" }, words := [] } = true := by decide

example : (⟨none, none, [(1, 2)], none⟩ : SrcWord).coords ≠ [] := by decide

example : textVal "a b" = .str "a b" :=
  C01_text_exact "a b" (by decide) (by intro c h; simp at h; subst h; decide) (by intro c h; simp at h; subst h; decide)

end Pagexml.C01
