/-
C14 — The line format round-trips and the line reader is source-independent.
Property theorems only; helper lemmas live in Lemmas/C14Group, C14Tsv, C14Rebuild, C14Routes.
All theorems quantify over unbounded lists of documents / rows / files.
-/
import PagexmlModel.Lemmas.C14Group
import PagexmlModel.Lemmas.C14Routes
import PagexmlModel.Lemmas.C14Tree
import PagexmlModel.Lemmas.C14Consts

namespace Pagexml.C14
open Pagexml.C03

/-- what the theorems need of Python's `str.isspace` (used by `header_line.strip()`): the
    newline is whitespace, the characters of the seven column names are not -/
structure SpaceOK (isSpace : Char → Bool) : Prop where
  nl : isSpace '\n' = true
  names : ∀ h ∈ columnNames, ∀ c ∈ h, isSpace c = false

private theorem headerOK_of_sub {isSpace : Char → Bool} (hsp : SpaceOK isSpace) (hs : List Str)
    (hne : hs ≠ []) (hsub : ∀ h ∈ hs, h ∈ columnNames) : HeaderOK isSpace hs :=
  ⟨hne, fun h hh => ⟨(consts_column_names_clean h (hsub h hh)).1, (consts_column_names_clean h (hsub h hh)).2,
    hsp.names h (hsub h hh)⟩⟩

/-! ### the regenerated string tables

The default header lists of the model are the ones of the source (Generated/C14.lean).  The theorems
below hold for every such list; what they need of the lists the source has NOW are these obligations,
each decided on the regenerated tables (Lemmas/C14Consts.lean). -/

/-- vocabulary: the record of `get_line_format_json` has the keys doc id, region id, line id, text
    (+ the three boxes with `add_bounding_box`), in this order -/
theorem C14_consts_record_keys :
    Generated.C14.recordKeys = baseHeaders ∧ Generated.C14.recordBoxKeys = boxHeaders := consts_record_keys

/-- vocabulary: `read_pagexml_docs_from_line_file` looks up exactly the seven column names -/
theorem C14_consts_rebuild_keys :
    Generated.C14.rebuildKeys = [sDocId, sRegionId, sLineId, sText] ∧
    Generated.C14.rebuildBoxKeys = [sDocBox, sRegionBox, sLineBox] := consts_rebuild_keys

/-- the column names are non-empty and free of tab, CR, LF -/
theorem C14_consts_column_names_clean : ∀ h ∈ columnNames, h ≠ [] ∧ CleanStr h := consts_column_names_clean

/-- … and of ASCII whitespace -/
theorem C14_consts_column_names_no_ascii_space :
    ∀ h ∈ columnNames, ∀ c ∈ h, c ∉ [' ', '\t', '\n', '\r', Char.ofNat 11, Char.ofNat 12] :=
  consts_column_names_no_ascii_space

/-- … and pairwise different -/
theorem C14_consts_column_names_nodup : columnNames.Nodup := consts_column_names_nodup

/-- the reader's default columns are the keys of a record, in some order (with and without boxes) -/
theorem C14_consts_reader_default_perm : ∀ bbox : Bool, (defaultHeaders bbox).Perm (recKeys bbox) :=
  consts_reader_default_perm

/-- the writer's default columns are keys of a record with boxes; there is at least one -/
theorem C14_consts_writer_default_sub : allHeaders ≠ [] ∧ ∀ h ∈ allHeaders, h ∈ recKeys true :=
  consts_writer_default_sub

/-- every key looked up when rebuilding documents is a column the writer writes by default -/
theorem C14_consts_rebuild_keys_in_writer_default :
    ∀ k ∈ Generated.C14.rebuildKeys ++ Generated.C14.rebuildBoxKeys, k ∈ allHeaders :=
  consts_rebuild_keys_in_writer_default

/-- the writer's default columns are the reader's default columns with boxes, in the same order -/
theorem C14_consts_writer_default_eq_reader_default : allHeaders = defaultHeaders true :=
  consts_writer_default_eq_reader_default

/-- no default header list names a column twice -/
theorem C14_consts_default_headers_nodup : allHeaders.Nodup ∧ ∀ bbox : Bool, (defaultHeaders bbox).Nodup :=
  consts_default_headers_nodup

/-- the older three-column format: tab between the fields, newline after a record -/
theorem C14_consts_legacy_separators :
    Generated.C14.legacySepAfterDocId = ['\t'] ∧ Generated.C14.legacySepAfterLineId = ['\t'] ∧
    Generated.C14.legacyLineEnd = ['\n'] := consts_legacy_separators

/-! ### grouping -/

/-- **Grouping by any key yields consecutive maximal runs whose concatenation is the ungrouped
    stream** — for every key function, every initial `prev_id`, every stream. -/
theorem C14_group_concat {α κ : Type} [DecidableEq κ] (key : α → κ) (init : κ) (xs : List α) :
    (groupRuns key init xs).flatten = xs ∧ RunsOK key (groupRuns key init xs) :=
  ⟨by simpa [groupRuns] using groupAux_flatten key [] init xs, groupRuns_runsOK key init xs⟩

/-- … and the decomposition is the only one: grouping the concatenation of maximal runs gives
    exactly these runs back. -/
theorem C14_group_unique {α κ : Type} [DecidableEq κ] (key : α → κ) (init : κ)
    (runs : List (List α)) (h : RunsOK key runs) : groupRuns key init runs.flatten = runs :=
  groupRuns_of_runs key init runs h

/-- the reader's `groupby` on records whose key is present: same statement through `groupRecs` -/
theorem C14_group_records (g : Str) (recs : List Rec) (hkey : ∀ r ∈ recs, ∃ v, lookupKey g r = .ok v) :
    ∃ groups, groupRecs g (recs.map .ok) = .ok groups ∧ groups.flatten = recs ∧ RunsOK (keyOf g) groups := by
  have hm : (recs.map (.ok : Rec → Res Rec)).mapM (fun r => do let r ← r; let _ ← lookupKey g r; pure r) = .ok recs := by
    induction recs with
    | nil => rfl
    | cons r rs ih =>
      obtain ⟨v, hv⟩ := hkey r (by simp)
      have ih' := ih (fun x hx => hkey x (by simp [hx]))
      simp only [bind, Except.bind, pure, Except.pure] at ih'
      simp only [List.map_cons, List.mapM_cons, bind, Except.bind, hv, pure, Except.pure, ih']
  refine ⟨groupRuns (keyOf g) none recs, ?_, (C14_group_concat _ _ _).1, (C14_group_concat _ _ _).2⟩
  unfold groupRecs
  rw [hm]; rfl

/-! ### bounding boxes -/

/-- **The box string of any box with non-negative width and height reads back as the same
    box** (and as the four corners of that box). -/
theorem C14_bbox_roundtrip (b : Box) (hw : 0 ≤ b.w) (hh : 0 ≤ b.h) :
    ∃ c, transformBox (bboxString b) = .ok c ∧ boxOfCoords c = b ∧
      c.points = [(b.x, b.y), (b.x + b.w, b.y), (b.x + b.w, b.y + b.h), (b.x, b.y + b.h)] :=
  ⟨rect b, transformBox_bboxString b ⟨hw, hh⟩, rfl, rfl⟩

/-- every coordinates object (C03: built from a non-empty point list) has such a box, so the
    box of *every* element with coordinates survives `get_bbox` / `transform_box_to_coords` -/
theorem C14_bbox_roundtrip_coords (ps : List Pt) (hne : ps ≠ []) :
    ∃ c c', mkCoords ps = .ok c ∧ transformBox (bboxString (boxOfCoords c)) = .ok c' ∧
      boxOfCoords c' = boxOfCoords c := by
  obtain ⟨c, hc, hbox⟩ := C03_exact_box ps hne
  obtain ⟨c', h1, h2, _⟩ := C14_bbox_roundtrip (boxOfCoords c) hbox.width_nonneg hbox.height_nonneg
  exact ⟨c, c', hc, h1, h2⟩

/-! ### the tab-separated text -/

/-- **Rows written to line files read back unchanged**, for all rows whose fields contain no
    tab, CR or LF (leading / trailing blanks, empty fields, any other character included),
    over any number of files, in the three header modes of the reader:
    header line in every file (skipped in the later files), explicitly supplied headers on
    headerless files (whatever `has_headers` says), default headers on headerless files. -/
theorem C14_tsv_roundtrip (isSpace : Char → Bool) (hnl : isSpace '\n' = true) (hs : List Str)
    (hok : HeaderOK isSpace hs) (files : List (List (List Str)))
    (hrows : ∀ rows ∈ files, ∀ row ∈ rows, RowOK hs row) (bbox hasHeaders : Bool) :
    (files ≠ [] →
      collect (iterFromLineFile isSpace (files.map (fun rows => encodeTsv (some hs) rows)) true none bbox) =
        .ok (files.flatten.map (fun row => hs.zip row))) ∧
    collect (iterFromLineFile isSpace (files.map (fun rows => encodeTsv none rows)) hasHeaders (some hs) bbox) =
      .ok (files.flatten.map (fun row => hs.zip row)) ∧
    (hs = defaultHeaders bbox →
      collect (iterFromLineFile isSpace (files.map (fun rows => encodeTsv none rows)) false none bbox) =
        .ok (files.flatten.map (fun row => hs.zip row))) := by
  refine ⟨?_, ?_, ?_⟩
  · intro hne
    rw [iter_header_in_file isSpace hnl hs hok files hne hrows bbox, collect_ok]
  · rw [iter_supplied isSpace hs files hrows hasHeaders bbox, collect_ok]
  · intro e
    subst e
    rw [iter_default isSpace files bbox hrows, collect_ok]

/-! ### the three routes -/

/-- **The line reader yields identical records whether it is fed in-memory documents or line
    files** written from them (several files, outer / inner region ids, bounding-box columns
    on / off, header in the file / explicit headers / default headers), a missing text reading
    back as the empty string; and the PageXML-file route is by definition the in-memory route
    on the parsed documents.
    `split` is the list of document chunks, one line file per chunk; the documents are
    `split.flatten`. Hypothesis: ids and texts of what is written contain no tab, CR, LF.
    `hs` is the reader's default header list AS THE SOURCE HAS IT (regenerated); a record read from
    a file lists its entries in the order of `hs` (`asRead hs r`), and it is the same dictionary as
    the in-memory record: the same entries (`List.Perm`; the keys are pairwise different).  When
    `hs` is in the records' own key order — as it is now — the records are equal as lists too
    (`C14_routes_agree_same_order`).  Needs of the tables: `C14_consts_reader_default_perm`. -/
theorem C14_routes_agree (isSpace : Char → Bool) (hsp : SpaceOK isSpace) (outer bbox hasHeaders : Bool)
    (split : List (List Region)) (hne : split ≠ [])
    (hclean : ∀ d ∈ split.flatten, CleanDoc outer d) :
    let hs := defaultHeaders bbox
    let docs := split.flatten
    let mem := docs.flatMap (records outer bbox)
    let file (header : Bool) (chunk : List Region) :=
      encodeTsv (if header then some hs else none) (rowsOfDocs hs outer bbox chunk)
    let back := mem.map (fun r => (asRead hs r).toRec)
    -- the writer produces `file true chunk` for every chunk
    (∀ chunk ∈ split, makeLineFormatFile (some hs) outer bbox chunk = .ok (file true chunk)) ∧
    -- in-memory route
    collect (readerIter isSpace [] hasHeaders none outer bbox [] docs) = .ok mem ∧
    -- line-file route, header read from the files
    collect (readerIter isSpace (split.map (file true)) true none outer bbox [] []) = .ok back ∧
    -- line-file route, headerless files with explicit headers
    collect (readerIter isSpace (split.map (file false)) hasHeaders (some hs) outer bbox [] []) = .ok back ∧
    -- line-file route, headerless files with the default headers
    collect (readerIter isSpace (split.map (file false)) false none outer bbox [] []) = .ok back ∧
    -- the records read back are the in-memory records (None ↦ ''): the same entries
    (∀ r ∈ mem, (asRead hs r).Perm (Rec.norm r)) ∧
    -- PageXML-file route = in-memory route on the parsed documents
    readerIter isSpace [] hasHeaders none outer bbox docs [] =
      readerIter isSpace [] hasHeaders none outer bbox [] (docs.map Region.xmlNorm) := by
  intro hs docs mem file back
  have hsne : hs ≠ [] := defaultHeaders_ne_nil bbox
  have hok : HeaderOK isSpace hs := headerOK_of_sub hsp hs hsne
    (fun h hh => recKeys_sub_columnNames bbox h (defaultHeaders_sub bbox h hh))
  have hrows : ∀ rows ∈ split.map (rowsOfDocs hs outer bbox), ∀ row ∈ rows, RowOK hs row := by
    intro rows hr
    obtain ⟨chunk, hc, rfl⟩ := List.mem_map.mp hr
    exact rowsOfDocs_ok hs hsne outer bbox chunk
      (fun d hd => hclean d (List.mem_flatten.mpr ⟨chunk, hc, hd⟩))
  have hdec : ((split.map (rowsOfDocs hs outer bbox)).flatten.map (fun row => hs.zip row)).map DRec.toRec =
      back := by
    rw [rowsOfDocs_flatten]
    simp only [rowsOfDocs, List.map_map, back, mem, docs]
    apply List.map_congr_left
    intro r _
    simp only [Function.comp, zip_map_self, asRead]
  have hfiles : ∀ b : Bool, split.map (file b) =
      (split.map (rowsOfDocs hs outer bbox)).map (fun rows => encodeTsv (if b then some hs else none) rows) := by
    intro b; simp [file, List.map_map, Function.comp_def]
  have hnonempty : ∀ b : Bool, (split.map (file b)).isEmpty = false := by
    intro b; cases split with
    | nil => exact absurd rfl hne
    | cons c cs => rfl
  obtain ⟨t1, t2, t3⟩ := C14_tsv_roundtrip isSpace hsp.nl hs hok (split.map (rowsOfDocs hs outer bbox))
    hrows bbox hasHeaders
  have lift : ∀ (s : LStream DRec) (out : List DRec), collect s = .ok out →
      collect (s.map (fun x => x.map DRec.toRec) ++ [] ++ []) = .ok (out.map DRec.toRec) := by
    intro s
    unfold collect
    induction s with
    | nil => intro out h; cases h; rfl
    | cons a s ih =>
      intro out h
      cases a with
      | error e => simp [List.mapM_cons, bind, Except.bind] at h
      | ok v =>
        simp only [List.mapM_cons, id, bind, Except.bind] at h
        cases hs' : List.mapM id s with
        | error e => rw [hs'] at h; simp at h
        | ok vs =>
          rw [hs'] at h
          cases h
          have := ih vs hs'
          simp only [List.append_nil, List.map_cons, List.mapM_cons, id, Except.map, bind, Except.bind] at this ⊢
          rw [this]; rfl
  refine ⟨?_, ?_, ?_, ?_, ?_, ?_, ?_⟩
  · intro chunk _
    exact makeLineFormatFile_eq hs outer bbox chunk (defaultHeaders_sub bbox)
  · simp only [readerIter, List.isEmpty_nil, if_true, List.map_nil, List.flatMap_nil, List.nil_append]
    exact collect_ok mem
  · simp only [readerIter, hnonempty, Bool.false_eq_true, if_false, List.map_nil, List.flatMap_nil]
    rw [← hdec]
    apply lift
    rw [hfiles true]
    exact t1 (by simpa using hne)
  · simp only [readerIter, hnonempty, Bool.false_eq_true, if_false, List.map_nil, List.flatMap_nil]
    rw [← hdec]
    apply lift
    rw [hfiles false]
    exact t2
  · simp only [readerIter, hnonempty, Bool.false_eq_true, if_false, List.map_nil, List.flatMap_nil]
    rw [← hdec]
    apply lift
    rw [hfiles false]
    exact t3 rfl
  · intro r hr
    rw [List.mem_flatMap] at hr
    obtain ⟨d, _, hr⟩ := hr
    obtain ⟨tr, _, l, _, rfl⟩ := mem_records hr
    exact asRead_perm_mkRec hs bbox (consts_reader_default_perm bbox) d tr l
  · simp [readerIter]

/-- when the reader's default header list is in the records' own key order (the order of the dict
    display of `get_line_format_json`), the records read back equal the in-memory records
    (None ↦ '') entry by entry, in order -/
theorem C14_routes_agree_same_order (outer bbox : Bool) (hord : defaultHeaders bbox = recKeys bbox)
    (docs : List Region) :
    ∀ r ∈ docs.flatMap (records outer bbox), asRead (defaultHeaders bbox) r = Rec.norm r := by
  intro r hr
  rw [List.mem_flatMap] at hr
  obtain ⟨d, _, hr⟩ := hr
  obtain ⟨tr, _, l, _, rfl⟩ := mem_records hr
  rw [hord]
  exact asRead_recKeys_mkRec bbox d tr l

/-- a record read back under any header list holds, for every column of the list, the value of the
    in-memory record (None ↦ '') -/
theorem C14_asRead_lookup (hs : List Str) (r : Rec) (k : Str) (hk : k ∈ hs) :
    lookupKey k (asRead hs r) = .ok (fieldOf r k) :=
  lookupKey_map_self hs (fieldOf r) k hk

/-- the same with **any explicit column order or subset**: writing with a header list `hs` (any
    non-empty list of keys of the records, `recKeys bbox`) and reading the files back — by their header line or
    with `hs` supplied explicitly on headerless files — yields, for every record of the in-memory
    route, the record restricted to `hs`, None ↦ '' -/
theorem C14_routes_agree_explicit_headers (isSpace : Char → Bool) (hsp : SpaceOK isSpace)
    (outer bbox hasHeaders : Bool) (hs : List Str) (hsne : hs ≠ [])
    (hsub : ∀ h ∈ hs, h ∈ recKeys bbox)
    (split : List (List Region)) (hne : split ≠ [])
    (hclean : ∀ d ∈ split.flatten, CleanDoc outer d) :
    let mem := split.flatten.flatMap (records outer bbox)
    let want : List DRec := mem.map (fun r => hs.map (fun h => (h, fieldOf r h)))
    (∀ chunk ∈ split, makeLineFormatFile (some hs) outer bbox chunk =
      .ok (encodeTsv (some hs) (rowsOfDocs hs outer bbox chunk))) ∧
    collect (iterFromLineFile isSpace
      (split.map (fun c => encodeTsv (some hs) (rowsOfDocs hs outer bbox c))) true none bbox) = .ok want ∧
    collect (iterFromLineFile isSpace
      (split.map (fun c => encodeTsv none (rowsOfDocs hs outer bbox c))) hasHeaders (some hs) bbox) = .ok want := by
  intro mem want
  have hok : HeaderOK isSpace hs :=
    headerOK_of_sub hsp hs hsne (fun h hh => recKeys_sub_columnNames bbox h (hsub h hh))
  have hrows : ∀ rows ∈ split.map (rowsOfDocs hs outer bbox), ∀ row ∈ rows, RowOK hs row := by
    intro rows hr
    obtain ⟨chunk, hc, rfl⟩ := List.mem_map.mp hr
    exact rowsOfDocs_ok hs hsne outer bbox chunk
      (fun d hd => hclean d (List.mem_flatten.mpr ⟨chunk, hc, hd⟩))
  have hdec : (split.map (rowsOfDocs hs outer bbox)).flatten.map (fun row => hs.zip row) = want := by
    rw [rowsOfDocs_flatten]
    simp only [rowsOfDocs, List.map_map, want, mem]
    apply List.map_congr_left
    intro r _
    simp only [Function.comp, zip_map_self]
  obtain ⟨t1, t2, _⟩ := C14_tsv_roundtrip isSpace hsp.nl hs hok (split.map (rowsOfDocs hs outer bbox))
    hrows bbox hasHeaders
  refine ⟨fun chunk _ => makeLineFormatFile_eq hs outer bbox chunk hsub, ?_, ?_⟩
  · have := t1 (by simpa using hne)
    rw [hdec] at this
    simpa [List.map_map, Function.comp_def] using this
  · rw [hdec] at t2
    simpa [List.map_map, Function.comp_def] using t2

/-- **What the writer writes by default reads back by default**: line files written with
    `headers=None` and bounding boxes, their header line dropped, and read with no header
    information at all (`has_headers=False`, no headers supplied, `add_bounding_box=True`) yield
    the in-memory records (None ↦ ''), whatever `isspace` is.
    Needs of the tables: `C14_consts_writer_default_eq_reader_default` (the two default lists of the
    source are the same list), `C14_consts_reader_default_perm`. -/
theorem C14_default_headers_agree (isSpace : Char → Bool) (outer : Bool)
    (split : List (List Region)) (hclean : ∀ d ∈ split.flatten, CleanDoc outer d) :
    let mem := split.flatten.flatMap (records outer true)
    (∀ chunk ∈ split, makeLineFormatFile none outer true chunk =
      .ok (encodeTsv (some allHeaders) (rowsOfDocs allHeaders outer true chunk))) ∧
    collect (iterFromLineFile isSpace
      (split.map (fun c => encodeTsv none (rowsOfDocs allHeaders outer true c))) false none true) =
        .ok (mem.map (asRead (defaultHeaders true))) ∧
    ∀ r ∈ mem, (asRead (defaultHeaders true) r).Perm (Rec.norm r) := by
  intro mem
  have e : allHeaders = defaultHeaders true := consts_writer_default_eq_reader_default
  refine ⟨fun chunk _ => makeLineFormatFile_eq allHeaders outer true chunk consts_writer_default_sub.2, ?_, ?_⟩
  · rw [e]
    have hrows : ∀ rows ∈ split.map (rowsOfDocs (defaultHeaders true) outer true), ∀ row ∈ rows,
        RowOK (defaultHeaders true) row := by
      intro rows hr
      obtain ⟨chunk, hc, rfl⟩ := List.mem_map.mp hr
      exact rowsOfDocs_ok _ (defaultHeaders_ne_nil true) outer true chunk
        (fun d hd => hclean d (List.mem_flatten.mpr ⟨chunk, hc, hd⟩))
    have hfiles : split.map (fun c => encodeTsv none (rowsOfDocs (defaultHeaders true) outer true c)) =
        (split.map (rowsOfDocs (defaultHeaders true) outer true)).map (fun rows => encodeTsv none rows) := by
      simp [List.map_map, Function.comp_def]
    rw [hfiles, iter_default isSpace _ true hrows, collect_ok, rowsOfDocs_flatten]
    simp only [rowsOfDocs, List.map_map, mem]
    refine congrArg Except.ok (List.map_congr_left ?_)
    intro r _
    simp only [Function.comp, zip_map_self, asRead]
  · intro r hr
    rw [List.mem_flatMap] at hr
    obtain ⟨d, _, hr⟩ := hr
    obtain ⟨tr, _, l, _, rfl⟩ := mem_records hr
    exact asRead_perm_mkRec _ true (consts_reader_default_perm true) d tr l

/-- the fields of the four base columns do not depend on whether the record carries boxes -/
private theorem fieldOf_mkRec_base (d tr : Region) (l : Line) (h : Str) (hh : h ∈ baseHeaders) :
    fieldOf (mkRec true d tr l) h = fieldOf (mkRec false d tr l) h := by
  simp only [baseHeaders, List.mem_cons, List.not_mem_nil, or_false] at hh
  rcases hh with rfl | rfl | rfl | rfl <;>
    simp [fieldOf, mkRec, lookupKey, sDocId, sRegionId, sLineId, sText]

private theorem zip_map_append_self {α β} (l : List α) (f : α → β) (m : List β) :
    l.zip (l.map f ++ m) = l.map (fun a => (a, f a)) := by
  induction l with
  | nil => simp
  | cons a as ih => simp [ih]

/-- **A line file with the box columns, read without them**, yields the records of the in-memory
    route without boxes: files written with the writer's default columns (`headers=None`, bounding
    boxes on), their header line dropped, and read either with no header information and
    `add_bounding_box=False` or with the reader's four default columns supplied explicitly (whatever
    `has_headers` says) yield, for every line, the record `get_line_format_json(…, add_bounding_box=False)`
    yields for it (None ↦ ''), in the reader's column order — the surplus columns of each row are
    ignored, the text column is not extended by them.
    Needs of the tables: `C14_consts_writer_default_extends_reader_default` (the writer's default
    columns start with the reader's default columns), `C14_consts_reader_default_perm`. -/
theorem C14_read_without_box_columns (isSpace : Char → Bool) (outer hasHeaders : Bool)
    (split : List (List Region)) (hclean : ∀ d ∈ split.flatten, CleanDoc outer d) :
    let files := split.map (fun c => encodeTsv none (rowsOfDocs allHeaders outer true c))
    let want := (split.flatten.flatMap (records outer false)).map (asRead (defaultHeaders false))
    collect (iterFromLineFile isSpace files false none false) = .ok want ∧
    collect (iterFromLineFile isSpace files hasHeaders (some (defaultHeaders false)) false) = .ok want := by
  intro files want
  obtain ⟨ex, hex⟩ := consts_writer_default_extends_reader_default
  have hlen : (defaultHeaders false).length ≤ allHeaders.length := by rw [hex]; simp
  have hrows : ∀ rows ∈ split.map (rowsOfDocs allHeaders outer true), ∀ row ∈ rows,
      RowOK (defaultHeaders false) row := by
    intro rows hr row hrow
    obtain ⟨chunk, hc, rfl⟩ := List.mem_map.mp hr
    obtain ⟨h1, h2, h3⟩ := rowsOfDocs_ok allHeaders consts_writer_default_sub.1 outer true chunk
      (fun d hd => hclean d (List.mem_flatten.mpr ⟨chunk, hc, hd⟩)) row hrow
    exact ⟨h1, le_trans hlen h2, h3⟩
  have hfiles : files =
      (split.map (rowsOfDocs allHeaders outer true)).map (fun rows => encodeTsv none rows) := by
    simp [files, List.map_map, Function.comp_def]
  have hbase : ∀ h ∈ defaultHeaders false, h ∈ baseHeaders := by
    intro h hh
    have := (consts_reader_default_perm false).subset hh
    simpa [recKeys] using this
  have hdec : (split.map (rowsOfDocs allHeaders outer true)).flatten.map
      (fun row => (defaultHeaders false).zip row) = want := by
    rw [rowsOfDocs_flatten]
    simp only [rowsOfDocs, want, records, List.map_map, List.map_flatMap]
    refine flatMap_congr' _ _ _ (fun d _ => flatMap_congr' _ _ _ (fun tr _ => ?_))
    refine List.map_congr_left (fun l _ => ?_)
    simp only [Function.comp, asRead, hex, List.map_append, zip_map_append_self]
    exact List.map_congr_left (fun h hh => by rw [fieldOf_mkRec_base d tr l h (hbase h hh)])
  refine ⟨?_, ?_⟩
  · rw [hfiles, iter_default isSpace _ false hrows, collect_ok, hdec]
  · rw [hfiles, iter_supplied isSpace _ _ hrows hasHeaders false, collect_ok, hdec]

/-- the writer's default columns start with the reader's default columns without boxes -/
theorem C14_consts_writer_default_extends_reader_default :
    ∃ ex, allHeaders = defaultHeaders false ++ ex := consts_writer_default_extends_reader_default

/-! ### rebuilding documents -/

/-- **Documents rebuilt from the line files are the documents written**: for every list of
    documents split over any number of files (written with their bounding boxes and the default
    columns, as `make_line_format_file` does), `read_pagexml_docs_from_line_file` returns, in
    order, one scan per document of which a line was written (`plan`), with the document's id
    and box, one text region per written region id (in order), and in it the lines with their
    ids, texts (None ↦ '') and boxes — `expDoc ∘ planDoc`, spelled out in `C14_rebuild_faithful`.
    Hypotheses (`RebuildOK`): every written element has coordinates; consecutive written
    regions of a document, and consecutive documents, have different ids.
    `allHeaders` is the writer's default header list AS THE SOURCE HAS IT (regenerated), in whatever
    order.  Needs of the tables: `C14_consts_writer_default_sub` (the default columns are keys of a
    record) and `C14_consts_rebuild_keys_in_writer_default` (the keys the loop looks up are written). -/
theorem C14_rebuild (isSpace : Char → Bool) (hsp : SpaceOK isSpace) (outer : Bool)
    (split : List (List Region)) (hne : split ≠ [])
    (hclean : ∀ d ∈ split.flatten, CleanDoc outer d) (hok : RebuildOK outer split.flatten) :
    let file := fun chunk => encodeTsv (some allHeaders) (rowsOfDocs allHeaders outer true chunk)
    (∀ chunk ∈ split, makeLineFormatFile none outer true chunk = .ok (file chunk)) ∧
    rebuildDocs isSpace (split.map file) true none true = .ok ((plan outer split.flatten).map expDoc) := by
  intro file
  have hsne : allHeaders ≠ [] := consts_writer_default_sub.1
  have hsub : ∀ h ∈ allHeaders, h ∈ recKeys true := consts_writer_default_sub.2
  have hcols : HasColumns allHeaders := columnNames_sub_allHeaders
  have hhok : HeaderOK isSpace allHeaders := headerOK_of_sub hsp allHeaders hsne
    (fun h hh => recKeys_sub_columnNames true h (hsub h hh))
  have hrows : ∀ rows ∈ split.map (rowsOfDocs allHeaders outer true), ∀ row ∈ rows, RowOK allHeaders row := by
    intro rows hr
    obtain ⟨chunk, hc, rfl⟩ := List.mem_map.mp hr
    exact rowsOfDocs_ok allHeaders hsne outer true chunk
      (fun d hd => hclean d (List.mem_flatten.mpr ⟨chunk, hc, hd⟩))
  refine ⟨fun chunk _ => makeLineFormatFile_eq allHeaders outer true chunk hsub, ?_⟩
  unfold rebuildDocs
  have hfiles : split.map file =
      (split.map (rowsOfDocs allHeaders outer true)).map (fun rows => encodeTsv (some allHeaders) rows) := by
    simp [file, List.map_map, Function.comp_def]
  have hnonempty : (split.map file).isEmpty = false := by
    cases split with
    | nil => exact absurd rfl hne
    | cons c cs => rfl
  simp only [hnonempty, Bool.false_eq_true, if_false]
  rw [hfiles, iter_header_in_file isSpace hsp.nl allHeaders hhok _ (by simpa using hne) hrows true]
  have hdec : (split.map (rowsOfDocs allHeaders outer true)).flatten.map (fun row => allHeaders.zip row) =
      (split.flatten.flatMap (records outer true)).map (asRead allHeaders) := by
    rw [rowsOfDocs_flatten]
    simp only [rowsOfDocs, List.map_map]
    apply List.map_congr_left
    intro r _
    simp only [Function.comp, zip_map_self, asRead]
  rw [hdec, docs_records_norm_eq_plan allHeaders outer _ hok.1]
  have := rebuild_plan hcols (plan outer split.flatten) (plan_ok outer _ hok) hok.2.2 none
    (by intro c d hc; cases hc)
  simpa using this

/-- what `expDoc (planDoc outer d)` is, field by field (d's written elements having boxes) -/
theorem C14_rebuild_faithful (outer : Bool) (d : Region) (hb : BoxesOK outer d) :
    let rd := expDoc (planDoc outer d)
    rd.id = d.id ∧ rd.coords.map boxOfCoords = d.box ∧
    -- one region per written region id, in order
    rd.regions.map (·.id) = (lineRegions outer d).map (·.id) ∧
    -- the lines of every region: ids, texts (None ↦ ''), boxes
    rd.regions.map (fun r => r.lines.map (fun l => (l.id, l.text, l.coords.map boxOfCoords))) =
      (lineRegions outer d).map (fun tr => tr.allLines.map (fun l => (l.id, l.text.getD [], l.box))) := by
  obtain ⟨⟨db, hdb, _⟩, htrs⟩ := hb
  refine ⟨rfl, by simp [expDoc, planDoc, hdb, boxOfCoords_rect], ?_, ?_⟩
  · simp [expDoc, planDoc, expRegion, toRItem, List.map_map, Function.comp_def]
  · simp only [expDoc, planDoc, expRegion, toRItem, expLine, toLItem, List.map_map, Function.comp_def]
    apply List.map_congr_left
    intro tr htr
    apply List.map_congr_left
    intro l hl
    have htr' : tr ∈ writtenRegions outer d := (List.mem_filter.mp htr).1
    obtain ⟨lb, hlb, _⟩ := (htrs tr htr').2 l hl
    simp [hlb, boxOfCoords_rect]

/-- which documents come back: those of which at least one line was written, in order -/
theorem C14_rebuild_docs (outer : Bool) (docs : List Region) :
    plan outer docs = (docs.filter (fun d => !(lineRegions outer d).isEmpty)).map (planDoc outer) := by
  unfold plan
  induction docs with
  | nil => rfl
  | cons d ds ih =>
    by_cases h : (lineRegions outer d).isEmpty
    · simp [planDoc, ih, List.isEmpty_iff.mp h]
    · have : ((lineRegions outer d).map toRItem).isEmpty = false := by
        cases hl : lineRegions outer d with
        | nil => simp [hl] at h
        | cons a as => rfl
      simp [planDoc, h, this, ih]

/-- **same line and word counts as the original**, for documents in which every region holds
    either lines or sub-regions: the written regions list every line of the document once -/
theorem C14_rebuild_counts (outer : Bool) (d : Region) (h : d.eitherOr = true) :
    (expDoc (planDoc outer d)).numLines = d.numLines ∧
    (expDoc (planDoc outer d)).numWords = d.numWords := by
  obtain ⟨h1, h2⟩ := expDoc_counts outer d
  rw [lineRegions_lines outer d h] at h1 h2
  exact ⟨h1, h2⟩

/-- the hypothesis `CleanDoc` of the theorems above is what the property's quantifier says:
    it holds for every document all of whose ids and texts are free of tab, CR and LF -/
theorem C14_clean_documents (outer : Bool) (d : Region) (h : d.AllClean) : CleanDoc outer d :=
  cleanDoc_of_allClean outer d h

/-! ### non-vacuity: concrete, non-trivial values meeting the hypotheses -/

private def exLine1 : Line := ⟨"l1".toList, some " a b ".toList, some ⟨1, 2, 30, 0⟩⟩
private def exLine2 : Line := ⟨"l2".toList, none, some ⟨1, 20, 30, 10⟩⟩
private def exLine3 : Line := ⟨"l3".toList, some "é".toList, some ⟨5, 40, 3, 10⟩⟩
private def exDoc : Region :=
  .mk "scan 1".toList (some ⟨0, 0, 100, 100⟩) []
    [.mk "r1".toList (some ⟨0, 0, 40, 60⟩) []
       [.mk "r1a".toList (some ⟨0, 0, 40, 30⟩) [exLine1, exLine2] [],
        .mk "r1b".toList (some ⟨0, 30, 40, 30⟩) [] []],
     .mk "r2".toList (some ⟨50, 0, 40, 60⟩) [exLine3] []]
private def exSpace (c : Char) : Bool := c = ' ' || c = '\n' || c = '\t' || c = '\r'

/-! decidable checkers for the hypotheses, so that the examples can be closed by evaluation -/
private def cleanStrB (s : Str) : Bool := !s.contains '\t' && !s.contains '\n' && !s.contains '\r'

private theorem cleanStr_of_B {s : Str} (h : cleanStrB s = true) : CleanStr s := by
  simp only [cleanStrB, Bool.and_eq_true, Bool.not_eq_true', List.contains_eq_mem, decide_eq_false_iff_not] at h
  exact ⟨h.1.1, h.1.2, h.2⟩

private def cleanDocB (outer : Bool) (d : Region) : Bool :=
  cleanStrB d.id && (writtenRegions outer d).all (fun tr => cleanStrB tr.id && tr.allLines.all (fun l =>
    cleanStrB l.id && (match l.text with | none => true | some t => cleanStrB t)))

private theorem cleanDoc_of_B {outer : Bool} {d : Region} (h : cleanDocB outer d = true) : CleanDoc outer d := by
  simp only [cleanDocB, Bool.and_eq_true, List.all_eq_true] at h
  refine ⟨cleanStr_of_B h.1, fun tr htr => ⟨cleanStr_of_B (h.2 tr htr).1, fun l hl => ?_⟩⟩
  have := (h.2 tr htr).2 l hl
  refine ⟨cleanStr_of_B this.1, fun t ht => ?_⟩
  rw [ht] at this
  exact cleanStr_of_B this.2

private def boxB : Option Box → Bool
  | some b => decide (0 ≤ b.w) && decide (0 ≤ b.h)
  | none => false

private theorem box_of_B {b : Option Box} (h : boxB b = true) : ∃ b', b = some b' ∧ b'.NonNeg := by
  cases b with
  | none => simp [boxB] at h
  | some b' => simp only [boxB, Bool.and_eq_true, decide_eq_true_eq] at h; exact ⟨b', rfl, h⟩

private def boxesB (outer : Bool) (d : Region) : Bool :=
  boxB d.box && (writtenRegions outer d).all (fun tr => boxB tr.box && tr.allLines.all (fun l => boxB l.box))

private theorem boxesOK_of_B {outer : Bool} {d : Region} (h : boxesB outer d = true) : BoxesOK outer d := by
  simp only [boxesB, Bool.and_eq_true, List.all_eq_true] at h
  exact ⟨box_of_B h.1, fun tr htr => ⟨box_of_B (h.2 tr htr).1, fun l hl => box_of_B ((h.2 tr htr).2 l hl)⟩⟩

private def adjB : List Str → Bool
  | [] => true
  | [_] => true
  | a :: b :: rest => decide (a ≠ b) && adjB (b :: rest)

private theorem adjNe_of_B : ∀ {l : List Str}, adjB l = true → AdjNe l
  | [], _ => trivial
  | [_], _ => trivial
  | a :: b :: rest, h => by
    simp only [adjB, Bool.and_eq_true, decide_eq_true_eq] at h
    exact ⟨h.1, adjNe_of_B h.2⟩

private def exDoc2 : Region :=
  .mk "scan 2".toList (some ⟨0, 0, 50, 50⟩) [⟨"m1".toList, some "x".toList, some ⟨1, 1, 5, 5⟩⟩] []

example : groupRuns (fun n : Nat => n / 10) 0 [1, 2, 11, 12, 3] = [[1, 2], [11, 12], [3]] := by decide
example : RunsOK (fun n : Nat => n / 10) [[1, 2], [11, 12], [3]] := by
  simp [RunsOK]
example : transformBox (bboxString ⟨-3, 7, 0, 12⟩) = .ok (rect ⟨-3, 7, 0, 12⟩) := by decide
private theorem exSpaceOK : SpaceOK exSpace := ⟨by decide, by decide⟩
example : SpaceOK exSpace := exSpaceOK
example : HeaderOK exSpace columnNames ∧ RowOK columnNames ["d".toList, " r ".toList, [], " x  y ".toList, [], [], "1,2,3,4".toList] := by
  refine ⟨⟨by decide, ?_⟩, by decide, by decide, ?_⟩
  · intro h hh
    exact ⟨(consts_column_names_clean h hh).1, (consts_column_names_clean h hh).2, exSpaceOK.names h hh⟩
  · intro f hf
    simp only [List.mem_cons, List.not_mem_nil, or_false] at hf
    rcases hf with rfl | rfl | rfl | rfl | rfl | rfl | rfl <;> refine ⟨?_, ?_, ?_⟩ <;> decide
example : exDoc.allStrings.length = 10 ∧ exDoc.eitherOr = true ∧ (records false true exDoc).length = 3 ∧ (records true false exDoc).length = 3 := by
  decide
example : (lineRegions false exDoc).map (·.id) = ["r1a".toList, "r2".toList] ∧
    (plan false [exDoc, exDoc]).length = 2 := by decide
/-- the hypotheses of `C14_routes_agree` / `C14_rebuild` hold for a two-file split of nested
    documents with a missing text, edge blanks, a non-ASCII text and a flat line box -/
private theorem exHyps : (∀ d ∈ [exDoc, exDoc2], CleanDoc false d) ∧ RebuildOK false [exDoc, exDoc2] := by
  refine ⟨?_, ?_, ?_, ?_⟩
  · intro d hd
    simp only [List.mem_cons, List.not_mem_nil, or_false] at hd
    rcases hd with rfl | rfl <;> exact cleanDoc_of_B (by decide)
  · intro d hd
    simp only [List.mem_cons, List.not_mem_nil, or_false] at hd
    rcases hd with rfl | rfl <;> exact boxesOK_of_B (by decide)
  · intro d hd
    simp only [List.mem_cons, List.not_mem_nil, or_false] at hd
    rcases hd with rfl | rfl <;> exact adjNe_of_B (by decide)
  · exact adjNe_of_B (by decide)
example : (∀ d ∈ [exDoc, exDoc2], CleanDoc false d) ∧ RebuildOK false [exDoc, exDoc2] := exHyps
/-- `C14_rebuild` at these documents, one file each, written with the writer's default columns
    whatever they are NOW (no evaluation of the regenerated tables) -/
example : rebuildDocs exSpace [encodeTsv (some allHeaders) (rowsOfDocs allHeaders false true [exDoc]),
      encodeTsv (some allHeaders) (rowsOfDocs allHeaders false true [exDoc2])] true none true =
    .ok ((plan false [exDoc, exDoc2]).map expDoc) ∧
    ((plan false [exDoc, exDoc2]).map expDoc).map (fun d => (d.numLines, d.numWords)) = [(3, 5), (1, 1)] := by
  refine ⟨?_, by decide⟩
  have h := (C14_rebuild exSpace exSpaceOK false [[exDoc], [exDoc2]] (by simp)
    (by simpa using exHyps.1) (by simpa using exHyps.2)).2
  simpa using h
/-- the same by evaluation of the model, the files written with the seven column names in the
    statement's order and in reverse order -/
example : rebuildDocs exSpace [encodeTsv (some columnNames) (rowsOfDocs columnNames false true [exDoc]),
      encodeTsv (some columnNames) (rowsOfDocs columnNames false true [exDoc2])] true none true =
    .ok ((plan false [exDoc, exDoc2]).map expDoc) ∧
    rebuildDocs exSpace [encodeTsv (some columnNames.reverse) (rowsOfDocs columnNames.reverse false true [exDoc, exDoc2])]
      true none true = .ok ((plan false [exDoc, exDoc2]).map expDoc) := by
  decide

end Pagexml.C14
