/-
C09 — Derived coordinates are the children's convex hull; area follows the points.
Property theorems only.  Qhull is a parameter (`he : HullEdges`, the function computed by
`points_to_hull_edges`); everything the repo does with its answer is proved for all inputs, and the
answer itself is checked per sampled call by `HullCert`, whose soundness is `C09_cert_sound`.
-/
import PagexmlModel.Model.C09
import PagexmlModel.Lemmas.C09Area
import PagexmlModel.Lemmas.C09Cert
import PagexmlModel.Lemmas.C09Walk
import PagexmlModel.Lemmas.C09Collinear
import PagexmlModel.Lemmas.C09Unique
import PagexmlModel.Props.C03
import PagexmlModel.Model.C09Rows
import PagexmlModel.Lemmas.C08Grid
import Mathlib.Data.List.Rotate
import Mathlib.Tactic.LinearCombination
import Mathlib.Tactic.Tauto

namespace Pagexml.C09
open Pagexml.C03 (Pt Coords mkCoords ExactBox C03_exact_box)

/-! ### (a) the walk over the edge dict -/

private theorem lookup_some_mem_keys (e : Edges) (p : Pt) (ns : List Pt) (h : e.lookup p = some ns) :
    p ∈ keys e := by
  obtain ⟨l1, l2, rfl, _⟩ := List.lookup_eq_some_iff.mp h
  simp [keys]

private theorem walk_core (e : Edges) (m x : Pt) (rest : List Pt)
    (hnd : (m :: x :: rest).Nodup) (hkl : (keys e).length = (m :: x :: rest).length)
    (hm_key : m ∈ keys e) (hmin : ∀ k ∈ keys e, ptLt k m = false)
    (hfirst : (nbrs e m).head? = some x) (hpath : Path e m x rest) :
    edgesToHullPoints (keys e).length e = .ok (m :: x :: rest) := by
  obtain ⟨tl, htl⟩ := List.head?_eq_some_iff.mp hfirst
  have hxm : x ≠ m := by
    intro h; subst h; simp at hnd
  unfold edgesToHullPoints
  cases hk : keys e with
  | nil => rw [hk] at hm_key; cases hm_key
  | cons k ks =>
    have hmk : minPt k ks = m := minPt_unique k ks m (hk ▸ hm_key) (fun q hq => hmin q (hk ▸ hq))
    simp only [hmk, List.length_cons]
    have hn : ks.length + 1 = rest.length + 2 := by
      have := hkl; rw [hk] at this; simpa using this
    have hfn : firstNew (nbrs e m) [m] = some x := by
      simp [firstNew, htl, hxm]
    have hlt : ¬ ks.length + 1 ≤ [m].length := by
      simp only [List.length_singleton]; omega
    simp only [walk, hlt, if_false, hfn]
    have := walk_path e (ks.length + 1) rest [m, x] m x ks.length hpath (by simp) (by simp)
      (by simpa using hnd) (by rw [hn]; simp) (by omega)
    simpa using this

private theorem cycleDict_unpack (e : Edges) (d : List Pt) (hc : cycleDict e d = true) :
    3 ≤ d.length ∧ d.Nodup ∧ (keys e).length = d.length ∧
    (∀ t ∈ ctriples d, Nb e t.1 t.2.1 t.2.2) ∧ (∀ t ∈ ctriples d, t.2.1 ∈ keys e) := by
  simp only [cycleDict, Bool.and_eq_true, decide_eq_true_eq, List.all_eq_true, Bool.or_eq_true,
    nodupB_iff] at hc
  obtain ⟨⟨⟨⟨hlen, hnd⟩, _hkn⟩, hkl⟩, htr⟩ := hc
  refine ⟨hlen, hnd, hkl, ?_, ?_⟩
  · intro t ht
    rcases htr t ht with h | h
    · exact Or.inl (by simp [nbrs, h])
    · exact Or.inr (by simp [nbrs, h])
  · intro t ht
    rcases htr t ht with h | h <;> exact lookup_some_mem_keys e _ _ h

/-- If the dict is a single cycle through `m :: x :: rest` (the executable check `cycleDict`: every
    node's neighbours are exactly its cyclic predecessor and successor, in either insertion order),
    `m` is the smallest key and `x` is the first neighbour of `m` in insertion order, then the
    `while` loop of `edges_to_hull_points` terminates within `#nodes` iterations and returns the
    cycle listed from `m` in the direction of `x`. -/
theorem C09_walk_terminates_ordered (e : Edges) (m x : Pt) (rest : List Pt)
    (hc : cycleDict e (m :: x :: rest) = true)
    (hmin : ∀ k ∈ keys e, ptLt k m = false)
    (hfirst : (nbrs e m).head? = some x) :
    edgesToHullPoints (keys e).length e = .ok (m :: x :: rest) := by
  obtain ⟨_, hnd, hkl, hnb, hkeys⟩ := cycleDict_unpack e _ hc
  have hpath : Path e m x rest :=
    path_of_ltriples e rest m x (fun t ht => hnb t (ltriples_sub_ctriples m x rest t ht))
  exact walk_core e m x rest hnd hkl (hkeys _ (last_corner_mem m x rest)) hmin hfirst hpath

/-- Whatever the insertion order of the dict: if it is a single cycle through `m :: tl` and `m` is the
    smallest key, the walk terminates within `#nodes` iterations and lists the cycle from `m`, in one of
    the two directions (the one of `m`'s first neighbour). -/
theorem C09_walk_lists_cycle (e : Edges) (m : Pt) (tl : List Pt)
    (hc : cycleDict e (m :: tl) = true) (hmin : ∀ k ∈ keys e, ptLt k m = false) :
    edgesToHullPoints (keys e).length e = .ok (m :: tl) ∨
    edgesToHullPoints (keys e).length e = .ok (m :: tl.reverse) := by
  obtain ⟨hlen, hnd, hkl, hnb, hkeys⟩ := cycleDict_unpack e _ hc
  cases tl with
  | nil => simp at hlen
  | cons x rest =>
    have hcorner := last_corner_mem m x rest
    have hm_key := hkeys _ hcorner
    rcases hnb _ hcorner with h | h
    · -- first neighbour of `m` is the last node: the walk goes round the other way
      right
      obtain ⟨y, rest', hrev⟩ : ∃ y rest', (x :: rest).reverse = y :: rest' := by
        cases hr : (x :: rest).reverse with
        | nil => simp at hr
        | cons y r => exact ⟨y, r, rfl⟩
      have hy : (x :: rest).getLast (by simp) = y := by
        have : x :: rest = rest'.reverse ++ [y] := by
          have := congrArg List.reverse hrev; simpa using this
        simp [this]
      have hfirst : (nbrs e m).head? = some y := by
        simp only [] at h; rw [h, hy]; rfl
      rw [hrev]
      have hpath : Path e m y rest' := by
        apply path_of_ltriples
        intro t ht
        have e1 : m :: y :: rest' = ((x :: rest) ++ [m]).reverse := by simp [← hrev]
        rw [e1] at ht
        have h2 := ltriples_reverse _ t ht
        have h3 : (t.2.2, t.2.1, t.1) ∈ ctriples (m :: x :: rest) := by
          rw [← mem_ctriples_rot1]
          show _ ∈ ctriples ((x :: rest) ++ [m])
          cases rest with
          | nil => exact ltriples_sub_ctriples x m [] _ h2
          | cons b r => exact ltriples_sub_ctriples x b (r ++ [m]) _ h2
        exact (hnb _ h3).symm
      have hnd' : (m :: y :: rest').Nodup := by
        rw [← hrev]
        simp only [List.nodup_cons, List.mem_reverse, List.nodup_reverse] at hnd ⊢
        exact hnd
      have hkl' : (keys e).length = (m :: y :: rest').length := by
        rw [hkl, ← hrev]; simp
      exact walk_core e m y rest' hnd' hkl' hm_key hmin hfirst hpath
    · left
      have hfirst : (nbrs e m).head? = some x := by
        simp only [] at h; rw [h]; rfl
      have hpath : Path e m x rest :=
        path_of_ltriples e rest m x (fun t ht => hnb t (ltriples_sub_ctriples m x rest t ht))
      exact walk_core e m x rest hnd hkl hm_key hmin hfirst hpath

/-- the same square with the neighbours of the start node inserted in the other order: other direction -/
example : edgesToHullPoints 4
    [((0, 0), [(0, 1), (1, 0)]), ((1, 0), [(0, 0), (1, 1)]), ((1, 1), [(1, 0), (0, 1)]), ((0, 1), [(0, 0), (1, 1)])]
    = .ok [(0, 0), (0, 1), (1, 1), (1, 0)] :=
  (C09_walk_lists_cycle
    [((0, 0), [(0, 1), (1, 0)]), ((1, 0), [(0, 0), (1, 1)]), ((1, 1), [(1, 0), (0, 1)]), ((0, 1), [(0, 0), (1, 1)])]
    (0, 0) [(1, 0), (1, 1), (0, 1)] (by decide) (by decide)).resolve_left (by decide)

/-- the 4-cycle Qhull returns for the unit square, in the dict order the code builds -/
example : edgesToHullPoints 4
    [((0, 0), [(1, 0), (0, 1)]), ((1, 0), [(0, 0), (1, 1)]), ((1, 1), [(1, 0), (0, 1)]), ((0, 1), [(0, 0), (1, 1)])]
    = .ok [(0, 0), (1, 0), (1, 1), (0, 1)] :=
  C09_walk_terminates_ordered
    [((0, 0), [(1, 0), (0, 1)]), ((1, 0), [(0, 0), (1, 1)]), ((1, 1), [(1, 0), (0, 1)]), ((0, 1), [(0, 0), (1, 1)])]
    (0, 0) (1, 0) [(1, 1), (0, 1)] (by decide) (by decide) (by decide)

/-- An iteration of the `while` loop that finds no unvisited neighbour changes nothing, so the Python
    loop never ends: the model runs out of fuel whatever the fuel. -/
theorem C09_walk_diverges_when_stuck (e : Edges) (n fuel : Nat) (vis : List Pt) (c : Pt)
    (hlt : vis.length < n) (hstuck : firstNew (nbrs e c) vis = none) :
    walk e n fuel vis c = .error .OutOfFuel := by
  induction fuel with
  | zero => simp [walk]; omega
  | succ f ih =>
    have : ¬ n ≤ vis.length := by omega
    simp only [walk, this, if_false, hstuck]
    exact ih

/-- two disjoint 2-cycles: not a single cycle, the walk is stuck after two nodes -/
example : walk [((0, 0), [(1, 1)]), ((1, 1), [(0, 0)]), ((5, 5), [(6, 6)]), ((6, 6), [(5, 5)])] 4 1000
    [(0, 0), (1, 1)] (1, 1) = .error .OutOfFuel :=
  C09_walk_diverges_when_stuck _ 4 1000 _ _ (by decide) (by decide)

/-! ### (b) the certificate checker is sound -/

/-- `p` is on the inner side of, or on, every edge of the polygon `vs` traversed with orientation `s` -/
def InsideOrOn (s : Int) (p : Pt) (vs : List Pt) : Prop := ∀ ed ∈ cedges vs, 0 ≤ s * cross ed.1 ed.2 p

/-- `vs` lists the boundary of a convex polygon once, with orientation `s`: every corner turns strictly
    the same way and every edge's line has all vertices on its inner side (each edge is a supporting line) -/
def BoundaryOrdered (s : Int) (vs : List Pt) : Prop :=
  (s = 1 ∨ s = -1) ∧ 3 ≤ vs.length ∧ vs.Nodup ∧
  (∀ t ∈ ctriples vs, 0 < s * cross t.1 t.2.1 t.2.2) ∧ ∀ v ∈ vs, InsideOrOn s v vs

private theorem box_eq_of_cycle {s : Int} {pts vs : List Pt} (h : ConvexCycle s pts vs) :
    ∃ cv cp, mkCoords vs = .ok cv ∧ mkCoords pts = .ok cp ∧ cv.box = cp.box := by
  have hne : vs ≠ [] := by intro e; have := h.len; simp [e] at this
  have hnp : pts ≠ [] := by
    obtain ⟨v, hv⟩ := List.exists_mem_of_ne_nil vs hne
    exact List.ne_nil_of_mem (h.sub v hv)
  obtain ⟨cv, hcv, bv⟩ := C03_exact_box vs hne
  obtain ⟨cp, hcp, bp⟩ := C03_exact_box pts hnp
  refine ⟨cv, cp, hcv, hcp, ?_⟩
  have hl : cv.left = cp.left := by
    apply le_antisymm
    · obtain ⟨p, hp, e⟩ := bp.left_attained
      obtain ⟨v, hv, hle⟩ := h.support 1 0 p hp
      have := bv.left_le v hv
      simp only [lin] at hle; omega
    · obtain ⟨v, hv, e⟩ := bv.left_attained
      have := bp.left_le v (h.sub v hv); omega
  have hr : cv.right = cp.right := by
    apply le_antisymm
    · obtain ⟨v, hv, e⟩ := bv.right_attained
      have := bp.right_ge v (h.sub v hv); omega
    · obtain ⟨p, hp, e⟩ := bp.right_attained
      obtain ⟨v, hv, hle⟩ := h.support (-1) 0 p hp
      have := bv.right_ge v hv
      simp only [lin] at hle; omega
  have ht : cv.top = cp.top := by
    apply le_antisymm
    · obtain ⟨p, hp, e⟩ := bp.top_attained
      obtain ⟨v, hv, hle⟩ := h.support 0 1 p hp
      have := bv.top_le v hv
      simp only [lin] at hle; omega
    · obtain ⟨v, hv, e⟩ := bv.top_attained
      have := bp.top_le v (h.sub v hv); omega
  have hb : cv.bottom = cp.bottom := by
    apply le_antisymm
    · obtain ⟨v, hv, e⟩ := bv.bottom_attained
      have := bp.bottom_ge v (h.sub v hv); omega
    · obtain ⟨p, hp, e⟩ := bp.bottom_attained
      obtain ⟨v, hv, hle⟩ := h.support 0 (-1) p hp
      have := bv.bottom_ge v hv
      simp only [lin] at hle; omega
  rw [bv.box_eq, bp.box_eq, hl, hr, ht, hb]

/-- Soundness of the checker the driver runs on every hull the library returns: an accepted vertex
    list consists of input points, without repetition, lists the boundary of a strictly convex polygon
    in order, has no input point outside it, and has exactly the bounding box of the input points. -/
theorem C09_cert_sound (pts vs : List Pt) (h : HullCert pts vs = true) :
    (∀ v ∈ vs, v ∈ pts) ∧
    (∃ s, BoundaryOrdered s vs ∧ ∀ p ∈ pts, InsideOrOn s p vs) ∧
    (∃ cv cp, mkCoords vs = .ok cv ∧ mkCoords pts = .ok cp ∧ cv.box = cp.box) := by
  obtain ⟨s, hc⟩ := (hullCert_iff pts vs).mp h
  refine ⟨hc.sub, ⟨s, ⟨hc.sign, hc.len, hc.nodup, hc.turn, ?_⟩, hc.inside⟩, box_eq_of_cycle hc⟩
  intro v hv
  exact hc.inside v (hc.sub v hv)

/-- a square with an interior point, a boundary point on an edge and a repeated corner -/
example : HullCert [(0, 0), (4, 0), (4, 4), (0, 4), (2, 2), (2, 0), (0, 0)] [(0, 0), (4, 0), (4, 4), (0, 4)] = true := by
  decide

/-- the checker rejects a mis-ordered vertex list (self-intersecting polygon with the right box) -/
example : HullCert [(0, 0), (4, 0), (4, 4), (0, 4)] [(0, 0), (4, 4), (4, 0), (0, 4)] = false := by decide

/-- The supporting-line form of "no input point lies outside": in every direction `(α, β)` the certified
    vertex list reaches at least as far as any input point. -/
theorem C09_cert_support (pts vs : List Pt) (h : HullCert pts vs = true) (α β : Int) (p : Pt) (hp : p ∈ pts) :
    ∃ v ∈ vs, α * v.1 + β * v.2 ≤ α * p.1 + β * p.2 := by
  obtain ⟨s, hc⟩ := (hullCert_iff pts vs).mp h
  exact hc.support α β p hp

example : ∃ v ∈ [((0 : Int), (0 : Int)), (4, 0), (4, 4), (0, 4)], 3 * v.1 + (-2) * v.2 ≤ 3 * 2 + (-2) * 2 :=
  C09_cert_support [(0, 0), (4, 0), (4, 4), (0, 4), (2, 2)] _ (by decide) 3 (-2) (2, 2) (by decide)

private theorem ConvexCycle.mono {s : Int} {pts pts' vs : List Pt} (h : ConvexCycle s pts vs)
    (h1 : ∀ p ∈ pts', p ∈ pts) (h2 : ∀ v ∈ vs, v ∈ pts') : ConvexCycle s pts' vs :=
  ⟨h.sign, h.len, h2, h.nodup, h.turn, fun p hp => h.inside p (h1 p hp)⟩

/-- Every vertex of a certified list is a true corner: no three distinct vertices lie on one line
    (so each edge's line touches the vertex list in exactly its two ends). -/
theorem C09_cert_no_three_collinear (pts vs : List Pt) (h : HullCert pts vs = true) (p q r : Pt)
    (hp : p ∈ vs) (hq : q ∈ vs) (hr : r ∈ vs) (hpq : p ≠ q) (hpr : p ≠ r) (hqr : q ≠ r) :
    cross p q r ≠ 0 := by
  obtain ⟨s, hc⟩ := (hullCert_iff pts vs).mp h
  exact hc.no_three_collinear p q r hp hq hr hpq hpr hqr

example : cross ((0 : Int), (0 : Int)) (4, 0) (4, 4) ≠ 0 :=
  C09_cert_no_three_collinear [(0, 0), (4, 0), (4, 4), (0, 4), (2, 0)] [(0, 0), (4, 0), (4, 4), (0, 4)] (by decide)
    _ _ _ (by decide) (by decide) (by decide) (by decide) (by decide) (by decide)

/-- THE hull is well defined: two vertex lists certified for the same set of points (given in any order,
    with any repetitions) have the same vertices and the same edges — all in the same direction, or all
    reversed.  (Equivalently: one list is a rotation, or a reversed rotation, of the other.) -/
theorem C09_cert_unique (pts pts' vs ws : List Pt) (hmem : ∀ p, p ∈ pts ↔ p ∈ pts')
    (hv : HullCert pts vs = true) (hw : HullCert pts' ws = true) :
    (∀ v, v ∈ ws ↔ v ∈ vs) ∧
    ((∀ a b, (a, b) ∈ cedges ws ↔ (a, b) ∈ cedges vs) ∨ (∀ a b, (a, b) ∈ cedges ws ↔ (b, a) ∈ cedges vs)) := by
  obtain ⟨s, h⟩ := (hullCert_iff pts vs).mp hv
  obtain ⟨s', h0⟩ := (hullCert_iff pts' ws).mp hw
  have h' : ConvexCycle s' pts ws := h0.mono (fun p hp => (hmem p).mp hp) (fun v hv => (hmem v).mpr (h0.sub v hv))
  refine ⟨fun v => ⟨h.vertex_mem h' v, h'.vertex_mem h v⟩, ?_⟩
  have hss : s' = s ∨ s' = -s := by
    rcases h.sign with rfl | rfl <;> rcases h'.sign with rfl | rfl <;> simp
  rcases hss with rfl | rfl
  · exact Or.inl fun a b => ⟨h.edge_mem_same h' a b, h'.edge_mem_same h a b⟩
  · refine Or.inr fun a b => ⟨h.edge_mem_opp h' a b, ?_⟩
    have h2 : ConvexCycle (- -s) pts vs := by rw [neg_neg]; exact h
    exact h'.edge_mem_opp h2 b a

example : (∀ v, v ∈ [((4 : Int), (4 : Int)), (4, 0), (0, 0), (0, 4)] ↔ v ∈ [((0 : Int), (0 : Int)), (4, 0), (4, 4), (0, 4)]) ∧
    ((∀ a b, (a, b) ∈ cedges [(4, 4), (4, 0), (0, 0), (0, 4)] ↔ (a, b) ∈ cedges [(0, 0), (4, 0), (4, 4), (0, 4)]) ∨
     (∀ a b, (a, b) ∈ cedges [(4, 4), (4, 0), (0, 0), (0, 4)] ↔ (b, a) ∈ cedges [(0, 0), (4, 0), (4, 4), (0, 4)])) :=
  C09_cert_unique [(0, 0), (4, 0), (4, 4), (0, 4), (2, 2)] [(2, 2), (0, 4), (4, 4), (2, 2), (4, 0), (0, 0)] _ _
    (by intro p; simp only [List.mem_cons, List.not_mem_nil, or_false]; tauto) (by decide) (by decide)

/-! ### (c) small cases and errors of the library -/

/-- The size limits of the source (`len(points) <= N` in coords_list_to_hull_coords and in poly_area, regenerated
    from the working tree on every run, Generated/C09.lean) are both 2: "fewer than three points" is what the
    statement says, and Qhull needs three.  This is the only place where the regenerated values are looked at;
    an edit of either literal breaks exactly this statement (and the theorems below that cite it). -/
theorem C09_consts_small_cases : smallHull = 2 ∧ smallArea = 2 := by decide

/-- one or two points are returned as they are given (in input order) -/
theorem C09_small_as_given (he : HullEdges) (cl : List (List Pt)) (h : cl.flatten.length ≤ 2)
    (hne : cl.flatten ≠ []) :
    ∃ c, coordsListToHullCoords he cl = .ok c ∧ c.points = cl.flatten ∧ ExactBox cl.flatten c := by
  obtain ⟨c, hc, hb⟩ := C03_exact_box cl.flatten hne
  refine ⟨c, ?_, hb.points_kept, hb⟩
  simp only [coordsListToHullCoords, C09_consts_small_cases.1, h, if_true, coordsOf]
  cases hf : cl.flatten with
  | nil => exact absurd hf hne
  | cons a l => simpa [hf] using hc

example : ∃ c, coordsListToHullCoords (fun _ => .error .QhullError) [[(3, 4)], [(0, 9)]] = .ok c ∧
    c.points = [(3, 4), (0, 9)] ∧ ExactBox [(3, 4), (0, 9)] c :=
  C09_small_as_given _ [[(3, 4)], [(0, 9)]] (by decide) (by decide)

/-- no documents, or a document without coordinates: rejected (IndexError / AttributeError) -/
theorem C09_empty_or_missing_rejected (he : HullEdges) :
    parseDerivedCoords he [] = .error .IndexError ∧
    ∀ pre post, parseDerivedCoords he (pre ++ none :: post) = .error .AttributeError := by
  refine ⟨rfl, ?_⟩
  intro pre post
  simp [parseDerivedCoords]

/-- fewer than three points, or no coordinates: area 0 -/
theorem C09_area_small (he : HullEdges) (pts : List Pt) (h : pts.length ≤ 2) :
    polyArea2 he pts = .ok 0 ∧ docArea2 he (some pts) = .ok 0 ∧ docArea2 he none = .ok 0 := by
  simp [polyArea2, docArea2, C09_consts_small_cases.2, h]

example : polyArea2 (fun _ => .error .QhullError) [(0, 0), (3, 4)] = .ok 0 :=
  (C09_area_small _ _ (by decide)).1

/-- a polygon with fewer than three vertices has shoelace area 0 -/
theorem C09_area_few_vertices (vs : List Pt) (h : vs.length ≤ 2) : area2 vs = 0 := by
  match vs, h with
  | [], _ => rfl
  | [a], _ => simp [area2, shoelace, shoe]
  | [a, b], _ => simp [area2, shoelace, shoe]

example : area2 [(1, 2), (30, 40)] = 0 := C09_area_few_vertices _ (by decide)

/-- Three or more points on one straight line (or all equal): the derived coordinates are the segment
    between the lexicographic extremes — its vertices are input points, its bounding box is the box of
    all input points, every input point lies on the line through them (hence, with the box, on the
    segment), and the area is 0.  Qhull is not consulted. -/
theorem C09_collinear_segment (he : HullEdges) (cl : List (List Pt)) (ext : List Pt)
    (hlen : 2 < cl.flatten.length) (hcol : collinearExtremes cl.flatten = .ok (some ext)) :
    ∃ c cp, coordsListToHullCoords he cl = .ok c ∧ c.points = ext ∧ (∀ v ∈ ext, v ∈ cl.flatten) ∧
      mkCoords cl.flatten = .ok cp ∧ c.box = cp.box ∧
      (∀ p ∈ cl.flatten, ∀ a ∈ ext, ∀ b ∈ ext, cross a b p = 0) ∧
      polyArea2 he cl.flatten = .ok 0 := by
  have harea : polyArea2 he cl.flatten = .ok 0 := by
    have : ¬ cl.flatten.length ≤ 2 := by omega
    simp only [polyArea2, C09_consts_small_cases.2, this, if_false, hcol]
    rfl
  have hco : coordsListToHullCoords he cl = coordsOf ext := by
    have : ¬ cl.flatten.length ≤ 2 := by omega
    simp only [coordsListToHullCoords, C09_consts_small_cases.1, this, if_false, hcol]
    rfl
  generalize cl.flatten = pts at *
  cases pts with
  | nil => simp at hlen
  | cons k ks =>
    simp only [collinearExtremes] at hcol
    split at hcol
    · rename_i hall
      simp only [Except.ok.injEq, Option.some.injEq] at hcol
      obtain ⟨hfm, hfl⟩ := minPt_spec k ks
      obtain ⟨hlm, hll⟩ := maxPt_spec k ks
      have hon : ∀ p ∈ k :: ks, onLine (minPt k ks) (maxPt k ks) p = true := by
        simpa [List.all_eq_true] using hall
      have hfe : minPt k ks ∈ ext := by rw [← hcol]; split <;> simp
      have hle : maxPt k ks ∈ ext := by
        rw [← hcol]; split
        · rename_i e; simp [e]
        · simp
      have hsub : ∀ v ∈ ext, v = minPt k ks ∨ v = maxPt k ks := by
        intro v hv; rw [← hcol] at hv
        split at hv <;> simp at hv <;> tauto
      have hne : ext ≠ [] := List.ne_nil_of_mem hfe
      obtain ⟨cv, cp, hcv, hcp, hbox, bv, _⟩ := box_eq_of_support (k :: ks) ext hne
        (by intro v hv; rcases hsub v hv with rfl | rfl <;> assumption)
        (by
          intro p hp
          obtain ⟨h1, h2, h3⟩ := between_of_onLine _ _ p (hfl p hp) (hll p hp) (hon p hp)
          refine ⟨⟨_, hfe, h1⟩, ⟨_, hle, h2⟩, ?_, ?_⟩
          · rcases h3 with h3 | h3
            · exact ⟨_, hfe, h3.1⟩
            · exact ⟨_, hle, h3.1⟩
          · rcases h3 with h3 | h3
            · exact ⟨_, hle, h3.2⟩
            · exact ⟨_, hfe, h3.2⟩)
      refine ⟨cv, cp, ?_, bv.points_kept, ?_, hcp, hbox, ?_, harea⟩
      · rw [hco]
        cases ext with
        | nil => exact absurd rfl hne
        | cons a l => simpa [coordsOf] using hcv
      · intro v hv; rcases hsub v hv with rfl | rfl <;> assumption
      · intro p hp a ha b hb
        have h := hon p hp
        simp only [onLine, beq_iff_eq] at h
        rcases hsub a ha with rfl | rfl <;> rcases hsub b hb with rfl | rfl <;>
          simp only [cross] <;> linarith
    · simp at hcol

/-- five points on the line y = 2x, given out of order, one repeated -/
example : ∃ c cp, coordsListToHullCoords (fun _ => .error .QhullError) [[(2, 4), (0, 0)], [(3, 6), (1, 2), (0, 0)]] = .ok c ∧
    c.points = [(0, 0), (3, 6)] ∧ (∀ v ∈ [((0 : Int), (0 : Int)), (3, 6)], v ∈ [[(2, 4), (0, 0)], [(3, 6), (1, 2), (0, 0)]].flatten) ∧
    mkCoords [[(2, 4), (0, 0)], [(3, 6), (1, 2), (0, 0)]].flatten = .ok cp ∧ c.box = cp.box ∧
    (∀ p ∈ [[(2, 4), (0, 0)], [(3, 6), (1, 2), (0, 0)]].flatten, ∀ a ∈ [((0 : Int), (0 : Int)), (3, 6)],
      ∀ b ∈ [((0 : Int), (0 : Int)), (3, 6)], cross a b p = 0) ∧
    polyArea2 (fun _ => .error .QhullError) [[(2, 4), (0, 0)], [(3, 6), (1, 2), (0, 0)]].flatten = .ok 0 :=
  C09_collinear_segment _ _ _ (by decide) (by decide)

/-- The collinear branch is taken exactly for the inputs the statement excludes from the hull clauses:
    whenever all points satisfy one line equation `a·x + b·y = c`, `collinear_extremes` reports it; so when
    it answers `None` (and Qhull is consulted) the points do not all lie on one straight line. -/
theorem C09_collinear_detected (pts : List Pt) (a b c : Int) (hab : a ≠ 0 ∨ b ≠ 0)
    (hline : ∀ p ∈ pts, a * p.1 + b * p.2 = c) : collinearExtremes pts ≠ .ok none := by
  cases pts with
  | nil => simp [collinearExtremes]
  | cons k ks =>
    have hf := hline _ (minPt_spec k ks).1
    have hl := hline _ (maxPt_spec k ks).1
    have hall : (k :: ks).all (onLine (minPt k ks) (maxPt k ks)) = true := by
      rw [List.all_eq_true]
      intro p hp
      have hpl := hline p hp
      simp only [onLine, beq_iff_eq]
      -- both (last − first) and (p − first) are orthogonal to (a, b) ≠ 0, hence parallel
      have h1 : a * (((maxPt k ks).1 - (minPt k ks).1) * (p.2 - (minPt k ks).2)
          - ((maxPt k ks).2 - (minPt k ks).2) * (p.1 - (minPt k ks).1)) = 0 := by
        linear_combination (p.2 - (minPt k ks).2) * (hl - hf) - ((maxPt k ks).2 - (minPt k ks).2) * (hpl - hf)
      have h2 : b * (((maxPt k ks).1 - (minPt k ks).1) * (p.2 - (minPt k ks).2)
          - ((maxPt k ks).2 - (minPt k ks).2) * (p.1 - (minPt k ks).1)) = 0 := by
        linear_combination ((maxPt k ks).1 - (minPt k ks).1) * (hpl - hf) - (p.1 - (minPt k ks).1) * (hl - hf)
      rcases hab with ha | hb
      · have := (mul_eq_zero.mp h1).resolve_left ha; linarith
      · have := (mul_eq_zero.mp h2).resolve_left hb; linarith
    simp [collinearExtremes, hall]

example : collinearExtremes [(0, 0), (2, 4), (1, 2)] ≠ .ok none :=
  C09_collinear_detected _ 2 (-1) 0 (by decide) (by decide)

/-! ### regions without own Coords in `parse_textregion` (after fix 75c00fd) -/

private theorem filter_isSome_any_isNone {α} (l : List (Option α)) :
    (l.filter (·.isSome)).any (·.isNone) = false := by
  induction l with
  | nil => rfl
  | cons a l ih => cases a <;> simp_all

private theorem filterMap_filter_isSome {α} (l : List (Option α)) :
    (l.filter (·.isSome)).filterMap id = l.filterMap id := by
  induction l with
  | nil => rfl
  | cons a l ih => cases a <;> simp_all

/-- A region with own Coords keeps them.  A region without gets exactly what `coords_list_to_hull_coords`
    returns for the coordinates of ALL its children that have some — nested regions and lines together, in
    `add_child`'s order — so every hull clause above (`C09_small_as_given`, `C09_collinear_segment`,
    `C09_derived_is_hull`) applies to the points of all located children; a child without coordinates never
    raises; with no located child the region stays without coordinates. -/
theorem C09_region_without_coords (he : HullEdges) (own : List Pt) (regions lines : List (Option (List Pt))) :
    deriveRegion he (some own) regions lines = .ok (some own) ∧
    deriveRegion he none regions lines =
      (if ((regions ++ lines).filterMap id).isEmpty then .ok none
       else (coordsListToHullCoords he ((regions ++ lines).filterMap id)).map (fun c => some c.points)) := by
  refine ⟨rfl, ?_⟩
  have hemp : ((regions ++ lines).filter (·.isSome)).isEmpty = ((regions ++ lines).filterMap id).isEmpty := by
    generalize regions ++ lines = l
    induction l with
    | nil => rfl
    | cons a l ih => cases a <;> simp_all
  simp only [deriveRegion, hemp]
  split
  · rfl
  · simp only [parseDerivedCoords, filter_isSome_any_isNone, filterMap_filter_isSome]
    cases coordsListToHullCoords he ((regions ++ lines).filterMap id) <;> rfl

/-- the former defect's witness: a line at (0,10), a nested region at (200,200), a line without coordinates -/
example : deriveRegion (fun _ => .error .QhullError) none [some [(200, 200)]] [some [(0, 10)], none]
    = .ok (some [(200, 200), (0, 10)]) := by
  decide

/-! ### (d) the area follows the points -/

/-- translation leaves the area unchanged -/
theorem C09_area_translate (d : Pt) (vs : List Pt) : area2 (translate d vs) = area2 vs := by
  simp [area2, shoelace_translate]

example : area2 (translate (100, -7) [(0, 0), (4, 0), (4, 4), (0, 4)]) = 32 := by
  rw [C09_area_translate]; decide

/-- listing the same boundary from another start vertex, or in the other direction, leaves the area
    unchanged -/
theorem C09_area_rotate_reverse (vs ws : List Pt) (h : ws ~r vs ∨ ws ~r vs.reverse) :
    area2 ws = area2 vs := by
  have rot : ∀ l l' : List Pt, l' ~r l → shoelace l' = shoelace l := by
    intro l l' hr
    obtain ⟨n, hn⟩ := hr.symm
    rw [← hn, List.rotate_eq_drop_append_take_mod, shoelace_append_comm, List.take_append_drop]
  rcases h with h | h
  · simp [area2, rot vs ws h]
  · simp [area2, rot _ ws h, shoelace_reverse]

example : area2 [(4, 4), (4, 0), (0, 0), (0, 4)] = area2 [(0, 0), (4, 0), (4, 4), (0, 4)] :=
  C09_area_rotate_reverse _ _ (Or.inr ⟨3, by decide⟩)

/-- The area does not depend on the order (or multiplicity) in which the points are given: whatever
    vertex lists the library returns for two arrangements of the same point set, if both pass the
    checker they have the same area. -/
theorem C09_area_reorder (pts pts' vs ws : List Pt) (hmem : ∀ p, p ∈ pts ↔ p ∈ pts')
    (hv : HullCert pts vs = true) (hw : HullCert pts' ws = true) : area2 ws = area2 vs := by
  obtain ⟨s, h⟩ := (hullCert_iff pts vs).mp hv
  obtain ⟨s', h0⟩ := (hullCert_iff pts' ws).mp hw
  exact h.area_eq (h0.mono (fun p hp => (hmem p).mp hp) (fun v hv => (hmem v).mpr (h0.sub v hv)))

example : area2 [(4, 4), (4, 0), (0, 0), (0, 4)] = area2 [(0, 0), (4, 0), (4, 4), (0, 4)] :=
  C09_area_reorder [(0, 0), (4, 0), (4, 4), (0, 4), (2, 2)] [(2, 2), (0, 4), (4, 4), (2, 2), (4, 0), (0, 0)] _ _
    (by intro p; simp only [List.mem_cons, List.not_mem_nil, or_false]; tauto) (by decide) (by decide)

/-- Hull of the hull: the area computed from an element's derived coordinates (the certified vertex list
    `vs` of its children's points) — for which `poly_area` calls the library again, on `vs` — is the area
    of `vs` itself, provided that second answer passes the checker too. -/
theorem C09_area_hull_of_hull (pts vs ws : List Pt) (hv : HullCert pts vs = true) (hw : HullCert vs ws = true) :
    area2 ws = area2 vs := by
  obtain ⟨s, h⟩ := (hullCert_iff pts vs).mp hv
  obtain ⟨s', h'⟩ := (hullCert_iff vs ws).mp hw
  exact (h.mono (fun p hp => h.sub p hp) (fun v hv => hv)).area_eq h'

example : area2 [(4, 0), (4, 4), (0, 4), (0, 0)] = area2 [(0, 0), (4, 0), (4, 4), (0, 4)] :=
  C09_area_hull_of_hull [(0, 0), (4, 0), (4, 4), (0, 4), (2, 2), (2, 0)] _ _ (by decide) (by decide)

/-! ### end to end, under the library contract that the driver checks on every sampled call -/

/-- a certified vertex list is itself not collinear: `collinear_extremes` answers `None` on it -/
private theorem cert_planar (pts vs : List Pt) (h : HullCert pts vs = true) :
    2 < vs.length ∧ collinearExtremes vs = .ok none := by
  obtain ⟨s, hc⟩ := (hullCert_iff pts vs).mp h
  have hlen := hc.len
  refine ⟨by omega, ?_⟩
  match vs, hc with
  | p :: q :: r :: rest, hc =>
    have hnd := hc.nodup
    have hpq : p ≠ q := by intro e; subst e; simp at hnd
    have hpr : p ≠ r := by intro e; subst e; simp at hnd
    have hqr : q ≠ r := by intro e; subst e; simp at hnd
    have hno := hc.no_three_collinear p q r (by simp) (by simp) (by simp) hpq hpr hqr
    simp only [collinearExtremes]
    split
    · rename_i hall
      exfalso
      rw [List.all_eq_true] at hall
      have hp := hall p (by simp)
      have hq := hall q (by simp)
      have hr := hall r (by simp)
      simp only [onLine, beq_iff_eq] at hp hq hr
      obtain ⟨hfm, hfl⟩ := minPt_spec p (q :: r :: rest)
      obtain ⟨hlm, hll⟩ := maxPt_spec p (q :: r :: rest)
      generalize minPt p (q :: r :: rest) = f at *
      generalize maxPt p (q :: r :: rest) = l at *
      by_cases hD : f = l
      · -- min = max: all points coincide
        subst hD
        have e1 : p = f := ptLt_total _ _ (hfl p (by simp)) (hll p (by simp))
        have e2 : q = f := ptLt_total _ _ (hfl q (by simp)) (hll q (by simp))
        exact hpq (e1.trans e2.symm)
      · -- all three on the line through min and max
        apply hno
        have h1 : (l.1 - f.1) * cross p q r = 0 := by
          simp only [cross]
          linear_combination (q.1 - p.1) * (hr - hp) - (r.1 - p.1) * (hq - hp)
        have h2 : (l.2 - f.2) * cross p q r = 0 := by
          simp only [cross]
          linear_combination (q.2 - p.2) * (hr - hp) - (r.2 - p.2) * (hq - hp)
        by_contra hne
        have z1 := (mul_eq_zero.mp h1).resolve_right hne
        have z2 := (mul_eq_zero.mp h2).resolve_right hne
        exact hD (Prod.ext (by omega) (by omega))
    · rfl

/-- END TO END, for every collection of coordinate objects holding three or more points that are not all
    on one line: IF the two answers of the library that the code consumes pass the checker (the hull of all
    the points, and — when the area is later read from the derived coordinates — the hull of those vertices;
    both checks are run by the driver on every sampled call), THEN the derived coordinates are a certified
    hull of ALL the points (by `C09_cert_sound` / `C09_cert_unique`: input points in boundary order, nothing
    outside, unique), their box is the union of the inputs' boxes, and the area of the points and the area read
    from the derived coordinates both equal the shoelace area of that hull. -/
theorem C09_derived_is_hull (he : HullEdges) (cl : List (List Pt)) (vs ws : List Pt)
    (hlen : 2 < cl.flatten.length) (hpl : collinearExtremes cl.flatten = .ok none)
    (hvs : hullPoints he cl.flatten = .ok vs) (hcert : HullCert cl.flatten vs = true)
    (hws : hullPoints he vs = .ok ws) (hcert2 : HullCert vs ws = true) :
    ∃ c cp, coordsListToHullCoords he cl = .ok c ∧ c.points = vs ∧
      mkCoords cl.flatten = .ok cp ∧ c.box = cp.box ∧
      polyArea2 he cl.flatten = .ok (area2 vs) ∧
      docArea2 he (some c.points) = .ok (area2 vs) := by
  obtain ⟨_, _, cv, cp, hcv, hcp, hbox⟩ := C09_cert_sound _ _ hcert
  obtain ⟨hvl, hvpl⟩ := cert_planar _ _ hcert
  have hne : vs ≠ [] := by intro e; simp [e] at hvl
  have hpts : cv.points = vs := by
    obtain ⟨c', hc', hb⟩ := C03_exact_box vs hne
    rw [hcv] at hc'; cases hc'; exact hb.points_kept
  have h2 : ¬ cl.flatten.length ≤ 2 := by omega
  have hco : coordsListToHullCoords he cl = .ok cv := by
    simp only [coordsListToHullCoords, C09_consts_small_cases.1, h2, if_false, hpl]
    show (hullPoints he cl.flatten >>= fun hp => coordsOf hp) = _
    rw [hvs]
    cases vs with
    | nil => exact absurd rfl hne
    | cons a l => exact hcv
  have ha1 : polyArea2 he cl.flatten = .ok (area2 vs) := by
    have h3 : ¬ vs.length < 3 := by omega
    simp only [polyArea2, C09_consts_small_cases.2, h2, if_false, hpl]
    show (hullPoints he cl.flatten >>= fun vs => if vs.length < 3 then .error .ValueError else .ok (area2 vs)) = _
    rw [hvs]
    show (if vs.length < 3 then Except.error Err.ValueError else Except.ok (area2 vs)) = _
    rw [if_neg h3]
  obtain ⟨hwl, _⟩ := cert_planar _ _ hcert2
  have ha2 : docArea2 he (some vs) = .ok (area2 vs) := by
    have h4 : ¬ vs.length ≤ 2 := by omega
    have h5 : ¬ ws.length < 3 := by omega
    simp only [docArea2, polyArea2, C09_consts_small_cases.2, h4, if_false, hvpl]
    show (hullPoints he vs >>= fun vs => if vs.length < 3 then .error .ValueError else .ok (area2 vs)) = _
    rw [hws]
    show (if ws.length < 3 then Except.error Err.ValueError else Except.ok (area2 ws)) = _
    rw [if_neg h5, C09_area_hull_of_hull _ _ _ hcert hcert2]
  exact ⟨cv, cp, hco, hpts, hcp, hbox, ha1, hpts ▸ ha2⟩

/-- a square with an interior point, split over two coordinate objects; the library's two answers as a table -/
example :
    let sq : Edges := [((0, 0), [(4, 0), (0, 4)]), ((4, 0), [(0, 0), (4, 4)]), ((4, 4), [(4, 0), (0, 4)]),
                       ((0, 4), [(0, 0), (4, 4)])]
    let he : HullEdges := fun _ => .ok sq
    ∃ c cp, coordsListToHullCoords he [[(2, 2), (4, 4), (0, 0)], [(0, 4), (4, 0)]] = .ok c ∧
      c.points = [(0, 0), (4, 0), (4, 4), (0, 4)] ∧
      mkCoords [[(2, 2), (4, 4), (0, 0)], [(0, 4), (4, 0)]].flatten = .ok cp ∧ c.box = cp.box ∧
      polyArea2 he [[(2, 2), (4, 4), (0, 0)], [(0, 4), (4, 0)]].flatten = .ok (area2 [(0, 0), (4, 0), (4, 4), (0, 4)]) ∧
      docArea2 he (some c.points) = .ok (area2 [(0, 0), (4, 0), (4, 4), (0, 4)]) :=
  C09_derived_is_hull _ _ _ [(0, 0), (4, 0), (4, 4), (0, 4)] (by decide) (by decide) (by decide) (by decide)
    (by decide) (by decide)

/-! ### (e) the cached area is never stale -/

/-- the cache is empty or holds the area of the current coordinates -/
def CacheOk (he : HullEdges) (σ : Elem) : Prop := ∀ a, σ.cache = some a → docArea2 he σ.coords = .ok a

private theorem step_cacheOk (he : HullEdges) (n : Nat) (σ : Elem) (op : Op) (h : CacheOk he σ) :
    CacheOk he (step he n σ op).1 := by
  cases op with
  | setCoords c => intro a ha; simp [step] at ha
  | addChild slot child =>
    simp only [step]
    split
    · exact h
    · split
      · intro a ha; simp at ha
      · exact h
  | readArea =>
    simp only [step]
    split
    · exact h
    · split
      · rename_i a ha
        intro a' ha'
        simp only [Option.some.injEq] at ha'
        subst ha'; exact ha
      · exact h
  | readCoords => exact h

private theorem run_cacheOk (he : HullEdges) (n : Nat) (ops : List Op) :
    ∀ σ, CacheOk he σ → CacheOk he (run he n σ ops).1 := by
  induction ops with
  | nil => intro σ h; exact h
  | cons op ops ih => intro σ h; exact ih _ (step_cacheOk he n σ op h)

/-- what an area read must return for the element's current coordinates -/
def freshArea (he : HullEdges) (σ : Elem) : Out :=
  match docArea2 he σ.coords with
  | .ok a => .area a
  | .error e => .err e

/-- After ANY history of coordinate assignments, add_child calls (successful or failing), area reads and
    coordinate reads on an element whose cache started empty, reading the area returns the area
    computed from the element's CURRENT coordinates — never a value cached for earlier ones. -/
theorem C09_area_fresh (he : HullEdges) (n : Nat) (coords : Option (List Pt))
    (kids : List (Nat × Option (List Pt))) (ops : List Op) :
    let σ := (run he n { coords := coords, cache := none, kids := kids } ops).1
    (step he n σ .readArea).2 = freshArea he σ ∧ (step he n σ .readArea).1.coords = σ.coords := by
  intro σ
  have hok : CacheOk he σ := run_cacheOk he n ops _ (by intro a ha; simp at ha)
  simp only [step, freshArea]
  cases hc : σ.cache with
  | some a => simp [hok a hc]
  | none =>
    cases hd : docArea2 he σ.coords with
    | ok a => simp
    | error e => simp

/-- the history of fix a0dbff7: read the area, add a child, read again -/
example :
    let he : HullEdges := fun _ => .ok [((0, 0), [(9, 0), (0, 9)]), ((9, 0), [(0, 0), (9, 9)]),
                                        ((9, 9), [(9, 0), (0, 9)]), ((0, 9), [(0, 0), (9, 9)])]
    (run he 2 { coords := some [(0, 0), (1, 0)], cache := none, kids := [] }
      [.readArea, .addChild 1 (some [(0, 0), (9, 0), (9, 9), (0, 9)]), .readArea]).2
      = [.area 0, .unit, .area 162] := by
  decide

/-- A successful add_child replaces the coordinates by what `parse_derived_coords` returns for ALL the
    element's children (in list order) and empties the cache; a failing one leaves both untouched. -/
theorem C09_add_child_coords (he : HullEdges) (n : Nat) (σ : Elem) (slot : Nat) (child : Option (List Pt))
    (hs : slot < n) :
    let kids := σ.kids ++ [(slot, child)]
    let r := step he n σ (.addChild slot child)
    r.1.kids = kids ∧
    match parseDerivedCoords he (ordered n kids) with
    | .ok c => r.2 = .unit ∧ r.1.coords = some c.points ∧ r.1.cache = none
    | .error e => r.2 = .err e ∧ r.1.coords = σ.coords ∧ r.1.cache = σ.cache := by
  intro kids r
  have hns : ¬ n ≤ slot := by omega
  simp only [r, step, hns, if_false]
  cases hp : parseDerivedCoords he (ordered n (σ.kids ++ [(slot, child)])) with
  | ok c => simp [kids]
  | error e => simp [kids]

example : (step (fun _ => .error .QhullError) 2 { coords := none, cache := some 5, kids := [(1, some [(1, 1)])] }
    (.addChild 1 (some [(5, 7)]))).1 = { coords := some [(1, 1), (5, 7)], cache := none,
                                         kids := [(1, some [(1, 1)]), (1, some [(5, 7)])] } := by
  decide

/-- reading the coordinates or the area never changes coordinates or children -/
theorem C09_reads_pure (he : HullEdges) (n : Nat) (σ : Elem) :
    (step he n σ .readCoords).1 = σ ∧ (step he n σ .readCoords).2 = .coords σ.coords ∧
    (step he n σ .readArea).1.coords = σ.coords ∧ (step he n σ .readArea).1.kids = σ.kids := by
  refine ⟨rfl, rfl, ?_, ?_⟩ <;>
  · simp only [step]
    split
    · rfl
    · split <;> rfl

example : (step (fun _ => .error .QhullError) 2 { coords := some [(1, 1)], cache := none, kids := [] } .readArea).1.coords
    = some [(1, 1)] := (C09_reads_pure _ 2 _).2.2.1

/-! ### table rows (`make_rows_from_cells`, wave 4) -/

private theorem bind_ok' {α β} {x : Res α} {f : α → Res β} {b : β} (h : (x >>= f) = .ok b) :
    ∃ a, x = .ok a ∧ f a = .ok b := by
  cases x with
  | error e => cases h
  | ok a => exact ⟨a, rfl, h⟩

/-- a successful `mapM`: the results correspond to the inputs one by one, in order -/
private theorem mapM_ok_forall₂ {α β} (f : α → Res β) : ∀ (xs : List α) (ys : List β), xs.mapM f = .ok ys →
    List.Forall₂ (fun x y => f x = .ok y) xs ys := by
  intro xs
  induction xs with
  | nil => intro ys h; simp [List.mapM_nil] at h; cases h; exact .nil
  | cons x xs ih =>
    intro ys h
    rw [List.mapM_cons] at h
    obtain ⟨b, hb, h⟩ := bind_ok' h
    obtain ⟨bs, hbs, h⟩ := bind_ok' h
    cases h
    exact .cons hb (ih bs hbs)

private theorem mkRowG_ok (he : HullEdges) (g : Option Int × List CellG) (r : RowG) (h : mkRowG he g = .ok r) :
    r.id = g.1 ∧ r.cells = g.2 ∧ parseDerivedCoords he (g.2.map (·.coords)) = .ok r.coords := by
  unfold mkRowG at h
  obtain ⟨c, hc, h⟩ := bind_ok' h
  cases h
  exact ⟨rfl, rfl, hc⟩

/-- Table rows.  `make_rows_from_cells` makes exactly one row per row index that occurs; the row holds ALL the
    cells listed under that index, in their order — whatever their `rowSpan`, `cellSpan` or `header` — and its
    coordinates are what `parse_derived_coords` returns for the coordinates of all these cells, so every hull
    clause above (`C09_small_as_given`, `C09_collinear_segment`, `C09_derived_is_hull`) applies to the points of
    all cells of the row.  No cell is left out of the rows, no row is empty. -/
theorem C09_table_rows_all_cells (he : HullEdges) (cells : List CellG) (rows : List RowG)
    (h : rowsFromCells he cells = .ok rows) :
    (rows.map (·.id)).Nodup ∧ (∀ c ∈ cells, c.row ∈ rows.map (·.id)) ∧
    ∀ r ∈ rows, r.cells = cells.filter (fun c => decide (c.row = r.id)) ∧ r.cells ≠ [] ∧
      parseDerivedCoords he (r.cells.map (·.coords)) = .ok r.coords := by
  have inv := C08.groupInv_all CellG.row cells
  have hf := mapM_ok_forall₂ (mkRowG he) _ _ h
  change List.Forall₂ _ (groupRows cells) rows at hf
  change C08.GroupInv CellG.row cells (groupRows cells) at inv
  generalize groupRows cells = G at hf inv
  obtain ⟨hnd, hg, hc⟩ := inv
  have hkeys : rows.map (·.id) = G.map (·.1) := by
    clear hnd hg hc h
    induction hf with
    | nil => rfl
    | cons hxy _ ih => simp [ih, (mkRowG_ok he _ _ hxy).1]
  refine ⟨hkeys ▸ hnd, fun c hcm => hkeys ▸ hc c hcm, ?_⟩
  intro r hr
  obtain ⟨g, hgm, hgr⟩ : ∃ g ∈ G, mkRowG he g = .ok r := by
    clear hkeys hnd hg hc h
    induction hf with
    | nil => cases hr
    | cons hxy _ ih =>
      rcases List.mem_cons.mp hr with rfl | hr
      · exact ⟨_, List.mem_cons_self, hxy⟩
      · obtain ⟨g, hg1, hg2⟩ := ih hr
        exact ⟨g, List.mem_cons_of_mem _ hg1, hg2⟩
  obtain ⟨e1, e2, e3⟩ := mkRowG_ok he g r hgr
  obtain ⟨f1, f2⟩ := hg g hgm
  refine ⟨by rw [e2, e1, f1], by rw [e2]; exact f2, by rw [e2]; exact e3⟩

/-- a row in which a cell spanning two rows (and a header cell) stands next to an ordinary one: all three count -/
example :
    (rowsFromCells (fun _ => .error .QhullError)
      [{ row := some 0, rowSpan := some 2, cellSpan := none, header := none, coords := some [(0, 0)] },
       { row := some 1, rowSpan := none, cellSpan := none, header := none, coords := some [(0, 9), (3, 9)] },
       { row := some 0, rowSpan := none, cellSpan := some 1, header := some "true", coords := some [(7, 5)] }]).map
      (fun rs => rs.map (fun r => (r.id, r.cells.length, r.coords.points)))
      = .ok [(some 0, 2, [(0, 0), (7, 5)]), (some 1, 1, [(0, 9), (3, 9)])] := by
  decide

end Pagexml.C09
