/-
C19 — Layout measurements agree with the geometry they measure.
Property theorems only.  `mdt` is the parameter standing for the one float expression
`int((x - x1) * ((y1 - y2) / (x2 - x1)))`; theorems quantify over EVERY function `mdt`
(shift, symmetry, fallback, lossless split, averages, categories, statistics) or over every
function satisfying `MulDivTruncLaws` (grid, text height).  No bound on the number of
points, their magnitude, the step or the shift.
-/
import PagexmlModel.Lemmas.C19Dist
import PagexmlModel.Lemmas.C19Sort
import PagexmlModel.Lemmas.C19Stack
import PagexmlModel.Lemmas.C19Height
import PagexmlModel.Lemmas.C19Stats
import PagexmlModel.Lemmas.C19Mono
import PagexmlModel.Props.C03

namespace Pagexml.C19
open Pagexml.C03 (Pt Coords mkCoords)

/-! ### shift by d ⇒ every sample distance is d -/

/-- The distances between a polyline baseline and its copy shifted down by `d ≥ 0` are all
    exactly `d` — one per interpolated sample — for every baseline, every step and WHATEVER
    the float expression `mdt` computes (both interpolations use the same truncated term).
    With step 0 the code raises ZeroDivisionError as soon as a segment is not vertical. -/
theorem C19_shift (mdt : MulDivTrunc) (pts : List Pt) (step d : Int) (hd : 0 ≤ d) :
    pointsDistances mdt pts (shiftDown d pts) step =
      if step = 0 && hasNonVertical pts then .error .ZeroDivisionError
      else .ok (List.replicate (interpBaselinePure mdt pts step).length d) := by
  exact pointsDistances_shift mdt pts step d hd

example : pointsDistances exactMdt [(3, 10), (27, 4), (61, 9)] (shiftDown 7 [(3, 10), (27, 4), (61, 9)]) 5
    = .ok (List.replicate 12 7) := by decide

/-- `compute_baseline_distances` of a line and its shifted copy when at least one sample exists -/
theorem C19_shift_baseline (mdt : MulDivTrunc) (pts : List Pt) (step d : Int) (hd : 0 ≤ d) (hs : step ≠ 0)
    (hne : interpBaselinePure mdt pts step ≠ []) :
    baselineDistances mdt pts (shiftDown d pts) step =
      .ok (List.replicate (interpBaselinePure mdt pts step).length d) := by
  exact baselineDistances_shift mdt pts step d hd hs hne

example : interpBaselinePure exactMdt [(3, 10), (27, 4), (61, 9)] 5 ≠ [] := by decide

/-- Without any sample (a line too short to meet the step grid) the single fallback distance of
    the shifted copy is `d` again.  Side conditions that remain, both necessary:
    * some segment is not vertical (otherwise `total_width == 0` and the code returns 0 for
      both lines whatever their height);
    * the baseline lies at non-negative y (`int()` truncates towards zero, so a negative
      mean is rounded up while a positive one is rounded down — see the example below).
    Holds for every polyline, including baselines that double back in x (since fix 6c1407f
    the mean is weighted by the summed segment widths). -/
theorem C19_shift_fallback (mdt : MulDivTrunc) (pts : List Pt) (step d : Int) (hd : 0 ≤ d) (hs : step ≠ 0)
    (hempty : interpBaselinePure mdt pts step = [])
    (hy : ∀ p ∈ pts, 0 ≤ p.2) (hnv : hasNonVertical pts = true) :
    baselineDistances mdt pts (shiftDown d pts) step = .ok [d] :=
  baselineDistances_shift_fallback mdt pts step d hd hs hempty hy hnv

example : interpBaselinePure exactMdt [(3, 100), (40, 101)] 50 = [] ∧ hasNonVertical [(3, 100), (40, 101)] = true := by
  decide

/-- regression of C19:avg-height-doubling-back: the baseline that doubles back in x -/
example : baselineDistances exactMdt [(4, 0), (0, 7), (4, 0)] (shiftDown 1 [(4, 0), (0, 7), (4, 0)]) 5 = .ok [1]
    ∧ avgHeight [(4, 0), (0, 7), (4, 0)] = .ok 3 := by decide

/-- why `hy` is needed: at negative y truncation towards zero loses the shift -/
example : baselineDistances exactMdt [(1, -1), (2, 0)] (shiftDown 1 [(1, -1), (2, 0)]) 5 = .ok [0] := by decide

/-- why `hnv` is needed: a baseline without width has "average height" 0 wherever it is -/
example : baselineDistances exactMdt [(7, 7), (7, 30)] (shiftDown 5 [(7, 7), (7, 30)]) 50 = .ok [0] := by decide

/-- the formula used before fix 6c1407f: divide by the width of the bounding box -/
private def avgHeightOldBoxWidth (pts : List Pt) (lo hi : Int) : Int := Int.tdiv (twiceTotal pts) (2 * (hi - lo))

/-- the OLD formula on the doubling-back baseline gave 7 and 9 (distance 2 for a shift of 1) -/
example : avgHeightOldBoxWidth [(4, 0), (0, 7), (4, 0)] 0 4 = 7 ∧
    avgHeightOldBoxWidth (shiftDown 1 [(4, 0), (0, 7), (4, 0)]) 0 4 = 9 := by decide

/-! ### non-negative, symmetric -/

/-- All distances are ≥ 0, and `distances a b` is a permutation of `distances b a` (as lists the
    two can differ only in the order of the samples, which is the order of first insertion into
    the interpolation dict of the first argument). -/
theorem C19_nonneg_symm (mdt : MulDivTrunc) (a b : List Pt) (step : Int) (ds : List Int)
    (h : baselineDistances mdt a b step = .ok ds) :
    (∀ x ∈ ds, 0 ≤ x) ∧ ∃ ds', baselineDistances mdt b a step = .ok ds' ∧ ds.Perm ds' := by
  unfold baselineDistances at h
  obtain ⟨ps, hps, h⟩ := bind_ok.mp h
  obtain ⟨ha, hb, rfl⟩ := pointsDistances_ok hps
  have hrev := pointsDistances_of_ok hb ha
  have hperm := distOf_perm (nodup_keys_interpBaselinePure mdt a step) (nodup_keys_interpBaselinePure mdt b step)
  unfold baselineDistances
  rw [hrev]
  simp only [bind, Except.bind]
  split at h
  · rename_i hem
    obtain ⟨a1, h1, h⟩ := bind_ok.mp h
    obtain ⟨a2, h2, h⟩ := bind_ok.mp h
    simp only [pure, Except.pure, Except.ok.injEq] at h
    subst h
    have hem' : (distOf (interpBaselinePure mdt b step) (interpBaselinePure mdt a step)).isEmpty = true := by
      rw [List.isEmpty_iff] at hem ⊢
      rw [hem] at hperm
      exact List.perm_nil.mp hperm.symm
    refine ⟨?_, [iabs (a2 - a1)], ?_, ?_⟩
    · intro x hx; simp at hx; subst hx; unfold iabs; omega
    · simp [hem', h1, h2, pure, Except.pure]
    · have : iabs (a1 - a2) = iabs (a2 - a1) := by unfold iabs; omega
      rw [this]
  · rename_i hem
    simp only [pure, Except.pure, Except.ok.injEq] at h
    subst h
    have hem' : (distOf (interpBaselinePure mdt b step) (interpBaselinePure mdt a step)).isEmpty = false := by
      cases hd : distOf (interpBaselinePure mdt b step) (interpBaselinePure mdt a step) with
      | nil =>
        rw [hd] at hperm
        have := List.perm_nil.mp hperm
        simp [this] at hem
      | cons x r => rfl
    refine ⟨fun x hx => distOf_nonneg hx, _, ?_, hperm⟩
    simp [hem', pure, Except.pure]

example : baselineDistances exactMdt [(50, 0), (100, 0), (0, 0)] [(0, 0), (100, 100)] 10
    = .ok [60, 70, 80, 90, 100, 10, 20, 30, 40, 50] := by decide
example : baselineDistances exactMdt [(0, 0), (100, 100)] [(50, 0), (100, 0), (0, 0)] 10
    = .ok [10, 20, 30, 40, 50, 60, 70, 80, 90, 100] := by decide

/-- For two baselines that both run left to right (x never decreases along the points) the
    samples come in increasing x order, and the distances are equal AS LISTS in both argument
    orders. -/
theorem C19_symm_monotone (mdt : MulDivTrunc) (a b : List Pt) (step : Int) (ds : List Int) (hs : 0 < step)
    (hma : XMonotone a) (hmb : XMonotone b)
    (h : baselineDistances mdt a b step = .ok ds) : baselineDistances mdt b a step = .ok ds := by
  unfold baselineDistances at h
  obtain ⟨ps, hps, h⟩ := bind_ok.mp h
  obtain ⟨ha, hb, rfl⟩ := pointsDistances_ok hps
  have hrev := pointsDistances_of_ok hb ha
  have hcomm := distOf_comm_of_sorted (keys_sorted_of_monotone mdt hs hma) (keys_sorted_of_monotone mdt hs hmb)
  unfold baselineDistances
  rw [hrev, ← hcomm]
  simp only [bind, Except.bind]
  split at h
  · rename_i hem
    obtain ⟨a1, h1, h⟩ := bind_ok.mp h
    obtain ⟨a2, h2, h⟩ := bind_ok.mp h
    simp only [pure, Except.pure, Except.ok.injEq] at h
    subst h
    have : iabs (a1 - a2) = iabs (a2 - a1) := by unfold iabs; omega
    simp [hem, h1, h2, pure, Except.pure, this]
  · rename_i hem
    simp only [pure, Except.pure, Except.ok.injEq] at h
    subst h
    simp [hem, pure, Except.pure]

example : XMonotone [(0, 0), (100, 100)] ∧ XMonotone [(0, 5), (50, 0), (50, 9), (100, 0)] ∧
    baselineDistances exactMdt [(0, 0), (100, 100)] [(0, 5), (50, 0), (50, 9), (100, 0)] 10
      = .ok [6, 17, 28, 39, 50, 52, 64, 76, 88, 100] := by
  refine ⟨by simp [XMonotone], by simp [XMonotone], by decide⟩

/-! ### fallback -/

/-- No common sample ⇒ a single element, the absolute difference of the two average heights. -/
theorem C19_fallback (mdt : MulDivTrunc) (a b : List Pt) (step : Int) (h1 h2 : Int)
    (hnone : pointsDistances mdt a b step = .ok [])
    (ha : avgHeight a = .ok h1) (hb : avgHeight b = .ok h2) :
    baselineDistances mdt a b step = .ok [iabs (h1 - h2)] := by
  unfold baselineDistances
  rw [hnone]
  simp [bind, Except.bind, ha, hb, pure, Except.pure]

example : pointsDistances exactMdt [(0, 10), (100, 10)] [(200, 50), (300, 70)] 50 = .ok [] ∧
    avgHeight [(0, 10), (100, 10)] = .ok 10 ∧ avgHeight [(200, 50), (300, 70)] = .ok 60 := by decide

/-- Baselines without horizontal overlap share no sample (so the fallback applies). -/
theorem C19_fallback_no_overlap (mdt : MulDivTrunc) (a b : List Pt) (step : Int) (hs : 0 < step)
    (hsep : ∀ p ∈ a, ∀ q ∈ b, p.1 < q.1) :
    pointsDistances mdt a b step = .ok [] ∧ pointsDistances mdt b a step = .ok [] := by
  have hs' : step ≠ 0 := by omega
  have key : ∀ x, x ∈ keys (interpBaselinePure mdt a step) → x ∈ keys (interpBaselinePure mdt b step) → False := by
    intro x hxa hxb
    obtain ⟨⟨x1, y1⟩, he1, rfl⟩ := List.mem_map.mp hxa
    obtain ⟨⟨x2, y2⟩, he2, hx⟩ := List.mem_map.mp hxb
    simp only at hx; subst hx
    obtain ⟨pq1, hp1, hne1, hm1⟩ := mem_interpBaselinePure he1
    obtain ⟨pq2, hp2, hne2, hm2⟩ := mem_interpBaselinePure he2
    have r1 := (mem_interpSegPure hs hne1).mp hm1
    have r2 := (mem_interpSegPure hs hne2).mp hm2
    obtain ⟨m1, m2⟩ := mem_of_mem_pairs (p := pq1.1) (q := pq1.2) hp1
    obtain ⟨n1, n2⟩ := mem_of_mem_pairs (p := pq2.1) (q := pq2.2) hp2
    have := hsep _ m1 _ n1; have := hsep _ m1 _ n2; have := hsep _ m2 _ n1; have := hsep _ m2 _ n2
    omega
  have empty : ∀ d1 d2 : Dict, (∀ x, x ∈ keys d1 → x ∈ keys d2 → False) → distOf d1 d2 = [] := by
    intro d1 d2 hk
    unfold distOf
    apply List.filterMap_eq_nil_iff.mpr
    intro e he
    cases hg : dictGet? d2 e.1 with
    | none => rfl
    | some v =>
      exact (hk e.1 (List.mem_map.mpr ⟨e, he, rfl⟩)
        ((dictGet?_isSome_iff d2 e.1).mp (by simp [hg]))).elim
  constructor
  · rw [pointsDistances_of_ok (interpBaseline_of_ne hs') (interpBaseline_of_ne hs'), empty _ _ key]
  · rw [pointsDistances_of_ok (interpBaseline_of_ne hs') (interpBaseline_of_ne hs'),
      empty _ _ (fun x h1 h2 => key x h2 h1)]

example : ∀ p ∈ [((0 : Int), (10 : Int)), (100, 10)], ∀ q ∈ [((200 : Int), (50 : Int)), (300, 70)], p.1 < q.1 := by
  decide

/-! ### interpolated points lie on the grid, inside the x-range, between the neighbours -/

/-- Every interpolated point `(x, y)`: `x` is a multiple of the step, and some pair of
    neighbouring baseline points `p, q` (with different x) has `x` in `(min x, max x]` and `y`
    between their y values.  (When two segments sample the same x, the dict keeps the y of the
    last one; the statement holds for that segment.)  Needs `|mdt k a b| ≤ |a|` and the sign law. -/
theorem C19_interp_grid (mdt : MulDivTrunc) (laws : MulDivTruncLaws mdt) (pts : List Pt) (step : Int)
    (hs : 0 < step) (x y : Int) (h : (x, y) ∈ interpBaselinePure mdt pts step) :
    step ∣ x ∧ ∃ p q, (p, q) ∈ pairs pts ∧ p ∈ pts ∧ q ∈ pts ∧
      min p.1 q.1 < x ∧ x ≤ max p.1 q.1 ∧ min p.2 q.2 ≤ y ∧ y ≤ max p.2 q.2 := by
  obtain ⟨pq, hpq, hne, hm⟩ := mem_interpBaselinePure h
  obtain ⟨h1, h2, h3, h4⟩ := (mem_interpSegPure hs hne).mp hm
  obtain ⟨m1, m2⟩ := mem_of_mem_pairs (p := pq.1) (q := pq.2) hpq
  refine ⟨h1, pq.1, pq.2, hpq, m1, m2, h2, h3, ?_⟩
  by_cases hgt : pq.1.1 > pq.2.1
  · simp only [hgt, ↓reduceIte] at h4
    have := between_of_laws laws (k := x - pq.2.1) (b := pq.1.1 - pq.2.1) (y1 := pq.2.2) (y2 := pq.1.2)
      (by omega) (by omega) (by omega)
    omega
  · simp only [hgt, ↓reduceIte] at h4
    have := between_of_laws laws (k := x - pq.1.1) (b := pq.2.1 - pq.1.1) (y1 := pq.1.2) (y2 := pq.2.2)
      (by omega) (by omega) (by omega)
    omega

example : MulDivTruncLaws exactMdt ∧ ((10 : Int), (9 : Int)) ∈ interpBaselinePure exactMdt [(3, 10), (27, 4), (61, 9)] 5 :=
  ⟨exactMdt_laws, by decide⟩

/-- Conversely every multiple of the step in `(min x, max x]` of a non-vertical segment is
    sampled (for every `mdt`): the interpolation misses no grid point. -/
theorem C19_interp_complete (mdt : MulDivTrunc) (pts : List Pt) (step : Int) (hs : 0 < step)
    (p q : Pt) (hpq : (p, q) ∈ pairs pts) (x : Int) (hd : step ∣ x)
    (h1 : min p.1 q.1 < x) (h2 : x ≤ max p.1 q.1) :
    x ∈ keys (interpBaselinePure mdt pts step) := by
  have hne : q.1 ≠ p.1 := by omega
  have hm := (mem_interpSegPure (mdt := mdt) hs hne (x := x)).mpr ⟨hd, h1, h2, rfl⟩
  exact (keys_fold_mono mdt step (pairs pts) []).2 (p, q) hpq hne _ hm

example : ((27 : Int), (4 : Int), (61 : Int), (9 : Int)) = (27, 4, 61, 9) ∧
    (((27 : Int), (4 : Int)), ((61 : Int), (9 : Int))) ∈ pairs [((3 : Int), (10 : Int)), (27, 4), (61, 9)] ∧ (5 : Int) ∣ 30 := by
  refine ⟨rfl, by decide, by decide⟩

/-- … hence inside the bounding box of the baseline. -/
theorem C19_interp_in_box (mdt : MulDivTrunc) (laws : MulDivTruncLaws mdt) (pts : List Pt) (step : Int)
    (hs : 0 < step) (x y : Int) (h : (x, y) ∈ interpBaselinePure mdt pts step) (c : Coords)
    (hc : mkCoords pts = .ok c) :
    c.left < x ∧ x ≤ c.right ∧ c.top ≤ y ∧ y ≤ c.bottom := by
  obtain ⟨_, p, q, _, hp, hq, h1, h2, h3, h4⟩ := C19_interp_grid mdt laws pts step hs x y h
  have hne : pts ≠ [] := by intro e; subst e; cases hp
  obtain ⟨c', hc', box⟩ := C03.C03_exact_box pts hne
  rw [hc] at hc'; cases hc'
  have := box.left_le p hp; have := box.left_le q hq
  have := box.right_ge p hp; have := box.right_ge q hq
  have := box.top_le p hp; have := box.top_le q hq
  have := box.bottom_ge p hp; have := box.bottom_ge q hq
  omega

example : mkCoords [(3, 10), (27, 4), (61, 9)] = .ok ⟨[(3, 10), (27, 4), (61, 9)], 3, 4, 58, 6⟩ := by decide

/-! ### above / below the baseline without loss -/

/-- When the line's coordinates and baseline overlap horizontally and the baseline has at
    least one interpolated point, the coordinate points are split into `above` and `below`
    without loss or duplication: `above ++ below` is a permutation of the coordinate points. -/
theorem C19_above_below_lossless (mdt : MulDivTrunc) (coords baseline : List Pt) (step : Int)
    (c b : Coords) (hc : mkCoords coords = .ok c) (hb : mkCoords baseline = .ok b)
    (hov1 : ¬ c.right < b.left) (hov2 : ¬ c.left > b.right) (hs : step ≠ 0)
    (hne : interpBaselinePure mdt baseline step ≠ []) :
    ∃ above below, sortAboveBelow mdt coords baseline step = .ok (above, below) ∧
      (above ++ below).Perm coords := by
  refine ⟨(goAB (interpBaselinePure mdt baseline step) (isort (fun p q => decide (p.1 ≤ q.1)) coords)).1,
    isort (fun p q : Pt => decide (p.1 ≥ q.1))
      (goAB (interpBaselinePure mdt baseline step) (isort (fun p q => decide (p.1 ≤ q.1)) coords)).2, ?_, ?_⟩
  · unfold sortAboveBelow
    simp only [hc, hb, bind, Except.bind, hov1, hov2, ↓reduceIte, interpBaseline_of_ne hs, pure, Except.pure]
  · have h1 := goAB_perm hne (isort (fun p q => decide (p.1 ≤ q.1)) coords)
    have h2 := isort_perm (fun p q : Pt => decide (p.1 ≥ q.1))
      (goAB (interpBaselinePure mdt baseline step) (isort (fun p q => decide (p.1 ≤ q.1)) coords)).2
    exact ((List.Perm.append_left _ h2).trans h1).trans (isort_perm _ coords)

example : mkCoords [(10, 60), (510, 60), (510, 110), (10, 110)] = .ok ⟨[(10, 60), (510, 60), (510, 110), (10, 110)], 10, 60, 500, 50⟩
    ∧ mkCoords [(10, 100), (510, 100)] = .ok ⟨[(10, 100), (510, 100)], 10, 100, 500, 0⟩
    ∧ interpBaselinePure exactMdt [(10, 100), (510, 100)] 50 ≠ []
    ∧ sortAboveBelow exactMdt [(10, 60), (510, 60), (510, 110), (10, 110)] [(10, 100), (510, 100)] 50
        = .ok ([(10, 60), (510, 60)], [(510, 110), (10, 110)]) := by decide

/-- without any interpolated point every coordinate point is lost (why `hne` is needed) -/
example : sortAboveBelow exactMdt [(12, 60), (14, 60), (14, 110), (12, 110)] [(12, 100), (14, 100)] 50
    = .ok ([], []) := by decide

/-! ### line-width categories -/

/-- `categorise_line_width` returns one of the ranges of `get_boundary_width_ranges`; for
    strictly increasing boundary points and a width ≥ 0 that range contains the width and is
    the only range containing it. -/
theorem C19_width_category (w : Int) (bps : List Int) :
    categorise w bps ∈ ranges bps ∧
    (0 ≤ w → bps.Pairwise (· < ·) →
      (categorise w bps).contains w ∧ ∀ r ∈ ranges bps, r.contains w → r = categorise w bps) := by
  refine ⟨catFrom_mem 0 w bps, fun hw hs => ⟨catFrom_contains hw, fun r hr hc => catFrom_unique hs hr hc⟩⟩

example : categorise 100 [100, 600] = (100, some 600) ∧ ranges [100, 600] = [(0, some 100), (100, some 600), (600, none)]
    ∧ [(100 : Int), 600].Pairwise (· < ·) := by decide

/-- for boundary points that are not increasing two ranges can contain the width (why sortedness is needed) -/
example : categorise 7 [10, 5] = (0, some 10) ∧ ((5, none) : WRange) ∈ ranges [10, 5] ∧ WRange.contains (5, none) 7 := by
  refine ⟨by decide, by decide, ?_⟩
  simp [WRange.contains]

/-- `get_line_width_stats`: the keys are exactly the ranges and the counts add up to the number of lines. -/
theorem C19_width_counts (ws bps : List Int) :
    ((widthStats ws bps).map (·.2)).sum = ws.length ∧
    (∀ kv ∈ widthStats ws bps, kv.1 ∈ ranges bps) ∧ (∀ r ∈ ranges bps, r ∈ (widthStats ws bps).map (·.1)) ∧
    ((widthStats ws bps).map (·.1)).Nodup := by
  have hcat : ∀ a ∈ ws.map (fun w => categorise w bps), a ∈ ranges bps := by
    intro a ha
    obtain ⟨w, _, rfl⟩ := List.mem_map.mp ha
    exact catFrom_mem 0 w bps
  unfold widthStats
  simp only [List.map_map, Function.comp_def, List.map_id']
  refine ⟨?_, ?_, ?_, dedup_nodup _⟩
  · rw [sum_counts (dedup_nodup _) _ (fun a ha => (dedup_mem _ a).mpr (List.mem_append_right _ ha))]
    simp
  · intro kv hkv
    obtain ⟨r, hr, rfl⟩ := List.mem_map.mp hkv
    rcases List.mem_append.mp ((dedup_mem _ r).mp hr) with h | h
    · exact h
    · exact hcat r h
  · intro r hr
    exact (dedup_mem _ r).mpr (List.mem_append_left _ hr)

example : widthStats [0, 99, 100, 101, 600, 601] [100, 600]
    = [((0, some 100), 2), ((100, some 600), 2), ((600, none), 2)] := by decide

/-! ### regular stacks: n lines, leading Δ, common width w, text length m -/

/-- A region holding `n ≥ 2` copies of one baseline shape (any polyline that is sampled at least
    once at the step of the line-distance functions, `lineStep` — regenerated from the source, 50 at the time
    of writing —), each `Δ ≥ 0` below the previous one: the average line distance is exactly
    `Δ`, macro and micro, whatever `mdt` computes and whatever the polygons are. -/
theorem C19_avg_line_distance (mdt : MulDivTrunc) (rc : List Pt) (sid cid : Option Int) (shape : List Pt)
    (coordsOf : Nat → List Pt) (m sp : Nat) (Δ : Int) (hΔ : 0 ≤ Δ) (n : Nat) (hn : 2 ≤ n)
    (hk : interpBaselinePure mdt shape lineStep ≠ []) (t : AvgType) (ht : t = .macro ∨ t = .micro) :
    ∃ q, avgLineDistance mdt (stackRegion rc sid cid shape coordsOf m sp Δ n) t = .ok q ∧
      0 < q.2 ∧ q.1 = Δ * q.2 := by
  obtain ⟨n', rfl⟩ : ∃ n', n = n' + 1 + 1 := ⟨n - 2, by omega⟩
  have hd := lineDist_stack mdt shape coordsOf m sp Δ hΔ hk
  have h := regionLineDistances_stack mdt rc sid cid shape coordsOf m sp Δ _ hd (n' + 1)
  have hk' : 0 < (interpBaselinePure mdt shape lineStep).length := by
    cases hi : interpBaselinePure mdt shape lineStep with
    | nil => exact absurd hi hk
    | cons a r => simp
  exact avg_of_constant mdt _ (n' + 1) _ (by omega) hk' Δ h t ht

example : interpBaselinePure exactMdt [(10, 100), (510, 104)] lineStep ≠ [] := by decide

/-- The same for a stack too narrow to be sampled (the fallback to average heights).  Remaining
    side conditions: some segment of the shape is not vertical, and the shape lies at
    non-negative y (see `C19_shift_fallback`).  Any polyline shape, doubling back or not. -/
theorem C19_avg_line_distance_narrow (mdt : MulDivTrunc) (rc : List Pt) (sid cid : Option Int)
    (shape : List Pt) (coordsOf : Nat → List Pt) (m sp : Nat) (Δ : Int) (hΔ : 0 ≤ Δ) (n : Nat) (hn : 2 ≤ n)
    (hk : interpBaselinePure mdt shape lineStep = []) (hy : ∀ p ∈ shape, 0 ≤ p.2)
    (hnv : hasNonVertical shape = true) (t : AvgType) (ht : t = .macro ∨ t = .micro) :
    ∃ q, avgLineDistance mdt (stackRegion rc sid cid shape coordsOf m sp Δ n) t = .ok q ∧
      0 < q.2 ∧ q.1 = Δ * q.2 := by
  obtain ⟨n', rfl⟩ : ∃ n', n = n' + 1 + 1 := ⟨n - 2, by omega⟩
  have hd := lineDist_stack_narrow mdt shape coordsOf m sp Δ hΔ hk hy hnv
  have h := regionLineDistances_stack mdt rc sid cid shape coordsOf m sp Δ _ hd (n' + 1)
  exact avg_of_constant mdt _ (n' + 1) 1 (by omega) (by omega) Δ h t ht

example : interpBaselinePure exactMdt [(1, 100), (3, 104), (2, 99), (4, 101)] lineStep = [] ∧
    (∀ p ∈ [((1 : Int), (100 : Int)), (3, 104), (2, 99), (4, 101)], 0 ≤ p.2) ∧
    hasNonVertical [(1, 100), (3, 104), (2, 99), (4, 101)] = true := by decide
example : interpBaselinePure exactMdt [(3, 100), (20, 104), (12, 99), (40, 101)] 50 = [] := by decide

/-- Average character width of a stack of `n` lines whose baselines have width `w` and whose texts
    have `m` characters: total baseline width over total characters, `n·w / (n·m)`. -/
theorem C19_avg_char_width (rc : List Pt) (sid cid : Option Int) (shape : List Pt) (coordsOf : Nat → List Pt)
    (m sp : Nat) (Δ : Int) (n : Nat) (hn : 0 < n) (hm : 0 < m) (cs : Coords) (hcs : mkCoords shape = .ok cs) :
    avgCharWidth (stackRegion rc sid cid shape coordsOf m sp Δ n) = .ok ((n : Int) * cs.width, (n : Int) * (m : Int)) := by
  unfold avgCharWidth
  rw [allLines_stack]
  rw [foldlM_const _ cs.width (m : Int)]
  · simp only [stackFrom_length, bind, Except.bind, Int.zero_add, pure, Except.pure]
    have : (n : Int) * (m : Int) ≠ 0 := Int.mul_ne_zero (by omega) (by omega)
    simp [this]
  · intro acc l hl
    obtain ⟨j, rfl⟩ := mem_stackFrom hl
    rw [show (stackLine shape coordsOf m sp Δ j).text = some (m, sp) from rfl]
    simp only [measureWidth_stackLine shape coordsOf m sp Δ j hcs, bind, Except.bind, pure, Except.pure]

/-- Average line width of such a stack: the common width `w` in pixels, the common text length in characters. -/
theorem C19_avg_line_width (rc : List Pt) (sid cid : Option Int) (shape : List Pt) (coordsOf : Nat → List Pt)
    (m sp : Nat) (Δ : Int) (n : Nat) (hn : 0 < n) (cs : Coords) (hcs : mkCoords shape = .ok cs) :
    avgLineWidth (stackRegion rc sid cid shape coordsOf m sp Δ n) .pixel = .ok ((n : Int) * cs.width, (n : Int)) ∧
    avgLineWidth (stackRegion rc sid cid shape coordsOf m sp Δ n) .char = .ok ((n : Int) * (m : Int), (n : Int)) := by
  constructor
  · unfold avgLineWidth
    rw [allLines_stack]
    simp only [reduceCtorEq, ↓reduceIte, bind, Except.bind]
    rw [foldlM_const _ cs.width 1]
    · simp only [stackFrom_length, Int.zero_add, Int.mul_one, pure, Except.pure]
      have hn0 : n ≠ 0 := by omega
      simp [hn0]
    · intro acc l hl
      obtain ⟨j, rfl⟩ := mem_stackFrom hl
      rw [show (stackLine shape coordsOf m sp Δ j).text = some (m, sp) from rfl]
      simp only [measureWidth_stackLine shape coordsOf m sp Δ j hcs, bind, Except.bind, pure, Except.pure]
  · unfold avgLineWidth
    rw [allLines_stack]
    simp only [reduceCtorEq, ↓reduceIte, bind, Except.bind]
    rw [foldlM_const _ (m : Int) 1]
    · simp only [stackFrom_length, Int.zero_add, Int.mul_one, pure, Except.pure]
      have hn0 : n ≠ 0 := by omega
      simp [hn0]
    · intro acc l hl
      obtain ⟨j, rfl⟩ := mem_stackFrom hl
      rw [show (stackLine shape coordsOf m sp Δ j).text = some (m, sp) from rfl]
      simp only [measureWidth_stackLine shape coordsOf m sp Δ j hcs, bind, Except.bind, pure, Except.pure]

example : mkCoords [(10, 100), (510, 104)] = .ok ⟨[(10, 100), (510, 104)], 10, 100, 500, 4⟩ := by decide
example : avgCharWidth (stackRegion [(0, 0)] none none [(10, 100), (510, 104)] (fun _ => [(0, 0)]) 25 3 37 4)
    = .ok (2000, 100) := by decide

/-! ### the regenerated literals

The model reads the step of the line-distance functions (`lineStep`, `bboxStep`), the fall-back step
of get_text_heights (`fallbackStep`), the thresholds of the is_*_overlapping calls and the divisor of
in_same_column from `Generated/C19.lean`, rewritten from the source on every run.  The theorems on
interpolation, distances and heights are stated for EVERY step; the region-level theorems use the
regenerated step as an unknown number.  Only these two facts about the values are used. -/

/-- the step of the line-distance functions is not 0 (used by `C19_avg_line_distance(_narrow)`) -/
theorem C19_consts_line_step_nonzero : lineStep ≠ 0 := consts_line_step_nonzero

/-- the narrow-line step of get_text_heights is positive: for every positive step passed, the step in effect
    is positive, so `C19_text_height` applies to every call with a positive step -/
theorem C19_consts_fallback_step_pos (w step : Int) (h : 0 < step) :
    0 < fallbackStep ∧ 0 < (if w ≤ step then fallbackStep else step) := by
  refine ⟨consts_fallback_step_pos, ?_⟩
  split
  · exact consts_fallback_step_pos
  · exact h

example : (0 : Int) < (if (30 : Int) ≤ 50 then fallbackStep else 50) := (C19_consts_fallback_step_pos 30 50 (by decide)).2

/-! ### text height -/

/-- Rectangle `x0..x1 × top..bottom` (points listed clockwise from the top-left corner) with the
    horizontal baseline `y = yb` from `x0` to `x1`, `top < yb ≤ bottom`.  `get_text_heights`
    uses the fall-back step (`fallbackStep`, regenerated from the source; 5 at the time of writing) when the
    baseline is not wider than the step.  Exact preconditions found:
    * at least one multiple of the effective step in `(x0, x1]`  ⇒  every returned height is
      `yb − top`, one per such multiple;
    * no such multiple  ⇒  `None` (all coordinate points are dropped by the split).
    Needs the law `mdt k 0 b = 0` (from `|mdt k a b| ≤ |a|`). -/
theorem C19_text_height (mdt : MulDivTrunc) (laws : MulDivTruncLaws mdt) (x0 x1 top bottom yb step : Int)
    (hx : x0 < x1) (ht : top < yb) (hb : yb ≤ bottom) (s : Int)
    (hs : s = if x1 - x0 ≤ step then fallbackStep else step) (hpos : 0 < s) :
    ((∃ x, s ∣ x ∧ x0 < x ∧ x ≤ x1) →
      ∃ k, 0 < k ∧ textHeights mdt [(x0, top), (x1, top), (x1, bottom), (x0, bottom)] [(x0, yb), (x1, yb)] step
        = .ok (some (List.replicate k (yb - top)))) ∧
    ((¬ ∃ x, s ∣ x ∧ x0 < x ∧ x ≤ x1) →
      textHeights mdt [(x0, top), (x1, top), (x1, bottom), (x0, bottom)] [(x0, yb), (x1, yb)] step = .ok none) := by
  have hT : textHeights mdt [(x0, top), (x1, top), (x1, bottom), (x0, bottom)] [(x0, yb), (x1, yb)] step
      = textHeightsAt mdt [(x0, top), (x1, top), (x1, bottom), (x0, bottom)] [(x0, yb), (x1, yb)] s := by
    unfold textHeights
    rw [mkCoords_two (by omega)]
    simp only [bind, Except.bind, Coords.width, hs]
    rfl
  rw [hT, textHeightsAt_rect mdt laws hx ht hb hpos]
  constructor
  · rintro ⟨x, h1, h2, h3⟩
    have hm : x ∈ sampleXs x0 x1 s := (mem_sample_range hpos).mpr ⟨h1, h2, h3⟩
    have hne : (sampleXs x0 x1 s).isEmpty = false := by
      cases hl : sampleXs x0 x1 s with
      | nil => rw [hl] at hm; cases hm
      | cons a r => rfl
    refine ⟨(sampleXs x0 x1 s).length, ?_, by simp [hne]⟩
    cases hl : sampleXs x0 x1 s with
    | nil => rw [hl] at hm; cases hm
    | cons a r => simp
  · intro hno
    have : (sampleXs x0 x1 s).isEmpty = true := by
      cases hl : sampleXs x0 x1 s with
      | nil => rfl
      | cons a r =>
        have hm : a ∈ sampleXs x0 x1 s := by rw [hl]; exact List.mem_cons_self
        exact (hno ⟨a, (mem_sample_range hpos).mp hm⟩).elim
    simp [this]

example : textHeights exactMdt [(10, 60), (510, 60), (510, 110), (10, 110)] [(10, 100), (510, 100)] 50
    = .ok (some (List.replicate 10 40)) := by decide
example : textHeights exactMdt [(12, 60), (14, 60), (14, 110), (12, 110)] [(12, 100), (14, 100)] 50
    = .ok none := by decide
/-- why `yb ≤ bottom` is needed: a bottom edge above the baseline joins the "above" points -/
example : textHeights exactMdt [(10, 60), (110, 60), (110, 90), (10, 90)] [(10, 100), (110, 100)] 50
    = .ok (some [22, 37]) := by decide

/-! ### per-type statistics of flat documents -/

/-- `compute_pagexml_stats` on any list of flat documents (scans holding regions, pages holding
    columns and regions, columns, regions, lines — no region nested in a region): the
    `stats["textregion"]["height"]` counter receives exactly one observation per text region and
    `stats["line"]["height"]` exactly one per line, i.e. every region and every line is counted once.
    `sorted()` (geometric `__lt__`, no total order) enters only as "returns a permutation". -/
theorem C19_flat_stats (mdt : MulDivTrunc) (docs : List Doc) (sortedTopRegions : List FlatRegion)
    (sortedTopLines : List Line) (evs : List Event)
    (hsorted : ∀ d ∈ docs, d.Sorted)
    (htr : sortedTopRegions.Perm (docs.flatMap Doc.topR)) (htl : sortedTopLines.Perm (docs.flatMap Doc.topL))
    (h : pagexmlStats mdt docs sortedTopRegions sortedTopLines = .ok evs) :
    cnt "textregion" "height" evs = totalRegions docs ∧ cnt "line" "height" evs = totalLines docs :=
  pagexmlStats_counts hsorted htr htl h

private def exLine (y : Int) : Line :=
  { coords := [(0, y), (100, y), (100, y + 30), (0, y + 30)], baseline := some [(0, y + 25), (100, y + 25)], text := some (3, 0) }
private def exRegion : FlatRegion :=
  { coords := [(0, 0), (100, 90)], lines := [exLine 0, exLine 40], sortedLines := [exLine 0, exLine 40] }
private def exDocs : List Doc := [.scan [(0, 0), (100, 200)] [exRegion] [exRegion], .region exRegion, .line (exLine 300)]

example : (∀ d ∈ exDocs, d.Sorted) ∧ [exRegion].Perm (exDocs.flatMap Doc.topR) ∧ [exLine 300].Perm (exDocs.flatMap Doc.topL) := by
  refine ⟨?_, List.Perm.refl _, List.Perm.refl _⟩
  intro d hd
  simp only [exDocs, List.mem_cons, List.not_mem_nil, or_false] at hd
  rcases hd with rfl | rfl | rfl
  · exact ⟨List.Perm.refl _, fun r hr => by simp at hr; subst hr; exact List.Perm.refl _⟩
  · exact List.Perm.refl _
  · trivial

example : ∃ evs, pagexmlStats exactMdt exDocs [exRegion] [exLine 300] = .ok evs ∧
    cnt "textregion" "height" evs = 2 ∧ cnt "line" "height" evs = 5 ∧ totalRegions exDocs = 2 ∧ totalLines exDocs = 5 := by
  refine ⟨_, rfl, ?_⟩
  decide

end Pagexml.C19
