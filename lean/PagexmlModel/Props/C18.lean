/-
C18 — Column splitting terminates, keeps every line once, separates on real gaps.
Property theorems only; helper lemmas are in Lemmas/C18*.lean, the concrete values used by the
non-vacuity examples (`exLines`, `exReg`) and `PlainReg` in Lemmas/C18Ex.lean.
Every theorem quantifies over all line lists (no bound on their number or on coordinates).
-/
import PagexmlModel.Lemmas.C18Sep
import PagexmlModel.Lemmas.C18Tr2
import PagexmlModel.Lemmas.C18Ex

namespace Pagexml.C18

/-! ### the regenerated literals and defaults

The model reads the defaults of split_lines_on_column_gaps, the `N` of `max(gap_threshold, N)`, the
`min_column_width` of the recursive call and its guard, and the threshold with which
is_horizontally_overlapping is reached from `Generated/C18.lean`, rewritten from the source on every
run.  No proof unfolds these constants except the statements of this section: every other theorem
holds for all their values, given these relations.  `gap_threshold` and `min_column_width` are
universally quantified in all theorems, so their defaults are covered whatever they are. -/

/-- adjacent covered pixels are never a gap: `2 ≤ N` for the `N` of `max(gap_threshold, N)` -/
theorem C18_consts_min_gap_ge_two : 2 ≤ gapMin := consts_min_gap_ge_two

/-- a hole of a single uncovered pixel is a gap for thresholds 1 and 2: `N ≤ 2`.  This is the reading of
    "separated by at least the gap threshold" that the harness oracle judges (`max(thr, 2)` in
    `_components`); a larger `N` breaks this statement — and the oracle then finds groups a threshold
    apart that are not separated. -/
theorem C18_consts_min_gap_covers_spec : gapMin ≤ 2 := by decide

/-- the recursive call's minimum width does not pass the guard again and filters nothing; the guard lets
    the recursion happen whenever a positive minimum width may have left lines over -/
theorem C18_consts_recursion_stops : recMcw ≤ recGuard ∧ recGuard ≤ 0 := consts_recursion_stops

/-- the default overlap threshold of within_column lies in `[1/2, 1)` -/
theorem C18_consts_within_threshold :
    0 < Generated.C18.withinThr.2 ∧ Generated.C18.withinThr.1 < Generated.C18.withinThr.2 ∧
      Generated.C18.withinThr.2 ≤ 2 * Generated.C18.withinThr.1 := consts_within_threshold

/-- the threshold of is_horizontally_overlapping (as reached from column_parser and `__lt__`) is a
    non-negative fraction -/
theorem C18_consts_col_overlap_threshold_nonneg :
    0 ≤ Generated.C18.colHOverlapThr.1 ∧ 0 < Generated.C18.colHOverlapThr.2 := consts_col_overlap_threshold_nonneg

/-- a call that leaves out `gap_threshold` / `min_column_width` is the call with the defaults the source
    declares (whatever they are), so every theorem below covers it -/
theorem C18_defaults (thr mcw : Option Int) (g : RegInfo) (r : Region) :
    splitRegionDefaults thr mcw g r =
      splitRegion (thr.getD Generated.C18.defaultGapThreshold) (mcw.getD Generated.C18.defaultMinColumnWidth) g r ∧
    splitRegionDefaults thr mcw g r ≠ .error .OutOfFuel :=
  ⟨rfl, split_noFuel _ _ g r.getLines⟩

example : (splitRegionDefaults none none exReg (.mk exLines [])).isOk = true := by decide

/-! ### the pixel list -/

/-- The model's pixel list is the set of covered pixels, strictly increasing (no duplicates):
    exactly `sorted(pixel_dist.keys())`. -/
theorem C18_pixels_exact (ls : List Line) :
    (∀ p, p ∈ pixels ls ↔ ∃ l ∈ ls, l.box.l ≤ p ∧ p ≤ l.box.r) ∧ (pixels ls).Pairwise (· < ·) :=
  ⟨fun _ => mem_pixels, pixels_sorted ls⟩

example : (17 : Int) ∈ pixels exLines ∧ (50 : Int) ∉ pixels exLines := by
  constructor
  · exact (C18_pixels_exact exLines).1 17 |>.mpr ⟨⟨"a", ⟨0, 0, 30, 10⟩⟩, by simp [exLines], by decide, by decide⟩
  · intro h
    obtain ⟨l, hl, h1, h2⟩ := (C18_pixels_exact exLines).1 50 |>.mp h
    simp [exLines] at hl
    rcases hl with rfl | rfl | rfl | rfl <;> simp at h1 h2 <;> omega

/-! ### the gap intervals -/

/-- Invariant of the interval loop: the intervals are non-empty, in increasing order, and any
    two of them are at least `max thr gapMin` apart (for every threshold, also 0 or negative). -/
theorem C18_ranges_disjoint_sorted (thr : Int) (ls : List Line) :
    (gapIntervals thr (pixels ls)).Pairwise (fun a b => a.2 + max thr gapMin ≤ b.1) ∧
    (∀ ρ ∈ gapIntervals thr (pixels ls), ρ.1 ≤ ρ.2) ∧
    (gapIntervals thr (pixels ls)).Nodup := by
  have hp := gapIntervals_pairwise thr (pixels_sorted ls)
  have hw := gapIntervals_wf thr (pixels_sorted ls)
  refine ⟨hp, hw, ?_⟩
  -- pairwise different: `column_ranges.index(range)` in sort_lines_in_column_ranges is the position
  refine List.Pairwise.imp_of_mem ?_ hp
  intro a b ha _ hab heq
  have := hw a ha
  have hN := consts_min_gap_ge_two
  subst heq
  omega

example : gapIntervals 50 (pixels exLines) = [(0, 30), (100, 130), (200, 204)] := by decide

/-- Key lemma: the pixel span of a line lies inside exactly one gap interval
    (lines of width 0 included; positive width is not needed). -/
theorem C18_span_in_one_range (thr : Int) (ls : List Line) (l : Line) (hl : l ∈ ls)
    (hw : l.box.l ≤ l.box.r) :
    ∃ ρ, (ρ ∈ gapIntervals thr (pixels ls) ∧ spanIn l ρ) ∧
      ∀ ρ', ρ' ∈ gapIntervals thr (pixels ls) ∧ spanIn l ρ' → ρ' = ρ := by
  obtain ⟨ρ, hρ, hs⟩ := span_in_interval thr hl hw
  exact ⟨ρ, ⟨hρ, hs⟩, fun ρ' ⟨hρ', hs'⟩ => span_interval_unique thr hw hρ' hρ hs' hs⟩

example : ∃ ρ, (ρ ∈ gapIntervals 50 (pixels exLines) ∧ spanIn ⟨"b", ⟨5, 20, 28, 30⟩⟩ ρ) ∧
    ∀ ρ', ρ' ∈ gapIntervals 50 (pixels exLines) ∧ spanIn ⟨"b", ⟨5, 20, 28, 30⟩⟩ ρ' → ρ' = ρ :=
  C18_span_in_one_range 50 exLines _ (by simp [exLines]) (by decide)

/-- `within_column` is true for exactly that interval: a line of positive width is within a gap
    interval iff its span lies inside it. -/
theorem C18_within_iff_span (thr : Int) (ls : List Line) (l : Line) (hl : l ∈ ls)
    (hpos : l.box.l < l.box.r) (ρ : Int × Int) (hρ : ρ ∈ gapIntervals thr (pixels ls)) :
    hit l ρ = true ↔ spanIn l ρ :=
  hit_iff_spanIn thr hl hpos hρ

example : hit ⟨"b", ⟨5, 20, 28, 30⟩⟩ (0, 30) = true ∧ hit ⟨"b", ⟨5, 20, 28, 30⟩⟩ (100, 130) = false := by
  decide

/-- With an overlap threshold of at least 1/2 (`C18_consts_within_threshold`: the regenerated default is) a
    line is within at most one of two disjoint ranges (two disjoint overlaps cannot both exceed half the width). -/
theorem C18_at_most_one_range (l : Line) (hw : l.box.l ≤ l.box.r) (ρ1 ρ2 : Int × Int)
    (hd : ρ1.2 ≤ ρ2.1) : ¬ (hit l ρ1 = true ∧ hit l ρ2 = true) :=
  fun ⟨h1, h2⟩ => hit_disjoint hw hd h1 h2

example : ¬ (hit ⟨"x", ⟨0, 0, 100, 10⟩⟩ (0, 50) = true ∧ hit ⟨"x", ⟨0, 0, 100, 10⟩⟩ (50, 120) = true) :=
  C18_at_most_one_range _ (by decide) _ _ (by decide)

/-! ### conservation -/

/-- Whatever the fuel, threshold, minimum column width and region: if splitting returns columns,
    their lines are a permutation of the input lines (every line in exactly one column), each
    column's box is the hull box of its lines and encloses them, and each column id is
    `<p>-column-<box>` with `p` the region's id, its parent's id, or a `text_region` id derived
    from one of these. -/
theorem C18_conservation (fuel : Nat) (thr mcw : Int) (g : RegInfo) (lines : List Line)
    (hw : WF lines) (cols : List Col) (h : split fuel thr mcw g lines = .ok cols) :
    (cols.flatMap Col.lines).Perm lines ∧
    (∀ c ∈ cols, hullBox c.lines = .ok c.box ∧ (∀ l ∈ c.lines, c.box.encloses l.box) ∧ IdShape g c.id) := by
  obtain ⟨hp, hi⟩ := split_good fuel thr mcw g lines hw h
  exact ⟨hp, fun c hc => ⟨(hi c hc).1, hullBox_encloses (hi c hc).1, (hi c hc).2⟩⟩

example : ∃ cols, split 2 50 20 exReg exLines = .ok cols ∧ cols.length = 3 ∧ WF exLines :=
  ⟨_, rfl, by decide, exLines_wf⟩

/-- The same for a region with nested sub-regions as the line source (`get_lines`). -/
theorem C18_conservation_region (thr mcw : Int) (g : RegInfo) (r : Region) (hw : WF r.getLines)
    (cols : List Col) (h : splitRegion thr mcw g r = .ok cols) :
    (cols.flatMap Col.lines).Perm r.getLines ∧
    (∀ c ∈ cols, (∀ l ∈ c.lines, c.box.encloses l.box) ∧ IdShape g c.id) := by
  obtain ⟨hp, hi⟩ := C18_conservation 2 thr mcw g r.getLines hw cols h
  exact ⟨hp, fun c hc => ⟨(hi c hc).2.1, (hi c hc).2.2⟩⟩

example : (Region.mk [⟨"a", ⟨0, 0, 30, 10⟩⟩] [Region.mk [⟨"c", ⟨100, 0, 130, 10⟩⟩] []]).getLines
    = [⟨"c", ⟨100, 0, 130, 10⟩⟩, ⟨"a", ⟨0, 0, 30, 10⟩⟩] := by
  simp [Region.getLines, getLinesList]

/-! ### termination -/

/-- The recursion split ↔ handle_extra_lines is at most two deep, for every input (zero-width
    lines, any threshold, any minimum width): fuel 2 never runs out, and more fuel changes nothing. -/
theorem C18_terminates (thr mcw : Int) (g : RegInfo) (lines : List Line) :
    split 2 thr mcw g lines ≠ .error .OutOfFuel ∧
    ∀ n, split (n + 2) thr mcw g lines = split 2 thr mcw g lines :=
  ⟨split_noFuel thr mcw g lines, fun n => split_fuel n thr mcw g lines⟩

example : split 1 50 20 exReg exLines = .error .OutOfFuel ∧ (split 2 50 20 exReg exLines).isOk = true := by
  constructor <;> rfl

/-! ### no exception, separation, togetherness (lines of positive width) -/

/-- For lines of positive width splitting always returns columns: no exception of any class
    (in particular the `merge_columns` path, which would dereference `None`, is unreachable),
    for every threshold and every minimum column width. -/
theorem C18_no_exception (thr mcw : Int) (g : RegInfo) (lines : List Line) (hpos : PosW lines) :
    ∃ cols, split 2 thr mcw g lines = .ok cols := by
  obtain ⟨c1, c2, h, _⟩ := split_pos 0 thr mcw g lines hpos
  exact ⟨_, h⟩

example : PosW exLines := exLines_pos

/-- Separation: if no line bridges the strip between `cut` and `cut + max thr gapMin` (every line ends
    at or before `cut` or starts at least `max thr gapMin` further right), a line left of the strip and a
    line right of it are never in the same returned column.  (`max thr gapMin`: a gap has at least one
    uncovered pixel; for thresholds ≥ 2 this is the threshold itself.)  No condition on the minimum
    column width or on the width of the groups is needed: lines of intervals narrower than the
    minimum width are split again among themselves. -/
theorem C18_separation (thr mcw : Int) (g : RegInfo) (lines : List Line) (hpos : PosW lines)
    (cols : List Col) (h : split 2 thr mcw g lines = .ok cols)
    (cut : Int) (hnb : ∀ l ∈ lines, l.box.r ≤ cut ∨ cut + max thr gapMin ≤ l.box.l)
    (a b : Line) (ha : a ∈ lines) (hb : b ∈ lines) (hac : a.box.r ≤ cut)
    (hbc : cut + max thr gapMin ≤ b.box.l) :
    ¬ ∃ c ∈ cols, a ∈ c.lines ∧ b ∈ c.lines := by
  obtain ⟨c1, c2, h', hl1, hl2⟩ := split_pos 0 thr mcw g lines hpos
  rw [h'] at h
  cases h
  rintro ⟨c, hc, hca, hcb⟩
  rcases List.mem_append.mp hc with hc | hc
  · obtain ⟨ρ, hρ, e, _⟩ := hl1.1 c hc
    rw [e] at hca hcb
    exact sep_in_level hpos hnb (columnRanges_sub hρ) ha hb (mem_colFor.mp hca).2 (mem_colFor.mp hcb).2 hac hbc
  · obtain ⟨c0, hc0, e0⟩ := mem_reId hc
    obtain ⟨ρ, hρ, e, _⟩ := hl2.1 c0 hc0
    rw [e0, e] at hca hcb
    have hsub : ∀ l ∈ extraLines lines (columnRanges thr mcw lines), l ∈ lines :=
      fun l hl => (mem_extraLines.mp hl).1
    exact sep_in_level (fun l hl => hpos l (hsub l hl)) (fun l hl => hnb l (hsub l hl)) hρ
      (mem_colFor.mp hca).1 (mem_colFor.mp hcb).1 (mem_colFor.mp hca).2 (mem_colFor.mp hcb).2 hac hbc

example : ∀ l ∈ exLines, l.box.r ≤ 30 ∨ 30 + max (50 : Int) gapMin ≤ l.box.l := by
  intro l hl
  simp [exLines] at hl
  rcases hl with rfl | rfl | rfl | rfl <;> decide

/-- Togetherness: a non-empty group of input lines whose own pixels leave no hole of `max thr gapMin`
    (`GapConnected`) ends up in one column, whatever else is on the page and however narrow the
    group is. -/
theorem C18_together (thr mcw : Int) (g : RegInfo) (lines : List Line) (hpos : PosW lines)
    (cols : List Col) (h : split 2 thr mcw g lines = .ok cols)
    (G : List Line) (hG : ∀ x ∈ G, x ∈ lines) (hconn : GapConnected thr G) (hne : G ≠ []) :
    ∃ c ∈ cols, ∀ x ∈ G, x ∈ c.lines := by
  obtain ⟨c1, c2, h', hl1, hl2⟩ := split_pos 0 thr mcw g lines hpos
  rw [h'] at h
  cases h
  obtain ⟨a0, ha0⟩ := List.exists_mem_of_ne_nil G hne
  obtain ⟨ρ, hρ, hall⟩ := together_in_level hpos hG hconn ha0
  by_cases hr : ρ ∈ columnRanges thr mcw lines
  · obtain ⟨c, hc, e⟩ := hl1.2 ρ hr (by
      intro hn
      have : a0 ∈ colFor lines ρ := mem_colFor.mpr ⟨hG a0 ha0, hall a0 ha0⟩
      rw [hn] at this; cases this)
    exact ⟨c, List.mem_append_left _ hc, fun x hx => by rw [e]; exact mem_colFor.mpr ⟨hG x hx, hall x hx⟩⟩
  · -- the group's interval is narrower than the minimum width: the whole group is left over
    have hGe : ∀ x ∈ G, x ∈ extraLines lines (columnRanges thr mcw lines) := by
      intro x hx
      refine mem_extraLines.mpr ⟨hG x hx, ?_⟩
      intro ρ' hρ'
      cases hh : hit x ρ' with
      | false => rfl
      | true =>
        have px := hpos x (hG x hx)
        have s1 := (hit_iff_spanIn thr (hG x hx) px (columnRanges_sub hρ')).mp hh
        have s2 := (hit_iff_spanIn thr (hG x hx) px hρ).mp (hall x hx)
        have := span_interval_unique thr (Int.le_of_lt px) (columnRanges_sub hρ') hρ s1 s2
        rw [this] at hρ'
        exact absurd hρ' hr
    have hsub : ∀ l ∈ extraLines lines (columnRanges thr mcw lines), l ∈ lines :=
      fun l hl => (mem_extraLines.mp hl).1
    obtain ⟨ρ2, hρ2, hall2⟩ := together_in_level (fun l hl => hpos l (hsub l hl)) hGe hconn ha0
    obtain ⟨c0, hc0, e0⟩ := hl2.2 ρ2 hρ2 (by
      intro hn
      have : a0 ∈ colFor (extraLines lines (columnRanges thr mcw lines)) ρ2 :=
        mem_colFor.mpr ⟨hGe a0 ha0, hall2 a0 ha0⟩
      rw [hn] at this; cases this)
    obtain ⟨c, hc, e⟩ := mem_reId' (g := g) hc0
    exact ⟨c, List.mem_append_right _ hc, fun x hx => by
      rw [e, e0]; exact mem_colFor.mpr ⟨hGe x hx, hall2 x hx⟩⟩

/-- the two left lines of the example overlap, hence are gap-connected for every threshold -/
example : GapConnected 50 [⟨"a", ⟨0, 0, 30, 10⟩⟩, ⟨"b", ⟨5, 20, 28, 30⟩⟩] := by
  intro a ha b hb x h1 h2
  refine ⟨⟨"a", ⟨0, 0, 30, 10⟩⟩, by simp, x + 1, ?_⟩
  simp at ha hb
  rcases ha with rfl | rfl <;> rcases hb with rfl | rfl <;> simp at h1 h2 ⊢ <;> omega

/-! ### translation -/

/-- Translating all lines by (dx, dy) translates the result and changes nothing else: the same
    columns in the same order with the same lines (translated), boxes moved by (dx, dy), and ids in
    which only the box numbers are moved — for every input (zero-width lines included), every
    threshold, minimum width and fuel, errors included. -/
theorem C18_translate (fuel : Nat) (thr mcw : Int) (g : RegInfo) (lines : List Line) (dx dy : Int) :
    split fuel thr mcw (g.tr dx dy) (lines.map (Line.tr dx dy)) =
      (split fuel thr mcw g lines).map (List.map (Col.tr dx dy)) :=
  split_tr dx dy fuel thr mcw g lines

theorem C18_translate_plain (thr mcw : Int) (g : RegInfo) (hg : PlainReg g) (lines : List Line)
    (dx dy : Int) :
    split 2 thr mcw g (lines.map (Line.tr dx dy)) =
      (split 2 thr mcw g lines).map (List.map (Col.tr dx dy)) := by
  have : g.tr dx dy = g := by
    obtain ⟨gi, gp⟩ := g
    obtain ⟨h1, h2⟩ := hg
    simp only at h1 h2
    rcases h1 with rfl | ⟨s, rfl⟩ <;> rcases h2 with rfl | rfl | ⟨t, rfl⟩ <;> rfl
  rw [← C18_translate 2 thr mcw g lines dx dy, this]

example : PlainReg exReg ∧
    split 2 50 20 exReg (exLines.map (Line.tr 200 7)) =
      (split 2 50 20 exReg exLines).map (List.map (Col.tr 200 7)) :=
  ⟨⟨Or.inr ⟨"r1", rfl⟩, Or.inl rfl⟩, C18_translate_plain 50 20 exReg ⟨Or.inr ⟨"r1", rfl⟩, Or.inl rfl⟩ exLines 200 7⟩

end Pagexml.C18
