/-
C15 — Grouping and ordering lines loses nothing and follows the layout.
Property theorems only; the lemmas live in Lemmas/C15*.lean.

Conservation theorems quantify over ALL finite line lists (arbitrary overlap, any size) and
are parametric in the two predicates of the grouping loop.  Layout theorems quantify over all
clean arrangements (`CleanRows`, `CleanColumn`, `CleanColumns`, `CleanGrid`) of any size and
over every shuffle of their cells.  Translation theorems hold for all inputs.
-/
import PagexmlModel.Lemmas.C15Doc
import PagexmlModel.Lemmas.C15Sorted
import PagexmlModel.Lemmas.C15Grid

namespace Pagexml.C15

open List

/-! ## conservation -/

/-- the groups partition the lines that have text; no group is empty — for every finite list
    of lines and every pair of predicates (which may raise) -/
theorem C15_groups_partition (below nextTo : Line → Line → Res Bool) (ls : List Line) (gs : List (List Line))
    (h : groupLines below nextTo ls = .ok gs) :
    gs.flatten ~ ls.filter (·.hasText) ∧ ∀ g ∈ gs, g ≠ [] := by
  simp only [groupLines] at h
  have hp : (ls.mergeSort byTop).filter (·.hasText) ~ ls.filter (·.hasText) := (mergeSort_perm ls byTop).filter _
  split at h
  · rename_i e
    simp only [Except.ok.injEq] at h
    subst h
    rw [e] at hp
    exact ⟨by simpa using hp, by simp⟩
  · rename_i v rest e
    split at h
    · cases h
    · rename_i gs' hg
      simp only [Except.ok.injEq] at h
      subst h
      obtain ⟨p, ne⟩ := groupGo_perm below nextTo rest v [] gs' hg
      rw [e] at hp
      refine ⟨(flatten_map_mergeSort_perm byLeft gs').trans ((by simpa using p : gs'.flatten ~ v :: rest).trans hp), ?_⟩
      intro g hg2
      obtain ⟨g0, hg0, rfl⟩ := mem_map.mp hg2
      intro hnil
      have hp0 := mergeSort_perm g0 byLeft
      rw [hnil] at hp0
      exact ne g0 hg0 hp0.symm.eq_nil

/-- each group is ordered by its left edge -/
theorem C15_group_sorted (below nextTo : Line → Line → Res Bool) (ls : List Line) (gs : List (List Line))
    (h : groupLines below nextTo ls = .ok gs) :
    ∀ g ∈ gs, g.Pairwise (fun a b => a.box.left ≤ b.box.left) := by
  simp only [groupLines] at h
  split at h
  · simp only [Except.ok.injEq] at h; subst h; simp
  · split at h
    · cases h
    · simp only [Except.ok.injEq] at h
      subst h
      intro g hg
      obtain ⟨g0, _, rfl⟩ := mem_map.mp hg
      exact sorted_byLeft g0

/-- the grouping raises only if a predicate raises on two lines of the input -/
theorem C15_groups_total (below nextTo : Line → Line → Res Bool) (ls : List Line)
    (hb : ∀ a ∈ ls, ∀ b ∈ ls, ∃ v, below a b = .ok v) (hn : ∀ a ∈ ls, ∀ b ∈ ls, ∃ v, nextTo a b = .ok v) :
    ∃ gs, groupLines below nextTo ls = .ok gs := by
  simp only [groupLines]
  cases e : (ls.mergeSort byTop).filter (·.hasText) with
  | nil => exact ⟨_, rfl⟩
  | cons v rest =>
    have hsub : ∀ a ∈ v :: rest, a ∈ ls := by
      intro a ha
      rw [← e] at ha
      exact mem_mergeSort.mp (mem_filter.mp ha).1
    obtain ⟨gs, hg⟩ := groupGo_total below nextTo rest v []
      (fun a ha b hb2 => hb a (hsub a ha) b (hsub b hb2)) (fun a ha b hb2 => hn a (hsub a ha) b (hsub b hb2))
    exact ⟨gs.map (·.mergeSort byLeft), by simp [hg]⟩

/-- `is_below` / `is_next_to` never raise on two lines that have a baseline -/
theorem C15_predicates_total (a b : Line) (ha : a.bl ≠ none) (hb : b.bl ≠ none) :
    (∃ v, isBelow a b = .ok v) ∧ (∃ v, isNextTo a b = .ok v) := by
  cases ea : a.bl with
  | none => exact absurd ea ha
  | some x =>
    cases eb : b.bl with
    | none => exact absurd eb hb
    | some y =>
      constructor
      · simp only [isBelow, ea, eb]
        split
        · exact ⟨_, rfl⟩
        · split
          · exact ⟨_, rfl⟩
          · exact baselineIsBelow_total _ _ x.points_ne_nil y.points_ne_nil
      · simp only [isNextTo, ea, eb]
        split
        · exact ⟨_, rfl⟩
        · split
          · exact ⟨_, rfl⟩
          · split
            · exact ⟨_, rfl⟩
            · split <;> exact ⟨_, rfl⟩

/-- `horizontal_group_lines` returns normally on every list of lines with baselines -/
theorem C15_group_lines_total (ls : List Line) (h : ∀ l ∈ ls, l.bl ≠ none) :
    ∃ gs, horizontalGroupLines ls = .ok gs :=
  C15_groups_total isBelow isNextTo ls
    (fun a ha b hb => (C15_predicates_total a b (h a ha) (h b hb)).1)
    (fun a ha b hb => (C15_predicates_total a b (h a ha) (h b hb)).2)

/-- the reading-direction order is a permutation of the lines with text (ltr and rtl) -/
theorem C15_direction_perm (below nextTo : Line → Line → Res Bool) (dir : Dir) (hd : dir = .ltr ∨ dir = .rtl)
    (ls out : List Line) (h : readingDirection below nextTo dir ls = .ok out) :
    out ~ ls.filter (·.hasText) := by
  simp only [readingDirection] at h
  cases hg : groupLines below nextTo ls with
  | error e => rw [hg] at h; cases h
  | ok gs =>
    rw [hg] at h
    obtain ⟨p, _⟩ := C15_groups_partition below nextTo ls gs hg
    simp only at h
    rcases hd with rfl | rfl
    · rw [orderGroups_ltr] at h
      simp only [Except.ok.injEq] at h
      subst h
      exact (flatten_map_mergeSort_perm byLeft gs).trans p
    · rw [orderGroups_rtl] at h
      simp only [Except.ok.injEq] at h
      subst h
      exact (flatten_map_mergeSort_perm byRightDesc gs).trans p

/-- … and it returns normally whenever the grouping does -/
theorem C15_direction_total (below nextTo : Line → Line → Res Bool) (dir : Dir) (hd : dir = .ltr ∨ dir = .rtl)
    (ls : List Line) (gs : List (List Line)) (hg : groupLines below nextTo ls = .ok gs) :
    ∃ out, readingDirection below nextTo dir ls = .ok out := by
  simp only [readingDirection, hg]
  rcases hd with rfl | rfl
  · exact ⟨_, orderGroups_ltr gs⟩
  · exact ⟨_, orderGroups_rtl gs⟩

/-- any other direction is a ValueError as soon as there is a group (and goes unnoticed when
    there is none: the check sits inside the loop over the groups) -/
theorem C15_direction_invalid (below nextTo : Line → Line → Res Bool) (ls : List Line) (gs : List (List Line))
    (hg : groupLines below nextTo ls = .ok gs) :
    readingDirection below nextTo .other ls = (if gs = [] then .ok [] else .error .ValueError) := by
  simp only [readingDirection, hg]
  cases gs with
  | nil => rfl
  | cons g gs => simp [orderGroups, orderGroup]

/-- `baseline_is_below` is total on non-empty baselines: both start indexes are in range, the
    `while True` loop ends after `no` comparisons with `1 ≤ no < |b1| + |b2|`, every index
    access succeeds, the division is by `no ≠ 0`; the answer is `nb / no > p/q` for the ratio `p/q` that the
    source says (regenerated; `C15_ratio_half`: for `0.5` this is `2·nb > no`) — for every value of it -/
theorem C15_baseline_below_total (b1 b2 : List Pt) (h1 : b1 ≠ []) (h2 : b2 ≠ []) :
    ∃ i1 i2 nb no, startIdx b2 b1 0 = .ok i1 ∧ startIdx b1 b2 0 = .ok i2 ∧ i1 < b1.length ∧ i2 < b2.length ∧
      walk b1 b2 (b1.length + b2.length + 1) i1 i2 0 0 = .ok (nb, no) ∧ 1 ≤ no ∧ no < b1.length + b2.length ∧
      nb ≤ no ∧ baselineIsBelow b1 b2 = .ok (ratioGt nb no Generated.C15.baselineBelowRatio) := by
  obtain ⟨i1, i2, nb, no, a, b, c, d, e, f, g, h, i, _⟩ := baselineIsBelow_spec b1 b2 h1 h2
  exact ⟨i1, i2, nb, no, a, b, c, d, e, f, g, h, i⟩

/-- the cross-multiplied comparison at the ratio 1/2 is the majority test `2·nb > no` -/
theorem C15_ratio_half (nb no : Nat) : ratioGt nb no (1, 2) = decide (2 * nb > no) := by
  simp only [ratioGt]
  congr 1
  apply propext
  constructor <;> intro h <;> omega

example : ratioGt 3 5 (1, 2) = true ∧ ratioGt 2 4 (1, 2) = false := by decide

/-- the condition is necessary: with an empty point list the function raises IndexError -/
theorem C15_baseline_below_empty_raises (b1 b2 : List Pt) (h : b1 = [] ∨ b2 = []) :
    baselineIsBelow b1 b2 = .error .IndexError := by
  rcases h with rfl | rfl
  · cases b2 with
    | nil => simp [baselineIsBelow, startIdx, walk, getPt]
    | cons p ps =>
      cases ps with
      | nil => simp [baselineIsBelow, startIdx, walk, getPt]
      | cons q qs => simp [baselineIsBelow, startIdx, getPt]
  · cases b1 with
    | nil => simp [baselineIsBelow, startIdx, walk, getPt]
    | cons p ps =>
      cases ps with
      | nil => simp [baselineIsBelow, startIdx, walk, getPt]
      | cons q qs => simp [baselineIsBelow, startIdx, getPt]

/-! ## the regenerated literals

The model reads the overlap limit and the tolerances of `is_next_to`, the ratios of `sort_lines` and
`baseline_is_below` and the threshold used by `PageXMLTextRegion.__lt__` from `Generated/C15.lean`,
which is rewritten from the source on every run.  No proof in this development unfolds these
constants except the four statements below: all other theorems hold for every value, and the
clean-layout theorems hold whenever these four relations do. -/

/-- `is_next_to` has ONE baseline tolerance (both tests carry the same literal): this is what makes
    "next to" symmetric on the cells of a row, and it is the tolerance `rowTol` of the clean-layout
    predicates.  Changing only one of the two literals breaks exactly this statement. -/
theorem C15_consts_next_to_tolerances_equal :
    Generated.C15.nextToTolTop = Generated.C15.nextToTolBottom ∧ rowTol = Generated.C15.nextToTolTop :=
  ⟨consts_next_to_tolerances_equal, rfl⟩

/-- horizontally disjoint lines pass the overlap limit of `is_next_to` -/
theorem C15_consts_next_to_overlap_limit_nonneg : 0 ≤ Generated.C15.nextToMaxHOverlap :=
  consts_next_to_overlap_limit_nonneg

/-- the majority ratio of `baseline_is_below` lies in `[0, 1)` -/
theorem C15_consts_baseline_below_ratio_proper :
    0 ≤ Generated.C15.baselineBelowRatio.1 ∧ Generated.C15.baselineBelowRatio.1 < Generated.C15.baselineBelowRatio.2 :=
  consts_baseline_below_ratio_proper

/-- the overlap threshold of `PageXMLTextRegion.__lt__` is a non-negative fraction -/
theorem C15_consts_region_overlap_threshold_nonneg :
    0 ≤ Generated.C15.regionHOverlapThr.1 ∧ 0 < Generated.C15.regionHOverlapThr.2 :=
  consts_region_overlap_threshold_nonneg

/-- the reading of "aligned rows" that the harness oracle judges (baselines of one row within 10
    pixels of each other) is covered by the clean-layout theorems: the tolerance of the source is at
    least that.  A smaller tolerance in the source breaks this statement — and the oracle then finds
    rows aligned within 10 pixels that are no longer grouped. -/
def specRowTol : Int := 10
theorem C15_consts_row_tolerance_covers_spec : specRowTol ≤ rowTol := by decide

/-! ## clean layouts -/

/-- grouping any shuffle of clean rows (plus any lines without text) returns the rows -/
theorem C15_groups_are_rows (rows : List (List Line)) (hc : CleanRows rows) (ls : List Line)
    (hp : ls.filter (·.hasText) ~ rows.flatten) : horizontalGroupLines ls = .ok rows :=
  groupLines_cleanRows hc hp

/-- left-to-right order of any shuffle of clean rows is row-major -/
theorem C15_ltr_row_major (rows : List (List Line)) (hc : CleanRows rows) (ls : List Line)
    (hp : ls.filter (·.hasText) ~ rows.flatten) :
    sortLinesInReadingDirection .ltr ls = .ok rows.flatten := by
  have hg : groupLines isBelow isNextTo ls = .ok rows := groupLines_cleanRows hc hp
  simp only [sortLinesInReadingDirection, readingDirection, hg, orderGroups_ltr, Except.ok.injEq]
  congr 1
  have : ∀ rs : List (List Line), (∀ r ∈ rs, (∀ l ∈ r, CleanLine l) ∧ r.Pairwise SideBySide) →
      rs.map (·.mergeSort byLeft) = rs := by
    intro rs
    induction rs with
    | nil => intro _; rfl
    | cons r rs ih =>
      intro h
      obtain ⟨h1, h2⟩ := h r (by simp)
      simp only [map_cons, row_sort_left h1 h2 (Perm.refl r), ih (fun r' hr' => h r' (mem_cons_of_mem _ hr'))]
  exact this rows (fun r hr => (hc.1 r hr).2)

/-- right-to-left order reverses each row -/
theorem C15_rtl_reverses_rows (rows : List (List Line)) (hc : CleanRows rows) (ls : List Line)
    (hp : ls.filter (·.hasText) ~ rows.flatten) :
    sortLinesInReadingDirection .rtl ls = .ok (rows.map List.reverse).flatten := by
  have hg : groupLines isBelow isNextTo ls = .ok rows := groupLines_cleanRows hc hp
  simp only [sortLinesInReadingDirection, readingDirection, hg, orderGroups_rtl, Except.ok.injEq]
  congr 1
  have : ∀ rs : List (List Line), (∀ r ∈ rs, (∀ l ∈ r, CleanLine l) ∧ r.Pairwise SideBySide) →
      rs.map (·.mergeSort byRightDesc) = rs.map List.reverse := by
    intro rs
    induction rs with
    | nil => intro _; rfl
    | cons r rs ih =>
      intro h
      obtain ⟨h1, h2⟩ := h r (by simp)
      simp only [map_cons, row_sort_right h1 h2 (Perm.refl r), ih (fun r' hr' => h r' (mem_cons_of_mem _ hr'))]
  exact this rows (fun r hr => (hc.1 r hr).2)

/-- the contract assumed of `sorted` is satisfiable: a stable insertion sort meets it -/
theorem C15_sort_contract_satisfiable : SortContract (fun {α : Type} lt xs => isortBy (α := α) lt xs) :=
  isortBy_contract

/-- `sorted(lines)` of any shuffle of one clean column is top to bottom, and no comparison raises —
    for every sort function meeting the contract -/
theorem C15_column_top_to_bottom (srt : ∀ {α : Type}, (α → α → Bool) → List α → List α) (hs : SortContract srt)
    (col : List Line) (hc : CleanColumn col) (ls : List Line) (hp : ls ~ col) :
    (∀ a ∈ ls, ∀ b ∈ ls, ∃ v, lineLt a b = .ok v) ∧ srt ltLine ls = col := by
  obtain ⟨ht, hasc⟩ := column_order hc
  exact ⟨fun a ha b hb => column_lt_total hc a (hp.subset ha) b (hp.subset hb),
    sorted_eq_of_contract hs ltLine ht hasc hp⟩

/-- `sorted(column regions)` of any shuffle of clean columns is left to right -/
theorem C15_columns_left_to_right (srt : ∀ {α : Type}, (α → α → Bool) → List α → List α) (hs : SortContract srt)
    (cols : List Reg) (hc : CleanColumns cols) (rs : List Reg) (hp : rs ~ cols) :
    srt regionLt rs = cols := by
  obtain ⟨ht, hasc⟩ := columns_order hc
  exact sorted_eq_of_contract hs regionLt ht hasc hp

/-- the model recurses into the children first and sorts afterwards; this is the Python order
    (sort the children by `(top, left)`, then recurse into each) -/
theorem C15_regions_sorted_then_recursed (id : Nat) (box : Box) (k : Region) (ks : List Region) (lines : List Line) :
    leaves (.mk id box (k :: ks) lines) = ((k :: ks).mergeSort regLe).flatMap leaves :=
  leaves_unfold id box k ks lines

/-- column reading order: the regions (here: leaf regions, children of the document in any
    input order) are visited by top edge, then left edge; within each region the lines with
    text come row-major (a clean column: top to bottom), for ltr, and rows reversed for rtl -/
theorem C15_column_reading_order (id : Nat) (box : Box) (lines : List Line) (kids : List Region)
    (es : List (Region × List (List Line))) (hne : kids ≠ [])
    (hp : kids ~ es.map (·.1)) (hleaf : ∀ e ∈ es, e.1.kids = [])
    (hkey : (es.map (·.1)).Pairwise KeyLt)
    (hrows : ∀ e ∈ es, CleanRows e.2 ∧ e.1.lines.filter (·.hasText) ~ e.2.flatten) :
    leaves (.mk id box kids lines) = es.map (·.1) ∧
    columnReadingOrder .ltr (.mk id box kids lines) = .ok (es.flatMap (fun e => e.2.flatten)) ∧
    columnReadingOrder .rtl (.mk id box kids lines) = .ok (es.flatMap (fun e => (e.2.map List.reverse).flatten)) := by
  have hl : leaves (.mk id box kids lines) = es.map (·.1) := by
    cases kids with
    | nil => exact absurd rfl hne
    | cons k ks =>
      rw [leaves_unfold, sort_kids hkey hp]
      apply flatMap_leaves_of_leaf
      intro e he
      obtain ⟨e', he', rfl⟩ := mem_map.mp he
      exact hleaf e' he'
  refine ⟨hl, ?_, ?_⟩
  · simp only [columnReadingOrder, hl]
    exact columnOrderGo_clean .ltr _ (fun rows ls hc hp => C15_ltr_row_major rows hc ls hp) es hrows
  · simp only [columnReadingOrder, hl]
    exact columnOrderGo_clean .rtl _ (fun rows ls hc hp => C15_rtl_reverses_rows rows hc ls hp) es hrows

/-- the same for documents nested to any depth: `Visits doc out` says that `out` lists the leaf
    regions of `doc` with, at every level, the children taken by top edge, then left edge -/
theorem C15_column_reading_order_nested (doc : Region) (es : List (Region × List (List Line)))
    (hv : Visits doc (es.map (·.1)))
    (hrows : ∀ e ∈ es, CleanRows e.2 ∧ e.1.lines.filter (·.hasText) ~ e.2.flatten) :
    leaves doc = es.map (·.1) ∧
    columnReadingOrder .ltr doc = .ok (es.flatMap (fun e => e.2.flatten)) ∧
    columnReadingOrder .rtl doc = .ok (es.flatMap (fun e => (e.2.map List.reverse).flatten)) := by
  have hl := leaves_of_visits hv
  refine ⟨hl, ?_, ?_⟩
  · simp only [columnReadingOrder, hl]
    exact columnOrderGo_clean .ltr _ (fun rows ls hc hp => C15_ltr_row_major rows hc ls hp) es hrows
  · simp only [columnReadingOrder, hl]
    exact columnOrderGo_clean .rtl _ (fun rows ls hc hp => C15_rtl_reverses_rows rows hc ls hp) es hrows

/-- row reading order of a document whose lines (collected over all nested regions) form clean rows -/
theorem C15_row_reading_order (doc : Region) (rows : List (List Line)) (hc : CleanRows rows)
    (hp : (getLines doc).filter (·.hasText) ~ rows.flatten) :
    rowReadingOrder .ltr doc = .ok rows.flatten ∧
    rowReadingOrder .rtl doc = .ok (rows.map List.reverse).flatten :=
  ⟨C15_ltr_row_major rows hc _ hp, C15_rtl_reverses_rows rows hc _ hp⟩

/-- the dispatcher `sort_lines_in_reading_order(doc, row_order=True, reading_direction=…)` on a document
    whose lines form clean rows: row-major for ltr, every row reversed for rtl — BOTH options reach the
    ordering (wave 4: an entry point of its own) -/
theorem C15_dispatcher_row_order (doc : Region) (rows : List (List Line)) (hc : CleanRows rows)
    (hp : (getLines doc).filter (·.hasText) ~ rows.flatten) :
    sortLinesInReadingOrder true .ltr doc = .ok rows.flatten ∧
    sortLinesInReadingOrder true .rtl doc = .ok (rows.map List.reverse).flatten :=
  C15_row_reading_order doc rows hc hp

/-- the dispatcher with `row_order=False`: column reading order of a document nested to any depth, in
    the direction asked for -/
theorem C15_dispatcher_column_order (doc : Region) (es : List (Region × List (List Line)))
    (hv : Visits doc (es.map (·.1)))
    (hrows : ∀ e ∈ es, CleanRows e.2 ∧ e.1.lines.filter (·.hasText) ~ e.2.flatten) :
    sortLinesInReadingOrder false .ltr doc = .ok (es.flatMap (fun e => e.2.flatten)) ∧
    sortLinesInReadingOrder false .rtl doc = .ok (es.flatMap (fun e => (e.2.map List.reverse).flatten)) :=
  (C15_column_reading_order_nested doc es hv hrows).2

/-! ## clean grids: an r × c arrangement with missing cells -/

/-- every shuffle of the cells of a clean grid: ltr is row-major, rtl reverses the rows, the
    groups are the rows -/
theorem C15_grid_reading_direction (colX : List (Int × Int)) (g : Grid) (hg : CleanGrid colX g) (ls : List Line)
    (hp : ls.filter (·.hasText) ~ gridCells g) :
    horizontalGroupLines ls = .ok (gridRows g) ∧
    sortLinesInReadingDirection .ltr ls = .ok (gridCells g) ∧
    sortLinesInReadingDirection .rtl ls = .ok ((gridRows g).map List.reverse).flatten := by
  have hc := cleanGrid_rows hg
  have e := gridRows_flatten g
  rw [← e] at hp
  exact ⟨C15_groups_are_rows _ hc ls hp, e ▸ C15_ltr_row_major _ hc ls hp, C15_rtl_reverses_rows _ hc ls hp⟩

/-- every shuffle of the cells of one column of a clean grid sorts top to bottom -/
theorem C15_grid_column_sorted (srt : ∀ {α : Type}, (α → α → Bool) → List α → List α) (hs : SortContract srt)
    (colX : List (Int × Int)) (g : Grid) (hg : CleanGrid colX g) (j : Nat) (ls : List Line) (hp : ls ~ gridCol g j) :
    srt ltLine ls = gridCol g j :=
  (C15_column_top_to_bottom srt hs _ (cleanGrid_col hg j) ls hp).2

/-- column regions, one per column interval of a clean grid (a region may be missing), lying
    inside their interval with positive width: every shuffle sorts left to right -/
theorem C15_grid_columns_sorted (srt : ∀ {α : Type}, (α → α → Bool) → List α → List α) (hs : SortContract srt)
    (colX : List (Int × Int)) (g : Grid) (hg : CleanGrid colX g) (regs : List (Option Reg))
    (hf : RegsFit colX regs) (hid : (regs.filterMap id).Pairwise (fun a b => a.id ≠ b.id))
    (rs : List Reg) (hp : rs ~ regs.filterMap id) : srt regionLt rs = regs.filterMap id :=
  C15_columns_left_to_right srt hs _ (cleanColumns_of_fit hg.1 hf hid) rs hp

/-! ## translation -/

/-- every relation and every ordering function commutes with translating all boxes and
    baselines by `(dx, dy)` — for all inputs, clean or not -/
theorem C15_translate (dx dy : Int) :
    (∀ b1 b2, baselineIsBelow (b1.map (shiftPt dx dy)) (b2.map (shiftPt dx dy)) = baselineIsBelow b1 b2) ∧
    (∀ a b, isBelow (a.shift dx dy) (b.shift dx dy) = isBelow a b) ∧
    (∀ a b, isNextTo (a.shift dx dy) (b.shift dx dy) = isNextTo a b) ∧
    (∀ a b, lineLt (a.shift dx dy) (b.shift dx dy) = lineLt a b) ∧
    (∀ a b, regionLt (a.shift dx dy) (b.shift dx dy) = regionLt a b) ∧
    (∀ ls, horizontalGroupLines (ls.map (Line.shift dx dy))
        = (horizontalGroupLines ls).map (fun gs => gs.map (fun g => g.map (Line.shift dx dy)))) ∧
    (∀ dir ls, sortLinesInReadingDirection dir (ls.map (Line.shift dx dy))
        = (sortLinesInReadingDirection dir ls).map (fun o => o.map (Line.shift dx dy))) ∧
    (∀ doc, leaves (doc.shift dx dy) = (leaves doc).map (Region.shift dx dy)) ∧
    (∀ dir doc, columnReadingOrder dir (doc.shift dx dy)
        = (columnReadingOrder dir doc).map (fun o => o.map (Line.shift dx dy))) ∧
    (∀ dir doc, rowReadingOrder dir (doc.shift dx dy)
        = (rowReadingOrder dir doc).map (fun o => o.map (Line.shift dx dy))) := by
  refine ⟨baselineIsBelow_shift dx dy, isBelow_shift dx dy, isNextTo_shift dx dy, lineLt_shift dx dy,
    regionLt_shift dx dy, groupLines_map (shift_preserves dx dy),
    fun dir => readingDirection_map (shift_preserves dx dy) dir, leaves_shift dx dy, ?_, ?_⟩
  · intro dir doc
    simp only [columnReadingOrder, leaves_shift, columnOrderGo_shift]
  · intro dir doc
    simp only [rowReadingOrder, getLines_shift, sortLinesInReadingDirection,
      readingDirection_map (shift_preserves dx dy)]

/-- `sorted` is a comparison sort: since the comparisons are unchanged, so is the result
    (shown for the reference sort) -/
theorem C15_translate_sorted (dx dy : Int) (ls : List Line) :
    isortBy ltLine (ls.map (Line.shift dx dy)) = (isortBy ltLine ls).map (Line.shift dx dy) := by
  have hlt : ∀ a b, ltLine (a.shift dx dy) (b.shift dx dy) = ltLine a b := by
    intro a b; simp only [ltLine, lineLt_shift]
  have hins : ∀ (x : Line) (l : List Line),
      insertBy ltLine (x.shift dx dy) (l.map (Line.shift dx dy)) = (insertBy ltLine x l).map (Line.shift dx dy) := by
    intro x l
    induction l with
    | nil => rfl
    | cons y ys ih =>
      simp only [map_cons, insertBy, hlt, ih]
      split <;> rfl
  have h : ∀ (xs acc : List Line),
      (xs.map (Line.shift dx dy)).foldl (fun acc x => insertBy ltLine x acc) (acc.map (Line.shift dx dy))
        = (xs.foldl (fun acc x => insertBy ltLine x acc) acc).map (Line.shift dx dy) := by
    intro xs
    induction xs with
    | nil => intro acc; rfl
    | cons x xs ih => intro acc; simp only [map_cons, foldl_cons, hins, ih]
  exact h ls []

/-- for every document, flag and direction the dispatcher is one of the two orders (no third behaviour),
    hence it loses / duplicates nothing and commutes with translation whenever they do -/
theorem C15_dispatcher_is_row_or_column (row : Bool) (dir : Dir) (doc : Region) :
    sortLinesInReadingOrder row dir doc = (if row then rowReadingOrder dir doc else columnReadingOrder dir doc) ∧
    ∀ dx dy, sortLinesInReadingOrder row dir (doc.shift dx dy)
      = (sortLinesInReadingOrder row dir doc).map (fun o => o.map (Line.shift dx dy)) := by
  refine ⟨rfl, fun dx dy => ?_⟩
  cases row
  · exact (C15_translate dx dy).2.2.2.2.2.2.2.2.1 dir doc
  · exact (C15_translate dx dy).2.2.2.2.2.2.2.2.2 dir doc

/-! ## non-vacuity: concrete, non-trivial values meeting the hypotheses -/

section Examples

def exA : Line := ⟨0, ⟨0, 0, 100, 30⟩, some ⟨(5, 25), [(95, 27)]⟩, true⟩
def exB : Line := ⟨1, ⟨120, 3, 220, 33⟩, some ⟨(125, 29), [(170, 31), (215, 24)]⟩, true⟩
def exC : Line := ⟨2, ⟨2, 40, 90, 70⟩, some ⟨(5, 65), []⟩, true⟩
def exD : Line := ⟨3, ⟨130, 42, 210, 72⟩, some ⟨(131, 60), [(209, 70)]⟩, true⟩
/-- a line without text, overlapping everything -/
def exN : Line := ⟨4, ⟨0, 0, 300, 300⟩, none, false⟩

example : CleanRows [[exA, exB], [exC, exD]] := by decide
example : sortLinesInReadingDirection .ltr [exD, exN, exA, exC, exB] = .ok [exA, exB, exC, exD] :=
  C15_ltr_row_major [[exA, exB], [exC, exD]] (by decide) _ (by decide)
example : sortLinesInReadingDirection .rtl [exD, exN, exA, exC, exB] = .ok [exB, exA, exD, exC] :=
  C15_rtl_reverses_rows [[exA, exB], [exC, exD]] (by decide) _ (by decide)
example : horizontalGroupLines [exD, exN, exA, exC, exB] = .ok [[exA, exB], [exC, exD]] :=
  C15_groups_are_rows _ (by decide) _ (by decide)
example : CleanColumn [exA, exC] ∧ CleanColumn [exB, exD] := by decide
example : isortBy ltLine [exD, exB] = [exB, exD] :=
  (C15_column_top_to_bottom _ C15_sort_contract_satisfiable [exB, exD] (by decide) [exD, exB] (by decide)).2
example : CleanColumns [⟨7, ⟨0, 0, 100, 70⟩⟩, ⟨8, ⟨120, 3, 220, 72⟩⟩] := by decide
example : CleanGrid [(0, 100), (120, 220)] [[some exA, some exB], [none, some exD]] := by decide
example : gridCol [[some exA, some exB], [none, some exD]] 1 = [exB, exD] := by decide
example : RegsFit [(0, 100), (120, 220)] [some ⟨7, ⟨0, 0, 100, 30⟩⟩, some ⟨8, ⟨120, 3, 220, 72⟩⟩] := by decide
example : ∃ v, baselineIsBelow [(0, 5), (10, 6)] [(3, 1)] = .ok v :=
  baselineIsBelow_total _ _ (by simp) (by simp)
example : baselineIsBelow [] [(3, 1), (4, 1)] = .error .IndexError :=
  C15_baseline_below_empty_raises _ _ (Or.inl rfl)
/-- overlapping lines that are neither below nor next to each other: still nothing is lost -/
example : ∃ gs, horizontalGroupLines [exA, ⟨9, ⟨50, 20, 150, 60⟩, some ⟨(50, 55), []⟩, true⟩] = .ok gs :=
  C15_group_lines_total _ (by decide)
example : KeyLt (.mk 1 ⟨0, 0, 5, 5⟩ [] []) (.mk 2 ⟨9, 0, 12, 5⟩ [] []) := by decide
/-- a page with two column regions given right column first: visited left column first -/
example : Visits (.mk 0 ⟨0, 0, 220, 72⟩ [.mk 2 ⟨120, 0, 220, 72⟩ [] [exD, exB], .mk 1 ⟨0, 0, 100, 70⟩ [] [exC, exA]] [])
    [.mk 1 ⟨0, 0, 100, 70⟩ [] [exC, exA], .mk 2 ⟨120, 0, 220, 72⟩ [] [exD, exB]] := by
  refine Visits.node 0 _ [] _ [(.mk 1 ⟨0, 0, 100, 70⟩ [] [exC, exA], [.mk 1 ⟨0, 0, 100, 70⟩ [] [exC, exA]]),
    (.mk 2 ⟨120, 0, 220, 72⟩ [] [exD, exB], [.mk 2 ⟨120, 0, 220, 72⟩ [] [exD, exB]])] (by simp) ?_ (by decide) ?_
  · exact Perm.swap _ _ _
  · intro e he
    simp only [mem_cons, not_mem_nil, or_false] at he
    rcases he with rfl | rfl <;> exact Visits.leaf _ _ _
example : CleanRows [[exA], [exC]] ∧ CleanRows [[exB], [exD]] := by decide
/-- the dispatcher with row_order and rtl on a flat region holding the four lines in any order -/
example : sortLinesInReadingOrder true .rtl (.mk 0 ⟨0, 0, 220, 72⟩ [] [exD, exN, exA, exC, exB]) = .ok [exB, exA, exD, exC] :=
  (C15_dispatcher_row_order _ [[exA, exB], [exC, exD]] (by decide) (by decide)).2

end Examples

end Pagexml.C15
