/-
C10 — Overlap and distance relations obey interval arithmetic and its symmetries.
All statements are over unbounded `Int` boxes (no lattice bound), arbitrary thresholds p/q
and margins.  Helper lemmas are `private`.
-/
import PagexmlModel.Model.C10
import Mathlib.Tactic.Linarith
import Mathlib.Data.Int.Interval

namespace Pagexml.C10

/-! ### interval arithmetic -/

private theorem overlapLen_eq (lo1 hi1 lo2 hi2 : Int) :
    overlapLen lo1 hi1 lo2 hi2 = max 0 (min hi1 hi2 - max lo1 lo2 + 1) := by
  unfold overlapLen; simp only; split <;> omega

private theorem overlapLen_comm (lo1 hi1 lo2 hi2 : Int) :
    overlapLen lo1 hi1 lo2 hi2 = overlapLen lo2 hi2 lo1 hi1 := by
  simp only [overlapLen_eq]; omega

private theorem overlapLen_shift (lo1 hi1 lo2 hi2 d : Int) :
    overlapLen (lo1 + d) (hi1 + d) (lo2 + d) (hi2 + d) = overlapLen lo1 hi1 lo2 hi2 := by
  simp only [overlapLen_eq]; omega

/-- **the overlap is the number of integers (pixels) in the intersection of the two closed
    intervals**, and 0 when they are disjoint -/
theorem C10_overlap_counts_pixels (lo1 hi1 lo2 hi2 : Int) :
    overlapLen lo1 hi1 lo2 hi2 = ((Finset.Icc lo1 hi1 ∩ Finset.Icc lo2 hi2).card : Int) := by
  have e : Finset.Icc lo1 hi1 ∩ Finset.Icc lo2 hi2 = Finset.Icc (max lo1 lo2) (min hi1 hi2) := by
    ext x; simp only [Finset.mem_inter, Finset.mem_Icc]; omega
  rw [e, Int.card_Icc, overlapLen_eq]
  omega

example : overlapLen 0 10 5 20 = 6 ∧ overlapLen 0 4 5 9 = 0 ∧ overlapLen 3 3 3 3 = 1 := by decide

/-- elements compared by their coordinates: at least one of them has no usable baseline -/
def ByCoords (a b : Elem) : Prop := ¬ (hasBaseline a = true ∧ hasBaseline b = true)

private theorem hOverlap_byCoords (a b : Elem) (ca cb : Box) (h : ByCoords a b)
    (ha : a.coords = some ca) (hb : b.coords = some cb) :
    hOverlap a b = .ok (overlapLen ca.l ca.r cb.l cb.r) := by
  unfold ByCoords at h
  unfold hOverlap crd
  cases h1 : hasBaseline a <;> cases h2 : hasBaseline b <;> cases h3 : a.baseline <;>
    cases h4 : b.baseline <;> simp_all [bind, Except.bind, pure, Except.pure]

private theorem hOverlap_baselines (a b : Elem) (ba bb : Box)
    (h1 : hasBaseline a = true) (h2 : hasBaseline b = true)
    (ha : a.baseline = some ba) (hb : b.baseline = some bb) :
    hOverlap a b = .ok (overlapLen ba.l ba.r bb.l bb.r) := by
  unfold hOverlap; simp [h1, h2, ha, hb]

/-- horizontal / vertical overlap = pixel count of the intersection of the bounding intervals
    (baseline extents when both are lines with baselines) -/
theorem C10_overlap_is_intersection (a b : Elem) (ca cb : Box)
    (ha : a.coords = some ca) (hb : b.coords = some cb) :
    vOverlap a b = .ok ((Finset.Icc ca.t ca.b ∩ Finset.Icc cb.t cb.b).card : Int) ∧
    (ByCoords a b → hOverlap a b = .ok ((Finset.Icc ca.l ca.r ∩ Finset.Icc cb.l cb.r).card : Int)) ∧
    (∀ ba bb, hasBaseline a = true → hasBaseline b = true → a.baseline = some ba → b.baseline = some bb →
      hOverlap a b = .ok ((Finset.Icc ba.l ba.r ∩ Finset.Icc bb.l bb.r).card : Int)) := by
  refine ⟨?_, ?_, ?_⟩
  · unfold vOverlap crd; simp [ha, hb, C10_overlap_counts_pixels]; rfl
  · intro h; rw [hOverlap_byCoords a b ca cb h ha hb, C10_overlap_counts_pixels]
  · intro ba bb h1 h2 h3 h4; rw [hOverlap_baselines a b ba bb h1 h2 h3 h4, C10_overlap_counts_pixels]

/-- distances are the gap between the coordinate intervals -/
theorem C10_distance_gap (a b : Elem) (ca cb : Box) (ha : a.coords = some ca) (hb : b.coords = some cb)
    (wa : ca.WF) (wb : cb.WF) :
    hDistance a b = .ok (max 0 (max (cb.l - ca.r) (ca.l - cb.r))) ∧
    vDistance a b = .ok (max 0 (max (cb.t - ca.b) (ca.t - cb.b))) := by
  obtain ⟨w1, w2⟩ := wa
  obtain ⟨w3, w4⟩ := wb
  constructor
  · unfold hDistance crd; simp only [ha, hb, bind, Except.bind, pure, Except.pure]
    split
    · congr 1; omega
    · split
      · congr 1; omega
      · congr 1; omega
  · unfold vDistance crd; simp only [ha, hb, bind, Except.bind, pure, Except.pure]
    split
    · congr 1; omega
    · split
      · congr 1; omega
      · congr 1; omega

/-- … and, for elements compared by their coordinates, 0 exactly when the overlap is positive -/
theorem C10_distance_zero_iff_overlap_pos (a b : Elem) (ca cb : Box)
    (ha : a.coords = some ca) (hb : b.coords = some cb) (wa : ca.WF) (wb : cb.WF) :
    (∃ d o, vDistance a b = .ok d ∧ vOverlap a b = .ok o ∧ (d = 0 ↔ 0 < o)) ∧
    (ByCoords a b → ∃ d o, hDistance a b = .ok d ∧ hOverlap a b = .ok o ∧ (d = 0 ↔ 0 < o)) := by
  obtain ⟨hd, vd⟩ := C10_distance_gap a b ca cb ha hb wa wb
  obtain ⟨w1, w2⟩ := wa
  obtain ⟨w3, w4⟩ := wb
  constructor
  · refine ⟨max 0 (max (cb.t - ca.b) (ca.t - cb.b)), overlapLen ca.t ca.b cb.t cb.b, vd, ?_, ?_⟩
    · unfold vOverlap crd; simp only [ha, hb, bind, Except.bind, pure, Except.pure]
    · rw [overlapLen_eq]; omega
  · intro h
    refine ⟨max 0 (max (cb.l - ca.r) (ca.l - cb.r)), overlapLen ca.l ca.r cb.l cb.r, hd,
      hOverlap_byCoords a b ca cb h ha hb, ?_⟩
    rw [overlapLen_eq]; omega

/-! ### symmetry -/

private theorem byCoords_symm {a b : Elem} (h : ByCoords a b) : ByCoords b a := fun ⟨x, y⟩ => h ⟨y, x⟩

theorem C10_symmetric (a b : Elem) (t : Thr) :
    hOverlap a b = hOverlap b a ∧ vOverlap a b = vOverlap b a ∧
    hDiff a b = hDiff b a ∧ vDiff a b = vDiff b a ∧
    regionsOverlap a b t = regionsOverlap b a t ∧
    (a.coords.isSome → b.coords.isSome → a.WF → b.WF →
      hDistance a b = hDistance b a ∧ vDistance a b = vDistance b a ∧
      isHOverlapping a b t = isHOverlapping b a t ∧ isVOverlapping a b t = isVOverlapping b a t ∧
      hDiffRatio a b = hDiffRatio b a ∧ vDiffRatio a b = vDiffRatio b a ∧
      hOverlapRatio a b = hOverlapRatio b a ∧ vOverlapRatio a b = vOverlapRatio b a) := by
  have hO : hOverlap a b = hOverlap b a := by
    unfold hOverlap crd
    cases h1 : hasBaseline a <;> cases h2 : hasBaseline b <;> cases h3 : a.baseline <;>
      cases h4 : b.baseline <;> cases h5 : a.coords <;> cases h6 : b.coords <;>
      simp [bind, Except.bind, pure, Except.pure, overlapLen_comm]
  have vO : vOverlap a b = vOverlap b a := by
    unfold vOverlap crd
    cases h5 : a.coords <;> cases h6 : b.coords <;>
      simp [bind, Except.bind, pure, Except.pure, overlapLen_comm]
  have hD : hDiff a b = hDiff b a := by
    unfold hDiff bothLinesWithBaseline crd
    cases a.kind <;> cases b.kind <;> cases a.baseline <;> cases b.baseline <;>
      cases a.coords <;> cases b.coords <;> simp [bind, Except.bind, pure, Except.pure, iabs] <;>
      (split <;> split <;> omega)
  have vD : vDiff a b = vDiff b a := by
    unfold vDiff bothLinesWithBaseline crd
    cases a.kind <;> cases b.kind <;> cases a.baseline <;> cases b.baseline <;>
      cases a.coords <;> cases b.coords <;> simp [bind, Except.bind, pure, Except.pure, iabs] <;>
      (split <;> split <;> omega)
  refine ⟨hO, vO, hD, vD, ?_, ?_⟩
  · unfold regionsOverlap
    cases a.coords <;> cases b.coords <;> simp only
    rename_i ca cb
    have e1 : min ca.b cb.b - max ca.t cb.t = min cb.b ca.b - max cb.t ca.t := by omega
    have e2 : min ca.r cb.r - max ca.l cb.l = min cb.r ca.r - max cb.l ca.l := by omega
    rw [e1, e2, Bool.or_comm]
  · intro sa sb wa wb
    obtain ⟨ca, hca⟩ := Option.isSome_iff_exists.mp sa
    obtain ⟨cb, hcb⟩ := Option.isSome_iff_exists.mp sb
    obtain ⟨w1, w2⟩ := wa.1 ca hca
    obtain ⟨w3, w4⟩ := wb.1 cb hcb
    have mnh : min ca.height cb.height = min cb.height ca.height := by omega
    have mnw : min ca.width cb.width = min cb.width ca.width := by omega
    refine ⟨?_, ?_, ?_, ?_, ?_, ?_, ?_, ?_⟩
    · unfold hDistance crd; simp only [hca, hcb, bind, Except.bind, pure, Except.pure]
      split <;> split <;> (try split) <;> (try split) <;> first | rfl | (congr 1; omega) | omega
    · unfold vDistance crd; simp only [hca, hcb, bind, Except.bind, pure, Except.pure]
      split <;> split <;> (try split) <;> (try split) <;> first | rfl | (congr 1; omega) | omega
    · unfold isHOverlapping; simp only [hca, hcb, hO, mnw]
      cases hOverlap b a <;> simp only [bind, Except.bind, pure, Except.pure]
      by_cases h1 : ca.width = 0 <;> by_cases h2 : cb.width = 0 <;> simp [h1, h2, Bool.and_comm]
    · unfold isVOverlapping; simp only [hca, hcb, vO, mnh]
      by_cases h1 : ca.height = 0 <;> by_cases h2 : cb.height = 0 <;> simp [h1, h2, Bool.and_comm]
    · unfold hDiffRatio crd; simp only [hca, hcb, hD]
      have e : max ca.r cb.r - min ca.l cb.l = max cb.r ca.r - min cb.l ca.l := by omega
      cases hDiff b a <;> simp only [bind, Except.bind]
      rw [e]
    · unfold vDiffRatio crd; simp only [hca, hcb, vD]
      have e : max ca.b cb.b - min ca.t cb.t = max cb.b ca.b - min cb.t ca.t := by omega
      cases vDiff b a <;> simp only [bind, Except.bind]
      rw [e]
    · unfold hOverlapRatio crd; simp only [hca, hcb, hO]
      have e : max ca.r cb.r - min ca.l cb.l = max cb.r ca.r - min cb.l ca.l := by omega
      cases hOverlap b a <;> simp only [bind, Except.bind]
      rw [e]
    · unfold vOverlapRatio crd; simp only [hca, hcb, vO]
      have e : max ca.b cb.b - min ca.t cb.t = max cb.b ca.b - min cb.t ca.t := by omega
      cases vOverlap b a <;> simp only [bind, Except.bind]
      rw [e]


/-! ### translation -/

private theorem hasBaseline_shift (e : Elem) (dx dy : Int) : hasBaseline (e.shift dx dy) = hasBaseline e := by
  unfold hasBaseline Elem.shift; cases e.kind <;> simp

private theorem bothLines_shift (a b : Elem) (dx dy : Int) :
    bothLinesWithBaseline (a.shift dx dy) (b.shift dx dy) =
      (bothLinesWithBaseline a b).map (fun p => (p.1.shift dx dy, p.2.shift dx dy)) := by
  unfold bothLinesWithBaseline Elem.shift
  cases a.kind <;> cases b.kind <;> cases a.baseline <;> cases b.baseline <;> simp

/-- every relation is unchanged when both elements are translated together -/
theorem C10_translation_invariant (a b : Elem) (t : Thr) (margin dx dy : Int) :
    let a' := a.shift dx dy
    let b' := b.shift dx dy
    hOverlap a' b' = hOverlap a b ∧ vOverlap a' b' = vOverlap a b ∧
    isHOverlapping a' b' t = isHOverlapping a b t ∧ isVOverlapping a' b' t = isVOverlapping a b t ∧
    hDiff a' b' = hDiff a b ∧ vDiff a' b' = vDiff a b ∧
    hDiffRatio a' b' = hDiffRatio a b ∧ vDiffRatio a' b' = vDiffRatio a b ∧
    hOverlapRatio a' b' = hOverlapRatio a b ∧ vOverlapRatio a' b' = vOverlapRatio a b ∧
    isBelow a' b' margin = isBelow a b margin ∧ isNextTo a' b' margin = isNextTo a b margin ∧
    hDistance a' b' = hDistance a b ∧ vDistance a' b' = vDistance a b ∧
    inSameColumn a' b' = inSameColumn a b ∧ regionType a' = regionType a ∧
    regionsOverlap a' b' t = regionsOverlap a b t ∧
    (∀ x y, isPointInside (x + dx) (y + dy) a' = isPointInside x y a) := by
  intro a' b'
  have hO : hOverlap a' b' = hOverlap a b := by
    simp only [a', b']
    unfold hOverlap
    rw [hasBaseline_shift, hasBaseline_shift]
    unfold crd Elem.shift Box.shift
    cases hasBaseline a <;> cases hasBaseline b <;> cases a.baseline <;> cases b.baseline <;>
      cases a.coords <;> cases b.coords <;>
      simp [bind, Except.bind, pure, Except.pure, overlapLen_shift]
  have vO : vOverlap a' b' = vOverlap a b := by
    simp only [a', b']
    unfold vOverlap crd Elem.shift Box.shift
    cases a.coords <;> cases b.coords <;> simp [bind, Except.bind, pure, Except.pure, overlapLen_shift]
  have hD : hDiff a' b' = hDiff a b := by
    simp only [a', b']
    unfold hDiff
    rw [bothLines_shift]
    unfold crd Elem.shift Box.shift
    cases bothLinesWithBaseline a b <;> cases a.coords <;> cases b.coords <;>
      simp [bind, Except.bind, pure, Except.pure]
  have vD : vDiff a' b' = vDiff a b := by
    simp only [a', b']
    unfold vDiff
    rw [bothLines_shift]
    unfold crd Elem.shift Box.shift
    cases bothLinesWithBaseline a b <;> cases a.coords <;> cases b.coords <;>
      simp [bind, Except.bind, pure, Except.pure]
  have iH : ∀ t, isHOverlapping a' b' t = isHOverlapping a b t := by
    intro t
    unfold isHOverlapping
    rw [hO]
    simp only [a', b', Elem.shift]
    cases a.coords <;> cases b.coords <;> simp only [Option.map]
    rename_i ca cb
    have e1 : (ca.shift dx dy).width = ca.width := by simp [Box.shift, Box.width]
    have e2 : (cb.shift dx dy).width = cb.width := by simp [Box.shift, Box.width]
    rw [e1, e2]
    cases hOverlap a b <;> simp only [bind, Except.bind, pure, Except.pure]
    simp only [Box.shift]
    split <;> (try split) <;> (try split) <;> simp
  have iV : ∀ t, isVOverlapping a' b' t = isVOverlapping a b t := by
    intro t
    unfold isVOverlapping
    rw [vO]
    simp only [a', b', Elem.shift]
    cases a.coords <;> cases b.coords <;> simp only [Option.map]
    rename_i ca cb
    have e1 : (ca.shift dx dy).height = ca.height := by simp [Box.shift, Box.height]
    have e2 : (cb.shift dx dy).height = cb.height := by simp [Box.shift, Box.height]
    rw [e1, e2]
    simp only [Box.shift]
    split <;> (try split) <;> (try split) <;> simp
  have crdA : crd a' = (crd a).map (·.shift dx dy) := by
    simp only [a', crd, Elem.shift]; cases a.coords <;> rfl
  have crdB : crd b' = (crd b).map (·.shift dx dy) := by
    simp only [b', crd, Elem.shift]; cases b.coords <;> rfl
  refine ⟨hO, vO, iH t, iV t, hD, vD, ?_, ?_, ?_, ?_, ?_, ?_, ?_, ?_, ?_, ?_, ?_, ?_⟩
  · unfold hDiffRatio; rw [hD, crdA, crdB]
    cases hDiff a b <;> cases crd a <;> cases crd b <;>
      simp [bind, Except.bind, Except.map, Box.shift]
  · unfold vDiffRatio; rw [vD, crdA, crdB]
    cases vDiff a b <;> cases crd a <;> cases crd b <;>
      simp [bind, Except.bind, Except.map, Box.shift]
  · unfold hOverlapRatio; rw [hO, crdA, crdB]
    cases hOverlap a b <;> cases crd a <;> cases crd b <;>
      simp [bind, Except.bind, Except.map, Box.shift]
  · unfold vOverlapRatio; rw [vO, crdA, crdB]
    cases vOverlap a b <;> cases crd a <;> cases crd b <;>
      simp [bind, Except.bind, Except.map, Box.shift]
  · unfold isBelow; rw [iH hDefault, crdA, crdB]
    cases isHOverlapping a b hDefault <;> cases crd a <;> cases crd b <;>
      simp [bind, Except.bind, Except.map, Box.shift, pure, Except.pure]
    rename_i v ca cb
    cases v <;> simp
    constructor <;> intro h <;> omega
  · unfold isNextTo; rw [iV vDefault, crdA, crdB]
    cases isVOverlapping a b vDefault <;> cases crd a <;> cases crd b <;>
      simp [bind, Except.bind, Except.map, Box.shift, pure, Except.pure]
    rename_i v ca cb
    cases v <;> simp
    constructor <;> intro h <;> omega
  · unfold hDistance; rw [crdA, crdB]
    cases crd a <;> cases crd b <;> simp [bind, Except.bind, Except.map, Box.shift, pure, Except.pure]
  · unfold vDistance; rw [crdA, crdB]
    cases crd a <;> cases crd b <;> simp [bind, Except.bind, Except.map, Box.shift, pure, Except.pure]
  · unfold inSameColumn inSameColumn.rest; rw [hO, crdA]
    simp only [a', b', Elem.shift]
    cases a.scanId <;> cases b.scanId <;> cases a.columnId <;> cases b.columnId <;>
      cases hOverlap a b <;> cases crd a <;>
      simp [bind, Except.bind, Except.map, Box.shift, Box.width, pure, Except.pure]
  · unfold regionType; rw [crdA]
    cases crd a <;> simp [bind, Except.bind, Except.map, Box.shift, Box.width, Box.height]
    rfl
  · unfold regionsOverlap
    simp only [a', b', Elem.shift]
    cases a.coords <;> cases b.coords <;> simp only [Option.map]
    rename_i ca cb
    simp only [Box.shift, Box.height, Box.width]
    have e1 : min (ca.b + dy) (cb.b + dy) - max (ca.t + dy) (cb.t + dy) = min ca.b cb.b - max ca.t cb.t := by omega
    have e2 : min (ca.r + dx) (cb.r + dx) - max (ca.l + dx) (cb.l + dx) = min ca.r cb.r - max ca.l cb.l := by omega
    have e3 : ca.b + dy - (ca.t + dy) = ca.b - ca.t := by omega
    have e4 : ca.r + dx - (ca.l + dx) = ca.r - ca.l := by omega
    have e5 : cb.b + dy - (cb.t + dy) = cb.b - cb.t := by omega
    have e6 : cb.r + dx - (cb.l + dx) = cb.r - cb.l := by omega
    rw [e1, e2, e3, e4, e5, e6]
  · intro x y
    unfold isPointInside; rw [crdA]
    cases crd a <;> simp [bind, Except.bind, Except.map, Box.shift, pure, Except.pure]


/-! ### transposition -/

/-- the two is-overlapping functions have the same default threshold IN THE CURRENT SOURCE
    (a statement about the regenerated table: it fails to check if only one default is edited,
    and then `is_next_to` is no longer `is_below` on the transposed pair) -/
theorem C10_default_thresholds_agree : vDefault = hDefault := by decide

/-- each vertical variant equals the horizontal variant on the transposed elements, for
    elements compared by their coordinates (DESIGN §9: for two lines with baselines the
    horizontal variants read the baselines, the vertical ones the coordinates) -/
theorem C10_transpose_dual (a b : Elem) (t : Thr) (margin : Int)
    (ha : a.baseline = none) (hb : b.baseline = none) :
    vOverlap a b = hOverlap a.transpose b.transpose ∧
    isVOverlapping a b t = isHOverlapping a.transpose b.transpose t ∧
    vDiff a b = hDiff a.transpose b.transpose ∧
    vDiffRatio a b = hDiffRatio a.transpose b.transpose ∧
    vOverlapRatio a b = hOverlapRatio a.transpose b.transpose ∧
    isNextTo a b margin = isBelow a.transpose b.transpose margin ∧
    vDistance a b = hDistance a.transpose b.transpose := by
  have hbA : hasBaseline a.transpose = false := by
    unfold hasBaseline Elem.transpose; cases a.kind <;> simp [ha]
  have crdA : crd a.transpose = (crd a).map Box.transpose := by
    simp only [crd, Elem.transpose]; cases a.coords <;> rfl
  have crdB : crd b.transpose = (crd b).map Box.transpose := by
    simp only [crd, Elem.transpose]; cases b.coords <;> rfl
  have vO : vOverlap a b = hOverlap a.transpose b.transpose := by
    unfold hOverlap vOverlap
    rw [hbA, crdA, crdB]
    cases crd a <;> cases crd b <;> simp [bind, Except.bind, Except.map, Box.transpose, pure, Except.pure]
  have bl : bothLinesWithBaseline a b = none := by
    unfold bothLinesWithBaseline; cases a.kind <;> cases b.kind <;> simp [ha]
  have blT : bothLinesWithBaseline a.transpose b.transpose = none := by
    unfold bothLinesWithBaseline Elem.transpose; cases a.kind <;> cases b.kind <;> simp [ha]
  have vD : vDiff a b = hDiff a.transpose b.transpose := by
    unfold vDiff hDiff
    rw [bl, blT, crdA, crdB]
    cases crd a <;> cases crd b <;> simp [bind, Except.bind, Except.map, Box.transpose, pure, Except.pure]
  have iV : ∀ t, isVOverlapping a b t = isHOverlapping a.transpose b.transpose t := by
    intro t
    unfold isVOverlapping isHOverlapping
    rw [← vO]
    simp only [Elem.transpose]
    cases hca : a.coords <;> cases hcb : b.coords <;> simp only [Option.map]
    rename_i ca cb
    have e1 : ca.transpose.width = ca.height := by simp [Box.transpose, Box.width, Box.height]
    have e2 : cb.transpose.width = cb.height := by simp [Box.transpose, Box.width, Box.height]
    rw [e1, e2]
    have hv : vOverlap a b = .ok (overlapLen ca.t ca.b cb.t cb.b) := by
      unfold vOverlap crd; simp [hca, hcb, bind, Except.bind, pure, Except.pure]
    rw [hv]
    simp only [bind, Except.bind, pure, Except.pure, Box.transpose]
    split <;> (try split) <;> (try split) <;> (try simp) <;> rfl
  refine ⟨vO, iV t, vD, ?_, ?_, ?_, ?_⟩
  · unfold vDiffRatio hDiffRatio; rw [← vD, crdA, crdB]
    cases vDiff a b <;> cases crd a <;> cases crd b <;>
      simp [bind, Except.bind, Except.map, Box.transpose]
  · unfold vOverlapRatio hOverlapRatio; rw [← vO, crdA, crdB]
    cases vOverlap a b <;> cases crd a <;> cases crd b <;>
      simp [bind, Except.bind, Except.map, Box.transpose]
  · unfold isNextTo isBelow; rw [← C10_default_thresholds_agree, ← iV vDefault, crdA, crdB]
    cases isVOverlapping a b vDefault <;> cases crd a <;> cases crd b <;>
      simp [bind, Except.bind, Except.map, Box.transpose, pure, Except.pure]
  · unfold vDistance hDistance; rw [crdA, crdB]
    cases crd a <;> cases crd b <;> simp [bind, Except.bind, Except.map, Box.transpose, pure, Except.pure]

example : ∃ a b : Elem, a.baseline = none ∧ b.baseline = none ∧ vOverlap a b = .ok 3 :=
  ⟨⟨.region, some ⟨0, 0, 9, 4⟩, none, none, none⟩, ⟨.line, some ⟨2, 2, 5, 30⟩, none, none, none⟩, rfl, rfl, by decide⟩

/-! ### regions-overlap -/

/-- a threshold strictly between 0 and 1 -/
def Thr.Proper (t : Thr) : Prop := 0 < t.p ∧ t.p < t.q

private theorem ratioGt_self (x : Int) (t : Thr) (ht : t.Proper) (hx : 0 < x) : ratioGt x x t = true := by
  obtain ⟨h1, h2⟩ := ht
  unfold ratioGt; simp only [decide_eq_true_eq]
  nlinarith

private theorem ratioGt_zero (y : Int) (t : Thr) (ht : t.Proper) (hy : 0 < y) : ratioGt 0 y t = false := by
  obtain ⟨h1, h2⟩ := ht
  unfold ratioGt; simp only [decide_eq_false_iff_not, not_lt, zero_mul]
  positivity

/-- false when an element has no coordinates -/
theorem C10_ro_nocoords (a b : Elem) (t : Thr) (h : a.coords = none ∨ b.coords = none) :
    regionsOverlap a b t = false := by
  unfold regionsOverlap
  rcases h with h | h
  · rw [h]
  · rw [h]; cases a.coords <;> rfl

/-- true when one box contains the other (either way round), for every threshold in (0,1);
    in particular reflexive -/
theorem C10_ro_contains (a b : Elem) (ca cb : Box) (t : Thr) (ht : t.Proper)
    (ha : a.coords = some ca) (hb : b.coords = some cb) (wa : ca.WF)
    (hin : cb.l ≤ ca.l ∧ ca.r ≤ cb.r ∧ cb.t ≤ ca.t ∧ ca.b ≤ cb.b) :
    regionsOverlap a b t = true ∧ regionsOverlap b a t = true := by
  obtain ⟨w1, w2⟩ := wa
  obtain ⟨i1, i2, i3, i4⟩ := hin
  have v : max 0 (min ca.b cb.b - max ca.t cb.t + 1) = ca.height + 1 := by unfold Box.height; omega
  have h : max 0 (min ca.r cb.r - max ca.l cb.l + 1) = ca.width + 1 := by unfold Box.width; omega
  have v' : max 0 (min cb.b ca.b - max cb.t ca.t + 1) = ca.height + 1 := by unfold Box.height; omega
  have h' : max 0 (min cb.r ca.r - max cb.l ca.l + 1) = ca.width + 1 := by unfold Box.width; omega
  have r1 := ratioGt_self (ca.height + 1) t ht (by unfold Box.height; omega)
  have r2 := ratioGt_self (ca.width + 1) t ht (by unfold Box.width; omega)
  constructor
  · unfold regionsOverlap; simp only [ha, hb, v, h, r1, r2, Bool.and_self, Bool.true_or]
  · unfold regionsOverlap; simp only [ha, hb, v', h', r1, r2, Bool.and_self, Bool.or_true]

theorem C10_ro_reflexive (a : Elem) (ca : Box) (t : Thr) (ht : t.Proper) (ha : a.coords = some ca)
    (wa : ca.WF) : regionsOverlap a a t = true :=
  (C10_ro_contains a a ca ca t ht ha ha wa ⟨le_refl _, le_refl _, le_refl _, le_refl _⟩).1

/-- false when the boxes are disjoint -/
theorem C10_ro_disjoint (a b : Elem) (ca cb : Box) (t : Thr) (ht : t.Proper)
    (ha : a.coords = some ca) (hb : b.coords = some cb) (wa : ca.WF) (wb : cb.WF)
    (hdis : ca.r < cb.l ∨ cb.r < ca.l ∨ ca.b < cb.t ∨ cb.b < ca.t) :
    regionsOverlap a b t = false := by
  obtain ⟨w1, w2⟩ := wa
  obtain ⟨w3, w4⟩ := wb
  have z1 := ratioGt_zero (ca.height + 1) t ht (by unfold Box.height; omega)
  have z2 := ratioGt_zero (ca.width + 1) t ht (by unfold Box.width; omega)
  have z3 := ratioGt_zero (cb.height + 1) t ht (by unfold Box.height; omega)
  have z4 := ratioGt_zero (cb.width + 1) t ht (by unfold Box.width; omega)
  unfold regionsOverlap; simp only [ha, hb]
  rcases hdis with h | h | h | h
  · have e : max 0 (min ca.r cb.r - max ca.l cb.l + 1) = 0 := by omega
    simp [e, z2, z4]
  · have e : max 0 (min ca.r cb.r - max ca.l cb.l + 1) = 0 := by omega
    simp [e, z2, z4]
  · have e : max 0 (min ca.b cb.b - max ca.t cb.t + 1) = 0 := by omega
    simp [e, z1, z3]
  · have e : max 0 (min ca.b cb.b - max ca.t cb.t + 1) = 0 := by omega
    simp [e, z1, z3]

private theorem ratioGt_antitone (x y : Int) (t t' : Thr) (hq : 0 < t.q) (hq' : 0 < t'.q)
    (hle : t.p * t'.q ≤ t'.p * t.q) (hy : 0 ≤ y) (h : ratioGt x y t' = true) : ratioGt x y t = true := by
  unfold ratioGt at *
  simp only [decide_eq_true_eq] at *
  by_contra hc
  push Not at hc
  have h1 : x * t.q * t'.q ≤ t.p * y * t'.q := mul_le_mul_of_nonneg_right hc (le_of_lt hq')
  have h2 : t'.p * y * t.q < x * t'.q * t.q := mul_lt_mul_of_pos_right h hq
  have h3 : t.p * t'.q * y ≤ t'.p * t.q * y := mul_le_mul_of_nonneg_right hle hy
  nlinarith

/-- it can only switch from true to false as the threshold grows: if it holds at `t'` and
    `t ≤ t'` (as rationals, `p/q ≤ p'/q'`), it holds at `t` -/
theorem C10_ro_antitone (a b : Elem) (t t' : Thr) (hq : 0 < t.q) (hq' : 0 < t'.q)
    (hle : t.p * t'.q ≤ t'.p * t.q) (wa : a.WF) (wb : b.WF)
    (h : regionsOverlap a b t' = true) : regionsOverlap a b t = true := by
  unfold regionsOverlap at *
  cases hca : a.coords <;> cases hcb : b.coords <;> simp only [hca, hcb] at h ⊢ <;> try exact h
  rename_i ca cb
  obtain ⟨w1, w2⟩ := wa.1 ca hca
  obtain ⟨w3, w4⟩ := wb.1 cb hcb
  have y1 : 0 ≤ ca.height + 1 := by unfold Box.height; omega
  have y2 : 0 ≤ ca.width + 1 := by unfold Box.width; omega
  have y3 : 0 ≤ cb.height + 1 := by unfold Box.height; omega
  have y4 : 0 ≤ cb.width + 1 := by unfold Box.width; omega
  simp only [Bool.or_eq_true, Bool.and_eq_true] at h ⊢
  rcases h with ⟨h1, h2⟩ | ⟨h1, h2⟩
  · exact Or.inl ⟨ratioGt_antitone _ _ t t' hq hq' hle y1 h1, ratioGt_antitone _ _ t t' hq hq' hle y2 h2⟩
  · exact Or.inr ⟨ratioGt_antitone _ _ t t' hq hq' hle y3 h1, ratioGt_antitone _ _ t t' hq hq' hle y4 h2⟩

example : (⟨1, 2⟩ : Thr).Proper ∧ (⟨1, 4⟩ : Thr).p * (⟨3, 4⟩ : Thr).q ≤ (⟨3, 4⟩ : Thr).p * (⟨1, 4⟩ : Thr).q := by
  unfold Thr.Proper; decide
example : regionsOverlap ⟨.region, some ⟨0, 0, 9, 9⟩, none, none, none⟩ ⟨.region, some ⟨4, 0, 20, 9⟩, none, none, none⟩ ⟨1, 2⟩ = true ∧
    regionsOverlap ⟨.region, some ⟨0, 0, 9, 9⟩, none, none, none⟩ ⟨.region, some ⟨4, 0, 20, 9⟩, none, none, none⟩ ⟨3, 4⟩ = false := by
  decide

end Pagexml.C10
