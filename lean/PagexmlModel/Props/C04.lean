/-
C04 — Traversals and statistics count each element once and have no side effects.

Value level (any tree, any depth, regions mixing lines, sub-regions and tables, pages with
columns / regions / extra):  `C04_lines_once`, `C04_lines_exact`, `C04_words`, `C04_leaf_regions`,
`C04_stats_*`.  Store level (object graph of C02):  `C04_accessor_pure`, `C04_same_answer`.
-/
import PagexmlModel.Lemmas.C04Trav
import PagexmlModel.Lemmas.C02Inv
import PagexmlModel.Lemmas.C04Pure

namespace Pagexml.C04
open Pagexml.C02

/-! ### every line exactly once -/

private theorem perm_of_counts {l₁ l₂ : List Line} (h : ∀ a, l₁.count a = l₂.count a) : l₁.Perm l₂ :=
  List.perm_iff_count.mpr h

mutual
/-- **Lines once.**  On a well-formed tree `get_lines()` succeeds and returns a permutation of
    all lines of the tree: every line of every nested region, column, extra region and table
    cell exactly once (`allLines` is the independent document-order reading). -/
theorem C04_lines_once : ∀ (r : Region), WF r → ∃ ls, getLines r = .ok ls ∧ ls.Perm (allLines r)
  | .mk nid cls t lines subs tables columns extra pages colOrder, h => by
    simp only [WF] at h
    obtain ⟨hpage, hnp, hs, hc, he⟩ := h
    obtain ⟨b, eb, pb⟩ := getLinesL_once subs hs
    simp only [getLines, allLines]
    by_cases hcls : cls = .page
    · obtain ⟨hl, hord⟩ := hpage hcls
      obtain ⟨per, ep, hlen, pp⟩ := getLinesEach_once columns hc
      obtain ⟨d, ed, pd⟩ := getLinesL_once extra he
      subst hl
      simp only [hcls, if_true, ep, eb, ed, bind, Except.bind, List.isEmpty_nil, Bool.not_true, Bool.false_eq_true, if_false]
      refine ⟨_, rfl, ?_⟩
      have pc : (permute colOrder per).Perm (allLinesL columns) :=
        (permute_perm colOrder per (hlen ▸ hord)).trans pp
      apply perm_of_counts
      intro a
      have c1 := pc.count_eq a
      have c2 := pb.count_eq a
      have c3 := pd.count_eq a
      simp only [List.count_append, List.count_nil, c1, c2, c3]
      omega
    · obtain ⟨hcol, hex⟩ := hnp hcls
      subst hcol hex
      simp only [hcls, if_false, eb, bind, Except.bind]
      refine ⟨_, rfl, ?_⟩
      apply perm_of_counts
      intro a
      have c2 := pb.count_eq a
      simp only [List.count_append, List.count_nil, c2, allLinesL]
      omega
theorem getLinesL_once : ∀ (rs : List Region), WFL rs → ∃ ls, getLinesL rs = .ok ls ∧ ls.Perm (allLinesL rs)
  | [], _ => ⟨[], rfl, by simp [allLinesL]⟩
  | r :: rs, h => by
    simp only [WFL] at h
    obtain ⟨a, ea, pa⟩ := C04_lines_once r h.1
    obtain ⟨b, eb, pb⟩ := getLinesL_once rs h.2
    refine ⟨a ++ b, by simp [getLinesL, ea, eb, bind, Except.bind], ?_⟩
    simp only [allLinesL]
    exact pa.append pb
theorem getLinesEach_once : ∀ (rs : List Region), WFL rs →
    ∃ per, getLinesEach rs = .ok per ∧ per.length = rs.length ∧ per.flatten.Perm (allLinesL rs)
  | [], _ => ⟨[], rfl, rfl, by simp [allLinesL]⟩
  | r :: rs, h => by
    simp only [WFL] at h
    obtain ⟨a, ea, pa⟩ := C04_lines_once r h.1
    obtain ⟨b, eb, hl, pb⟩ := getLinesEach_once rs h.2
    refine ⟨a :: b, by simp [getLinesEach, ea, eb, bind, Except.bind], by simp [hl], ?_⟩
    simp only [allLinesL, List.flatten_cons]
    exact pa.append pb
end

/-- a page with two columns that `sorted` swaps, a region and an extra region, a table in a column -/
private def l (n : Nat) (t : String) : Line := { nid := n, text := some t, words := [] }
private def leaf (n : Nat) (ls : List Line) : Region := .mk n .region none ls [] [] [] [] [] []
private def demoPage : Region :=
  .mk 100 .page none []
    [.mk 10 .region none [l 11 "a b"] [leaf 12 [l 13 "c"]] [⟨14, [⟨15, [⟨16, [l 17 "t"]⟩]⟩]⟩] [] [] [] []]
    []
    [.mk 20 .column none [l 21 "d"] [] [] [] [] [] [], .mk 30 .column none [] [leaf 31 [l 32 "e  f"]] [] [] [] [] []]
    [leaf 40 [l 41 ""]] [] [1, 0]

private theorem demoPage_wf : WF demoPage := by
  simp [demoPage, leaf, WF, WFL]
  decide

example : WF demoPage := demoPage_wf
example : (getLines demoPage).toOption.map (·.map (·.nid)) = some [32, 21, 13, 17, 11, 41] := by decide
example : (allLines demoPage).map (·.nid) = [11, 13, 17, 21, 32, 41] := by decide

/-- a page with direct lines is rejected by the code itself (outside `WF`) -/
theorem C04_page_with_lines_raises (nid : Nat) (t : Option String) (x : Line) (xs : List Line) (subs : List Region)
    (tables : List Table) (columns extra pages : List Region) (o : List Nat)
    (h : WFL subs ∧ WFL columns ∧ WFL extra) :
    getLines (.mk nid .page t (x :: xs) subs tables columns extra pages o) = .error .AttributeError := by
  obtain ⟨b, eb, _⟩ := getLinesL_once subs h.1
  obtain ⟨per, ep, _⟩ := getLinesEach_once columns h.2.1
  obtain ⟨d, ed, _⟩ := getLinesL_once extra h.2.2
  simp [getLines, eb, ep, ed, bind, Except.bind]

example : getLines (.mk 1 .page none [l 2 "x"] [] [] [] [] [] []) = .error .AttributeError :=
  C04_page_with_lines_raises 1 none (l 2 "x") [] [] [] [] [] [] [] ⟨trivial, trivial, trivial⟩

/-! ### exact order for trees without pages -/

mutual
/-- no page anywhere in the tree (text regions, columns, scans nested to any depth) -/
def NoPage : Region → Prop
  | .mk _ cls _ _ subs _ columns extra _ _ => cls ≠ .page ∧ columns = [] ∧ extra = [] ∧ NoPageL subs
def NoPageL : List Region → Prop
  | [] => True
  | r :: rs => NoPage r ∧ NoPageL rs
end

mutual
/-- the order of `PageXMLTextRegion.get_lines`: sub-regions first, then tables, then own lines -/
def canonLines : Region → List Line
  | .mk _ _ _ lines subs tables _ _ _ _ => canonLinesL subs ++ tables.flatMap tableLines ++ lines
def canonLinesL : List Region → List Line
  | [] => []
  | r :: rs => canonLines r ++ canonLinesL rs
end

mutual
/-- **Exact order.**  Without pages `get_lines()` never fails and returns the lines of the
    sub-regions (in order, recursively), then those of the tables, then the region's own lines. -/
theorem C04_lines_exact : ∀ (r : Region), NoPage r → getLines r = .ok (canonLines r)
  | .mk nid cls t lines subs tables columns extra pages colOrder, h => by
    simp only [NoPage] at h
    simp [getLines, canonLines, h.1, getLinesL_exact subs h.2.2.2, bind, Except.bind]
theorem getLinesL_exact : ∀ (rs : List Region), NoPageL rs → getLinesL rs = .ok (canonLinesL rs)
  | [], _ => rfl
  | r :: rs, h => by
    simp only [NoPageL] at h
    simp [getLinesL, canonLinesL, C04_lines_exact r h.1, getLinesL_exact rs h.2, bind, Except.bind]
end

private def demoRegion : Region :=
  .mk 10 .region none [l 11 "a b"] [leaf 12 [l 13 "c"], .mk 18 .region none [] [leaf 19 [l 20 "z"]] [] [] [] [] []]
    [⟨14, [⟨15, [⟨16, [l 17 "t"]⟩]⟩]⟩] [] [] [] []

example : NoPage demoRegion := by simp [demoRegion, leaf, NoPage, NoPageL]
example : (canonLines demoRegion).map (·.nid) = [13, 20, 17, 11] := by decide

/-! ### words -/

/-- **Words.**  For a region without region-level text the word list is, line by line in the
    order of `get_lines()`, the line's Word elements if it has any, else the blank-separated
    tokens of its non-empty text. -/
theorem C04_words (r : Region) (ls : List Line) (ht : r.text = none) (hl : getLines r = .ok ls) :
    getWords r = .ok (ls.flatMap lineWords) := by
  simp [getWords, ht, hl, bind, Except.bind]

/-- what a line contributes -/
theorem C04_line_words (x : Line) :
    lineWords x = if x.words ≠ [] then x.words.map .node
      else match x.text with
        | some t => if t = "" then [] else splitBlank t
        | none => [] := by
  unfold lineWords
  cases hw : x.words with
  | nil =>
    simp only [List.isEmpty_nil, Bool.not_true, Bool.false_eq_true, if_false, ne_eq, not_true_eq_false]
    cases x.text with
    | none => rfl
    | some t => simp [String.isEmpty_iff]
  | cons a as => simp

/-- a region-level text overrides the lines (DESIGN §9) -/
theorem C04_words_region_text (r : Region) (t : String) (ht : r.text = some t) : getWords r = .ok (splitBlank t) := by
  simp [getWords, ht]

example : (getWords demoRegion).toOption = some [.tok "c", .tok "z", .tok "t", .tok "a", .tok "b"] := by decide
example : lineWords { nid := 1, text := some "a  b", words := [] } = [.tok "a", .tok "", .tok "b"] := by decide
example : lineWords { nid := 1, text := some "a b", words := [7, 8] } = [.node 7, .node 8] := by decide
example : lineWords { nid := 1, text := some "", words := [] } = [] := by decide

/-! ### leaf regions -/

mutual
theorem inner_eq : ∀ (r : Region), NoPage r → inner r = ((allRegions r).filter isLeaf).map (·.nid)
  | .mk nid cls t lines subs tb columns extra pg o, h => by
    simp only [NoPage] at h
    have e := innerSubs_eq subs h.2.2.2
    simp only [inner, allRegions, h.1, if_false, e, List.filter_append, List.map_append]
    congr 1
    cases subs <;> cases lines <;> simp [isLeaf, Region.subs, Region.lines, Region.nid]
theorem innerSubs_eq : ∀ (rs : List Region), NoPageL rs → innerSubs rs = ((allRegionsL rs).filter isLeaf).map (·.nid)
  | [], _ => rfl
  | .mk nid cls t lines subs tb columns extra pg o :: rs, h => by
    simp only [NoPageL] at h
    have e1 := inner_eq (.mk nid cls t lines subs tb columns extra pg o) h.1
    have e2 := innerSubs_eq rs h.2
    simp only [innerSubs, allRegionsL, List.filter_append, List.map_append, e2]
    congr 1
    rw [← e1]
    -- the loop body equals the recursive call for a non-page region
    simp only [NoPage] at h
    cases subs with
    | cons s ss => simp
    | nil =>
      simp only [List.isEmpty_nil, Bool.not_true, Bool.false_eq_true, if_false, inner, h.1.1, innerSubs,
        List.nil_append, Bool.true_and]
end

theorem innerL_eq : ∀ (rs : List Region), NoPageL rs → innerL rs = ((allRegionsL rs).filter isLeaf).map (·.nid)
  | [], _ => rfl
  | r :: rs, h => by
    simp only [NoPageL] at h
    simp only [innerL, allRegionsL, List.filter_append, List.map_append, inner_eq r h.1, innerL_eq rs h.2]

/-- **Leaf regions.**  `get_inner_text_regions()` returns exactly the regions of the closure
    that have lines and no sub-regions, each once, in document order — for a text region, column
    or scan (closure through the sub-regions, the root included) and for a page (closure through
    columns, regions and extra). -/
theorem C04_leaf_regions (r : Region)
    (h : NoPage r ∨ (r.cls = .page ∧ NoPageL r.columns ∧ NoPageL r.subs ∧ NoPageL r.extra)) :
    inner r = ((allRegions r).filter isLeaf).map (·.nid) := by
  rcases h with h | ⟨hc, h1, h2, h3⟩
  · exact inner_eq r h
  · cases r with
    | mk nid cls t lines subs tb columns extra pg o =>
      simp only [Region.cls] at hc
      simp only [Region.columns, Region.subs, Region.extra] at h1 h2 h3
      simp only [inner, allRegions, hc, if_true, List.filter_append, List.map_append, innerL_eq _ h1,
        innerL_eq _ h2, innerL_eq _ h3]

example : inner demoRegion = [12, 19] := by decide
example : inner demoPage = [20, 31, 12, 40] := by decide
example : ((allRegions demoPage).filter isLeaf).map (·.nid) = [20, 31, 12, 40] := by decide

/-! ### statistics -/

/-- **Statistics of a region / column.**  When the traversals succeed, the stats are their
    sizes and the sizes of the direct child lists. -/
theorem C04_stats_region (r : Region) (ls : List Line) (ws : List WordItem) (hc : r.cls ≠ .page ∧ r.cls ≠ .scan)
    (hl : getLines r = .ok ls) (hw : getWords r = .ok ws) :
    stats r = .ok ([("lines", ls.length), ("words", ws.length), ("text_regions", r.subs.length)]
      ++ (if r.tables = [] then [] else [("table_regions", r.tables.length)])) := by
  simp only [stats, hc.1, hc.2, if_false, regionStats, hl, hw, bind, Except.bind, optStat]
  cases r.tables <;> simp

/-- the scan adds the column / extra counts of its pages and the number of pages -/
theorem C04_stats_scan (r : Region) (ls : List Line) (ws : List WordItem) (hc : r.cls = .scan)
    (hl : getLines r = .ok ls) (hw : getWords r = .ok ws) :
    stats r = .ok ([("lines", ls.length), ("words", ws.length), ("text_regions", r.subs.length)]
      ++ (if r.tables = [] then [] else [("table_regions", r.tables.length)])
      ++ [("columns", (r.pages.map (fun p => p.columns.length)).sum),
          ("extra", (r.pages.map (fun p => p.extra.length)).sum), ("pages", r.pages.length)]) := by
  simp only [stats, hc, scanStats, regionStats, hl, hw, bind, Except.bind, optStat]
  cases r.tables <;> simp

/-- the page counts the words line by line and reports only the non-empty child lists -/
theorem C04_stats_page (r : Region) (ls : List Line) (hc : r.cls = .page) (hl : getLines r = .ok ls) :
    stats r = .ok ([("words", (ls.flatMap lineWords).length), ("lines", ls.length)]
      ++ (if r.columns = [] then [] else [("columns", r.columns.length)])
      ++ (if r.extra = [] then [] else [("extra", r.extra.length)])
      ++ (if r.subs = [] then [] else [("text_regions", r.subs.length)])
      ++ (if r.tables = [] then [] else [("table_regions", (tableRegions r).length)])) := by
  have hsum : (ls.map (fun x => (lineWords x).length)).sum = (ls.flatMap lineWords).length := by
    induction ls with
    | nil => rfl
    | cons a as ih => simp [List.flatMap_cons, ih]
  simp only [stats, hc, if_true, pageStats, hl, bind, Except.bind, optStat, hsum]
  cases r.columns <;> cases r.extra <;> cases r.subs <;> cases r.tables <;> simp

/-- **Statistics count the tree.**  On a well-formed tree the stats exist, and `lines` is the
    number of lines of the whole tree, `words` the number of word items these lines hold
    (for a tree without region-level text at the root). -/
theorem C04_stats_count (r : Region) (h : WF r) (ht : r.text = none) :
    ∃ s, stats r = .ok s ∧ s.lookup "lines" = some (allLines r).length ∧
      s.lookup "words" = some ((allLines r).map (fun x => (lineWords x).length)).sum := by
  obtain ⟨ls, el, pl⟩ := C04_lines_once r h
  have hw := C04_words r ls ht el
  have hlen : ls.length = (allLines r).length := pl.length_eq
  have hsum : (ls.flatMap lineWords).length = ((allLines r).map (fun x => (lineWords x).length)).sum := by
    have : (ls.flatMap lineWords).length = (ls.map (fun x => (lineWords x).length)).sum := by
      clear el pl hw hlen
      induction ls with
      | nil => rfl
      | cons a as ih => simp [List.flatMap_cons, ih]
    rw [this]
    exact (pl.map _).sum_nat
  by_cases hp : r.cls = .page
  · refine ⟨_, C04_stats_page r ls hp el, ?_, ?_⟩
    · simp [List.lookup, hlen]
    · simp [List.lookup, hsum]
  · by_cases hs : r.cls = .scan
    · refine ⟨_, C04_stats_scan r ls _ hs el hw, ?_, ?_⟩
      · simp [List.lookup, hlen]
      · simp [List.lookup, hsum]
    · refine ⟨_, C04_stats_region r ls _ ⟨hp, hs⟩ el hw, ?_, ?_⟩
      · simp [List.lookup, hlen]
      · simp [List.lookup, hsum]

example : (stats demoPage).toOption = some [("words", 8), ("lines", 6), ("columns", 2), ("extra", 1), ("text_regions", 1)] := by decide
example : (stats demoRegion).toOption = some [("lines", 4), ("words", 5), ("text_regions", 2), ("table_regions", 1)] := by decide
example : ∃ s, stats demoPage = .ok s ∧ s.lookup "lines" = some 6 := by
  obtain ⟨s, h1, h2, _⟩ := C04_stats_count demoPage demoPage_wf rfl
  exact ⟨s, h1, by rw [h2]; decide⟩

/-! ### purity in the store model -/

private theorem of_bind_pair {x : Res AOut} {σ σ' : Store} {o : AOut}
    (h : (x >>= fun o' => (pure (σ, o') : Res (Store × AOut))) = .ok (σ', o)) : σ' = σ ∧ x = .ok o := by
  cases x with
  | error e => cases h
  | ok o' =>
    simp only [bind, Except.bind, pure, Except.pure, Except.ok.injEq, Prod.mk.injEq] at h
    exact ⟨h.1.symm, by rw [h.2]⟩

/-- **Read-only.**  Every accessor — the traversals, the statistics, `num_*`, the JSON view, the
    XML export of a word / line / region / scan, `area` — leaves every existing object exactly as
    it was, except that `area` may fill the `_area` cache (`Ext`: same parent, metadata, types,
    child lists, text, coordinates; objects are only ever added, namely the dummy parents the
    XML export of a word or line creates for itself). -/
theorem C04_accessor_pure (ord : Nat → List Nat) (σ σ' : Store) (a : Acc) (o : AOut)
    (h : accStep ord σ a = .ok (σ', o)) : Ext σ σ' := by
  cases a with
  | getLines n | getWords n | getInner n | getTables n | getRegions n | stats n | numLines n | numWords n
  | numTextRegions n =>
    simp only [accStep] at h
    rw [(of_bind_pair h).1]
    exact Ext.rfl' σ
  | json n =>
    simp only [accStep] at h
    split at h
    · simp only [Except.ok.injEq, Prod.mk.injEq] at h
      rw [← h.1]; exact Ext.rfl' σ
    · cases h
  | toPagexml n =>
    simp only [accStep] at h
    cases g : σ.get? n with
    | none => rw [g] at h; cases h
    | some nd =>
      rw [g] at h
      simp only [] at h
      cases hc : nd.cls <;> rw [hc] at h <;> simp only [Except.ok.injEq, Prod.mk.injEq] at h <;> rw [← h.1]
      case word => exact (ext_mkLine_nil σ _).trans (ext_mkRegion_nil _ _)
      case line => exact ext_mkRegion_nil σ _
      all_goals exact Ext.rfl' σ
  | area n =>
    simp only [accStep] at h
    cases g : σ.get? n with
    | none => rw [g] at h; cases h
    | some nd =>
      rw [g] at h
      simp only [] at h
      cases ha : nd.area with
      | some a =>
        rw [ha] at h
        simp only [Except.ok.injEq, Prod.mk.injEq] at h
        rw [← h.1]; exact Ext.rfl' σ
      | none =>
        rw [ha] at h
        simp only [Except.ok.injEq, Prod.mk.injEq] at h
        rw [← h.1]; exact ext_area σ n nd g ha

/-- what `Ext` means for an object: parent, metadata, type tags, child lists, text and
    coordinates are what they were -/
theorem C04_unchanged (σ σ' : Store) (h : Ext σ σ') (n : Nat) (nd : Node) (g : σ.get? n = some nd) :
    ∃ nd', σ'.get? n = some nd' ∧ nd'.parent = nd.parent ∧ nd'.md = nd.md ∧ nd'.type = nd.type ∧
      nd'.mainType = nd.mainType ∧ nd'.id = nd.id ∧ nd'.allKids = nd.allKids ∧ nd'.text = nd.text ∧
      nd'.coords = nd.coords := by
  obtain ⟨nd', g', e, _⟩ := h.node n nd g
  obtain ⟨a1, a2, a3, a4, a5⟩ := fields_of_eq2 e
  obtain ⟨_, b2, b3, b4, _⟩ := fields_of_eq e
  exact ⟨nd', g', a1, a2, a3, a4, a5, b4, b2, b3⟩

/-- any sequence of accessors, in any order and with any repetitions -/
theorem C04_run_pure (ord : Nat → List Nat) : ∀ (as : List Acc) (σ σ' : Store) (os : List AOut),
    accRun ord σ as = .ok (σ', os) → Ext σ σ' := by
  intro as
  induction as with
  | nil =>
    intro σ σ' os h
    simp only [accRun, Except.ok.injEq, Prod.mk.injEq] at h
    rw [← h.1]; exact Ext.rfl' σ
  | cons a as ih =>
    intro σ σ' os h
    simp only [accRun] at h
    cases h1 : accStep ord σ a with
    | error e => rw [h1] at h; cases h
    | ok r₁ =>
      obtain ⟨σ₁, o⟩ := r₁
      rw [h1] at h
      simp only [bind, Except.bind] at h
      cases h2 : accRun ord σ₁ as with
      | error e => rw [h2] at h; cases h
      | ok r₂ =>
        obtain ⟨σ₂, os'⟩ := r₂
        rw [h2] at h
        simp only [pure, Except.pure, Except.ok.injEq, Prod.mk.injEq] at h
        rw [← h.1]
        exact (C04_accessor_pure ord σ σ₁ a o h1).trans (ih σ₁ σ₂ os' h2)

private theorem lt_of_answerOn {ord : Nat → List Nat} {σ : Store} {n : Nat} {f1 f2 f3 f4 f5 w} {o : AOut}
    (h : answerOn ord σ n f1 f2 f3 f4 f5 w = .ok o) : n < σ.size := by
  unfold answerOn at h
  cases g : σ.get? n with
  | none => rw [g] at h; cases h
  | some nd => exact get?_lt g

/-- **Same answers.**  In a store without dangling ids (every reachable store of C02: `Shape.closed`),
    whatever accessors were called before, in any order and any number of times, an accessor
    returns the answer it would have returned at the start. -/
theorem C04_same_answer (ord : Nat → List Nat) (σ σ₁ σ₂ : Store) (as : List Acc) (os : List AOut) (a : Acc) (o : AOut)
    (hc : Closed σ) (hrun : accRun ord σ as = .ok (σ₁, os)) (h : accStep ord σ a = .ok (σ₂, o)) :
    ∃ σ₃, accStep ord σ₁ a = .ok (σ₃, o) := by
  have he := C04_run_pure ord as σ σ₁ os hrun
  cases a with
  | getLines n | getWords n | getInner n | getTables n | getRegions n | stats n | numLines n | numWords n
  | numTextRegions n =>
    simp only [accStep] at h ⊢
    have h2 := (of_bind_pair h).2
    rw [answerOn_ext hc he ord (lt_of_answerOn h2), h2]
    exact ⟨σ₁, rfl⟩
  | json n =>
    simp only [accStep] at h ⊢
    split at h
    · rename_i hn
      simp only [Except.ok.injEq, Prod.mk.injEq] at h
      have hn' : n < σ.size := has_iff.mp hn
      have : σ₁.has n = true := has_iff.mpr (Nat.lt_of_lt_of_le hn' he.size)
      rw [if_pos this, reach_ext hc he depthLimit n hn', h.2]
      exact ⟨σ₁, rfl⟩
    · cases h
  | toPagexml n =>
    simp only [accStep] at h ⊢
    cases g : σ.get? n with
    | none => rw [g] at h; cases h
    | some nd =>
      obtain ⟨nd', g', e, _⟩ := he.node n nd g
      have hcls : nd'.cls = nd.cls := (fields_of_eq e).1
      rw [g] at h
      rw [g']
      simp only [] at h ⊢
      rw [hcls, reach_ext hc he depthLimit n (get?_lt g)]
      cases hk : nd.cls <;> rw [hk] at h <;> simp only [Except.ok.injEq, Prod.mk.injEq] at h <;> rw [← h.2] <;>
        exact ⟨_, rfl⟩
  | area n =>
    simp only [accStep] at h ⊢
    cases g : σ.get? n with
    | none => rw [g] at h; cases h
    | some nd =>
      obtain ⟨nd', g', e, ha'⟩ := he.node n nd g
      have hco : nd'.coords = nd.coords := (fields_of_eq e).2.2.1
      rw [g] at h
      rw [g']
      simp only [] at h ⊢
      cases ha : nd.area with
      | some x =>
        rw [ha] at h
        simp only [Except.ok.injEq, Prod.mk.injEq] at h
        have : nd'.area = some x := by
          rcases ha' with e' | ⟨e', _⟩
          · rw [e', ha]
          · rw [ha] at e'; cases e'
        rw [this, ← h.2]
        exact ⟨_, rfl⟩
      | none =>
        rw [ha] at h
        simp only [Except.ok.injEq, Prod.mk.injEq] at h
        rcases ha' with e' | ⟨_, e'⟩
        · rw [e', ha, hco, ← h.2]
          exact ⟨_, rfl⟩
        · rw [e', ← h.2]
          exact ⟨_, rfl⟩

/-- the stores C02 reaches have no dangling ids, so `C04_same_answer` applies to them -/
theorem C04_closed_of_shape (σ : Store) (h : Pagexml.C02.Shape σ) : Closed σ := h.closed

/-! non-vacuity: a word in a line in a region below a scan; export the line, read the area,
    export the word, then ask for the lines again -/

private def B (i : String) : Args := { id := .str i, coords := some 1, text := some "a b" }
private def build : List Op :=
  [.mkWord (B "w"), .mkLine (B "l") [0], .mkRegion false (B "r") [1] [] [], .mkScan (B "s") [] [2] [] [] []]
private def σ₀ : Store := ((run Store.empty build).toOption.getD Store.empty)
private def noOrd : Nat → List Nat := fun _ => []

example : σ₀.size = 4 := by decide
example : (accStep noOrd σ₀ (.getLines 3)).toOption.map (·.2) = some (.ids [1]) := by decide
example : (accRun noOrd σ₀ [.toPagexml 1, .area 2, .toPagexml 0, .json 3, .getLines 3, .stats 3]).toOption.map (·.2)
    = some [.view [1, 0], .area (some 1), .view [0], .view [3, 2, 1, 0], .ids [1],
            .stats [("lines", 1), ("words", 1), ("text_regions", 1), ("columns", 0), ("extra", 0), ("pages", 0)]] := by decide
/-- the exports created three dummy objects; the four real ones are untouched up to the cache -/
example : (accRun noOrd σ₀ [.toPagexml 1, .area 2, .toPagexml 0]).toOption.map (fun r => (r.1.size,
    (r.1.get? 1).map (·.parent), (r.1.get? 0).map (·.parent), (r.1.get? 2).map (·.area)))
    = some (7, some (some 2), some (some 1), some (some (some 1))) := by decide

end Pagexml.C04
