/-
Python exception classes, as far as the modelled code can raise them.
Partial operations in the model return `.error <class>`; they never default.
-/
namespace Pagexml

inductive Err where
  | KeyError | TypeError | ValueError | IndexError | AttributeError
  | ExpatError | FileNotFoundError | ZeroDivisionError | RecursionError
  | QhullError | UnicodeDecodeError | OutOfFuel
  | RuntimeError | OSError | LookupError | StopIteration
  deriving DecidableEq, Repr, Inhabited

def Err.name : Err → String
  | .KeyError => "KeyError" | .TypeError => "TypeError" | .ValueError => "ValueError"
  | .IndexError => "IndexError" | .AttributeError => "AttributeError"
  | .ExpatError => "ExpatError" | .FileNotFoundError => "FileNotFoundError"
  | .ZeroDivisionError => "ZeroDivisionError" | .RecursionError => "RecursionError"
  | .QhullError => "QhullError" | .UnicodeDecodeError => "UnicodeDecodeError"
  | .OutOfFuel => "OutOfFuel"
  | .RuntimeError => "RuntimeError" | .OSError => "OSError" | .LookupError => "LookupError"
  | .StopIteration => "StopIteration"

abbrev Res (α : Type) := Except Err α

end Pagexml
