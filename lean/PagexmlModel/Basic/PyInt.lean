/-
Python `int(str)` and `str(int)` on ASCII input, over `List Char`.

`pyInt?` follows CPython's grammar for base 10: surrounding whitespace is stripped,
one optional sign, then decimal digits with single underscores allowed between digits.
Non-ASCII decimal digits (which CPython also accepts) are outside the model; the
harness never generates them (DESIGN §3.2).
-/
namespace Pagexml

/-- the ASCII characters `int()` skips around a number: TAB, LF, VT, FF, CR and space
    (measured on CPython 3.12: U+001C–U+001F are *not* skipped by `int()`, although
    `str.strip()` removes them) -/
def isAsciiSpace (c : Char) : Bool :=
  c = ' ' || c = '\t' || c = '\n' || c = '\r' || c.toNat = 11 || c.toNat = 12

def isAsciiDigit (c : Char) : Bool := 48 ≤ c.toNat && c.toNat ≤ 57

def digitVal (c : Char) : Nat := c.toNat - 48

def digitChar (d : Nat) : Char := Char.ofNat (48 + d)

/-- decimal digits of `n`, most significant first; `[]` for 0 (fuel = n + 1 suffices) -/
def digitsAux : Nat → Nat → List Char → List Char
  | 0, _, acc => acc
  | fuel + 1, n, acc =>
    if n = 0 then acc else digitsAux fuel (n / 10) (digitChar (n % 10) :: acc)

def showNat (n : Nat) : List Char :=
  if n = 0 then ['0'] else digitsAux (n + 1) n []

def showInt : Int → List Char
  | .ofNat n => showNat n
  | .negSucc n => '-' :: showNat (n + 1)

/-- value of a run of decimal digits (no underscores), `none` on a non-digit -/
def digitsVal : List Char → Nat → Option Nat
  | [], acc => some acc
  | c :: cs, acc => if isAsciiDigit c then digitsVal cs (acc * 10 + digitVal c) else none

/-- digits with single underscores between digits: state = "previous char was a digit" -/
def undDigitsVal : List Char → Bool → Nat → Option Nat
  | [], prevDigit, acc => if prevDigit then some acc else none
  | c :: cs, prevDigit, acc =>
    if isAsciiDigit c then undDigitsVal cs true (acc * 10 + digitVal c)
    else if c = '_' && prevDigit then undDigitsVal cs false acc
    else none

def stripLeft : List Char → List Char
  | [] => []
  | c :: cs => if isAsciiSpace c then stripLeft cs else c :: cs

def strip (cs : List Char) : List Char := (stripLeft (stripLeft cs).reverse).reverse

def pyInt? (cs : List Char) : Option Int :=
  match strip cs with
  | '-' :: r => (undDigitsVal r false 0).map (fun n => - (n : Int))
  | '+' :: r => (undDigitsVal r false 0).map (fun n => (n : Int))
  | r => (undDigitsVal r false 0).map (fun n => (n : Int))

end Pagexml
