/-
C18 helper lemmas, part 2: a line and the gap intervals; sort_lines_in_column_ranges.
-/
import PagexmlModel.Lemmas.C18Gaps

namespace Pagexml.C18

/-- the line's horizontal extent lies inside the range -/
def spanIn (l : Line) (ρ : Int × Int) : Prop := ρ.1 ≤ l.box.l ∧ l.box.r ≤ ρ.2

theorem left_mem_pixels {ls : List Line} {l : Line} (hl : l ∈ ls) (hw : l.box.l ≤ l.box.r) :
    l.box.l ∈ pixels ls := mem_pixels.mpr ⟨l, hl, Int.le_refl _, hw⟩

/-- existence half of the key lemma: the span of a line lies inside one gap interval
    (uses `2 ≤ gapMin`: the next pixel of the line is never across a gap) -/
theorem span_in_interval (thr : Int) {ls : List Line} {l : Line} (hl : l ∈ ls)
    (hw : l.box.l ≤ l.box.r) : ∃ ρ ∈ gapIntervals thr (pixels ls), spanIn l ρ := by
  have hs := pixels_sorted ls
  have hN := consts_min_gap_ge_two
  obtain ⟨ρ, hρ, h1, h2⟩ := gapIntervals_cover thr hs _ (left_mem_pixels hl hw)
  refine ⟨ρ, hρ, h1, ?_⟩
  apply chain_in_interval thr hs hρ h2
  intro x hx1 hx2
  exact ⟨x + 1, mem_pixels.mpr ⟨l, hl, by omega, by omega⟩, by omega, by omega⟩

theorem span_interval_unique (thr : Int) {ls : List Line} {l : Line} (hw : l.box.l ≤ l.box.r)
    {ρ ρ' : Int × Int} (hρ : ρ ∈ gapIntervals thr (pixels ls)) (hρ' : ρ' ∈ gapIntervals thr (pixels ls))
    (h : spanIn l ρ) (h' : spanIn l ρ') : ρ = ρ' := by
  have hN := consts_min_gap_ge_two
  rcases gapIntervals_apart thr (pixels_sorted ls) hρ hρ' with e | e | e
  · exact e
  · unfold spanIn at h h'; omega
  · unfold spanIn at h h'; omega

/-- `overlap` of within_column -/
def ovl (l : Line) (ρ : Int × Int) : Int :=
  if min l.box.r ρ.2 > max l.box.l ρ.1 then min l.box.r ρ.2 - max l.box.l ρ.1 else 0

/-- `hit` spelled out, for every threshold -/
theorem hit_iff (l : Line) (ρ : Int × Int) :
    hit l ρ = true ↔ l.box.r - l.box.l ≠ 0 ∧
      ratioGt (ovl l ρ) (l.box.r - l.box.l) Generated.C18.withinThr = true := by
  simp [hit, withinCol, Box.width, ovl]

/-- within a range means: more than half of the line lies in it (threshold at least 1/2) -/
theorem hit_half {l : Line} {ρ : Int × Int} (hw : l.box.l ≤ l.box.r) (h : hit l ρ = true) :
    l.box.r - l.box.l ≠ 0 ∧ ovl l ρ * 2 > l.box.r - l.box.l := by
  obtain ⟨h1, h2⟩ := (hit_iff l ρ).mp h
  obtain ⟨cq, _, ch⟩ := consts_within_threshold
  exact ⟨h1, ratioGt_half cq ch (by omega) h2⟩

/-- a line of positive width lying in the range with all its width is within it (threshold below 1) -/
theorem hit_of_full {l : Line} {ρ : Int × Int} (hpos : l.box.l < l.box.r)
    (h : ovl l ρ = l.box.r - l.box.l) : hit l ρ = true := by
  rw [hit_iff, h]
  exact ⟨by omega, ratioGt_self consts_within_threshold.2.1 (by omega)⟩

/-- a line of positive width is `within_column` of a gap interval exactly when its span lies in it -/
theorem hit_iff_spanIn (thr : Int) {ls : List Line} {l : Line} (hl : l ∈ ls)
    (hpos : l.box.l < l.box.r) {ρ : Int × Int} (hρ : ρ ∈ gapIntervals thr (pixels ls)) :
    hit l ρ = true ↔ spanIn l ρ := by
  have hN := consts_min_gap_ge_two
  constructor
  · intro hh
    obtain ⟨_, h⟩ := hit_half (Int.le_of_lt hpos) hh
    unfold ovl at h
    obtain ⟨ρ0, hρ0, h0⟩ := span_in_interval thr hl (Int.le_of_lt hpos)
    rcases gapIntervals_apart thr (pixels_sorted ls) hρ hρ0 with e | e | e
    · subst e; exact h0
    · unfold spanIn at h0; split at h <;> omega
    · unfold spanIn at h0; split at h <;> omega
  · intro h
    unfold spanIn at h
    apply hit_of_full hpos
    unfold ovl
    split <;> omega

/-- a line (of non-negative width) is within at most one of two disjoint ranges:
    two disjoint overlaps cannot both exceed half the width -/
theorem hit_disjoint {l : Line} (hw : l.box.l ≤ l.box.r) {ρ1 ρ2 : Int × Int} (hd : ρ1.2 ≤ ρ2.1)
    (h1 : hit l ρ1 = true) (h2 : hit l ρ2 = true) : False := by
  obtain ⟨_, h1⟩ := hit_half hw h1
  obtain ⟨_, h2⟩ := hit_half hw h2
  unfold ovl at h1 h2
  split at h1 <;> split at h2 <;> omega

/-! ### sort_lines_in_column_ranges keeps every line once -/

theorem colLines_extra_perm (lines : List Line) (ranges : List (Int × Int))
    (hex : ranges.Pairwise (fun ρ1 ρ2 => ∀ l ∈ lines, ¬ (hit l ρ1 = true ∧ hit l ρ2 = true))) :
    ((colLines lines ranges).flatten ++ extraLines lines ranges).Perm lines := by
  induction ranges with
  | nil =>
    have : lines.filter (fun _ => true) = lines := List.filter_eq_self.mpr (by simp)
    simp [colLines, extraLines, this]
  | cons ρ rs ih =>
    have hx := List.pairwise_cons.mp hex
    have ih' := ih hx.2
    -- lines hit by ρ are not hit by any later range
    have hexcl : ∀ l ∈ lines, hit l ρ = true → rs.any (hit l) = false := by
      intro l hl h
      apply Bool.eq_false_iff.mpr
      intro hany
      obtain ⟨ρ', hρ', h'⟩ := List.any_eq_true.mp hany
      exact hx.1 ρ' hρ' l hl ⟨h, h'⟩
    let rest := lines.filter (fun l => !(rs.any (hit l)))
    have e1 : lines.filter (fun l => hit l ρ) = rest.filter (fun l => hit l ρ) := by
      simp only [rest, List.filter_filter]
      apply List.filter_congr
      intro l hl
      cases h : hit l ρ
      · simp
      · simp [hexcl l hl h]
    have e2 : extraLines lines (ρ :: rs) = rest.filter (fun l => !(hit l ρ)) := by
      simp only [rest, extraLines, List.filter_filter]
      apply List.filter_congr
      intro l _
      simp [List.any_cons, Bool.and_comm]
    have hp : (rest.filter (fun l => hit l ρ) ++ rest.filter (fun l => !(hit l ρ))).Perm rest :=
      List.filter_append_perm _ _
    show ((lines.filter (fun l => hit l ρ) :: colLines lines rs).flatten ++ extraLines lines (ρ :: rs)).Perm lines
    rw [List.flatten_cons, e1, e2]
    have ih'' : ((colLines lines rs).flatten ++ rest).Perm lines := ih'
    refine List.Perm.trans ?_ ih''
    -- A ++ F ++ X ~ F ++ (A ++ X) ~ F ++ rest
    refine List.Perm.trans ?_ (List.Perm.append_left _ hp)
    rw [List.append_assoc]
    refine List.Perm.trans List.perm_append_comm ?_
    rw [List.append_assoc]
    refine List.Perm.append_left _ ?_
    exact List.perm_append_comm

end Pagexml.C18
