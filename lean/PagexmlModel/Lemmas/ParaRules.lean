/-
The two no-detector rules of the paragraph builder, for one loop iteration (`StepRel` with
`decide = determine cc none B`), and access to the iteration of line `i` in the chain.
-/
import PagexmlModel.Lemmas.ParaLoop
import PagexmlModel.Lemmas.Reduce
import PagexmlModel.Lemmas.Determine

namespace Pagexml.C16
open Pagexml.C17

/-! ### first and last token of a line -/

theorem normTrail_of_last_not_break (B : BreakSet) (p : Str) (b : Char) (hb : B b = false) :
    normTrail B (p ++ [b]) = p ++ [b] := by
  by_cases hp : p = []
  · subst hp; rfl
  · obtain ⟨p', a, rfl⟩ := exists_concat hp
    have : p' ++ [a] ++ [b] = p' ++ [a, b] := by simp
    rw [this, normTrail_concat2]
    simp [normTrail, hb]

theorem normTrail_letter_break (B : BreakSet) (p : Str) (ch b : Char) (hch : B ch = false) (hsp : ch ≠ ' ') :
    normTrail B (p ++ [ch, b]) = p ++ [ch, b] := by
  rw [normTrail_concat2]
  by_cases hb : B b = true <;> simp [normTrail, hb, hch, hsp]

theorem normTrail_head (B : BreakSet) (a : Char) (r : Str) (ha : a ≠ ' ') :
    ∃ r', normTrail B (a :: r) = a :: r' := by
  cases r with
  | nil => exact ⟨[], rfl⟩
  | cons b r =>
    cases r with
    | nil =>
      simp only [normTrail]
      by_cases hb : B b = true <;> by_cases hA : B a = true <;> simp [hb, hA, ha]
    | cons c r => exact ⟨_, rfl⟩

theorem lineWords_last (cc : CharClass) (law : cc.Lawful) (B : BreakSet) (t : Str) (pw : List Str)
    (h : lineWords cc B (some t) = .ok pw) (q : Str) (z : Char) (hn : normTrail B t = q ++ [z])
    (hz : cc.isSpace z = false) : ∃ pi e', pw = pi ++ [e' ++ [z]] := by
  have ht : t ≠ [] := by
    intro e; subst e; simp [normTrail] at hn
  obtain ⟨out, h', hst⟩ := lineWords_steps cc B t ht
  rw [h] at h'; cases h'
  have hcons := hst.conserve law.blank_space
  rw [(splitRuns_spec cc (normTrail B t)).1, hn] at hcons
  have hzk : notSpace cc z = true := by simp [notSpace, hz]
  simp only [List.flatten_nil, List.filter_nil, List.nil_append, List.filter_append, List.filter_cons, hzk,
    if_true, List.filter_nil] at hcons
  have htrim := hst.trimmed law (splitRuns_spec cc _).2.2.1 (by simp)
  have hpw : pw ≠ [] := by
    intro e; subst e; simp at hcons
  obtain ⟨pi, e, rfl⟩ := exists_concat hpw
  obtain ⟨⟨_, hlast⟩, hene⟩ := htrim e (by simp)
  obtain ⟨e', y, rfl⟩ := exists_concat hene
  have hy := hlast e' y rfl
  have hyk : notSpace cc y = true := by simp [notSpace, hy]
  simp only [List.flatten_append, List.flatten_cons, List.flatten_nil, List.append_nil, List.filter_append,
    List.filter_cons, hyk, if_true, List.filter_nil] at hcons
  rw [← List.append_assoc] at hcons
  have := List.append_inj' hcons rfl
  have hyz : y = z := by simpa using this.2
  subst hyz
  exact ⟨pi, e', rfl⟩

theorem lineWords_first (cc : CharClass) (law : cc.Lawful) (B : BreakSet) (t : Str) (pw : List Str)
    (h : lineWords cc B (some t) = .ok pw) (q : Str) (z : Char) (hn : normTrail B t = z :: q)
    (hz : cc.isSpace z = false) : ∃ s' cr, pw = (z :: s') :: cr := by
  have ht : t ≠ [] := by
    intro e; subst e; simp [normTrail] at hn
  obtain ⟨out, h', hst⟩ := lineWords_steps cc B t ht
  rw [h] at h'; cases h'
  have hcons := hst.conserve law.blank_space
  rw [(splitRuns_spec cc (normTrail B t)).1, hn] at hcons
  have hzk : notSpace cc z = true := by simp [notSpace, hz]
  simp only [List.flatten_nil, List.filter_nil, List.nil_append, List.filter_cons, hzk, if_true] at hcons
  have htrim := hst.trimmed law (splitRuns_spec cc _).2.2.1 (by simp)
  cases pw with
  | nil => simp at hcons
  | cons e cr =>
    obtain ⟨⟨hfirst, _⟩, hene⟩ := htrim e (by simp)
    cases e with
    | nil => exact absurd rfl hene
    | cons y s' =>
      have hy := hfirst y s' rfl
      have hyk : notSpace cc y = true := by simp [notSpace, hy]
      simp only [List.flatten_cons, List.cons_append, List.filter_cons, hyk, if_true] at hcons
      have hyz : y = z := by
        have := List.cons.inj hcons
        exact this.1
      subst hyz
      exact ⟨s', cr, rfl⟩

/-! ### the iteration of line `i` -/

theorem Seg.get {cc : CharClass} {B : BreakSet} {decide : Decide} (hsp : cc.isSpace ' ' = true) {f f' : Bool}
    {ls : List Line} {cs : List Str} (h : Seg cc B decide f ls cs f') (hf : f = true → B lowQuote = true) :
    ∀ (i : Nat) (c : Str), cs[i]? = some c →
      ∃ (fl fl' : Bool) (l next : Line), ls[i]? = some l ∧ ls[i + 1]? = some next ∧
        StepRel cc B decide fl l next c fl' ∧ (fl = true → B lowQuote = true) := by
  induction h with
  | single _ _ => intro i c hc; simp at hc
  | cons f f1 f2 l next rest c0 cs0 h0 _ ih =>
    intro i c hc
    cases i with
    | zero => simp at hc; subst hc; exact ⟨f, f1, l, next, by simp, by simp, h0, hf⟩
    | succ i =>
      simp at hc
      obtain ⟨fl, fl', l', n', g1, g2, g3, g4⟩ := ih (h0.conserve hsp hf).2 i c hc
      exact ⟨fl, fl', l', n', by simpa using g1, by simpa using g2, g3, g4⟩

/-! ### the rules, for one iteration -/

/-- a line ending in a letter (not a break character): no merge, the text plus exactly one blank -/
theorem StepRel.letter_then_space {cc : CharClass} (law : cc.Lawful) {B : BreakSet} {fl fl' : Bool}
    {l next : Line} {c : Str} (h : StepRel cc B (determine cc none B) fl l next c fl')
    (p : Str) (ch : Char) (hl : l.text = some (p ++ [ch])) (hal : cc.isAlpha ch = true) (hB : B ch = false) :
    c = dropPrefixIf fl (p ++ [ch] ++ [' ']) := by
  obtain ⟨t, nt, pw, cw, d, x, h1, _, _, hntn, hpw, hcw, hd, _, hx, hc, _⟩ := h
  rw [hl] at h1; cases h1
  have hns : cc.isSpace ch = false := by
    cases hs : cc.isSpace ch with
    | false => rfl
    | true =>
      have := law.space_not_word ch hs
      rw [law.alpha_word ch hal] at this; cases this
  -- the decision: no merge
  have hd' : d = (false, none) := by
    by_cases hpwn : pw = []
    · rw [determine_no_words cc none B pw cw (Or.inl hpwn)] at hd; cases hd; rfl
    by_cases hcwn : cw = []
    · rw [determine_no_words cc none B pw cw (Or.inr hcwn)] at hd; cases hd; rfl
    obtain ⟨pi, e', hpw'⟩ := lineWords_last cc law B _ pw hpw p ch (normTrail_of_last_not_break B p ch hB) hns
    obtain ⟨s, cr, rfl⟩ : ∃ s cr, cw = s :: cr := by
      cases cw with
      | nil => exact absurd rfl hcwn
      | cons s cr => exact ⟨s, cr, rfl⟩
    have hs : s ≠ [] := by
      obtain ⟨out2, g1, g2⟩ := C17.lineWords_steps cc B nt hntn
      rw [hcw] at g1; cases g1
      exact (g2.nonblank (by simp) s (by simp)).ne_nil
    subst hpw'
    rw [determine_none_eq cc B pi cr (e' ++ [ch]) s ch e' rfl hs] at hd
    cases hd
    simp [hB]
  subst hd'
  -- make_line_text without merge on a text that does not end in a break character
  obtain ⟨dv, hdv, _, hdv0⟩ := doubledBreak_spec B p ch
  have hdv' := hdv0 hB
  subst hdv'
  have hx' : makeLineText B (p ++ [ch]) false (endWordOf pw) none = .ok (p ++ [ch] ++ [' ']) := by
    unfold makeLineText
    simp [hdv, pyLast_concat, detachTest, hB, bind, Except.bind, pure, Except.pure]
  rw [hx'] at hx; cases hx
  exact hc

/-- a line ending in a letter plus one break character, before a line that starts with a character
    that is neither whitespace nor a break character (e.g. a lower-case letter): merged, the break
    character is removed and no blank is added -/
theorem StepRel.hyphen_join {cc : CharClass} (law : cc.Lawful) {B : BreakSet} {fl fl' : Bool}
    {l next : Line} {c : Str} (h : StepRel cc B (determine cc none B) fl l next c fl')
    (p : Str) (ch b : Char) (hl : l.text = some (p ++ [ch, b])) (hal : cc.isAlpha ch = true) (hBc : B ch = false)
    (hBb : B b = true) (hsb : cc.isSpace b = false)
    (lo : Char) (nr : Str) (hn : next.text = some (lo :: nr)) (hslo : cc.isSpace lo = false) (hBlo : B lo = false) :
    c = dropPrefixIf fl (p ++ [ch]) := by
  obtain ⟨t, nt, pw, cw, d, x, h1, _, h2, _, hpw, hcw, hd, _, hx, hc, _⟩ := h
  rw [hl] at h1; cases h1
  rw [hn] at h2; cases h2
  have hnsc : cc.isSpace ch = false := by
    cases hs : cc.isSpace ch with
    | false => rfl
    | true =>
      have := law.space_not_word ch hs
      rw [law.alpha_word ch hal] at this; cases this
  have hch : ch ≠ ' ' := by
    intro e; rw [e, law.blank_space] at hnsc; cases hnsc
  have hlo : lo ≠ ' ' := by
    intro e; rw [e, law.blank_space] at hslo; cases hslo
  -- the last word of the line ends with the break character, the next line's first word starts with `lo`
  have hnorm : normTrail B (p ++ [ch, b]) = (p ++ [ch]) ++ [b] := by
    rw [normTrail_letter_break B p ch b hBc hch]; simp
  obtain ⟨pi, e', rfl⟩ := lineWords_last cc law B _ pw hpw (p ++ [ch]) b hnorm hsb
  obtain ⟨r', hr'⟩ := normTrail_head B lo nr hlo
  obtain ⟨s', cr, rfl⟩ := lineWords_first cc law B _ cw hcw r' lo hr' hslo
  rw [determine_none_eq cc B pi cr (e' ++ [b]) (lo :: s') b e' rfl (by simp)] at hd
  cases hd
  simp only [hBb, if_true] at hx
  -- the merged word does not start with the end word: the break character is removed from the line
  have hpre : (e' ++ [b]).isPrefixOf (joinReduced B (e' ++ [b]) (lo :: s')) = false := by
    obtain ⟨tl, ht1, _, ht3, ht4⟩ := stripEnd_spec B (e' ++ [b])
    have htl : tl ≠ [] := by
      intro e
      have := (ht4.mp e) e' b rfl
      rw [hBb] at this; cases this
    unfold joinReduced
    have hss : stripStart B (lo :: s') = lo :: s' := by simp [stripStart, hBlo]
    rw [hss]
    cases hpf : (e' ++ [b]).isPrefixOf (stripEnd B (e' ++ [b]) ++ lo :: s') with
    | false => rfl
    | true =>
      exfalso
      rw [List.isPrefixOf_iff_prefix] at hpf
      generalize stripEnd B (e' ++ [b]) = se at hpf ht1
      rw [ht1] at hpf
      have : tl <+: lo :: s' := by
        have := (List.prefix_append_right_inj se).mp hpf
        exact this
      cases tl with
      | nil => exact htl rfl
      | cons t0 tr =>
        obtain ⟨u, hu⟩ := this
        simp at hu
        have : B t0 = true := ht3 t0 (by simp)
        rw [hu.1, hBlo] at this; cases this
  have hendw : endWordOf (pi ++ [e' ++ [b]]) = e' ++ [b] := by simp [endWordOf]
  obtain ⟨dv, hdv, hdvt, _⟩ := doubledBreak_spec B (p ++ [ch]) b
  have hdvf : dv = false := by
    -- the character before the break character is a letter, not a break character
    have h2 : doubledBreak B (p ++ [ch] ++ [b]) = .ok false := by
      have e1 : p ++ [ch] ++ [b] = p ++ [ch, b] := by simp
      unfold doubledBreak
      have hlen : (p ++ [ch] ++ [b]).length ≥ 2 := by simp
      rw [if_pos hlen, pyLast_concat]
      simp only [hBb, if_true, bind, Except.bind]
      rw [e1, pyLast2_concat2]
      simp [hBc, pure, Except.pure]
    rw [h2] at hdv; cases hdv; rfl
  subst hdvf
  have hx' : makeLineText B (p ++ [ch, b]) true (e' ++ [b]) (some (joinReduced B (e' ++ [b]) (lo :: s'))) =
      .ok (p ++ [ch]) := by
    have e1 : p ++ [ch, b] = p ++ [ch] ++ [b] := by simp
    rw [e1]
    unfold makeLineText
    simp only [hdv, bind, Except.bind, Bool.false_eq_true, if_false, pyLast_concat, if_true, mergeStripTest, hBb,
      pure, Except.pure, hpre, Bool.not_false, List.dropLast_concat]
  rw [hendw, hx'] at hx; cases hx
  exact hc

end Pagexml.C16
