/-
Helper lemmas for C06: association-list lookups in the JSON views, constructor side effects
that are no-ops on a well-formed document.
-/
import PagexmlModel.Model.C06WF
import PagexmlModel.Props.C03

set_option linter.unusedSimpArgs false
set_option linter.unusedVariables false
set_option linter.unusedSectionVars false

namespace Pagexml.C06

/-! ### the Except monad -/
@[simp] theorem ok_bind {α β} (a : α) (f : α → Res β) : (Except.ok a >>= f) = f a := rfl
@[simp] theorem pure_eq_ok {α} (a : α) : (pure a : Res α) = .ok a := rfl

theorem mapM_ok {α β} (f : β → Res α) (g : α → β) (xs : List α) (h : ∀ x ∈ xs, f (g x) = .ok x) :
    (xs.map g).mapM f = .ok xs := by
  induction xs with
  | nil => rfl
  | cons x xs ih =>
    have hx := h x (by simp)
    have hxs := ih (fun y hy => h y (by simp [hy]))
    simp [List.mapM_cons, hx, hxs]

theorem mapM_ok' {α β} (f : β → Res α) (g : α → β) (k : α → α) (xs : List α) (h : ∀ x ∈ xs, f (g x) = .ok (k x)) :
    (xs.map g).mapM f = .ok (xs.map k) := by
  induction xs with
  | nil => rfl
  | cons x xs ih =>
    have hx := h x (by simp)
    have hxs := ih (fun y hy => h y (by simp [hy]))
    simp [List.mapM_cons, hx, hxs]

/-! ### association lists -/
@[simp] theorem alookup_nil (k : Key) : alookup k [] = none := rfl
@[simp] theorem alookup_cons (k k' : Key) (v : PyVal) (m : List (Key × PyVal)) :
    alookup k ((k', v) :: m) = if k' = k then some v else alookup k m := rfl

theorem alookup_append (k : Key) (a b : List (Key × PyVal)) :
    alookup k (a ++ b) = (alookup k a).or (alookup k b) := by
  induction a with
  | nil => simp
  | cons x a ih =>
    obtain ⟨k', v⟩ := x
    simp only [List.cons_append, alookup_cons]
    split <;> simp [ih]

@[simp] theorem alookup_opt (k : Key) (k' : String) (p : Bool) (v : PyVal) :
    alookup k (opt k' p v) = if p = true ∧ Key.s k' = k then some v else none := by
  unfold opt; cases p <;> simp

@[simp] theorem alookup_optPts (k : Key) (k' : String) (c : Option Pts) :
    alookup k (optPts k' c) = if Key.s k' = k then c.map ptsVal else none := by
  cases c <;> simp [optPts]

theorem setKey_of_lookup (k : Key) (v : PyVal) (m : List (Key × PyVal)) (h : alookup k m = some v) :
    setKey k v m = m := by
  induction m with
  | nil => simp at h
  | cons x m ih =>
    obtain ⟨k', v'⟩ := x
    simp only [alookup_cons] at h
    simp only [setKey]
    split
    · rename_i hk; simp [hk] at h; subst hk; rw [h]
    · rename_i hk; simp [hk] at h; rw [ih h]

theorem parsePts_ptsVal (ps : Pts) (hne : ps ≠ []) : parsePts (ptsVal ps) = .ok ps := by
  unfold parsePts ptsVal
  have h1 : (ps.map fun p => PyVal.list [.int p.1, .int p.2]).map ptInOf
      = ps.map (fun p => C03.PtIn.seq [.int p.1, .int p.2]) := by
    simp [List.map_map, Function.comp_def, ptInOf, scalarOf]
  simp only [h1]
  have h2 := (C03.C03_both_forms_agree ps hne).2
  obtain ⟨c, hc, hbox⟩ := C03.C03_exact_box ps hne
  rw [h2, hc]
  simp [hbox.1]

/-- `add_type` with a list that already starts with the current list and has no repetition -/
theorem addTypes_sub (cur ts : List String) (h : ∀ t ∈ ts, t ∈ cur) : addTypes cur ts = cur := by
  induction ts generalizing cur with
  | nil => rfl
  | cons t ts ih =>
    simp only [addTypes]
    have : t ∈ cur := h t (by simp)
    simp only [this, if_true]
    exact ih cur (fun x hx => h x (by simp [hx]))

theorem addTypes_fresh (cur ts : List String) (hnd : (cur ++ ts).Nodup) : addTypes cur ts = cur ++ ts := by
  induction ts generalizing cur with
  | nil => simp [addTypes]
  | cons t ts ih =>
    simp only [addTypes]
    have hnot : t ∉ cur := by
      intro hm
      have := List.nodup_append.mp hnd
      exact this.2.2 t hm t (by simp) rfl
    simp only [hnot, if_false]
    have : ((cur ++ [t]) ++ ts).Nodup := by simpa using hnd
    rw [ih _ this]; simp

theorem addTypes_append (cur a b : List String) : addTypes cur (a ++ b) = addTypes (addTypes cur a) b := by
  induction a generalizing cur with
  | nil => rfl
  | cons t ts ih => simp only [List.cons_append, addTypes]; exact ih _

theorem addTypes_of_typesOk (base ts : List String) (h : typesOk base ts = true) : addTypes base ts = ts := by
  simp only [typesOk, Bool.and_eq_true, decide_eq_true_eq] at h
  obtain ⟨hp, hnd⟩ := h
  obtain ⟨ex, rfl⟩ := List.isPrefixOf_iff_prefix.mp hp
  rw [addTypes_append, addTypes_sub base base (fun _ h => h), addTypes_fresh _ _ hnd]

theorem asTypes_typesVal (ts : List String) : asTypes (typesVal ts) = .ok ts := by
  unfold asTypes typesVal
  exact mapM_ok _ _ ts (fun x _ => rfl)


/-! ### reading the fields of a JSON view back -/

@[simp] theorem alookup_optTxt (k : Key) (k' : String) (t : Option String) :
    alookup k (optTxt k' t) = if Key.s k' = k then t.map PyVal.str else none := by
  cases t <;> simp [optTxt]

theorem req_dict (k : String) (m : List (Key × PyVal)) (v : PyVal) (h : alookup (.s k) m = some v) :
    (PyVal.dict m).req k = .ok v := by simp [PyVal.req, PyVal.get?, h]

theorem getD_dict (k : String) (m : List (Key × PyVal)) (d : PyVal) :
    (PyVal.dict m).getD k d = (alookup (.s k) m).getD d := by
  simp only [PyVal.getD, PyVal.get?]; cases alookup (.s k) m <;> rfl

theorem get?_dict (k : String) (m : List (Key × PyVal)) : (PyVal.dict m).get? k = alookup (.s k) m := rfl

theorem jsonCoords_dict (k : String) (m : List (Key × PyVal)) (c : Option Pts) (hc : c ≠ some [])
    (h : alookup (.s k) m = c.map ptsVal) : jsonCoords (.dict m) k = .ok c := by
  unfold jsonCoords
  simp only [PyVal.get?, h]
  cases c with
  | none => rfl
  | some ps =>
    have : ps ≠ [] := fun e => hc (by rw [e])
    simp [parsePts_ptsVal ps this]

/-- an attribute written under a guard and read back with default `None` -/
theorem guarded_getD (p : Bool) (v : PyVal) (h : p = false → v = .none) :
    ((if p = true ∧ True then some v else none : Option PyVal).getD .none) = v := by
  cases p <;> simp_all

theorem canon_guard (v : PyVal) (h : canon v = true) : v.truthy = false → v = .none := by
  intro hf; simpa [canon, hf] using h

theorem ne_none_guard (v : PyVal) : (v != .none) = false → v = .none := by simp

theorem asText_optStr (t : Option String) : asText (optStr t) = .ok t := by cases t <;> rfl

/-! ### headers -/

theorem Hdr.setMeta_of_has (k : String) (v : PyVal) (h : Hdr) (hh : h.hasMeta k v = true) : h.setMeta k v = h := by
  simp only [Hdr.hasMeta, beq_iff_eq] at hh
  simp [Hdr.setMeta, setKey_of_lookup _ _ _ hh]

theorem Hdr.setParent_of_has (t : String) (i : PyVal) (h : Hdr) (hh : h.hasParent t i = true) : h.setParent t i = h := by
  simp only [Hdr.hasParent, Bool.and_eq_true, beq_iff_eq] at hh
  obtain ⟨⟨h1, h2⟩, h3⟩ := hh
  unfold Hdr.setParent
  rw [Hdr.setMeta_of_has "parent_type" _ h (by simp [Hdr.hasMeta, h1]),
      Hdr.setMeta_of_has "parent_id" _ h (by simp [Hdr.hasMeta, h2]),
      Hdr.setMeta_of_has _ _ h (by simp [Hdr.hasMeta, h3])]

theorem mkHdr_eq (base : List String) (h : Hdr) (hh : h.ok base = true) :
    asTypes (typesVal h.types) = .ok h.types ∧ addTypes base h.types = h.types ∧ h.coords ≠ some [] := by
  simp only [Hdr.ok, Bool.and_eq_true, bne_iff_ne, ne_eq] at hh
  exact ⟨asTypes_typesVal _, addTypes_of_typesOk _ _ hh.1, hh.2⟩

theorem map_id_of {α} (f : α → α) (xs : List α) (h : ∀ x ∈ xs, f x = x) : xs.map f = xs := by
  induction xs with
  | nil => rfl
  | cons x xs ih => simp [h x (by simp), ih (fun y hy => h y (by simp [hy]))]

/-! ### words -/

theorem guarded_getD' (p : Bool) (v : PyVal) (h : p = false → v = .none) :
    ((if p = true then some v else none : Option PyVal).getD .none) = v := by
  cases p <;> simp_all

theorem Word.roundtrip (kf : Int → Key) (w : Word) (hw : w.ok = true) : fromJsonWord (w.toJson kf) = .ok w := by
  obtain ⟨h, text, conf⟩ := w
  obtain ⟨hty, hadd, hco⟩ := mkHdr_eq _ h hw
  have e1 : alookup (.s "id") (Word.fields kf ⟨h, text, conf⟩) = some h.id := by simp [Word.fields, baseFields]
  have e2 : alookup (.s "type") (Word.fields kf ⟨h, text, conf⟩) = some (typesVal h.types) := by
    simp [Word.fields, baseFields]
  have e3 : alookup (.s "metadata") (Word.fields kf ⟨h, text, conf⟩) = some (.dict h.md) := by
    simp [Word.fields, baseFields]
  have e4 : alookup (.s "text") (Word.fields kf ⟨h, text, conf⟩) = some (optStr text) := by
    simp [Word.fields, baseFields, alookup_append]
  have e5 : alookup (.s "coords") (Word.fields kf ⟨h, text, conf⟩) = h.coords.map ptsVal := by
    simp [Word.fields, baseFields, alookup_append]
  have e6 : (alookup (.s "conf") (Word.fields kf ⟨h, text, conf⟩)).getD .none = conf := by
    simp only [Word.fields, baseFields, alookup_append, alookup_cons, alookup_nil, alookup_opt, alookup_optPts,
      Key.s.injEq, String.reduceEq, if_false, Option.or_none, Option.none_or, false_and, and_false, and_true,
      Bool.false_eq_true]
    exact guarded_getD' _ _ (ne_none_guard conf)
  unfold fromJsonWord Word.toJson
  rw [req_dict _ _ _ e1, req_dict _ _ _ e2, req_dict _ _ _ e3, req_dict _ _ _ e4, jsonCoords_dict _ _ _ hco e5]
  simp only [ok_bind, getD_dict, e6]
  simp [mkWord, hty, hadd, asMeta, asText_optStr]

theorem Word.setParent_of_has (t : String) (i : PyVal) (w : Word) (hh : w.h.hasParent t i = true) :
    w.setParent t i = w := by
  simp [Word.setParent, Hdr.setParent_of_has t i w.h hh]

theorem roOf_map (kf : Int → Key) (hk : ∀ i, keyInt (kf i) = .ok i) (ro acc : RO)
    (hnd : ((acc ++ ro).map (·.1)).Nodup) :
    roOf (ro.map fun e => (kf e.1, e.2)) acc = .ok (acc ++ ro) := by
  induction ro generalizing acc with
  | nil => simp [roOf]
  | cons e ro ih =>
    obtain ⟨i, v⟩ := e
    simp only [List.map_cons, roOf, hk, ok_bind]
    have hnot : acc.any (fun e => decide (e.1 = i)) = false := by
      rw [List.any_eq_false]
      intro x hx
      simp only [decide_eq_true_eq]
      intro hxi
      rw [List.map_append, List.nodup_append] at hnd
      exact hnd.2.2 x.1 (List.mem_map_of_mem hx) i (by simp) hxi
    simp only [hnot]
    have := ih (acc ++ [(i, v)]) (by simpa using hnd)
    simpa using this

theorem regionMeta_dict (kf : Int → Key) (hk : ∀ i, keyInt (kf i) = .ok i) (m : List (Key × PyVal))
    (ro : RO) (roa orient : PyVal)
    (hro : alookup (.s "reading_order") m = if ro.isEmpty then none else some (roVal kf ro))
    (hnd : (ro.map (·.1)).Nodup)
    (hroa : alookup (.s "reading_order_attributes") m = some roa)
    (hor : (alookup (.s "orientation") m).getD .none = orient) :
    regionMeta (.dict m) = .ok (ro, roa, orient) := by
  unfold regionMeta
  simp only [getD_dict, hro, hroa, hor, Option.getD_some]
  cases ro with
  | nil => simp [PyVal.truthy]
  | cons e ro =>
    simp only [List.isEmpty_cons, Bool.false_eq_true, if_false, Option.getD_some, roVal, PyVal.truthy,
      List.map_cons, Bool.not_false, if_true]
    have := roOf_map kf hk (e :: ro) [] (by simpa using hnd)
    simp only [List.map_cons, List.nil_append] at this
    simp [this]


/-! ### lines -/

/-- the lookup simp set for literal-key field lists -/
macro "lk_simp" : tactic => `(tactic| simp [baseFields, alookup_append])

/-- an optional list of children: written when non-empty, read with `[]` as default -/
theorem optList_getD (xs : List PyVal) :
    ((if (!xs.isEmpty) = true then some (PyVal.list xs) else none : Option PyVal).getD (.list [])) = .list xs := by
  cases xs <;> simp

theorem optList_getD_map {α} (g : α → PyVal) (xs : List α) :
    ((if (!xs.isEmpty) = true then some (PyVal.list (xs.map g)) else none : Option PyVal).getD (.list []))
      = .list (xs.map g) := by
  cases xs <;> simp

theorem optList_read {α} (f : PyVal → Res α) (g : α → PyVal) (xs : List α)
    (hf : ∀ x ∈ xs, f (g x) = .ok x) :
    optChildren f (if (!xs.isEmpty) = true then some (PyVal.list (xs.map g)) else none) = .ok xs := by
  cases xs with
  | nil => simp [optChildren]
  | cons x xs =>
    simp only [List.map_cons, List.isEmpty_cons, Bool.not_false, if_true, PyVal.asList, ok_bind, optChildren]
    exact mapM_ok f g (x :: xs) hf

theorem Line.roundtrip (kf : Int → Key) (hk : ∀ i, keyInt (kf i) = .ok i) (l : Line) (hl : l.ok = true) :
    fromJsonLine (l.toJson kf) = .ok l := by
  obtain ⟨h, baseline, text, conf, xheight, ro, roa, words⟩ := l
  simp only [Line.ok, Bool.and_eq_true, bne_iff_ne, ne_eq, decide_eq_true_eq, List.all_eq_true] at hl
  obtain ⟨⟨⟨⟨⟨hh, hty⟩, hbl⟩, hxh⟩, hnd⟩, hws⟩ := hl
  obtain ⟨htys, hadd, hco⟩ := mkHdr_eq _ h hh
  generalize hF : Line.fields kf ⟨h, baseline, text, conf, xheight, ro, roa, words⟩ = F
  have e1 : alookup (.s "id") F = some h.id := by subst hF; simp only [Line.fields]; lk_simp
  have e2 : alookup (.s "type") F = some (typesVal h.types) := by subst hF; simp only [Line.fields]; lk_simp
  have e3 : alookup (.s "metadata") F = some (.dict h.md) := by subst hF; simp only [Line.fields]; lk_simp
  have e4 : alookup (.s "text") F = some (optStr text) := by subst hF; simp only [Line.fields]; lk_simp
  have e5 : alookup (.s "coords") F = h.coords.map ptsVal := by subst hF; simp only [Line.fields]; lk_simp
  have e6 : (alookup (.s "conf") F).getD .none = conf := by
    subst hF; simp only [Line.fields]; lk_simp; split <;> simp_all
  have e7 : alookup (.s "baseline") F = baseline.map ptsVal := by subst hF; simp only [Line.fields]; lk_simp
  have e8 : alookup (.s "words") F
      = if (!words.isEmpty) = true then some (.list (words.map (Word.toJson kf))) else none := by
    subst hF; simp only [Line.fields]; lk_simp
  have e9 : (alookup (.s "xheight") F).getD .none = xheight := by
    subst hF; simp only [Line.fields]; lk_simp; exact guarded_getD' _ _ (canon_guard _ hxh)
  have e10 : alookup (.s "reading_order") F = if ro.isEmpty then none else some (roVal kf ro) := by
    subst hF; simp only [Line.fields]; lk_simp
  have e11 : alookup (.s "reading_order_attributes") F = some roa := by subst hF; simp only [Line.fields]; lk_simp
  have e12 : (alookup (.s "orientation") F).getD .none = .none := by subst hF; simp only [Line.fields]; lk_simp
  unfold fromJsonLine Line.toJson
  rw [hF]
  simp only [get?_dict, e8]
  rw [optList_read fromJsonWord (Word.toJson kf) words (fun w hw => Word.roundtrip kf w (hws w hw).1)]
  rw [regionMeta_dict kf hk F ro roa .none e10 hnd e11 e12]
  simp only [ok_bind]
  rw [req_dict _ _ _ e1, req_dict _ _ _ e2, req_dict _ _ _ e3, jsonCoords_dict _ _ _ hco e5,
      jsonCoords_dict _ _ _ hbl e7, req_dict _ _ _ e4]
  simp only [ok_bind, getD_dict, e6, e9]
  simp only [mkLine, htys, hadd, asMeta, asText_optStr, ok_bind, pure_eq_ok]
  simp only [Hdr.hasMeta, beq_iff_eq] at hty
  rw [setKey_of_lookup _ _ _ hty, map_id_of _ words (fun w hw => Word.setParent_of_has _ _ w (hws w hw).2)]

theorem Line.setParent_of_has (t : String) (i : PyVal) (l : Line) (hh : l.h.hasParent t i = true) :
    l.setParent t i = l := by
  simp [Line.setParent, Hdr.setParent_of_has t i l.h hh]

theorem Line.setParentage_of_ok (l : Line) (hl : l.ok = true) : l.setParentage = l := by
  simp only [Line.ok, Bool.and_eq_true, List.all_eq_true] at hl
  simp only [Line.setParentage]
  rw [map_id_of _ l.words (fun w hw => Word.setParent_of_has _ _ w (hl.2 w hw).2)]

/-! ### table cells, rows, tables -/

theorem optChildren_some {α} (f : PyVal → Res α) (g : α → PyVal) (xs : List α)
    (hf : ∀ x ∈ xs, f (g x) = .ok x) : optChildren f (some (PyVal.list (xs.map g))) = .ok xs := by
  simp only [optChildren, PyVal.asList, ok_bind]; exact mapM_ok f g xs hf

theorem listChildren {α} (f : PyVal → Res α) (g : α → PyVal) (xs : List α)
    (hf : ∀ x ∈ xs, f (g x) = .ok x) :
    ((PyVal.list (xs.map g)).asList >>= fun l => l.mapM f) = .ok xs := by
  simp only [PyVal.asList, ok_bind]; exact mapM_ok f g xs hf

theorem asOptInt_col (col : Option Int) : asOptInt (optIntVal col) = .ok col := by cases col <;> rfl

theorem Cell.roundtrip (kf : Int → Key) (hk : ∀ i, keyInt (kf i) = .ok i) (c : Cell) (hc : c.ok = true) :
    fromJsonCell (c.toJson kf) = .ok c := by
  obtain ⟨h, row, col, cellSpan, rowSpan, header, cornerpoints, orientation, lines⟩ := c
  simp only [Cell.ok, Bool.and_eq_true, List.all_eq_true] at hc
  obtain ⟨⟨⟨hh, hcp⟩, hor⟩, hls⟩ := hc
  obtain ⟨htys, hadd, hco⟩ := mkHdr_eq _ h hh
  generalize hF : Cell.fields kf ⟨h, row, col, cellSpan, rowSpan, header, cornerpoints, orientation, lines⟩ = F
  have e1 : alookup (.s "id") F = some h.id := by subst hF; simp only [Cell.fields]; lk_simp
  have e2 : alookup (.s "type") F = some (typesVal h.types) := by subst hF; simp only [Cell.fields]; lk_simp
  have e3 : alookup (.s "metadata") F = some (.dict h.md) := by subst hF; simp only [Cell.fields]; lk_simp
  have e5 : alookup (.s "coords") F = h.coords.map ptsVal := by subst hF; simp only [Cell.fields]; lk_simp
  have e6 : alookup (.s "lines") F = some (.list (lines.map (Line.toJson kf))) := by
    subst hF; simp only [Cell.fields]; lk_simp
  have e7 : (alookup (.s "orientation") F).getD .none = orientation := by
    subst hF; simp only [Cell.fields]; lk_simp; exact guarded_getD' _ _ (canon_guard _ hor)
  have e8 : (alookup (.s "cornerpoints") F).getD .none = cornerpoints := by
    subst hF; simp only [Cell.fields]; lk_simp; exact guarded_getD' _ _ (canon_guard _ hcp)
  have e9 : (alookup (.s "row") F).getD .none = row := by subst hF; simp only [Cell.fields]; lk_simp
  have e10 : (alookup (.s "header") F).getD .none = header := by
    subst hF; simp only [Cell.fields]; lk_simp; split <;> simp_all
  have e11 : alookup (.s "col") F = some (optIntVal col) := by
    subst hF; simp only [Cell.fields]; lk_simp
  have e12 : alookup (.s "cell_span") F = some cellSpan := by subst hF; simp only [Cell.fields]; lk_simp
  have e13 : alookup (.s "row_span") F = some rowSpan := by subst hF; simp only [Cell.fields]; lk_simp
  unfold fromJsonCell Cell.toJson
  rw [hF]
  simp only [get?_dict, e6]
  rw [optChildren_some fromJsonLine (Line.toJson kf) lines (fun l hl => Line.roundtrip kf hk l (hls l hl).1)]
  simp only [ok_bind]
  rw [req_dict _ _ _ e1, req_dict _ _ _ e2, req_dict _ _ _ e3, jsonCoords_dict _ _ _ hco e5,
      req_dict _ _ _ e11, req_dict _ _ _ e12, req_dict _ _ _ e13]
  simp only [ok_bind, getD_dict, e7, e8, e9, e10, htys, hadd, asMeta, asOptInt_col]
  simp only [pure_eq_ok, Cell.setParentage, List.map_map]
  congr 2
  apply map_id_of
  intro l hl
  obtain ⟨hlo, hlp⟩ := hls l hl
  simp only [Function.comp, Line.setParent_of_has _ _ l hlp, Line.setParentage_of_ok l hlo]

theorem colCells_eq (n : Nat) (cs : List Cell) (h : ∀ c ∈ cs, c.col.isSome = true) :
    colCells n cs = .ok (colCellsN n cs) := by
  induction cs generalizing n with
  | nil => rfl
  | cons c cs ih =>
    have hc := h c (by simp)
    cases hcol : c.col with
    | none => simp [hcol] at hc
    | some col =>
      simp only [colCells, colCellsN, hcol]
      exact ih _ (fun d hd => h d (by simp [hd]))

theorem Row.roundtrip (kf : Int → Key) (hk : ∀ i, keyInt (kf i) = .ok i) (r : Row) (hr : r.ok = true) :
    fromJsonRow (r.toJson kf) = .ok r.base := by
  obtain ⟨h, numCols, orientation, cells⟩ := r
  simp only [Row.ok, Bool.and_eq_true, List.all_eq_true, Bool.not_eq_true'] at hr
  obtain ⟨⟨⟨⟨hh, hor⟩, hne⟩, hsame⟩, hcs⟩ := hr
  obtain ⟨htys, hadd, hco⟩ := mkHdr_eq _ h hh
  generalize hF : Row.fields kf ⟨h, numCols, orientation, cells⟩ = F
  have e1 : alookup (.s "id") F = some h.id := by subst hF; simp only [Row.fields]; lk_simp
  have e2 : alookup (.s "type") F = some (typesVal h.types) := by subst hF; simp only [Row.fields]; lk_simp
  have e3 : alookup (.s "metadata") F = some (.dict h.md) := by subst hF; simp only [Row.fields]; lk_simp
  have e5 : alookup (.s "coords") F = h.coords.map ptsVal := by subst hF; simp only [Row.fields]; lk_simp
  have e6 : (alookup (.s "cells") F).getD (.list []) = .list (cells.map (Cell.toJson kf)) := by
    subst hF; simp only [Row.fields]; lk_simp
  have e7 : (alookup (.s "orientation") F).getD .none = orientation := by
    subst hF; simp only [Row.fields]; lk_simp; exact guarded_getD' _ _ (canon_guard _ hor)
  unfold fromJsonRow Row.toJson
  rw [hF]
  simp only [getD_dict, e6, e7]
  simp only [PyVal.asList, ok_bind]
  rw [mapM_ok fromJsonCell (Cell.toJson kf) cells (fun c hc => Cell.roundtrip kf hk c (hcs c hc).1)]
  simp only [ok_bind]
  rw [req_dict _ _ _ e1, req_dict _ _ _ e2, req_dict _ _ _ e3, jsonCoords_dict _ _ _ hco e5]
  simp only [ok_bind, htys, hadd, asMeta, hsame, Bool.not_true, Bool.false_eq_true, if_false,
    colCells_eq 0 cells (fun c hc => (hcs c hc).2), hne, pure_eq_ok, Row.base]

theorem Table.roundtrip (kf : Int → Key) (hk : ∀ i, keyInt (kf i) = .ok i) (t : Table) (ht : t.ok = true) :
    fromJsonTable (t.toJson kf) = .ok t.base := by
  obtain ⟨h, orientation, rows⟩ := t
  simp only [Table.ok, Bool.and_eq_true, List.all_eq_true] at ht
  obtain ⟨⟨⟨hh, hor⟩, hrs⟩, _⟩ := ht
  obtain ⟨htys, hadd, hco⟩ := mkHdr_eq _ h hh
  generalize hF : Table.fields kf ⟨h, orientation, rows⟩ = F
  have e1 : alookup (.s "id") F = some h.id := by subst hF; simp only [Table.fields]; lk_simp
  have e2 : alookup (.s "type") F = some (typesVal h.types) := by subst hF; simp only [Table.fields]; lk_simp
  have e3 : alookup (.s "metadata") F = some (.dict h.md) := by subst hF; simp only [Table.fields]; lk_simp
  have e5 : alookup (.s "coords") F = h.coords.map ptsVal := by subst hF; simp only [Table.fields]; lk_simp
  have e6 : (alookup (.s "rows") F).getD (.list []) = .list (rows.map (Row.toJson kf)) := by
    subst hF; simp only [Table.fields]; lk_simp
  have e7 : (alookup (.s "orientation") F).getD .none = orientation := by
    subst hF; simp only [Table.fields]; lk_simp; exact guarded_getD' _ _ (canon_guard _ hor)
  unfold fromJsonTable Table.toJson
  rw [hF]
  simp only [getD_dict, e6, e7]
  simp only [PyVal.asList, ok_bind]
  rw [mapM_ok' fromJsonRow (Row.toJson kf) Row.base rows (fun r hr => Row.roundtrip kf hk r (hrs r hr))]
  simp only [ok_bind]
  rw [req_dict _ _ _ e1, req_dict _ _ _ e2, req_dict _ _ _ e3, jsonCoords_dict _ _ _ hco e5]
  simp only [ok_bind, htys, hadd, asMeta, pure_eq_ok, Table.base]

theorem maxCells_base (rows : List Row) : maxCells (rows.map Row.base) = maxCells rows := by
  induction rows with
  | nil => rfl
  | cons r rows ih => simp [maxCells, ih, Row.base]

theorem Row.pad_base (m : Nat) (r : Row) (h : r.numCols = padded m r) : (r.base).pad m = r := by
  obtain ⟨hd, numCols, orientation, cells⟩ := r
  simp only [padded] at h
  simp only [Row.pad, Row.base]
  by_cases hlt : cells.length < m
  · simp_all
  · simp only [hlt, if_false] at h ⊢; rw [h]

theorem Table.pad_base (t : Table) (ht : t.ok = true) : t.base.pad = t := by
  obtain ⟨h, orientation, rows⟩ := t
  simp only [Table.ok, Bool.and_eq_true, List.all_eq_true, beq_iff_eq] at ht
  simp only [Table.pad, Table.base, maxCells_base, List.map_map]
  congr 1
  apply map_id_of
  intro r hr
  exact Row.pad_base _ r (ht.2 r hr)

/-! ### the region-like classes: fields of the JSON view -/

/-- TextRegion.json for a class with main type `mt`, followed by what the subclass adds -/
def regionDict (kf : Int → Key) (mt : String) (h : Hdr) (ro : RO) (roa : PyVal) (L R T : List PyVal)
    (text : Option String) (orient : PyVal) (rest : List (Key × PyVal)) : List (Key × PyVal) :=
  baseFields kf mt h ro roa ++ regionFields L R T text orient ++ rest

/-- the subclass part has none of the keys the TextRegion part is read by -/
def RestOk (rest : List (Key × PyVal)) : Prop :=
  alookup (.s "id") rest = none ∧ alookup (.s "type") rest = none ∧ alookup (.s "metadata") rest = none ∧
  alookup (.s "coords") rest = none ∧ alookup (.s "text") rest = none ∧ alookup (.s "lines") rest = none ∧
  alookup (.s "text_regions") rest = none ∧ alookup (.s "table_regions") rest = none ∧
  alookup (.s "orientation") rest = none ∧ alookup (.s "reading_order") rest = none ∧
  alookup (.s "reading_order_attributes") rest = none

section regionDict
variable (kf : Int → Key) (mt : String) (h : Hdr) (ro : RO) (roa : PyVal) (L R T : List PyVal)
  (text : Option String) (orient : PyVal) (rest : List (Key × PyVal)) (hrest : RestOk rest)
include hrest

theorem rd_id : alookup (.s "id") (regionDict kf mt h ro roa L R T text orient rest) = some h.id := by
  simp [regionDict, baseFields, alookup_append]
theorem rd_type : alookup (.s "type") (regionDict kf mt h ro roa L R T text orient rest) = some (typesVal h.types) := by
  simp [regionDict, baseFields, alookup_append]
theorem rd_md : alookup (.s "metadata") (regionDict kf mt h ro roa L R T text orient rest) = some (.dict h.md) := by
  simp [regionDict, baseFields, alookup_append]
theorem rd_coords : alookup (.s "coords") (regionDict kf mt h ro roa L R T text orient rest) = h.coords.map ptsVal := by
  obtain ⟨_, _, _, h4, _⟩ := hrest
  simp [regionDict, baseFields, regionFields, alookup_append, h4]
theorem rd_roa : alookup (.s "reading_order_attributes") (regionDict kf mt h ro roa L R T text orient rest) = some roa := by
  simp [regionDict, baseFields, alookup_append]
theorem rd_ro : alookup (.s "reading_order") (regionDict kf mt h ro roa L R T text orient rest)
    = if ro.isEmpty then none else some (roVal kf ro) := by
  obtain ⟨_, _, _, _, _, _, _, _, _, h10, _⟩ := hrest
  simp [regionDict, baseFields, regionFields, alookup_append, h10]
theorem rd_text : (alookup (.s "text") (regionDict kf mt h ro roa L R T text orient rest)).getD .none = optStr text := by
  obtain ⟨_, _, _, _, h5, _⟩ := hrest
  cases text <;> simp [regionDict, baseFields, regionFields, alookup_append, h5, optStr]
theorem rd_lines : alookup (.s "lines") (regionDict kf mt h ro roa L R T text orient rest)
    = if (!L.isEmpty) = true then some (.list L) else none := by
  obtain ⟨_, _, _, _, _, h6, _⟩ := hrest
  simp [regionDict, baseFields, regionFields, alookup_append, h6]
theorem rd_regions : alookup (.s "text_regions") (regionDict kf mt h ro roa L R T text orient rest)
    = if (!R.isEmpty) = true then some (.list R) else none := by
  obtain ⟨_, _, _, _, _, _, h7, _⟩ := hrest
  simp [regionDict, baseFields, regionFields, alookup_append, h7]
theorem rd_tables : alookup (.s "table_regions") (regionDict kf mt h ro roa L R T text orient rest)
    = if (!T.isEmpty) = true then some (.list T) else none := by
  obtain ⟨_, _, _, _, _, _, _, h8, _⟩ := hrest
  simp [regionDict, baseFields, regionFields, alookup_append, h8]
theorem rd_orient (hc : canon orient = true) :
    (alookup (.s "orientation") (regionDict kf mt h ro roa L R T text orient rest)).getD .none = orient := by
  obtain ⟨_, _, _, _, _, _, _, _, h9, _⟩ := hrest
  simp [regionDict, baseFields, regionFields, alookup_append, h9]
  exact guarded_getD' _ _ (canon_guard _ hc)
end regionDict

/-! ### reading order: a constructor given regions that are already in reading order keeps them -/

theorem lastWithId_mem {α} (idOf : α → PyVal) (id : PyVal) (rs : List α) (x : α)
    (h : lastWithId idOf id rs = some x) : x ∈ rs := by
  induction rs with
  | nil => simp [lastWithId] at h
  | cons r rs ih =>
    simp only [lastWithId] at h
    cases hl : lastWithId idOf id rs with
    | some y => simp only [hl] at h; cases h; exact List.mem_cons_of_mem _ (ih hl)
    | none =>
      simp only [hl] at h
      split at h
      · cases h; simp
      · cases h

theorem reorder_mem {α} (idOf : α → PyVal) (ro : RO) (rs : List α) : ∀ x ∈ reorder idOf ro rs, x ∈ rs := by
  intro x hx
  simp only [reorder, List.mem_filterMap] at hx
  obtain ⟨id, _, hid⟩ := hx
  exact lastWithId_mem idOf id rs x hid

theorem inj_of_nodup_map {α β} (f : α → β) : ∀ (l : List α), (l.map f).Nodup → ∀ x ∈ l, ∀ y ∈ l, f x = f y → x = y := by
  intro l
  induction l with
  | nil => intro _ x hx; simp at hx
  | cons a l ih =>
    intro hnd x hx y hy hxy
    simp only [List.map_cons, List.nodup_cons, List.mem_map, not_exists, not_and] at hnd
    have hx' := List.mem_cons.mp hx
    have hy' := List.mem_cons.mp hy
    cases hx' with
    | inl hxa =>
      cases hy' with
      | inl hya => rw [hxa, hya]
      | inr hyl => exact absurd (by rw [← hxy, hxa]) (hnd.1 y hyl)
    | inr hxl =>
      cases hy' with
      | inl hya => exact absurd (by rw [hxy, hya]) (hnd.1 x hxl)
      | inr hyl => exact ih hnd.2 x hxl y hyl hxy

/-- two lists drawn from a list with pairwise distinct ids are equal when their id lists are -/
theorem eq_of_ids_eq {α} (idOf : α → PyVal) (rs : List α) (hnd : (rs.map idOf).Nodup) :
    ∀ (xs ys : List α), (∀ x ∈ xs, x ∈ rs) → (∀ y ∈ ys, y ∈ rs) → xs.map idOf = ys.map idOf → xs = ys := by
  intro xs
  induction xs with
  | nil => intro ys _ _ h; cases ys with
    | nil => rfl
    | cons y ys => simp at h
  | cons x xs ih =>
    intro ys hx hy h
    cases ys with
    | nil => simp at h
    | cons y ys =>
      simp only [List.map_cons, List.cons.injEq] at h
      have hxy : x = y := inj_of_nodup_map idOf rs hnd x (hx x (by simp)) y (hy y (by simp)) h.1
      rw [hxy, ih ys (fun z hz => hx z (by simp [hz])) (fun z hz => hy z (by simp [hz])) h.2]

theorem applyReadingOrder_of_roOk (sorts : Bool) (ro : RO) (rs : List Region) (h : roOk sorts ro rs = true) :
    applyReadingOrder (fun r : Region => r.h.id) sorts ro rs = (ro, rs) := by
  have e : (fun r : Region => r.h.id) = rid := rfl
  rw [e]
  unfold applyReadingOrder
  simp only [roOk, Bool.or_eq_true, Bool.and_eq_true, Bool.not_eq_true', beq_iff_eq, decide_eq_true_eq] at h
  by_cases hemp : ro.isEmpty = true
  · simp [hemp]
  · simp only [hemp, false_or, Bool.false_eq_true, if_false] at h ⊢
    obtain ⟨hall, hs⟩ := h
    simp only [hall, if_true]
    cases sorts with
    | false => rfl
    | true =>
      simp only [Bool.true_eq_false, false_or] at hs
      simp only [if_true]
      rw [eq_of_ids_eq rid rs hs.2 _ rs (reorder_mem rid ro rs) (fun _ h => h) hs.1]

/-! ### well-formedness of the region-like classes -/


theorem Region.okL_mem (pt : String) (pid : PyVal) (rs : List Region) (h : Region.okL pt pid rs = true) :
    ∀ r ∈ rs, r.ok = true ∧ r.h.hasParent pt pid = true := by
  induction rs with
  | nil => simp
  | cons r rs ih =>
    simp only [Region.okL, Bool.and_eq_true] at h
    intro x hx
    rcases List.mem_cons.mp hx with rfl | hx
    · exact ⟨h.1.1, h.1.2⟩
    · exact ih h.2 x hx

theorem Region.setParent_of_has (t : String) (i : PyVal) (r : Region) (hh : r.h.hasParent t i = true) :
    r.setParent t i = r := by
  obtain ⟨h, text, orientation, ro, roa, lines, regions, tables⟩ := r
  simp only [Region.setParent, Hdr.setParent_of_has t i h hh]

theorem lines_noop (t : String) (i : PyVal) (lines : List Line)
    (h : ∀ l ∈ lines, l.ok = true ∧ l.h.hasParent t i = true) :
    lines.map (fun l => (l.setParent t i).setParentage) = lines := by
  apply map_id_of
  intro l hl
  rw [Line.setParent_of_has _ _ l (h l hl).2, Line.setParentage_of_ok l (h l hl).1]

mutual
theorem Region.setParentage_of_ok : ∀ (r : Region), r.ok = true → r.setParentage = r
  | ⟨h, text, orientation, ro, roa, lines, regions, tables⟩, hr => by
    simp only [Region.ok, Bool.and_eq_true, List.all_eq_true] at hr
    obtain ⟨⟨⟨_, hls⟩, hrs⟩, _⟩ := hr
    simp only [Region.setParentage]
    rw [lines_noop _ _ lines hls, Region.setParentageL_of_ok "text_region" h.id regions hrs]
theorem Region.setParentageL_of_ok (pt : String) (pid : PyVal) :
    ∀ (rs : List Region), Region.okL pt pid rs = true → Region.setParentageL pt pid rs = rs
  | [], _ => rfl
  | r :: rs, h => by
    simp only [Region.okL, Bool.and_eq_true] at h
    simp only [Region.setParentageL]
    rw [Region.setParentage_of_ok r h.1.1, Region.setParent_of_has _ _ r h.1.2,
        Region.setParentageL_of_ok pt pid rs h.2]
end

/-- what the TextRegion constructor does to well-formed children of a well-formed parent: nothing -/
theorem regionInit_noop (mt : String) (id : PyVal) (ro : RO) (lines : List Line) (regions : List Region)
    (tables : List Table)
    (hls : ∀ l ∈ lines, l.ok = true ∧ l.h.hasParent mt id = true)
    (hrs : Region.okL mt id regions = true)
    (hts : ∀ t ∈ tables, t.ok = true)
    (hro : roOk (mt != "page") ro regions = true) :
    regionInit mt id ro lines regions (tables.map Table.base) = ⟨ro, lines, regions, tables⟩ := by
  unfold regionInit
  have h1 : (tables.map Table.base).map Table.pad = tables := by
    rw [List.map_map]; exact map_id_of _ tables (fun t ht => Table.pad_base t (hts t ht))
  have h2 : (lines.map (Line.setParent mt id)).map (Line.setParent mt id) = lines := by
    rw [List.map_map]
    exact map_id_of _ lines (fun l hl => by
      simp only [Function.comp, Line.setParent_of_has _ _ l (hls l hl).2])
  have h3 : regions.map (Region.setParent mt id) = regions :=
    map_id_of _ regions (fun r hr => Region.setParent_of_has _ _ r (Region.okL_mem mt id regions hrs r hr).2)
  simp only [h1, h2, h3, applyReadingOrder_of_roOk _ ro regions hro]

/-! ### text regions -/


theorem restOk_stats (v : PyVal) : RestOk [(.s "stats", v)] := by simp [RestOk]

theorem Region.toJson_eq (kf : Int → Key) (h : Hdr) (text : Option String) (orientation : PyVal) (ro : RO) (roa : PyVal)
    (lines : List Line) (regions : List Region) (tables : List Table) :
    Region.toJson kf ⟨h, text, orientation, ro, roa, lines, regions, tables⟩
    = .dict (regionDict kf "text_region" h ro roa (lines.map (Line.toJson kf)) (Region.toJsonL kf regions)
        (tables.map (Table.toJson kf)) text orientation
        [(.s "stats", statsVal (regionStats text lines regions tables))]) := by
  simp only [Region.toJson, regionDict]

/-- the decoding steps shared by every region-like builder, on the JSON view of a well-formed document -/
theorem hdr_eta (h : Hdr) : ({ id := h.id, types := h.types, md := h.md, coords := h.coords } : Hdr) = h := rfl

mutual
theorem Region.roundtrip (kf : Int → Key) (hk : ∀ i, keyInt (kf i) = .ok i) :
    ∀ (r : Region) (fuel : Nat), r.depth ≤ fuel → r.ok = true → fromJsonRegion fuel (r.toJson kf) = .ok r
  | ⟨h, text, orientation, ro, roa, lines, regions, tables⟩, 0, hd, _ => by
    simp [Region.depth] at hd
  | ⟨h, text, orientation, ro, roa, lines, regions, tables⟩, fuel + 1, hd, hr => by
    have hr0 := hr
    simp only [Region.ok, Bool.and_eq_true, List.all_eq_true, decide_eq_true_eq] at hr
    obtain ⟨⟨⟨⟨⟨⟨hh, hor⟩, hnd⟩, hro⟩, hls⟩, hrs⟩, hts⟩ := hr
    obtain ⟨htys, hadd, hco⟩ := mkHdr_eq _ h hh
    have hdl : Region.depthL regions ≤ fuel := by simp only [Region.depth] at hd; omega
    have ihR := Region.roundtripL kf hk "text_region" h.id regions fuel hdl hrs
    rw [Region.toJson_eq]
    generalize hS : statsVal (regionStats text lines regions tables) = S
    have hrest := restOk_stats S
    generalize hD : regionDict kf "text_region" h ro roa (lines.map (Line.toJson kf)) (Region.toJsonL kf regions)
        (tables.map (Table.toJson kf)) text orientation [(.s "stats", S)] = D
    have e1 := rd_id kf "text_region" h ro roa (lines.map (Line.toJson kf)) (Region.toJsonL kf regions)
        (tables.map (Table.toJson kf)) text orientation _ hrest
    have e2 := rd_type kf "text_region" h ro roa (lines.map (Line.toJson kf)) (Region.toJsonL kf regions)
        (tables.map (Table.toJson kf)) text orientation _ hrest
    have e3 := rd_md kf "text_region" h ro roa (lines.map (Line.toJson kf)) (Region.toJsonL kf regions)
        (tables.map (Table.toJson kf)) text orientation _ hrest
    have e4 := rd_coords kf "text_region" h ro roa (lines.map (Line.toJson kf)) (Region.toJsonL kf regions)
        (tables.map (Table.toJson kf)) text orientation _ hrest
    have e5 := rd_roa kf "text_region" h ro roa (lines.map (Line.toJson kf)) (Region.toJsonL kf regions)
        (tables.map (Table.toJson kf)) text orientation _ hrest
    have e6 := rd_ro kf "text_region" h ro roa (lines.map (Line.toJson kf)) (Region.toJsonL kf regions)
        (tables.map (Table.toJson kf)) text orientation _ hrest
    have e7 := rd_text kf "text_region" h ro roa (lines.map (Line.toJson kf)) (Region.toJsonL kf regions)
        (tables.map (Table.toJson kf)) text orientation _ hrest
    have e8 := rd_lines kf "text_region" h ro roa (lines.map (Line.toJson kf)) (Region.toJsonL kf regions)
        (tables.map (Table.toJson kf)) text orientation _ hrest
    have e9 := rd_regions kf "text_region" h ro roa (lines.map (Line.toJson kf)) (Region.toJsonL kf regions)
        (tables.map (Table.toJson kf)) text orientation _ hrest
    have e10 := rd_tables kf "text_region" h ro roa (lines.map (Line.toJson kf)) (Region.toJsonL kf regions)
        (tables.map (Table.toJson kf)) text orientation _ hrest
    have e11 := rd_orient kf "text_region" h ro roa (lines.map (Line.toJson kf)) (Region.toJsonL kf regions)
        (tables.map (Table.toJson kf)) text orientation _ hrest hor
    rw [hD] at e1 e2 e3 e4 e5 e6 e7 e8 e9 e10 e11
    unfold fromJsonRegion
    simp only [getD_dict, e8, e9, e10, optList_getD, PyVal.asList, ok_bind, ihR]
    rw [mapM_ok fromJsonLine (Line.toJson kf) lines (fun l hl => Line.roundtrip kf hk l (hls l hl).1),
        mapM_ok' fromJsonTable (Table.toJson kf) Table.base tables (fun t ht => Table.roundtrip kf hk t (hts t ht)),
        regionMeta_dict kf hk D ro roa orientation e6 hnd e5 e11]
    simp only [ok_bind]
    rw [req_dict _ _ _ e1, req_dict _ _ _ e2, req_dict _ _ _ e3, jsonCoords_dict _ _ _ hco e4]
    simp only [ok_bind, e7, asText_optStr, htys, hadd, asMeta, pure_eq_ok]
    rw [regionInit_noop "text_region" h.id ro lines regions tables hls hrs hts hro]
    exact congrArg Except.ok (Region.setParentage_of_ok _ hr0)
theorem Region.roundtripL (kf : Int → Key) (hk : ∀ i, keyInt (kf i) = .ok i) (pt : String) (pid : PyVal) :
    ∀ (rs : List Region) (fuel : Nat), Region.depthL rs ≤ fuel → Region.okL pt pid rs = true →
      (Region.toJsonL kf rs).mapM (fromJsonRegion fuel) = .ok rs
  | [], _, _, _ => rfl
  | r :: rs, fuel, hd, h => by
    simp only [Region.okL, Bool.and_eq_true] at h
    simp only [Region.depthL] at hd
    simp only [Region.toJsonL, List.mapM_cons,
      Region.roundtrip kf hk r fuel (by omega) h.1.1,
      Region.roundtripL kf hk pt pid rs fuel (by omega) h.2, ok_bind, pure_eq_ok]
end

/-! ### columns -/

theorem Column.toJson_eq (kf : Int → Key) (c : Column) :
    c.toJson kf = .dict (regionDict kf "column" c.h c.ro c.roa (c.lines.map (Line.toJson kf)) (Region.toJsonL kf c.regions)
        (c.tables.map (Table.toJson kf)) none c.orientation
        [(.s "stats", statsVal (regionStats none c.lines c.regions c.tables))]) := by
  simp only [Column.toJson, regionDict]

theorem Column.setParent_of_has (t : String) (i : PyVal) (c : Column) (hh : c.h.hasParent t i = true) :
    c.setParent t i = c := by
  simp [Column.setParent, Hdr.setParent_of_has t i c.h hh]

theorem Column.setParentage_of_ok (c : Column) (hc : c.ok = true) : c.setParentage = c := by
  simp only [Column.ok, Bool.and_eq_true, List.all_eq_true] at hc
  obtain ⟨⟨⟨_, hls⟩, hrs⟩, _⟩ := hc
  simp only [Column.setParentage]
  rw [lines_noop _ _ c.lines hls, Region.setParentageL_of_ok "column" c.h.id c.regions hrs]

theorem Column.roundtrip (kf : Int → Key) (hk : ∀ i, keyInt (kf i) = .ok i) (c : Column) (fuel : Nat)
    (hd : Region.depthL c.regions ≤ fuel) (hc : c.ok = true) : fromJsonColumn fuel (c.toJson kf) = .ok c := by
  have hc0 := hc
  obtain ⟨h, orientation, ro, roa, lines, regions, tables⟩ := c
  simp only [Column.ok, Bool.and_eq_true, List.all_eq_true, decide_eq_true_eq] at hc
  obtain ⟨⟨⟨⟨⟨⟨hh, hor⟩, hnd⟩, hro⟩, hls⟩, hrs⟩, hts⟩ := hc
  obtain ⟨htys, hadd, hco⟩ := mkHdr_eq _ h hh
  have ihR := Region.roundtripL kf hk "column" h.id regions fuel hd hrs
  rw [Column.toJson_eq]
  simp only
  generalize hS : statsVal (regionStats none lines regions tables) = S
  have hrest := restOk_stats S
  generalize hD : regionDict kf "column" h ro roa (lines.map (Line.toJson kf)) (Region.toJsonL kf regions)
      (tables.map (Table.toJson kf)) none orientation [(.s "stats", S)] = D
  have e1 := rd_id kf "column" h ro roa (lines.map (Line.toJson kf)) (Region.toJsonL kf regions)
      (tables.map (Table.toJson kf)) none orientation _ hrest
  have e2 := rd_type kf "column" h ro roa (lines.map (Line.toJson kf)) (Region.toJsonL kf regions)
      (tables.map (Table.toJson kf)) none orientation _ hrest
  have e3 := rd_md kf "column" h ro roa (lines.map (Line.toJson kf)) (Region.toJsonL kf regions)
      (tables.map (Table.toJson kf)) none orientation _ hrest
  have e4 := rd_coords kf "column" h ro roa (lines.map (Line.toJson kf)) (Region.toJsonL kf regions)
      (tables.map (Table.toJson kf)) none orientation _ hrest
  have e5 := rd_roa kf "column" h ro roa (lines.map (Line.toJson kf)) (Region.toJsonL kf regions)
      (tables.map (Table.toJson kf)) none orientation _ hrest
  have e6 := rd_ro kf "column" h ro roa (lines.map (Line.toJson kf)) (Region.toJsonL kf regions)
      (tables.map (Table.toJson kf)) none orientation _ hrest
  have e8 := rd_lines kf "column" h ro roa (lines.map (Line.toJson kf)) (Region.toJsonL kf regions)
      (tables.map (Table.toJson kf)) none orientation _ hrest
  have e9 := rd_regions kf "column" h ro roa (lines.map (Line.toJson kf)) (Region.toJsonL kf regions)
      (tables.map (Table.toJson kf)) none orientation _ hrest
  have e10 := rd_tables kf "column" h ro roa (lines.map (Line.toJson kf)) (Region.toJsonL kf regions)
      (tables.map (Table.toJson kf)) none orientation _ hrest
  have e11 := rd_orient kf "column" h ro roa (lines.map (Line.toJson kf)) (Region.toJsonL kf regions)
      (tables.map (Table.toJson kf)) none orientation _ hrest hor
  rw [hD] at e1 e2 e3 e4 e5 e6 e8 e9 e10 e11
  unfold fromJsonColumn fromJsonRegions
  simp only [getD_dict, get?_dict, e8, e9, e10, List.isEmpty_map, optList_getD, optList_getD_map, PyVal.asList, ok_bind, ihR]
  rw [mapM_ok' fromJsonTable (Table.toJson kf) Table.base tables (fun t ht => Table.roundtrip kf hk t (hts t ht))]
  simp only [ok_bind, pure_eq_ok]
  rw [optList_read fromJsonLine (Line.toJson kf) lines (fun l hl => Line.roundtrip kf hk l (hls l hl).1),
      regionMeta_dict kf hk D ro roa orientation e6 hnd e5 e11]
  simp only [ok_bind]
  rw [req_dict _ _ _ e1, req_dict _ _ _ e2, req_dict _ _ _ e3, jsonCoords_dict _ _ _ hco e4]
  simp only [ok_bind, htys, hadd, asMeta, pure_eq_ok]
  rw [regionInit_noop "column" h.id ro lines regions tables hls hrs hts hro]
  exact congrArg Except.ok (Column.setParentage_of_ok _ hc0)

/-! ### a predicate on every header below a document (for `set_scan_id`) -/

section mapAll
variable (f : Hdr → Hdr) (p : Hdr → Bool) (hp : ∀ h, p h = true → f h = h)
include hp

theorem Word.mapAll_id (w : Word) (h : w.allH p = true) : w.mapAll f = w := by
  simp only [Word.allH] at h; simp [Word.mapAll, hp _ h]
theorem Line.mapAll_id (l : Line) (h : l.allH p = true) : l.mapAll f = l := by
  simp only [Line.allH, Bool.and_eq_true, List.all_eq_true] at h
  simp [Line.mapAll, hp _ h.1, map_id_of _ l.words (fun w hw => Word.mapAll_id f p hp w (h.2 w hw))]
theorem Cell.mapAll_id (c : Cell) (h : c.allH p = true) : c.mapAll f = c := by
  simp only [Cell.allH, Bool.and_eq_true, List.all_eq_true] at h
  simp [Cell.mapAll, hp _ h.1, map_id_of _ c.lines (fun w hw => Line.mapAll_id f p hp w (h.2 w hw))]
theorem Row.mapAll_id (r : Row) (h : r.allH p = true) : r.mapAll f = r := by
  simp only [Row.allH, Bool.and_eq_true, List.all_eq_true] at h
  simp [Row.mapAll, hp _ h.1, map_id_of _ r.cells (fun w hw => Cell.mapAll_id f p hp w (h.2 w hw))]
theorem Table.mapAll_id (t : Table) (h : t.allH p = true) : t.mapAll f = t := by
  simp only [Table.allH, Bool.and_eq_true, List.all_eq_true] at h
  simp [Table.mapAll, hp _ h.1, map_id_of _ t.rows (fun w hw => Row.mapAll_id f p hp w (h.2 w hw))]
mutual
theorem Region.mapAll_id : ∀ (r : Region), r.allH p = true → r.mapAll f = r
  | ⟨h, text, orientation, ro, roa, lines, regions, tables⟩, hr => by
    simp only [Region.allH, Bool.and_eq_true, List.all_eq_true] at hr
    simp only [Region.mapAll, hp _ hr.1.1.1, Region.mapAllL_id regions hr.1.2,
      map_id_of _ lines (fun w hw => Line.mapAll_id f p hp w (hr.1.1.2 w hw)),
      map_id_of _ tables (fun w hw => Table.mapAll_id f p hp w (hr.2 w hw))]
theorem Region.mapAllL_id : ∀ (rs : List Region), Region.allHL p rs = true → Region.mapAllL f rs = rs
  | [], _ => rfl
  | r :: rs, h => by
    simp only [Region.allHL, Bool.and_eq_true] at h
    simp only [Region.mapAllL, Region.mapAll_id r h.1, Region.mapAllL_id rs h.2]
end
theorem Column.mapAll_id (c : Column) (h : c.allH p = true) : c.mapAll f = c := by
  simp only [Column.allH, Bool.and_eq_true, List.all_eq_true] at h
  simp [Column.mapAll, hp _ h.1.1.1, Region.mapAllL_id f p hp c.regions h.1.2,
    map_id_of _ c.lines (fun w hw => Line.mapAll_id f p hp w (h.1.1.2 w hw)),
    map_id_of _ c.tables (fun w hw => Table.mapAll_id f p hp w (h.2 w hw))]
theorem Page.mapAll_id (g : Page) (h : g.allH p = true) : g.mapAll f = g := by
  simp only [Page.allH, Bool.and_eq_true, List.all_eq_true] at h
  simp [Page.mapAll, hp _ h.1.1.1.1, Region.mapAllL_id f p hp g.regions h.1.1.2, Region.mapAllL_id f p hp g.extra h.2,
    map_id_of _ g.columns (fun w hw => Column.mapAll_id f p hp w (h.1.1.1.2 w hw)),
    map_id_of _ g.tables (fun w hw => Table.mapAll_id f p hp w (h.1.2 w hw))]
theorem Scan.mapAll_id (s : Scan) (h : s.allH p = true) : s.mapAll f = s := by
  simp only [Scan.allH, Bool.and_eq_true, List.all_eq_true] at h
  simp [Scan.mapAll, hp _ h.1.1.1.1.1, Region.mapAllL_id f p hp s.regions h.1.1.2,
    map_id_of _ s.pages (fun w hw => Page.mapAll_id f p hp w (h.1.1.1.1.2 w hw)),
    map_id_of _ s.columns (fun w hw => Column.mapAll_id f p hp w (h.1.1.1.2 w hw)),
    map_id_of _ s.tables (fun w hw => Table.mapAll_id f p hp w (h.1.2 w hw)),
    map_id_of _ s.lines (fun w hw => Line.mapAll_id f p hp w (h.2 w hw))]
end mapAll

/-! ### pages -/

theorem le_maxBy {α} (f : α → Nat) (xs : List α) : ∀ x ∈ xs, f x ≤ maxBy f xs := by
  induction xs with
  | nil => simp
  | cons a as ih =>
    intro x hx
    simp only [maxBy]
    rcases List.mem_cons.mp hx with rfl | hx
    · omega
    · have := ih x hx; omega

theorem rd_other (kf : Int → Key) (mt : String) (h : Hdr) (ro : RO) (roa : PyVal) (L R T : List PyVal)
    (text : Option String) (orient : PyVal) (rest : List (Key × PyVal)) (k : String)
    (hk : k = "columns" ∨ k = "extra" ∨ k = "pages") :
    alookup (.s k) (regionDict kf mt h ro roa L R T text orient rest) = alookup (.s k) rest := by
  rcases hk with rfl | rfl | rfl <;> simp [regionDict, baseFields, regionFields, alookup_append]

theorem Page.toJson_eq (kf : Int → Key) (p : Page) :
    p.toJson kf = .dict (regionDict kf "page" p.h p.ro p.roa [] (Region.toJsonL kf p.regions)
        (p.tables.map (Table.toJson kf)) none p.orientation
        ([(.s "stats", statsVal p.stats)]
          ++ opt "columns" (!p.columns.isEmpty) (.list (p.columns.map (Column.toJson kf)))
          ++ opt "extra" (!p.extra.isEmpty) (.list (Region.toJsonL kf p.extra)))) := by
  simp only [Page.toJson, regionDict, List.append_assoc]

theorem Page.setParent_of_has (t : String) (i : PyVal) (p : Page) (hh : p.h.hasParent t i = true) :
    p.setParent t i = p := by
  simp [Page.setParent, Hdr.setParent_of_has t i p.h hh]

theorem columns_noop (t : String) (i : PyVal) (cs : List Column)
    (h : ∀ c ∈ cs, c.ok = true ∧ c.h.hasParent t i = true) :
    cs.map (fun c => (c.setParent t i).setParentage) = cs := by
  apply map_id_of
  intro c hc
  rw [Column.setParent_of_has _ _ c (h c hc).2, Column.setParentage_of_ok c (h c hc).1]

theorem Page.setParentage_of_ok (p : Page) (hp : p.ok = true) : p.setParentage = p := by
  simp only [Page.ok, Bool.and_eq_true, List.all_eq_true] at hp
  obtain ⟨⟨⟨⟨_, hcs⟩, hrs⟩, _⟩, _⟩ := hp
  simp only [Page.setParentage]
  rw [columns_noop _ _ p.columns hcs, Region.setParentageL_of_ok "page" p.h.id p.regions hrs]

theorem toJsonL_isEmpty (kf : Int → Key) (rs : List Region) : (Region.toJsonL kf rs).isEmpty = rs.isEmpty := by
  cases rs <;> simp [Region.toJsonL]

theorem optList_getD_L (kf : Int → Key) (rs : List Region) :
    ((if (!rs.isEmpty) = true then some (PyVal.list (Region.toJsonL kf rs)) else none : Option PyVal).getD (.list []))
      = .list (Region.toJsonL kf rs) := by
  cases rs <;> simp [Region.toJsonL]

theorem Page.roundtrip (kf : Int → Key) (hk : ∀ i, keyInt (kf i) = .ok i) (p : Page) (fuel : Nat)
    (hd : p.depth ≤ fuel) (hp : p.ok = true) : fromJsonPage fuel (p.toJson kf) = .ok p := by
  have hp0 := hp
  obtain ⟨h, orientation, ro, roa, columns, regions, tables, extra⟩ := p
  simp only [Page.ok, Bool.and_eq_true, List.all_eq_true, decide_eq_true_eq] at hp
  obtain ⟨⟨⟨⟨⟨⟨⟨hh, hor⟩, hnd⟩, hro⟩, hcs⟩, hrs⟩, hts⟩, hex⟩ := hp
  obtain ⟨htys, hadd, hco⟩ := mkHdr_eq _ h hh
  simp only [Page.depth] at hd
  have ihR := Region.roundtripL kf hk "page" h.id regions fuel (by omega) hrs
  have ihE := Region.roundtripL kf hk "page" h.id extra fuel (by omega) hex
  have ihC : ∀ c ∈ columns, fromJsonColumn fuel (c.toJson kf) = .ok c := fun c hc =>
    Column.roundtrip kf hk c fuel (by have := le_maxBy Column.depth columns c hc; simp only [Column.depth] at this; omega)
      (hcs c hc).1
  rw [Page.toJson_eq]
  simp only
  generalize hS : statsVal (Page.stats ⟨h, orientation, ro, roa, columns, regions, tables, extra⟩) = S
  generalize hrest : ([(Key.s "stats", S)] ++ opt "columns" (!columns.isEmpty) (.list (columns.map (Column.toJson kf)))
          ++ opt "extra" (!extra.isEmpty) (.list (Region.toJsonL kf extra))) = rest
  have hrok : RestOk rest := by subst hrest; simp [RestOk, alookup_append]
  have x1 : alookup (.s "columns") rest
      = if (!columns.isEmpty) = true then some (.list (columns.map (Column.toJson kf))) else none := by
    subst hrest; simp [alookup_append]
  have x2 : alookup (.s "extra") rest
      = if (!extra.isEmpty) = true then some (.list (Region.toJsonL kf extra)) else none := by
    subst hrest; simp [alookup_append]
  generalize hD : regionDict kf "page" h ro roa [] (Region.toJsonL kf regions)
      (tables.map (Table.toJson kf)) none orientation rest = D
  have e1 := rd_id kf "page" h ro roa [] (Region.toJsonL kf regions) (tables.map (Table.toJson kf)) none orientation _ hrok
  have e2 := rd_type kf "page" h ro roa [] (Region.toJsonL kf regions) (tables.map (Table.toJson kf)) none orientation _ hrok
  have e3 := rd_md kf "page" h ro roa [] (Region.toJsonL kf regions) (tables.map (Table.toJson kf)) none orientation _ hrok
  have e4 := rd_coords kf "page" h ro roa [] (Region.toJsonL kf regions) (tables.map (Table.toJson kf)) none orientation _ hrok
  have e5 := rd_roa kf "page" h ro roa [] (Region.toJsonL kf regions) (tables.map (Table.toJson kf)) none orientation _ hrok
  have e6 := rd_ro kf "page" h ro roa [] (Region.toJsonL kf regions) (tables.map (Table.toJson kf)) none orientation _ hrok
  have e8 := rd_lines kf "page" h ro roa [] (Region.toJsonL kf regions) (tables.map (Table.toJson kf)) none orientation _ hrok
  have e9 := rd_regions kf "page" h ro roa [] (Region.toJsonL kf regions) (tables.map (Table.toJson kf)) none orientation _ hrok
  have e10 := rd_tables kf "page" h ro roa [] (Region.toJsonL kf regions) (tables.map (Table.toJson kf)) none orientation _ hrok
  have e11 := rd_orient kf "page" h ro roa [] (Region.toJsonL kf regions) (tables.map (Table.toJson kf)) none orientation _ hrok hor
  have e12 := rd_other kf "page" h ro roa [] (Region.toJsonL kf regions) (tables.map (Table.toJson kf)) none orientation rest
    "columns" (Or.inl rfl)
  have e13 := rd_other kf "page" h ro roa [] (Region.toJsonL kf regions) (tables.map (Table.toJson kf)) none orientation rest
    "extra" (Or.inr (Or.inl rfl))
  rw [hD] at e1 e2 e3 e4 e5 e6 e8 e9 e10 e11 e12 e13
  rw [x1] at e12
  rw [x2] at e13
  unfold fromJsonPage fromJsonContainer fromJsonRegions
  simp only [getD_dict, get?_dict, e8, e9, e10, e12, e13, toJsonL_isEmpty, List.isEmpty_map, optList_getD_L,
    optList_getD_map, PyVal.asList, ok_bind, ihE, ihR]
  rw [optList_read (fromJsonColumn fuel) (Column.toJson kf) columns ihC]
  simp only [ok_bind]
  rw [mapM_ok' fromJsonTable (Table.toJson kf) Table.base tables (fun t ht => Table.roundtrip kf hk t (hts t ht))]
  simp only [ok_bind, pure_eq_ok, List.isEmpty_nil, Bool.not_true, Bool.false_eq_true, if_false, Option.getD_none,
    List.mapM_nil]
  rw [jsonCoords_dict _ _ _ hco e4, regionMeta_dict kf hk D ro roa orientation e6 hnd e5 e11]
  simp only [ok_bind]
  rw [req_dict _ _ _ e1, req_dict _ _ _ e2, req_dict _ _ _ e3]
  simp only [ok_bind, htys, hadd, asMeta, pure_eq_ok, List.isEmpty_nil, Bool.not_true, Bool.false_eq_true, if_false]
  rw [regionInit_noop "page" h.id ro [] regions tables (by simp) hrs hts hro]
  simp only
  rw [map_id_of _ columns (fun c hc => Column.setParent_of_has _ _ c (hcs c hc).2),
      map_id_of _ extra (fun r hr => Region.setParent_of_has _ _ r (Region.okL_mem _ _ extra hex r hr).2)]
  exact congrArg Except.ok (Page.setParentage_of_ok _ hp0)

/-! ### scans -/

theorem Scan.toJson_eq (kf : Int → Key) (s : Scan) :
    s.toJson kf = .dict (regionDict kf "scan" s.h s.ro s.roa (s.lines.map (Line.toJson kf)) (Region.toJsonL kf s.regions)
        (s.tables.map (Table.toJson kf)) none s.orientation
        ([(.s "stats", statsVal s.stats)]
          ++ opt "columns" (!s.columns.isEmpty) (.list (s.columns.map (Column.toJson kf)))
          ++ opt "pages" (!s.pages.isEmpty) (.list (s.pages.map (Page.toJson kf))))) := by
  simp only [Scan.toJson, regionDict, List.append_assoc]

theorem pages_noop (t : String) (i : PyVal) (ps : List Page)
    (h : ∀ p ∈ ps, p.ok = true ∧ p.h.hasParent t i = true) :
    ps.map (fun p => (p.setParent t i).setParentage) = ps := by
  apply map_id_of
  intro p hp
  rw [Page.setParent_of_has _ _ p (h p hp).2, Page.setParentage_of_ok p (h p hp).1]

theorem Scan.setParentage_of_ok (s : Scan) (hs : s.ok = true) : s.setParentage = s := by
  simp only [Scan.ok, Bool.and_eq_true, List.all_eq_true] at hs
  obtain ⟨⟨⟨⟨⟨⟨_, hps⟩, hcs⟩, hls⟩, hrs⟩, _⟩, _⟩ := hs
  simp only [Scan.setParentage]
  rw [pages_noop _ _ s.pages hps, columns_noop _ _ s.columns hcs, lines_noop _ _ s.lines hls,
      Region.setParentageL_of_ok "scan" s.h.id s.regions hrs]

theorem Scan.roundtrip (kf : Int → Key) (hk : ∀ i, keyInt (kf i) = .ok i) (s : Scan) (fuel : Nat)
    (hd : s.depth ≤ fuel) (hs : s.ok = true) : fromJsonScan fuel (s.toJson kf) = .ok s := by
  have hs0 := hs
  obtain ⟨h, orientation, ro, roa, pages, columns, regions, tables, lines⟩ := s
  simp only [Scan.ok, Bool.and_eq_true, List.all_eq_true, decide_eq_true_eq] at hs
  obtain ⟨⟨⟨⟨⟨⟨⟨⟨⟨hh, hor⟩, hnd⟩, hro⟩, hps⟩, hcs⟩, hls⟩, hrs⟩, hts⟩, hall⟩ := hs
  obtain ⟨htys, hadd, hco⟩ := mkHdr_eq _ h hh
  simp only [Scan.depth] at hd
  have ihR := Region.roundtripL kf hk "scan" h.id regions fuel (by omega) hrs
  have ihC : ∀ c ∈ columns, fromJsonColumn fuel (c.toJson kf) = .ok c := fun c hc =>
    Column.roundtrip kf hk c fuel (by have := le_maxBy Column.depth columns c hc; simp only [Column.depth] at this; omega)
      (hcs c hc).1
  have ihP : ∀ p ∈ pages, fromJsonPage fuel (p.toJson kf) = .ok p := fun p hp =>
    Page.roundtrip kf hk p fuel (by have := le_maxBy Page.depth pages p hp; omega) (hps p hp).1
  rw [Scan.toJson_eq]
  simp only
  generalize hS : statsVal (Scan.stats ⟨h, orientation, ro, roa, pages, columns, regions, tables, lines⟩) = S
  generalize hrest : ([(Key.s "stats", S)] ++ opt "columns" (!columns.isEmpty) (.list (columns.map (Column.toJson kf)))
          ++ opt "pages" (!pages.isEmpty) (.list (pages.map (Page.toJson kf)))) = rest
  have hrok : RestOk rest := by subst hrest; simp [RestOk, alookup_append]
  have x1 : alookup (.s "columns") rest
      = if (!columns.isEmpty) = true then some (.list (columns.map (Column.toJson kf))) else none := by
    subst hrest; simp [alookup_append]
  have x2 : alookup (.s "pages") rest
      = if (!pages.isEmpty) = true then some (.list (pages.map (Page.toJson kf))) else none := by
    subst hrest; simp [alookup_append]
  generalize hD : regionDict kf "scan" h ro roa (lines.map (Line.toJson kf)) (Region.toJsonL kf regions)
      (tables.map (Table.toJson kf)) none orientation rest = D
  have e1 := rd_id kf "scan" h ro roa (lines.map (Line.toJson kf)) (Region.toJsonL kf regions) (tables.map (Table.toJson kf)) none orientation _ hrok
  have e2 := rd_type kf "scan" h ro roa (lines.map (Line.toJson kf)) (Region.toJsonL kf regions) (tables.map (Table.toJson kf)) none orientation _ hrok
  have e3 := rd_md kf "scan" h ro roa (lines.map (Line.toJson kf)) (Region.toJsonL kf regions) (tables.map (Table.toJson kf)) none orientation _ hrok
  have e4 := rd_coords kf "scan" h ro roa (lines.map (Line.toJson kf)) (Region.toJsonL kf regions) (tables.map (Table.toJson kf)) none orientation _ hrok
  have e5 := rd_roa kf "scan" h ro roa (lines.map (Line.toJson kf)) (Region.toJsonL kf regions) (tables.map (Table.toJson kf)) none orientation _ hrok
  have e6 := rd_ro kf "scan" h ro roa (lines.map (Line.toJson kf)) (Region.toJsonL kf regions) (tables.map (Table.toJson kf)) none orientation _ hrok
  have e8 := rd_lines kf "scan" h ro roa (lines.map (Line.toJson kf)) (Region.toJsonL kf regions) (tables.map (Table.toJson kf)) none orientation _ hrok
  have e9 := rd_regions kf "scan" h ro roa (lines.map (Line.toJson kf)) (Region.toJsonL kf regions) (tables.map (Table.toJson kf)) none orientation _ hrok
  have e10 := rd_tables kf "scan" h ro roa (lines.map (Line.toJson kf)) (Region.toJsonL kf regions) (tables.map (Table.toJson kf)) none orientation _ hrok
  have e11 := rd_orient kf "scan" h ro roa (lines.map (Line.toJson kf)) (Region.toJsonL kf regions) (tables.map (Table.toJson kf)) none orientation _ hrok hor
  have e12 := rd_other kf "scan" h ro roa (lines.map (Line.toJson kf)) (Region.toJsonL kf regions) (tables.map (Table.toJson kf)) none orientation rest
    "columns" (Or.inl rfl)
  have e13 := rd_other kf "scan" h ro roa (lines.map (Line.toJson kf)) (Region.toJsonL kf regions) (tables.map (Table.toJson kf)) none orientation rest
    "pages" (Or.inr (Or.inr rfl))
  rw [hD] at e1 e2 e3 e4 e5 e6 e8 e9 e10 e11 e12 e13
  rw [x1] at e12
  rw [x2] at e13
  unfold fromJsonScan fromJsonContainer fromJsonRegions
  simp only [getD_dict, get?_dict, e8, e9, e10, e12, e13, toJsonL_isEmpty, List.isEmpty_map, optList_getD_L,
    optList_getD_map, optList_getD, PyVal.asList, ok_bind, ihR]
  rw [optList_read (fromJsonPage fuel) (Page.toJson kf) pages ihP]
  simp only [ok_bind]
  rw [optList_read (fromJsonColumn fuel) (Column.toJson kf) columns ihC]
  simp only [ok_bind]
  rw [mapM_ok' fromJsonTable (Table.toJson kf) Table.base tables (fun t ht => Table.roundtrip kf hk t (hts t ht))]
  simp only [ok_bind, pure_eq_ok]
  rw [mapM_ok fromJsonLine (Line.toJson kf) lines (fun l hl => Line.roundtrip kf hk l (hls l hl).1)]
  simp only [ok_bind]
  rw [jsonCoords_dict _ _ _ hco e4, regionMeta_dict kf hk D ro roa orientation e6 hnd e5 e11]
  simp only [ok_bind]
  rw [req_dict _ _ _ e1, req_dict _ _ _ e2, req_dict _ _ _ e3]
  simp only [ok_bind, htys, hadd, asMeta, pure_eq_ok]
  rw [regionInit_noop "scan" h.id ro lines regions tables hls hrs hts hro]
  simp only
  rw [map_id_of _ columns (fun c hc => Column.setParent_of_has _ _ c (hcs c hc).2),
      map_id_of _ pages (fun p hp => Page.setParent_of_has _ _ p (hps p hp).2)]
  have hm := Scan.mapAll_id (Hdr.setMeta "scan_id" h.id) (Hdr.hasMeta "scan_id" h.id)
    (fun hd hhd => Hdr.setMeta_of_has _ _ hd hhd) ⟨h, orientation, ro, roa, pages, columns, regions, tables, lines⟩ hall
  exact congrArg Except.ok (by rw [show (⟨⟨h.id, h.types, h.md, h.coords⟩, orientation, ro, roa, pages, columns, regions, tables, lines⟩ : Scan) = ⟨h, orientation, ro, roa, pages, columns, regions, tables, lines⟩ from rfl, hm]; exact Scan.setParentage_of_ok _ hs0)

end Pagexml.C06
