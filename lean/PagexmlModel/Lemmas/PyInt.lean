/-
Lemmas about `showInt` / `pyInt?`: `pyInt? (showInt n) = some n`, and the shape of
`showInt n` (non-empty, only digits and a leading '-').
-/
import PagexmlModel.Basic.PyInt
import Mathlib.Tactic.Ring
import Mathlib.Tactic.Linarith
import Mathlib.Tactic.IntervalCases

namespace Pagexml

theorem digitChar_isDigit (d : Nat) (h : d < 10) :
    isAsciiDigit (digitChar d) = true ∧ digitVal (digitChar d) = d := by
  interval_cases d <;> decide

theorem digitsVal_shift (cs : List Char) (a b va : Nat) (h : digitsVal cs a = some va) :
    digitsVal cs (a + b) = some (va + b * 10 ^ cs.length) := by
  induction cs generalizing a b va with
  | nil => simp [digitsVal] at h ⊢; omega
  | cons c cs ih =>
    simp only [digitsVal] at h ⊢
    split at h
    · rename_i hc
      simp only [hc, if_true]
      have := ih (a * 10 + digitVal c) (b * 10) va h
      have e : (a + b) * 10 + digitVal c = a * 10 + digitVal c + b * 10 := by ring
      rw [e, this]
      congr 1
      simp [List.length, pow_succ]; ring
    · simp at h

/-- all characters are ASCII digits -/
def AllDigits (cs : List Char) : Prop := ∀ c ∈ cs, isAsciiDigit c = true

theorem digitsAux_spec (fuel n : Nat) (acc : List Char) (v : Nat)
    (hf : n < fuel) (hacc : AllDigits acc) (hv : digitsVal acc 0 = some v) :
    AllDigits (digitsAux fuel n acc) ∧
    digitsVal (digitsAux fuel n acc) 0 = some (n * 10 ^ acc.length + v) ∧
    (n ≠ 0 ∨ acc ≠ [] → digitsAux fuel n acc ≠ []) := by
  induction fuel generalizing n acc v with
  | zero => omega
  | succ fuel ih =>
    unfold digitsAux
    by_cases hn : n = 0
    · subst hn; simp [hacc, hv]
    · simp only [hn, if_false]
      have hd := digitChar_isDigit (n % 10) (Nat.mod_lt _ (by decide))
      have hacc' : AllDigits (digitChar (n % 10) :: acc) := by
        intro c hc
        rcases List.mem_cons.mp hc with rfl | hc
        · exact hd.1
        · exact hacc c hc
      have hv' : digitsVal (digitChar (n % 10) :: acc) 0 = some (v + (n % 10) * 10 ^ acc.length) := by
        simp only [digitsVal, hd.1, if_true, hd.2]
        have := digitsVal_shift acc 0 (n % 10) v hv
        simpa using this
      have hlt : n / 10 < fuel := by omega
      obtain ⟨h1, h2, h3⟩ := ih (n / 10) (digitChar (n % 10) :: acc) _ hlt hacc' hv'
      refine ⟨h1, ?_, fun _ => h3 (Or.inr (by simp))⟩
      rw [h2]
      congr 1
      have hdm := Nat.div_add_mod n 10
      simp only [List.length_cons, pow_succ]
      have e : n * 10 ^ acc.length = (10 * (n / 10) + n % 10) * 10 ^ acc.length := by rw [hdm]
      rw [e]; ring

theorem showNat_spec (n : Nat) :
    AllDigits (showNat n) ∧ digitsVal (showNat n) 0 = some n ∧ showNat n ≠ [] := by
  unfold showNat
  by_cases hn : n = 0
  · subst hn
    refine ⟨?_, by decide, by simp⟩
    intro c hc; simp at hc; subst hc; decide
  · simp only [hn, if_false]
    obtain ⟨h1, h2, h3⟩ := digitsAux_spec (n + 1) n [] 0 (by omega) (by intro c hc; simp at hc) (by simp [digitsVal])
    refine ⟨h1, ?_, h3 (Or.inl hn)⟩
    simpa using h2

theorem undDigitsVal_of_allDigits (cs : List Char) (prev : Bool) (a : Nat) (h : AllDigits cs)
    (hne : cs ≠ []) : undDigitsVal cs prev a = digitsVal cs a := by
  induction cs generalizing prev a with
  | nil => exact absurd rfl hne
  | cons c cs ih =>
    have hc : isAsciiDigit c = true := h c (by simp)
    have hcs : AllDigits cs := fun d hd => h d (by simp [hd])
    simp only [undDigitsVal, digitsVal, hc, if_true]
    by_cases hnil : cs = []
    · subst hnil; simp [undDigitsVal, digitsVal]
    · exact ih true _ hcs hnil

theorem isAsciiDigit_not_space (c : Char) (h : isAsciiDigit c = true) : isAsciiSpace c = false := by
  unfold isAsciiDigit at h
  unfold isAsciiSpace
  have h1 : 48 ≤ c.toNat := by simp at h; exact h.1
  have : c ≠ ' ' := by rintro rfl; revert h1; decide
  have : c ≠ '\t' := by rintro rfl; revert h1; decide
  have : c ≠ '\n' := by rintro rfl; revert h1; decide
  have : c ≠ '\r' := by rintro rfl; revert h1; decide
  simp [*]; omega

theorem stripLeft_of_head (c : Char) (cs : List Char) (h : isAsciiSpace c = false) :
    stripLeft (c :: cs) = c :: cs := by simp [stripLeft, h]

theorem strip_of_ends (cs : List Char) (hne : cs ≠ [])
    (hh : ∀ c, cs.head? = some c → isAsciiSpace c = false)
    (hl : ∀ c, cs.getLast? = some c → isAsciiSpace c = false) : strip cs = cs := by
  unfold strip
  cases cs with
  | nil => exact absurd rfl hne
  | cons c cs =>
    rw [stripLeft_of_head c cs (hh c rfl)]
    have hr : (c :: cs).reverse ≠ [] := by simp
    cases hrev : (c :: cs).reverse with
    | nil => exact absurd hrev hr
    | cons d ds =>
      have hd : (c :: cs).getLast? = some d := by
        rw [List.getLast?_eq_head?_reverse, hrev]; rfl
      rw [stripLeft_of_head d ds (hl d hd), ← hrev, List.reverse_reverse]

theorem allDigits_head_last (cs : List Char) (h : AllDigits cs) :
    (∀ c, cs.head? = some c → isAsciiSpace c = false) ∧
    (∀ c, cs.getLast? = some c → isAsciiSpace c = false) := by
  constructor
  · intro c hc
    exact isAsciiDigit_not_space c (h c (List.mem_of_mem_head? hc))
  · intro c hc
    exact isAsciiDigit_not_space c (h c (List.mem_of_mem_getLast? hc))

/-- **`int(str(n)) == n`** for every integer. -/
theorem pyInt_showInt (n : Int) : pyInt? (showInt n) = some n := by
  cases n with
  | ofNat n =>
    obtain ⟨hd, hv, hne⟩ := showNat_spec n
    obtain ⟨hh, hl⟩ := allDigits_head_last _ hd
    simp only [showInt, pyInt?]
    rw [strip_of_ends _ hne hh hl]
    have hu := undDigitsVal_of_allDigits (showNat n) false 0 hd hne
    cases hs : showNat n with
    | nil => exact absurd hs hne
    | cons c cs =>
      have hc : isAsciiDigit c = true := hd c (by simp [hs])
      have hm : c ≠ '-' := by rintro rfl; revert hc; decide
      have hp : c ≠ '+' := by rintro rfl; revert hc; decide
      rw [hs] at hu hv
      split
      · rename_i r heq; simp at heq; exact absurd heq.1 hm
      · rename_i r heq; simp at heq; exact absurd heq.1 hp
      · rename_i r _ _; simp [hu, hv]
  | negSucc n =>
    obtain ⟨hd, hv, hne⟩ := showNat_spec (n + 1)
    obtain ⟨_, hl⟩ := allDigits_head_last _ hd
    simp only [showInt, pyInt?]
    have hstrip : strip ('-' :: showNat (n + 1)) = '-' :: showNat (n + 1) := by
      apply strip_of_ends _ (by simp)
      · intro c hc; simp at hc; subst hc; decide
      · intro c hc
        rw [List.getLast?_cons_of_ne_nil hne] at hc
        exact hl c hc
    rw [hstrip]
    have hu := undDigitsVal_of_allDigits (showNat (n + 1)) false 0 hd hne
    simp only [hu, hv]
    congr 1

/-- the characters of `showInt n` are digits or '-' -/
theorem showInt_chars (n : Int) : ∀ c ∈ showInt n, isAsciiDigit c = true ∨ c = '-' := by
  intro c hc
  cases n with
  | ofNat n => exact Or.inl ((showNat_spec n).1 c hc)
  | negSucc n =>
    simp only [showInt, List.mem_cons] at hc
    rcases hc with rfl | hc
    · exact Or.inr rfl
    · exact Or.inl ((showNat_spec (n + 1)).1 c hc)

theorem showInt_ne_nil (n : Int) : showInt n ≠ [] := by
  cases n with
  | ofNat n => exact (showNat_spec n).2.2
  | negSucc n => simp [showInt]

theorem showInt_no_comma (n : Int) : ',' ∉ showInt n := by
  intro h
  rcases showInt_chars n ',' h with h | h
  · revert h; decide
  · revert h; decide

theorem showInt_no_space (n : Int) : ' ' ∉ showInt n := by
  intro h
  rcases showInt_chars n ' ' h with h | h
  · revert h; decide
  · revert h; decide

end Pagexml
