/-
C07: the exported tree, read by xmltodict (`X.toDict`) and parsed by the C01 parser model
(`C01.parseWord`, `parseLine`, `regionItem`, `Scan.parseScan`), gives the content of the document
(`contentWord` … `contentScan`).  The trees are the pure trees of `Model/C07Parse.lean`;
`Lemmas/C07Tree.lean` shows that the export returns exactly them.

The export writes its elements in another order than the source documents of C01 (`Unicode` before
`PlainText`, `TextEquiv` before the `Word`s, `custom` before `orientation`), so the dict of every
element is computed here with the grouping lemma of xmltodict (`toDict_groups`) and the parser
functions are evaluated on it; everything below the level of dicts (points, literals, the
region loop, reading order, metadata) is reused from the C01 development.
-/
import PagexmlModel.Lemmas.C07Read
import PagexmlModel.Lemmas.ScanParse

set_option linter.unusedSimpArgs false
set_option linter.unusedVariables false

namespace Pagexml.C07
open Pagexml.C06
open Pagexml.X (toDict toDictList attrEntries groupEntry groupsEntries collapse lookup Entries textVal isList)
open Pagexml.C01 (optAttr renderPoints textElem pointsStr boxOf txtOf ptsDict)

/-! ### the adapter -/

theorem toXs_eq_map (cs : List Xml) : toXs cs = cs.map toX := by
  induction cs with
  | nil => rfl
  | cons c cs ih => simp [toXs, ih]

theorem toX_mk (tag : String) (attrs : List (String × String)) (text : Option String) (children : List Xml) :
    toX ⟨tag, attrs, text, children⟩ = .elem tag attrs (text.getD "") (children.map toX) := by
  simp [toX, toXs_eq_map]

theorem toX_pointsElem (tag : String) (ps : Pts) : toX (pointsElem tag ps) = renderPoints tag ps := by
  simp [pointsElem, toX_mk, renderPoints, pointString, pointsStr]

theorem tag_toX (x : Xml) : (toX x).tag = x.tag := by
  cases x; simp [toX, X.Xml.tag]

/-! ### attributes as optional attributes -/

theorem idAttrs_eq (id : PyVal) : idAttrs id = optAttr "id" (idStr id) := by
  unfold idAttrs; cases idStr id <;> rfl
theorem customAttrs_eq (md : Meta) : customAttrs md = optAttr "custom" (customStr md) := by
  unfold customAttrs; cases customStr md <;> rfl
theorem confAttrs_eq (c : PyVal) : confAttrs c = optAttr "conf" (confStr c) := by
  unfold confAttrs; cases confStr c <;> rfl
theorem orientAttrs_eq (o : PyVal) : orientAttrs o = optAttr "orientation" (orientOf o) := by
  unfold orientAttrs orientOf; split <;> rfl

/-! ### TextEquiv -/

theorem hasTE_false (t : Option String) (c : PyVal) (h : hasTE t c = false) : t = none ∧ c = .none := by
  cases t <;> cases c <;> simp_all [hasTE]

def teXml (text : Option String) (conf : PyVal) : X.Xml :=
  .elem "TextEquiv" (optAttr "conf" (confStr conf)) ""
    [textElem "Unicode" (text.getD ""), textElem "PlainText" (text.getD "")]

def teEntriesE (text : Option String) (conf : PyVal) : Entries :=
  attrEntries (optAttr "conf" (confStr conf)) ++ [("Unicode", uniVal text), ("PlainText", uniVal text)]

theorem toDict_teXml (text : Option String) (conf : PyVal) : toDict (teXml text conf) = .dict (teEntriesE text conf) := by
  have e : teXml text conf = .elem "TextEquiv" (optAttr "conf" (confStr conf)) ""
      ([("Unicode", [textElem "Unicode" (text.getD "")]),
        ("PlainText", [textElem "PlainText" (text.getD "")])].flatMap (·.2)) := by
    simp [teXml]
  rw [e, C01.toDict_groups]
  · simp [groupsEntries, teEntriesE, groupEntry, C01.toDict_textElem, collapse, uniVal]
  · intro g hg x hx
    simp at hg
    rcases hg with rfl | rfl <;> (simp at hx; subst hx; rfl)
  · simp
  · intro g hg
    simp at hg
    rcases hg with rfl | rfl <;> simp

theorem toXs_teKids (text : Option String) (conf : PyVal) :
    (teKids text conf).map toX = if hasTE text conf then [teXml text conf] else [] := by
  unfold teKids
  split <;> simp [toX_mk, teXml, confAttrs_eq, textElem]

theorem lookup_te_unicode (text : Option String) (conf : PyVal) :
    lookup "Unicode" (teEntriesE text conf) = some (uniVal text) := by
  simp [teEntriesE, C01.lookup_append_or, C01.lookup_optAttr, X.lookup_cons]

theorem lookup_te_conf (text : Option String) (conf : PyVal) :
    lookup "@conf" (teEntriesE text conf) = (confStr conf).map X.PyVal.str := by
  simp [teEntriesE, C01.lookup_append_or, C01.lookup_optAttr, X.lookup_cons]

theorem parseTextEquiv_teE (text : Option String) (conf : PyVal) :
    C01.parseTextEquiv (.dict (teEntriesE text conf)) = .ok (txtOf (uniVal text)) := by
  simp [C01.parseTextEquiv, X.pyIn, X.pyGet, lookup_te_unicode, bind, Except.bind, Functor.map, Except.map]

theorem teEntriesE_isEmpty (text : Option String) (conf : PyVal) : (teEntriesE text conf).isEmpty = false := by
  simp [teEntriesE]

theorem parseConf_teE (text : Option String) (conf : PyVal) (h : confLit conf = true) :
    C01.parseConf (.dict (teEntriesE text conf))
      = .ok ((confStr conf).bind (fun c => if c = "" then none else some c)) := by
  unfold C01.parseConf
  simp only [X.truthy, teEntriesE_isEmpty, X.pyIn, X.pyGet, lookup_te_conf]
  unfold confLit at h
  cases hc : confStr conf with
  | none => simp [bind, Except.bind, pure, Except.pure]
  | some c =>
    simp only [hc] at h
    by_cases hce : c = ""
    · simp [hce, bind, Except.bind, pure, Except.pure]
    · have hf : C01.isFloatLit c = true := by simpa [hce] using h
      simp [hce, C01.pyFloat, hf, bind, Except.bind, pure, Except.pure, Functor.map, Except.map]

/-! ### Word -/

def teVals (text : Option String) (conf : PyVal) : List X.PyVal :=
  if hasTE text conf then [.dict (teEntriesE text conf)] else []

def wordEntriesE (w : Word) (ps : Pts) : Entries :=
  attrEntries (optAttr "id" (idStr w.h.id) ++ optAttr "custom" (customStr w.h.md))
    ++ groupEntry "Coords" [ptsDict ps] ++ groupEntry "TextEquiv" (teVals w.text w.conf)

theorem toDict_wordTree (w : Word) (ps : Pts) (hc : w.h.coords = some ps) :
    toDict (toX (wordTree w)) = .dict (wordEntriesE w ps) := by
  have e : toX (wordTree w) = .elem "Word" (optAttr "id" (idStr w.h.id) ++ optAttr "custom" (customStr w.h.md)) ""
      ([("Coords", [renderPoints "Coords" ps]),
        ("TextEquiv", if hasTE w.text w.conf then [teXml w.text w.conf] else [])].flatMap (·.2)) := by
    simp [wordTree, toX_mk, hc, coordsKids, toX_pointsElem, toXs_teKids, idAttrs_eq, customAttrs_eq]
  rw [e, C01.toDict_groups]
  · simp only [groupsEntries, wordEntriesE, teVals, List.map_cons, List.map_nil, List.flatMap_cons, List.flatMap_nil,
      List.append_nil, C01.toDict_renderPoints, ptsDict]
    cases hasTE w.text w.conf <;> simp [toDict_teXml, groupEntry]
  · intro g hg x hx
    simp at hg
    rcases hg with rfl | rfl
    · simp at hx; subst hx; rfl
    · split at hx <;> simp at hx
      subst hx; rfl
  · simp
  · intro g hg
    simp at hg
    rcases hg with rfl | rfl <;> simp

theorem parseWord_tree (w : Word) (h : rtWord w = true) :
    C01.parseWord (toDict (toX (wordTree w))) = .ok (contentWord w) := by
  simp only [rtWord, Bool.and_eq_true] at h
  obtain ⟨_, hp⟩ := h
  cases hco : w.h.coords with
  | none => simp [hco, ptsOk] at hp
  | some ps =>
    have hps : ps ≠ [] := by
      intro e; simp [hco, ptsOk, e] at hp
    rw [toDict_wordTree w ps hco]
    have hid : C01.optStrAttr "@id" (wordEntriesE w ps) = .ok (idStr w.h.id) :=
      C01.optStrAttr_of_lookup _ _ _ (by
        simp [wordEntriesE, C01.attrEntries_append, C01.lookup_append_or, C01.lookup_optAttr, C01.lookup_groupEntry])
    have hcl : lookup "Coords" (wordEntriesE w ps) = some (.dict [("@points", .str (pointsStr ps))]) := by
      simp [wordEntriesE, C01.attrEntries_append, C01.lookup_append_or, C01.lookup_optAttr, C01.lookup_groupEntry, collapse,
        ptsDict]
    have hte : lookup "TextEquiv" (wordEntriesE w ps)
        = if hasTE w.text w.conf then some (.dict (teEntriesE w.text w.conf)) else none := by
      simp [wordEntriesE, teVals, C01.attrEntries_append, C01.lookup_append_or, C01.lookup_optAttr, C01.lookup_groupEntry]
      cases hasTE w.text w.conf <;> simp [collapse]
    have hpc := C01.parseCoords_points ps hps
    unfold C01.parseWord
    simp only [hid, hte, X.pyGet, hcl]
    cases hh : hasTE w.text w.conf with
    | false =>
      obtain ⟨htn, hcn⟩ := hasTE_false _ _ hh
      simp [contentWord, hco, boxOpt, hpc, bind, Except.bind, pure, Except.pure, htn, hcn, confStr, hasTE]
    | true =>
      simp only [if_true, X.pyGet, lookup_te_unicode, C01.optStrAttr_of_lookup _ _ _ (lookup_te_conf w.text w.conf)]
      unfold uniVal textVal
      split <;> simp [contentWord, hh, hco, boxOpt, hpc, bind, Except.bind, pure, Except.pure, uniVal, textVal, *]

/-! ### TextLine -/

def wordVal (w : Word) : X.PyVal := toDict (toX (wordTree w))

theorem parseWords_gen (d : Entries) (ws : List Word) (hws : ∀ w ∈ ws, rtWord w = true)
    (hl : lookup "Word" d = if ws = [] then none else some (collapse (ws.map wordVal))) :
    C01.parseWords d = .ok (ws.map contentWord) := by
  unfold C01.parseWords
  rw [hl]
  match ws, hws with
  | [], _ => rfl
  | [w], hws =>
    have hp := parseWord_tree w (hws w (by simp))
    have hrt := hws w (by simp)
    simp only [rtWord, Bool.and_eq_true] at hrt
    cases hco : w.h.coords with
    | none => simp [hco, ptsOk] at hrt
    | some ps =>
      rw [toDict_wordTree w ps hco] at hp
      simp [collapse, wordVal, toDict_wordTree w ps hco, hp, bind, Except.bind, pure, Except.pure]
  | w1 :: w2 :: rest, hws =>
    have := C01.mapM_map_ok C01.parseWord wordVal contentWord (w1 :: w2 :: rest)
      (fun w hw => parseWord_tree w (hws w hw))
    simp only [collapse]
    simpa using this

def lineEntriesE (l : Line) (ps : Pts) : Entries :=
  attrEntries (optAttr "id" (idStr l.h.id) ++ optAttr "custom" (customStr l.h.md))
    ++ groupEntry "Coords" [ptsDict ps]
    ++ groupEntry "Baseline" ((l.baseline.map ptsDict).toList)
    ++ groupEntry "TextEquiv" (teVals l.text l.conf)
    ++ groupEntry "Word" (l.words.map wordVal)

theorem toDict_lineTree (l : Line) (ps : Pts) (hc : l.h.coords = some ps) :
    toDict (toX (lineTree l)) = .dict (lineEntriesE l ps) := by
  have e : toX (lineTree l) = .elem "TextLine" (optAttr "id" (idStr l.h.id) ++ optAttr "custom" (customStr l.h.md)) ""
      ([("Coords", [renderPoints "Coords" ps]),
        ("Baseline", (l.baseline.map (renderPoints "Baseline")).toList),
        ("TextEquiv", if hasTE l.text l.conf then [teXml l.text l.conf] else []),
        ("Word", l.words.map (fun w => toX (wordTree w)))].flatMap (·.2)) := by
    simp only [lineTree, toX_mk, hc, coordsKids, List.map_append, List.map_cons, List.map_nil, toX_pointsElem, toXs_teKids,
      idAttrs_eq, customAttrs_eq, List.flatMap_cons, List.flatMap_nil, List.append_nil, List.map_map, List.append_assoc]
    cases l.baseline <;> simp [baselineKids, toX_pointsElem, Function.comp_def]
  rw [e, C01.toDict_groups]
  · simp only [groupsEntries, lineEntriesE, teVals, wordVal, List.map_cons, List.map_nil, List.flatMap_cons, List.flatMap_nil,
      List.append_nil, C01.toDict_renderPoints, ptsDict, List.map_map, Function.comp_def, List.append_assoc]
    have hwv : wordVal = fun w => toDict (toX (wordTree w)) := rfl
    cases hasTE l.text l.conf <;> cases l.baseline <;>
      simp [toDict_teXml, groupEntry, C01.toDict_renderPoints, ptsDict, hwv]
  · intro g hg x hx
    simp at hg
    rcases hg with rfl | rfl | rfl | rfl
    · simp at hx; subst hx; rfl
    · cases hb : l.baseline <;> simp [hb] at hx
      subst hx; rfl
    · split at hx <;> simp at hx
      subst hx; rfl
    · simp at hx
      obtain ⟨w, _, rfl⟩ := hx
      rw [tag_toX]; rfl
  · simp
  · intro g hg
    simp at hg
    rcases hg with rfl | rfl | rfl | rfl <;> simp

theorem rtLine_parts (l : Line) (h : rtLine l = true) :
    (∃ ps, l.h.coords = some ps ∧ ps ≠ []) ∧ l.baseline ≠ some [] ∧ confLit l.conf = true ∧ ∀ w ∈ l.words, rtWord w = true := by
  simp only [rtLine, Bool.and_eq_true, List.all_eq_true, bne_iff_ne, ne_eq] at h
  obtain ⟨⟨⟨⟨_, hp⟩, hb⟩, hc⟩, hw⟩ := h
  refine ⟨?_, hb, hc, hw⟩
  cases hco : l.h.coords with
  | none => simp [hco, ptsOk] at hp
  | some ps => exact ⟨ps, rfl, by intro e; simp [hco, ptsOk, e] at hp⟩

theorem parseLine_tree (l : Line) (h : rtLine l = true) :
    C01.parseLine (toDict (toX (lineTree l))) = .ok (contentLine l) := by
  obtain ⟨⟨ps, hco, hps⟩, hba, hcf, hws⟩ := rtLine_parts l h
  rw [toDict_lineTree l ps hco]
  have hid : C01.optStrAttr "@id" (lineEntriesE l ps) = .ok (idStr l.h.id) :=
    C01.optStrAttr_of_lookup _ _ _ (by
      simp [lineEntriesE, C01.attrEntries_append, C01.lookup_append_or, C01.lookup_optAttr, C01.lookup_groupEntry])
  have hxh : lookup "@xheight" (lineEntriesE l ps) = none := by
    simp [lineEntriesE, C01.attrEntries_append, C01.lookup_append_or, C01.lookup_optAttr, C01.lookup_groupEntry]
  have hcl : lookup "Coords" (lineEntriesE l ps) = some (.dict [("@points", .str (pointsStr ps))]) := by
    simp [lineEntriesE, C01.attrEntries_append, C01.lookup_append_or, C01.lookup_optAttr, C01.lookup_groupEntry, collapse, ptsDict]
  have hbl : lookup "Baseline" (lineEntriesE l ps) = l.baseline.map ptsDict := by
    simp [lineEntriesE, C01.attrEntries_append, C01.lookup_append_or, C01.lookup_optAttr, C01.lookup_groupEntry]
    cases l.baseline <;> simp [collapse]
  have hte : lookup "TextEquiv" (lineEntriesE l ps)
      = if hasTE l.text l.conf then some (.dict (teEntriesE l.text l.conf)) else none := by
    simp [lineEntriesE, teVals, C01.attrEntries_append, C01.lookup_append_or, C01.lookup_optAttr, C01.lookup_groupEntry]
    cases hasTE l.text l.conf <;> cases l.baseline <;> simp [collapse]
  have hwl : lookup "Word" (lineEntriesE l ps)
      = if l.words = [] then none else some (collapse (l.words.map wordVal)) := by
    simp [lineEntriesE, teVals, C01.attrEntries_append, C01.lookup_append_or, C01.lookup_optAttr, C01.lookup_groupEntry]
  have hwords := parseWords_gen (lineEntriesE l ps) l.words hws hwl
  have hpc := C01.parseCoords_points ps hps
  unfold C01.parseLine
  simp only [hid, hxh, hte, hbl, X.pyGet, hcl, hwords, hpc]
  have hbne : ∀ bs, l.baseline = some bs → C01.parseBaseline (ptsDict bs) = .ok (boxOf bs) := by
    intro bs hb
    apply C01.parseBaseline_points
    intro e; apply hba; rw [hb, e]
  cases hh : hasTE l.text l.conf with
  | false =>
    cases hb : l.baseline <;>
      simp [contentLine, lineConf, hh, hb, hco, boxOpt, hbne, hpc, bind, Except.bind, pure, Except.pure, Functor.map, Except.map]
  | true =>
    cases hb : l.baseline <;>
      simp [contentLine, lineConf, hh, hb, hco, boxOpt, hbne, hpc, parseTextEquiv_teE, parseConf_teE _ _ hcf,
        bind, Except.bind, pure, Except.pure, Functor.map, Except.map]

theorem lineVal_dict (l : Line) (h : rtLine l = true) : ∃ d, toDict (toX (lineTree l)) = .dict d := by
  obtain ⟨⟨ps, hco, _⟩, _⟩ := rtLine_parts l h
  exact ⟨_, toDict_lineTree l ps hco⟩

def lineVal (l : Line) : X.PyVal := toDict (toX (lineTree l))

theorem parseLineList_gen (ls : List Line) (hne : ls ≠ []) (hok : ∀ l ∈ ls, rtLine l = true) :
    C01.parseLineList (collapse (ls.map lineVal)) = .ok (ls.map contentLine) := by
  match ls, hne, hok with
  | [l], _, hok =>
    have hp := parseLine_tree l (hok l (by simp))
    obtain ⟨d, hd⟩ := lineVal_dict l (hok l (by simp))
    rw [hd] at hp
    simp [collapse, lineVal, hd, C01.parseLineList, hp, bind, Except.bind, pure, Except.pure]
  | l1 :: l2 :: rest, _, hok =>
    have := C01.mapM_map_ok C01.parseLine lineVal contentLine (l1 :: l2 :: rest)
      (fun l hl => parseLine_tree l (hok l hl))
    simp only [collapse, C01.parseLineList]
    simpa using this

/-! ### TextRegion -/

/-- the TextLine step of the loop over the keys of a region dict -/
theorem step_lines_E (hull : List C03.Pt → Res (List C03.Pt))
    (sp : Option (Res (List (Option C01.Region)))) (acc : C01.RegAcc) (lines : List Line)
    (hok : ∀ l ∈ lines, rtLine l = true) (hacc : acc.lines = []) :
    (groupEntry "TextLine" (lines.map lineVal)).foldlM (C01.regionStep hull sp) acc
      = .ok { acc with lines := lines.map contentLine } := by
  rw [C01.foldlM_group]
  cases lines with
  | nil =>
    simp
    cases acc with
    | mk c t l s => simp at hacc; subst hacc; rfl
  | cons l ls =>
    have hp := parseLineList_gen (l :: ls) (by simp) hok
    simp only [List.map_cons, reduceCtorEq, if_false] at hp ⊢
    simp only [C01.regionStep]
    simp only [show ("TextLine" = "TextEquiv") = False from by decide, if_false, if_true]
    simp only [hp, bind, Except.bind]
    rfl

/-- the TextRegion step of the loop -/
theorem step_subs_E (hull : List C03.Pt → Res (List C03.Pt))
    (sp : Option (Res (List (Option C01.Region)))) (acc : C01.RegAcc) (vals : List X.PyVal) (rs : List C01.Region)
    (hsp : sp = if vals = [] then none else some (.ok (rs.map some)))
    (hnil : vals = [] → rs = []) (hacc : acc.subs = []) :
    (groupEntry "TextRegion" vals).foldlM (C01.regionStep hull sp) acc = .ok { acc with subs := rs } := by
  rw [C01.foldlM_group]
  cases vals with
  | nil =>
    simp [hnil rfl]
    cases acc with
    | mk c t l s => simp at hacc; subst hacc; rfl
  | cons v vs =>
    simp only [reduceCtorEq, if_false] at hsp
    simp only [reduceCtorEq, if_false]
    simp only [C01.regionStep]
    simp only [show ("TextRegion" = "TextEquiv") = False from by decide,
      show ("TextRegion" = "TextLine") = False from by decide, if_false, if_true, hsp]
    simp only [bind, Except.bind, pure, Except.pure]
    have : (rs.map some).filterMap id = rs := by simp [List.filterMap_map]
    rw [this]

def regionVals (rs : List Region) : List X.PyVal := (regionTrees rs).map (fun x => toDict (toX x))

def regionEntriesE (h : Hdr) (o : PyVal) (lines : List Line) (regions : List Region) (ps : Pts) : Entries :=
  attrEntries (optAttr "id" (idStr h.id) ++ optAttr "custom" (customStr h.md) ++ optAttr "orientation" (orientOf o))
    ++ groupEntry "Coords" [ptsDict ps]
    ++ groupEntry "TextLine" (lines.map lineVal)
    ++ groupEntry "TextRegion" (regionVals regions)

theorem toDict_regionTree (h : Hdr) (text : Option String) (o : PyVal) (ro : RO) (roa : PyVal)
    (lines : List Line) (regions : List Region) (ps : Pts) (hc : h.coords = some ps) :
    toDict (toX (regionTree ⟨h, text, o, ro, roa, lines, regions, []⟩)) = .dict (regionEntriesE h o lines regions ps) := by
  have e : toX (regionTree ⟨h, text, o, ro, roa, lines, regions, []⟩) = .elem "TextRegion"
      (optAttr "id" (idStr h.id) ++ optAttr "custom" (customStr h.md) ++ optAttr "orientation" (orientOf o)) ""
      ([("Coords", [renderPoints "Coords" ps]),
        ("TextLine", lines.map (fun l => toX (lineTree l))),
        ("TextRegion", (regionTrees regions).map toX)].flatMap (·.2)) := by
    simp [regionTree, toX_mk, hc, coordsKids, toX_pointsElem, idAttrs_eq, customAttrs_eq, orientAttrs_eq, Function.comp_def]
  rw [e, C01.toDict_groups]
  · have hlv : lineVal = fun l => toDict (toX (lineTree l)) := rfl
    simp [groupsEntries, regionEntriesE, regionVals, hlv, C01.toDict_renderPoints, ptsDict, Function.comp_def, groupEntry]
  · intro g hg x hx
    simp at hg
    rcases hg with rfl | rfl | rfl
    · simp at hx; subst hx; rfl
    · simp at hx
      obtain ⟨l, _, rfl⟩ := hx
      rw [tag_toX]; rfl
    · simp at hx
      obtain ⟨r, hr, rfl⟩ := hx
      rw [tag_toX]; exact tag_regionTrees regions r hr
  · simp
  · intro g hg
    simp at hg
    rcases hg with rfl | rfl | rfl <;> simp

theorem regionVals_isList (rs : List Region) : ∀ v ∈ regionVals rs, isList v = false := by
  intro v hv
  obtain ⟨x, _, rfl⟩ := List.mem_map.mp hv
  exact X.isList_toDict _

theorem orientOf_float (o : PyVal) (h : (!o.truthy || (okB (pyStr o) && C01.isFloatLit (pyStrT o))) = true) :
    ∀ s, orientOf o = some s → C01.isFloatLit s = true := by
  intro s hs
  unfold orientOf at hs
  split at hs
  · rename_i ht
    injection hs with hs
    subst hs
    have h' : okB (pyStr o) = true ∧ C01.isFloatLit (pyStrT o) = true := by simpa [ht] using h
    exact h'.2
  · cases hs

theorem regionItem_tree_mk (hull : List C03.Pt → Res (List C03.Pt)) (h : Hdr) (text : Option String) (o : PyVal) (ro : RO)
    (roa : PyVal) (lines : List Line) (regions : List Region) (tables : List Table)
    (hrt : rtRegion ⟨h, text, o, ro, roa, lines, regions, tables⟩ = true)
    (ih : (regionVals regions).mapM (C01.regionItem hull) = .ok ((contentRegions regions).map some)) :
    C01.regionItem hull (toDict (toX (regionTree ⟨h, text, o, ro, roa, lines, regions, tables⟩)))
      = .ok (some (contentRegion ⟨h, text, o, ro, roa, lines, regions, tables⟩)) := by
  simp only [rtRegion, Bool.and_eq_true, List.all_eq_true, List.isEmpty_iff] at hrt
  obtain ⟨⟨⟨⟨⟨_, hp⟩, hor⟩, hlines⟩, _⟩, rfl⟩ := hrt
  cases hco : h.coords with
  | none => simp [hco, ptsOk] at hp
  | some ps =>
    have hps : ps ≠ [] := by intro e; simp [hco, ptsOk, e] at hp
    rw [toDict_regionTree h text o ro roa lines regions ps hco]
    simp only [C01.regionItem]
    have hvn : regionVals regions = [] → contentRegions regions = [] := by
      intro hv
      cases regions with
      | nil => rfl
      | cons r rs => simp [regionVals, regionTrees] at hv
    have hlk : lookup "TextRegion" (regionEntriesE h o lines regions ps)
        = if regionVals regions = [] then none else some (collapse (regionVals regions)) := by
      simp [regionEntriesE, C01.attrEntries_append, C01.lookup_append_or, C01.lookup_optAttr, C01.lookup_groupEntry]
    have hsp : C01.subRegions hull (regionEntriesE h o lines regions ps)
        = if regionVals regions = [] then none else some (.ok ((contentRegions regions).map some)) := by
      rw [C01.subRegions_eq, hlk]
      by_cases hs : regionVals regions = []
      · simp [hs]
      · simp only [hs, if_false, Option.map_some]
        rw [C01.regionVal_collapse hull (regionVals regions) hs (regionVals_isList regions), ih]
    have hid : C01.optStrAttr "@id" (regionEntriesE h o lines regions ps) = .ok (idStr h.id) :=
      C01.optStrAttr_of_lookup _ _ _ (by
        simp [regionEntriesE, C01.attrEntries_append, C01.lookup_append_or, C01.lookup_optAttr, C01.lookup_groupEntry])
    have hol : lookup "@orientation" (regionEntriesE h o lines regions ps) = (orientOf o).map X.PyVal.str := by
      simp [regionEntriesE, C01.attrEntries_append, C01.lookup_append_or, C01.lookup_optAttr, C01.lookup_groupEntry]
    have hcl : lookup "Coords" (regionEntriesE h o lines regions ps) = some (ptsDict ps) := by
      simp [regionEntriesE, C01.attrEntries_append, C01.lookup_append_or, C01.lookup_optAttr, C01.lookup_groupEntry, collapse]
    have hfold : (regionEntriesE h o lines regions ps).foldlM
          (C01.regionStep hull (C01.subRegions hull (regionEntriesE h o lines regions ps)))
          { coords := some (boxOf ps), text := .none, lines := [], subs := [] }
        = .ok { coords := some (boxOf ps), text := .none, lines := lines.map contentLine,
                subs := contentRegions regions } := by
      rw [hsp]
      simp only [regionEntriesE, List.foldlM_append, C01.foldlM_attrs, bind, Except.bind]
      rw [C01.foldlM_regionStep_skip _ _ (groupEntry "Coords" _) _ (by
        intro kv hkv
        simp [groupEntry] at hkv
        subst hkv; simp)]
      simp only []
      rw [step_lines_E hull _ _ lines hlines rfl]
      simp only []
      rw [step_subs_E hull _ _ (regionVals regions) (contentRegions regions) rfl hvn rfl]
    unfold C01.assemble
    simp only [hid, hol, hcl, bind, Except.bind, contentRegion, boxOpt, hco, Option.map_some]
    have hpc := C01.parseCoords_points ps hps
    simp only [ptsDict] at hpc ⊢
    have hof := orientOf_float o hor
    cases hoo : orientOf o with
    | none =>
      simp only [Option.map_none, pure, Except.pure, hpc] at hfold ⊢
      rw [hfold]
      simp [C01.deriveIfNeeded, pure, Except.pure]
    | some s =>
      have hfs := hof s hoo
      simp only [Option.map_some, C01.strOf, C01.pyFloat, hfs, if_true, Functor.map, Except.map, pure, Except.pure,
        hpc] at hfold ⊢
      rw [hfold]
      simp [C01.deriveIfNeeded, pure, Except.pure]

mutual
theorem regionItem_tree (hull : List C03.Pt → Res (List C03.Pt)) : ∀ r : Region, rtRegion r = true →
    C01.regionItem hull (toDict (toX (regionTree r))) = .ok (some (contentRegion r))
  | ⟨h, text, o, ro, roa, lines, regions, tables⟩, hrt =>
    regionItem_tree_mk hull h text o ro roa lines regions tables hrt
      (regionItems_tree hull regions (by
        simp only [rtRegion, Bool.and_eq_true] at hrt
        exact hrt.1.2))
theorem regionItems_tree (hull : List C03.Pt → Res (List C03.Pt)) : ∀ rs : List Region, rtRegions rs = true →
    (regionVals rs).mapM (C01.regionItem hull) = .ok ((contentRegions rs).map some)
  | [], _ => rfl
  | r :: rs, hrt => by
    simp only [rtRegions, Bool.and_eq_true] at hrt
    have h1 := regionItem_tree hull r hrt.1
    have h2 := regionItems_tree hull rs hrt.2
    simp only [regionVals, regionTrees, List.map_cons, List.mapM_cons, contentRegions] at h2 ⊢
    rw [h1]
    simp [h2]
end

/-! ### the `@custom` entry `parse_custom_metadata` reads -/

theorem custom_wordEntries (w : Word) (ps : Pts) :
    lookup "@custom" (wordEntriesE w ps) = (customStr w.h.md).map X.PyVal.str := by
  simp [wordEntriesE, C01.attrEntries_append, C01.lookup_append_or, C01.lookup_optAttr, C01.lookup_groupEntry]

theorem custom_lineEntries (l : Line) (ps : Pts) :
    lookup "@custom" (lineEntriesE l ps) = (customStr l.h.md).map X.PyVal.str := by
  simp [lineEntriesE, C01.attrEntries_append, C01.lookup_append_or, C01.lookup_optAttr, C01.lookup_groupEntry]

theorem custom_regionEntries (h : Hdr) (o : PyVal) (lines : List Line) (regions : List Region) (ps : Pts) :
    lookup "@custom" (regionEntriesE h o lines regions ps) = (customStr h.md).map X.PyVal.str := by
  simp [regionEntriesE, C01.attrEntries_append, C01.lookup_append_or, C01.lookup_optAttr, C01.lookup_groupEntry]

/-! ### ReadingOrder -/

theorem at_append_inj (a k : String) : ("@" ++ a = "@" ++ k) ↔ a = k := by
  constructor
  · intro h
    have h1 := congrArg String.toList h
    simp only [String.toList_append, List.append_cancel_left_eq] at h1
    exact String.toList_inj.mp h1
  · rintro rfl; rfl

theorem lookup_attr_at (k : String) (l : List (String × String)) :
    lookup ("@" ++ k) (attrEntries l) = (lookupS k l).map X.PyVal.str := by
  induction l with
  | nil => rfl
  | cons kv l ih =>
    obtain ⟨a, v⟩ := kv
    simp only [attrEntries, List.map_cons, X.lookup_cons, lookupS, at_append_inj]
    split
    · rfl
    · exact ih

theorem lookup_attr_noat (k : String) (l : List (String × String)) (hk : k.toList.head? ≠ some '@') :
    lookup k (attrEntries l) = none :=
  X.lookup_none_of_not_mem _ _ (C01.not_mem_attr_keys _ _ hk)

def refPair (e : Int × PyVal) : Int × String := (e.1, strT e.2)

def ogEntriesE (ro : RO) (roa : PyVal) : Entries :=
  attrEntries (roaPairs roa) ++ groupEntry "RegionRefIndexed" ((ro.map refPair).map Scan.refDict)

theorem toX_refTree (e : Int × PyVal) : toX (refTree e) = Scan.renderRef (refPair e) := by
  simp [refTree, toX_mk, Scan.renderRef, refPair, C01.intStr, strOfInt]

theorem toDict_og (ro : RO) (roa : PyVal) (hne : ro ≠ []) :
    toDict (.elem "OrderedGroup" (roaPairs roa) "" ((ro.map refPair).map Scan.renderRef)) = .dict (ogEntriesE ro roa) := by
  have e : (ro.map refPair).map Scan.renderRef = [("RegionRefIndexed", (ro.map refPair).map Scan.renderRef)].flatMap (·.2) := by
    simp
  rw [e, C01.toDict_groups]
  · have hne' : ¬ (ro = []) := hne
    simp [groupsEntries, ogEntriesE, Scan.toDict_renderRef, Function.comp_def, groupEntry, hne']
  · intro g hg x hx
    simp at hg; subst hg
    simp at hx
    obtain ⟨a, w, _, rfl⟩ := hx
    rfl
  · simp
  · intro g hg
    simp at hg; subst hg; simp

/-- the value of the ReadingOrder entry of the Page dict -/
def roVals (ro : RO) (roa : PyVal) : List X.PyVal :=
  if !ro.isEmpty then [.dict [("OrderedGroup", .dict (ogEntriesE ro roa))]] else []

theorem toDict_readingOrderTrees (ro : RO) (roa : PyVal) :
    (readingOrderTrees ro roa).map (fun x => toDict (toX x)) = roVals ro roa := by
  unfold readingOrderTrees roVals
  cases hro : ro.isEmpty with
  | true => simp
  | false =>
    have hne : ro ≠ [] := by intro e; simp [e] at hro
    simp only [Bool.not_false, if_true, List.map_cons, List.map_nil, toX_mk, Option.getD_none, List.map_map]
    have e1 : (toX ∘ refTree) = (Scan.renderRef ∘ refPair) := by
      funext e; exact toX_refTree e
    rw [Scan.toDict_single_child _ _ (by simp [X.Xml.tag])]
    simp only [X.Xml.tag, e1, ← List.map_map, toDict_og ro roa hne]

theorem parseRO_E (ro : RO) (roa : PyVal) (hne : ro ≠ []) :
    C05.parseReadingOrder (.dict [("OrderedGroup", .dict (ogEntriesE ro roa))])
      = .ok (contentRO ro, contentRoAttrs ro roa) := by
  have hne' : ro.map refPair ≠ [] := by simpa using hne
  have hl : lookup "RegionRefIndexed" (ogEntriesE ro roa) = some (collapse ((ro.map refPair).map Scan.refDict)) := by
    simp [ogEntriesE, C01.lookup_append_or, lookup_attr_noat "RegionRefIndexed" _ (by decide), C01.lookup_groupEntry, hne]
  have hid : lookup "@id" (ogEntriesE ro roa) = (lookupS "id" (roaPairs roa)).map X.PyVal.str := by
    have := lookup_attr_at "id" (roaPairs roa)
    simp only [show "@" ++ "id" = "@id" from by decide] at this
    simp [ogEntriesE, C01.lookup_append_or, this, C01.lookup_groupEntry]
  have hcap : lookup "@caption" (ogEntriesE ro roa) = (lookupS "caption" (roaPairs roa)).map X.PyVal.str := by
    have := lookup_attr_at "caption" (roaPairs roa)
    simp only [show "@" ++ "caption" = "@caption" from by decide] at this
    simp [ogEntriesE, C01.lookup_append_or, this, C01.lookup_groupEntry]
  have hgroup : C05.listOrSingle (collapse ((ro.map refPair).map Scan.refDict)) = (ro.map refPair).map Scan.refDict := by
    match hm : ro.map refPair, hne' with
    | [e], _ => simp [collapse, Scan.refDict, C05.listOrSingle]
    | e1 :: e2 :: rest, _ => simp [collapse, C05.listOrSingle]
  have hro : ro.isEmpty = false := by cases ro <;> simp_all
  unfold C05.parseReadingOrder
  simp only [X.pyIn, X.pyGet, X.lookup_cons, hl, if_true, Option.isSome_some, bind, Except.bind,
    pure, Except.pure, hid, hcap, hgroup, Scan.foldlM_roStep]
  have hrp : refPair = fun e => (e.1, strT e.2) := rfl
  cases h1 : lookupS "id" (roaPairs roa) <;> cases h2 : lookupS "caption" (roaPairs roa) <;>
    simp [contentRO, contentRoAttrs, hro, h1, h2, C05.roOfEntries, hrp, C01.strOf, optAttrs, bind, Except.bind, pure,
      Except.pure, Function.comp_def]

theorem assocSet_int_not_mem (k : Int) (v : String) (l : List (Int × String)) (h : k ∉ l.map (·.1)) :
    C05.assocSet k v l = l ++ [(k, v)] := by
  induction l with
  | nil => rfl
  | cons x l ih =>
    obtain ⟨k', v'⟩ := x
    have h1 : k' ≠ k := fun e => h (by simp [e])
    have h2 : k ∉ l.map (·.1) := fun e => h (by simp at e ⊢; exact Or.inr e)
    simp [C05.assocSet, h1, ih h2]

theorem roOfEntries_nodup (es acc : List (Int × String)) (hnd : (es.map (·.1)).Nodup)
    (hdis : ∀ k ∈ es.map (·.1), k ∉ acc.map (·.1)) :
    es.foldl (fun ro e => C05.roInsert ro e.1 e.2) acc = acc ++ es := by
  induction es generalizing acc with
  | nil => simp
  | cons e es ih =>
    simp only [List.map_cons, List.nodup_cons] at hnd
    simp only [List.foldl_cons]
    have h1 : C05.roInsert acc e.1 e.2 = acc ++ [(e.1, e.2)] := assocSet_int_not_mem e.1 e.2 acc (hdis e.1 (by simp))
    rw [h1]
    rw [ih (acc ++ [(e.1, e.2)]) hnd.2 (by
      intro k hk
      simp only [List.map_append, List.map_cons, List.map_nil, List.mem_append, List.mem_singleton, not_or]
      refine ⟨hdis k (by simp [hk]), ?_⟩
      rintro rfl
      exact hnd.1 hk)]
    simp

/-- a reading order with pairwise different indices (a Python dict) comes back entry for entry -/
theorem contentRO_exact (ro : RO) (hnd : (ro.map (·.1)).Nodup) : contentRO ro = ro.map (fun e => (e.1, strT e.2)) := by
  unfold contentRO C05.roOfEntries
  rw [roOfEntries_nodup _ [] (by simpa [List.map_map, Function.comp_def] using hnd) (by simp)]
  simp

/-! ### Page -/

def pageAttrsE (s : Scan) : List (String × String) :=
  optAttr "imageFilename" (imageFilename s.h.md)
    ++ [("imageWidth", dimText (widthOf s.h)), ("imageHeight", dimText (heightOf s.h))] ++ scanOrientAttrs s.orientation

def pageEntriesE (s : Scan) : Entries :=
  attrEntries (pageAttrsE s) ++ groupEntry "ReadingOrder" (roVals s.ro s.roa) ++ groupEntry "TextRegion" (regionVals s.regions)

theorem optAttrs_eq (k : String) (o : Option String) : optAttrs k o = optAttr k o := by cases o <;> rfl

theorem toDict_pageTree (s : Scan) (ht : s.tables = []) : toDict (toX (pageTree s)) = .dict (pageEntriesE s) := by
  have e : toX (pageTree s) = .elem "Page" (pageAttrsE s) ""
      ([("ReadingOrder", (readingOrderTrees s.ro s.roa).map toX),
        ("TextRegion", (regionTrees s.regions).map toX)].flatMap (·.2)) := by
    simp [pageTree, toX_mk, ht, pageAttrsE, optAttrs_eq]
  rw [e, C01.toDict_groups]
  · have hne : (attrEntries (pageAttrsE s) ++ groupsEntries (List.map (fun g => (g.1, List.map toDict g.2))
        [("ReadingOrder", (readingOrderTrees s.ro s.roa).map toX), ("TextRegion", (regionTrees s.regions).map toX)])).isEmpty
        = false := by
      cases h : imageFilename s.h.md <;> simp [pageAttrsE, optAttr, attrEntries, h]
    rw [hne]
    simp [groupsEntries, pageEntriesE, toDict_readingOrderTrees, regionVals, Function.comp_def]
  · intro g hg x hx
    simp at hg
    rcases hg with rfl | rfl
    · simp at hx
      obtain ⟨r, hr, rfl⟩ := hx
      rw [tag_toX]; exact tag_readingOrderTrees _ _ r hr
    · simp at hx
      obtain ⟨r, hr, rfl⟩ := hx
      rw [tag_toX]; exact tag_regionTrees _ r hr
  · simp
  · intro g hg
    simp at hg
    rcases hg with rfl | rfl <;> simp

theorem lookup_pageAttr (s : Scan) (k : String) (hk : k.toList.head? = some '@') :
    lookup k (pageEntriesE s) = lookup k (attrEntries (pageAttrsE s)) := by
  have h1 : "ReadingOrder" ≠ k := by rintro rfl; revert hk; decide
  have h2 : "TextRegion" ≠ k := by rintro rfl; revert hk; decide
  simp [pageEntriesE, C01.lookup_append_or, C01.lookup_groupEntry, h1, h2]

theorem lookup_page_filename (s : Scan) :
    lookup "@imageFilename" (pageEntriesE s) = (imageFilename s.h.md).map X.PyVal.str := by
  rw [lookup_pageAttr s _ (by decide)]
  cases h : imageFilename s.h.md <;>
    simp [pageAttrsE, h, optAttr, attrEntries, X.lookup_cons, C01.attrEntries_append, C01.lookup_append_or,
      lookup_attr_noat]
  have := lookup_attr_at "imageFilename" (scanOrientAttrs s.orientation)
  simp only [show "@" ++ "imageFilename" = "@imageFilename" from by decide] at this
  unfold scanOrientAttrs at this ⊢
  split <;> simp [attrEntries, X.lookup_cons]

theorem lookup_page_width (s : Scan) :
    lookup "@imageWidth" (pageEntriesE s) = some (.str (dimText (widthOf s.h))) := by
  rw [lookup_pageAttr s _ (by decide)]
  cases h : imageFilename s.h.md <;> simp [pageAttrsE, h, optAttr, attrEntries, X.lookup_cons]

theorem lookup_page_height (s : Scan) :
    lookup "@imageHeight" (pageEntriesE s) = some (.str (dimText (heightOf s.h))) := by
  rw [lookup_pageAttr s _ (by decide)]
  cases h : imageFilename s.h.md <;> simp [pageAttrsE, h, optAttr, attrEntries, X.lookup_cons]

theorem dimText_eq (o : Option Int) : dimText o = C01.intStr (o.getD 0) := by
  cases o <;> rfl

theorem intStr_zero_iff (i : Int) : C01.intStr i = "0" ↔ i = 0 := by
  constructor
  · intro h
    have := C01.pyIntStr_intStr i
    rw [h] at this
    have h0 : C01.pyIntStr "0" = .ok 0 := by decide
    rw [h0] at this
    injection this with this
    exact this.symm
  · rintro rfl; decide

theorem scanId_E (fname : String) (s : Scan) :
    Scan.scanId fname (.dict (pageEntriesE s)) = .ok ((imageFilename s.h.md).getD fname) := by
  unfold Scan.scanId
  simp only [X.pyIn, X.pyGet, lookup_page_filename]
  cases imageFilename s.h.md <;> simp [bind, Except.bind, pure, Except.pure]

theorem scanSize_E (s : Scan) (md : List (String × Scan.MetaVal)) :
    Scan.scanSize (.dict (pageEntriesE s)) md
      = .ok (if sizedB s then
               (some (boxOf (Scan.pageBox ((widthOf s.h).getD 0) ((heightOf s.h).getD 0))),
                C05.assocSet "scan_height" (Scan.MetaVal.int ((heightOf s.h).getD 0))
                  (C05.assocSet "scan_width" (Scan.MetaVal.int ((widthOf s.h).getD 0)) md))
             else (none, md)) := by
  unfold Scan.scanSize sizedB
  simp only [X.pyGet, lookup_page_width, lookup_page_height, dimText_eq, C01.strOf, bind, Except.bind, pure, Except.pure]
  generalize (widthOf s.h).getD 0 = w
  generalize (heightOf s.h).getD 0 = h
  by_cases hw : w = 0
  · simp [hw, (intStr_zero_iff 0).mpr rfl]
  · have hw' : C01.intStr w ≠ "0" := fun e => hw ((intStr_zero_iff _).mp e)
    by_cases hh : h = 0
    · simp [hw, hh, hw', (intStr_zero_iff 0).mpr rfl]
    · have hh' : C01.intStr h ≠ "0" := fun e => hh ((intStr_zero_iff _).mp e)
      have hb : C01.coordsOfPts (Scan.pageBox w h) = .ok (boxOf (Scan.pageBox w h)) := by
        simp [C01.coordsOfPts, Scan.pageBox, C01.mkCoords_boxOf]
      simp [hw, hh, hw', hh', C01.pyIntStr_intStr, hb]

theorem lookup_page_groups (s : Scan) :
    lookup "TextRegion" (pageEntriesE s)
      = (if regionVals s.regions = [] then none else some (collapse (regionVals s.regions)))
    ∧ lookup "TableRegion" (pageEntriesE s) = none
    ∧ lookup "ReadingOrder" (pageEntriesE s)
      = (if s.ro.isEmpty then none else some (.dict [("OrderedGroup", .dict (ogEntriesE s.ro s.roa))])) := by
  have ha : ∀ k, k.toList.head? ≠ some '@' → lookup k (attrEntries (pageAttrsE s)) = none :=
    fun k hk => lookup_attr_noat k _ hk
  refine ⟨?_, ?_, ?_⟩
  · simp [pageEntriesE, C01.lookup_append_or, ha "TextRegion" (by decide), C01.lookup_groupEntry]
  · simp [pageEntriesE, C01.lookup_append_or, ha "TableRegion" (by decide), C01.lookup_groupEntry]
  · simp only [pageEntriesE, C01.lookup_append_or, ha "ReadingOrder" (by decide), C01.lookup_groupEntry, roVals]
    cases s.ro.isEmpty <;> simp [collapse]

theorem scanRegions_E (hull : List C03.Pt → Res (List C03.Pt)) (s : Scan) (h : rtRegions s.regions = true) :
    Scan.scanRegions hull (.dict (pageEntriesE s)) = .ok (contentRegions s.regions) := by
  unfold Scan.scanRegions
  simp only [X.pyIn, X.pyGet, (lookup_page_groups s).1]
  by_cases hr : regionVals s.regions = []
  · have : contentRegions s.regions = [] := by
      cases hs : s.regions with
      | nil => rfl
      | cons r rs => simp [hs, regionVals, regionTrees] at hr
    simp [hr, this, bind, Except.bind, pure, Except.pure]
  · simp only [hr, if_false, Option.isSome_some, if_true, bind, Except.bind, pure, Except.pure]
    rw [C01.regionVal_collapse hull _ hr (regionVals_isList _), regionItems_tree hull _ h]
    simp [List.filterMap_map]

theorem scanTables_E (hull : List C03.Pt → Res (List C03.Pt)) (s : Scan) :
    Scan.scanTables hull (.dict (pageEntriesE s)) = .ok [] := by
  unfold Scan.scanTables
  simp [X.pyIn, (lookup_page_groups s).2.1, bind, Except.bind, pure, Except.pure]

theorem scanRO_E (s : Scan) :
    Scan.scanRO (.dict (pageEntriesE s)) = .ok (contentRO s.ro, contentRoAttrs s.ro s.roa) := by
  unfold Scan.scanRO
  simp only [X.pyIn, X.pyGet, (lookup_page_groups s).2.2]
  cases hro : s.ro.isEmpty with
  | true =>
    have : s.ro = [] := List.isEmpty_iff.mp hro
    simp [this, contentRO, contentRoAttrs, C05.roOfEntries, bind, Except.bind, pure, Except.pure]
  | false =>
    have hne : s.ro ≠ [] := by intro e; simp [e] at hro
    simp [X.truthy, bind, Except.bind, pure, Except.pure, parseRO_E s.ro s.roa hne]

/-! ### the document -/

theorem toX_metadataTree (md : Meta) : toX (metadataTree md) = Scan.renderMeta (srcMetaOf md) := by
  have hf : ∀ f, (mdFieldTrees md f).map toX = Scan.optText f ((alookup (.s f) md).map pyStrT) := by
    intro f
    unfold mdFieldTrees
    cases alookup (.s f) md <;> simp [toX_mk, Scan.optText, textElem]
  simp [metadataTree, toX_mk, Scan.renderMeta, srcMetaOf, hf, Scan.optText]

def rootAttrsE : List (String × String) :=
  [("xmlns", Gen.pageNamespace), ("xmlns:xsi", xsiNamespace), ("xsi:schemaLocation", Gen.schemaLocation)]

def docEntriesE (s : Scan) : Entries :=
  attrEntries rootAttrsE ++ groupEntry "Metadata" [toDict (Scan.renderMeta (srcMetaOf s.h.md))]
    ++ groupEntry "Page" [.dict (pageEntriesE s)]

theorem docX_scanTree (s : Scan) :
    docX (scanTree s) = .elem "PcGts" rootAttrsE "" [Scan.renderMeta (srcMetaOf s.h.md), toX (pageTree s)] := by
  simp [docX, scanTree, toXs, toX_metadataTree, rootAttrsE, serialAttr]

theorem toDict_docX (s : Scan) (ht : s.tables = []) : toDict (docX (scanTree s)) = .dict (docEntriesE s) := by
  have e : docX (scanTree s) = .elem "PcGts" rootAttrsE ""
      ([("Metadata", [Scan.renderMeta (srcMetaOf s.h.md)]), ("Page", [toX (pageTree s)])].flatMap (·.2)) := by
    rw [docX_scanTree]; simp
  rw [e, C01.toDict_groups]
  · simp [groupsEntries, docEntriesE, groupEntry, collapse, toDict_pageTree s ht, rootAttrsE, attrEntries]
  · intro g hg x hx
    simp at hg
    rcases hg with rfl | rfl
    · simp at hx; subst hx; rfl
    · simp at hx; subst hx; rw [tag_toX]; rfl
  · simp
  · intro g hg
    simp at hg
    rcases hg with rfl | rfl <;> simp

theorem scanMeta_congr (d d' : Entries) (h1 : lookup "Metadata" d = lookup "Metadata" d')
    (h2 : lookup "xmlns" d = lookup "xmlns" d') : Scan.scanMeta (.dict d) = Scan.scanMeta (.dict d') := by
  unfold Scan.scanMeta
  simp only [X.pyIn, X.pyGet, h1, h2]

theorem scanMeta_E (s : Scan) : Scan.scanMeta (.dict (docEntriesE s)) = .ok (Scan.mirrorMeta (some (srcMetaOf s.h.md))) := by
  let p0 : Scan.SrcPage :=
    { ns2019 := true, mdata := some (srcMetaOf s.h.md), imageFilename := none, width := 0, height := 0, roFirst := false,
      ro := .absent, regions := [], tables := [] }
  have h := Scan.scanMeta_ok p0
  rw [← h]
  apply scanMeta_congr
  · simp [docEntriesE, Scan.docEntries, Scan.metaVals, p0, rootAttrsE, attrEntries, X.lookup_cons, C01.lookup_append_or,
      C01.lookup_groupEntry, collapse]
  · simp [docEntriesE, Scan.docEntries, Scan.metaVals, p0, rootAttrsE, attrEntries, X.lookup_cons, C01.lookup_append_or,
      C01.lookup_groupEntry]

/-- **the parser on the exported tree of a scan of the property** -/
theorem parseScan_scanTree (hull : List C03.Pt → Res (List C03.Pt)) (fname : String) (s : Scan) (h : rtScan s = true) :
    Scan.parseScan hull fname (X.toDictDoc (docX (scanTree s))) = .ok (contentScan fname s) := by
  have hreg : rtRegions s.regions = true := by
    simp only [rtScan, Bool.and_eq_true] at h
    exact h.1.2
  have ht : s.tables = [] := by
    simp only [rtScan, Bool.and_eq_true, List.isEmpty_iff] at h
    exact h.2
  have hpage : lookup "Page" (docEntriesE s) = some (.dict (pageEntriesE s)) := by
    simp [docEntriesE, rootAttrsE, attrEntries, X.lookup_cons, C01.lookup_append_or, C01.lookup_groupEntry, collapse]
  have htag : (docX (scanTree s)).tag = "PcGts" := rfl
  unfold Scan.parseScan X.toDictDoc
  simp only [htag, X.lookup_cons, if_true, toDict_docX s ht, bind, Except.bind, pure, Except.pure, scanMeta_E,
    X.pyGet, hpage, scanId_E, scanSize_E, scanRegions_E hull s hreg, scanTables_E, scanRO_E]
  cases hs : sizedB s with
  | true =>
    simp only [if_true, contentScan, hs, List.map_nil]
    have := Scan.scan_metadata_chain (some (srcMetaOf s.h.md)) true ((widthOf s.h).getD 0) ((heightOf s.h).getD 0)
      ((imageFilename s.h.md).getD fname) fname
    simp only [if_true] at this
    rw [this]
  | false =>
    simp only [Bool.false_eq_true, if_false, contentScan, hs, List.map_nil]
    have := Scan.scan_metadata_chain (some (srcMetaOf s.h.md)) false ((widthOf s.h).getD 0) ((heightOf s.h).getD 0)
      ((imageFilename s.h.md).getD fname) fname
    simp only [Bool.false_eq_true, if_false] at this
    rw [this]

/-! ### the quantifier implies that the export succeeds -/

theorem rtWord_exp (w : Word) (h : rtWord w = true) : expWord w = true := by
  simp only [rtWord, Bool.and_eq_true] at h; exact h.1

theorem rtLine_exp (l : Line) (h : rtLine l = true) : expLine l = true := by
  simp only [rtLine, Bool.and_eq_true, List.all_eq_true] at h
  obtain ⟨⟨⟨⟨⟨h1, h2⟩, _⟩, _⟩, _⟩, hw⟩ := h
  simp only [expLine, Bool.and_eq_true, List.all_eq_true]
  exact ⟨⟨h1, h2⟩, fun w hw' => rtWord_exp w (hw w hw')⟩

mutual
theorem rtRegion_exp : ∀ r : Region, rtRegion r = true → expRegion r = true
  | ⟨h, text, o, ro, roa, lines, regions, tables⟩, hrt => by
    simp only [rtRegion, Bool.and_eq_true, List.all_eq_true, List.isEmpty_iff] at hrt
    obtain ⟨⟨⟨⟨⟨h1, _⟩, h3⟩, h4⟩, h5⟩, rfl⟩ := hrt
    simp only [expRegion, Bool.and_eq_true, List.all_eq_true]
    refine ⟨⟨⟨⟨h1, ?_⟩, fun l hl => rtLine_exp l (h4 l hl)⟩, rtRegions_exp regions h5⟩, by simp⟩
    cases ht : o.truthy with
    | false => simp
    | true =>
      have : (okB (pyStr o) && C01.isFloatLit (pyStrT o)) = true := by simpa [ht] using h3
      simp only [Bool.and_eq_true] at this
      simp [this.1]
theorem rtRegions_exp : ∀ rs : List Region, rtRegions rs = true → expRegions rs = true
  | [], _ => rfl
  | r :: rs, h => by
    simp only [rtRegions, Bool.and_eq_true] at h
    simp only [expRegions, Bool.and_eq_true]
    exact ⟨rtRegion_exp r h.1, rtRegions_exp rs h.2⟩
end

mutual
theorem rtRegion_noTables : ∀ r : Region, rtRegion r = true → noTables r = true
  | ⟨h, text, o, ro, roa, lines, regions, tables⟩, hrt => by
    simp only [rtRegion, Bool.and_eq_true] at hrt
    simp only [noTables, Bool.and_eq_true]
    exact ⟨hrt.2, rtRegions_noTables regions hrt.1.2⟩
theorem rtRegions_noTables : ∀ rs : List Region, rtRegions rs = true → noTablesL rs = true
  | [], _ => rfl
  | r :: rs, h => by
    simp only [rtRegions, Bool.and_eq_true] at h
    simp only [noTablesL, Bool.and_eq_true]
    exact ⟨rtRegion_noTables r h.1, rtRegions_noTables rs h.2⟩
end

theorem rtScan_exp (s : Scan) (h : rtScan s = true) : expScan s = true := by
  simp only [rtScan, Bool.and_eq_true, List.isEmpty_iff] at h
  obtain ⟨⟨⟨⟨⟨⟨⟨⟨⟨h1, h2⟩, h3⟩, h4⟩, h5⟩, h6⟩, h7⟩, h8⟩, h9⟩, h10⟩ := h
  simp only [expScan, Bool.and_eq_true, h10, List.all_nil]
  exact ⟨⟨⟨⟨⟨⟨⟨⟨⟨h1, h2⟩, h3⟩, h4⟩, h5⟩, h6⟩, h7⟩, h8⟩, rtRegions_exp _ h9⟩, trivial⟩

theorem rtScan_textHierarchy (s : Scan) (h : rtScan s = true) : s.tables = [] ∧ noTablesL s.regions = true := by
  simp only [rtScan, Bool.and_eq_true, List.isEmpty_iff] at h
  refine ⟨h.2, ?_⟩
  have hreg := h.1.2
  clear h
  revert hreg
  generalize s.regions = rs
  exact rtRegions_noTables rs

end Pagexml.C07
