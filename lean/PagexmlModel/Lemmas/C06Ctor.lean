/-
C06: the constructors produce well-formed (and JSON-valued) documents from well-formed
(JSON-valued) parts.
-/
import PagexmlModel.Lemmas.C06
import PagexmlModel.Lemmas.C06Enc
import PagexmlModel.Model.C06Ctor

set_option linter.unusedSimpArgs false
set_option linter.unusedVariables false
set_option linter.unusedSectionVars false

namespace Pagexml.C06

/-! ### association lists -/

theorem alookup_setKey (k k' : Key) (v : PyVal) (m : List (Key × PyVal)) :
    alookup k (setKey k' v m) = if k' = k then some v else alookup k m := by
  induction m with
  | nil => simp [setKey]
  | cons x m ih =>
    obtain ⟨k'', v''⟩ := x
    simp only [setKey]
    by_cases h1 : k'' = k'
    · subst h1; simp only [if_true, alookup_cons]; split <;> rfl
    · simp only [h1, if_false, alookup_cons, ih]
      by_cases h2 : k'' = k
      · subst h2; simp [h1, Ne.symm h1]
      · simp [h2]

theorem stableKvs_setKey (k : String) (v : PyVal) (m : List (Key × PyVal)) (hv : v.stable = true)
    (hm : PyVal.stableKvs m = true) : PyVal.stableKvs (setKey (.s k) v m) = true := by
  induction m with
  | nil => simp [setKey, PyVal.stableKvs, hv]
  | cons x m ih =>
    obtain ⟨k', v'⟩ := x
    cases k' with
    | i n => simp [PyVal.stableKvs] at hm
    | s k' =>
      simp only [PyVal.stableKvs, Bool.and_eq_true] at hm
      simp only [setKey]
      split
      · simp [PyVal.stableKvs, hv, hm.2]
      · simp [PyVal.stableKvs, hm.1, ih hm.2]

theorem stable_of_lookup (k : Key) (m : List (Key × PyVal)) (v : PyVal) (hm : PyVal.stableKvs m = true)
    (h : alookup k m = some v) : v.stable = true := by
  induction m with
  | nil => simp at h
  | cons x m ih =>
    obtain ⟨k', v'⟩ := x
    cases k' with
    | i n => simp [PyVal.stableKvs] at hm
    | s k' =>
      simp only [PyVal.stableKvs, Bool.and_eq_true] at hm
      simp only [alookup_cons] at h
      split at h
      · cases h; exact hm.1
      · exact ih hm.2 h

theorem stableList_mem (xs : List PyVal) (h : PyVal.stableList xs = true) : ∀ x ∈ xs, x.stable = true := by
  induction xs with
  | nil => simp
  | cons y ys ih =>
    simp only [PyVal.stableList, Bool.and_eq_true] at h
    intro x hx
    rcases List.mem_cons.mp hx with rfl | hx
    · exact h.1
    · exact ih h.2 x hx

/-! ### headers: parents and type lists -/

/-- the parent types that occur: their `<type>_id` key is none of the other keys written -/
def ParentTag (t : String) : Prop := t ++ "_id" ≠ "parent_type" ∧ t ++ "_id" ≠ "type"

theorem parentTag_line : ParentTag "line" := by unfold ParentTag; decide
theorem parentTag_cell : ParentTag "table_cell" := by unfold ParentTag; decide
theorem parentTag_region : ParentTag "text_region" := by unfold ParentTag; decide
theorem parentTag_column : ParentTag "column" := by unfold ParentTag; decide
theorem parentTag_page : ParentTag "page" := by unfold ParentTag; decide
theorem parentTag_scan : ParentTag "scan" := by unfold ParentTag; decide

theorem Hdr.hasParent_setParent (t : String) (i : PyVal) (h : Hdr) (ht : ParentTag t) :
    (h.setParent t i).hasParent t i = true := by
  simp only [Hdr.hasParent, Hdr.setParent, Hdr.setMeta, alookup_setKey, Key.s.injEq, ht.1, if_false,
    Bool.and_eq_true, beq_iff_eq]
  refine ⟨⟨?_, ?_⟩, ?_⟩
  · simp
  · split <;> simp
  · simp

theorem Hdr.ok_setParent (base : List String) (t : String) (i : PyVal) (h : Hdr) :
    (h.setParent t i).ok base = h.ok base := rfl

theorem Hdr.ok_setMeta (base : List String) (k : String) (v : PyVal) (h : Hdr) :
    (h.setMeta k v).ok base = h.ok base := rfl

theorem Hdr.jv_setMeta (k : String) (v : PyVal) (h : Hdr) (hv : v.stable = true) (hh : h.jv = true) :
    (h.setMeta k v).jv = true := by
  simp only [Hdr.jv, Bool.and_eq_true] at hh ⊢
  exact ⟨hh.1, stableKvs_setKey k v h.md hv hh.2⟩

theorem stable_str (s : String) : (PyVal.str s).stable = true := by simp [PyVal.stable]

theorem Hdr.jv_setParent (t : String) (i : PyVal) (h : Hdr) (hi : i.stable = true) (hh : h.jv = true) :
    (h.setParent t i).jv = true := by
  unfold Hdr.setParent
  exact Hdr.jv_setMeta _ _ _ hi (Hdr.jv_setMeta _ _ _ hi (Hdr.jv_setMeta _ _ _ (stable_str t) hh))

theorem addTypes_inv (base : List String) : ∀ (ts cur : List String), base.isPrefixOf cur = true → cur.Nodup →
    base.isPrefixOf (addTypes cur ts) = true ∧ (addTypes cur ts).Nodup := by
  intro ts
  induction ts with
  | nil => intro cur hp hn; exact ⟨hp, hn⟩
  | cons t ts ih =>
    intro cur hp hn
    simp only [addTypes]
    split
    · exact ih cur hp hn
    · rename_i hnot
      apply ih
      · obtain ⟨ex, rfl⟩ := List.isPrefixOf_iff_prefix.mp hp
        rw [List.isPrefixOf_iff_prefix]
        exact ⟨ex ++ [t], by simp⟩
      · rw [List.nodup_append]
        refine ⟨hn, by simp, ?_⟩
        intro a ha b hb
        simp only [List.mem_singleton] at hb
        subst hb
        intro e; subst e; exact hnot ha

theorem typesOk_addTypes (base ts : List String) (hn : base.Nodup) : typesOk base (addTypes base ts) = true := by
  have h := addTypes_inv base ts base (by simp) hn
  simp [typesOk, h.1, h.2]

theorem nodup_baseTypes (c : String) (h : c ∉ ["structure_doc", "physical_structure_doc", "pagexml_doc"]) :
    (baseTypes c).Nodup := by
  simp only [List.mem_cons, List.not_mem_nil, or_false, not_or] at h
  simp [baseTypes, h.1, h.2.1, h.2.2, Ne.symm h.1, Ne.symm h.2.1, Ne.symm h.2.2]

theorem nodup_word : (baseTypes "word").Nodup := by decide
theorem nodup_line : (baseTypes "line").Nodup := by decide
theorem nodup_cell : (baseTypes "table_cell").Nodup := by decide
theorem nodup_row : (baseTypes "table_row").Nodup := by decide
theorem nodup_table : (baseTypes "table_region").Nodup := by decide
theorem nodup_region : (regionBase "text_region").Nodup := by decide
theorem nodup_column : (regionBase "column").Nodup := by decide
theorem nodup_page : (regionBase "page").Nodup := by decide
theorem nodup_scan : (regionBase "scan").Nodup := by decide

theorem mkHdr_ok (base ts : List String) (id : PyVal) (m : Meta) (coords : Option Pts) (hn : base.Nodup)
    (hc : coords ≠ some []) :
    Hdr.ok base { id := id, types := addTypes base ts, md := m, coords := coords } = true := by
  simp [Hdr.ok, typesOk_addTypes base ts hn, hc]

/-! ### coordinates read from JSON are never empty -/

theorem mkCoords_ne (ps : List C03.Pt) (c : C03.Coords) (h : C03.mkCoords ps = .ok c) : c.points = ps ∧ ps ≠ [] := by
  cases ps with
  | nil => simp [C03.mkCoords, C03.minL] at h; cases h
  | cons p ps =>
    refine ⟨?_, by simp⟩
    unfold C03.mkCoords at h
    simp only [C03.minL, C03.maxL, List.map_cons, ok_bind, pure_eq_ok] at h
    cases h; rfl


/-! ### inversion of the Except monad -/

theorem bind_ok {α β} {x : Res α} {f : α → Res β} {b : β} (h : (x >>= f) = .ok b) :
    ∃ a, x = .ok a ∧ f a = .ok b := by
  cases x with
  | error e => cases h
  | ok a => exact ⟨a, rfl, h⟩

theorem mapM_ok_mem {α β} (f : α → Res β) : ∀ (xs : List α) (ys : List β), xs.mapM f = .ok ys →
    ∀ y ∈ ys, ∃ x ∈ xs, f x = .ok y := by
  intro xs
  induction xs with
  | nil => intro ys h y hy; simp [List.mapM_nil] at h; cases h; simp at hy
  | cons x xs ih =>
    intro ys h y hy
    rw [List.mapM_cons] at h
    obtain ⟨b, hb, h⟩ := bind_ok h
    obtain ⟨bs, hbs, h⟩ := bind_ok h
    cases h
    rcases List.mem_cons.mp hy with rfl | hy
    · exact ⟨x, by simp, hb⟩
    · obtain ⟨x', hx', hfx⟩ := ih bs hbs y hy
      exact ⟨x', by simp [hx'], hfx⟩

theorem asMeta_stable (md : PyVal) (m : Meta) (h : asMeta md = .ok m) (hs : md.stable = true) :
    PyVal.stableKvs m = true := by
  cases md <;> simp only [asMeta] at h
  case dict kvs => cases h; simpa [PyVal.stable] using hs
  all_goals (split at h <;> cases h; rfl)

/-! ### words -/

@[simp] theorem Hdr.setParent_id (t : String) (i : PyVal) (h : Hdr) : (h.setParent t i).id = h.id := rfl
@[simp] theorem Hdr.setMeta_id (k : String) (v : PyVal) (h : Hdr) : (h.setMeta k v).id = h.id := rfl

theorem Hdr.hasMeta_setMeta_ne (k k' : String) (v v' : PyVal) (h : Hdr) (hk : k' ≠ k) :
    (h.setMeta k' v').hasMeta k v = h.hasMeta k v := by
  simp [Hdr.hasMeta, Hdr.setMeta, alookup_setKey, hk]

theorem Hdr.hasMeta_setParent (k : String) (v : PyVal) (t : String) (i : PyVal) (h : Hdr)
    (h1 : "parent_type" ≠ k) (h2 : "parent_id" ≠ k) (h3 : t ++ "_id" ≠ k) :
    (h.setParent t i).hasMeta k v = h.hasMeta k v := by
  unfold Hdr.setParent
  rw [Hdr.hasMeta_setMeta_ne _ _ _ _ _ h3, Hdr.hasMeta_setMeta_ne _ _ _ _ _ h2, Hdr.hasMeta_setMeta_ne _ _ _ _ _ h1]

theorem Word.ok_setParent (t : String) (i : PyVal) (w : Word) : (w.setParent t i).ok = w.ok := rfl

theorem Word.jv_setParent (t : String) (i : PyVal) (w : Word) (hi : i.stable = true) (hw : w.jv = true) :
    (w.setParent t i).jv = true := by
  simp only [Word.jv, Bool.and_eq_true] at hw ⊢
  exact ⟨Hdr.jv_setParent t i w.h hi hw.1, hw.2⟩

/-- **PageXMLWord(...)** yields a well-formed word -/
theorem mkWord_ok (id ty md text : PyVal) (coords : Option Pts) (conf : PyVal) (w : Word)
    (h : mkWord id ty md text coords conf = .ok w) (hc : coords ≠ some []) : w.ok = true := by
  unfold mkWord at h
  obtain ⟨ts, _, h⟩ := bind_ok h
  obtain ⟨m, _, h⟩ := bind_ok h
  obtain ⟨t, _, h⟩ := bind_ok h
  cases h
  exact mkHdr_ok _ ts id m coords nodup_word hc

theorem mkWord_jv (id ty md text : PyVal) (coords : Option Pts) (conf : PyVal) (w : Word)
    (h : mkWord id ty md text coords conf = .ok w) (hid : id.stable = true) (hmd : md.stable = true)
    (hconf : conf.stable = true) : w.jv = true := by
  unfold mkWord at h
  obtain ⟨ts, _, h⟩ := bind_ok h
  obtain ⟨m, hm, h⟩ := bind_ok h
  obtain ⟨t, _, h⟩ := bind_ok h
  cases h
  simp [Word.jv, Hdr.jv, hid, hconf, asMeta_stable md m hm hmd]

/-! ### lines -/

theorem Line.ok_setParent (t : String) (i : PyVal) (l : Line) (ht : ParentTag t) : (l.setParent t i).ok = l.ok := by
  simp only [Line.ok, Line.setParent, Hdr.ok_setParent, Hdr.setParent_id,
    Hdr.hasMeta_setParent "type" _ t i l.h (by decide) (by decide) ht.2]
  rfl

theorem Line.jv_setParent (t : String) (i : PyVal) (l : Line) (hi : i.stable = true) (hl : l.jv = true) :
    (l.setParent t i).jv = true := by
  simp only [Line.jv, Bool.and_eq_true] at hl ⊢
  obtain ⟨⟨⟨⟨⟨h1, h2⟩, h3⟩, h4⟩, h5⟩, h6⟩ := hl
  exact ⟨⟨⟨⟨⟨Hdr.jv_setParent t i l.h hi h1, h2⟩, h3⟩, h4⟩, h5⟩, h6⟩

theorem Line.jv_setParentage (l : Line) (hl : l.jv = true) : l.setParentage.jv = true := by
  simp only [Line.jv, Bool.and_eq_true, List.all_eq_true] at hl ⊢
  obtain ⟨⟨⟨⟨⟨h1, h2⟩, h3⟩, h4⟩, h5⟩, h6⟩ := hl
  refine ⟨⟨⟨⟨⟨h1, h2⟩, h3⟩, h4⟩, h5⟩, ?_⟩
  intro w hw
  simp only [Line.setParentage, List.mem_map] at hw
  obtain ⟨w0, hw0, rfl⟩ := hw
  simp only [Hdr.jv, Bool.and_eq_true] at h1
  exact Word.jv_setParent _ _ w0 h1.1 (h6 w0 hw0)

theorem words_parent_ok (i : PyVal) (words : List Word) (h : ∀ w ∈ words, w.ok = true) :
    ∀ w ∈ words.map (Word.setParent "line" i), w.ok = true ∧ w.h.hasParent "line" i = true := by
  intro w hw
  simp only [List.mem_map] at hw
  obtain ⟨w0, hw0, rfl⟩ := hw
  exact ⟨h w0 hw0, Hdr.hasParent_setParent "line" i w0.h parentTag_line⟩

/-- **PageXMLTextLine(...)** on well-formed words yields a well-formed line -/
theorem mkLine_ok (id ty md : PyVal) (coords baseline : Option Pts) (text conf : PyVal) (words : List Word)
    (ro : RO) (roa xheight : PyVal) (l : Line)
    (h : mkLine id ty md coords baseline text conf words ro roa xheight = .ok l)
    (hc : coords ≠ some []) (hb : baseline ≠ some []) (hx : canon xheight = true)
    (hro : (ro.map (·.1)).Nodup) (hw : ∀ w ∈ words, w.ok = true) : l.ok = true := by
  unfold mkLine at h
  obtain ⟨ts, _, h⟩ := bind_ok h
  obtain ⟨m, _, h⟩ := bind_ok h
  obtain ⟨t, _, h⟩ := bind_ok h
  cases h
  have hws := words_parent_ok id words hw
  simp only [Line.ok, Bool.and_eq_true, List.all_eq_true, decide_eq_true_eq, bne_iff_ne, ne_eq]
  refine ⟨⟨⟨⟨⟨mkHdr_ok _ ts id _ coords nodup_line hc, ?_⟩, hb⟩, hx⟩, hro⟩, hws⟩
  simp [Hdr.hasMeta, alookup_setKey]

theorem roJv_of_nodup (ro : RO) : True := trivial

theorem mkLine_jv (id ty md : PyVal) (coords baseline : Option Pts) (text conf : PyVal) (words : List Word)
    (ro : RO) (roa xheight : PyVal) (l : Line)
    (h : mkLine id ty md coords baseline text conf words ro roa xheight = .ok l)
    (hid : id.stable = true) (hmd : md.stable = true) (hconf : conf.stable = true) (hx : xheight.stable = true)
    (hro : roJv ro = true) (hroa : roa.stable = true) (hw : ∀ w ∈ words, w.jv = true) : l.jv = true := by
  unfold mkLine at h
  obtain ⟨ts, _, h⟩ := bind_ok h
  obtain ⟨m, hm, h⟩ := bind_ok h
  obtain ⟨t, _, h⟩ := bind_ok h
  cases h
  simp only [Line.jv, Hdr.jv, Bool.and_eq_true, List.all_eq_true]
  refine ⟨⟨⟨⟨⟨⟨hid, stableKvs_setKey _ _ _ (stable_str _) (asMeta_stable md m hm hmd)⟩, hconf⟩, hx⟩, hro⟩, hroa⟩, ?_⟩
  intro w hw'
  simp only [List.mem_map] at hw'
  obtain ⟨w0, hw0, rfl⟩ := hw'
  exact Word.jv_setParent _ _ w0 hid (hw w0 hw0)

theorem lines_parent_ok (t : String) (i : PyVal) (ht : ParentTag t) (lines : List Line)
    (h : ∀ l ∈ lines, l.ok = true) :
    ∀ l ∈ lines.map (Line.setParent t i), l.ok = true ∧ l.h.hasParent t i = true := by
  intro l hl
  simp only [List.mem_map] at hl
  obtain ⟨l0, hl0, rfl⟩ := hl
  exact ⟨by rw [Line.ok_setParent t i l0 ht]; exact h l0 hl0, Hdr.hasParent_setParent t i l0.h ht⟩

/-! ### table cells, rows, tables -/

/-- **PageXMLTableCell(...)** (then set_parentage) on well-formed lines (with or without text) -/
theorem Cell.build_ok (id : PyVal) (ts : List String) (m : Meta) (coords : Option Pts) (row : PyVal) (col : Option Int)
    (cellSpan rowSpan header cornerpoints orientation : PyVal) (lines : List Line)
    (hc : coords ≠ some []) (hcp : canon cornerpoints = true) (hor : canon orientation = true)
    (hl : ∀ l ∈ lines, l.ok = true) :
    (Cell.build id ts m coords row col cellSpan rowSpan header cornerpoints orientation lines).ok = true := by
  have hp := lines_parent_ok "table_cell" id parentTag_cell lines hl
  simp only [Cell.build, Cell.setParentage]
  rw [lines_noop "table_cell" id _ hp]
  simp only [Cell.ok, Bool.and_eq_true, List.all_eq_true]
  exact ⟨⟨⟨mkHdr_ok _ ts id m coords nodup_cell hc, hcp⟩, hor⟩, hp⟩

theorem Cell.build_jv (id : PyVal) (ts : List String) (m : Meta) (coords : Option Pts) (row : PyVal) (col : Option Int)
    (cellSpan rowSpan header cornerpoints orientation : PyVal) (lines : List Line)
    (hid : id.stable = true) (hm : PyVal.stableKvs m = true) (h1 : row.stable = true) (h2 : cellSpan.stable = true)
    (h3 : rowSpan.stable = true) (h4 : header.stable = true) (h5 : cornerpoints.stable = true)
    (h6 : orientation.stable = true) (hl : ∀ l ∈ lines, l.jv = true) :
    (Cell.build id ts m coords row col cellSpan rowSpan header cornerpoints orientation lines).jv = true := by
  simp only [Cell.build, Cell.setParentage, Cell.jv, Hdr.jv, Bool.and_eq_true, List.all_eq_true, hid, hm, h1, h2, h3, h4,
    h5, h6, true_and, List.map_map]
  intro l hl'
  simp only [List.mem_map, Function.comp] at hl'
  obtain ⟨l0, hl0, rfl⟩ := hl'
  exact Line.jv_setParentage _ (Line.jv_setParent _ _ _ hid (Line.jv_setParent _ _ _ hid (hl l0 hl0)))

/-- **PageXMLTableRow(...)** on well-formed cells of one row that all have a column index -/
theorem Row.build_ok (id : PyVal) (ts : List String) (m : Meta) (coords : Option Pts) (n : Nat) (orientation : PyVal)
    (cells : List Cell) (hc : coords ≠ some []) (hor : canon orientation = true) (hne : cells.isEmpty = false)
    (hsame : sameRow cells = true) (hcs : ∀ c ∈ cells, c.ok = true ∧ c.col.isSome = true) :
    (Row.build id ts m coords n orientation cells).ok = true := by
  simp only [Row.build, Row.ok, Bool.and_eq_true, List.all_eq_true, Bool.not_eq_true']
  exact ⟨⟨⟨⟨mkHdr_ok _ ts id m coords nodup_row hc, hor⟩, hne⟩, hsame⟩, hcs⟩

theorem Row.build_jv (id : PyVal) (ts : List String) (m : Meta) (coords : Option Pts) (n : Nat) (orientation : PyVal)
    (cells : List Cell) (hid : id.stable = true) (hm : PyVal.stableKvs m = true) (ho : orientation.stable = true)
    (hcs : ∀ c ∈ cells, c.jv = true) : (Row.build id ts m coords n orientation cells).jv = true := by
  simp only [Row.build, Row.jv, Hdr.jv, Bool.and_eq_true, List.all_eq_true, hid, hm, ho, true_and]
  exact hcs

/-- **PageXMLTableRegion(...)** with rows as their constructor left them -/
theorem Table.build_preOk (id : PyVal) (ts : List String) (m : Meta) (coords : Option Pts) (orientation : PyVal)
    (rows : List Row) (hc : coords ≠ some []) (hor : canon orientation = true)
    (hrs : ∀ r ∈ rows, r.ok = true ∧ r.numCols = colCellsN 0 r.cells) :
    (Table.build id ts m coords orientation rows).preOk = true := by
  simp only [Table.build, Table.preOk, Bool.and_eq_true, List.all_eq_true, beq_iff_eq]
  exact ⟨⟨⟨mkHdr_ok _ ts id m coords nodup_table hc, hor⟩, fun r hr => (hrs r hr).1⟩, fun r hr => (hrs r hr).2⟩

theorem Table.build_jv (id : PyVal) (ts : List String) (m : Meta) (coords : Option Pts) (orientation : PyVal)
    (rows : List Row) (hid : id.stable = true) (hm : PyVal.stableKvs m = true) (ho : orientation.stable = true)
    (hrs : ∀ r ∈ rows, r.jv = true) : (Table.build id ts m coords orientation rows).jv = true := by
  simp only [Table.build, Table.jv, Hdr.jv, Bool.and_eq_true, List.all_eq_true, hid, hm, ho, true_and]
  exact hrs

theorem Row.ok_pad (m : Nat) (r : Row) : (r.pad m).ok = r.ok := by
  unfold Row.pad; split <;> rfl

theorem Row.cells_pad (m : Nat) (r : Row) : (r.pad m).cells = r.cells := by
  unfold Row.pad; split <;> rfl

theorem Row.jv_pad (m : Nat) (r : Row) : (r.pad m).jv = r.jv := by
  unfold Row.pad; split <;> rfl

theorem maxCells_pad (m : Nat) (rows : List Row) : maxCells (rows.map (Row.pad m)) = maxCells rows := by
  induction rows with
  | nil => rfl
  | cons r rows ih => simp [maxCells, ih, Row.cells_pad]

/-- the padding a region-like constructor applies turns a table with fresh rows into a well-formed one -/
theorem Table.pad_ok (t : Table) (ht : t.preOk = true) : t.pad.ok = true := by
  simp only [Table.preOk, Bool.and_eq_true, List.all_eq_true, beq_iff_eq] at ht
  obtain ⟨⟨⟨hh, hor⟩, hrs⟩, hn⟩ := ht
  simp only [Table.pad, Table.ok, Bool.and_eq_true, List.all_eq_true, beq_iff_eq, maxCells_pad]
  refine ⟨⟨⟨hh, hor⟩, ?_⟩, ?_⟩
  · intro r hr
    simp only [List.mem_map] at hr
    obtain ⟨r0, hr0, rfl⟩ := hr
    rw [Row.ok_pad]; exact hrs r0 hr0
  · intro r hr
    simp only [List.mem_map] at hr
    obtain ⟨r0, hr0, rfl⟩ := hr
    have := hn r0 hr0
    simp only [padded, Row.cells_pad]
    unfold Row.pad
    split <;> simp [this]

theorem Table.pad_jv (t : Table) (ht : t.jv = true) : t.pad.jv = true := by
  simp only [Table.jv, Table.pad, Bool.and_eq_true, List.all_eq_true] at ht ⊢
  refine ⟨ht.1, ?_⟩
  intro r hr
  simp only [List.mem_map] at hr
  obtain ⟨r0, hr0, rfl⟩ := hr
  rw [Row.jv_pad]; exact ht.2 r0 hr0


/-! ### reading order: what `set_text_regions_in_reader_order` leaves is stable under itself -/

section reorder
variable {α : Type} (idOf : α → PyVal)

theorem lastWithId_id (id : PyVal) : ∀ (rs : List α) (x : α), lastWithId idOf id rs = some x → idOf x = id := by
  intro rs
  induction rs with
  | nil => intro x h; simp [lastWithId] at h
  | cons r rs ih =>
    intro x h
    simp only [lastWithId] at h
    cases hl : lastWithId idOf id rs with
    | some y => simp only [hl] at h; injection h with h; subst h; exact ih _ hl
    | none =>
      simp only [hl] at h
      split at h
      · cases h; assumption
      · cases h

theorem lastWithId_none (id : PyVal) : ∀ (rs : List α), (∀ r ∈ rs, idOf r ≠ id) → lastWithId idOf id rs = none := by
  intro rs
  induction rs with
  | nil => intro _; rfl
  | cons r rs ih =>
    intro h
    simp only [lastWithId, ih (fun x hx => h x (by simp [hx]))]
    simp [h r (by simp)]

theorem lastWithId_none_inv (id : PyVal) : ∀ (rs : List α), lastWithId idOf id rs = none → ∀ r ∈ rs, idOf r ≠ id := by
  intro rs
  induction rs with
  | nil => intro _ r hr; simp at hr
  | cons r rs ih =>
    intro h x hx
    simp only [lastWithId] at h
    cases hl : lastWithId idOf id rs with
    | some y => simp [hl] at h
    | none =>
      simp only [hl] at h
      rcases List.mem_cons.mp hx with rfl | hx
      · intro e; simp [e] at h
      · exact ih hl x hx

theorem lastWithId_unique : ∀ (rs : List α), (rs.map idOf).Nodup → ∀ x ∈ rs, lastWithId idOf (idOf x) rs = some x := by
  intro rs
  induction rs with
  | nil => intro _ x hx; simp at hx
  | cons r rs ih =>
    intro hnd x hx
    simp only [List.map_cons, List.nodup_cons, List.mem_map, not_exists, not_and] at hnd
    simp only [lastWithId]
    rcases List.mem_cons.mp hx with rfl | hx
    · rw [lastWithId_none idOf _ rs (fun y hy => hnd.1 y hy)]
      simp
    · rw [ih hnd.2 x hx]

theorem dedupe_spec : ∀ (vs seen : List PyVal), (dedupe seen vs).Nodup ∧ ∀ v ∈ dedupe seen vs, v ∉ seen := by
  intro vs
  induction vs with
  | nil => intro seen; simp [dedupe]
  | cons v vs ih =>
    intro seen
    simp only [dedupe]
    split
    · exact ih seen
    · rename_i hv
      obtain ⟨h1, h2⟩ := ih (v :: seen)
      refine ⟨List.nodup_cons.mpr ⟨fun hm => h2 v hm (by simp), h1⟩, ?_⟩
      intro x hx
      rcases List.mem_cons.mp hx with rfl | hx
      · exact hv
      · intro hs; exact h2 x hx (by simp [hs])

theorem filterMap_congr' {β γ} (f g : β → Option γ) : ∀ (l : List β), (∀ x ∈ l, f x = g x) →
    l.filterMap f = l.filterMap g := by
  intro l
  induction l with
  | nil => intro _; rfl
  | cons a l ih =>
    intro h
    simp only [List.filterMap_cons, h a (by simp), ih (fun x hx => h x (by simp [hx]))]

theorem pick_ids : ∀ (ids : List PyVal) (rs : List α),
    (ids.filterMap (fun id => lastWithId idOf id rs)).map idOf
      = ids.filter (fun id => (lastWithId idOf id rs).isSome) := by
  intro ids rs
  induction ids with
  | nil => rfl
  | cons id ids ih =>
    simp only [List.filterMap_cons, List.filter_cons]
    cases hl : lastWithId idOf id rs with
    | none => simpa using ih
    | some x => simp [ih, lastWithId_id idOf id rs x hl]

theorem pick_mem (ids : List PyVal) (rs : List α) :
    ∀ x ∈ ids.filterMap (fun id => lastWithId idOf id rs), x ∈ rs := by
  intro x hx
  obtain ⟨id, _, hid⟩ := List.mem_filterMap.mp hx
  exact lastWithId_mem idOf id rs x hid

/-- picking by a duplicate-free id list: the result has distinct ids and picking from it again
    with the same ids returns it -/
theorem pick_fix (ids : List PyVal) (hnd : ids.Nodup) (rs : List α) :
    let rs' := ids.filterMap (fun id => lastWithId idOf id rs)
    (rs'.map idOf).Nodup ∧ ids.filterMap (fun id => lastWithId idOf id rs') = rs' := by
  intro rs'
  have h1 : (rs'.map idOf).Nodup := by
    show ((ids.filterMap (fun id => lastWithId idOf id rs)).map idOf).Nodup
    rw [pick_ids]
    exact List.Nodup.sublist List.filter_sublist hnd
  refine ⟨h1, ?_⟩
  apply filterMap_congr'
  intro id hid
  show lastWithId idOf id rs' = lastWithId idOf id rs
  cases hl : lastWithId idOf id rs with
  | some x =>
    have hx : x ∈ rs' := List.mem_filterMap.mpr ⟨id, hid, hl⟩
    have := lastWithId_unique idOf rs' h1 x hx
    rw [lastWithId_id idOf id rs x hl] at this
    exact this
  | none =>
    apply lastWithId_none
    intro r hr
    exact lastWithId_none_inv idOf id rs hl r (pick_mem idOf ids rs r hr)

theorem reorder_fix (ro : RO) (rs : List α) :
    ((reorder idOf ro rs).map idOf).Nodup ∧ reorder idOf ro (reorder idOf ro rs) = reorder idOf ro rs := by
  unfold reorder
  exact pick_fix idOf _ (dedupe_spec _ []).1 rs

theorem lastWithId_isSome (id : PyVal) : ∀ (rs : List α), (lastWithId idOf id rs).isSome = (rs.map idOf).contains id := by
  intro rs
  induction rs with
  | nil => rfl
  | cons r rs ih =>
    simp only [lastWithId, List.map_cons, List.contains_cons]
    rw [← ih]
    cases hl : lastWithId idOf id rs with
    | some x => simp
    | none =>
      by_cases e : idOf r = id
      · simp [e]
      · simp [e, Ne.symm e]

theorem reorder_ids (ro : RO) (rs : List α) :
    (reorder idOf ro rs).map idOf
      = (dedupe [] ((sortByIndex ro).map (·.2))).filter (fun id => (rs.map idOf).contains id) := by
  unfold reorder
  rw [pick_ids]
  congr 1
  funext id
  exact lastWithId_isSome idOf id rs

theorem allListed_ids (ro : RO) (rs : List α) :
    allListed idOf ro rs = (rs.map idOf).all (fun i => ro.any fun e => decide (e.2 = i)) := by
  simp [allListed, List.all_map, Function.comp_def]

theorem allListed_sub (ro : RO) (rs rs' : List α) (h : ∀ x ∈ rs', x ∈ rs) (ha : allListed idOf ro rs = true) :
    allListed idOf ro rs' = true := by
  simp only [allListed, List.all_eq_true] at ha ⊢
  exact fun x hx => ha x (h x hx)

end reorder

theorem roOk_congr (sorts : Bool) (ro : RO) (rs rs' : List Region) (h : rs.map rid = rs'.map rid) :
    roOk sorts ro rs = roOk sorts ro rs' := by
  simp only [roOk, allListed_ids, reorder_ids, h]

/-- **the reading-order step of the TextRegion constructor** leaves regions that are consistent
    with the reading order it leaves -/
theorem applyReadingOrder_ok (sorts : Bool) (ro : RO) (rs : List Region) :
    roOk sorts (applyReadingOrder (fun r : Region => r.h.id) sorts ro rs).1
               (applyReadingOrder (fun r : Region => r.h.id) sorts ro rs).2 = true
    ∧ (∀ r ∈ (applyReadingOrder (fun r : Region => r.h.id) sorts ro rs).2, r ∈ rs)
    ∧ ((applyReadingOrder (fun r : Region => r.h.id) sorts ro rs).1 = ro
        ∨ (applyReadingOrder (fun r : Region => r.h.id) sorts ro rs).1 = []) := by
  have e : (fun r : Region => r.h.id) = rid := rfl
  rw [e]
  unfold applyReadingOrder
  by_cases hemp : ro.isEmpty = true
  · simp [hemp, roOk]
  · simp only [hemp, Bool.false_eq_true, if_false]
    by_cases hall : allListed rid ro rs = true
    · simp only [hall, if_true]
      cases sorts with
      | false =>
        simp only [Bool.false_eq_true, if_false]
        refine ⟨by simp [roOk, hall], fun r h => h, Or.inl trivial⟩
      | true =>
        simp only [if_true]
        obtain ⟨h1, h2⟩ := reorder_fix rid ro rs
        refine ⟨?_, reorder_mem rid ro rs, Or.inl trivial⟩
        simp only [roOk, Bool.or_eq_true, Bool.and_eq_true, Bool.not_eq_true', beq_iff_eq, decide_eq_true_eq]
        right
        exact ⟨allListed_sub rid ro rs _ (reorder_mem rid ro rs) hall, Or.inr ⟨by rw [h2], h1⟩⟩
    · simp only [hall, Bool.false_eq_true, if_false]
      exact ⟨by simp [roOk], fun r h => h, Or.inr trivial⟩


/-! ### text regions, columns, pages -/

theorem Region.okL_of_mem (pt : String) (pid : PyVal) : ∀ (rs : List Region),
    (∀ r ∈ rs, r.ok = true ∧ r.h.hasParent pt pid = true) → Region.okL pt pid rs = true := by
  intro rs
  induction rs with
  | nil => intro _; rfl
  | cons r rs ih =>
    intro h
    simp only [Region.okL, Bool.and_eq_true]
    exact ⟨⟨(h r (by simp)).1, (h r (by simp)).2⟩, ih (fun x hx => h x (by simp [hx]))⟩

theorem Region.setParent_h (t : String) (i : PyVal) (r : Region) : (r.setParent t i).h = r.h.setParent t i := rfl

theorem Region.ok_setParent (t : String) (i : PyVal) (r : Region) : (r.setParent t i).ok = r.ok := by
  obtain ⟨h, text, orientation, ro, roa, lines, regions, tables⟩ := r
  simp only [Region.setParent, Region.ok, Hdr.ok_setParent, Hdr.setParent_id]

theorem regions_parent_ok (t : String) (i : PyVal) (ht : ParentTag t) (rs : List Region)
    (h : ∀ r ∈ rs, r.ok = true) :
    ∀ r ∈ rs.map (Region.setParent t i), r.ok = true ∧ r.h.hasParent t i = true := by
  intro r hr
  simp only [List.mem_map] at hr
  obtain ⟨r0, hr0, rfl⟩ := hr
  exact ⟨by rw [Region.ok_setParent]; exact h r0 hr0, by
    rw [Region.setParent_h]; exact Hdr.hasParent_setParent t i r0.h ht⟩

theorem Column.ok_setParent (t : String) (i : PyVal) (c : Column) : (c.setParent t i).ok = c.ok := by
  simp only [Column.setParent, Column.ok, Hdr.ok_setParent, Hdr.setParent_id]
  rfl

theorem Page.ok_setParent (t : String) (i : PyVal) (p : Page) : (p.setParent t i).ok = p.ok := by
  simp only [Page.setParent, Page.ok, Hdr.ok_setParent, Hdr.setParent_id]
  rfl

theorem regionInit_eq (mt : String) (id : PyVal) (ro : RO) (lines : List Line) (regions : List Region)
    (tables : List Table) :
    regionInit mt id ro lines regions tables
      = ⟨(applyReadingOrder (fun r : Region => r.h.id) (mt != "page") ro (regions.map (Region.setParent mt id))).1,
         (lines.map (Line.setParent mt id)).map (Line.setParent mt id),
         (applyReadingOrder (fun r : Region => r.h.id) (mt != "page") ro (regions.map (Region.setParent mt id))).2,
         tables.map Table.pad⟩ := rfl

/-- **what the TextRegion constructor does to the children it is given** (well-formed lines and
    regions, tables with fresh rows): they come out well-formed, parented, padded, and consistent
    with the reading order that is left -/
theorem regionInit_ok (mt : String) (id : PyVal) (ro : RO) (lines : List Line) (regions : List Region)
    (tables : List Table) (ht : ParentTag mt)
    (hl : ∀ l ∈ lines, l.ok = true) (hr : ∀ r ∈ regions, r.ok = true) (htb : ∀ t ∈ tables, t.preOk = true) :
    (∀ l ∈ (regionInit mt id ro lines regions tables).lines, l.ok = true ∧ l.h.hasParent mt id = true)
    ∧ Region.okL mt id (regionInit mt id ro lines regions tables).regions = true
    ∧ (∀ t ∈ (regionInit mt id ro lines regions tables).tables, t.ok = true)
    ∧ roOk (mt != "page") (regionInit mt id ro lines regions tables).ro
        (regionInit mt id ro lines regions tables).regions = true
    ∧ ((regionInit mt id ro lines regions tables).ro = ro ∨ (regionInit mt id ro lines regions tables).ro = []) := by
  rw [regionInit_eq]
  obtain ⟨a1, a2, a3⟩ := applyReadingOrder_ok (mt != "page") ro (regions.map (Region.setParent mt id))
  refine ⟨?_, ?_, ?_, a1, a3⟩
  · exact lines_parent_ok mt id ht _ (fun l h => (lines_parent_ok mt id ht lines hl l h).1)
  · apply Region.okL_of_mem
    intro r hr'
    exact regions_parent_ok mt id ht regions hr r (a2 r hr')
  · intro t ht'
    simp only [List.mem_map] at ht'
    obtain ⟨t0, ht0, rfl⟩ := ht'
    exact Table.pad_ok t0 (htb t0 ht0)

theorem nodup_of_or (ro ro' : RO) (h : ro' = ro ∨ ro' = []) (hn : (ro.map (·.1)).Nodup) : (ro'.map (·.1)).Nodup := by
  rcases h with rfl | rfl
  · exact hn
  · simp

/-- **PageXMLTextRegion(...)** (then set_parentage) -/
theorem Region.build_ok (id : PyVal) (ts : List String) (m : Meta) (coords : Option Pts) (text : Option String)
    (orientation : PyVal) (ro : RO) (roa : PyVal) (lines : List Line) (regions : List Region) (tables : List Table)
    (hc : coords ≠ some []) (hor : canon orientation = true) (hro : (ro.map (·.1)).Nodup)
    (hl : ∀ l ∈ lines, l.ok = true) (hr : ∀ r ∈ regions, r.ok = true) (htb : ∀ t ∈ tables, t.preOk = true) :
    (Region.build id ts m coords text orientation ro roa lines regions tables).ok = true := by
  obtain ⟨b1, b2, b3, b4, b5⟩ := regionInit_ok "text_region" id ro lines regions tables parentTag_region hl hr htb
  have h0 : Region.ok ⟨{ id := id, types := addTypes (regionBase "text_region") ts, md := m, coords := coords },
      text, orientation, (regionInit "text_region" id ro lines regions tables).ro, roa,
      (regionInit "text_region" id ro lines regions tables).lines,
      (regionInit "text_region" id ro lines regions tables).regions,
      (regionInit "text_region" id ro lines regions tables).tables⟩ = true := by
    simp only [Region.ok, Bool.and_eq_true, List.all_eq_true, decide_eq_true_eq]
    exact ⟨⟨⟨⟨⟨⟨mkHdr_ok _ ts id m coords nodup_region hc, hor⟩, nodup_of_or _ _ b5 hro⟩, b4⟩, b1⟩, b2⟩, b3⟩
  show (Region.setParentage _).ok = true
  rw [Region.setParentage_of_ok _ h0]; exact h0

/-- **PageXMLColumn(...)** (then set_parentage) -/
theorem Column.build_ok (id : PyVal) (ts : List String) (m : Meta) (coords : Option Pts)
    (orientation : PyVal) (ro : RO) (roa : PyVal) (lines : List Line) (regions : List Region) (tables : List Table)
    (hc : coords ≠ some []) (hor : canon orientation = true) (hro : (ro.map (·.1)).Nodup)
    (hl : ∀ l ∈ lines, l.ok = true) (hr : ∀ r ∈ regions, r.ok = true) (htb : ∀ t ∈ tables, t.preOk = true) :
    (Column.build id ts m coords orientation ro roa lines regions tables).ok = true := by
  obtain ⟨b1, b2, b3, b4, b5⟩ := regionInit_ok "column" id ro lines regions tables parentTag_column hl hr htb
  have h0 : Column.ok ⟨{ id := id, types := addTypes (regionBase "column") ts, md := m, coords := coords },
      orientation, (regionInit "column" id ro lines regions tables).ro, roa,
      (regionInit "column" id ro lines regions tables).lines,
      (regionInit "column" id ro lines regions tables).regions,
      (regionInit "column" id ro lines regions tables).tables⟩ = true := by
    simp only [Column.ok, Bool.and_eq_true, List.all_eq_true, decide_eq_true_eq]
    exact ⟨⟨⟨⟨⟨⟨mkHdr_ok _ ts id m coords nodup_column hc, hor⟩, nodup_of_or _ _ b5 hro⟩, b4⟩, b1⟩, b2⟩, b3⟩
  show (Column.setParentage _).ok = true
  rw [Column.setParentage_of_ok _ h0]; exact h0

theorem columns_parent_ok (t : String) (i : PyVal) (ht : ParentTag t) (cs : List Column)
    (h : ∀ c ∈ cs, c.ok = true) :
    ∀ c ∈ cs.map (Column.setParent t i), c.ok = true ∧ c.h.hasParent t i = true := by
  intro c hc
  simp only [List.mem_map] at hc
  obtain ⟨c0, hc0, rfl⟩ := hc
  exact ⟨by rw [Column.ok_setParent]; exact h c0 hc0, Hdr.hasParent_setParent t i c0.h ht⟩

theorem pages_parent_ok (t : String) (i : PyVal) (ht : ParentTag t) (ps : List Page)
    (h : ∀ p ∈ ps, p.ok = true) :
    ∀ p ∈ ps.map (Page.setParent t i), p.ok = true ∧ p.h.hasParent t i = true := by
  intro p hp
  simp only [List.mem_map] at hp
  obtain ⟨p0, hp0, rfl⟩ := hp
  exact ⟨by rw [Page.ok_setParent]; exact h p0 hp0, Hdr.hasParent_setParent t i p0.h ht⟩

/-- **PageXMLPage(...)** (then set_parentage) -/
theorem Page.build_ok (id : PyVal) (ts : List String) (m : Meta) (coords : Option Pts)
    (orientation : PyVal) (ro : RO) (roa : PyVal) (columns : List Column) (regions : List Region)
    (tables : List Table) (extra : List Region)
    (hc : coords ≠ some []) (hor : canon orientation = true) (hro : (ro.map (·.1)).Nodup)
    (hcs : ∀ c ∈ columns, c.ok = true) (hr : ∀ r ∈ regions, r.ok = true) (htb : ∀ t ∈ tables, t.preOk = true)
    (hex : ∀ r ∈ extra, r.ok = true) :
    (Page.build id ts m coords orientation ro roa columns regions tables extra).ok = true := by
  obtain ⟨b1, b2, b3, b4, b5⟩ := regionInit_ok "page" id ro [] regions tables parentTag_page (by simp) hr htb
  have h0 : Page.ok ⟨{ id := id, types := addTypes (regionBase "page") ts, md := m, coords := coords },
      orientation, (regionInit "page" id ro [] regions tables).ro, roa,
      columns.map (Column.setParent "page" id),
      (regionInit "page" id ro [] regions tables).regions,
      (regionInit "page" id ro [] regions tables).tables,
      extra.map (Region.setParent "page" id)⟩ = true := by
    simp only [Page.ok, Bool.and_eq_true, List.all_eq_true, decide_eq_true_eq]
    exact ⟨⟨⟨⟨⟨⟨⟨mkHdr_ok _ ts id m coords nodup_page hc, hor⟩, nodup_of_or _ _ b5 hro⟩, b4⟩,
      columns_parent_ok "page" id parentTag_page columns hcs⟩, b2⟩, b3⟩,
      Region.okL_of_mem _ _ _ (regions_parent_ok "page" id parentTag_page extra hex)⟩
  show (Page.setParentage _).ok = true
  rw [Page.setParentage_of_ok _ h0]; exact h0

end Pagexml.C06
