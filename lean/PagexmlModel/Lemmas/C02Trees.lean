/-
C02: the history of every document tree — bottom-up construction, JSON builders, XML parser —
runs without error, meets `Pre` at every operation, and keeps the invariants (by induction on
the tree).
-/
import PagexmlModel.Lemmas.C02Hist

set_option linter.unusedSimpArgs false
set_option linter.unusedVariables false

namespace Pagexml.C02

/-- what building one subtree with root `r` of class `kind` leaves behind -/
structure NodeOut (σ σ' : Store) (r : Nat) (kind : Cls) : Prop where
  good : Good σ'
  size : σ'.size = r + 1
  ge : σ.size ≤ r
  cls : clsOf σ' r = some kind
  free : kind ≠ .scan → FreeKid σ' r
  frame : Frame σ σ'
  keep : ∀ k, k < σ.size → clsOf σ' k = clsOf σ k

/-- what building a list of subtrees leaves behind -/
structure ListOut (σ σ' : Store) (ks : List Built) (next : Nat) : Prop where
  good : Good σ'
  size : σ'.size = next
  ge : σ.size ≤ next
  frame : Frame σ σ'
  keep : ∀ k, k < σ.size → clsOf σ' k = clsOf σ k
  kids : ∀ k ∈ ks, σ.size ≤ k.2.2 ∧ clsOf σ' k.2.2 = some k.1 ∧ (k.1 ≠ .scan → FreeKid σ' k.2.2)

/-- one more operation that writes no child list -/
theorem post_same {σ : Store} {op : Op} (g : Good σ) (hp : Pre σ op = true) (ht : op.targets = [])
    (hsize : ∀ σ' o, step σ op = .ok (σ', o) → σ'.size = σ.size) :
    ∃ σ', Runs σ [op] σ' ∧ Good σ' ∧ Same σ σ' := by
  obtain ⟨σ', o, hs, g', A⟩ := good_step g hp
  rw [ht] at A
  exact ⟨σ', Runs.cons hs hp (Runs.nil _), g', same_of_adds A (hsize σ' o hs) (fun _ _ h => by cases h)⟩

theorem pre_setParentage {σ : Store} {p : Nat} (hp : p < σ.size) : Pre σ (.setParentage p) = true := by
  simp [Pre, Op.refs, Op.newKids, has_iff.mpr hp]

theorem lt_of_clsOf {σ : Store} {c : Nat} {C : Cls} (h : clsOf σ c = some C) : c < σ.size := by
  obtain ⟨cn, g, _⟩ := clsOf_some h
  exact get?_lt g

theorem notScan_of_clsOf {σ : Store} {c : Nat} {C : Cls} (h : clsOf σ c = some C) (hC : C ≠ .scan) :
    σ.notScan c = true := by
  simp [Store.notScan, h, hC]

/-- the constructor call of a node and what follows it, after its children have been built -/
theorem node_step (json : Bool) (kind : Cls) (a : Args) {σ σ₁ : Store} {ks : List Built} {next : Nat}
    (L : ListOut σ σ₁ ks next) (hrow : kind = .row → (slot ks (isCls .cell)).isEmpty = false) :
    ∃ σ', Runs σ₁ ([mkOp kind a ks] ++ postOps json kind next ks) σ' ∧ NodeOut σ σ' next kind := by
  have hcl := L.good.inv.shape.closed'
  obtain ⟨e1, e2, e3, _⟩ := mkOp_shape kind a ks σ₁
  have hfree : ∀ c ∈ (mkOp kind a ks).newKids, FreeKid σ₁ c := by
    intro c hc
    obtain ⟨k, hk, rfl, hs⟩ := mkOp_newKids kind a ks c hc
    exact (L.kids k hk).2.2 hs
  have hge : ∀ c ∈ (mkOp kind a ks).newKids, σ.size ≤ c := by
    intro c hc
    obtain ⟨k, hk, rfl, _⟩ := mkOp_newKids kind a ks c hc
    exact (L.kids k hk).1
  have hpre := pre_mkOp kind a ks σ₁ hfree
  obtain ⟨σ₂, o, hs, g₂, A⟩ := good_step L.good hpre
  rw [e2, e3] at A
  have F := fresh_mkOp kind a ks hrow hs
  have hsz : σ₁.size = next := L.size
  have hframe : Frame σ σ₂ := fun c h =>
    freeKid_adds A (L.frame c h) (fun hm => by have := hge c hm; have := h.lt; omega)
  have hkeep : ∀ k, k < σ.size → clsOf σ₂ k = clsOf σ k := fun k hk =>
    (A.cls k (by have := L.ge; omega)).trans (L.keep k hk)
  have N₂ : NodeOut σ σ₂ next kind :=
    ⟨g₂, by rw [F.size, hsz], L.ge, by rw [← hsz]; exact F.cls,
     fun hk => by rw [← hsz]; exact freeKid_new A hcl (fun c hc => (hfree c hc).lt) F.cls hk, hframe, hkeep⟩
  have R₂ : Runs σ₁ [mkOp kind a ks] σ₂ := Runs.cons hs hpre (Runs.nil _)
  -- what follows the constructor
  have finish : ∀ op, Pre σ₂ op = true → op.targets = [] →
      (∀ σ' o, step σ₂ op = .ok (σ', o) → σ'.size = σ₂.size) →
      ∃ σ', Runs σ₁ ([mkOp kind a ks] ++ [op]) σ' ∧ NodeOut σ σ' next kind := by
    intro op hp ht hsize
    obtain ⟨σ₃, R₃, g₃, S⟩ := post_same g₂ hp ht hsize
    refine ⟨σ₃, R₂.append R₃, g₃, by rw [S.size]; exact N₂.size, L.ge, ?_, fun hk => S.frame _ (N₂.free hk),
      hframe.trans S.frame, fun k hk => ?_⟩
    · rw [S.cls next (by rw [N₂.size]; omega)]; exact N₂.cls
    · rw [S.cls k (by have := N₂.size; have := L.ge; omega)]; exact hkeep k hk
  unfold postOps
  cases json with
  | true =>
    simp only [if_true]
    split
    · exact ⟨σ₂, by simpa using R₂, N₂⟩
    · exact finish (.setParentage next) (pre_setParentage (by rw [N₂.size]; omega)) rfl
        (fun σ' o h => size_step_setParentage g₂.inv h)
  | false =>
    simp only [Bool.false_eq_true, if_false]
    split
    · rename_i hk
      have hk' : kind = .row := by simpa using hk
      subst hk'
      refine finish (.setAsParent next (slot ks (isCls .cell))) ?_ rfl
        (fun σ' o h => size_step_simple (Or.inl ⟨_, _, rfl⟩) h)
      have hnk : (mkOp .row a ks).newKids = slot ks (isCls .cell) := rfl
      simp only [Pre, Op.refs, List.all_cons, Bool.and_eq_true, List.all_eq_true]
      refine ⟨⟨has_iff.mpr (by rw [N₂.size]; omega), fun c hc => ?_⟩, fun c hc => ?_⟩
      · have := (hfree c (hnk ▸ hc)).lt
        exact has_iff.mpr (by have := A.size_le; omega)
      · have hf := hfree c (hnk ▸ hc)
        refine ⟨onlyBy_iff.mpr (fun q qn gq hm => ?_), ?_⟩
        · rw [← hsz]; exact onlyBy_adds A hf q qn gq hm
        · obtain ⟨k, hkm, e, _⟩ := mem_slot hc
          have hc1 : clsOf σ₁ c = some k.1 := e ▸ (L.kids k hkm).2.1
          have hc2 : clsOf σ₂ c = some k.1 := (A.cls c hf.lt).trans hc1
          obtain ⟨k', hk'm, e', hs'⟩ := mkOp_newKids .row a ks c (hnk ▸ hc)
          have : clsOf σ₁ c = some k'.1 := e' ▸ (L.kids k' hk'm).2.1
          rw [hc1] at this
          have e2 : k.1 = k'.1 := Option.some.inj this
          exact notScan_of_clsOf hc2 (e2 ▸ hs')
    · exact ⟨σ₂, by simpa using R₂, N₂⟩

theorem any_cell_slot (kids : List JTree) (ks : List Built) (h : kids.any (fun k => k.kind == .cell) = true)
    (hks : ks.map (·.1) = kids.map (·.kind)) : (slot ks (isCls .cell)).isEmpty = false := by
  have : (ks.map (·.1)).any (· == Cls.cell) = true := by
    rw [hks, List.any_map]; exact h
  rw [List.any_map, List.any_eq_true] at this
  obtain ⟨k, hk, hc⟩ := this
  have hm : k.2.2 ∈ slot ks (isCls .cell) := by
    simp only [slot, List.mem_map, List.mem_filter]
    exact ⟨k, ⟨hk, by simpa [isCls] using hc⟩, rfl⟩
  cases hsl : slot ks (isCls .cell) with
  | nil => rw [hsl] at hm; cases hm
  | cons _ _ => rfl

theorem histL_kinds (json : Bool) : ∀ (ts : List JTree) (base : Nat),
    (JTree.histL json ts base).2.1.map (·.1) = ts.map (·.kind)
  | [], _ => rfl
  | t :: ts, base => by
    simp only [JTree.histL, List.map_cons]
    rw [← histL_kinds json ts ((t.hist json base).2 + 1)]

mutual
/-- **every tree**: its history (bottom-up, or the JSON builders') is disciplined and total -/
theorem jtree_spec (json : Bool) : ∀ (t : JTree) (σ : Store), Good σ → t.valid = true →
    ∃ σ', Runs σ (t.hist json σ.size).1 σ' ∧ NodeOut σ σ' (t.hist json σ.size).2 t.kind
  | .node kind extra a kids, σ, g, hv => by
    simp only [JTree.valid, Bool.and_eq_true, Bool.or_eq_true, bne_iff_ne, ne_eq] at hv
    obtain ⟨σ₁, R₁, L⟩ := jtreeL_spec json kids σ g hv.2
    have hk := histL_kinds json kids σ.size
    obtain ⟨σ', R₂, N⟩ := node_step json kind a L (fun e => by
      rcases hv.1 with h | h
      · exact absurd e h
      · exact any_cell_slot kids _ h hk)
    refine ⟨σ', ?_, ?_⟩
    · simp only [JTree.hist, List.append_assoc]
      exact R₁.append R₂
    · simpa only [JTree.hist, JTree.kind] using N
theorem jtreeL_spec (json : Bool) : ∀ (ts : List JTree) (σ : Store), Good σ → JTree.validL ts = true →
    ∃ σ', Runs σ (JTree.histL json ts σ.size).1 σ' ∧
      ListOut σ σ' (JTree.histL json ts σ.size).2.1 (JTree.histL json ts σ.size).2.2
  | [], σ, g, _ => ⟨σ, Runs.nil σ, g, rfl, Nat.le_refl _, Frame.rfl' σ, fun _ _ => rfl, fun _ h => by cases h⟩
  | t :: ts, σ, g, hv => by
    simp only [JTree.validL, Bool.and_eq_true] at hv
    obtain ⟨σ₁, R₁, N⟩ := jtree_spec json t σ g hv.1
    obtain ⟨σ₂, R₂, L⟩ := jtreeL_spec json ts σ₁ N.good hv.2
    rw [N.size] at R₂ L
    simp only [JTree.histL]
    generalize JTree.hist json t σ.size = y at R₁ N R₂ L ⊢
    obtain ⟨o1, r⟩ := y
    simp only at R₁ N R₂ L ⊢
    generalize JTree.histL json ts (r + 1) = x at R₂ L ⊢
    obtain ⟨o2, ks, next⟩ := x
    simp only at R₂ L ⊢
    have hNs := N.size
    have hNg := N.ge
    have hLg := L.ge
    refine ⟨σ₂, R₁.append R₂, L.good, L.size, by omega, N.frame.trans L.frame,
      fun k hk => (L.keep k (by omega)).trans (N.keep k hk), ?_⟩
    intro k hk
    rcases List.mem_cons.mp hk with rfl | hk
    · refine ⟨N.ge, ?_, fun hs => L.frame _ (N.free hs)⟩
      show clsOf σ₂ r = some t.kind
      rw [L.keep r (by omega)]; exact N.cls
    · obtain ⟨h1, h2, h3⟩ := L.kids k hk
      exact ⟨by omega, h2, h3⟩
end

end Pagexml.C02
