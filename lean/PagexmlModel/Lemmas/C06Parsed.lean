/-
C06: the XML parser's assembly yields well-formed documents.
-/
import PagexmlModel.Lemmas.C06Closed

set_option linter.unusedSimpArgs false
set_option linter.unusedVariables false

namespace Pagexml.C06

theorem Word.parsed_ok (w : Word) (h : w.rawOk = true) : w.parsed.ok = true := by
  simp only [Word.rawOk, bne_iff_ne, ne_eq] at h
  exact mkHdr_ok _ [] w.h.id w.h.md w.h.coords nodup_word h

theorem Line.parsed_ok (l : Line) (h : l.rawOk = true) : l.parsed.ok = true := by
  simp only [Line.rawOk, Bool.and_eq_true, bne_iff_ne, ne_eq, List.all_eq_true] at h
  obtain ⟨⟨⟨hc, hb⟩, hx⟩, hw⟩ := h
  have hws := words_parent_ok l.h.id (l.words.map Word.parsed) (by
    intro w hw'
    simp only [List.mem_map] at hw'
    obtain ⟨w0, hw0, rfl⟩ := hw'
    exact Word.parsed_ok w0 (hw w0 hw0))
  simp only [Line.parsed, Line.ok, Bool.and_eq_true, List.all_eq_true, decide_eq_true_eq, bne_iff_ne, ne_eq]
  refine ⟨⟨⟨⟨⟨mkHdr_ok _ [] l.h.id _ l.h.coords nodup_line hc, ?_⟩, hb⟩, hx⟩, by simp⟩, hws⟩
  simp [Hdr.hasMeta, alookup_setKey]

theorem lines_parsed_ok (t : String) (i : PyVal) (ht : ParentTag t) (ls : List Line) (h : ls.all Line.rawOk = true) :
    ∀ l ∈ (ls.map Line.parsed).map (Line.setParent t i), l.ok = true ∧ l.h.hasParent t i = true := by
  apply lines_parent_ok t i ht
  intro l hl
  simp only [List.mem_map] at hl
  obtain ⟨l0, hl0, rfl⟩ := hl
  rw [List.all_eq_true] at h
  exact Line.parsed_ok l0 (h l0 hl0)

theorem Region.parsed_h_id (r : Region) : r.parsed.h.id = r.h.id := by
  obtain ⟨h, text, orientation, ro, roa, lines, regions, tables⟩ := r
  simp only [Region.parsed]

mutual
theorem Region.parsed_ok : ∀ r : Region, r.rawOk = true → r.parsed.ok = true
  | ⟨h, text, orientation, ro, roa, lines, regions, tables⟩, hr => by
    simp only [Region.rawOk, Bool.and_eq_true, bne_iff_ne, ne_eq] at hr
    obtain ⟨⟨⟨hc, ho⟩, hl⟩, hrs⟩ := hr
    simp only [Region.parsed, Region.ok, Bool.and_eq_true, List.all_eq_true, decide_eq_true_eq]
    refine ⟨⟨⟨⟨⟨⟨?_, ho⟩, by simp⟩, by simp [roOk]⟩, lines_parsed_ok _ _ parentTag_region lines hl⟩,
      Region.parsedL_ok "text_region" h.id parentTag_region regions hrs⟩, by simp⟩
    have e : addTypes (regionBase "text_region") [] = regionBase "text_region" := rfl
    rw [e]
    exact mkHdr_ok _ _ h.id h.md h.coords nodup_region hc
theorem Region.parsedL_ok (t : String) (i : PyVal) (ht : ParentTag t) : ∀ rs : List Region, Region.rawOkL rs = true →
    Region.okL t i (Region.parsedL t i rs) = true
  | [], _ => rfl
  | r :: rs, h => by
    simp only [Region.rawOkL, Bool.and_eq_true] at h
    simp only [Region.parsedL, Region.okL, Bool.and_eq_true]
    refine ⟨⟨?_, ?_⟩, Region.parsedL_ok t i ht rs h.2⟩
    · rw [Region.ok_setParent]; exact Region.parsed_ok r h.1
    · rw [Region.setParent_h]; exact Hdr.hasParent_setParent t i _ ht
end

theorem Region.rawOkL_mem : ∀ rs : List Region, Region.rawOkL rs = true → ∀ r ∈ rs, r.rawOk = true
  | [], _ => by simp
  | r :: rs, h => by
    simp only [Region.rawOkL, Bool.and_eq_true] at h
    intro x hx
    rcases List.mem_cons.mp hx with rfl | hx
    · exact h.1
    · exact Region.rawOkL_mem rs h.2 x hx

/-- **parse_pagexml_json**: the scan the parser assembles is well-formed -/
theorem Scan.parsed_ok (id : PyVal) (m : Meta) (coords : Option Pts) (ro : RO) (roa : PyVal)
    (regions : List Region) (tables : List Table) (hc : coords ≠ some []) (hro : (ro.map (·.1)).Nodup)
    (hr : Region.rawOkL regions = true) (htb : ∀ t ∈ tables, t.preOk = true) :
    (Scan.parsed id m coords ro roa regions tables).ok = true := by
  apply Scan.ctor_ok _ _ _ _ _ _ _ _ _ _ _ _ hc canon_none hro (by simp) (by simp) (by simp) _ htb
  intro r hr'
  simp only [List.mem_map] at hr'
  obtain ⟨r0, hr0, rfl⟩ := hr'
  exact Region.parsed_ok r0 (Region.rawOkL_mem regions hr r0 hr0)

end Pagexml.C06
