/-
`parse_custom_metadata_element(_list)` and the substring guards of `parse_custom_metadata`
on a rendered grammar string.
-/
import PagexmlModel.Lemmas.C11Master

namespace Pagexml.C11
open Pagexml.C03 (splitOn intercalate)

/-! ### `pat in s` -/

theorem isPrefixOf_append (pat b : List Char) : pat.isPrefixOf (pat ++ b) = true := by
  induction pat with
  | nil => simp [List.isPrefixOf]
  | cons c pat ih => simp [ih]

theorem hasGuard_append_left (cc : CharClass) (gap : Bool) (tag : List Char) (a : List Char) {s : List Char}
    (h : hasGuard cc gap tag s = true) : hasGuard cc gap tag (a ++ s) = true := by
  induction a with
  | nil => exact h
  | cons c a ih => simp [hasGuard, ih]

theorem hasGuard_of_guardAt (cc : CharClass) (gap : Bool) (tag : List Char) {s : List Char}
    (h : guardAt cc gap tag s = true) : hasGuard cc gap tag s = true := by
  cases s with
  | nil => simpa [hasGuard] using h
  | cons c s => simp [hasGuard, h]

/-- a tag called `f` makes the guard `'f {' in custom` / `re.search(r'f\s*{', custom)` true -/
theorem hasGuard_renderLaid {cc : CharClass} (hl : Lawful cc) (gap : Bool) (f : List Char) :
    ∀ (ts : List LTag) (tail : List Char),
    (∃ t ∈ ts, t.name = f) → hasGuard cc gap f (renderLaid ts tail) = true := by
  intro ts
  induction ts with
  | nil => intro tail ⟨t, ht, _⟩; simp at ht
  | cons t ts ih =>
    intro tail ⟨x, hx, hxn⟩
    rcases List.mem_cons.mp hx with rfl | hx'
    · have e : renderLaid (x :: ts) tail = x.sep ++ (x.name ++ ' ' :: '{' :: (x.body ++ '}' :: renderLaid ts tail)) := by
        simp [renderLaid, LTag.render]
      rw [e, ← hxn]
      apply hasGuard_append_left
      apply hasGuard_of_guardAt
      simp [guardAt, isPrefixOf_append, gapBrace_space_brace cc gap hl.space_is_space hl.lbrace_not_space]
    · have := ih tail ⟨x, hx', hxn⟩
      simp only [renderLaid]
      exact hasGuard_append_left _ _ _ _ this

/-! ### opening braces -/

theorem body_no_lbrace {cc : CharClass} (hl : Lawful cc) (t : LTag) (hattrs : ∀ a ∈ t.attrs, a.OK cc)
    (hclose : Blank cc t.close) (hbr : ∀ a ∈ t.attrs, '{' ∉ a.key ∧ '{' ∉ a.value) : '{' ∉ t.body := by
  have blank : ∀ {w : List Char}, Blank cc w → ∀ c ∈ w, c ≠ '{' := by
    intro w hw c hc e
    have := (hw c hc).1
    rw [e, hl.lbrace_not_space] at this
    exact absurd this (by simp)
  have hf : ∀ f ∈ t.fields, ∀ c ∈ f, c ≠ '{' := by
    intro f hf c hc
    unfold LTag.fields at hf
    rcases List.mem_append.mp hf with h | h
    · obtain ⟨a, ha, rfl⟩ := List.mem_map.mp h
      have hok := hattrs a ha
      have hb := hbr a ha
      unfold LAttr.render at hc
      simp only [List.mem_append, List.mem_cons] at hc
      rcases hc with ((h1 | h1) | h1) | h1 | (h1 | h1) | h1
      · exact blank hok.pre c h1
      · exact fun e => hb.1 (e ▸ h1)
      · exact blank hok.postKey c h1
      · subst h1; decide
      · exact blank hok.preVal c h1
      · exact fun e => hb.2 (e ▸ h1)
      · exact blank hok.postVal c h1
    · split at h
      · simp at h; subst h; exact blank hclose c hc
      · simp at h
  have hi := mem_intercalate (sep := ';') (P := fun c => c ≠ '{') (by decide) _ hf
  unfold LTag.body
  exact fun hm => hi _ hm rfl

/-! ### the repeated-element parser -/

/-- the dict a dedicated list field holds for a tag: its pairs, and `type` set to the tag name -/
def listDictOf (t : LTag) : Dict := dictSet (dictOfAttrs t.attrs []) typeKey (.str t.name)

theorem parseElementMatches_laid {cc : CharClass} (hl : Lawful cc) :
    ∀ (ts : List LTag), (∀ t ∈ ts, t.OK cc) →
      parseElementMatches cc (ts.map (fun t => (t.name, t.body))) = .ok (ts.map listDictOf) := by
  intro ts
  induction ts with
  | nil => intro _; rfl
  | cons t ts ih =>
    intro hts
    have ht : t.OK cc := hts t (by simp)
    simp only [List.map_cons, parseElementMatches, parseParts_body hl t ht.attrs ht.close,
      ih (fun x hx => hts x (by simp [hx]))]
    rfl

theorem parseElementList_laid {cc : CharClass} (hl : Lawful cc) (ts : List LTag) (tail : List Char)
    (hts : ∀ t ∈ ts, t.OK cc) (htail : NoWord cc tail) (hbr : ∀ t ∈ ts, '{' ∉ t.body)
    (fields : List (List Char)) :
    parseElementList cc (renderLaid ts tail) fields =
      .ok ((ts.filter (fun t => fields.contains t.name)).map listDictOf) := by
  unfold parseElementList findAll
  rw [scan_renderLaid hl _ _ ts tail hts htail (fun t ht _ => hbr t ht)]
  exact parseElementMatches_laid hl _ (fun t ht => hts t (List.mem_filter.mp ht).1)

theorem parseElement_laid {cc : CharClass} (hl : Lawful cc) (ts : List LTag) (tail : List Char)
    (hts : ∀ t ∈ ts, t.OK cc) (htail : NoWord cc tail) (hbr : ∀ t ∈ ts, '{' ∉ t.body)
    (field : List Char) :
    parseElement cc (renderLaid ts tail) field =
      match ts.find? (fun t => t.name = field) with
      | some t => .ok (dictOfAttrs t.attrs [])
      | none => .error .ValueError := by
  unfold parseElement findAll
  rw [scan_renderLaid hl _ _ ts tail hts htail (fun t ht _ => hbr t ht)]
  induction ts with
  | nil => rfl
  | cons t ts ih =>
    by_cases hn : t.name = field
    · have ht : t.OK cc := hts t (by simp)
      simp [hn, parseParts_body hl t ht.attrs ht.close]
    · simp only [List.filter_cons, List.find?_cons, hn, decide_false, Bool.false_eq_true, if_false]
      exact ih (fun x hx => hts x (by simp [hx])) (fun x hx => hbr x (by simp [hx]))

end Pagexml.C11
