/-
Fuel of the two recursions over the object graph (`set_scan_id`, `set_parentage`): the
recursion succeeds whenever the nesting depth below the start node is smaller than the fuel.
-/
import PagexmlModel.Lemmas.C02Ops

namespace Pagexml.C02

/-- `Height σ n d`: `n` is an object and every chain of child links starting at `n` has at most
    `d` nodes (so the structure below `n` is finite and acyclic) -/
inductive Height (σ : Store) : Nat → Nat → Prop
  | mk {n d : Nat} {nd : Node} : σ.get? n = some nd → (∀ c ∈ nd.allKids, Height σ c d) → Height σ n (d + 1)

theorem Height.mono {σ : Store} {n d : Nat} (h : Height σ n d) : ∀ d', d ≤ d' → Height σ n d' := by
  induction h with
  | @mk n d nd g _ ih =>
    intro d' hd
    cases d' with
    | zero => omega
    | succ d' => exact .mk g (fun c hc => ih c hc d' (by omega))

theorem Height.transfer {σ σ' : Store} (se : ShapeEq σ σ') {n d : Nat} (h : Height σ n d) : Height σ' n d := by
  induction h with
  | @mk n d nd g _ ih =>
    obtain ⟨nd', g', _, hall, _⟩ := se.2 n nd g
    exact .mk g' (fun c hc => ih c (hall ▸ hc))

/-- `set_scan_id` succeeds when the depth below the start node is within the fuel -/
theorem setScanId_ok : ∀ (f : Nat) (σ : Store) (n : Nat) (v : MVal), Height σ n f →
    ∃ σ', setScanId f σ n v = .ok σ' := by
  intro f
  induction f with
  | zero => intro σ n v h; cases h
  | succ f ih =>
    intro σ n v h
    cases h with
    | @mk _ _ nd g hk =>
      simp only [setScanId, g]
      -- the fold over the children: every intermediate store has the shape of `σ`
      have fold : ∀ (L : List Nat) (τ : Store), ShapeEq σ τ → (∀ c ∈ L, Height σ c f) →
          ∃ τ', L.foldlM (fun s c => setScanId f s c v) τ = .ok τ' := by
        intro L
        induction L with
        | nil => intro τ _ _; exact ⟨τ, rfl⟩
        | cons c L ihL =>
          intro τ se hL
          obtain ⟨τ₁, h₁⟩ := ih τ c v ((hL c (by simp)).transfer se)
          have se₁ : ShapeEq τ τ₁ := (setScanId_spec _ _ _ _ _ h₁).rel.shapeEq
          obtain ⟨τ', h'⟩ := ihL τ₁ (se.trans se₁) (fun d hd => hL d (by simp [hd]))
          exact ⟨τ', by rw [List.foldlM_cons, h₁]; exact h'⟩
      exact fold nd.allKids _ (shapeEq_upd_link σ n _ (fun _ => ⟨rfl, rfl, rfl, rfl, rfl⟩)) hk

/-- `set_parentage` succeeds when the depth below the start node is within the fuel
    (on a store satisfying the invariant, whose re-linking steps keep the shape) -/
theorem setParentage_ok : ∀ (f : Nat) (σ : Store) (p : Nat), Inv σ → Height σ p f →
    ∃ σ', setParentage f σ p = .ok σ' := by
  intro f
  induction f with
  | zero => intro σ p _ h; cases h
  | succ f ih =>
    intro σ p hI h
    cases h with
    | @mk _ _ nd g hk =>
      have fold : ∀ (L : List Nat) (τ : Store), Inv τ → ShapeEq σ τ → (∀ c ∈ L, Height σ c f) →
          ∃ τ', L.foldlM (fun s c => setParentage f s c) τ = .ok τ' ∧ Inv τ' ∧ ShapeEq σ τ' := by
        intro L
        induction L with
        | nil => intro τ hτ se _; exact ⟨τ, rfl, hτ, se⟩
        | cons c L ihL =>
          intro τ hτ se hL
          obtain ⟨τ₁, h₁⟩ := ih τ c hτ ((hL c (by simp)).transfer se)
          obtain ⟨i₁, s₁⟩ := inv_setParentage _ _ _ _ hτ h₁
          obtain ⟨τ', h', i', s'⟩ := ihL τ₁ i₁ (se.trans s₁) (fun d hd => hL d (by simp [hd]))
          exact ⟨τ', by rw [List.foldlM_cons, h₁]; exact h', i', s'⟩
      have round : ∀ (L : List Nat) (τ : Store), Inv τ → ShapeEq σ τ → (∀ c ∈ L, c ∈ nd.allKids) →
          ∃ τ', L.foldlM (fun s c => setParentage f s c) (setAsParent τ p L) = .ok τ' ∧ Inv τ' ∧ ShapeEq σ τ' := by
        intro L τ hτ se hL
        obtain ⟨nd', g', _, hall, _⟩ := se.2 p nd g
        obtain ⟨i₁, s₁⟩ := inv_setAsParent_listed L hτ g' (fun c hc => hall ▸ hL c hc)
        exact fold L _ i₁ (se.trans s₁) (fun c hc => hk c (hL c hc))
      simp only [setParentage, g]
      obtain ⟨σ₁, e₁, i₁, s₁⟩ := round nd.pages σ hI (ShapeEq.rfl' _)
        (fun c hc => by simp only [Node.allKids, List.mem_append]; grind)
      obtain ⟨σ₂, e₂, i₂, s₂⟩ := round nd.columns σ₁ i₁ s₁
        (fun c hc => by simp only [Node.allKids, List.mem_append]; grind)
      obtain ⟨σ₃, e₃, i₃, s₃⟩ := round nd.regions σ₂ i₂ s₂
        (fun c hc => by simp only [Node.allKids, List.mem_append]; grind)
      obtain ⟨σ₄, e₄, i₄, s₄⟩ := round nd.lines σ₃ i₃ s₃
        (fun c hc => by simp only [Node.allKids, List.mem_append]; grind)
      obtain ⟨σ₅, e₅, _, _⟩ := round nd.words σ₄ i₄ s₄
        (fun c hc => by simp only [Node.allKids, List.mem_append]; grind)
      exact ⟨σ₅, by simp only [e₁, e₂, e₃, e₄, bind, Except.bind]; exact e₅⟩

end Pagexml.C02
