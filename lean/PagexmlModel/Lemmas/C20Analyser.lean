/-
The line analysers as folds (C20): what a corpus contributes to each counter, well-formed
corpora never raise, the invariants `merge_analysers` relies on.
-/
import PagexmlModel.Lemmas.C20Counter

set_option linter.unusedSectionVars false
set_option linter.unusedSimpArgs false

namespace Pagexml.C20

variable {L α : Type} [DecidableEq α]

/-! ### the pieces of a token list -/

/-- the first token (as a list of length ≤ 1) -/
def startOf (ws : List α) : List α := ws.take 1
/-- the tokens strictly between the first and the last -/
def midOf (ws : List α) : List α := (ws.drop 1).dropLast
/-- the last token, for words: also of a one-token line -/
def endW : List α → List α
  | [] => []
  | w :: rest => [(w :: rest).getLast (by simp)]
/-- the last token, for characters: only of a line with more than one character -/
def endC (ws : List α) : List α := if 1 < ws.length then endW ws else []

/-- a line of at least two tokens is its first token, its middle tokens and its last token -/
theorem line_partition (ws : List α) (h : 2 ≤ ws.length) : ws = startOf ws ++ midOf ws ++ endW ws := by
  match ws, h with
  | w :: r :: rs, _ =>
    simp only [startOf, midOf, endW, List.take_succ_cons, List.take_zero, List.drop_succ_cons, List.drop_zero,
      List.cons_append, List.nil_append, List.cons.injEq, true_and]
    rw [List.getLast_cons_cons]
    exact (List.dropLast_concat_getLast (by simp)).symm

theorem endC_of_two (ws : List α) (h : 2 ≤ ws.length) : endC ws = endW ws := by
  simp only [endC]; split
  · rfl
  · omega

theorem line_single (w : α) :
    startOf [w] = [w] ∧ midOf [w] = [] ∧ endW [w] = [w] ∧ endC [w] = ([] : List α) := by
  simp [startOf, midOf, endW, endC]

theorem line_empty : startOf ([] : List α) = [] ∧ midOf ([] : List α) = [] ∧ endW ([] : List α) = [] ∧
    endC ([] : List α) = [] := by
  simp [startOf, midOf, endW, endC]

theorem length_startOf (ws : List α) : (startOf ws).length = if ws = [] then 0 else 1 := by
  cases ws <;> simp [startOf]

theorem length_endW (ws : List α) : (endW ws).length = if ws = [] then 0 else 1 := by
  cases ws <;> simp [endW]

theorem length_endC (ws : List α) : (endC ws).length = if 1 < ws.length then 1 else 0 := by
  unfold endC
  split
  · rw [length_endW]; split
    · next h => subst h; simp at *
    · rfl
  · rfl

theorem length_midOf (ws : List α) : (midOf ws).length = ws.length - 2 := by
  simp [midOf]; omega

/-! ### one step, generically -/

/-- one analysed line: `e` picks the end tokens, `k` is the line-count increment -/
def stepG (e : List α → List α) (k : Nat) (a : Analyser α) (ws : List α) : Analyser α :=
  { all := cupdate a.all ws, start := cupdate a.start (startOf ws), mid := cupdate a.mid (midOf ws),
    end_ := cupdate a.end_ (e ws), numLines := a.numLines + k }

theorem wordsStep_eq (a : Analyser α) (ws : List α) : wordsStep a ws = stepG endW 1 a ws := by
  cases ws with
  | nil => rfl
  | cons w rest => rfl

theorem charsStep_eq (a : Analyser α) (ws : List α) (h : ws ≠ []) :
    charsStep a ws = .ok (stepG endC 0 a ws) := by
  match ws, h with
  | [c], _ => rfl
  | c :: r :: rs, _ =>
    simp only [charsStep, stepG, startOf, midOf, endC, endW, List.length_cons]
    have h1 : 1 < rs.length + 1 + 1 := by omega
    simp only [h1, if_true, List.take_succ_cons, List.take_zero, List.drop_succ_cons, List.drop_zero,
      List.getLast_cons_cons, Nat.add_zero]

theorem cupdate_append (c : Counter α) (xs ys : List α) :
    cupdate c (xs ++ ys) = cupdate (cupdate c xs) ys := by
  simp [cupdate, List.foldl_append]

/-- the analyser after a list of token lists: every counter is one `update` with the
    concatenated pieces -/
theorem foldG_eq (e : List α → List α) (k : Nat) (a : Analyser α) (tls : List (List α)) :
    tls.foldl (stepG e k) a =
      { all := cupdate a.all tls.flatten, start := cupdate a.start (tls.flatMap startOf),
        mid := cupdate a.mid (tls.flatMap midOf), end_ := cupdate a.end_ (tls.flatMap e),
        numLines := a.numLines + k * tls.length } := by
  induction tls generalizing a with
  | nil => simp [cupdate]
  | cons ws r ih =>
    simp only [List.foldl_cons, ih, stepG, List.flatten_cons, List.flatMap_cons, cupdate_append,
      List.length_cons]
    congr 1
    rw [Nat.mul_add]; omega

/-! ### well-formed corpora -/

/-- a corpus without malformed elements: `none` = no text (None), `some t` = text `t` -/
def corpusIn (c : List (Option L)) : List (LineIn L) :=
  c.map (fun o => match o with | none => LineIn.none | some t => LineIn.text t)

/-- the texts `_iter_lines` yields: the non-empty ones (text neither None nor ''),
    lower-cased under ignorecase -/
def yielded (ops : LineOps L α) (ic : Bool) (c : List (Option L)) : List L :=
  c.filterMap (fun o => match o with
    | none => none
    | some t => if ops.isEmpty t then none else some (if ic then ops.lower t else t))

/-- the token lists of the yielded lines -/
def tokenLists (ops : LineOps L α) (ic : Bool) (c : List (Option L)) : List (List α) :=
  (yielded ops ic c).map ops.tok

theorem yielded_append (ops : LineOps L α) (ic : Bool) (c d : List (Option L)) :
    yielded ops ic (c ++ d) = yielded ops ic c ++ yielded ops ic d := by
  simp [yielded, List.filterMap_append]

theorem tokenLists_append (ops : LineOps L α) (ic : Bool) (c d : List (Option L)) :
    tokenLists ops ic (c ++ d) = tokenLists ops ic c ++ tokenLists ops ic d := by
  simp [tokenLists, yielded_append]

theorem tokenLists_flatten (ops : LineOps L α) (ic : Bool) (cs : List (List (Option L))) :
    tokenLists ops ic cs.flatten = (cs.map (tokenLists ops ic)).flatten := by
  induction cs with
  | nil => rfl
  | cons c r ih => simp [tokenLists_append, ih]

theorem analyseWords_corpus (ops : LineOps L α) (ic : Bool) (a : Analyser α) (c : List (Option L)) :
    analyseWords ops ic a (corpusIn c) = .ok ((tokenLists ops ic c).foldl (stepG endW 1) a) := by
  induction c generalizing a with
  | nil => rfl
  | cons o r ih =>
    cases o with
    | none => simpa [corpusIn, analyseWords, prepLine, tokenLists, yielded] using ih a
    | some t =>
      by_cases he : ops.isEmpty t = true
      · simpa [corpusIn, analyseWords, prepLine, tokenLists, yielded, he] using ih a
      · have he' : ops.isEmpty t = false := by simpa using he
        simp only [corpusIn, List.map_cons, analyseWords, prepLine, he', Bool.false_eq_true, if_false,
          tokenLists, yielded, List.filterMap_cons, List.foldl_cons]
        rw [wordsStep_eq]
        exact ih _

theorem analyseChars_corpus (ops : LineOps L α) (ic : Bool) (a : Analyser α) (c : List (Option L))
    (hne : ∀ ws ∈ tokenLists ops ic c, ws ≠ []) :
    analyseChars ops ic a (corpusIn c) = .ok ((tokenLists ops ic c).foldl (stepG endC 0) a) := by
  induction c generalizing a with
  | nil => rfl
  | cons o r ih =>
    cases o with
    | none =>
      have := ih a (by simpa [tokenLists, yielded] using hne)
      simpa [corpusIn, analyseChars, prepLine, tokenLists, yielded] using this
    | some t =>
      by_cases he : ops.isEmpty t = true
      · have := ih a (by simpa [tokenLists, yielded, he] using hne)
        simpa [corpusIn, analyseChars, prepLine, tokenLists, yielded, he] using this
      · have he' : ops.isEmpty t = false := by simpa using he
        have hne' : ∀ ws ∈ tokenLists ops ic r, ws ≠ [] := by
          intro ws hws
          apply hne
          simp only [tokenLists, yielded, List.filterMap_cons, he', Bool.false_eq_true, if_false, List.map_cons,
            List.mem_cons]
          right; simpa [tokenLists, yielded] using hws
        have h0 : ops.tok (if ic then ops.lower t else t) ≠ [] := by
          apply hne
          simp [tokenLists, yielded, he']
        simp only [corpusIn, List.map_cons, analyseChars, prepLine, he', Bool.false_eq_true, if_false,
          tokenLists, yielded, List.filterMap_cons, List.foldl_cons]
        rw [charsStep_eq _ _ h0]
        exact ih _ hne'

/-! ### malformed elements raise -/

theorem analyseWords_bad (ops : LineOps L α) (ic : Bool) (a : Analyser α) (c : List (Option L))
    (rest : List (LineIn L)) :
    analyseWords ops ic a (corpusIn c ++ LineIn.dictNoText :: rest) = .error .KeyError ∧
    analyseWords ops ic a (corpusIn c ++ LineIn.badType :: rest) = .error .TypeError := by
  induction c generalizing a with
  | nil => exact ⟨rfl, rfl⟩
  | cons o r ih =>
    cases o with
    | none => simpa [corpusIn, analyseWords, prepLine] using ih a
    | some t =>
      by_cases he : ops.isEmpty t = true
      · simpa [corpusIn, analyseWords, prepLine, he] using ih a
      · have he' : ops.isEmpty t = false := by simpa using he
        simpa [corpusIn, analyseWords, prepLine, he'] using ih _

/-! ### totals of `sum`s used in the statements -/

theorem length_flatMap_sum {β : Type} (f : β → List α) (l : List β) :
    (l.flatMap f).length = (l.map (fun x => (f x).length)).sum := by
  induction l with
  | nil => rfl
  | cons x r ih => simp [List.flatMap_cons, ih]

theorem count_flatMap_sum {β : Type} (f : β → List α) (l : List β) (t : α) :
    (l.flatMap f).count t = (l.map (fun x => (f x).count t)).sum := by
  induction l with
  | nil => rfl
  | cons x r ih => simp [List.flatMap_cons, List.count_append, ih]

theorem sum_map_ite_length {β : Type} (p : β → Prop) [DecidablePred p] (l : List β) :
    (l.map (fun x => if p x then 1 else 0)).sum = (l.filter (fun x => decide (p x))).length := by
  induction l with
  | nil => rfl
  | cons x r ih =>
    by_cases h : p x <;> simp [List.filter_cons, h, ih] <;> omega

/-! ### Except helpers -/

theorem mapM_ok {β γ : Type} (f : β → γ) (l : List β) :
    l.mapM (fun x => (Except.ok (f x) : Res γ)) = .ok (l.map f) := by
  induction l with
  | nil => rfl
  | cons x r ih => simp [List.mapM_cons, ih, bind, Except.bind, pure, Except.pure]

theorem mapM_ok_of_forall {β γ : Type} (f : β → Res γ) (l : List β)
    (h : ∀ x ∈ l, ∃ y, f x = .ok y) : ∃ ys, l.mapM f = .ok ys ∧ ys.length = l.length := by
  induction l with
  | nil => exact ⟨[], rfl, rfl⟩
  | cons x r ih =>
    obtain ⟨y, hy⟩ := h x (by simp)
    obtain ⟨ys, hys, hl⟩ := ih (fun z hz => h z (List.mem_cons_of_mem _ hz))
    refine ⟨y :: ys, ?_, by simp [hl]⟩
    simp [List.mapM_cons, hy, hys, bind, Except.bind, pure, Except.pure]

end Pagexml.C20
