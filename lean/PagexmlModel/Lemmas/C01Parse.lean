/-
C01: the dict of each rendered element, and what the parser functions make of it.
-/
import PagexmlModel.Model.C01
import PagexmlModel.Lemmas.XmlDict
import PagexmlModel.Lemmas.PyInt
import PagexmlModel.Lemmas.Split
import PagexmlModel.Props.C03

set_option linter.unusedSimpArgs false

namespace Pagexml.C01
open Pagexml.X
open Pagexml.C03 (Pt Coords mkCoords coordsOfStr pointString parsePointsStr minL maxL)

/-! ### generic: the dict of an element whose children come in tag groups -/

theorem lookup_append_or (k : String) (a b : Entries) :
    lookup k (a ++ b) = (lookup k a).or (lookup k b) := by
  rw [lookup_append]; cases lookup k a <;> rfl

theorem attrEntries_append (a b : List (String × String)) :
    attrEntries (a ++ b) = attrEntries a ++ attrEntries b := by simp [attrEntries]

theorem attrEntries_optAttr (k : String) (o : Option String) :
    attrEntries (optAttr k o) = match o with
      | none => []
      | some v => [("@" ++ k, PyVal.str v)] := by
  cases o <;> rfl

theorem lookup_optAttr (k a : String) (o : Option String) :
    lookup k (attrEntries (optAttr a o)) = if "@" ++ a = k then o.map PyVal.str else none := by
  cases o <;> simp [optAttr, attrEntries, lookup_cons]

theorem lookup_attr_cons (k a v : String) (r : List (String × String)) :
    lookup k (attrEntries ((a, v) :: r)) = if "@" ++ a = k then some (.str v) else lookup k (attrEntries r) := by
  simp [attrEntries, lookup_cons]

theorem lookup_groupEntry (k t : String) (vs : List PyVal) :
    lookup k (groupEntry t vs) = if t = k ∧ vs ≠ [] then some (collapse vs) else none := by
  unfold groupEntry
  cases vs with
  | nil => simp
  | cons v vs => simp [lookup_cons]

theorem not_mem_attr_keys (t : String) (attrs : List (String × String)) (h : t.toList.head? ≠ some '@') :
    t ∉ keys (attrEntries attrs) := by
  rw [keys_attrEntries]
  intro hm
  obtain ⟨kv, _, e⟩ := List.mem_map.mp hm
  apply h
  rw [← e]
  simp

theorem toDictList_group (t : String) (xs : List Xml) (h : ∀ x ∈ xs, x.tag = t) :
    toDictList xs = (xs.map toDict).map (fun v => (t, v)) := by
  rw [toDictList_eq_map]
  simp only [List.map_map]
  apply List.map_congr_left
  intro x hx
  simp [h x hx]

theorem toDictList_groups (gs : List (String × List Xml)) (htag : ∀ g ∈ gs, ∀ x ∈ g.2, x.tag = g.1) :
    toDictList (gs.flatMap (·.2)) = groupPushes (gs.map (fun g => (g.1, g.2.map toDict))) := by
  induction gs with
  | nil => rfl
  | cons g gs ih =>
    simp only [List.flatMap_cons, toDictList_append, List.map_cons, groupPushes]
    rw [toDictList_group g.1 g.2 (htag g (by simp)), ih (fun g' hg' => htag g' (by simp [hg']))]
    rfl

/-- the dict of a container element whose children are consecutive groups of equal tags -/
theorem toDict_groups (t : String) (attrs : List (String × String)) (gs : List (String × List Xml))
    (htag : ∀ g ∈ gs, ∀ x ∈ g.2, x.tag = g.1) (hnd : (gs.map (·.1)).Nodup)
    (hat : ∀ g ∈ gs, g.1.toList.head? ≠ some '@') :
    toDict (.elem t attrs "" (gs.flatMap (·.2))) =
      if (attrEntries attrs ++ groupsEntries (gs.map (fun g => (g.1, g.2.map toDict)))).isEmpty then .none
      else .dict (attrEntries attrs ++ groupsEntries (gs.map (fun g => (g.1, g.2.map toDict)))) := by
  rw [toDict_elem, toDictList_groups gs htag, pushAll_groups, finish_container]
  · simpa [List.map_map, Function.comp_def] using hnd
  · intro g hg
    obtain ⟨g0, hg0, rfl⟩ := List.mem_map.mp hg
    exact not_mem_attr_keys _ _ (hat g0 hg0)
  · intro g hg v hv
    obtain ⟨g0, hg0, rfl⟩ := List.mem_map.mp hg
    obtain ⟨x, _, rfl⟩ := List.mem_map.mp hv
    exact isList_toDict x

/-! ### Coords / Baseline -/

theorem mkCoords_boxOf (ps : List Pt) (h : ps ≠ []) : mkCoords ps = .ok (boxOf ps) := by
  cases ps with
  | nil => exact absurd rfl h
  | cons p ps => simp [mkCoords, minL, maxL, boxOf, bind, Except.bind, pure, Except.pure]

theorem pointString_ne_nil (ps : List Pt) (h : ps ≠ []) : pointString ps ≠ [] := by
  cases ps with
  | nil => exact absurd rfl h
  | cons p ps =>
    have hp : C03.ptString p ≠ [] := by
      unfold C03.ptString
      simp
    cases ps with
    | nil => simpa [pointString, C03.intercalate] using hp
    | cons q qs => simp [pointString, C03.intercalate, hp]

theorem pointsStr_ne_empty (ps : List Pt) (h : ps ≠ []) : pointsStr ps ≠ "" := by
  intro e
  have : (pointsStr ps).toList = "".toList := by rw [e]
  simp [pointsStr] at this
  exact pointString_ne_nil ps h this

theorem toDict_renderPoints (tag : String) (ps : List Pt) :
    toDict (renderPoints tag ps) = .dict [("@points", .str (pointsStr ps))] := by
  simp [renderPoints, toDict_elem, toDictList, pushAll_nil, finish_container, attrEntries]

theorem parseCoords_points (ps : List Pt) (h : ps ≠ []) :
    parseCoords (.dict [("@points", .str (pointsStr ps))]) = .ok (some (boxOf ps)) := by
  have hs := pointsStr_ne_empty ps h
  have hc : coordsOfStr (pointsStr ps).toList = .ok (boxOf ps) := by
    have := (C03.C03_both_forms_agree ps h).1
    simp only [pointsStr, String.toList_ofList]
    rw [this, mkCoords_boxOf ps h]
  simp [parseCoords, pyIn, pyGet, lookup_cons, hs, hc, bind, Except.bind, Functor.map, Except.map]

theorem parseBaseline_points (ps : List Pt) (h : ps ≠ []) :
    parseBaseline (.dict [("@points", .str (pointsStr ps))]) = .ok (boxOf ps) := by
  have hs := pointsStr_ne_empty ps h
  have hc : coordsOfStr (pointsStr ps).toList = .ok (boxOf ps) := by
    have := (C03.C03_both_forms_agree ps h).1
    simp only [pointsStr, String.toList_ofList]
    rw [this, mkCoords_boxOf ps h]
  simp [parseBaseline, pyGet, lookup_cons, hs, hc, bind, Except.bind]

/-! ### TextEquiv -/

def teEntries (te : SrcTE) : Entries :=
  attrEntries (optAttr "conf" te.conf) ++ groupEntry "PlainText" ((te.plain.map textVal).toList)
    ++ groupEntry "Unicode" [textVal te.unicode]

theorem tag_textElem (t x : String) : (textElem t x).tag = t := rfl

theorem toDict_textElem (t x : String) : toDict (textElem t x) = textVal x := toDict_text t x

theorem toDict_renderTE (te : SrcTE) : toDict (renderTE te) = .dict (teEntries te) := by
  have e : renderTE te = .elem "TextEquiv" (optAttr "conf" te.conf) ""
      ([("PlainText", (te.plain.map (textElem "PlainText")).toList),
        ("Unicode", [textElem "Unicode" te.unicode])].flatMap (·.2)) := by
    simp [renderTE]
  rw [e, toDict_groups]
  · simp [groupsEntries, teEntries, groupEntry, toDict_textElem]
    cases te.plain <;> simp [toDict_textElem]
  · intro g hg x hx
    simp at hg
    rcases hg with rfl | rfl
    · cases h : te.plain <;> simp [h] at hx
      subst hx; rfl
    · simp at hx; subst hx; rfl
  · simp
  · intro g hg
    simp at hg
    rcases hg with rfl | rfl <;> simp


theorem lookup_te_unicode (te : SrcTE) : lookup "Unicode" (teEntries te) = some (textVal te.unicode) := by
  simp [teEntries, lookup_append_or, lookup_optAttr, lookup_groupEntry, collapse]

theorem lookup_te_conf (te : SrcTE) : lookup "@conf" (teEntries te) = te.conf.map PyVal.str := by
  simp [teEntries, lookup_append_or, lookup_optAttr, lookup_groupEntry]

theorem optStrAttr_of_lookup (k : String) (d : Entries) (o : Option String)
    (h : lookup k d = o.map PyVal.str) : optStrAttr k d = .ok o := by
  unfold optStrAttr
  rw [h]
  cases o <;> rfl

/-! ### Word -/

def wordEntries (w : SrcWord) : Entries :=
  attrEntries (optAttr "id" w.id ++ optAttr "custom" w.custom)
    ++ groupEntry "Coords" [.dict [("@points", .str (pointsStr w.coords))]]
    ++ groupEntry "TextEquiv" ((w.te.map (fun te => PyVal.dict (teEntries te))).toList)

theorem tag_renderPoints (t : String) (ps : List Pt) : (renderPoints t ps).tag = t := rfl
theorem tag_renderTE (te : SrcTE) : (renderTE te).tag = "TextEquiv" := rfl
theorem tag_renderWord (w : SrcWord) : (renderWord w).tag = "Word" := rfl

theorem toDict_renderWord (w : SrcWord) : toDict (renderWord w) = .dict (wordEntries w) := by
  have e : renderWord w = .elem "Word" (optAttr "id" w.id ++ optAttr "custom" w.custom) ""
      ([("Coords", [renderPoints "Coords" w.coords]),
        ("TextEquiv", (w.te.map renderTE).toList)].flatMap (·.2)) := by
    simp [renderWord]
  rw [e, toDict_groups]
  · simp [groupsEntries, wordEntries, groupEntry, toDict_renderPoints]
    cases w.te <;> simp [toDict_renderTE]
  · intro g hg x hx
    simp at hg
    rcases hg with rfl | rfl
    · simp at hx; subst hx; rfl
    · cases h : w.te <;> simp [h] at hx
      subst hx; rfl
  · simp
  · intro g hg
    simp at hg
    rcases hg with rfl | rfl <;> simp

theorem parseWord_render (w : SrcWord) (h : w.coords ≠ []) :
    parseWord (toDict (renderWord w)) = .ok (mirrorWord w) := by
  rw [toDict_renderWord]
  have hid : optStrAttr "@id" (wordEntries w) = .ok w.id :=
    optStrAttr_of_lookup _ _ _ (by
      simp [wordEntries, attrEntries_append, lookup_append_or, lookup_optAttr, lookup_groupEntry])
  have hco : lookup "Coords" (wordEntries w) = some (.dict [("@points", .str (pointsStr w.coords))]) := by
    simp [wordEntries, attrEntries_append, lookup_append_or, lookup_optAttr, lookup_groupEntry, collapse]
  have hte : lookup "TextEquiv" (wordEntries w) = w.te.map (fun te => PyVal.dict (teEntries te)) := by
    simp [wordEntries, attrEntries_append, lookup_append_or, lookup_optAttr, lookup_groupEntry]
    cases w.te <;> simp [collapse]
  have hpc := parseCoords_points w.coords h
  unfold parseWord
  simp only [hid, hte, pyGet, hco]
  cases hw : w.te with
  | none => simp [mirrorWord, hw, hpc, bind, Except.bind, pure, Except.pure]
  | some te =>
    simp only [Option.map_some, pyGet, lookup_te_unicode, optStrAttr_of_lookup _ _ _ (lookup_te_conf te)]
    unfold textVal
    split <;> simp [mirrorWord, hw, hpc, bind, Except.bind, pure, Except.pure, textVal, *]


theorem mapM_map_ok {α β γ : Type} (f : β → Res γ) (g : α → β) (h : α → γ) (l : List α)
    (hl : ∀ x ∈ l, f (g x) = .ok (h x)) : (l.map g).mapM f = .ok (l.map h) := by
  induction l with
  | nil => rfl
  | cons x xs ih =>
    simp only [List.map_cons, List.mapM_cons, hl x (by simp), ih (fun y hy => hl y (by simp [hy]))]
    rfl

theorem parseWords_of_lookup (d : Entries) (ws : List SrcWord) (hws : ∀ w ∈ ws, w.coords ≠ [])
    (hl : lookup "Word" d = if ws = [] then none else some (collapse (ws.map (fun w => toDict (renderWord w))))) :
    parseWords d = .ok (ws.map mirrorWord) := by
  unfold parseWords
  rw [hl]
  match ws, hws with
  | [], _ => rfl
  | [w], hws =>
    have := parseWord_render w (hws w (by simp))
    rw [toDict_renderWord] at this
    simp [collapse, toDict_renderWord, this, bind, Except.bind, pure, Except.pure]
  | w1 :: w2 :: rest, hws =>
    have := mapM_map_ok parseWord (fun w => toDict (renderWord w)) mirrorWord (w1 :: w2 :: rest)
      (fun w hw => parseWord_render w (hws w hw))
    simp only [collapse]
    simpa using this

/-! ### TextLine -/

def lineEntries (l : SrcLine) : Entries :=
  attrEntries (optAttr "id" l.id ++ optAttr "custom" l.custom ++ optAttr "xheight" (l.xheight.map intStr))
    ++ groupEntry "Coords" [.dict [("@points", .str (pointsStr l.coords))]]
    ++ groupEntry "Baseline" ((l.baseline.map (fun ps => PyVal.dict [("@points", .str (pointsStr ps))])).toList)
    ++ groupEntry "Word" (l.words.map (fun w => toDict (renderWord w)))
    ++ groupEntry "TextEquiv" ((l.te.map (fun te => PyVal.dict (teEntries te))).toList)

theorem tag_renderLine (l : SrcLine) : (renderLine l).tag = "TextLine" := rfl

theorem toDict_renderLine (l : SrcLine) : toDict (renderLine l) = .dict (lineEntries l) := by
  have e : renderLine l = .elem "TextLine"
      (optAttr "id" l.id ++ optAttr "custom" l.custom ++ optAttr "xheight" (l.xheight.map intStr)) ""
      ([("Coords", [renderPoints "Coords" l.coords]),
        ("Baseline", (l.baseline.map (renderPoints "Baseline")).toList),
        ("Word", l.words.map renderWord),
        ("TextEquiv", (l.te.map renderTE).toList)].flatMap (·.2)) := by
    simp [renderLine]
  rw [e, toDict_groups]
  · simp [groupsEntries, lineEntries, groupEntry, toDict_renderPoints]
    cases l.te <;> cases l.baseline <;> simp [toDict_renderTE, toDict_renderPoints, Function.comp_def]
  · intro g hg x hx
    simp at hg
    rcases hg with rfl | rfl | rfl | rfl
    · simp at hx; subst hx; rfl
    · cases h : l.baseline <;> simp [h] at hx
      subst hx; rfl
    · simp at hx
      obtain ⟨w, _, rfl⟩ := hx
      rfl
    · cases h : l.te <;> simp [h] at hx
      subst hx; rfl
  · simp
  · intro g hg
    simp at hg
    rcases hg with rfl | rfl | rfl | rfl <;> simp


theorem teEntries_ne_nil (te : SrcTE) : teEntries te ≠ [] := by
  simp [teEntries, groupEntry]

theorem parseTextEquiv_te (te : SrcTE) :
    parseTextEquiv (.dict (teEntries te)) = .ok (txtOf (textVal te.unicode)) := by
  simp [parseTextEquiv, pyIn, pyGet, lookup_te_unicode, bind, Except.bind, Functor.map, Except.map]

theorem parseConf_te (te : SrcTE) (h : confOk (some te) = true) :
    parseConf (.dict (teEntries te)) = .ok (mirrorConf (some te)) := by
  have hne : (teEntries te).isEmpty = false := by
    cases h' : teEntries te with
    | nil => exact absurd h' (teEntries_ne_nil te)
    | cons _ _ => rfl
  unfold parseConf
  simp only [truthy, hne, pyIn, pyGet, lookup_te_conf]
  cases hc : te.conf with
  | none => simp [mirrorConf, hc, bind, Except.bind, pure, Except.pure]
  | some c =>
    simp only [confOk, hc] at h
    by_cases hce : c = ""
    · simp [mirrorConf, hc, hce, bind, Except.bind, pure, Except.pure]
    · have hf : isFloatLit c = true := by simpa [hce] using h
      simp [mirrorConf, hc, hce, pyFloat, hf, bind, Except.bind, pure, Except.pure, Functor.map, Except.map]

theorem pyIntStr_intStr (i : Int) : pyIntStr (intStr i) = .ok i := by
  simp [pyIntStr, intStr, pyInt_showInt]

theorem parseLine_render (l : SrcLine) (h : lineOk l = true) :
    parseLine (toDict (renderLine l)) = .ok (mirrorLine l) := by
  rw [toDict_renderLine]
  simp only [lineOk, Bool.and_eq_true, Bool.not_eq_true', List.all_eq_true, bne_iff_ne, ne_eq] at h
  obtain ⟨⟨⟨hco, hba⟩, hcf⟩, hws⟩ := h
  have hco' : l.coords ≠ [] := by
    intro e; rw [e] at hco; simp at hco
  have hws' : ∀ w ∈ l.words, w.coords ≠ [] := by
    intro w hw e
    have := hws w hw
    simp [wordOk, e] at this
  have hid : optStrAttr "@id" (lineEntries l) = .ok l.id :=
    optStrAttr_of_lookup _ _ _ (by
      simp [lineEntries, attrEntries_append, lookup_append_or, lookup_optAttr, lookup_groupEntry])
  have hxh : lookup "@xheight" (lineEntries l) = (l.xheight.map intStr).map PyVal.str := by
    simp [lineEntries, attrEntries_append, lookup_append_or, lookup_optAttr, lookup_groupEntry]
  have hcl : lookup "Coords" (lineEntries l) = some (.dict [("@points", .str (pointsStr l.coords))]) := by
    simp [lineEntries, attrEntries_append, lookup_append_or, lookup_optAttr, lookup_groupEntry, collapse]
  have hbl : lookup "Baseline" (lineEntries l)
      = l.baseline.map (fun ps => PyVal.dict [("@points", .str (pointsStr ps))]) := by
    simp [lineEntries, attrEntries_append, lookup_append_or, lookup_optAttr, lookup_groupEntry]
    cases l.baseline <;> simp [collapse]
  have hte : lookup "TextEquiv" (lineEntries l) = l.te.map (fun te => PyVal.dict (teEntries te)) := by
    simp [lineEntries, attrEntries_append, lookup_append_or, lookup_optAttr, lookup_groupEntry]
    cases l.te <;> simp [collapse]
  have hwl : lookup "Word" (lineEntries l)
      = if l.words = [] then none else some (collapse (l.words.map (fun w => toDict (renderWord w)))) := by
    simp [lineEntries, attrEntries_append, lookup_append_or, lookup_optAttr, lookup_groupEntry]
  have hwords := parseWords_of_lookup (lineEntries l) l.words hws' hwl
  have hpc := parseCoords_points l.coords hco'
  unfold parseLine
  simp only [hid, hxh, hte, hbl, pyGet, hcl, hwords, hpc]
  have hbne : ∀ ps, l.baseline = some ps → parseBaseline (.dict [("@points", .str (pointsStr ps))]) = .ok (boxOf ps) := by
    intro ps hb
    apply parseBaseline_points
    intro e; apply hba; rw [hb, e]
  have hcfe : ∀ te, l.te = some te → parseConf (.dict (teEntries te)) = .ok (mirrorConf (some te)) := by
    intro te hl
    exact parseConf_te te (by rw [← hl]; exact hcf)
  cases hx : l.xheight <;> cases hb : l.baseline <;> cases hl : l.te <;>
    simp [mirrorLine, mirrorTEText, mirrorConf, hx, hb, hl, strOf, pyIntStr_intStr, parseTextEquiv_te,
      hbne, hcfe, hpc, bind, Except.bind, pure, Except.pure, Functor.map, Except.map]

/-! ### lists of lines -/

theorem isDict_toDict_renderLine (l : SrcLine) : ∃ d, toDict (renderLine l) = .dict d :=
  ⟨_, toDict_renderLine l⟩

theorem parseLineList_render (ls : List SrcLine) (hne : ls ≠ []) (hok : ∀ l ∈ ls, lineOk l = true) :
    parseLineList (collapse (ls.map (fun l => toDict (renderLine l)))) = .ok (ls.map mirrorLine) := by
  match ls, hne, hok with
  | [l], _, hok =>
    have := parseLine_render l (hok l (by simp))
    rw [toDict_renderLine] at this
    simp [collapse, toDict_renderLine, parseLineList, this, bind, Except.bind, pure, Except.pure]
  | l1 :: l2 :: rest, _, hok =>
    have := mapM_map_ok parseLine (fun l => toDict (renderLine l)) mirrorLine (l1 :: l2 :: rest)
      (fun l hl => parseLine_render l (hok l hl))
    simp only [collapse, parseLineList]
    simpa using this

/-! ### the mutual parser functions as list functions -/

theorem subRegions_eq (hull : List Pt → Res (List Pt)) (d : Entries) :
    subRegions hull d = (lookup "TextRegion" d).map (regionVal hull) := by
  induction d with
  | nil => simp [subRegions]
  | cons kv d ih =>
    obtain ⟨k, v⟩ := kv
    simp only [subRegions, lookup_cons]
    split
    · rfl
    · exact ih

theorem regionList_eq (hull : List Pt → Res (List Pt)) (xs : List PyVal) :
    regionList hull xs = xs.mapM (regionItem hull) := by
  induction xs with
  | nil => simp [regionList]; rfl
  | cons x xs ih =>
    simp only [regionList, ih, List.mapM_cons]

theorem regionVal_nonlist (hull : List Pt → Res (List Pt)) (v : PyVal) (h : isList v = false) :
    regionVal hull v = (fun r => [r]) <$> regionItem hull v := by
  cases v with
  | none => simp [regionVal, regionItem, Functor.map, Except.map]
  | str s => simp [regionVal, regionItem, Functor.map, Except.map, bind, Except.bind, pure, Except.pure]
  | list xs => simp [isList] at h
  | dict d => simp [regionVal, regionItem, Functor.map, Except.map, bind, Except.bind, pure, Except.pure]

theorem regionVal_collapse (hull : List Pt → Res (List Pt)) (vs : List PyVal) (hne : vs ≠ [])
    (hnl : ∀ v ∈ vs, isList v = false) :
    regionVal hull (collapse vs) = vs.mapM (regionItem hull) := by
  match vs, hne, hnl with
  | [v], _, hnl =>
    simp only [collapse, List.mapM_cons, List.mapM_nil]
    rw [regionVal_nonlist hull v (hnl v (by simp))]
    cases regionItem hull v <;> rfl
  | v1 :: v2 :: rest, _, _ =>
    simp only [collapse, regionVal, regionList_eq]

/-! ### TextRegion: the dict -/

def ptsDict (ps : List Pt) : PyVal := .dict [("@points", .str (pointsStr ps))]

def lineVals (lines : List SrcLine) : List PyVal := lines.map (fun l => toDict (renderLine l))
def subVals (subs : List SrcRegion) : List PyVal := subs.map (fun r => toDict (renderRegion r))

def regionEntries : SrcRegion → Entries
  | .mk id orientation custom coords te lf lines subs =>
    attrEntries (optAttr "id" id ++ optAttr "orientation" orientation ++ optAttr "custom" custom)
    ++ groupEntry "Coords" ((coords.map ptsDict).toList)
    ++ (if lf then groupEntry "TextLine" (lineVals lines) ++ groupEntry "TextRegion" (subVals subs)
        else groupEntry "TextRegion" (subVals subs) ++ groupEntry "TextLine" (lineVals lines))
    ++ groupEntry "TextEquiv" ((te.map (fun te => PyVal.dict (teEntries te))).toList)

theorem renderRegions_eq_map (rs : List SrcRegion) : renderRegions rs = rs.map renderRegion := by
  induction rs with
  | nil => simp [renderRegions]
  | cons r rs ih => simp [renderRegions, ih]

theorem tag_renderRegion (r : SrcRegion) : (renderRegion r).tag = "TextRegion" := by
  cases r; simp [renderRegion, Xml.tag]

theorem toDict_renderRegion (r : SrcRegion) :
    toDict (renderRegion r) = if (regionEntries r).isEmpty then .none else .dict (regionEntries r) := by
  obtain ⟨id, orientation, custom, coords, te, lf, lines, subs⟩ := r
  cases lf with
  | true =>
    have e : renderRegion (.mk id orientation custom coords te true lines subs) = .elem "TextRegion"
        (optAttr "id" id ++ optAttr "orientation" orientation ++ optAttr "custom" custom) ""
        ([("Coords", (coords.map (renderPoints "Coords")).toList),
          ("TextLine", lines.map renderLine),
          ("TextRegion", subs.map renderRegion),
          ("TextEquiv", (te.map renderTE).toList)].flatMap (·.2)) := by
      simp [renderRegion, renderRegions_eq_map]
    rw [e, toDict_groups]
    · have : (attrEntries (optAttr "id" id ++ optAttr "orientation" orientation ++ optAttr "custom" custom) ++
          groupsEntries (List.map (fun g => (g.1, List.map toDict g.2))
            [("Coords", (coords.map (renderPoints "Coords")).toList),
             ("TextLine", lines.map renderLine),
             ("TextRegion", subs.map renderRegion),
             ("TextEquiv", (te.map renderTE).toList)]))
          = regionEntries (.mk id orientation custom coords te true lines subs) := by
        simp [groupsEntries, regionEntries, lineVals, subVals, ptsDict, Function.comp_def]
        cases coords <;> cases te <;> simp [toDict_renderTE, toDict_renderPoints, ptsDict]
      rw [this]
    · intro g hg x hx
      simp at hg
      rcases hg with rfl | rfl | rfl | rfl
      · cases h : coords <;> simp [h] at hx
        subst hx; rfl
      · simp at hx
        obtain ⟨w, _, rfl⟩ := hx
        rfl
      · simp at hx
        obtain ⟨w, _, rfl⟩ := hx
        exact tag_renderRegion w
      · cases h : te <;> simp [h] at hx
        subst hx; rfl
    · simp
    · intro g hg
      simp at hg
      rcases hg with rfl | rfl | rfl | rfl <;> simp
  | false =>
    have e : renderRegion (.mk id orientation custom coords te false lines subs) = .elem "TextRegion"
        (optAttr "id" id ++ optAttr "orientation" orientation ++ optAttr "custom" custom) ""
        ([("Coords", (coords.map (renderPoints "Coords")).toList),
          ("TextRegion", subs.map renderRegion),
          ("TextLine", lines.map renderLine),
          ("TextEquiv", (te.map renderTE).toList)].flatMap (·.2)) := by
      simp [renderRegion, renderRegions_eq_map]
    rw [e, toDict_groups]
    · have : (attrEntries (optAttr "id" id ++ optAttr "orientation" orientation ++ optAttr "custom" custom) ++
          groupsEntries (List.map (fun g => (g.1, List.map toDict g.2))
            [("Coords", (coords.map (renderPoints "Coords")).toList),
             ("TextRegion", subs.map renderRegion),
             ("TextLine", lines.map renderLine),
             ("TextEquiv", (te.map renderTE).toList)]))
          = regionEntries (.mk id orientation custom coords te false lines subs) := by
        simp [groupsEntries, regionEntries, lineVals, subVals, ptsDict, Function.comp_def]
        cases coords <;> cases te <;> simp [toDict_renderTE, toDict_renderPoints, ptsDict]
      rw [this]
    · intro g hg x hx
      simp at hg
      rcases hg with rfl | rfl | rfl | rfl
      · cases h : coords <;> simp [h] at hx
        subst hx; rfl
      · simp at hx
        obtain ⟨w, _, rfl⟩ := hx
        exact tag_renderRegion w
      · simp at hx
        obtain ⟨w, _, rfl⟩ := hx
        rfl
      · cases h : te <;> simp [h] at hx
        subst hx; rfl
    · simp
    · intro g hg
      simp at hg
      rcases hg with rfl | rfl | rfl | rfl <;> simp

/-! ### the loop over the keys of a region dict -/

theorem regionStep_skip (hull : List Pt → Res (List Pt)) (sp : Option (Res (List (Option Region))))
    (acc : RegAcc) (kv : String × PyVal)
    (h : kv.1 ≠ "TextEquiv" ∧ kv.1 ≠ "TextLine" ∧ kv.1 ≠ "TextRegion") :
    regionStep hull sp acc kv = .ok acc := by
  simp [regionStep, h.1, h.2.1, h.2.2]

theorem foldlM_regionStep_skip (hull : List Pt → Res (List Pt)) (sp : Option (Res (List (Option Region))))
    (es : Entries) (acc : RegAcc)
    (h : ∀ kv ∈ es, kv.1 ≠ "TextEquiv" ∧ kv.1 ≠ "TextLine" ∧ kv.1 ≠ "TextRegion") :
    es.foldlM (regionStep hull sp) acc = .ok acc := by
  induction es with
  | nil => rfl
  | cons kv es ih =>
    simp only [List.foldlM_cons, regionStep_skip hull sp acc kv (h kv (by simp))]
    exact ih (fun kv' hkv' => h kv' (by simp [hkv']))

theorem attr_key_ne (attrs : List (String × String)) (t : String) (ht : t.toList.head? ≠ some '@') :
    ∀ kv ∈ attrEntries attrs, kv.1 ≠ t := by
  intro kv hkv e
  have : t ∈ keys (attrEntries attrs) := by
    rw [← e]; exact List.mem_map_of_mem hkv
  exact not_mem_attr_keys t attrs ht this

theorem foldlM_attrs (hull : List Pt → Res (List Pt)) (sp : Option (Res (List (Option Region))))
    (attrs : List (String × String)) (acc : RegAcc) :
    (attrEntries attrs).foldlM (regionStep hull sp) acc = .ok acc :=
  foldlM_regionStep_skip hull sp _ acc (fun kv hkv =>
    ⟨attr_key_ne attrs "TextEquiv" (by decide) kv hkv, attr_key_ne attrs "TextLine" (by decide) kv hkv,
     attr_key_ne attrs "TextRegion" (by decide) kv hkv⟩)

theorem foldlM_group (hull : List Pt → Res (List Pt)) (sp : Option (Res (List (Option Region))))
    (t : String) (vs : List PyVal) (acc : RegAcc) :
    (groupEntry t vs).foldlM (regionStep hull sp) acc
      = if vs = [] then .ok acc else regionStep hull sp acc (t, collapse vs) := by
  unfold groupEntry
  cases vs with
  | nil => rfl
  | cons v vs =>
    simp only [List.isEmpty_cons, Bool.false_eq_true, if_false, List.foldlM_cons, List.foldlM_nil]
    simp only [reduceCtorEq, if_false]
    cases regionStep hull sp acc (t, collapse (v :: vs)) <;> rfl

/-! ### derived coordinates -/

def deriveSpec (hullT : List Pt → List Pt) (cur : Option Coords) (children : List (Option Coords)) : Option Coords :=
  match cur with
  | some c => some c
  | none => if (children.filterMap id).isEmpty then none else some (derived hullT children)

theorem deriveIfNeeded_ok (hull : List Pt → Res (List Pt)) (hullT : List Pt → List Pt)
    (cur : Option Coords) (children : List (Option Coords))
    (h : cur = none → (children.filterMap id).isEmpty = false → ptsOk hull hullT (childPts children) = true) :
    deriveIfNeeded hull cur children = .ok (deriveSpec hullT cur children) := by
  cases cur with
  | some c => rfl
  | none =>
    simp only [deriveIfNeeded, deriveSpec]
    cases hloc : (children.filterMap id).isEmpty with
    | true => simp
    | false =>
      have hp := h rfl hloc
      simp only [ptsOk, Bool.and_eq_true, Bool.or_eq_true, Bool.not_eq_true', decide_eq_true_eq] at hp
      obtain ⟨hne, hp⟩ := hp
      have hne' : childPts children ≠ [] := by
        intro e; rw [e] at hne; simp at hne
      simp only [Bool.false_eq_true, if_false, deriveC, derived]
      have hpts : ((children.filterMap id).map (·.points)).flatten = childPts children := rfl
      rw [hpts]
      by_cases hle : (childPts children).length ≤ 2
      · simp [hle, coordsOfPts, mkCoords_boxOf _ hne', hne, Functor.map, Except.map, bind, Except.bind]
      · have hp' : hull (childPts children) = .ok (hullT (childPts children)) ∧ (hullT (childPts children)).isEmpty = false := by
          rcases hp with hp | hp
          · exact absurd hp hle
          · exact hp
        have hne2 : hullT (childPts children) ≠ [] := by
          intro e; rw [e] at hp'; simp at hp'
        simp [hle, hp'.1, coordsOfPts, hp'.2, mkCoords_boxOf _ hne2, Functor.map, Except.map, bind, Except.bind]

/-! ### word counts never fail on mirrored lines -/

def GoodLine (l : Line) : Prop := l.text ≠ .other

theorem txtOf_textVal_ne_other (t : String) : txtOf (textVal t) ≠ .other := by
  unfold textVal; split <;> simp [txtOf]

theorem mirrorTEText_ne_other (te : Option SrcTE) : mirrorTEText te ≠ .other := by
  cases te with
  | none => simp [mirrorTEText]
  | some te => exact txtOf_textVal_ne_other _

theorem goodLine_mirror (l : SrcLine) : GoodLine (mirrorLine l) := mirrorTEText_ne_other l.te

theorem lineWordCount_good (l : Line) (h : GoodLine l) : ∃ n, lineWordCount l = .ok n := by
  unfold lineWordCount
  split
  · exact ⟨_, rfl⟩
  · cases ht : l.text with
    | none => exact ⟨_, rfl⟩
    | str s => simp only; split <;> exact ⟨_, rfl⟩
    | other => exact absurd ht h

theorem sumCounts_good (ls : List Line) (h : ∀ l ∈ ls, GoodLine l) : ∃ n, sumCounts ls = .ok n := by
  have : ∃ ns, ls.mapM lineWordCount = .ok ns := by
    induction ls with
    | nil => exact ⟨[], rfl⟩
    | cons l ls ih =>
      obtain ⟨n, hn⟩ := lineWordCount_good l (h l (by simp))
      obtain ⟨ns, hns⟩ := ih (fun x hx => h x (by simp [hx]))
      exact ⟨n :: ns, by simp [List.mapM_cons, hn, hns, bind, Except.bind, pure, Except.pure]⟩
  obtain ⟨ns, hns⟩ := this
  exact ⟨ns.foldl (· + ·) 0, by simp [sumCounts, hns, bind, Except.bind, pure, Except.pure]⟩

theorem mirrorRegions_eq (hullT : List Pt → List Pt) (rs : List SrcRegion) :
    mirrorRegions hullT rs = (rs.map (mirrorRegion hullT)).filterMap id := by
  induction rs with
  | nil => simp [mirrorRegions]
  | cons r rs ih =>
    simp only [mirrorRegions, List.map_cons, List.filterMap_cons, id]
    cases mirrorRegion hullT r <;> simp [ih]

theorem mem_allLinesList (rs : List Region) (l : Line) :
    l ∈ allLinesList rs ↔ ∃ r ∈ rs, l ∈ r.allLines := by
  induction rs with
  | nil => simp [allLinesList]
  | cons r rs ih => simp [allLinesList, ih]

/-- every line below a mirrored region is a mirrored line -/
theorem good_allLines (hullT : List Pt → List Pt) (r : SrcRegion) :
    ∀ x, mirrorRegion hullT r = some x → ∀ l ∈ x.allLines, GoodLine l := by
  refine SrcRegion.rec (motive_1 := fun r => ∀ x, mirrorRegion hullT r = some x → ∀ l ∈ x.allLines, GoodLine l)
    (motive_2 := fun rs => ∀ x ∈ mirrorRegions hullT rs, ∀ l ∈ x.allLines, GoodLine l) ?_ ?_ ?_ r
  · intro id orientation custom coords te lf lines subs ih x hx l hl
    simp only [mirrorRegion, mkRegionOpt] at hx
    split at hx
    · exact absurd hx (by simp)
    · have := Option.some.inj hx
      subst this
      simp only [Region.allLines, List.mem_append, mem_allLinesList] at hl
      rcases hl with ⟨s, hs, hls⟩ | hl
      · exact ih s hs l hls
      · obtain ⟨sl, _, rfl⟩ := List.mem_map.mp hl
        exact goodLine_mirror sl
  · intro x hx
    simp [mirrorRegions] at hx
  · intro r rs ihr ihrs x hx
    simp only [mirrorRegions] at hx
    cases hm : mirrorRegion hullT r with
    | none => rw [hm] at hx; exact ihrs x hx
    | some y =>
      rw [hm] at hx
      rcases List.mem_cons.mp hx with rfl | hx
      · exact ihr x hm
      · exact ihrs x hx

theorem good_allLinesList (hullT : List Pt → List Pt) (rs : List SrcRegion) :
    ∀ l ∈ allLinesList (mirrorRegions hullT rs), GoodLine l := by
  intro l hl
  obtain ⟨x, hx, hlx⟩ := (mem_allLinesList _ _).mp hl
  rw [mirrorRegions_eq] at hx
  obtain ⟨o, ho, hox⟩ := List.mem_filterMap.mp hx
  obtain ⟨r, _, rfl⟩ := List.mem_map.mp ho
  exact good_allLines hullT r x hox l hlx

/-! ### the steps of the region loop on rendered groups -/

/-- the TextLine step of the loop -/
theorem step_lines (hull : List Pt → Res (List Pt))
    (sp : Option (Res (List (Option Region)))) (acc : RegAcc) (lines : List SrcLine)
    (hok : ∀ l ∈ lines, lineOk l = true) (hacc : acc.lines = []) :
    (groupEntry "TextLine" (lineVals lines)).foldlM (regionStep hull sp) acc
      = .ok { acc with lines := lines.map mirrorLine } := by
  rw [foldlM_group]
  cases lines with
  | nil =>
    simp [lineVals]
    cases acc with
    | mk c t l s => simp at hacc; subst hacc; rfl
  | cons l ls =>
    have hp := parseLineList_render (l :: ls) (by simp) hok
    simp only [lineVals, List.map_cons, reduceCtorEq, if_false] at hp ⊢
    simp only [regionStep]
    simp only [show ("TextLine" = "TextEquiv") = False from by decide, if_false, if_true]
    simp only [hp, bind, Except.bind]
    rfl

/-- the TextRegion step of the loop -/
theorem step_subs (hull : List Pt → Res (List Pt)) (hullT : List Pt → List Pt)
    (sp : Option (Res (List (Option Region)))) (acc : RegAcc) (subs : List SrcRegion)
    (hsp : sp = if subs = [] then none else some (.ok (subs.map (mirrorRegion hullT))))
    (hacc : acc.subs = []) :
    (groupEntry "TextRegion" (subVals subs)).foldlM (regionStep hull sp) acc
      = .ok { acc with subs := mirrorRegions hullT subs } := by
  rw [foldlM_group]
  cases subs with
  | nil =>
    simp [subVals, mirrorRegions]
    cases acc with
    | mk c t l s => simp at hacc; subst hacc; rfl
  | cons r rs =>
    simp only [reduceCtorEq, if_false] at hsp
    simp only [subVals, List.map_cons, reduceCtorEq, if_false]
    simp only [regionStep]
    simp only [show ("TextRegion" = "TextEquiv") = False from by decide,
      show ("TextRegion" = "TextLine") = False from by decide, if_false, if_true, hsp]
    simp only [bind, Except.bind]
    rw [← mirrorRegions_eq]
    rfl

/-- the TextEquiv step of the loop -/
theorem step_te (hull : List Pt → Res (List Pt))
    (sp : Option (Res (List (Option Region)))) (acc : RegAcc) (te : Option SrcTE) (hacc : acc.text = .none) :
    (groupEntry "TextEquiv" ((te.map (fun te => PyVal.dict (teEntries te))).toList)).foldlM (regionStep hull sp) acc
      = .ok { acc with text := mirrorTEText te } := by
  rw [foldlM_group]
  cases te with
  | none =>
    simp [mirrorTEText]
    cases acc with
    | mk c t l s => simp at hacc; subst hacc; rfl
  | some te =>
    simp only [Option.map_some, Option.toList_some, reduceCtorEq, if_false, collapse, regionStep, if_true,
      parseTextEquiv_te, bind, Except.bind, mirrorTEText]
    rfl

/-! ### the region lemma -/

theorem regionEntries_empty (id orientation custom : Option String) (coords : Option (List Pt))
    (te : Option SrcTE) (lf : Bool) (lines : List SrcLine) (subs : List SrcRegion)
    (h : (regionEntries (.mk id orientation custom coords te lf lines subs)).isEmpty = true) :
    coords = none ∧ te = none ∧ lines = [] ∧ subs = [] := by
  rw [List.isEmpty_iff] at h
  cases coords <;> cases te <;> cases lines <;> cases subs <;> cases lf <;>
    simp [regionEntries, groupEntry, lineVals, subVals] at h ⊢

theorem splitCount_pos (s : String) : 0 < splitCount s := by
  unfold splitCount
  have := C03.splitOn_ne_nil ' ' s.toList
  cases h : C03.splitOn ' ' s.toList with
  | nil => exact absurd h this
  | cons a as => simp

/-- the decision at the end of `parse_textregion` -/
theorem finalize_ok (hullT : List Pt → List Pt) (id orientation : Option String) (cs : Option Coords)
    (te : Option SrcTE) (lines : List SrcLine) (subs : List SrcRegion) :
    (do
      if cs.isNone then
        let allLines := allLinesList (mirrorRegions hullT subs) ++ lines.map mirrorLine
        let nWords ← regionWordCount (mirrorTEText te) allLines
        if allLines.length + nWords + (mirrorRegions hullT subs).length = 0 then return none
      return some (.mk id orientation cs (mirrorTEText te) (lines.map mirrorLine) (mirrorRegions hullT subs))
      : Res (Option Region))
    = .ok (mkRegionOpt id orientation cs (mirrorTEText te) (lines.map mirrorLine) (mirrorRegions hullT subs)) := by
  cases cs with
  | some c => simp [mkRegionOpt, pure, Except.pure]
  | none =>
    have hgood : ∀ l ∈ allLinesList (mirrorRegions hullT subs) ++ lines.map mirrorLine, GoodLine l := by
      intro l hl
      rcases List.mem_append.mp hl with hl | hl
      · exact good_allLinesList hullT subs l hl
      · obtain ⟨sl, _, rfl⟩ := List.mem_map.mp hl
        exact goodLine_mirror sl
    have hne := mirrorTEText_ne_other te
    cases ht : mirrorTEText te with
    | other => exact absurd ht hne
    | str s =>
      have := splitCount_pos s
      simp only [Option.isNone_none, if_true, regionWordCount, bind, Except.bind, mkRegionOpt, ht]
      have hnz : ¬ ((allLinesList (mirrorRegions hullT subs) ++ lines.map mirrorLine).length + splitCount s
          + (mirrorRegions hullT subs).length = 0) := by omega
      simp [hnz, pure, Except.pure]
      intro _ _ h0
      omega
    | none =>
      obtain ⟨n, hn⟩ := sumCounts_good _ hgood
      simp only [Option.isNone_none, if_true, regionWordCount, hn, bind, Except.bind, mkRegionOpt]
      by_cases hl : lines = []
      · by_cases hs : mirrorRegions hullT subs = []
        · have hn0 : n = 0 := by
            simp [hl, hs, allLinesList, sumCounts, bind, Except.bind, pure, Except.pure] at hn
            exact hn.symm
          simp [hl, hs, hn0, allLinesList, pure, Except.pure]
        · have : (mirrorRegions hullT subs).length ≠ 0 := by simpa using hs
          have hnz : ¬ ((allLinesList (mirrorRegions hullT subs) ++ lines.map mirrorLine).length + n
              + (mirrorRegions hullT subs).length = 0) := by omega
          simp [hnz, hs, pure, Except.pure]
      · have : (lines.map mirrorLine).length ≠ 0 := by simpa using hl
        have hnz : ¬ ((allLinesList (mirrorRegions hullT subs) ++ lines.map mirrorLine).length + n
            + (mirrorRegions hullT subs).length = 0) := by
          simp only [List.length_append]; omega
        simp [hnz, hl, pure, Except.pure]


theorem regionItem_render_mk (hull : List Pt → Res (List Pt)) (hullT : List Pt → List Pt)
    (id orientation custom : Option String) (coords : Option (List Pt)) (te : Option SrcTE) (lf : Bool)
    (lines : List SrcLine) (subs : List SrcRegion)
    (hok : regionOk hull hullT (.mk id orientation custom coords te lf lines subs) = true)
    (ih : ∀ s ∈ subs, regionItem hull (toDict (renderRegion s)) = .ok (mirrorRegion hullT s)) :
    regionItem hull (toDict (renderRegion (.mk id orientation custom coords te lf lines subs)))
      = .ok (mirrorRegion hullT (.mk id orientation custom coords te lf lines subs)) := by
  simp only [regionOk, Bool.and_eq_true, List.all_eq_true, bne_iff_ne, ne_eq] at hok
  obtain ⟨⟨⟨⟨hcne, hor⟩, hlines⟩, _hsubs⟩, hder⟩ := hok
  rw [toDict_renderRegion]
  by_cases hE : (regionEntries (.mk id orientation custom coords te lf lines subs)).isEmpty = true
  · obtain ⟨rfl, rfl, rfl, rfl⟩ := regionEntries_empty _ _ _ _ _ _ _ _ hE
    simp only [hE, if_true, regionItem]
    simp [mirrorRegion, mirrorRegions, mkRegionOpt, regionCoords, mirrorTEText]
  · have hE' : (regionEntries (.mk id orientation custom coords te lf lines subs)).isEmpty = false := by
      simpa using hE
    simp only [hE', Bool.false_eq_true, if_false, regionItem]
    -- the parsed sub-regions
    have hlk : lookup "TextRegion" (regionEntries (.mk id orientation custom coords te lf lines subs))
        = if subs = [] then none else some (collapse (subVals subs)) := by
      cases lf <;> cases coords <;> cases te <;>
        simp [regionEntries, attrEntries_append, lookup_append_or, lookup_optAttr, lookup_groupEntry, subVals, collapse]
    have hsp : subRegions hull (regionEntries (.mk id orientation custom coords te lf lines subs))
        = if subs = [] then none else some (.ok (subs.map (mirrorRegion hullT))) := by
      rw [subRegions_eq, hlk]
      by_cases hs : subs = []
      · simp [hs]
      · simp only [hs, if_false, Option.map_some]
        rw [regionVal_collapse hull (subVals subs) (by simpa [subVals] using hs)
          (by intro v hv; obtain ⟨r, _, rfl⟩ := List.mem_map.mp hv; exact isList_toDict _)]
        rw [subVals, mapM_map_ok (regionItem hull) (fun r => toDict (renderRegion r)) (mirrorRegion hullT) subs ih]
    -- header
    have hid : optStrAttr "@id" (regionEntries (.mk id orientation custom coords te lf lines subs)) = .ok id :=
      optStrAttr_of_lookup _ _ _ (by
        cases lf <;> simp [regionEntries, attrEntries_append, lookup_append_or, lookup_optAttr, lookup_groupEntry])
    have hol : lookup "@orientation" (regionEntries (.mk id orientation custom coords te lf lines subs))
        = orientation.map PyVal.str := by
      cases lf <;> simp [regionEntries, attrEntries_append, lookup_append_or, lookup_optAttr, lookup_groupEntry]
    have hcl : lookup "Coords" (regionEntries (.mk id orientation custom coords te lf lines subs))
        = coords.map ptsDict := by
      cases lf <;> cases coords <;>
        simp [regionEntries, attrEntries_append, lookup_append_or, lookup_optAttr, lookup_groupEntry, collapse]
    -- the loop
    have hfold : (regionEntries (.mk id orientation custom coords te lf lines subs)).foldlM
          (regionStep hull (subRegions hull (regionEntries (.mk id orientation custom coords te lf lines subs))))
          { coords := coords.map boxOf, text := .none, lines := [], subs := [] }
        = .ok { coords := coords.map boxOf,
                text := mirrorTEText te, lines := lines.map mirrorLine, subs := mirrorRegions hullT subs } := by
      rw [hsp]
      simp only [regionEntries, List.foldlM_append, foldlM_attrs, bind, Except.bind]
      rw [foldlM_regionStep_skip _ _ (groupEntry "Coords" _) _ (by
        intro kv hkv
        unfold groupEntry at hkv
        split at hkv
        · simp at hkv
        · simp at hkv; subst hkv; simp)]
      simp only []
      cases lf with
      | true =>
        simp only [if_true, List.foldlM_append, bind, Except.bind]
        rw [step_lines hull _ _ lines hlines rfl]
        simp only []
        rw [step_subs hull hullT _ _ subs rfl rfl]
        simp only []
        rw [step_te hull _ _ te rfl]
      | false =>
        simp only [Bool.false_eq_true, if_false, List.foldlM_append, bind, Except.bind]
        rw [step_subs hull hullT _ _ subs rfl rfl]
        simp only []
        rw [step_lines hull _ _ lines hlines rfl]
        simp only []
        rw [step_te hull _ _ te rfl]
    -- after the loop: the derived coordinates
    have hderive : deriveIfNeeded hull (coords.map boxOf)
          ((mirrorRegions hullT subs).map (·.coords) ++ (lines.map mirrorLine).map (·.coords))
        = .ok (regionCoords hullT coords ((lines.map mirrorLine).map (·.coords))
            ((mirrorRegions hullT subs).map (·.coords))) := by
      rw [deriveIfNeeded_ok hull hullT]
      · cases coords <;> rfl
      · intro hc hloc
        cases coords with
        | some ps => simp at hc
        | none =>
          simp only [derivOk, hloc, Bool.not_false, if_true] at hder
          exact hder
    have hfin := finalize_ok hullT id orientation
      (regionCoords hullT coords ((lines.map mirrorLine).map (·.coords)) ((mirrorRegions hullT subs).map (·.coords)))
      te lines subs
    simp only [bind, Except.bind] at hfin
    unfold assemble
    simp only [hid, hol, hcl, bind, Except.bind, mirrorRegion]
    cases orientation with
    | none =>
      cases coords with
      | none =>
        simp only [Option.map_none, pure, Except.pure] at hfold hderive ⊢
        rw [hfold]
        simp only []
        rw [hderive]
        exact hfin
      | some ps =>
        have hps : ps ≠ [] := by intro e; apply hcne; rw [e]
        simp only [Option.map_some, Option.map_none, pure, Except.pure, ptsDict, parseCoords_points ps hps]
          at hfold hderive ⊢
        rw [hfold]
        simp only []
        rw [hderive]
        exact hfin
    | some o =>
      have hfo : isFloatLit o = true := by simpa using hor
      cases coords with
      | none =>
        simp only [Option.map_none, Option.map_some, strOf, pyFloat, hfo, if_true, Functor.map, Except.map,
          pure, Except.pure] at hfold hderive ⊢
        rw [hfold]
        simp only []
        rw [hderive]
        exact hfin
      | some ps =>
        have hps : ps ≠ [] := by intro e; apply hcne; rw [e]
        simp only [Option.map_some, strOf, pyFloat, hfo, if_true, Functor.map, Except.map,
          pure, Except.pure, ptsDict, parseCoords_points ps hps] at hfold hderive ⊢
        rw [hfold]
        simp only []
        rw [hderive]
        exact hfin

/-! ### all regions, by structural induction -/

/-- every text region, at any nesting depth: the parser returns exactly the mirrored region -/
theorem regionItem_render (hull : List Pt → Res (List Pt)) (hullT : List Pt → List Pt) (r : SrcRegion) :
    regionOk hull hullT r = true →
      regionItem hull (toDict (renderRegion r)) = .ok (mirrorRegion hullT r) := by
  refine SrcRegion.rec
    (motive_1 := fun r => regionOk hull hullT r = true →
      regionItem hull (toDict (renderRegion r)) = .ok (mirrorRegion hullT r))
    (motive_2 := fun rs => regionsOk hull hullT rs = true →
      ∀ s ∈ rs, regionItem hull (toDict (renderRegion s)) = .ok (mirrorRegion hullT s)) ?_ ?_ ?_ r
  · intro id orientation custom coords te lf lines subs ih hok
    have hsubs : regionsOk hull hullT subs = true := by
      simp only [regionOk, Bool.and_eq_true] at hok
      exact hok.1.2
    exact regionItem_render_mk hull hullT id orientation custom coords te lf lines subs hok (ih hsubs)
  · intro _ s hs
    simp at hs
  · intro r rs ihr ihrs hok s hs
    simp only [regionsOk, Bool.and_eq_true] at hok
    rcases List.mem_cons.mp hs with rfl | hs
    · exact ihr hok.1
    · exact ihrs hok.2 s hs

theorem regionsOk_mem (hull : List Pt → Res (List Pt)) (hullT : List Pt → List Pt) (rs : List SrcRegion)
    (h : regionsOk hull hullT rs = true) : ∀ r ∈ rs, regionOk hull hullT r = true := by
  induction rs with
  | nil => simp
  | cons r rs ih =>
    simp only [regionsOk, Bool.and_eq_true] at h
    intro x hx
    rcases List.mem_cons.mp hx with rfl | hx
    · exact h.1
    · exact ih h.2 x hx

/-- a whole list of sibling regions, as xmltodict hands it over (one ↦ the value, several ↦ a list) -/
theorem regionVal_render (hull : List Pt → Res (List Pt)) (hullT : List Pt → List Pt) (rs : List SrcRegion)
    (hne : rs ≠ []) (h : regionsOk hull hullT rs = true) :
    (fun l => l.filterMap id) <$> regionVal hull (collapse (subVals rs)) = .ok (mirrorRegions hullT rs) := by
  rw [regionVal_collapse hull (subVals rs) (by simpa [subVals] using hne)
    (by intro v hv; obtain ⟨r, _, rfl⟩ := List.mem_map.mp hv; exact isList_toDict _)]
  rw [subVals, mapM_map_ok (regionItem hull) (fun r => toDict (renderRegion r)) (mirrorRegion hullT) rs
    (fun r hr => regionItem_render hull hullT r (regionsOk_mem hull hullT rs h r hr))]
  simp [Functor.map, Except.map, mirrorRegions_eq]

end Pagexml.C01
