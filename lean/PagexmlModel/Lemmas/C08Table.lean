import PagexmlModel.Lemmas.C08Grid
set_option linter.unusedSimpArgs false
namespace Pagexml.C08
open Pagexml.X Pagexml.C01
open Pagexml.C03 (Pt Coords)
open Pagexml.C05 (assocSet assocGet)

def colN (c : Cell) : Nat := (c.col.getD 0).toNat

theorem columnCellsOf_eq (cs : List Cell) : columnCellsOf cs = cs.foldl (colStep colN) [] := rfl

/-- cells listed in row-major order with `c` columns: every column index below `c`, strictly
    ascending within each row, and some row complete -/
structure RowMajor (t : SrcTable) (c : Nat) : Prop where
  cols_lt : ∀ x ∈ t.cells, x.col < c
  asc : ∀ k, ((t.cells.filter (fun x => decide (x.row = k))).map (·.col)).Pairwise (· < ·)
  full : ∃ k, (t.cells.filter (fun x => decide (x.row = k))).length = c

theorem row_mirrorCell (x : SrcCell) : (mirrorCell x).row = some (x.row : Int) := rfl
theorem colN_mirrorCell (x : SrcCell) : colN (mirrorCell x) = x.col := by simp [colN, mirrorCell]

theorem filter_mirror (cells : List SrcCell) (k : Nat) :
    (cells.map mirrorCell).filter (fun c => decide (c.row = some (k : Int)))
      = (cells.filter (fun x => decide (x.row = k))).map mirrorCell := by
  induction cells with
  | nil => rfl
  | cons x xs ih =>
    simp only [List.map_cons, List.filter_cons, row_mirrorCell]
    by_cases h : x.row = k
    · simp [h, ih]
    · have : ¬ ((x.row : Int) = (k : Int)) := by omega
      simp [h, this, ih]

/-- the groups of the mirrored cells: the key is a row index of the source, the cells are
    the source cells of that row, in order -/
theorem groups_of_table (t : SrcTable) :
    ∀ g ∈ groupByRow (t.cells.map mirrorCell), ∃ k : Nat, g.1 = some (k : Int) ∧
      g.2 = (t.cells.filter (fun x => decide (x.row = k))).map mirrorCell ∧ g.2 ≠ [] := by
  intro g hg
  obtain ⟨_, h2, _⟩ := groupInv_all Cell.row (t.cells.map mirrorCell)
  obtain ⟨e1, e2⟩ := h2 g hg
  -- the group is not empty: its first cell gives the key
  cases hcs : g.2 with
  | nil => exact absurd hcs e2
  | cons c cs =>
    have hc : c ∈ (t.cells.map mirrorCell).filter (fun c => decide (c.row = g.1)) := by
      rw [← e1, hcs]; simp
    obtain ⟨hc1, hc2⟩ := List.mem_filter.mp hc
    obtain ⟨x, _, rfl⟩ := List.mem_map.mp hc1
    have hk : g.1 = some (x.row : Int) := by
      have := of_decide_eq_true hc2
      rw [row_mirrorCell] at this
      exact this.symm
    refine ⟨x.row, hk, ?_, by simp⟩
    rw [← hcs, e1, hk, filter_mirror]


/-- a row after the padding done by the scan: exactly `c` column slots, each holding the
    cell with that column index, or nothing -/
theorem padded_row (cs : List Cell) (c : Nat) (hne : cs ≠ [])
    (hasc : (cs.map colN).Pairwise (· < ·)) (hlt : ∀ x ∈ cs, colN x < c) :
    let R := columnCellsOf cs
    let P := if cs.length < c then R ++ List.replicate (c - R.length) none else R
    cs.length ≤ c ∧ P.length = c ∧ (∀ x ∈ cs, P[colN x]? = some (some x)) ∧
      (∀ j, j < c → (∀ x ∈ cs, colN x ≠ j) → P[j]? = some none) := by
  have hspec := colCells_spec colN cs [] hasc (by simp)
  rw [← columnCellsOf_eq] at hspec
  obtain ⟨hL, _, hM, hN⟩ := hspec
  obtain ⟨l, hl⟩ : ∃ l, cs.getLast? = some l := by
    cases h : cs.getLast? with
    | none => simp at h; exact absurd h hne
    | some l => exact ⟨l, rfl⟩
  rw [hl] at hL
  simp only at hL
  have hlmem : l ∈ cs := List.mem_of_getLast? hl
  have hlc := hlt l hlmem
  have hlen : cs.length ≤ c := by
    rcases asc_length_le (cs.map colN) 0 c hasc (by simp) (by simpa using hlt) with h | h
    · simpa using h
    · simp at h; exact absurd h hne
  have hlast : cs.length ≤ colN l + 1 := by
    have := asc_last_ge (cs.map colN) 0 hasc (by simp) (colN l) (by simp [List.getLast?_map, hl])
    simpa using this
  refine ⟨hlen, ?_, ?_, ?_⟩
  · split
    · simp [hL]; omega
    · rw [hL]; omega
  · intro x hx
    have hxl : colN x < (columnCellsOf cs).length := by
      rw [hL]
      have := List.getLast?_eq_some_iff.mp hl
      obtain ⟨ys, rfl⟩ := this
      rcases List.mem_append.mp hx with h | h
      · rw [List.map_append, List.pairwise_append] at hasc
        have := hasc.2.2 (colN x) (List.mem_map_of_mem h) (colN l) (by simp)
        omega
      · simp at h; subst h; omega
    split
    · rw [List.getElem?_append_left hxl]; exact hM x hx
    · exact hM x hx
  · intro j hj hnone
    by_cases hjl : j < (columnCellsOf cs).length
    · have := hN j (by simp) hjl hnone
      split
      · rw [List.getElem?_append_left hjl]; exact this
      · exact this
    · split
      · rw [List.getElem?_append_right (by omega)]
        simp [List.getElem?_replicate]
        omega
      · next hnl =>
        exfalso
        rw [hL] at hjl
        omega


/-- the rows of the mirrored table, in terms of the source: row `i` has key `k_i` and holds
    the mirrored source cells of row `k_i` -/
theorem rows_of_table (hullT : List Pt → List Pt) (t : SrcTable) :
    ∀ r ∈ (mirrorTable hullT t).rows, ∃ k : Nat, r.id = some (k : Int) ∧ r.rowIdx = some (k : Int) ∧
      r.cells = (t.cells.filter (fun x => decide (x.row = k))).map mirrorCell ∧ r.cells ≠ [] ∧
      r.columnCells = columnCellsOf r.cells := by
  intro r hr
  simp only [mirrorTable, List.mem_map] at hr
  obtain ⟨g, hg, rfl⟩ := hr
  obtain ⟨k, hk, hcs, hne⟩ := groups_of_table t g hg
  refine ⟨k, hk, ?_, hcs, hne, rfl⟩
  simp only [mirrorRow]
  cases hc : g.2 with
  | nil => exact absurd hc hne
  | cons c cs =>
    have : c ∈ (t.cells.filter (fun x => decide (x.row = k))).map mirrorCell := by rw [← hcs, hc]; simp
    obtain ⟨x, hx, rfl⟩ := List.mem_map.mp this
    have := (List.mem_filter.mp hx).2
    simp only [decide_eq_true_eq] at this
    simp [row_mirrorCell, this]

theorem row_facts (hullT : List Pt → List Pt) (t : SrcTable) (c : Nat) (h : RowMajor t c)
    (r : Row) (hr : r ∈ (mirrorTable hullT t).rows) :
    (r.cells.map colN).Pairwise (· < ·) ∧ (∀ x ∈ r.cells, colN x < c) := by
  obtain ⟨k, _, _, hcs, _, _⟩ := rows_of_table hullT t r hr
  rw [hcs]
  constructor
  · have := h.asc k
    simpa [List.map_map, Function.comp_def, colN_mirrorCell] using this
  · intro x hx
    obtain ⟨y, hy, rfl⟩ := List.mem_map.mp hx
    rw [colN_mirrorCell]
    exact h.cols_lt y (List.mem_filter.mp hy).1

/-- **as many columns as the fullest row** -/
theorem numColumns_table (hullT : List Pt → List Pt) (t : SrcTable) (c : Nat) (hc : 0 < c) (h : RowMajor t c) :
    (mirrorTable hullT t).numColumns = c := by
  unfold Table.numColumns
  apply maxLen_eq
  · intro n hn
    obtain ⟨r, hr, rfl⟩ := List.mem_map.mp hn
    obtain ⟨hasc, hlt⟩ := row_facts hullT t c h r hr
    obtain ⟨_, _, _, _, hne, _⟩ := rows_of_table hullT t r hr
    exact (padded_row r.cells c hne hasc hlt).1
  · obtain ⟨k, hk⟩ := h.full
    -- the complete row exists as a group
    have hne : t.cells.filter (fun x => decide (x.row = k)) ≠ [] := by
      intro e; rw [e] at hk; simp at hk; omega
    obtain ⟨x, hx⟩ := List.exists_mem_of_ne_nil _ hne
    obtain ⟨hx1, hx2⟩ := List.mem_filter.mp hx
    simp only [decide_eq_true_eq] at hx2
    obtain ⟨_, _, h3⟩ := groupInv_all Cell.row (t.cells.map mirrorCell)
    have hkey := h3 (mirrorCell x) (List.mem_map_of_mem hx1)
    rw [row_mirrorCell, hx2] at hkey
    obtain ⟨g, hg, hgk⟩ := List.mem_map.mp hkey
    obtain ⟨k', hk', hcs, _⟩ := groups_of_table t g hg
    have : k' = k := by
      rw [hk'] at hgk
      have := Option.some.inj hgk
      omega
    subst this
    simp only [mirrorTable, List.map_map, List.mem_map, Function.comp_def]
    refine ⟨g, hg, ?_⟩
    simp [mirrorRow, hcs, hk]

end Pagexml.C08
