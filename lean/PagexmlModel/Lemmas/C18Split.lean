/-
C18 helper lemmas, part 3: the column pipeline keeps every line once (conservation),
the column boxes enclose their lines, the ids have the derived shape.
-/
import PagexmlModel.Lemmas.C18Lines

namespace Pagexml.C18

/-- all lines are boxes with `left ≤ right` (true of every `Coords`: `w = max x - min x ≥ 0`) -/
def WF (ls : List Line) : Prop := ∀ l ∈ ls, l.box.l ≤ l.box.r

/-- ids reachable from the region: its own id, its parent's id, and `text_region` ids derived from those -/
inductive Rooted (g : RegInfo) : PyId → Prop
  | region : Rooted g g.id
  | parent {p : PyId} : g.parent = some p → Rooted g p
  | sub {p : PyId} {bx : Box} : Rooted g p → Rooted g (.derived p "text_region" bx)

/-- `"<rooted id>-column-<x>-<y>-<w>-<h>"` -/
def IdShape (g : RegInfo) (i : PyId) : Prop := ∃ p bx, i = .derived p "column" bx ∧ Rooted g p

/-- per-column invariant: the box is the hull box of the lines, the id is derived -/
def Inv (g : RegInfo) (c : Col) : Prop := hullBox c.lines = .ok c.box ∧ IdShape g c.id

/-- what `split` promises about its result -/
def Good (g : RegInfo) (ls : List Line) (cols : List Col) : Prop :=
  (cols.flatMap Col.lines).Perm ls ∧ ∀ c ∈ cols, Inv g c

theorem rooted_base (g : RegInfo) : Rooted g g.base := by
  unfold RegInfo.base
  cases h : g.parent with
  | none => exact Rooted.region
  | some p =>
    simp only
    split
    · exact Rooted.parent h
    · exact Rooted.region

/-! ### hull box -/

theorem hullBox_ok {ls : List Line} {b : Box} (h : hullBox ls = .ok b) :
    ∃ l rest, ls = l :: rest ∧ b = bbox l rest := by
  cases ls with
  | nil => simp [hullBox] at h
  | cons l rest =>
    simp only [hullBox] at h
    cases h; exact ⟨l, rest, rfl, rfl⟩

theorem hullBox_encloses {ls : List Line} {b : Box} (h : hullBox ls = .ok b) :
    ∀ l ∈ ls, b.encloses l.box := by
  obtain ⟨a, rest, rfl, rfl⟩ := hullBox_ok h
  intro l hl
  simp only [Box.encloses, bbox]
  rcases List.mem_cons.mp hl with rfl | hl
  · exact ⟨minLeft_le_init _ _, maxRight_ge_init _ _, minTop_le_init _ _, maxBottom_ge_init _ _⟩
  · exact ⟨minLeft_le_mem _ _ l hl, maxRight_ge_mem _ _ l hl, minTop_le_mem _ _ l hl,
      maxBottom_ge_mem _ _ l hl⟩

/-! ### make_column_range_columns -/

theorem makeRangeCols_spec (g : RegInfo) {cl : List (List Line)} {cols : List Col}
    (h : makeRangeCols g cl = .ok cols) :
    cols.map Col.lines = cl.filter (fun ls => !ls.isEmpty) ∧
    ∀ c ∈ cols, hullBox c.lines = .ok c.box ∧ c.id = .derived g.base "column" c.box := by
  induction cl generalizing cols with
  | nil => simp [makeRangeCols] at h; subst h; simp
  | cons ls rest ih =>
    simp only [makeRangeCols] at h
    split at h
    · rename_i he
      obtain ⟨h1, h2⟩ := ih h
      refine ⟨?_, h2⟩
      simp [he, h1]
    · rename_i he
      cases hb : hullBox ls with
      | error e => simp [hb, bind, Except.bind] at h
      | ok b =>
        cases hr : makeRangeCols g rest with
        | error e => simp [hb, hr, bind, Except.bind] at h
        | ok cs =>
          simp [hb, hr, bind, Except.bind, pure, Except.pure] at h
          subst h
          obtain ⟨h1, h2⟩ := ih hr
          refine ⟨?_, ?_⟩
          · simp [he, h1]
          · intro c hc
            rcases List.mem_cons.mp hc with rfl | hc
            · exact ⟨hb, rfl⟩
            · exact h2 c hc

theorem flatten_filter_nonempty (cl : List (List Line)) :
    (cl.filter (fun ls => !ls.isEmpty)).flatten = cl.flatten := by
  induction cl with
  | nil => rfl
  | cons ls rest ih =>
    cases ls with
    | nil => simp [ih]
    | cons a as => simp [ih]

theorem makeRangeCols_flat (g : RegInfo) {cl : List (List Line)} {cols : List Col}
    (h : makeRangeCols g cl = .ok cols) : cols.flatMap Col.lines = cl.flatten := by
  have := (makeRangeCols_spec g h).1
  rw [← flatten_filter_nonempty, ← this, List.flatMap_def]

/-! ### columns.sort() / merge_overlapping_columns -/

theorem insertCol_perm (x : Col) (ys : List Col) : (insertCol x ys).Perm (x :: ys) := by
  induction ys with
  | nil => simp [insertCol]
  | cons y ys ih =>
    simp only [insertCol]
    split
    · exact List.Perm.refl _
    · exact List.Perm.trans (List.Perm.cons y ih) (List.Perm.swap x y ys)

theorem sortCols_perm (cs : List Col) : (sortCols cs).Perm cs := by
  induction cs with
  | nil => simp [sortCols]
  | cons c cs ih =>
    simp only [sortCols]
    exact List.Perm.trans (insertCol_perm c _) (List.Perm.cons c ih)

theorem mergeOverlapping_ok {cols s : List Col} (h : mergeOverlapping cols = .ok s) :
    s.Perm cols ∧ anyAdjOverlap s = false := by
  simp only [mergeOverlapping] at h
  split at h
  · cases h
  · rename_i hn
    cases h
    exact ⟨sortCols_perm cols, by simpa using hn⟩

/-! ### handle_extra_lines: one line -/

theorem flatMap_set_perm {cols : List Col} {i : Nat} {c c' : Col} {extra : List Line}
    (hi : cols[i]? = some c) (hc' : c'.lines = c.lines ++ extra) :
    ((cols.set i c').flatMap Col.lines).Perm (cols.flatMap Col.lines ++ extra) := by
  induction cols generalizing i with
  | nil => simp at hi
  | cons x xs ih =>
    cases i with
    | zero =>
      simp at hi; subst hi
      simp only [List.set_cons_zero, List.flatMap_cons, hc', List.append_assoc]
      exact List.Perm.append_left _ List.perm_append_comm
    | succ j =>
      simp at hi
      simp only [List.set_cons_succ, List.flatMap_cons, List.append_assoc]
      exact List.Perm.append_left _ (ih hi)

theorem placeLine_some {g : RegInfo} {l : Line} {cols cols' : List Col}
    (h : placeLine g l cols = .ok (some cols')) :
    ∃ i c b id, cols[i]? = some c ∧ hullBox (c.lines ++ [l]) = .ok b ∧
      cols' = cols.set i ⟨c.lines ++ [l], b, id⟩ ∧
      ((g.parent = none ∧ id = c.id) ∨ ∃ p, g.parent = some p ∧ id = .derived p "column" b) := by
  simp only [placeLine] at h
  split at h
  · cases h
  · rename_i i w hpb
    split at h
    · cases h
    · rename_i c hc
      split at h
      · cases hb : hullBox (c.lines ++ [l]) with
        | error e => simp [hb, bind, Except.bind] at h
        | ok b =>
          simp [hb, bind, Except.bind, pure, Except.pure] at h
          refine ⟨i, c, b, _, hc, hb, h.symm, ?_⟩
          cases hp : g.parent with
          | none => left; exact ⟨rfl, rfl⟩
          | some p => right; exact ⟨p, rfl, rfl⟩
      · cases h

theorem placeLine_spec {g : RegInfo} {l : Line} {cols cols' : List Col}
    (h : placeLine g l cols = .ok (some cols')) (hinv : ∀ c ∈ cols, Inv g c) :
    (cols'.flatMap Col.lines).Perm (cols.flatMap Col.lines ++ [l]) ∧ ∀ c ∈ cols', Inv g c := by
  obtain ⟨i, c, b, id, hi, hb, rfl, hid⟩ := placeLine_some h
  refine ⟨flatMap_set_perm hi rfl, ?_⟩
  intro x hx
  rcases List.mem_or_eq_of_mem_set hx with hx | rfl
  · exact hinv x hx
  · have hcm : c ∈ cols := List.mem_of_getElem? hi
    refine ⟨hb, ?_⟩
    rcases hid with ⟨_, rfl⟩ | ⟨p, hp, rfl⟩
    · exact (hinv c hcm).2
    · exact ⟨p, b, rfl, Rooted.parent hp⟩

/-! ### handle_extra_lines: the loop -/

theorem placeAll_spec {g : RegInfo} {extra : List Line} {cols : List Col} {nc : List Line}
    {cols' : List Col} {nc' : List Line}
    (h : placeAll g extra cols nc = .ok (cols', nc')) (hinv : ∀ c ∈ cols, Inv g c) :
    (cols'.flatMap Col.lines ++ nc').Perm (cols.flatMap Col.lines ++ nc ++ extra) ∧
    (∀ c ∈ cols', Inv g c) ∧ (∀ l ∈ nc', l ∈ nc ∨ l ∈ extra) := by
  induction extra generalizing cols nc with
  | nil =>
    simp [placeAll] at h
    obtain ⟨rfl, rfl⟩ := h
    exact ⟨by simp, hinv, fun l hl => Or.inl hl⟩
  | cons l ls ih =>
    simp only [placeAll] at h
    cases hp : placeLine g l cols with
    | error e => simp [hp, bind, Except.bind] at h
    | ok r =>
      cases r with
      | some cols1 =>
        simp [hp, bind, Except.bind] at h
        obtain ⟨p1, i1⟩ := placeLine_spec hp hinv
        obtain ⟨p2, i2, s2⟩ := ih h i1
        refine ⟨?_, i2, ?_⟩
        · refine p2.trans ?_
          -- (cols1.flat ++ nc) ++ ls ~ (cols.flat ++ nc) ++ (l :: ls)
          have : (cols1.flatMap Col.lines ++ nc ++ ls).Perm ((cols.flatMap Col.lines ++ [l]) ++ nc ++ ls) :=
            List.Perm.append_right _ (List.Perm.append_right _ p1)
          refine this.trans ?_
          simp only [List.append_assoc]
          refine List.Perm.append_left _ ?_
          simp only [List.singleton_append]
          exact (List.perm_middle (l₁ := nc) (l₂ := ls) (a := l)).symm
        · intro x hx
          rcases s2 x hx with hx | hx
          · exact Or.inl hx
          · exact Or.inr (List.mem_cons_of_mem _ hx)
      | none =>
        simp [hp, bind, Except.bind] at h
        obtain ⟨p2, i2, s2⟩ := ih h hinv
        refine ⟨?_, i2, ?_⟩
        · refine p2.trans ?_
          simp [List.append_assoc]
        · intro x hx
          rcases s2 x hx with hx | hx
          · rcases List.mem_append.mp hx with hx | hx
            · exact Or.inl hx
            · simp at hx; subst hx; exact Or.inr (List.mem_cons_self ..)
          · exact Or.inr (List.mem_cons_of_mem _ hx)

end Pagexml.C18
