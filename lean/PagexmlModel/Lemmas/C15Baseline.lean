/-
Lemmas about `baseline_is_below` (the index walk is total on non-empty point lists, counts
every comparison as "below" when all points of the first list lie lower) and about the
extent of a baseline; invariance of all of it under translation.
-/
import PagexmlModel.Lemmas.C15Consts

namespace Pagexml.C15

open List

/-! ### extent of a baseline -/

theorem foldl_min_spec (f : Pt → Int) (ps : List Pt) (a : Int) :
    ps.foldl (fun m p => min m (f p)) a ≤ a ∧ ∀ p ∈ ps, ps.foldl (fun m p => min m (f p)) a ≤ f p := by
  induction ps generalizing a with
  | nil => simp
  | cons b bs ih =>
    obtain ⟨h1, h2⟩ := ih (min a (f b))
    simp only [foldl_cons]
    refine ⟨by omega, ?_⟩
    intro p hp
    rcases mem_cons.mp hp with rfl | hp
    · omega
    · exact h2 p hp

theorem foldl_max_spec (f : Pt → Int) (ps : List Pt) (a : Int) :
    a ≤ ps.foldl (fun m p => max m (f p)) a ∧ ∀ p ∈ ps, f p ≤ ps.foldl (fun m p => max m (f p)) a := by
  induction ps generalizing a with
  | nil => simp
  | cons b bs ih =>
    obtain ⟨h1, h2⟩ := ih (max a (f b))
    simp only [foldl_cons]
    refine ⟨by omega, ?_⟩
    intro p hp
    rcases mem_cons.mp hp with rfl | hp
    · omega
    · exact h2 p hp

theorem Baseline.top_le (b : Baseline) : ∀ p ∈ b.points, b.top ≤ p.2 := by
  intro p hp
  obtain ⟨h1, h2⟩ := foldl_min_spec (·.2) b.ps b.p0.2
  rcases mem_cons.mp hp with rfl | hp
  · exact h1
  · exact h2 p hp

theorem Baseline.le_bottom (b : Baseline) : ∀ p ∈ b.points, p.2 ≤ b.bottom := by
  intro p hp
  obtain ⟨h1, h2⟩ := foldl_max_spec (·.2) b.ps b.p0.2
  rcases mem_cons.mp hp with rfl | hp
  · exact h1
  · exact h2 p hp

theorem Baseline.top_le_bottom (b : Baseline) : b.top ≤ b.bottom :=
  Int.le_trans (b.top_le b.p0 (by simp [Baseline.points])) (b.le_bottom b.p0 (by simp [Baseline.points]))

theorem Baseline.left_le_right (b : Baseline) : b.left ≤ b.right :=
  Int.le_trans (foldl_min_spec (·.1) b.ps b.p0.1).1 (foldl_max_spec (·.1) b.ps b.p0.1).1

theorem Baseline.points_ne_nil (b : Baseline) : b.points ≠ [] := by simp [Baseline.points]

/-! ### the index walk -/

theorem getPt_lt (l : List Pt) (i : Nat) (h : i < l.length) : getPt l i = .ok l[i] := by
  simp [getPt, h]

theorem getPt_ge (l : List Pt) (i : Nat) (h : l.length ≤ i) : getPt l i = .error .IndexError := by
  simp [getPt, h]

theorem startIdx_spec (b2 : List Pt) (hb2 : b2 ≠ []) :
    ∀ (suf : List Pt) (bi : Nat), suf ≠ [] →
      ∃ i, startIdx b2 suf bi = .ok i ∧ bi ≤ i ∧ i < bi + suf.length := by
  intro suf
  induction suf with
  | nil => intro _ h; exact absurd rfl h
  | cons x t ih =>
    intro bi _
    cases t with
    | nil => exact ⟨bi, rfl, Nat.le_refl _, by simp⟩
    | cons q rest =>
      have h0 : 0 < b2.length := length_pos_iff.mpr hb2
      simp only [startIdx, getPt_lt b2 0 h0]
      by_cases hq : q.1 < b2[0].1
      · obtain ⟨i, e, l1, l2⟩ := ih (bi + 1) (by simp)
        refine ⟨i, by simp [hq, e], by omega, ?_⟩
        simp only [length_cons] at l2 ⊢
        omega
      · exact ⟨bi, by simp [hq], Nat.le_refl _, by simp⟩

/-- the `while True` loop: with both indexes in range and fuel for the remaining points it
    ends normally after `k ≥ 1` comparisons, `k ≤` the number of remaining points; the number
    of "below" verdicts is between 0 and `k`, and equals `k` when every point of `b1` lies
    lower than every point of `b2` -/
theorem walk_spec (b1 b2 : List Pt) :
    ∀ (fuel i1 i2 nb no : Nat), i1 < b1.length → i2 < b2.length →
      (b1.length - i1) + (b2.length - i2) ≤ fuel →
      ∃ nb' k, walk b1 b2 fuel i1 i2 nb no = .ok (nb', no + k) ∧ 1 ≤ k ∧
        k + 1 ≤ (b1.length - i1) + (b2.length - i2) ∧ nb ≤ nb' ∧ nb' ≤ nb + k ∧
        ((∀ p ∈ b1, ∀ q ∈ b2, p.2 > q.2) → nb' = nb + k) := by
  intro fuel
  induction fuel with
  | zero => intro i1 i2 nb no h1 h2 hf; omega
  | succ f ih =>
    intro i1 i2 nb no h1 h2 hf
    have hall : (∀ p ∈ b1, ∀ q ∈ b2, p.2 > q.2) → b1[i1].2 > b2[i2].2 :=
      fun h => h _ (getElem_mem h1) _ (getElem_mem h2)
    simp only [walk, getPt_lt b1 i1 h1, getPt_lt b2 i2 h2]
    by_cases hle : b1[i1].1 ≤ b2[i2].1
    · simp only [hle, if_true]
      by_cases hend : b1.length = i1 + 1 ∨ b2.length = i2
      · simp only [hend, if_true]
        refine ⟨_, 1, rfl, Nat.le_refl _, by omega, by split <;> omega, by split <;> omega, ?_⟩
        intro h; simp [hall h]
      · simp only [hend, if_false]
        obtain ⟨nb', k, e, k1, k2, l1, l2, l3⟩ :=
          ih (i1 + 1) i2 (if b1[i1].2 > b2[i2].2 then nb + 1 else nb) (no + 1) (by omega) h2 (by omega)
        refine ⟨nb', k + 1, by rw [e]; congr 2; omega, by omega, by omega, by split at l1 <;> omega,
          by split at l2 <;> omega, ?_⟩
        intro h
        have := l3 h
        simp only [hall h, if_true] at this
        omega
    · simp only [hle, if_false]
      by_cases hend : b1.length = i1 ∨ b2.length = i2 + 1
      · simp only [hend, if_true]
        refine ⟨_, 1, rfl, Nat.le_refl _, by omega, by split <;> omega, by split <;> omega, ?_⟩
        intro h; simp [hall h]
      · simp only [hend, if_false]
        obtain ⟨nb', k, e, k1, k2, l1, l2, l3⟩ :=
          ih i1 (i2 + 1) (if b1[i1].2 > b2[i2].2 then nb + 1 else nb) (no + 1) h1 (by omega) (by omega)
        refine ⟨nb', k + 1, by rw [e]; congr 2; omega, by omega, by omega, by split at l1 <;> omega,
          by split at l2 <;> omega, ?_⟩
        intro h
        have := l3 h
        simp only [hall h, if_true] at this
        omega

/-- `baseline_is_below` on non-empty point lists: both start indexes are in range, the walk
    needs at most `|b1| + |b2|` steps, no IndexError, no division by zero -/
theorem baselineIsBelow_spec (b1 b2 : List Pt) (h1 : b1 ≠ []) (h2 : b2 ≠ []) :
    ∃ i1 i2 nb no, startIdx b2 b1 0 = .ok i1 ∧ startIdx b1 b2 0 = .ok i2 ∧ i1 < b1.length ∧ i2 < b2.length ∧
      walk b1 b2 (b1.length + b2.length + 1) i1 i2 0 0 = .ok (nb, no) ∧ 1 ≤ no ∧ no < b1.length + b2.length ∧
      nb ≤ no ∧ baselineIsBelow b1 b2 = .ok (ratioGt nb no Generated.C15.baselineBelowRatio) ∧
      ((∀ p ∈ b1, ∀ q ∈ b2, p.2 > q.2) → nb = no) := by
  obtain ⟨i1, e1, _, l1⟩ := startIdx_spec b2 h2 b1 0 h1
  obtain ⟨i2, e2, _, l2⟩ := startIdx_spec b1 h1 b2 0 h2
  obtain ⟨nb, k, e, k1, k2, _, l4, l5⟩ :=
    walk_spec b1 b2 (b1.length + b2.length + 1) i1 i2 0 0 (by omega) (by omega) (by omega)
  refine ⟨i1, i2, nb, 0 + k, e1, e2, by omega, by omega, e, by omega, by omega, by omega, ?_, ?_⟩
  · have hk : ¬ (0 + k = 0) := by omega
    simp only [baselineIsBelow, e1, e2, e, hk, if_false]
  · intro h; have := l5 h; omega

theorem baselineIsBelow_total (b1 b2 : List Pt) (h1 : b1 ≠ []) (h2 : b2 ≠ []) :
    ∃ v, baselineIsBelow b1 b2 = .ok v := by
  obtain ⟨_, _, nb, no, _, _, _, _, _, _, _, _, e, _⟩ := baselineIsBelow_spec b1 b2 h1 h2
  exact ⟨_, e⟩

theorem baselineIsBelow_of_all_lower (b1 b2 : List Pt) (h1 : b1 ≠ []) (h2 : b2 ≠ [])
    (h : ∀ p ∈ b1, ∀ q ∈ b2, p.2 > q.2) : baselineIsBelow b1 b2 = .ok true := by
  obtain ⟨_, _, nb, no, _, _, _, _, _, n1, _, _, e, hall⟩ := baselineIsBelow_spec b1 b2 h1 h2
  rw [e, hall h]
  exact congrArg _ (ratioGt_self consts_baseline_below_ratio_proper.2 (by omega))

/-! ### translation -/

theorem shiftPt_fst (dx dy : Int) (p : Pt) : (shiftPt dx dy p).1 = p.1 + dx := rfl
theorem shiftPt_snd (dx dy : Int) (p : Pt) : (shiftPt dx dy p).2 = p.2 + dy := rfl

theorem foldl_min_shift (f : Pt → Int) (g : Pt → Pt) (d : Int) (hf : ∀ p, f (g p) = f p + d) (ps : List Pt) (a : Int) :
    (ps.map g).foldl (fun m p => min m (f p)) (a + d) = ps.foldl (fun m p => min m (f p)) a + d := by
  induction ps generalizing a with
  | nil => rfl
  | cons b bs ih =>
    simp only [map_cons, foldl_cons, hf]
    have e : min (a + d) (f b + d) = min a (f b) + d := by omega
    rw [e, ih]

theorem foldl_max_shift (f : Pt → Int) (g : Pt → Pt) (d : Int) (hf : ∀ p, f (g p) = f p + d) (ps : List Pt) (a : Int) :
    (ps.map g).foldl (fun m p => max m (f p)) (a + d) = ps.foldl (fun m p => max m (f p)) a + d := by
  induction ps generalizing a with
  | nil => rfl
  | cons b bs ih =>
    simp only [map_cons, foldl_cons, hf]
    have e : max (a + d) (f b + d) = max a (f b) + d := by omega
    rw [e, ih]

theorem Baseline.shift_left (dx dy : Int) (b : Baseline) : (b.shift dx dy).left = b.left + dx :=
  foldl_min_shift (·.1) (shiftPt dx dy) dx (fun _ => rfl) b.ps b.p0.1
theorem Baseline.shift_right (dx dy : Int) (b : Baseline) : (b.shift dx dy).right = b.right + dx :=
  foldl_max_shift (·.1) (shiftPt dx dy) dx (fun _ => rfl) b.ps b.p0.1
theorem Baseline.shift_top (dx dy : Int) (b : Baseline) : (b.shift dx dy).top = b.top + dy :=
  foldl_min_shift (·.2) (shiftPt dx dy) dy (fun _ => rfl) b.ps b.p0.2
theorem Baseline.shift_bottom (dx dy : Int) (b : Baseline) : (b.shift dx dy).bottom = b.bottom + dy :=
  foldl_max_shift (·.2) (shiftPt dx dy) dy (fun _ => rfl) b.ps b.p0.2
theorem Baseline.shift_points (dx dy : Int) (b : Baseline) :
    (b.shift dx dy).points = b.points.map (shiftPt dx dy) := rfl

theorem getPt_shift (dx dy : Int) (l : List Pt) (i : Nat) :
    getPt (l.map (shiftPt dx dy)) i = (getPt l i).map (shiftPt dx dy) := by
  simp only [getPt, getElem?_map]
  cases l[i]? <;> rfl

theorem startIdx_shift (dx dy : Int) (b2 : List Pt) :
    ∀ (suf : List Pt) (bi : Nat),
      startIdx (b2.map (shiftPt dx dy)) (suf.map (shiftPt dx dy)) bi = startIdx b2 suf bi := by
  intro suf
  induction suf with
  | nil => intro bi; rfl
  | cons x t ih =>
    intro bi
    cases t with
    | nil => rfl
    | cons q rest =>
      have e := ih (bi + 1)
      simp only [map_cons] at e
      simp only [map_cons, startIdx, getPt_shift]
      cases hg : getPt b2 0 with
      | error err => simp [Except.map]
      | ok f =>
        simp only [Except.map, shiftPt_fst, e]
        have : (q.1 + dx < f.1 + dx) ↔ (q.1 < f.1) := by omega
        simp only [this]

theorem walk_shift (dx dy : Int) (b1 b2 : List Pt) :
    ∀ (fuel i1 i2 nb no : Nat),
      walk (b1.map (shiftPt dx dy)) (b2.map (shiftPt dx dy)) fuel i1 i2 nb no = walk b1 b2 fuel i1 i2 nb no := by
  intro fuel
  induction fuel with
  | zero => intro _ _ _ _; rfl
  | succ f ih =>
    intro i1 i2 nb no
    simp only [walk, getPt_shift, length_map]
    cases getPt b1 i1 with
    | error e => simp [Except.map]
    | ok p =>
      cases getPt b2 i2 with
      | error e => simp [Except.map]
      | ok q =>
        simp only [Except.map, shiftPt_fst, shiftPt_snd, ih]
        have e1 : (p.2 + dy > q.2 + dy) ↔ (p.2 > q.2) := by omega
        have e2 : (p.1 + dx ≤ q.1 + dx) ↔ (p.1 ≤ q.1) := by omega
        simp only [e1, e2]

theorem baselineIsBelow_shift (dx dy : Int) (b1 b2 : List Pt) :
    baselineIsBelow (b1.map (shiftPt dx dy)) (b2.map (shiftPt dx dy)) = baselineIsBelow b1 b2 := by
  simp only [baselineIsBelow, startIdx_shift, walk_shift, length_map]

end Pagexml.C15
