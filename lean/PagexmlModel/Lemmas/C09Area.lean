/-
Shoelace sum: splitting, reversal, rotation, translation (helper lemmas for Props/C09).
-/
import PagexmlModel.Model.C09
import Mathlib.Tactic.Ring
import Mathlib.Tactic.Linarith

namespace Pagexml.C09
open Pagexml.C03 (Pt)

/-- one term of the shoelace sum -/
def seg (a b : Pt) : Int := a.1 * b.2 - b.1 * a.2

theorem shoe_cons_cons (a b : Pt) (r : List Pt) : shoe (a :: b :: r) = seg a b + shoe (b :: r) := rfl

theorem shoe_single (a : Pt) : shoe [a] = 0 := rfl

theorem shoe_append (xs : List Pt) (m : Pt) (ys : List Pt) :
    shoe (xs ++ m :: ys) = shoe (xs ++ [m]) + shoe (m :: ys) := by
  induction xs with
  | nil => simp [shoe]
  | cons a xs ih =>
    cases xs with
    | nil => simp [shoe]
    | cons b xs =>
      simp only [List.cons_append, shoe_cons_cons] at ih ⊢
      rw [ih]; ring

theorem shoe_reverse (l : List Pt) : shoe l.reverse = - shoe l := by
  induction l with
  | nil => simp [shoe]
  | cons a l ih =>
    cases l with
    | nil => simp [shoe]
    | cons b r =>
      have h : (a :: b :: r).reverse = r.reverse ++ b :: [a] := by simp
      rw [h, shoe_append, shoe_cons_cons, shoe_cons_cons, shoe_single]
      have h2 : r.reverse ++ [b] = (b :: r).reverse := by simp
      rw [h2, ih]
      simp only [seg]; ring

theorem shoelace_cons (p : Pt) (ps : List Pt) : shoelace (p :: ps) = shoe (p :: ps ++ [p]) := rfl

theorem shoelace_append_comm (l1 l2 : List Pt) : shoelace (l1 ++ l2) = shoelace (l2 ++ l1) := by
  cases l1 with
  | nil => simp
  | cons a t1 =>
    cases l2 with
    | nil => simp
    | cons b t2 =>
      have e1 : shoelace (a :: t1 ++ b :: t2) = shoe ((a :: t1) ++ b :: (t2 ++ [a])) := by
        simp [shoelace]
      have e2 : shoelace (b :: t2 ++ a :: t1) = shoe ((b :: t2) ++ a :: (t1 ++ [b])) := by
        simp [shoelace]
      rw [e1, e2, shoe_append (a :: t1) b (t2 ++ [a]), shoe_append (b :: t2) a (t1 ++ [b])]
      simp only [List.cons_append]
      ring

theorem shoelace_reverse (l : List Pt) : shoelace l.reverse = - shoelace l := by
  cases l with
  | nil => simp [shoelace]
  | cons p ps =>
    have h1 : (p :: ps).reverse = ps.reverse ++ [p] := by simp
    rw [h1, shoelace_append_comm]
    have h2 : shoelace ([p] ++ ps.reverse) = shoe ((p :: ps ++ [p]).reverse) := by
      simp [shoelace]
    rw [h2, shoe_reverse, shoelace_cons]

/-- translation by `d` -/
def translate (d : Pt) (l : List Pt) : List Pt := l.map (fun p => (p.1 + d.1, p.2 + d.2))

theorem shoe_translate (d : Pt) (l : List Pt) (a : Pt) :
    shoe (translate d (a :: l)) =
      shoe (a :: l) + d.1 * ((l.getLastD a).2 - a.2) - d.2 * ((l.getLastD a).1 - a.1) := by
  induction l generalizing a with
  | nil => simp [translate, shoe]
  | cons b r ih =>
    have h := ih b
    simp only [translate, List.map_cons] at h ⊢
    rw [shoe_cons_cons, h, shoe_cons_cons]
    simp only [seg, List.getLastD_cons]
    ring

theorem shoelace_translate (d : Pt) (l : List Pt) : shoelace (translate d l) = shoelace l := by
  cases l with
  | nil => rfl
  | cons p ps =>
    have h : shoelace (translate d (p :: ps)) = shoe (translate d (p :: (ps ++ [p]))) := by
      simp [translate, shoelace]
    rw [h, shoe_translate, shoelace_cons]
    simp

end Pagexml.C09
