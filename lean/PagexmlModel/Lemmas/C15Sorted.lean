/-
`sorted(xs)` with a user-defined `__lt__` (DESIGN §3.6): the contract assumed of CPython's
sort, the proof that a stable insertion sort meets it (so the contract is satisfiable), and
its consequence: on a list on which `__lt__` is a strict total order the result is the one
sorted arrangement.  Then `__lt__` of lines on a clean column and of regions on clean columns.
-/
import PagexmlModel.Lemmas.C15Clean

namespace Pagexml.C15

open List

def StrictTotalOn {α : Type} (lt : α → α → Bool) (xs : List α) : Prop :=
  (∀ a ∈ xs, lt a a = false) ∧
  (∀ a ∈ xs, ∀ b ∈ xs, ∀ c ∈ xs, lt a b = true → lt b c = true → lt a c = true) ∧
  (∀ a ∈ xs, ∀ b ∈ xs, a ≠ b → lt a b = true ∨ lt b a = true)

/-- what is assumed of `sorted`: it returns a permutation, and when `__lt__` is a strict total
    order on the elements no element is followed by a smaller one -/
structure SortContract (srt : ∀ {α : Type}, (α → α → Bool) → List α → List α) : Prop where
  perm : ∀ {α : Type} (lt : α → α → Bool) (xs : List α), srt lt xs ~ xs
  sorted : ∀ {α : Type} (lt : α → α → Bool) (xs : List α), StrictTotalOn lt xs →
    (srt lt xs).Pairwise (fun a b => lt b a = false)

theorem StrictTotalOn.perm {α : Type} {lt : α → α → Bool} {xs ys : List α} (h : StrictTotalOn lt xs) (hp : ys ~ xs) :
    StrictTotalOn lt ys :=
  ⟨fun a ha => h.1 a (hp.subset ha),
   fun a ha b hb c hc => h.2.1 a (hp.subset ha) b (hp.subset hb) c (hp.subset hc),
   fun a ha b hb => h.2.2 a (hp.subset ha) b (hp.subset hb)⟩

/-- under the contract, sorting any shuffle of a strictly ascending list returns that list -/
theorem sorted_eq_of_contract {srt : ∀ {α : Type}, (α → α → Bool) → List α → List α} (hs : SortContract srt)
    {α : Type} (lt : α → α → Bool) {col xs : List α} (ht : StrictTotalOn lt col)
    (hasc : col.Pairwise (fun a b => lt a b = true)) (hp : xs ~ col) : srt lt xs = col := by
  have hperm : srt lt xs ~ col := (hs.perm lt xs).trans hp
  refine Perm.eq_of_pairwise (le := fun a b => lt b a = false) ?_ (hs.sorted lt xs (ht.perm hp)) ?_ hperm
  · intro a b ha hb h1 h2
    have ha' := hperm.subset ha
    apply Classical.byContradiction
    intro hne
    rcases ht.2.2 a ha' b hb hne with h | h
    · rw [h] at h2; cases h2
    · rw [h] at h1; cases h1
  · refine hasc.imp_of_mem ?_
    intro a b ha hb hab
    cases hba : lt b a with
    | false => rfl
    | true =>
      have := ht.2.1 a ha b hb a ha hab hba
      rw [ht.1 a ha] at this
      cases this

/-! ### the reference insertion sort meets the contract -/

theorem insertBy_perm {α : Type} (lt : α → α → Bool) (x : α) : ∀ l : List α, insertBy lt x l ~ x :: l := by
  intro l
  induction l with
  | nil => exact Perm.refl _
  | cons y ys ih =>
    simp only [insertBy]
    split
    · exact Perm.refl _
    · exact (Perm.cons y ih).trans (Perm.swap x y ys)

theorem foldl_insertBy_perm {α : Type} (lt : α → α → Bool) :
    ∀ (xs acc : List α), xs.foldl (fun acc x => insertBy lt x acc) acc ~ acc ++ xs := by
  intro xs
  induction xs with
  | nil => intro acc; simp
  | cons x xs ih =>
    intro acc
    simp only [foldl_cons]
    refine (ih _).trans ?_
    refine ((insertBy_perm lt x acc).append_right xs).trans ?_
    simpa using (perm_middle (a := x) (l₁ := acc) (l₂ := xs)).symm

theorem insertBy_sorted {α : Type} (lt : α → α → Bool) (S : List α) (ht : StrictTotalOn lt S) (x : α) (hx : x ∈ S) :
    ∀ l : List α, (∀ a ∈ l, a ∈ S) → l.Pairwise (fun a b => lt b a = false) →
      (insertBy lt x l).Pairwise (fun a b => lt b a = false) := by
  have asym : ∀ a ∈ S, ∀ b ∈ S, lt a b = true → lt b a = false := by
    intro a ha b hb hab
    cases hba : lt b a with
    | false => rfl
    | true =>
      have := ht.2.1 a ha b hb a ha hab hba
      rw [ht.1 a ha] at this
      cases this
  intro l
  induction l with
  | nil => intro _ _; simp [insertBy]
  | cons y ys ih =>
    intro hmem hp
    obtain ⟨hy, hys⟩ := pairwise_cons.mp hp
    have hyS := hmem y (by simp)
    simp only [insertBy]
    split
    · rename_i hxy
      refine pairwise_cons.mpr ⟨?_, hp⟩
      intro z hz
      rcases mem_cons.mp hz with rfl | hz
      · exact asym x hx z hyS hxy
      · have hzS := hmem z (mem_cons_of_mem _ hz)
        cases hzx : lt z x with
        | false => rfl
        | true =>
          have := ht.2.1 z hzS x hx y hyS hzx hxy
          rw [hy z hz] at this
          cases this
    · rename_i hxy
      refine pairwise_cons.mpr ⟨?_, ih (fun a ha => hmem a (mem_cons_of_mem _ ha)) hys⟩
      intro w hw
      rcases mem_cons.mp ((insertBy_perm lt x ys).subset hw) with rfl | hw
      · simpa using hxy
      · exact hy w hw

theorem isortBy_contract : SortContract (fun {α : Type} lt xs => isortBy (α := α) lt xs) where
  perm := by
    intro α lt xs
    simpa [isortBy] using foldl_insertBy_perm lt xs []
  sorted := by
    intro α lt xs ht
    have h : ∀ (ys acc : List α), (∀ a ∈ ys, a ∈ xs) → (∀ a ∈ acc, a ∈ xs) →
        acc.Pairwise (fun a b => lt b a = false) →
        (ys.foldl (fun acc x => insertBy lt x acc) acc).Pairwise (fun a b => lt b a = false) := by
      intro ys
      induction ys with
      | nil => intro acc _ _ h; exact h
      | cons y ys ih =>
        intro acc hy hacc hp
        simp only [foldl_cons]
        apply ih
        · exact fun a ha => hy a (mem_cons_of_mem _ ha)
        · intro a ha
          rcases mem_cons.mp ((insertBy_perm lt y acc).subset ha) with rfl | ha
          · exact hy a (by simp)
          · exact hacc a ha
        · exact insertBy_sorted lt xs ht y (hy y (by simp)) acc hacc hp
    exact h xs [] (fun a ha => ha) (by simp) Pairwise.nil

/-! ### a strict total order from a pairwise relation -/

theorem strictTotalOn_of_pairwise {α : Type} (lt : α → α → Bool) (R : α → α → Prop) {col : List α}
    (hR : col.Pairwise R) (hirr : ∀ a ∈ col, lt a a = false)
    (hlt : ∀ a ∈ col, ∀ b ∈ col, R a b → lt a b = true ∧ lt b a = false)
    (htr : ∀ a ∈ col, ∀ b ∈ col, ∀ c ∈ col, R a b → R b c → R a c) :
    StrictTotalOn lt col ∧ col.Pairwise (fun a b => lt a b = true) := by
  have iff : ∀ a ∈ col, ∀ b ∈ col, lt a b = true → R a b := by
    intro a ha b hb h
    rcases pairwise_mem_trichotomy hR a ha b hb with e | r | r
    · subst e; rw [hirr a ha] at h; cases h
    · exact r
    · rw [(hlt b hb a ha r).2] at h; cases h
  refine ⟨⟨hirr, ?_, ?_⟩, hR.imp_of_mem (fun ha hb r => (hlt _ ha _ hb r).1)⟩
  · intro a ha b hb c hc h1 h2
    exact (hlt a ha c hc (htr a ha b hb c hc (iff a ha b hb h1) (iff b hb c hc h2))).1
  · intro a ha b hb hne
    rcases pairwise_mem_trichotomy hR a ha b hb with e | r | r
    · exact absurd e hne
    · exact Or.inl (hlt a ha b hb r).1
    · exact Or.inr (hlt b hb a ha r).1

/-! ### lines of one clean column -/

/-- `a` above `b`, two different objects -/
def ColRel (a b : Line) : Prop := Above a b ∧ a.id ≠ b.id

instance (a b : Line) : Decidable (ColRel a b) := by unfold ColRel; infer_instance

/-- the lines of one column, top to bottom: clean, no vertical overlap, distinct objects -/
def CleanColumn (col : List Line) : Prop := (∀ l ∈ col, CleanLine l) ∧ col.Pairwise ColRel

instance (col : List Line) : Decidable (CleanColumn col) := by unfold CleanColumn; infer_instance

/-- `a < b` as `sorted` sees it: the comparison answered `True` -/
def ltLine (a b : Line) : Bool :=
  match lineLt a b with
  | .ok true => true
  | _ => false

theorem column_order {col : List Line} (hc : CleanColumn col) :
    StrictTotalOn ltLine col ∧ col.Pairwise (fun a b => ltLine a b = true) := by
  refine strictTotalOn_of_pairwise ltLine ColRel hc.2 ?_ ?_ ?_
  · intro a _; simp [ltLine, lineLt]
  · intro a ha b hb r
    obtain ⟨h1, h2⟩ := lineLt_of_above (hc.1 a ha) (hc.1 b hb) r.1 r.2
    simp [ltLine, h1, h2]
  · intro a ha b hb c hc' r1 r2
    have hb2 := (hc.1 b hb).2.1
    have hab : Above a c := by
      have := r1.1; have := r2.1
      simp only [Above] at *
      omega
    rcases pairwise_mem_trichotomy hc.2 a ha c hc' with e | r | r
    · subst e
      have := r1.1; have := r2.1
      simp only [Above] at *
      have := (hc.1 a ha).2.1
      omega
    · exact r
    · have := r.1
      have := (hc.1 a ha).2.1
      have := (hc.1 c hc').2.1
      simp only [Above] at *
      omega

/-- on a clean column no comparison raises -/
theorem column_lt_total {col : List Line} (hc : CleanColumn col) :
    ∀ a ∈ col, ∀ b ∈ col, ∃ v, lineLt a b = .ok v := by
  intro a ha b hb
  rcases pairwise_mem_trichotomy hc.2 a ha b hb with e | r | r
  · subst e; exact ⟨false, by simp [lineLt]⟩
  · exact ⟨_, (lineLt_of_above (hc.1 a ha) (hc.1 b hb) r.1 r.2).1⟩
  · exact ⟨_, (lineLt_of_above (hc.1 b hb) (hc.1 a ha) r.1 r.2).2⟩

/-! ### column regions side by side -/

def RegRel (a b : Reg) : Prop := a.box.right < b.box.left ∧ a.id ≠ b.id

instance (a b : Reg) : Decidable (RegRel a b) := by unfold RegRel; infer_instance

/-- column regions left to right: positive width, horizontally disjoint, distinct objects -/
def CleanColumns (cs : List Reg) : Prop := (∀ c ∈ cs, c.box.left < c.box.right) ∧ cs.Pairwise RegRel

instance (cs : List Reg) : Decidable (CleanColumns cs) := by unfold CleanColumns; infer_instance

theorem isHOverlapping_disjoint {a b : Box} (ha : a.left < a.right) (hb : b.left < b.right) (h : a.right < b.left) :
    isHOverlapping a b = false ∧ isHOverlapping b a = false := by
  have w1 : ¬ (a.right - a.left = 0) := by omega
  have w2 : ¬ (b.right - b.left = 0) := by omega
  have o1 : overlapLen (max a.left b.left) (min a.right b.right) = 0 := by
    simp only [overlapLen]; split <;> omega
  have o2 : overlapLen (max b.left a.left) (min b.right a.right) = 0 := by
    simp only [overlapLen]; split <;> omega
  have m1 : min (a.right - a.left) (b.right - b.left) > 0 := by omega
  have m2 : min (b.right - b.left) (a.right - a.left) > 0 := by omega
  -- the one fact about the regenerated threshold that is used: it is not negative
  have hp := consts_region_overlap_threshold_nonneg.1
  constructor
  · simp only [isHOverlapping, Box.width, w1, w2, false_and, if_false, o1]
    exact ratGt_zero hp m1
  · simp only [isHOverlapping, Box.width, w1, w2, false_and, if_false, o2]
    exact ratGt_zero hp m2

theorem columns_order {cs : List Reg} (hc : CleanColumns cs) :
    StrictTotalOn regionLt cs ∧ cs.Pairwise (fun a b => regionLt a b = true) := by
  refine strictTotalOn_of_pairwise regionLt RegRel hc.2 ?_ ?_ ?_
  · intro a _; simp [regionLt]
  · intro a ha b hb r
    have wa := hc.1 a ha
    have wb := hc.1 b hb
    obtain ⟨h1, h2⟩ := isHOverlapping_disjoint wa wb r.1
    have := r.1
    have id1 : ¬ (b.id = a.id) := fun e => r.2 e.symm
    have c1 : a.box.left < b.box.left := by omega
    have c2 : ¬ (b.box.left < a.box.left) := by omega
    simp [regionLt, h1, h2, r.2, id1, c1, c2]
  · intro a ha b hb c hc' r1 r2
    have := r1.1; have := r2.1
    have wb := hc.1 b hb
    have hac : a.box.right < c.box.left := by omega
    rcases pairwise_mem_trichotomy hc.2 a ha c hc' with e | r | r
    · subst e; have := hc.1 a ha; omega
    · exact r
    · have := r.1; have := hc.1 a ha; have := hc.1 c hc'; omega

end Pagexml.C15
