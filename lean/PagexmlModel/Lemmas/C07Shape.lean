/-
C07: the export written element by element.

`add_to_pagexml` threads the growing parent through every call (`addSub`, `foldAdd`).  Without
the structural guards (`g = false`; `C07_export_ok` says the guards never fire on the text
hierarchy) every `add_*` builds one element and appends it, so the export of a document is:
build the element of every child (`wordElem`, `lineElem`, `regionElem`, `tableElem`), append them
in order.  `exportDocG false d = docElem d` (`export_eq_docElem`).
-/
import PagexmlModel.Lemmas.C07
import PagexmlModel.Model.C07Parse

set_option linter.unusedSimpArgs false
set_option linter.unusedVariables false

namespace Pagexml.C07
open Pagexml.C06

/-- `for c in cs: e.append(c)` -/
def addKids (e : Xml) (ks : List Xml) : Xml := { e with children := e.children ++ ks }

@[simp] theorem addKids_nil (e : Xml) : addKids e [] = e := by
  cases e; simp [addKids]

theorem addKids_append (e c : Xml) (cs : List Xml) : addKids (append e c) cs = addKids e (c :: cs) := by
  cases e; simp [addKids, append]

@[simp] theorem addKids_tag (e : Xml) (ks : List Xml) : (addKids e ks).tag = e.tag := rfl
@[simp] theorem addKids_attrs (e : Xml) (ks : List Xml) : (addKids e ks).attrs = e.attrs := rfl
@[simp] theorem addKids_text (e : Xml) (ks : List Xml) : (addKids e ks).text = e.text := rfl
@[simp] theorem addKids_children (e : Xml) (ks : List Xml) : (addKids e ks).children = e.children ++ ks := rfl

/-- `[f(a) for a in as]`, stopping at the first exception -/
def mapR {α β} (f : α → Res β) : List α → Res (List β)
  | [] => .ok []
  | a :: as => do
    let b ← f a
    let bs ← mapR f as
    pure (b :: bs)

theorem mapR_ok_length {α β} (f : α → Res β) : ∀ (as : List α) (bs : List β), mapR f as = .ok bs → bs.length = as.length
  | [], bs, h => by simp [mapR] at h; subst h; rfl
  | a :: as, bs, h => by
    simp only [mapR] at h
    cases hb : f a with
    | error e => simp [hb] at h
    | ok b =>
      cases hbs : mapR f as with
      | error e => simp [hb, hbs] at h
      | ok bs' =>
        simp [hb, hbs] at h; subst h
        simp [mapR_ok_length f as bs' hbs]

/-- what `mapR` returns, element by element -/
theorem mapR_ok_forall {α β} (f : α → Res β) (P : α → β → Prop) (hP : ∀ a b, f a = .ok b → P a b) :
    ∀ (as : List α) (bs : List β), mapR f as = .ok bs → List.Forall₂ P as bs
  | [], bs, h => by simp [mapR] at h; subst h; exact .nil
  | a :: as, bs, h => by
    simp only [mapR] at h
    cases hb : f a with
    | error e => simp [hb] at h
    | ok b =>
      cases hbs : mapR f as with
      | error e => simp [hb, hbs] at h
      | ok bs' =>
        simp [hb, hbs] at h; subst h
        exact .cons (hP a b hb) (mapR_ok_forall f P hP as bs' hbs)

/-- a loop of unguarded additions appends the elements of the items, in order -/
theorem foldAdd_mapR {α} (f : Xml → α → Res Xml) (el : α → Res Xml)
    (hf : ∀ p a, f p a = (el a >>= fun c => pure (append p c))) :
    ∀ (as : List α) (e : Xml), foldAdd f e as = (mapR el as >>= fun cs => pure (addKids e cs))
  | [], e => by simp [foldAdd, mapR]
  | a :: as, e => by
    simp only [foldAdd, mapR, hf]
    cases hb : el a with
    | error x => rfl
    | ok c =>
      simp only [ok_bind, pure_eq_ok]
      rw [foldAdd_mapR f el hf as (append e c)]
      cases hbs : mapR el as with
      | error x => rfl
      | ok cs => simp [addKids_append]

theorem addSub_false (p : Xml) (name : String) (b : Res Xml) :
    addSub false p name b = (b >>= fun c => pure (append p c)) := by
  simp [addSub, checkAdd]

/-! ### the element of every class -/

def wordElem (w : Word) : Res Xml :=
  mkElement false "Word" w.h.id (some (customOf w.h.md)) [] w.h.coords none w.text w.conf

def lineElem (l : Line) : Res Xml := do
  let e ← mkElement false "TextLine" l.h.id (some (customOf l.h.md)) [] l.h.coords l.baseline l.text l.conf
  let ws ← mapR wordElem l.words
  pure (addKids e ws)

def tableElem (t : Table) : Res Xml :=
  mkElement false "TableRegion" t.h.id (some (customOf t.h.md)) (docAttributes t.orientation) t.h.coords none none .none

mutual
def regionElem : Region → Res Xml
  | ⟨h, _text, orientation, _ro, _roa, lines, regions, tables⟩ => do
    let e ← mkElement false "TextRegion" h.id (some (customOf h.md)) (docAttributes orientation) h.coords none none .none
    let ls ← mapR lineElem lines
    let rs ← regionElems regions
    let ts ← mapR tableElem tables
    pure (addKids e (ls ++ rs ++ ts))
def regionElems : List Region → Res (List Xml)
  | [] => .ok []
  | r :: rs => do
    let x ← regionElem r
    let xs ← regionElems rs
    pure (x :: xs)
end

theorem addWord_false (p : Xml) (w : Word) : addWord false p w = (wordElem w >>= fun c => pure (append p c)) := by
  simp [addWord, addSub_false, wordElem]

theorem addTable_false (p : Xml) (t : Table) : addTable false p t = (tableElem t >>= fun c => pure (append p c)) := by
  simp [addTable, addSub_false, tableElem]

theorem addLine_false (p : Xml) (l : Line) : addLine false p l = (lineElem l >>= fun c => pure (append p c)) := by
  unfold addLine lineElem
  rw [addSub_false]
  congr 1
  cases he : mkElement false "TextLine" l.h.id (some (customOf l.h.md)) [] l.h.coords l.baseline l.text l.conf with
  | error x => rfl
  | ok e =>
    simp only [ok_bind]
    exact foldAdd_mapR _ wordElem addWord_false l.words e

mutual
theorem addRegion_false : ∀ (r : Region) (p : Xml), addRegion false p r = (regionElem r >>= fun c => pure (append p c))
  | ⟨h, text, orientation, ro, roa, lines, regions, tables⟩, p => by
    unfold addRegion regionElem
    rw [addSub_false]
    congr 1
    cases he : mkElement false "TextRegion" h.id (some (customOf h.md)) (docAttributes orientation) h.coords none none .none with
    | error x => rfl
    | ok e =>
      simp only [ok_bind]
      rw [foldAdd_mapR _ lineElem addLine_false lines e]
      cases hl : mapR lineElem lines with
      | error x => rfl
      | ok ls =>
        simp only [ok_bind, pure_eq_ok]
        rw [addRegions_false regions (addKids e ls)]
        cases hr : regionElems regions with
        | error x => rfl
        | ok rs =>
          simp only [ok_bind, pure_eq_ok]
          rw [foldAdd_mapR _ tableElem addTable_false tables]
          cases ht : mapR tableElem tables with
          | error x => rfl
          | ok ts =>
            simp only [ok_bind, pure_eq_ok]
            cases e
            simp [addKids, List.append_assoc]
theorem addRegions_false : ∀ (rs : List Region) (p : Xml),
    addRegions false p rs = (regionElems rs >>= fun cs => pure (addKids p cs))
  | [], p => by simp [addRegions, regionElems]
  | r :: rs, p => by
    simp only [addRegions, regionElems]
    rw [addRegion_false r p]
    cases hr : regionElem r with
    | error x => rfl
    | ok c =>
      simp only [ok_bind, pure_eq_ok]
      rw [addRegions_false rs (append p c)]
      cases hrs : regionElems rs with
      | error x => rfl
      | ok cs => simp [addKids_append]
end

/-! ### reading order, metadata, page -/

def orderedGroupElem (ro : RO) (roa : PyVal) : Res Xml := do
  let attrs ← roaAttrs roa
  let refs ← mapR refElem ro
  pure ⟨"OrderedGroup", attrs, none, refs⟩

theorem orderedGroup_false (ro : RO) (roa : PyVal) : orderedGroup false ro roa = orderedGroupElem ro roa := by
  unfold orderedGroup orderedGroupElem
  cases ha : roaAttrs roa with
  | error x => rfl
  | ok attrs =>
    simp only [ok_bind]
    rw [foldAdd_mapR (addRef false) refElem (fun p a => by simp [addRef, addSub_false]) ro]
    cases mapR refElem ro <;> simp [addKids]

/-- the ReadingOrder element, when the reading order is not empty -/
def readingOrderKids (ro : RO) (roa : PyVal) : Res (List Xml) :=
  if !ro.isEmpty then do
    let og ← orderedGroupElem ro roa
    pure [⟨"ReadingOrder", [], none, [og]⟩]
  else pure []

theorem scanReadingOrder_false (page : Xml) (ro : RO) (roa : PyVal) :
    scanReadingOrder false page ro roa = (readingOrderKids ro roa >>= fun ks => pure (addKids page ks)) := by
  unfold scanReadingOrder readingOrderKids
  split
  · simp only [addReadingOrder, guardValid, Bool.false_eq_true, if_false, ok_bind, pure_eq_ok, addSub_false,
      orderedGroup_false]
    cases orderedGroupElem ro roa with
    | error x => rfl
    | ok og => cases page; simp [append, addKids]
  · simp

/-- the `orientation` attribute a scan adds to its Page element -/
def scanOrientationAttrs (o : PyVal) : Res (List (String × String)) :=
  if o.truthy then do pure [("orientation", ← needStr o)] else pure []

theorem scanOrientation_eq (page : Xml) (o : PyVal) :
    scanOrientation page o = (scanOrientationAttrs o >>= fun a => pure { page with attrs := page.attrs ++ a }) := by
  unfold scanOrientation scanOrientationAttrs
  split
  · cases needStr o <;> rfl
  · cases page; simp

/-- PageXMLScan.add_to_pagexml on a fresh Page element -/
def scanFill (page : Xml) (s : Scan) : Res Xml := do
  let oa ← scanOrientationAttrs s.orientation
  let ro ← readingOrderKids s.ro s.roa
  let rs ← regionElems s.regions
  let ts ← mapR tableElem s.tables
  pure ⟨page.tag, page.attrs ++ oa, page.text, page.children ++ ro ++ rs ++ ts⟩

theorem addScan_false (page : Xml) (s : Scan) : addScan false page s = scanFill page s := by
  unfold addScan scanFill
  rw [scanOrientation_eq]
  cases scanOrientationAttrs s.orientation with
  | error x => rfl
  | ok oa =>
    simp only [ok_bind, pure_eq_ok]
    rw [scanReadingOrder_false]
    cases readingOrderKids s.ro s.roa with
    | error x => rfl
    | ok ro =>
      simp only [ok_bind, pure_eq_ok]
      rw [addRegions_false]
      cases regionElems s.regions with
      | error x => rfl
      | ok rs =>
        simp only [ok_bind, pure_eq_ok]
        rw [foldAdd_mapR _ tableElem addTable_false]
        cases mapR tableElem s.tables with
        | error x => rfl
        | ok ts => cases page; simp [addKids, List.append_assoc]

/-- one optional Metadata field -/
def mdFieldKids (md : Meta) (field : String) : Res (List Xml) :=
  match alookup (.s field) md with
  | some v => do pure [← fieldElem field v]
  | none => pure []

def metadataKids (md : Meta) : Res (List Xml) := do
  let a ← mdFieldKids md "Creator"
  let b ← mdFieldKids md "Created"
  let c ← mdFieldKids md "LastChange"
  pure (a ++ b ++ c)

theorem mdField_false (md : Meta) (m : Xml) (field : String) :
    mdField false md m field = (mdFieldKids md field >>= fun ks => pure (addKids m ks)) := by
  unfold mdField mdFieldKids
  cases alookup (.s field) md with
  | none => simp
  | some v =>
    simp only [addSub_false]
    cases fieldElem field v with
    | error x => rfl
    | ok c => cases m; simp [append, addKids]

def dimStr : Option Int → String
  | some i => strOfInt i
  | none => "0"

/-- the attributes of the Page element make_empty_pagexml writes -/
def pageAttrs (md : Meta) (w h : Option Int) : Res (List (String × String)) := do
  let fname ← fnameAttr md
  pure (fname ++ [("imageWidth", dimStr w), ("imageHeight", dimStr h)])

def rootAttrs : List (String × String) := [(Gen.xsiSchemaLocationAttr, Gen.schemaLocation)]

theorem emptyPagexml_false (md : Meta) (w h : Option Int) :
    emptyPagexml false md w h = (do
      let mk ← metadataKids md
      let pa ← pageAttrs md w h
      pure (⟨"PcGts", rootAttrs, none, [⟨"Metadata", [], none, mk⟩]⟩, ⟨"Page", pa, none, []⟩)) := by
  unfold emptyPagexml metadataKids pageAttrs
  simp only [foldAdd, mdField_false, checkAdd_false, ok_bind, pure_eq_ok]
  cases mdFieldKids md "Creator" with
  | error x => rfl
  | ok a =>
    simp only [ok_bind, pure_eq_ok]
    cases mdFieldKids md "Created" with
    | error x => rfl
    | ok b =>
      simp only [ok_bind, pure_eq_ok]
      cases mdFieldKids md "LastChange" with
      | error x => rfl
      | ok c =>
        simp only [ok_bind, pure_eq_ok]
        cases fnameAttr md with
        | error x => rfl
        | ok f =>
          simp only [ok_bind, pure_eq_ok]
          cases w <;> cases h <;> simp [addKids, dimStr, rootAttrs]

/-- `to_pagexml` without guards -/
def docElemOf (h : Hdr) (fill : Xml → Res Xml) : Res Xml := do
  let w ← imageDim h.md "scan_width" h.coords (·.1)
  let ht ← imageDim h.md "scan_height" h.coords (·.2)
  let mk ← metadataKids h.md
  let pa ← pageAttrs h.md w ht
  let page ← fill ⟨"Page", pa, none, []⟩
  pure ⟨"PcGts", rootAttrs, none, [⟨"Metadata", [], none, mk⟩, page]⟩

theorem toPagexml_false (h : Hdr) (fill : Xml → Res Xml) : toPagexml false h fill = docElemOf h fill := by
  unfold toPagexml docElemOf
  cases imageDim h.md "scan_width" h.coords (·.1) with
  | error x => rfl
  | ok w =>
    cases imageDim h.md "scan_height" h.coords (·.2) with
    | error x => rfl
    | ok ht =>
      simp only [ok_bind, pure_eq_ok, emptyPagexml_false]
      cases metadataKids h.md with
      | error x => rfl
      | ok mk =>
        simp only [ok_bind, pure_eq_ok]
        cases pageAttrs h.md w ht with
        | error x => rfl
        | ok pa =>
          simp only [ok_bind, pure_eq_ok]
          cases fill ⟨"Page", pa, none, []⟩ with
          | error x => rfl
          | ok page => simp [append]

/-! ### a bare region / line / word is exported as the scan that holds just it -/

theorem docElemOf_congr (h : Hdr) (f f' : Xml → Res Xml)
    (hf : ∀ pa, f ⟨"Page", pa, none, []⟩ = f' ⟨"Page", pa, none, []⟩) : docElemOf h f = docElemOf h f' := by
  unfold docElemOf
  simp only [hf]

/-- the Page of a scan without orientation / reading order / tables that holds one region -/
theorem scanFill_single (pa : List (String × String)) (h : Hdr) (r : Region) :
    scanFill ⟨"Page", pa, none, []⟩ (wrapScan h [r])
      = (regionElem r >>= fun c => pure (append ⟨"Page", pa, none, []⟩ c)) := by
  simp only [scanFill, wrapScan, scanOrientationAttrs, readingOrderKids, PyVal.truthy, regionElems, mapR]
  cases hr : regionElem r with
  | error x => rfl
  | ok c => simp [append]

theorem export_region_eq (r : Region) : exportDocG false (.region r) = exportDocG false (.scan (wrapScan r.h [r])) := by
  simp only [exportDocG, toPagexml_false, addScan_false]
  exact docElemOf_congr _ _ _ (fun pa => by rw [scanFill_single, addRegion_false])

theorem dummyRegion_elem (coords : Option Pts) (l : Line) :
    (do addLine false (← dummyRegion false coords) l) = regionElem (dummyRegionOf coords [l]) := by
  simp only [dummyRegionOf, regionElem, dummyRegion, docAttributes, PyVal.truthy, customOf, alookup_nil, mapR, regionElems,
    addLine_false, Bool.false_eq_true, if_false]
  cases he : mkElement false "TextRegion" .none (some (.dict [])) [] coords none none .none with
  | error x => simp [he]
  | ok e =>
    simp only [he, ok_bind, pure_eq_ok]
    cases hl : lineElem l with
    | error x => simp
    | ok c => cases e; simp [append, addKids]

theorem export_line_eq (l : Line) :
    exportDocG false (.line l) = exportDocG false (.scan (wrapScan l.h [dummyRegionOf l.h.coords [l]])) := by
  simp only [exportDocG, toPagexml_false, addScan_false]
  exact docElemOf_congr _ _ _ (fun pa => by rw [scanFill_single, addSub_false, dummyRegion_elem])

theorem dummyLine_elem (coords : Option Pts) (w : Word) :
    (do let ln ← mkElement false "TextLine" .none (some (.dict [])) [] coords none none .none
        addWord false ln w) = lineElem (dummyLineOf coords [w]) := by
  simp only [dummyLineOf, lineElem, customOf, alookup_nil, mapR, addWord_false]
  cases he : mkElement false "TextLine" .none (some (.dict [])) [] coords none none .none with
  | error x => simp [he]
  | ok e =>
    simp only [he, ok_bind, pure_eq_ok]
    cases hw : wordElem w with
    | error x => simp
    | ok c => cases e; simp [append, addKids]

theorem export_word_eq (w : Word) :
    exportDocG false (.word w)
      = exportDocG false (.scan (wrapScan w.h [dummyRegionOf w.h.coords [dummyLineOf w.h.coords [w]]])) := by
  have hreg : (do
        let tr ← dummyRegion false w.h.coords
        addSub false tr "TextLine" (do
          let ln ← mkElement false "TextLine" .none (some (.dict [])) [] w.h.coords none none .none
          addWord false ln w)) = regionElem (dummyRegionOf w.h.coords [dummyLineOf w.h.coords [w]]) := by
    rw [← dummyRegion_elem]
    simp only [addLine_false, addSub_false, dummyLine_elem]
  simp only [exportDocG, toPagexml_false, addScan_false]
  exact docElemOf_congr _ _ _ (fun pa => by rw [scanFill_single, addSub_false, hreg])

/-- the whole export of a scan, element by element -/
def scanElem (s : Scan) : Res Xml := docElemOf s.h (fun page => scanFill page s)

theorem export_scan_eq (s : Scan) : exportDocG false (.scan s) = scanElem s := by
  simp only [exportDocG, toPagexml_false, scanElem, addScan_false]

/-- every exportable document is exported as a scan: `asScan` -/
theorem export_asScan (d : Doc) (s : Scan) (h : asScan d = some s) : exportDocG false d = scanElem s := by
  cases d with
  | scan s' => simp [asScan] at h; subst h; exact export_scan_eq _
  | region r => simp [asScan] at h; subst h; rw [export_region_eq, export_scan_eq]
  | line l => simp [asScan] at h; subst h; rw [export_line_eq, export_scan_eq]
  | word w => simp [asScan] at h; subst h; rw [export_word_eq, export_scan_eq]
  | column c => simp [asScan] at h
  | page p => simp [asScan] at h

end Pagexml.C07
