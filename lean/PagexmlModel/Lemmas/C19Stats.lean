/-
C19: counting the observations of `compute_pagexml_stats` on flat documents.
-/
import PagexmlModel.Lemmas.C19Sort

namespace Pagexml.C19
open Pagexml.C03 (Pt Coords mkCoords)

/-- number of observations recorded for (element type, field) -/
def cnt (t f : String) (evs : List Event) : Nat := evs.countP (fun e => e.1 == t && e.2.1 == f)

/-- observations of `stats["textregion"]["height"]` and `stats["line"]["height"]` -/
def cntR (evs : List Event) : Nat := cnt "textregion" "height" evs
def cntL (evs : List Event) : Nat := cnt "line" "height" evs

theorem cntR_append (a b : List Event) : cntR (a ++ b) = cntR a + cntR b := by
  simp [cntR, cnt, List.countP_append]
theorem cntL_append (a b : List Event) : cntL (a ++ b) = cntL a + cntL b := by
  simp [cntL, cnt, List.countP_append]
theorem cntR_nil : cntR [] = 0 := rfl
theorem cntL_nil : cntL [] = 0 := rfl

theorem cnt_lineEvents (c : Coords) (l : Line) : cntR (lineEvents c l) = 0 ∧ cntL (lineEvents c l) = 1 := by
  constructor <;> simp [cntR, cntL, cnt, lineEvents, ev, List.countP_cons]

theorem cnt_regionEvents (c : Coords) (r : FlatRegion) : cntR (regionEvents c r) = 1 ∧ cntL (regionEvents c r) = 0 := by
  constructor <;> simp [cntR, cntL, cnt, regionEvents, ev, List.countP_cons]

theorem cnt_columnEvents (c : Coords) (col : FlatColumn) :
    cntR (columnEvents c col) = 0 ∧ cntL (columnEvents c col) = 0 := by
  constructor <;> simp [cntR, cntL, cnt, columnEvents, ev, List.countP_cons]

theorem cnt_scanEvents (c : Coords) (rs : List FlatRegion) :
    cntR (scanEvents c rs) = 0 ∧ cntL (scanEvents c rs) = 0 := by
  constructor <;> simp [cntR, cntL, cnt, scanEvents, ev, List.countP_cons]

theorem cnt_pageEvents (c : Coords) (cols : List FlatColumn) (rs : List FlatRegion) :
    cntR (pageEvents c cols rs) = 0 ∧ cntL (pageEvents c cols rs) = 0 := by
  constructor <;>
  · unfold pageEvents
    cases cols.isEmpty <;> cases rs.isEmpty <;> simp [cntR, cntL, cnt, ev, List.countP_cons]

theorem cnt_distEvent {mdt : MulDivTrunc} {prev : Option Line} {l : Line} {e : List Event}
    (h : distEvent mdt prev l = .ok e) : cntR e = 0 ∧ cntL e = 0 := by
  unfold distEvent at h
  cases prev with
  | none => cases h; exact ⟨rfl, rfl⟩
  | some p =>
    simp only at h
    obtain ⟨ds, _, h⟩ := bind_ok.mp h
    obtain ⟨m, _, h⟩ := bind_ok.mp h
    cases h
    constructor <;> simp [cntR, cntL, cnt, List.countP_cons]

theorem cnt_vdistEvent {mdt : MulDivTrunc} {prev : Option FlatRegion} {c : Coords} {r : FlatRegion}
    {e : List Event} (h : vdistEvent mdt prev c r = .ok e) : cntR e = 0 ∧ cntL e = 0 := by
  unfold vdistEvent at h
  cases prev with
  | none => cases h; exact ⟨rfl, rfl⟩
  | some p =>
    simp only at h
    obtain ⟨pc, _, h⟩ := bind_ok.mp h
    split at h
    · obtain ⟨d, _, h⟩ := bind_ok.mp h
      cases h
      constructor <;> simp [cntR, cntL, cnt, List.countP_cons]
    · cases h; exact ⟨rfl, rfl⟩

theorem cnt_linesStatsGo {mdt : MulDivTrunc} {prev : Option Line} {ls : List Line} {evs : List Event}
    (h : linesStatsGo mdt prev ls = .ok evs) : cntR evs = 0 ∧ cntL evs = ls.length := by
  induction ls generalizing prev evs with
  | nil => simp only [linesStatsGo] at h; cases h; exact ⟨rfl, rfl⟩
  | cons l r ih =>
    simp only [linesStatsGo] at h
    obtain ⟨c, _, h⟩ := bind_ok.mp h
    obtain ⟨e1, he1, h⟩ := bind_ok.mp h
    obtain ⟨rest, hrest, h⟩ := bind_ok.mp h
    cases h
    have a1 := cnt_lineEvents c l
    have a2 := cnt_distEvent he1
    have a3 := ih hrest
    simp only [cntR_append, cntL_append, List.length_cons]
    omega

def FlatRegion.nLines (r : FlatRegion) : Nat := if r.lines.isEmpty then 0 else r.sortedLines.length
def nLinesOf (rs : List FlatRegion) : Nat := (rs.map FlatRegion.nLines).sum

theorem cnt_unlessEmpty_lines {mdt : MulDivTrunc} {r : FlatRegion} {e : List Event}
    (h : unlessEmpty r.lines.isEmpty (linesStats mdt r.sortedLines) = .ok e) :
    cntR e = 0 ∧ cntL e = r.nLines := by
  unfold unlessEmpty at h
  unfold FlatRegion.nLines
  split at h
  · rename_i hem; cases h; simp [hem, cntR_nil, cntL_nil]
  · rename_i hem
    have := cnt_linesStatsGo h
    simp [hem, this]

theorem cnt_regionsStatsGo {mdt : MulDivTrunc} {prev : Option FlatRegion} {rs : List FlatRegion}
    {evs : List Event} (h : regionsStatsGo mdt prev rs = .ok evs) :
    cntR evs = rs.length ∧ cntL evs = nLinesOf rs := by
  induction rs generalizing prev evs with
  | nil => simp only [regionsStatsGo] at h; cases h; exact ⟨rfl, rfl⟩
  | cons r t ih =>
    simp only [regionsStatsGo] at h
    obtain ⟨c, _, h⟩ := bind_ok.mp h
    obtain ⟨e0, he0, h⟩ := bind_ok.mp h
    obtain ⟨e2, he2, h⟩ := bind_ok.mp h
    obtain ⟨rest, hrest, h⟩ := bind_ok.mp h
    cases h
    have a0 := cnt_vdistEvent he0
    have a1 := cnt_regionEvents c r
    have a2 := cnt_unlessEmpty_lines he2
    have a3 := ih hrest
    simp only [cntR_append, cntL_append, List.length_cons, nLinesOf, List.map_cons, List.sum_cons] at a3 ⊢
    omega

/-- regions / lines a list of flat regions contributes when handed to `compute_textregions_stats`
    behind the `if len(...) > 0` guard -/
def guardedR (regions sortedRegions : List FlatRegion) : Nat := if regions.isEmpty then 0 else sortedRegions.length
def guardedL (regions sortedRegions : List FlatRegion) : Nat := if regions.isEmpty then 0 else nLinesOf sortedRegions

theorem cnt_unlessEmpty_regions {mdt : MulDivTrunc} {regions sortedRegions : List FlatRegion} {e : List Event}
    (h : unlessEmpty regions.isEmpty (regionsStats mdt sortedRegions) = .ok e) :
    cntR e = guardedR regions sortedRegions ∧ cntL e = guardedL regions sortedRegions := by
  unfold unlessEmpty at h
  unfold guardedR guardedL
  split at h
  · rename_i hem; cases h; simp [hem, cntR_nil, cntL_nil]
  · rename_i hem
    have := cnt_regionsStatsGo h
    simp [hem, this]

def colsR (cols : List FlatColumn) : Nat := (cols.map (fun c => guardedR c.regions c.sortedRegions)).sum
def colsL (cols : List FlatColumn) : Nat := (cols.map (fun c => guardedL c.regions c.sortedRegions)).sum

theorem cnt_columnsStats {mdt : MulDivTrunc} {cols : List FlatColumn} {evs : List Event}
    (h : columnsStats mdt cols = .ok evs) : cntR evs = colsR cols ∧ cntL evs = colsL cols := by
  induction cols generalizing evs with
  | nil => simp only [columnsStats] at h; cases h; exact ⟨rfl, rfl⟩
  | cons col t ih =>
    simp only [columnsStats] at h
    obtain ⟨c, _, h⟩ := bind_ok.mp h
    obtain ⟨e1, he1, h⟩ := bind_ok.mp h
    obtain ⟨rest, hrest, h⟩ := bind_ok.mp h
    cases h
    have a0 := cnt_columnEvents c col
    have a1 := cnt_unlessEmpty_regions he1
    have a2 := ih hrest
    simp only [cntR_append, cntL_append, colsR, colsL, List.map_cons, List.sum_cons] at a2 ⊢
    omega

/-- what one document contributes outside the two top-level groups -/
def Doc.procR : Doc → Nat
  | .scan _ regions sortedRegions => guardedR regions sortedRegions
  | .page _ columns regions sortedRegions => colsR columns + guardedR regions sortedRegions
  | .column col => colsR [col]
  | .region _ => 0
  | .line _ => 0

def Doc.procL : Doc → Nat
  | .scan _ regions sortedRegions => guardedL regions sortedRegions
  | .page _ columns regions sortedRegions => colsL columns + guardedL regions sortedRegions
  | .column col => colsL [col]
  | .region _ => 0
  | .line _ => 0

theorem cnt_docStats {mdt : MulDivTrunc} {d : Doc} {evs : List Event} (h : docStats mdt d = .ok evs) :
    cntR evs = d.procR ∧ cntL evs = d.procL := by
  cases d with
  | scan cp regions sortedRegions =>
    simp only [docStats] at h
    obtain ⟨c, _, h⟩ := bind_ok.mp h
    obtain ⟨e1, he1, h⟩ := bind_ok.mp h
    cases h
    have a0 := cnt_scanEvents c regions
    have a1 := cnt_unlessEmpty_regions he1
    simp only [cntR_append, cntL_append, Doc.procR, Doc.procL]
    omega
  | page cp columns regions sortedRegions =>
    simp only [docStats] at h
    obtain ⟨c, _, h⟩ := bind_ok.mp h
    obtain ⟨e1, he1, h⟩ := bind_ok.mp h
    obtain ⟨e2, he2, h⟩ := bind_ok.mp h
    cases h
    have a0 := cnt_pageEvents c columns regions
    have a1 := cnt_columnsStats he1
    have a2 := cnt_unlessEmpty_regions he2
    simp only [cntR_append, cntL_append, Doc.procR, Doc.procL]
    omega
  | column col => simp only [docStats] at h; exact cnt_columnsStats h
  | region r => simp only [docStats] at h; cases h; exact ⟨rfl, rfl⟩
  | line l => simp only [docStats] at h; cases h; exact ⟨rfl, rfl⟩

theorem cnt_mapM_docStats {mdt : MulDivTrunc} {docs : List Doc} {per : List (List Event)}
    (h : docs.mapM (docStats mdt) = .ok per) :
    cntR per.flatten = (docs.map Doc.procR).sum ∧ cntL per.flatten = (docs.map Doc.procL).sum := by
  induction docs generalizing per with
  | nil => simp only [List.mapM_nil, pure, Except.pure] at h; cases h; exact ⟨rfl, rfl⟩
  | cons d t ih =>
    rw [List.mapM_cons] at h
    obtain ⟨e, he, h⟩ := bind_ok.mp h
    obtain ⟨rest, hrest, h⟩ := bind_ok.mp h
    cases h
    have a0 := cnt_docStats he
    have a1 := ih hrest
    simp only [List.flatten_cons, cntR_append, cntL_append, List.map_cons, List.sum_cons]
    omega

/-! ### the documents' own numbers, and what "sorted" has to mean -/

/-- all (flat) text regions of a document -/
def Doc.flatRegions : Doc → List FlatRegion
  | .scan _ rs _ => rs
  | .page _ cols rs _ => cols.flatMap (·.regions) ++ rs
  | .column col => col.regions
  | .region r => [r]
  | .line _ => []

/-- the document itself when it is a top-level region / line -/
def Doc.topR : Doc → List FlatRegion | .region r => [r] | _ => []
def Doc.topL : Doc → List Line | .line l => [l] | _ => []

def linesOf (rs : List FlatRegion) : List Line := rs.flatMap (·.lines)

/-- `sorted(...)` returned a permutation, at every level -/
def RegionSorted (r : FlatRegion) : Prop := r.sortedLines.Perm r.lines
def RegionsSorted (rs srs : List FlatRegion) : Prop := srs.Perm rs ∧ ∀ r ∈ rs, RegionSorted r
def Doc.Sorted : Doc → Prop
  | .scan _ rs srs => RegionsSorted rs srs
  | .page _ cols rs srs => (∀ c ∈ cols, RegionsSorted c.regions c.sortedRegions) ∧ RegionsSorted rs srs
  | .column c => RegionsSorted c.regions c.sortedRegions
  | .region r => RegionSorted r
  | .line _ => True

theorem nLines_sorted {r : FlatRegion} (h : RegionSorted r) : r.nLines = r.lines.length := by
  unfold FlatRegion.nLines
  split
  · rename_i hem; rw [List.isEmpty_iff] at hem; simp [hem]
  · exact h.length_eq

theorem nLinesOf_sorted {rs : List FlatRegion} (h : ∀ r ∈ rs, RegionSorted r) :
    nLinesOf rs = (linesOf rs).length := by
  unfold nLinesOf linesOf
  rw [List.length_flatMap]
  congr 1
  exact List.map_congr_left (fun r hr => nLines_sorted (h r hr))

theorem guarded_sorted {rs srs : List FlatRegion} (h : RegionsSorted rs srs) :
    guardedR rs srs = rs.length ∧ guardedL rs srs = (linesOf rs).length := by
  unfold guardedR guardedL
  split
  · rename_i hem; rw [List.isEmpty_iff] at hem; subst hem; simp [linesOf]
  · refine ⟨h.1.length_eq, ?_⟩
    have : nLinesOf srs = nLinesOf rs := by
      unfold nLinesOf
      exact (h.1.map _).sum_nat
    rw [this, nLinesOf_sorted h.2]

theorem cols_sorted {cols : List FlatColumn} (h : ∀ c ∈ cols, RegionsSorted c.regions c.sortedRegions) :
    colsR cols = (cols.flatMap (·.regions)).length ∧ colsL cols = (linesOf (cols.flatMap (·.regions))).length := by
  unfold colsR colsL linesOf
  rw [List.flatMap_assoc, List.length_flatMap, List.length_flatMap]
  constructor
  · congr 1
    exact List.map_congr_left (fun c hc => (guarded_sorted (h c hc)).1)
  · congr 1
    exact List.map_congr_left (fun c hc => (guarded_sorted (h c hc)).2)

theorem doc_sorted {d : Doc} (h : d.Sorted) :
    d.procR + d.topR.length = d.flatRegions.length ∧
    d.procL + (linesOf d.topR).length = (linesOf d.flatRegions).length := by
  cases d with
  | scan cp rs srs =>
    have := guarded_sorted (rs := rs) (srs := srs) h
    simp [Doc.procR, Doc.procL, Doc.topR, Doc.flatRegions, linesOf, this] at this ⊢
  | page cp cols rs srs =>
    have a := cols_sorted h.1
    have b := guarded_sorted h.2
    simp only [Doc.procR, Doc.procL, Doc.topR, Doc.flatRegions, linesOf, List.length_nil, Nat.add_zero,
      List.flatMap_nil, List.length_append, List.flatMap_append] at a b ⊢
    omega
  | column c =>
    have := guarded_sorted (rs := c.regions) (srs := c.sortedRegions) h
    simp [Doc.procR, Doc.procL, Doc.topR, Doc.flatRegions, linesOf, colsR, colsL, this] at this ⊢
  | region r => simp [Doc.procR, Doc.procL, Doc.topR, Doc.flatRegions]
  | line l => simp [Doc.procR, Doc.procL, Doc.topR, Doc.flatRegions, linesOf]

theorem topR_nil_of_no_tag {docs : List Doc} (h : docs.any (fun d => d.tag == 3) = false) :
    docs.flatMap Doc.topR = [] := by
  induction docs with
  | nil => rfl
  | cons d t ih =>
    simp only [List.any_cons, Bool.or_eq_false_iff] at h
    rw [List.flatMap_cons, ih h.2]
    cases d <;> simp [Doc.topR, Doc.tag] at h ⊢

theorem topL_nil_of_no_tag {docs : List Doc} (h : docs.any (fun d => d.tag == 4) = false) :
    docs.flatMap Doc.topL = [] := by
  induction docs with
  | nil => rfl
  | cons d t ih =>
    simp only [List.any_cons, Bool.or_eq_false_iff] at h
    rw [List.flatMap_cons, ih h.2]
    cases d <;> simp [Doc.topL, Doc.tag] at h ⊢

/-- the totals of a document list -/
def totalRegions (docs : List Doc) : Nat := (docs.flatMap Doc.flatRegions).length
def totalLines (docs : List Doc) : Nat :=
  (linesOf (docs.flatMap Doc.flatRegions)).length + (docs.flatMap Doc.topL).length

theorem sums_sorted {docs : List Doc} (h : ∀ d ∈ docs, d.Sorted) :
    (docs.map Doc.procR).sum + (docs.flatMap Doc.topR).length = (docs.flatMap Doc.flatRegions).length ∧
    (docs.map Doc.procL).sum + (linesOf (docs.flatMap Doc.topR)).length
      = (linesOf (docs.flatMap Doc.flatRegions)).length := by
  induction docs with
  | nil => simp [linesOf]
  | cons d t ih =>
    have a := doc_sorted (h d List.mem_cons_self)
    have b := ih (fun x hx => h x (List.mem_cons_of_mem _ hx))
    simp only [List.map_cons, List.sum_cons, List.flatMap_cons, List.length_append, linesOf,
      List.flatMap_append] at a b ⊢
    omega

/-- `compute_pagexml_stats` on flat documents records one height observation per text region
    and one per line -/
theorem pagexmlStats_counts {mdt : MulDivTrunc} {docs : List Doc} {srs : List FlatRegion} {sls : List Line}
    {evs : List Event} (hs : ∀ d ∈ docs, d.Sorted)
    (htr : srs.Perm (docs.flatMap Doc.topR)) (htl : sls.Perm (docs.flatMap Doc.topL))
    (h : pagexmlStats mdt docs srs sls = .ok evs) :
    cntR evs = totalRegions docs ∧ cntL evs = totalLines docs := by
  unfold pagexmlStats at h
  obtain ⟨per, hper, h⟩ := bind_ok.mp h
  obtain ⟨e1, he1, h⟩ := bind_ok.mp h
  obtain ⟨e2, he2, h⟩ := bind_ok.mp h
  cases h
  have a0 := cnt_mapM_docStats hper
  have htopsorted : ∀ r ∈ docs.flatMap Doc.topR, RegionSorted r := by
    intro r hr
    obtain ⟨d, hd, hrd⟩ := List.mem_flatMap.mp hr
    have := hs d hd
    cases d <;> simp [Doc.topR] at hrd
    subst hrd
    exact this
  have a1 : cntR e1 = (docs.flatMap Doc.topR).length ∧ cntL e1 = (linesOf (docs.flatMap Doc.topR)).length := by
    unfold unlessEmpty at he1
    split at he1
    · rename_i hg
      cases he1
      have : docs.any (fun d => d.tag == 3) = false := by simpa using hg
      rw [topR_nil_of_no_tag this]
      exact ⟨rfl, rfl⟩
    · have := cnt_regionsStatsGo he1
      refine ⟨by rw [this.1]; exact htr.length_eq, ?_⟩
      rw [this.2]
      have e : nLinesOf srs = nLinesOf (docs.flatMap Doc.topR) := by
        unfold nLinesOf
        exact (htr.map _).sum_nat
      rw [e, nLinesOf_sorted htopsorted]
  have a2 : cntR e2 = 0 ∧ cntL e2 = (docs.flatMap Doc.topL).length := by
    unfold unlessEmpty at he2
    split at he2
    · rename_i hg
      cases he2
      have : docs.any (fun d => d.tag == 4) = false := by simpa using hg
      rw [topL_nil_of_no_tag this]
      exact ⟨rfl, rfl⟩
    · have := cnt_linesStatsGo he2
      exact ⟨this.1, by rw [this.2]; exact htl.length_eq⟩
  have a3 := sums_sorted hs
  simp only [cntR_append, cntL_append, totalRegions, totalLines]
  omega

end Pagexml.C19
