/-
Basic lemmas about the store model of C02: dict get/set, type-tag lists, store access.
-/
import PagexmlModel.Model.C02

namespace Pagexml.C02

/-! ### dicts -/

theorem mget_mset_same (m : Meta) (k : String) (v : MVal) : mget (mset m k v) k = some v := by
  induction m with
  | nil => simp [mset, mget]
  | cons kv r ih =>
    obtain ⟨k', v'⟩ := kv
    by_cases h : k' = k
    · simp [mset, mget, h]
    · simp [mset, mget, h, ih]

theorem mget_mset_other (m : Meta) (k k' : String) (v : MVal) (h : k' ≠ k) :
    mget (mset m k v) k' = mget m k' := by
  induction m with
  | nil => simp [mset, mget, Ne.symm h]
  | cons kv r ih =>
    obtain ⟨k₀, v₀⟩ := kv
    by_cases h0 : k₀ = k
    · subst h0
      simp [mset, mget, Ne.symm h]
    · by_cases h1 : k₀ = k'
      · subst h1
        simp [mset, mget, h0]
      · simp [mset, mget, h0, h1, ih]

theorem mset_mset_same (m : Meta) (k : String) (v : MVal) : mset (mset m k v) k v = mset m k v := by
  induction m with
  | nil => simp [mset]
  | cons kv r ih =>
    obtain ⟨k', v'⟩ := kv
    by_cases h : k' = k
    · simp [mset, h]
    · simp [mset, h, ih]

/-! ### type tags -/

theorem mem_addOne {acc : List String} {t x : String} : x ∈ addOne acc t ↔ x ∈ acc ∨ x = t := by
  unfold addOne
  by_cases h : t ∈ acc
  · simp only [h, if_true]
    constructor
    · exact Or.inl
    · rintro (h' | rfl)
      · exact h'
      · exact h
  · simp [h]

theorem nodup_addOne {acc : List String} {t : String} (h : acc.Nodup) : (addOne acc t).Nodup := by
  unfold addOne
  by_cases ht : t ∈ acc
  · simpa [ht] using h
  · simp only [ht, if_false]
    rw [List.nodup_append]
    refine ⟨h, by simp, ?_⟩
    intro a ha b hb
    simp at hb
    subst hb
    intro e
    subst e
    exact ht ha

theorem mem_foldl_addOne (ts acc : List String) (x : String) :
    x ∈ ts.foldl addOne acc ↔ x ∈ acc ∨ x ∈ ts := by
  induction ts generalizing acc with
  | nil => simp
  | cons t ts ih =>
    simp only [List.foldl_cons, ih, mem_addOne, List.mem_cons]
    constructor
    · rintro ((h | h) | h)
      · exact Or.inl h
      · exact Or.inr (Or.inl h)
      · exact Or.inr (Or.inr h)
    · rintro (h | h | h)
      · exact Or.inl (Or.inl h)
      · exact Or.inl (Or.inr h)
      · exact Or.inr h

theorem nodup_foldl_addOne (ts acc : List String) (h : acc.Nodup) : (ts.foldl addOne acc).Nodup := by
  induction ts generalizing acc with
  | nil => simpa using h
  | cons t ts ih => exact ih _ (nodup_addOne h)

theorem foldl_addOne_of_subset (ts acc : List String) (h : ∀ t ∈ ts, t ∈ acc) : ts.foldl addOne acc = acc := by
  induction ts generalizing acc with
  | nil => rfl
  | cons t ts ih =>
    have ht : t ∈ acc := h t (by simp)
    simp only [List.foldl_cons, addOne, ht, if_true]
    exact ih acc (fun x hx => h x (by simp [hx]))

theorem hasType_iff (ty : PyType) (t : String) : hasType ty t = true ↔ t ∈ ty.toList := by
  cases ty with
  | str s => simp [hasType, PyType.toList]
  | list l => simp [hasType, PyType.toList]

theorem toList_addTypes (ty : PyType) (ts : List String) : (addTypes ty ts).toList = ts.foldl addOne ty.toList := rfl

theorem toList_removeTypes (ty : PyType) (ts : List String) :
    (removeTypes ty ts).toList = ts.foldl removeOne ty.toList := by
  unfold removeTypes
  split
  · rename_i t h
    simp only [PyType.toList]
    exact h.symm
  · rfl

theorem mem_foldl_removeOne (ts acc : List String) (h : acc.Nodup) (x : String) :
    x ∈ ts.foldl removeOne acc ↔ x ∈ acc ∧ x ∉ ts := by
  induction ts generalizing acc with
  | nil => simp
  | cons t ts ih =>
    simp only [List.foldl_cons, removeOne]
    rw [ih _ (h.erase t), h.mem_erase_iff]
    simp only [List.mem_cons, not_or]
    constructor
    · rintro ⟨⟨h1, h2⟩, h3⟩
      exact ⟨h2, h1, h3⟩
    · rintro ⟨h2, h1, h3⟩
      exact ⟨⟨h1, h2⟩, h3⟩

theorem nodup_foldl_removeOne (ts acc : List String) (h : acc.Nodup) : (ts.foldl removeOne acc).Nodup := by
  induction ts generalizing acc with
  | nil => simpa using h
  | cons t ts ih => exact ih _ (h.erase t)

/-! ### store access -/

theorem getElem?_updAt {α} (l : List α) (i j : Nat) (f : α → α) :
    (updAt l i f)[j]? = if j = i then l[j]?.map f else l[j]? := by
  induction l generalizing i j with
  | nil => simp [updAt]
  | cons a l ih =>
    cases i with
    | zero =>
      cases j with
      | zero => simp [updAt]
      | succ j => simp [updAt]
    | succ i =>
      cases j with
      | zero => simp [updAt]
      | succ j => simp [updAt, ih]

theorem length_updAt {α} (l : List α) (i : Nat) (f : α → α) : (updAt l i f).length = l.length := by
  induction l generalizing i with
  | nil => simp [updAt]
  | cons a l ih =>
    cases i with
    | zero => simp [updAt]
    | succ i => simp [updAt, ih]

@[simp] theorem get?_upd (σ : Store) (n m : Nat) (f : Node → Node) :
    (σ.upd n f).get? m = if m = n then (σ.get? m).map f else σ.get? m := by
  simp [Store.upd, Store.get?, getElem?_updAt]

@[simp] theorem size_upd (σ : Store) (n : Nat) (f : Node → Node) : (σ.upd n f).size = σ.size := by
  simp [Store.upd, Store.size, length_updAt]

@[simp] theorem size_alloc (σ : Store) (nd : Node) : (σ.alloc nd).size = σ.size + 1 := by
  simp [Store.alloc, Store.size]

theorem get?_alloc (σ : Store) (nd : Node) (m : Nat) :
    (σ.alloc nd).get? m = if m = σ.size then some nd else σ.get? m := by
  simp only [Store.alloc, Store.get?, Store.size]
  by_cases h : m = σ.nodes.length
  · subst h
    simp
  · simp only [h, if_false]
    by_cases h2 : m < σ.nodes.length
    · simp [List.getElem?_append_left h2]
    · have : σ.nodes.length < m := by omega
      rw [List.getElem?_eq_none (by simp; omega), List.getElem?_eq_none (by omega)]

theorem get?_lt {σ : Store} {n : Nat} {nd : Node} (h : σ.get? n = some nd) : n < σ.size := by
  simp only [Store.get?] at h
  have := List.getElem?_eq_some_iff.mp h
  exact this.1

theorem get?_of_lt {σ : Store} {n : Nat} (h : n < σ.size) : ∃ nd, σ.get? n = some nd := by
  simp only [Store.get?, Store.size] at *
  exact ⟨σ.nodes[n], List.getElem?_eq_getElem h⟩

theorem has_iff {σ : Store} {n : Nat} : σ.has n = true ↔ n < σ.size := by
  simp [Store.has]

end Pagexml.C02
