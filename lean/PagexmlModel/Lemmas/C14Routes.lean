/-
From documents to the rows of the written file and back: cleanliness of the written
fields, the rows of `get_line_format_tsv`, and the plan (documents → regions → lines)
that the rebuilding loop follows.
-/
import PagexmlModel.Lemmas.C14Rebuild

namespace Pagexml.C14
open Pagexml.C03

/-! ### written fields are clean -/

theorem showInt_clean (n : Int) : CleanStr (showInt n) := by
  refine ⟨?_, ?_, ?_⟩ <;> intro h <;> rcases showInt_chars n _ h with h | h <;> revert h <;> decide

theorem cleanStr_append {a b : Str} (ha : CleanStr a) (hb : CleanStr b) : CleanStr (a ++ b) := by
  obtain ⟨a1, a2, a3⟩ := ha
  obtain ⟨b1, b2, b3⟩ := hb
  refine ⟨?_, ?_, ?_⟩ <;> intro h <;> rcases List.mem_append.mp h with h | h <;> contradiction

theorem cleanStr_comma : CleanStr [','] := by
  refine ⟨?_, ?_, ?_⟩ <;> decide

theorem bboxString_clean (b : Box) : CleanStr (bboxString b) := by
  unfold bboxString
  repeat (first | apply cleanStr_append | exact showInt_clean _ | exact cleanStr_comma)

/-! ### rows -/

/-- the field written for header `h` of record `r` (None ↦ '') -/
def fieldOf (r : Rec) (h : Str) : Str :=
  match lookupKey h r with
  | .ok v => v.getD []
  | .error _ => []

theorem tsvRow_of_keys (hs : List Str) (r : Rec) (h : ∀ k ∈ hs, ∃ v, lookupKey k r = .ok v) :
    tsvRow hs r = .ok (hs.map (fieldOf r)) := by
  unfold tsvRow
  induction hs with
  | nil => rfl
  | cons k ks ih =>
    obtain ⟨v, hv⟩ := h k (by simp)
    simp only [List.mapM_cons, List.map_cons, fieldOf, hv, ih (fun x hx => h x (by simp [hx]))]
    rfl

theorem zip_map_self {α β} (l : List α) (f : α → β) : l.zip (l.map f) = l.map (fun a => (a, f a)) := by
  induction l with
  | nil => rfl
  | cons a as ih => simp [ih]

/-- every key of `recKeys` is a key of a record of the in-memory route -/
theorem lookup_mkRec (bbox : Bool) (d tr : Region) (l : Line) (k : Str) (hk : k ∈ recKeys bbox) :
    ∃ v, lookupKey k (mkRec bbox d tr l) = .ok v := by
  cases bbox <;>
    simp only [recKeys, baseHeaders, boxHeaders, List.mem_cons, List.mem_append, if_true,
      List.not_mem_nil, or_false, Bool.false_eq_true, if_false, List.append_nil] at hk
  · rcases hk with rfl | rfl | rfl | rfl <;>
      simp [mkRec, lookupKey, sDocId, sRegionId, sLineId, sText]
  · rcases hk with (rfl | rfl | rfl | rfl) | rfl | rfl | rfl <;>
      simp [mkRec, lookupKey, sDocId, sRegionId, sLineId, sText, sDocBox, sRegionBox, sLineBox]

/-- the record as it is read from a file written under the header list `hs`: the columns `hs`, in
    that order, a missing value as '' -/
def asRead (hs : List Str) (r : Rec) : DRec := hs.map (fun h => (h, fieldOf r h))

/-- in the record's own key order the decoded record is the in-memory record with None ↦ '' -/
theorem asRead_recKeys_mkRec (bbox : Bool) (d tr : Region) (l : Line) :
    asRead (recKeys bbox) (mkRec bbox d tr l) = Rec.norm (mkRec bbox d tr l) := by
  cases bbox <;>
    simp [asRead, recKeys, baseHeaders, boxHeaders, fieldOf, mkRec, lookupKey, Rec.norm,
      sDocId, sRegionId, sLineId, sText, sDocBox, sRegionBox, sLineBox]

/-- under any header list that is a rearrangement of the record's keys the decoded record is the
    in-memory record (None ↦ '') with its entries rearranged: the same dictionary -/
theorem asRead_perm_mkRec (hs : List Str) (bbox : Bool) (hp : hs.Perm (recKeys bbox))
    (d tr : Region) (l : Line) :
    (asRead hs (mkRec bbox d tr l)).Perm (Rec.norm (mkRec bbox d tr l)) := by
  rw [← asRead_recKeys_mkRec]
  exact hp.map _

theorem fieldOf_eq_dfield (r : Rec) (h : Str) : fieldOf r h = dfield (Rec.norm r) h := by
  unfold fieldOf dfield Rec.norm
  induction r with
  | nil => rfl
  | cons kv rest ih =>
    obtain ⟨k, v⟩ := kv
    simp only [List.map_cons, lookupKey]
    by_cases e : k = h
    · simp [e]
    · simpa [e] using ih

/-- ids and texts of everything that is written are free of tab / CR / LF -/
def CleanDoc (outer : Bool) (d : Region) : Prop :=
  CleanStr d.id ∧ ∀ tr ∈ writtenRegions outer d, CleanStr tr.id ∧
    ∀ l ∈ tr.allLines, CleanStr l.id ∧ ∀ t, l.text = some t → CleanStr t

theorem fieldOf_clean (r : Rec) (h : ∀ kv ∈ r, CleanStr (kv.2.getD [])) (k : Str) :
    CleanStr (fieldOf r k) := by
  unfold fieldOf
  induction r with
  | nil => exact cleanStr_nil
  | cons kv rest ih =>
    obtain ⟨k', v⟩ := kv
    simp only [lookupKey]
    by_cases e : k' = k
    · simp only [e, if_true]; exact h (k', v) (by simp)
    · simp only [e, if_false]; exact ih (fun x hx => h x (by simp [hx]))

theorem fieldOf_mkRec_clean (bbox : Bool) (d tr : Region) (l : Line)
    (hd : CleanStr d.id) (ht : CleanStr tr.id) (hl : CleanStr l.id)
    (htext : ∀ t, l.text = some t → CleanStr t) (k : Str) :
    CleanStr (fieldOf (mkRec bbox d tr l) k) := by
  have hopt : ∀ b : Option Box, CleanStr ((getBbox b).getD []) := by
    intro b; cases b with
    | none => exact cleanStr_nil
    | some b => exact bboxString_clean b
  have htx : CleanStr (l.text.getD []) := by
    cases h : l.text with
    | none => exact cleanStr_nil
    | some t => exact htext t h
  apply fieldOf_clean
  intro kv hkv
  unfold mkRec at hkv
  cases bbox <;> simp only [List.mem_append, List.mem_cons, List.not_mem_nil, or_false, if_true,
    Bool.false_eq_true, if_false] at hkv
  · rcases hkv with rfl | rfl | rfl | rfl <;> assumption
  · rcases hkv with (rfl | rfl | rfl | rfl) | rfl | rfl | rfl <;> first | assumption | exact hopt _

theorem mem_records {outer bbox : Bool} {d : Region} {r : Rec} (h : r ∈ records outer bbox d) :
    ∃ tr ∈ writtenRegions outer d, ∃ l ∈ tr.allLines, r = mkRec bbox d tr l := by
  unfold records at h
  rw [List.mem_flatMap] at h
  obtain ⟨tr, htr, h⟩ := h
  obtain ⟨l, hl, rfl⟩ := List.mem_map.mp h
  exact ⟨tr, htr, l, hl, rfl⟩

/-- the rows written for a list of documents under header list `hs` -/
def rowsOfDocs (hs : List Str) (outer bbox : Bool) (docs : List Region) : List (List Str) :=
  (docs.flatMap (records outer bbox)).map (fun r => hs.map (fieldOf r))

theorem makeLineFormatFile_eq (hs : List Str) (outer bbox : Bool) (docs : List Region)
    (hsub : ∀ k ∈ hs, k ∈ recKeys bbox) :
    makeLineFormatFile (some hs) outer bbox docs = .ok (encodeTsv (some hs) (rowsOfDocs hs outer bbox docs)) := by
  unfold makeLineFormatFile rowsOfDocs
  have : ∀ rs : List Rec, (∀ r ∈ rs, ∃ d tr l, r = mkRec bbox d tr l) →
      rs.mapM (tsvRow hs) = .ok (rs.map (fun r => hs.map (fieldOf r))) := by
    intro rs
    induction rs with
    | nil => intro _; rfl
    | cons r rs ih =>
      intro h
      obtain ⟨d, tr, l, rfl⟩ := h r (by simp)
      simp only [List.mapM_cons, List.map_cons,
        tsvRow_of_keys hs _ (fun k hk => lookup_mkRec bbox d tr l k (hsub k hk)),
        ih (fun x hx => h x (by simp [hx]))]
      rfl
  simp only [Option.getD_some]
  rw [this]
  · rfl
  · intro r hr
    rw [List.mem_flatMap] at hr
    obtain ⟨d, _, hr⟩ := hr
    obtain ⟨tr, _, l, _, rfl⟩ := mem_records hr
    exact ⟨d, tr, l, rfl⟩

/-- `headers=None`: the writer uses its default columns -/
theorem makeLineFormatFile_none (outer bbox : Bool) (docs : List Region) :
    makeLineFormatFile none outer bbox docs = makeLineFormatFile (some allHeaders) outer bbox docs := rfl

theorem rowsOfDocs_ok (hs : List Str) (hne : hs ≠ []) (outer bbox : Bool) (docs : List Region)
    (hclean : ∀ d ∈ docs, CleanDoc outer d) :
    ∀ row ∈ rowsOfDocs hs outer bbox docs, RowOK hs row := by
  intro row hrow
  unfold rowsOfDocs at hrow
  obtain ⟨r, hr, rfl⟩ := List.mem_map.mp hrow
  rw [List.mem_flatMap] at hr
  obtain ⟨d, hd, hr⟩ := hr
  obtain ⟨tr, htr, l, hl, rfl⟩ := mem_records hr
  obtain ⟨hdc, hrest⟩ := hclean d hd
  obtain ⟨htc, hls⟩ := hrest tr htr
  obtain ⟨hlc, htx⟩ := hls l hl
  refine ⟨by simpa using hne, by simp, ?_⟩
  intro f hf
  obtain ⟨k, _, rfl⟩ := List.mem_map.mp hf
  exact fieldOf_mkRec_clean bbox d tr l hdc htc hlc htx k

theorem rowsOfDocs_flatten (hs : List Str) (outer bbox : Bool) (split : List (List Region)) :
    (split.map (rowsOfDocs hs outer bbox)).flatten = rowsOfDocs hs outer bbox split.flatten := by
  induction split with
  | nil => rfl
  | cons c cs ih => simp [rowsOfDocs, List.flatMap_append] at ih ⊢; rw [ih]

/-! ### the plan of a document list -/

def dfltBox : Box := ⟨0, 0, 0, 0⟩

def toLItem (l : Line) : LItem := ⟨l.id, l.text.getD [], l.box.getD dfltBox⟩

def toRItem (tr : Region) : RItem := ⟨tr.id, tr.box.getD dfltBox, tr.allLines.map toLItem⟩

/-- the written regions that hold at least one line -/
def lineRegions (outer : Bool) (d : Region) : List Region :=
  (writtenRegions outer d).filter (fun tr => !tr.allLines.isEmpty)

def planDoc (outer : Bool) (d : Region) : DItem :=
  ⟨d.id, d.box.getD dfltBox, (lineRegions outer d).map toRItem⟩

/-- the documents of which at least one line is written -/
def plan (outer : Bool) (docs : List Region) : List DItem :=
  (docs.map (planDoc outer)).filter (fun d => !d.regions.isEmpty)

/-- every written element has coordinates (a non-negative box, as every `Coords` object has) -/
def BoxesOK (outer : Bool) (d : Region) : Prop :=
  (∃ b, d.box = some b ∧ b.NonNeg) ∧ ∀ tr ∈ writtenRegions outer d,
    (∃ b, tr.box = some b ∧ b.NonNeg) ∧ ∀ l ∈ tr.allLines, ∃ b, l.box = some b ∧ b.NonNeg

theorem norm_mkRec (outer : Bool) (d tr : Region) (l : Line) (db tb lb : Box)
    (hd : d.box = some db) (ht : tr.box = some tb) (hl : l.box = some lb) :
    Rec.norm (mkRec true d tr l) = nrecFull (planDoc outer d) (toRItem tr) (toLItem l) := by
  simp [Rec.norm, mkRec, nrecFull, planDoc, toRItem, toLItem, hd, ht, hl, getBbox]

/-- under any header list: the record read back is the record of the plan -/
theorem asRead_mkRec (hs : List Str) (outer : Bool) (d tr : Region) (l : Line) (db tb lb : Box)
    (hd : d.box = some db) (ht : tr.box = some tb) (hl : l.box = some lb) :
    asRead hs (mkRec true d tr l) = nrec hs (planDoc outer d) (toRItem tr) (toLItem l) := by
  unfold asRead nrec
  apply List.map_congr_left
  intro h _
  rw [fieldOf_eq_dfield, norm_mkRec outer d tr l db tb lb hd ht hl]

theorem flatMap_congr' {α β} (l : List α) (f g : α → List β) (h : ∀ a ∈ l, f a = g a) :
    l.flatMap f = l.flatMap g := by
  induction l with
  | nil => rfl
  | cons a as ih =>
    simp only [List.flatMap_cons, h a (by simp), ih (fun x hx => h x (by simp [hx]))]

theorem flatMap_filter_nonempty {α β} (l : List α) (f : α → List β) :
    (l.filter (fun a => !(f a).isEmpty)).flatMap f = l.flatMap f := by
  induction l with
  | nil => rfl
  | cons a as ih =>
    by_cases h : (f a).isEmpty
    · simp [ih, List.isEmpty_iff.mp h]
    · simp [h, ih]

theorem records_norm_eq_plan (hs : List Str) (outer : Bool) (d : Region) (hb : BoxesOK outer d) :
    (records outer true d).map (asRead hs) = (planDoc outer d).recs hs := by
  obtain ⟨⟨db, hdb, _⟩, htrs⟩ := hb
  unfold records DItem.recs
  have e1 : (planDoc outer d).regions = (lineRegions outer d).map toRItem := rfl
  rw [e1, List.flatMap_map, lineRegions]
  have e2 : ∀ tr ∈ writtenRegions outer d,
      (tr.allLines.map (mkRec true d tr)).map (asRead hs) = RItem.recs hs (planDoc outer d) (toRItem tr) := by
    intro tr htr
    obtain ⟨⟨tb, htb, _⟩, hls⟩ := htrs tr htr
    unfold RItem.recs
    show _ = (tr.allLines.map toLItem).map _
    rw [List.map_map, List.map_map]
    apply List.map_congr_left
    intro l hl
    obtain ⟨lb, hlb, _⟩ := hls l hl
    exact asRead_mkRec hs outer d tr l db tb lb hdb htb hlb
  have e3 : (fun tr : Region => !tr.allLines.isEmpty) =
      (fun tr => !(RItem.recs hs (planDoc outer d) (toRItem tr)).isEmpty) := by
    funext tr
    simp [RItem.recs, toRItem]
  rw [e3, flatMap_filter_nonempty, List.map_flatMap]
  exact flatMap_congr' _ _ _ e2

theorem docs_records_norm_eq_plan (hs : List Str) (outer : Bool) (docs : List Region)
    (hb : ∀ d ∈ docs, BoxesOK outer d) :
    (docs.flatMap (records outer true)).map (asRead hs) = (plan outer docs).flatMap (DItem.recs hs) := by
  unfold plan
  rw [List.map_flatMap]
  have h1 : docs.flatMap (fun d => (records outer true d).map (asRead hs)) =
      (docs.map (planDoc outer)).flatMap (DItem.recs hs) := by
    rw [List.flatMap_map]
    exact flatMap_congr' _ _ _ (fun d hd => records_norm_eq_plan hs outer d (hb d hd))
  rw [h1]
  -- documents without regions contribute no records
  generalize docs.map (planDoc outer) = ds
  induction ds with
  | nil => rfl
  | cons a as ih =>
    by_cases h : a.regions.isEmpty
    · have : DItem.recs hs a = [] := by simp [DItem.recs, List.isEmpty_iff.mp h]
      simp [h, this, ih]
    · simp [h, ih]

/-- the hypotheses of the rebuilding theorem, on documents -/
def RebuildOK (outer : Bool) (docs : List Region) : Prop :=
  (∀ d ∈ docs, BoxesOK outer d) ∧
  (∀ d ∈ docs, AdjNe ((lineRegions outer d).map (·.id))) ∧
  AdjNe ((plan outer docs).map (·.id))

theorem planDoc_ok (outer : Bool) (d : Region) (hb : BoxesOK outer d)
    (hadj : AdjNe ((lineRegions outer d).map (·.id))) (hne : (planDoc outer d).regions ≠ []) :
    (planDoc outer d).OK := by
  obtain ⟨⟨db, hdb, hdn⟩, htrs⟩ := hb
  refine ⟨by simpa [planDoc, hdb] using hdn, hne, ?_, ?_⟩
  · have : (planDoc outer d).regions.map (·.id) = (lineRegions outer d).map (·.id) := by
      simp [planDoc, toRItem, List.map_map, Function.comp_def]
    rw [this]; exact hadj
  · intro t ht
    simp only [planDoc, List.mem_map] at ht
    obtain ⟨tr, htr, rfl⟩ := ht
    simp only [lineRegions, List.mem_filter] at htr
    obtain ⟨htr, hne'⟩ := htr
    obtain ⟨⟨tb, htb, htn⟩, hls⟩ := htrs tr htr
    refine ⟨by simpa [toRItem, htb] using htn, ?_, ?_⟩
    · simp only [toRItem, ne_eq, List.map_eq_nil_iff]
      intro e; simp [e] at hne'
    · intro l hl
      simp only [toRItem, List.mem_map] at hl
      obtain ⟨l', hl', rfl⟩ := hl
      obtain ⟨lb, hlb, hln⟩ := hls l' hl'
      simpa [toLItem, hlb] using hln

theorem plan_ok (outer : Bool) (docs : List Region) (h : RebuildOK outer docs) :
    ∀ d ∈ plan outer docs, d.OK := by
  intro d hd
  simp only [plan, List.mem_filter, List.mem_map] at hd
  obtain ⟨⟨r, hr, rfl⟩, hne⟩ := hd
  exact planDoc_ok outer r (h.1 r hr) (h.2.1 r hr) (by
    intro e; simp [e] at hne)

end Pagexml.C14
