/-
Every operation of the store model preserves the invariant of C02 (one lemma per operation).
-/
import PagexmlModel.Lemmas.C02Inv

namespace Pagexml.C02

/-! ### decoding the precondition -/

theorem free_iff {σ : Store} {c : Nat} :
    σ.free c = true ↔ ∀ q qn, σ.get? q = some qn → c ∉ qn.allKids := by
  simp only [Store.free, List.all_eq_true, Bool.not_eq_true', List.contains_eq_mem, decide_eq_false_iff_not, Store.get?]
  constructor
  · intro h q qn g
    exact h qn (List.mem_of_getElem? g)
  · intro h nd hnd
    obtain ⟨q, g⟩ := List.mem_iff_getElem?.mp hnd
    exact h q nd g

theorem onlyBy_iff {σ : Store} {c p : Nat} :
    σ.onlyBy c p = true ↔ ∀ q qn, σ.get? q = some qn → c ∈ qn.allKids → q = p := by
  simp only [Store.onlyBy, List.all_eq_true, List.mem_range, Bool.or_eq_true, beq_iff_eq]
  constructor
  · intro h q qn g hc
    rcases h q (get?_lt g) with e | e
    · exact e
    · simp [g, hc] at e
  · intro h q hq
    by_cases e : q = p
    · exact Or.inl e
    · right
      cases g : σ.get? q with
      | none => rfl
      | some qn =>
        simp only [Bool.not_eq_true', List.contains_eq_mem, decide_eq_false_iff_not]
        intro hc
        exact e (h q qn g hc)

theorem notScan_iff {σ : Store} {c : Nat} :
    σ.notScan c = true ↔ ∀ cn, σ.get? c = some cn → cn.cls ≠ .scan := by
  simp only [Store.notScan, clsOf, bne_iff_ne, ne_eq]
  cases σ.get? c with
  | none => simp
  | some cn => simp

theorem freeKid_of {σ : Store} {c : Nat} (hh : σ.has c = true) (hf : σ.free c = true) (hs : σ.notScan c = true) :
    FreeKid σ c := by
  obtain ⟨cn, g⟩ := get?_of_lt (has_iff.mp hh)
  exact ⟨⟨cn, g, notScan_iff.mp hs cn g⟩, free_iff.mp hf⟩

theorem attachable_of {σ : Store} {c p : Nat} (hh : σ.has c = true) (ho : σ.onlyBy c p = true)
    (hs : σ.notScan c = true) : Attachable σ p c := by
  obtain ⟨cn, g⟩ := get?_of_lt (has_iff.mp hh)
  exact ⟨⟨cn, g, notScan_iff.mp hs cn g⟩, onlyBy_iff.mp ho⟩

theorem FreeKid.attachable {σ : Store} {c : Nat} (h : FreeKid σ c) (p : Nat) : Attachable σ p c :=
  ⟨h.1, fun q qn g hc => absurd hc (h.2 q qn g)⟩

/-! ### type tags of freshly constructed nodes -/

theorem typedNode_addType {nd : Node} (ts : List String) (h : TypedNode nd) : TypedNode (nd.addType ts) := by
  obtain ⟨h1, h2, h3⟩ := h
  refine ⟨h1, ?_, ?_⟩
  · show (addTypes nd.type ts).toList.Nodup
    rw [toList_addTypes]
    exact nodup_foldl_addOne _ _ h2
  · intro t ht
    show t ∈ (addTypes nd.type ts).toList
    rw [toList_addTypes, mem_foldl_addOne]
    exact Or.inl (h3 t ht)

theorem typedNode_addTypeIf {nd : Node} (ts : List String) (h : TypedNode nd) : TypedNode (nd.addTypeIf ts) := by
  unfold Node.addTypeIf
  split
  · exact h
  · exact typedNode_addType ts h

theorem localChange_addTypeIf (ts : List String) : LocalChange (·.addTypeIf ts) := by
  intro nd
  unfold Node.addTypeIf Node.addType
  split <;> exact ⟨rfl, rfl, rfl, rfl, rfl, rfl, rfl⟩

theorem localChange_addType (ts : List String) : LocalChange (·.addType ts) :=
  fun _ => ⟨rfl, rfl, rfl, rfl, rfl, rfl, rfl⟩

theorem localChange_removeType (ts : List String) : LocalChange (·.removeType ts) :=
  fun _ => ⟨rfl, rfl, rfl, rfl, rfl, rfl, rfl⟩

theorem mem_toList_addTypes (ty : PyType) (ts : List String) (t : String) :
    t ∈ (addTypes ty ts).toList ↔ t ∈ ty.toList ∨ t ∈ ts := by
  rw [toList_addTypes, mem_foldl_addOne]

/-- the type list every constructor starts from: `structure_doc`, `physical_structure_doc`,
    the `doc_type` handed to `PhysicalStructureDoc`, `pagexml_doc` -/
theorem docInit_type (cls : Cls) (a : Args) (dt : String) :
    (docInit cls a dt).type = addTypes (addTypes (addTypes (.str "structure_doc") ["physical_structure_doc"]) [dt]) ["pagexml_doc"] := rfl

theorem docInit_fields (cls : Cls) (a : Args) (dt : String) :
    (docInit cls a dt).cls = cls ∧ (docInit cls a dt).id = a.id ∧ (docInit cls a dt).md = a.md ∧
    (docInit cls a dt).parent = none ∧ (docInit cls a dt).allKids = [] ∧ (docInit cls a dt).mainType = dt :=
  ⟨rfl, rfl, rfl, rfl, rfl, rfl⟩

/-- a node of class `cls` whose tag list extends the constructor's base list with the main
    type of the class is well typed -/
theorem typedNode_base (nd : Node) (dt : String) (hm : nd.mainType = nd.cls.mainType)
    (hty : nd.type = addTypes (addTypes (addTypes (.str "structure_doc") ["physical_structure_doc"]) [dt]) ["pagexml_doc"])
    (hdt : dt = nd.cls.mainType) : TypedNode nd := by
  refine ⟨hm, ?_, ?_⟩
  · rw [hty]
    simp only [toList_addTypes]
    exact nodup_foldl_addOne _ _ (nodup_foldl_addOne _ _ (nodup_foldl_addOne _ _ (by simp [PyType.toList])))
  · intro t ht
    rw [hty]
    have e : (PyType.str "structure_doc").toList = ["structure_doc"] := rfl
    simp only [mem_toList_addTypes, e]
    simp only [Cls.tags, List.mem_cons, List.not_mem_nil, or_false] at ht
    rcases ht with rfl | rfl | rfl | rfl
    · simp [hdt]
    · simp
    · simp
    · simp

/-! ### finishing a constructor -/

theorem inv_final {σ : Store} {ok : Nat → Prop} {n : Nat} {nn : Node} (h : InvEx σ ok (fun s => s = n))
    (hok : ∀ d, ok d) (g : σ.get? n = some nn) (ht : TypedNode nn) (hns : nn.cls ≠ .scan) : Inv σ := by
  refine ⟨h.linked.mono (fun d _ => hok d), h.shape, ?_, ?_⟩
  · intro m nd _ gm
    by_cases hm : m = n
    · subst hm
      rw [g] at gm
      cases gm
      exact ht
    · exact h.typed m nd hm gm
  · intro s sn m mn _ gs hscan hb gm
    by_cases hs : s = n
    · subst hs
      rw [g] at gs
      cases gs
      exact absurd hscan hns
    · exact h.scan s sn m mn hs gs hscan hb gm

theorem get?_setParent1_of_ne {σ : Store} {c p m : Nat} (h : m ≠ c) : (setParent1 σ c p).get? m = σ.get? m := by
  cases hp : σ.get? p with
  | none => rw [setParent1_none hp]
  | some pn => rw [setParent1_eq hp]; simp [h]

theorem get?_setAsParent_of_not_mem {σ : Store} {p m : Nat} (cs : List Nat) (h : m ∉ cs) :
    (setAsParent σ p cs).get? m = σ.get? m := by
  induction cs generalizing σ with
  | nil => rfl
  | cons c cs ih =>
    have e : setAsParent σ p (c :: cs) = setAsParent (setParent1 σ c p) p cs := rfl
    rw [e, ih (fun hm => h (by simp [hm])), get?_setParent1_of_ne (fun e => h (by simp [e]))]

theorem get?_alloc_new (σ : Store) (nd : Node) : (σ.alloc nd).get? σ.size = some nd := by
  rw [get?_alloc, if_pos rfl]

/-- a constructor under way: the new node `n = σ₀.size` was allocated as `nd`, the store `τ`
    reached so far has the same shape, the children satisfying `ok` are linked, the node is now `nn` -/
structure Ctor (σ₀ : Store) (nd : Node) (τ : Store) (ok : Nat → Prop) (nn : Node) : Prop where
  inv : InvEx τ ok (fun s => s = σ₀.size)
  se : ShapeEq (σ₀.alloc nd) τ
  node : τ.get? σ₀.size = some nn
  kids : ∀ c ∈ nd.allKids, FreeKid σ₀ c
  main : nd.mainType = nd.cls.mainType

theorem ctor_start {σ : Store} {nd : Node} (h : Inv σ) (hk : ∀ c ∈ nd.allKids, FreeKid σ c)
    (hm : nd.mainType = nd.cls.mainType) : Ctor σ nd (σ.alloc nd) (fun d => d ∉ nd.kids) nd :=
  ⟨(invEx_alloc (nd := nd) h hk).1, ShapeEq.rfl' _, get?_alloc_new σ nd, hk, hm⟩

theorem ctor_link {σ₀ τ : Store} {nd nn : Node} {ok : Nat → Prop} (h : Ctor σ₀ nd τ ok nn) (cs : List Nat)
    (hcs : ∀ c ∈ cs, c ∈ nd.allKids) :
    Ctor σ₀ nd (setAsParent τ σ₀.size cs) (fun d => ok d ∨ d ∈ cs) nn := by
  have gp0 : GoodParent (σ₀.alloc nd) σ₀.size := ⟨nd, get?_alloc_new σ₀ nd, h.main⟩
  have hatt : ∀ c ∈ nd.allKids, Attachable (σ₀.alloc nd) σ₀.size c := by
    intro c hc
    obtain ⟨⟨cn, g, hns⟩, hfree⟩ := h.kids c hc
    have old : ∀ {m : Nat} {x : Node}, σ₀.get? m = some x → (σ₀.alloc nd).get? m = some x := by
      intro m x g
      rw [get?_alloc, if_neg (Nat.ne_of_lt (get?_lt g))]
      exact g
    refine ⟨⟨cn, old g, hns⟩, fun q qn hq hcq => ?_⟩
    rw [get?_alloc] at hq
    by_cases hqs : q = σ₀.size
    · exact hqs
    · rw [if_neg hqs] at hq
      exact absurd hcq (hfree q qn hq)
  have hfresh : ∀ c ∈ cs, c ≠ σ₀.size := fun c hc e => by
    obtain ⟨⟨cn, g, _⟩, _⟩ := h.kids c (hcs c hc)
    exact absurd (get?_lt g) (by rw [e]; exact Nat.lt_irrefl _)
  obtain ⟨h1, se1⟩ := invEx_setAsParent cs (gp0.transfer h.se) (fun c hc => (hatt c (hcs c hc)).transfer h.se) h.inv
  refine ⟨h1, h.se.trans se1, ?_, h.kids, h.main⟩
  rw [get?_setAsParent_of_not_mem cs (fun hmem => hfresh _ hmem rfl)]
  exact h.node

theorem ctor_local {σ₀ τ : Store} {nd nn : Node} {ok : Nat → Prop} (h : Ctor σ₀ nd τ ok nn) {f : Node → Node}
    (hf : LocalChange f) : Ctor σ₀ nd (τ.upd σ₀.size f) ok (f nn) := by
  obtain ⟨h1, se1⟩ := invEx_upd_local (X := fun s => s = σ₀.size) (n := σ₀.size) hf (fun hX => absurd rfl hX) h.inv
  exact ⟨h1, h.se.trans se1, by simp [h.node], h.kids, h.main⟩

theorem updAt_eq_self {α} (l : List α) (i : Nat) (f : α → α) (h : ∀ a, l[i]? = some a → f a = a) : updAt l i f = l := by
  induction l generalizing i with
  | nil => rfl
  | cons a l ih =>
    cases i with
    | zero => simp [updAt, h a (by simp)]
    | succ i =>
      simp only [updAt, List.cons.injEq, true_and]
      exact ih i (fun b hb => h b (by simpa using hb))

theorem upd_eq_self {σ : Store} {n : Nat} {f : Node → Node} (h : ∀ nd, σ.get? n = some nd → f nd = nd) :
    σ.upd n f = σ := by
  unfold Store.upd
  rw [updAt_eq_self σ.nodes n f h]

/-- re-assigning the main type the node already has (`self.main_type = 'page'` after
    `_main_type` was used) changes nothing -/
theorem ctor_mainType {σ₀ τ : Store} {nd nn : Node} {ok : Nat → Prop} (h : Ctor σ₀ nd τ ok nn) {v : String}
    (hv : nd.mainType = v) : τ.upd σ₀.size (fun x => { x with mainType := v }) = τ := by
  apply upd_eq_self
  intro x g
  obtain ⟨x₀, g₀, _, _, _, _, hmt⟩ := h.se.back g
  rw [get?_alloc_new] at g₀
  cases g₀
  rw [← hv, ← hmt]

theorem ctor_final {σ₀ τ : Store} {nd nn : Node} {ok : Nat → Prop} (h : Ctor σ₀ nd τ ok nn)
    (hok : ∀ d, ok d) (ht : TypedNode nn) (hns : nn.cls ≠ .scan) : Inv τ :=
  inv_final h.inv hok h.node ht hns

/-! ### the constructors -/

theorem inv_mkWord {σ : Store} (a : Args) (h : Inv σ) : Inv (mkWord σ a).1 := by
  let nd : Node := ({ docInit .word a "word" with mainType := "word", text := a.text } : Node).addTypeIf a.dtype
  have hall : nd.allKids = [] := ((localChange_addTypeIf a.dtype) _).2.1
  have hkids : nd.kids = [] := ((localChange_addTypeIf a.dtype) _).2.2.1
  have hm : nd.mainType = nd.cls.mainType := by
    rw [((localChange_addTypeIf a.dtype) _).2.2.2.2.1, ((localChange_addTypeIf a.dtype) _).1]; rfl
  have c0 := ctor_start (nd := nd) h (by rw [hall]; intro c hc; cases hc) hm
  refine ctor_final c0 (fun d => by rw [hkids]; simp) (typedNode_addTypeIf _ (typedNode_base _ "word" rfl rfl rfl)) ?_
  rw [((localChange_addTypeIf a.dtype) _).1]
  simp [docInit, physInit, structInit, Node.addType]

theorem inv_mkLine {σ : Store} (a : Args) (ws : List Nat) (h : Inv σ) (hk : ∀ c ∈ ws, FreeKid σ c) :
    Inv (mkLine σ a ws).1 := by
  let nd : Node := setMeta "type" (.str "line") { docInit .line a "line" with mainType := "line", text := a.text, words := ws }
  have hall : nd.allKids = ws := by simp [nd, Node.allKids, setMeta, docInit, physInit, structInit, Node.addType]
  have hkids : nd.kids = ws := by simp [nd, Node.kids, setMeta, docInit, physInit, structInit, Node.addType]
  have c0 := ctor_start (nd := nd) h (by rw [hall]; exact hk) rfl
  have c1 := ctor_link c0 ws (by rw [hall]; exact fun c hc => hc)
  have c2 := ctor_local c1 (localChange_addTypeIf a.dtype)
  refine ctor_final c2 (fun d => ?_) (typedNode_addTypeIf _ (typedNode_base nd "line" rfl rfl rfl)) ?_
  · rw [hkids]
    by_cases hd : d ∈ ws
    · exact Or.inr hd
    · exact Or.inl hd
  · rw [((localChange_addTypeIf a.dtype) _).1]
    simp [nd, setMeta, docInit, physInit, structInit, Node.addType]

theorem inv_mkRow {σ : Store} (a : Args) (cs : List Nat) (h : Inv σ) (hk : ∀ c ∈ cs, FreeKid σ c) :
    Inv (mkRow σ a cs).1 := by
  unfold mkRow
  split
  · exact h
  · let nd : Node := ({ docInit .row a "table_row" with mainType := "table_row", cells := cs } : Node).addTypeIf a.dtype
    have lc := (localChange_addTypeIf a.dtype) ({ docInit .row a "table_row" with mainType := "table_row", cells := cs } : Node)
    have hall : nd.allKids = cs := by
      rw [lc.2.1]; simp [Node.allKids, docInit, physInit, structInit, Node.addType]
    have hkids : nd.kids = [] := by
      rw [lc.2.2.1]; simp [Node.kids, docInit, physInit, structInit, Node.addType]
    have hm : nd.mainType = nd.cls.mainType := by rw [lc.2.2.2.2.1, lc.1]; rfl
    have c0 := ctor_start (nd := nd) h (by rw [hall]; exact hk) hm
    refine ctor_final c0 (fun d => by rw [hkids]; simp) (typedNode_addTypeIf _ (typedNode_base _ "table_row" rfl rfl rfl)) ?_
    rw [lc.1]
    simp [docInit, physInit, structInit, Node.addType]

theorem inv_mkTable {σ : Store} (a : Args) (rs : List Nat) (h : Inv σ) (hk : ∀ c ∈ rs, FreeKid σ c) :
    Inv (mkTable σ a rs).1 := by
  let nd : Node := ({ docInit .table a "table_region" with mainType := "table_region", rows := rs } : Node).addTypeIf a.dtype
  have lc := (localChange_addTypeIf a.dtype) ({ docInit .table a "table_region" with mainType := "table_region", rows := rs } : Node)
  have hall : nd.allKids = rs := by
    rw [lc.2.1]; simp [Node.allKids, docInit, physInit, structInit, Node.addType]
  have hkids : nd.kids = [] := by
    rw [lc.2.2.1]; simp [Node.kids, docInit, physInit, structInit, Node.addType]
  have hm : nd.mainType = nd.cls.mainType := by rw [lc.2.2.2.2.1, lc.1]; rfl
  have c0 := ctor_start (nd := nd) h (by rw [hall]; exact hk) hm
  refine ctor_final c0 (fun d => by rw [hkids]; simp) (typedNode_addTypeIf _ (typedNode_base _ "table_region" rfl rfl rfl)) ?_
  rw [lc.1]
  simp [docInit, physInit, structInit, Node.addType]

theorem inv_mkCell {σ : Store} (a : Args) (ls : List Nat) (h : Inv σ) (hk : ∀ c ∈ ls, FreeKid σ c) :
    Inv (mkCell σ a ls).1 := by
  let nd : Node := { docInit .cell a "table_cell" with mainType := "table_cell", lines := ls }
  have hall : nd.allKids = ls := by simp [nd, Node.allKids, docInit, physInit, structInit, Node.addType]
  have hkids : nd.kids = ls := by simp [nd, Node.kids, docInit, physInit, structInit, Node.addType]
  have c0 := ctor_start (nd := nd) h (by rw [hall]; exact hk) rfl
  have c1 := ctor_link c0 ls (by rw [hall]; exact fun c hc => hc)
  have hok : ∀ d, d ∉ nd.kids ∨ d ∈ ls := fun d => by
    rw [hkids]
    by_cases hd : d ∈ ls
    · exact Or.inr hd
    · exact Or.inl hd
  have hns : nd.cls ≠ .scan := by simp [nd, docInit, physInit, structInit, Node.addType]
  unfold mkCell
  simp only []
  have c2 := ctor_local c1 (localChange_addTypeIf a.dtype)
  refine ctor_final c2 hok (typedNode_addTypeIf _ (typedNode_base nd "table_cell" rfl rfl rfl)) ?_
  rw [((localChange_addTypeIf a.dtype) _).1]
  exact hns

/-! ### the region family -/

/-- the node `PageXMLTextRegion.__init__` allocates -/
def regionNode (cls : Cls) (a : Args) (nd0 : Node) : Node :=
  let nd := docInit cls a "text_region"
  { nd with mainType := cls.mainType, text := nd0.text,
            regions := nd0.regions, tables := nd0.tables, lines := nd0.lines,
            columns := nd0.columns, extra := nd0.extra, pages := nd0.pages }

theorem regionNode_allKids (cls : Cls) (a : Args) (nd0 : Node) :
    (regionNode cls a nd0).allKids = nd0.pages ++ nd0.columns ++ nd0.extra ++ nd0.regions ++ nd0.tables ++ nd0.lines := by
  simp [regionNode, Node.allKids, docInit, physInit, structInit, Node.addType]

theorem regionNode_kids (cls : Cls) (a : Args) (nd0 : Node) (hc : cls.isRegion = true) :
    (regionNode cls a nd0).kids = nd0.pages ++ nd0.columns ++ nd0.extra ++ nd0.regions ++ nd0.lines := by
  cases cls <;> simp [Cls.isRegion] at hc <;>
    simp [regionNode, Node.kids, docInit, physInit, structInit, Node.addType]

theorem ctor_regionInit {σ : Store} (cls : Cls) (a : Args) (dt : List String) (nd0 : Node) (h : Inv σ)
    (hk : ∀ c ∈ (regionNode cls a nd0).allKids, FreeKid σ c) :
    Ctor σ (regionNode cls a nd0) (regionInit σ cls a dt nd0)
      (fun d => ((d ∉ (regionNode cls a nd0).kids ∨ d ∈ nd0.lines) ∨ d ∈ nd0.lines) ∨ d ∈ nd0.regions)
      ((regionNode cls a nd0).addTypeIf dt) := by
  have hsub : ∀ {cs : List Nat}, (∀ c ∈ cs, c ∈ nd0.lines ∨ c ∈ nd0.regions) →
      ∀ c ∈ cs, c ∈ (regionNode cls a nd0).allKids := by
    intro cs hcs c hc
    rw [regionNode_allKids]
    simp only [List.mem_append]
    rcases hcs c hc with h' | h'
    · exact Or.inr h'
    · exact Or.inl (Or.inl (Or.inr h'))
  have c0 := ctor_start (nd := regionNode cls a nd0) h hk rfl
  have c1 := ctor_link c0 nd0.lines (hsub (fun c hc => Or.inl hc))
  have c2 := ctor_link c1 nd0.lines (hsub (fun c hc => Or.inl hc))
  have c3 := ctor_link c2 nd0.regions (hsub (fun c hc => Or.inr hc))
  exact ctor_local c3 (localChange_addTypeIf dt)

theorem typedNode_regionNode (cls : Cls) (a : Args) (nd0 : Node) (dt : List String)
    (hdt : cls = .region ∨ cls.mainType ∈ dt) : TypedNode ((regionNode cls a nd0).addTypeIf dt) := by
  rcases hdt with rfl | hdt
  · exact typedNode_addTypeIf _ (typedNode_base _ "text_region" rfl rfl rfl)
  · have hne : dt.isEmpty = false := by
      cases dt with
      | nil => cases hdt
      | cons _ _ => rfl
    unfold Node.addTypeIf
    rw [hne]
    simp only [Bool.false_eq_true, if_false]
    refine ⟨rfl, ?_, ?_⟩
    · show (addTypes _ dt).toList.Nodup
      rw [toList_addTypes]
      refine nodup_foldl_addOne _ _ ?_
      show (docInit cls a "text_region").type.toList.Nodup
      rw [docInit_type]
      simp only [toList_addTypes]
      exact nodup_foldl_addOne _ _ (nodup_foldl_addOne _ _ (nodup_foldl_addOne _ _ (by simp [PyType.toList])))
    · intro t ht
      show t ∈ (addTypes (docInit cls a "text_region").type dt).toList
      rw [mem_toList_addTypes, docInit_type]
      have e : (PyType.str "structure_doc").toList = ["structure_doc"] := rfl
      simp only [mem_toList_addTypes, e]
      have hcls : ((regionNode cls a nd0).addType dt).cls = cls := rfl
      rw [hcls] at ht
      simp only [Cls.tags, List.mem_cons, List.not_mem_nil, or_false] at ht
      rcases ht with rfl | rfl | rfl | rfl
      · exact Or.inr hdt
      · simp
      · simp
      · simp

theorem mem_or_not (d : Nat) (l : List Nat) : d ∈ l ∨ d ∉ l := Classical.em _

theorem inv_mkRegion {σ : Store} (col : Bool) (a : Args) (ls rs ts : List Nat) (h : Inv σ)
    (hk : ∀ c ∈ ls ++ rs ++ ts, FreeKid σ c) : Inv (mkRegion σ col a ls rs ts).1 := by
  unfold mkRegion
  cases col with
  | false =>
    simp only [Bool.false_eq_true, if_false]
    have hk' : ∀ c ∈ (regionNode .region a (kidsRec ls rs ts [] [] [] a.text)).allKids, FreeKid σ c := by
      intro c hc
      rw [regionNode_allKids] at hc
      simp only [kidsRec, List.nil_append, List.mem_append] at hc
      exact hk c (by simp only [List.mem_append]; grind)
    have c := ctor_regionInit .region a a.dtype (kidsRec ls rs ts [] [] [] a.text) h hk'
    refine ctor_final c (fun d => ?_) (typedNode_regionNode _ _ _ _ (Or.inl rfl)) ?_
    · rw [regionNode_kids _ _ _ rfl]
      simp only [kidsRec, List.nil_append, List.mem_append]
      rcases mem_or_not d ls with h1 | h1 <;> rcases mem_or_not d rs with h2 | h2 <;> grind
    · rw [((localChange_addTypeIf a.dtype) _).1]
      simp [regionNode, docInit, physInit, structInit, Node.addType]
  | true =>
    simp only [if_true]
    have hk' : ∀ c ∈ (regionNode .column a (kidsRec ls rs ts [] [] [])).allKids, FreeKid σ c := by
      intro c hc
      rw [regionNode_allKids] at hc
      simp only [kidsRec, List.nil_append, List.mem_append] at hc
      exact hk c (by simp only [List.mem_append]; grind)
    have c := ctor_regionInit .column a ["column"] (kidsRec ls rs ts [] [] []) h hk'
    rw [ctor_mainType c (v := "column") rfl]
    have c2 := ctor_local c (localChange_addTypeIf a.dtype)
    refine ctor_final c2 (fun d => ?_) (typedNode_addTypeIf _ (typedNode_regionNode _ _ _ _ (Or.inr (by simp [Cls.mainType])))) ?_
    · rw [regionNode_kids _ _ _ rfl]
      simp only [kidsRec, List.nil_append, List.mem_append]
      rcases mem_or_not d ls with h1 | h1 <;> rcases mem_or_not d rs with h2 | h2 <;> grind
    · rw [((localChange_addTypeIf a.dtype) _).1, ((localChange_addTypeIf ["column"]) _).1]
      simp [regionNode, docInit, physInit, structInit, Node.addType]

theorem inv_mkPage {σ : Store} (a : Args) (ls rs ts cols ex : List Nat) (h : Inv σ)
    (hk : ∀ c ∈ ls ++ rs ++ ts ++ cols ++ ex, FreeKid σ c) : Inv (mkPage σ a ls rs ts cols ex).1 := by
  unfold mkPage
  simp only []
  have hall := regionNode_allKids .page a (kidsRec ls rs ts cols ex [])
  have hk' : ∀ c ∈ (regionNode .page a (kidsRec ls rs ts cols ex [])).allKids, FreeKid σ c := by
    intro c hc
    rw [hall] at hc
    simp only [kidsRec, List.nil_append, List.mem_append] at hc
    exact hk c (by simp only [List.mem_append]; grind)
  have c := ctor_regionInit .page a ["page"] (kidsRec ls rs ts cols ex []) h hk'
  rw [ctor_mainType c (v := "page") rfl]
  have c1 := ctor_link c cols (by
    intro x hx; rw [hall]; simp only [kidsRec, List.nil_append, List.mem_append]; grind)
  have c2 := ctor_link c1 ex (by
    intro x hx; rw [hall]; simp only [kidsRec, List.nil_append, List.mem_append]; grind)
  have c3 := ctor_local c2 (localChange_addTypeIf a.dtype)
  refine ctor_final c3 (fun d => ?_) (typedNode_addTypeIf _ (typedNode_regionNode _ _ _ _ (Or.inr (by simp [Cls.mainType])))) ?_
  · rw [regionNode_kids _ _ _ rfl]
    simp only [kidsRec, List.nil_append, List.mem_append]
    rcases mem_or_not d ls with h1 | h1 <;> rcases mem_or_not d rs with h2 | h2 <;>
      rcases mem_or_not d cols with h3 | h3 <;> rcases mem_or_not d ex with h4 | h4 <;> grind
  · rw [((localChange_addTypeIf a.dtype) _).1, ((localChange_addTypeIf ["page"]) _).1]
    simp [regionNode, docInit, physInit, structInit, Node.addType]

/-- while a constructor runs, nobody lists the node under construction -/
theorem Ctor.unlisted {σ₀ τ : Store} {nd nn : Node} {ok : Nat → Prop} (h : Ctor σ₀ nd τ ok nn) (h₀ : Inv σ₀)
    {q : Nat} {qn : Node} (g : τ.get? q = some qn) : σ₀.size ∉ qn.allKids := by
  obtain ⟨qn₀, g₀, _, hall, _⟩ := h.se.back g
  rw [hall]
  rw [get?_alloc] at g₀
  by_cases hq : q = σ₀.size
  · rw [if_pos hq] at g₀
    cases g₀
    intro hmem
    obtain ⟨⟨cn, gc, _⟩, _⟩ := h.kids _ hmem
    exact absurd (get?_lt gc) (Nat.lt_irrefl _)
  · rw [if_neg hq] at g₀
    intro hmem
    exact absurd (h₀.shape.closed q qn₀ _ g₀ hmem) (Nat.lt_irrefl _)

theorem inv_mkScan {σ σ' : Store} {o : Out} (a : Args) (ls rs ts cols pages : List Nat) (h : Inv σ)
    (hk : ∀ c ∈ ls ++ rs ++ ts ++ cols ++ pages, FreeKid σ c)
    (hs : mkScan σ a ls rs ts cols pages = .ok (σ', o)) : Inv σ' := by
  have hall := regionNode_allKids .scan a (kidsRec ls rs ts cols [] pages)
  have hk' : ∀ c ∈ (regionNode .scan a (kidsRec ls rs ts cols [] pages)).allKids, FreeKid σ c := by
    intro c hc
    rw [hall] at hc
    simp only [kidsRec, List.nil_append, List.append_nil, List.mem_append] at hc
    exact hk c (by simp only [List.mem_append]; grind)
  have c := ctor_regionInit .scan a ["scan"] (kidsRec ls rs ts cols [] pages) h hk'
  have e0 := ctor_mainType c (v := "scan") rfl
  have c1 := ctor_link c pages (by
    intro x hx; rw [hall]; simp only [kidsRec, List.nil_append, List.append_nil, List.mem_append]; grind)
  have c2 := ctor_link c1 cols (by
    intro x hx; rw [hall]; simp only [kidsRec, List.nil_append, List.append_nil, List.mem_append]; grind)
  have c3 := ctor_local c2 (localChange_addTypeIf a.dtype)
  unfold mkScan at hs
  simp only [] at hs
  rw [e0] at hs
  generalize hτ : (setAsParent (setAsParent (regionInit σ .scan a ["scan"] (kidsRec ls rs ts cols [] pages)) σ.size pages)
      σ.size cols).upd σ.size (fun x => x.addTypeIf a.dtype) = τ at hs c3
  generalize hnn : ((regionNode .scan a (kidsRec ls rs ts cols [] pages)).addTypeIf ["scan"]).addTypeIf a.dtype = nn at c3
  have hnt : TypedNode nn := by
    rw [← hnn]
    exact typedNode_addTypeIf _ (typedNode_regionNode _ _ _ _ (Or.inr (by simp [Cls.mainType])))
  have hncls : nn.cls = .scan := by
    rw [← hnn, ((localChange_addTypeIf a.dtype) _).1, ((localChange_addTypeIf ["scan"]) _).1]
    rfl
  have hnid : nn.id = a.id := by
    rw [← hnn, ((localChange_addTypeIf a.dtype) _).2.2.2.1, ((localChange_addTypeIf ["scan"]) _).2.2.2.1]
    rfl
  cases hsc : setScanId (τ.size + 1) τ σ.size a.id with
  | error e => rw [hsc] at hs; cases hs
  | ok σ₁ =>
    rw [hsc] at hs
    simp only [bind, Except.bind, pure, Except.pure, Except.ok.injEq, Prod.mk.injEq] at hs
    obtain ⟨rfl, _⟩ := hs
    have spec := setScanId_spec _ _ _ _ _ hsc
    have unl := fun {q qn} (g : τ.get? q = some qn) => c3.unlisted h g
    have c3inv : InvEx τ (fun _ => True) (fun s => s = σ.size) := by
      refine c3.inv.mono (fun d _ => ?_) (fun _ x => x)
      rw [regionNode_kids _ _ _ rfl]
      simp only [kidsRec, List.nil_append, List.append_nil, List.mem_append]
      rcases mem_or_not d ls with h1 | h1 <;> rcases mem_or_not d rs with h2 | h2 <;>
        rcases mem_or_not d cols with h3 | h3 <;> rcases mem_or_not d pages with h4 | h4 <;> grind
    show InvEx σ₁ (fun _ => True) (fun _ => False)
    refine invEx_setScanId (X' := fun _ => False) spec c3inv ?_ ?_ ?_
    · intro q qn d gq hd hb
      have hqt : TypedNode qn := by
        by_cases hq : q = σ.size
        · subst hq; rw [c3.node] at gq; cases gq; exact hnt
        · exact c3.inv.typed q qn hq gq
      refine ⟨hqt.1, fun hqs => ?_⟩
      have hqn : q = σ.size := by
        cases hb with
        | refl _ => exact absurd (mem_allKids_of_mem_kids hd) (unl gq)
        | step hbk hk hm =>
          have := c3.inv.shape.uniq _ _ _ _ _ hk gq hm (mem_allKids_of_mem_kids hd)
          subst this
          exact Below.scan_top c3.inv.shape gq hqs hbk
      subst hqn
      rw [c3.node] at gq
      cases gq
      exact hnid.symm
    · intro n nd' _ hX g
      subst hX
      rw [c3.node] at g
      cases g
      exact hnt
    · intro s sn n' nn' _ gs hss hb gn'
      refine ⟨fun hbn => ?_, fun hbn => c3inv.scan s sn n' nn' (fun hsn => hbn (hsn ▸ hb)) gs hss hb gn'⟩
      have := Below.scan_unique c3.inv.shape gs hss c3.node hncls hbn hb
      subst this
      rw [c3.node] at gs
      cases gs
      exact hnid.symm

/-! ### set_parent / set_as_parent called directly, type tags, file name -/

theorem Inv.goodParent {σ : Store} (h : Inv σ) {p : Nat} {pn : Node} (g : σ.get? p = some pn) : GoodParent σ p :=
  ⟨pn, g, (h.typed p pn (fun f => f) g).1⟩

theorem inv_setParent1 {σ : Store} {c p : Nat} (h : Inv σ) (hp : p < σ.size) (hc : Attachable σ p c) :
    Inv (setParent1 σ c p) := by
  obtain ⟨pn, g⟩ := get?_of_lt hp
  exact (invEx_setParent1 (h.goodParent g) hc h).mono (fun _ _ => Or.inl trivial) (fun _ x => x)

theorem inv_setAsParent {σ : Store} {p : Nat} (cs : List Nat) (h : Inv σ) (hp : p < σ.size)
    (hcs : ∀ c ∈ cs, Attachable σ p c) : Inv (setAsParent σ p cs) ∧ ShapeEq σ (setAsParent σ p cs) := by
  obtain ⟨pn, g⟩ := get?_of_lt hp
  obtain ⟨h1, se⟩ := invEx_setAsParent cs (h.goodParent g) hcs h
  exact ⟨h1.mono (fun _ _ => Or.inl trivial) (fun _ x => x), se⟩

/-- the children a container lists can always be re-linked to it -/
theorem attachable_of_listed {σ : Store} (h : Inv σ) {p c : Nat} {pn : Node} (g : σ.get? p = some pn)
    (hc : c ∈ pn.allKids) : Attachable σ p c := by
  obtain ⟨cn, gc⟩ := get?_of_lt (h.shape.closed p pn c g hc)
  exact ⟨⟨cn, gc, h.shape.scanTop p pn c cn g hc gc⟩, fun q qn gq hq => h.shape.uniq q p qn pn c gq g hq hc⟩

theorem inv_upd_local {σ : Store} {n : Nat} {f : Node → Node} (hf : LocalChange f)
    (ht : ∀ nd, σ.get? n = some nd → TypedNode nd → TypedNode (f nd)) (h : Inv σ) : Inv (σ.upd n f) :=
  (invEx_upd_local hf (fun _ => ht) h).1

theorem typedNode_removeType {nd : Node} (ts : List String) (h : TypedNode nd)
    (hts : ∀ t ∈ ts, t ∉ nd.cls.tags) : TypedNode (nd.removeType ts) := by
  obtain ⟨h1, h2, h3⟩ := h
  refine ⟨h1, ?_, ?_⟩
  · show (removeTypes nd.type ts).toList.Nodup
    rw [toList_removeTypes]
    exact nodup_foldl_removeOne _ _ h2
  · intro t ht
    show t ∈ (removeTypes nd.type ts).toList
    rw [toList_removeTypes, mem_foldl_removeOne _ _ h2]
    exact ⟨h3 t ht, fun hmem => hts t hmem ht⟩

theorem inv_congr {σ σ' : Store} (hg : ∀ n, σ'.get? n = σ.get? n) (hs : σ'.size = σ.size) (h : Inv σ) : Inv σ' := by
  have se : ShapeEq σ σ' := ⟨hs, fun n nd g => ⟨nd, by rw [hg, g], rfl, rfl, rfl, rfl, rfl⟩⟩
  refine ⟨?_, se.shape h.shape, ?_, ?_⟩
  · intro p pn c gp hc hok
    rw [hg] at gp
    refine (h.linked p pn c gp hc hok).transfer ?_ ?_
    · intro x g; exact ⟨x, by rw [hg, g], rfl, rfl⟩
    · intro x g; exact ⟨x, by rw [hg, g], rfl, rfl⟩
  · intro n nd hX g
    rw [hg] at g
    exact h.typed n nd hX g
  · refine scanTaggedEx_of_mdEq se ?_ h.scan
    intro n nd nd' g g'
    rw [hg, g] at g'
    cases g'
    rfl

/-- writing a metadata key that is none of the provenance keys -/
theorem inv_setMeta_other {σ : Store} {n : Nat} (k : String) (v : MVal) (h : Inv σ)
    (hk1 : k ≠ "parent_id") (hk2 : k ≠ "parent_type") (hk3 : k ≠ "scan_id")
    (hk4 : ∀ c : Cls, k ≠ c.mainType ++ "_id") : Inv (σ.upd n (setMeta k v)) := by
  have se : ShapeEq σ (σ.upd n (setMeta k v)) := shapeEq_upd_link σ n _ (fun _ => ⟨rfl, rfl, rfl, rfl, rfl⟩)
  have node : ∀ {m : Nat} {x' : Node}, (σ.upd n (setMeta k v)).get? m = some x' →
      ∃ x, σ.get? m = some x ∧ (x' = x ∨ x' = setMeta k v x) := by
    intro m x' g
    by_cases hm : m = n
    · subst hm
      cases hx : σ.get? m with
      | none => simp [hx] at g
      | some x =>
        simp only [get?_upd, if_true, hx, Option.map_some, Option.some.injEq] at g
        exact ⟨x, rfl, Or.inr g.symm⟩
    · simp only [get?_upd, hm, if_false] at g
      exact ⟨x', g, Or.inl rfl⟩
  refine ⟨?_, se.shape h.shape, ?_, ?_⟩
  · intro q qn' d hq hd hok
    obtain ⟨qn, gq, _, _, hkids, hid, hmt⟩ := se.back hq
    obtain ⟨pn, cn, gp, gc, a, b, c, e⟩ := h.linked q qn d gq (hkids ▸ hd) hok
    rw [gq] at gp
    cases gp
    have htq := (h.typed q qn (fun f => f) gq).1
    obtain ⟨cn', gc'⟩ := get?_of_lt (by rw [se.1]; exact get?_lt gc : d < (σ.upd n (setMeta k v)).size)
    obtain ⟨cn₀, gc₀, hcn⟩ := node gc'
    rw [gc] at gc₀
    cases gc₀
    rcases hcn with rfl | rfl
    · exact ⟨qn', cn', hq, gc', a, by rw [hid]; exact b, by rw [hmt]; exact c, by rw [hid, hmt]; exact e⟩
    · refine ⟨qn', _, hq, gc', a, ?_, ?_, ?_⟩
      · rw [hid]
        show mget (mset cn.md k v) _ = _
        rw [mget_mset_other _ _ _ _ (Ne.symm hk1)]
        exact b
      · rw [hmt]
        show mget (mset cn.md k v) _ = _
        rw [mget_mset_other _ _ _ _ (Ne.symm hk2)]
        exact c
      · rw [hid, hmt]
        show mget (mset cn.md k v) _ = _
        rw [mget_mset_other _ _ _ _ (by rw [htq]; exact Ne.symm (hk4 _))]
        exact e
  · intro m x' _ g
    obtain ⟨x, gx, hx⟩ := node g
    have := h.typed m x (fun f => f) gx
    rcases hx with rfl | rfl
    · exact this
    · exact this
  · intro s sn' m mn' _ hs hscan hb hm
    obtain ⟨sn, gs, scls, _, _, sid, _⟩ := se.back hs
    obtain ⟨mn, gm, hmn⟩ := node hm
    have old := h.scan s sn m mn (fun f => f) gs (scls ▸ hscan) (se.below_iff.mpr hb) gm
    rw [sid]
    rcases hmn with rfl | rfl
    · exact old
    · show mget (mset mn.md k v) _ = _
      rw [mget_mset_other _ _ _ _ (Ne.symm hk3)]
      exact old

/-! ### changing the child lists of a node (add_child, the parser's attach statements) -/

/-- `f` changes nothing but the child lists, and every newly listed child is in `cs` -/
structure Relists (pn : Node) (f : Node → Node) (cs : List Nat) : Prop where
  cls : (f pn).cls = pn.cls
  id : (f pn).id = pn.id
  mainType : (f pn).mainType = pn.mainType
  md : (f pn).md = pn.md
  parent : (f pn).parent = pn.parent
  type : (f pn).type = pn.type
  allKids : ∀ x, x ∈ (f pn).allKids → x ∈ pn.allKids ∨ x ∈ cs
  kids : ∀ x, x ∈ (f pn).kids → x ∈ pn.kids ∨ x ∈ cs

structure RelistOut (σ σ₁ : Store) (p : Nat) (cs : List Nat) : Prop where
  linked : LinkedOn σ₁ (fun d => d ∉ cs)
  shape : Shape σ₁
  typed : ∀ n nd, σ₁.get? n = some nd → TypedNode nd
  below : ∀ m r, Below σ₁ m r → Below σ m r ∨ ∃ x ∈ cs, Below σ m x ∧ Below σ p r
  same : ∀ m nd', σ₁.get? m = some nd' → ∃ nd, σ.get? m = some nd ∧ nd'.md = nd.md ∧ nd'.id = nd.id ∧
    nd'.cls = nd.cls ∧ nd'.parent = nd.parent ∧ nd'.mainType = nd.mainType
  size : σ₁.size = σ.size

theorem relist {σ : Store} {p : Nat} {pn : Node} {f : Node → Node} {cs : List Nat} (h : Inv σ)
    (gp : σ.get? p = some pn) (hf : Relists pn f cs) (hatt : ∀ x ∈ cs, Attachable σ p x) :
    RelistOut σ (σ.upd p f) p cs := by
  have node : ∀ {m : Nat} {x' : Node}, (σ.upd p f).get? m = some x' →
      (m = p ∧ x' = f pn) ∨ (m ≠ p ∧ σ.get? m = some x') := by
    intro m x' g
    by_cases hm : m = p
    · subst hm
      simp only [get?_upd, if_true, gp, Option.map_some, Option.some.injEq] at g
      exact Or.inl ⟨rfl, g.symm⟩
    · simp only [get?_upd, hm, if_false] at g
      exact Or.inr ⟨hm, g⟩
  have same : ∀ m nd', (σ.upd p f).get? m = some nd' → ∃ nd, σ.get? m = some nd ∧ nd'.md = nd.md ∧ nd'.id = nd.id ∧
      nd'.cls = nd.cls ∧ nd'.parent = nd.parent ∧ nd'.mainType = nd.mainType := by
    intro m nd' g
    rcases node g with ⟨rfl, rfl⟩ | ⟨_, g₀⟩
    · exact ⟨pn, gp, hf.md, hf.id, hf.cls, hf.parent, hf.mainType⟩
    · exact ⟨nd', g₀, rfl, rfl, rfl, rfl, rfl⟩
  have kidsOf : ∀ {m : Nat} {x' : Node}, (σ.upd p f).get? m = some x' → ∀ y, y ∈ x'.allKids →
      (∃ x, σ.get? m = some x ∧ y ∈ x.allKids) ∨ (m = p ∧ y ∈ cs) := by
    intro m x' g y hy
    rcases node g with ⟨rfl, rfl⟩ | ⟨_, g₀⟩
    · rcases hf.allKids y hy with h' | h'
      · exact Or.inl ⟨pn, gp, h'⟩
      · exact Or.inr ⟨rfl, h'⟩
    · exact Or.inl ⟨x', g₀, hy⟩
  refine ⟨?_, ?_, ?_, ?_, same, by simp⟩
  · intro q qn' d hq hd hok
    have hold : ∃ qn, σ.get? q = some qn ∧ d ∈ qn.kids := by
      rcases node hq with ⟨rfl, rfl⟩ | ⟨_, g₀⟩
      · rcases hf.kids d hd with h' | h'
        · exact ⟨pn, gp, h'⟩
        · exact absurd h' hok
      · exact ⟨qn', g₀, hd⟩
    obtain ⟨qn, gq, hdq⟩ := hold
    refine (h.linked q qn d gq hdq trivial).transfer ?_ ?_
    · intro x g
      by_cases hqp : q = p
      · subst hqp
        rw [gp] at g; cases g
        exact ⟨f pn, by simp [gp], hf.id, hf.mainType⟩
      · exact ⟨x, by simp [hqp, g], rfl, rfl⟩
    · intro x g
      by_cases hdp : d = p
      · subst hdp
        rw [gp] at g; cases g
        exact ⟨f pn, by simp [gp], hf.md, hf.parent⟩
      · exact ⟨x, by simp [hdp, g], rfl, rfl⟩
  · constructor
    · intro a b an bn c ha hb hca hcb
      rcases kidsOf ha c hca with ⟨x, gx, hx⟩ | ⟨rfl, hx⟩ <;> rcases kidsOf hb c hcb with ⟨y, gy, hy⟩ | ⟨rfl, hy⟩
      · exact h.shape.uniq a b x y c gx gy hx hy
      · exact (hatt c hy).2 a x gx hx
      · exact ((hatt c hx).2 b y gy hy).symm
      · rfl
    · intro a an c cn ha hc hcn
      obtain ⟨cn₀, gc₀, _, _, hcls, _⟩ := same c cn hcn
      rw [hcls]
      rcases kidsOf ha c hc with ⟨x, gx, hx⟩ | ⟨rfl, hx⟩
      · exact h.shape.scanTop a x c cn₀ gx hx gc₀
      · obtain ⟨⟨cn₁, g₁, hns⟩, _⟩ := hatt c hx
        rw [gc₀] at g₁; cases g₁
        exact hns
    · intro a an c ha hc
      rw [size_upd]
      rcases kidsOf ha c hc with ⟨x, gx, hx⟩ | ⟨rfl, hx⟩
      · exact h.shape.closed a x c gx hx
      · obtain ⟨⟨cn₁, g₁, _⟩, _⟩ := hatt c hx
        exact get?_lt g₁
  · intro m x' g
    rcases node g with ⟨rfl, rfl⟩ | ⟨_, g₀⟩
    · have := h.typed m pn (fun f => f) gp
      exact ⟨by rw [hf.mainType, hf.cls]; exact this.1, by rw [hf.type]; exact this.2.1,
        by rw [hf.type, hf.cls]; exact this.2.2⟩
    · exact h.typed m x' (fun f => f) g₀
  · intro m r hb
    induction hb with
    | refl _ => exact Or.inl (.refl _)
    | @step m k r kn _ hk hm ih =>
      rcases kidsOf hk m hm with ⟨x, gx, hx⟩ | ⟨rfl, hx⟩
      · rcases ih with ih | ⟨y, hy, hby, hbp⟩
        · exact Or.inl (.step ih gx hx)
        · exact Or.inr ⟨y, hy, .step hby gx hx, hbp⟩
      · rcases ih with ih | ⟨y, hy, hby, hbp⟩
        · exact Or.inr ⟨m, hx, .refl _, ih⟩
        · exact Or.inr ⟨m, hx, .refl _, hbp⟩

/-- the parser's `x.lines = cs; x.set_as_parent(x.lines)` (and the two analogues) on an element
    that is not attached yet -/
theorem inv_attach {σ : Store} {p : Nat} {pn : Node} {f : Node → Node} {cs : List Nat} (h : Inv σ)
    (gp : σ.get? p = some pn) (hf : Relists pn f cs) (hatt : ∀ x ∈ cs, Attachable σ p x)
    (hpfree : ∀ q qn, σ.get? q = some qn → p ∉ qn.allKids) (hps : pn.cls ≠ .scan)
    (hsub : ∀ x ∈ cs, x ∈ (f pn).allKids) :
    Inv (setAsParent (σ.upd p f) p cs) := by
  have R := relist h gp hf hatt
  have scan1 : ScanTagged (σ.upd p f) := by
    intro s sn' n nn' _ hs hscan hb hn
    obtain ⟨sn, gs, _, sid, scls, _⟩ := R.same s sn' hs
    obtain ⟨nn, gn, nmd, _⟩ := R.same n nn' hn
    rw [sid, nmd]
    rcases R.below n s hb with hb₀ | ⟨x, _, _, hbp⟩
    · exact h.scan s sn n nn (fun f => f) gs (scls ▸ hscan) hb₀ gn
    · have := Below.eq_of_free hpfree hbp
      subst this
      rw [gp] at gs; cases gs
      exact absurd (scls ▸ hscan) hps
  have inv1 : InvEx (σ.upd p f) (fun d => d ∉ cs) (fun _ => False) :=
    ⟨R.linked, R.shape, fun n nd _ g => R.typed n nd g, scan1⟩
  have gp1 : GoodParent (σ.upd p f) p := by
    refine ⟨f pn, by simp [gp], ?_⟩
    rw [hf.mainType, hf.cls]
    exact (h.typed p pn (fun f => f) gp).1
  have hatt1 : ∀ x ∈ cs, Attachable (σ.upd p f) p x := by
    intro x hx
    obtain ⟨⟨xn, gx, hns⟩, hon⟩ := hatt x hx
    obtain ⟨xn', gx'⟩ := get?_of_lt (by rw [R.size]; exact get?_lt gx : x < (σ.upd p f).size)
    obtain ⟨xn₀, gx₀, _, _, hcls, _⟩ := R.same x xn' gx'
    rw [gx] at gx₀; cases gx₀
    exact ⟨⟨xn', gx', hcls ▸ hns⟩, fun q qn gq hq => R.shape.uniq q p qn (f pn) x gq (by simp [gp]) hq (hsub x hx)⟩
  refine (invEx_setAsParent cs gp1 hatt1 inv1).1.mono (fun d _ => ?_) (fun _ x => x)
  rcases mem_or_not d cs with h' | h'
  · exact Or.inr h'
  · exact Or.inl h'

/-! ### add_child -/

theorem relists_lines (nd : Node) (c : Nat) : Relists nd (fun x => { x with lines := x.lines ++ [c] }) [c] := by
  refine ⟨rfl, rfl, rfl, rfl, rfl, rfl, ?_, ?_⟩
  · intro x hx
    simp only [Node.allKids, List.mem_append, List.mem_singleton] at hx ⊢
    grind
  · intro x hx
    unfold Node.kids at hx ⊢
    cases hc : nd.cls <;> simp only [hc, List.mem_append, List.mem_singleton, List.not_mem_nil] at hx ⊢ <;> grind

theorem relists_regions (nd : Node) (c : Nat) : Relists nd (fun x => { x with regions := x.regions ++ [c] }) [c] := by
  refine ⟨rfl, rfl, rfl, rfl, rfl, rfl, ?_, ?_⟩
  · intro x hx
    simp only [Node.allKids, List.mem_append, List.mem_singleton] at hx ⊢
    grind
  · intro x hx
    unfold Node.kids at hx ⊢
    cases hc : nd.cls <;> simp only [hc, List.mem_append, List.mem_singleton, List.not_mem_nil] at hx ⊢ <;> grind

theorem relists_columns (nd : Node) (c : Nat) : Relists nd (fun x => { x with columns := x.columns ++ [c] }) [c] := by
  refine ⟨rfl, rfl, rfl, rfl, rfl, rfl, ?_, ?_⟩
  · intro x hx
    simp only [Node.allKids, List.mem_append, List.mem_singleton] at hx ⊢
    grind
  · intro x hx
    unfold Node.kids at hx ⊢
    cases hc : nd.cls <;> simp only [hc, List.mem_append, List.mem_singleton, List.not_mem_nil] at hx ⊢ <;> grind

theorem relists_extra (nd : Node) (c : Nat) : Relists nd (fun x => { x with extra := x.extra ++ [c] }) [c] := by
  refine ⟨rfl, rfl, rfl, rfl, rfl, rfl, ?_, ?_⟩
  · intro x hx
    simp only [Node.allKids, List.mem_append, List.mem_singleton] at hx ⊢
    grind
  · intro x hx
    unfold Node.kids at hx ⊢
    cases hc : nd.cls <;> simp only [hc, List.mem_append, List.mem_singleton, List.not_mem_nil] at hx ⊢ <;> grind

theorem relists_pages (nd : Node) (c : Nat) : Relists nd (fun x => { x with pages := x.pages ++ [c] }) [c] := by
  refine ⟨rfl, rfl, rfl, rfl, rfl, rfl, ?_, ?_⟩
  · intro x hx
    simp only [Node.allKids, List.mem_append, List.mem_singleton] at hx ⊢
    grind
  · intro x hx
    unfold Node.kids at hx ⊢
    cases hc : nd.cls <;> simp only [hc, List.mem_append, List.mem_singleton, List.not_mem_nil] at hx ⊢ <;> grind

/-- the state of `add_child` just before the scan id is propagated -/
structure AddState (σ τ : Store) (p c : Nat) : Prop where
  linked : Linked τ
  shape : Shape τ
  typed : ∀ n nd, τ.get? n = some nd → TypedNode nd
  below : ∀ m r, Below τ m r → Below σ m r ∨ (Below σ m c ∧ Below σ p r)
  mono : ∀ m r, Below σ m r → Below τ m r
  same : ∀ m nd', τ.get? m = some nd' → ∃ nd, σ.get? m = some nd ∧ nd'.id = nd.id ∧ nd'.cls = nd.cls ∧
    (m ≠ c → nd'.md = nd.md)
  listed : ∃ pn', τ.get? p = some pn' ∧ c ∈ pn'.allKids

theorem addState {σ : Store} {p c : Nat} {pn : Node} {f : Node → Node} (L : List Nat) (h : Inv σ)
    (gp : σ.get? p = some pn) (htr : pn.truthy = true) (hc : FreeKid σ c)
    (hf : ∀ nd, Relists nd f [c]) (hin : ∀ nd, c ∈ (f nd).allKids)
    (hkeep : ∀ nd x, x ∈ nd.allKids → x ∈ (f nd).allKids) (hL : ∀ x ∈ L, x = c) :
    AddState σ (setAsParent ((setParent1 σ c p).upd p f) p L) p c ∧
      Inv (setParent1 σ c p) := by
  obtain ⟨⟨cn, gc, hcs⟩, hfree⟩ := hc
  have hplt := get?_lt gp
  -- σa
  have inva : Inv (setParent1 σ c p) := inv_setParent1 h hplt (FreeKid.attachable ⟨⟨cn, gc, hcs⟩, hfree⟩ p)
  have sea := shapeEq_setParent1 σ c p
  obtain ⟨pna, gpa, pacls, paall, _, paid, pamt⟩ := sea.2 p pn gp
  have hatta : Attachable (setParent1 σ c p) p c :=
    (FreeKid.attachable ⟨⟨cn, gc, hcs⟩, hfree⟩ p).transfer sea
  have linka : LinkedAt (setParent1 σ c p) p c :=
    linkedAt_setParent1 gp gc (h.typed p pn (fun f => f) gp).1 htr
  -- σb
  have R := relist inva gpa (hf pna) (fun x hx => by
    simp only [List.mem_singleton] at hx; subst hx; exact hatta)
  have gpb : ((setParent1 σ c p).upd p f).get? p = some (f pna) := by simp [gpa]
  have linkb : LinkedAt ((setParent1 σ c p).upd p f) p c := by
    refine linka.transfer ?_ ?_
    · intro x g
      rw [gpa] at g; cases g
      exact ⟨f pna, gpb, (hf pna).id, (hf pna).mainType⟩
    · intro x g
      by_cases hcp : c = p
      · subst hcp
        rw [gpa] at g; cases g
        exact ⟨f pna, gpb, (hf pna).md, (hf pna).parent⟩
      · exact ⟨x, by simp [hcp, g], rfl, rfl⟩
  have linkedb : Linked ((setParent1 σ c p).upd p f) := by
    intro q qn d gq hd _
    by_cases hdc : d = c
    · subst hdc
      have : q = p := R.shape.uniq q p qn (f pna) d gq gpb (mem_allKids_of_mem_kids hd) (hin pna)
      subst this
      exact linkb
    · exact R.linked q qn d gq hd (by simpa using hdc)
  have invb : InvEx ((setParent1 σ c p).upd p f) (fun _ => True) (fun _ => True) :=
    ⟨linkedb, R.shape, fun n nd hX _ => absurd trivial hX, fun s sn n nn hX => absurd trivial hX⟩
  have gpgood : GoodParent ((setParent1 σ c p).upd p f) p := by
    refine ⟨f pna, gpb, ?_⟩
    rw [(hf pna).mainType, (hf pna).cls]
    exact (inva.typed p pna (fun f => f) gpa).1
  have hattb : ∀ x ∈ L, Attachable ((setParent1 σ c p).upd p f) p x := by
    intro x hx
    rw [hL x hx]
    obtain ⟨cnb, gcb⟩ := get?_of_lt (by rw [R.size, sea.1]; exact get?_lt gc : c < ((setParent1 σ c p).upd p f).size)
    obtain ⟨cna, gca, _, _, hcls, _⟩ := R.same c cnb gcb
    obtain ⟨cn₀, gc₀, hcls₀, _⟩ := sea.back gca
    rw [gc] at gc₀; cases gc₀
    exact ⟨⟨cnb, gcb, by rw [hcls, hcls₀]; exact hcs⟩,
      fun q qn gq hq => R.shape.uniq q p qn (f pna) c gq gpb hq (hin pna)⟩
  obtain ⟨invt, set⟩ := invEx_setAsParent L gpgood hattb invb
  -- nodes of τ relative to σ
  have nodeEq : ∀ m, m ≠ c → ∀ x, (setAsParent ((setParent1 σ c p).upd p f) p L).get? m = some x →
      ((setParent1 σ c p).upd p f).get? m = some x := by
    intro m hm x g
    rw [get?_setAsParent_of_not_mem L (fun hmem => hm (hL m hmem))] at g
    exact g
  refine ⟨⟨invt.linked.mono (fun _ _ => Or.inl trivial), invt.shape, ?_, ?_, ?_, ?_, ?_⟩, inva⟩
  · intro n nd g
    obtain ⟨ndb, gb, hcls, _, _, _, hmt⟩ := set.back g
    -- types are untouched by set_parent: go through the generic typed lemma
    have tb : ∀ n nd, ((setParent1 σ c p).upd p f).get? n = some nd → TypedNode nd := R.typed
    have : ∀ (cs : List Nat) (τ : Store), (∀ n nd, τ.get? n = some nd → TypedNode nd) →
        ∀ n nd, (setAsParent τ p cs).get? n = some nd → TypedNode nd := by
      intro cs
      induction cs with
      | nil => intro τ ht; exact ht
      | cons y ys ih =>
        intro τ ht
        have e : setAsParent τ p (y :: ys) = setAsParent (setParent1 τ y p) p ys := rfl
        rw [e]
        exact ih _ (fun n nd g => typed_setParent1 (X := fun _ => False) y p (fun n nd _ g => ht n nd g) n nd (fun f => f) g)
    exact this L _ tb n nd g
  · intro m r hb
    rcases R.below m r (set.below_iff.mpr hb) with hb' | ⟨x, hx, hbx, hbp⟩
    · exact Or.inl (sea.below_iff.mpr hb')
    · simp only [List.mem_singleton] at hx
      subst hx
      exact Or.inr ⟨sea.below_iff.mpr hbx, sea.below_iff.mpr hbp⟩
  · intro m r hb
    refine set.below_iff.mp ?_
    have hba := sea.below_iff.mp hb
    clear hb
    induction hba with
    | refl _ => exact .refl _
    | @step m k r kn _ hk hm ih =>
      by_cases hkp : k = p
      · rw [hkp, gpa] at hk
        cases hk
        exact .step (hkp ▸ ih) gpb (hkeep _ _ hm)
      · exact .step ih (by simp [hkp, hk]) hm
  · intro m nd' g
    by_cases hmc : m = c
    · subst hmc
      obtain ⟨ndb, gb, hcls, _, _, hid, _⟩ := set.back g
      obtain ⟨nda, ga, _, hid2, hcls2, _⟩ := R.same m ndb gb
      obtain ⟨nd0, g0, hcls3, _, _, hid3, _⟩ := sea.back ga
      exact ⟨nd0, g0, by rw [hid, hid2, hid3], by rw [hcls, hcls2, hcls3], fun hne => absurd rfl hne⟩
    · have gb := nodeEq m hmc nd' g
      obtain ⟨nda, ga, hmd, hid2, hcls2, _⟩ := R.same m nd' gb
      rw [get?_setParent1_of_ne hmc] at ga
      exact ⟨nda, ga, hid2, hcls2, fun _ => hmd⟩
  · obtain ⟨pnt, gt, _, hall, _⟩ := set.2 p (f pna) gpb
    exact ⟨pnt, gt, hall ▸ hin pna⟩

theorem AddState.cNotScan {σ τ : Store} {p c : Nat} (A : AddState σ τ p c) (hc : FreeKid σ c) {x : Node}
    (g : τ.get? c = some x) : x.cls ≠ .scan := by
  obtain ⟨⟨cn, gc, hcs⟩, _⟩ := hc
  obtain ⟨x₀, g₀, _, hcls, _⟩ := A.same c x g
  rw [gc] at g₀; cases g₀
  rw [hcls]; exact hcs

/-- `set_scan_id(child, v)` at the end of `add_child`, `v` being the id of the scan above the container -/
theorem inv_scanTail {σ τ σ' : Store} {p c : Nat} {pn : Node} {v : MVal} {fuel : Nat} (h : Inv σ) (hc : FreeKid σ c)
    (A : AddState σ τ p c) (gp : σ.get? p = some pn)
    (hv : ∀ s sn, σ.get? s = some sn → sn.cls = .scan → Below σ p s → v = sn.id)
    (hvp : pn.cls = .scan → v = pn.id)
    (hs : setScanId fuel τ c v = .ok σ') : Inv σ' := by
  have spec := setScanId_spec _ _ _ _ _ hs
  obtain ⟨pn', gp', hcp'⟩ := A.listed
  have h0 : InvEx τ (fun _ => True) (fun _ => True) :=
    ⟨A.linked, A.shape, fun n nd hX _ => absurd trivial hX, fun s sn n nn hX => absurd trivial hX⟩
  refine invEx_setScanId (X' := fun _ => False) spec h0 ?_ ?_ ?_
  · intro q qn d gq hd hb
    refine ⟨(A.typed q qn gq).1, fun hqs => ?_⟩
    cases hb with
    | refl _ =>
      have : q = p := A.shape.uniq q p qn pn' _ gq gp' (mem_allKids_of_mem_kids hd) hcp'
      subst this
      obtain ⟨pn₀, g₀, hid, hcls, _⟩ := A.same q qn gq
      rw [gp] at g₀; cases g₀
      rw [hid]
      exact hvp (hcls ▸ hqs)
    | step hbk hk hm =>
      have := A.shape.uniq _ _ _ _ _ hk gq hm (mem_allKids_of_mem_kids hd)
      subst this
      have := Below.scan_top A.shape gq hqs hbk
      subst this
      exact absurd hqs (A.cNotScan hc gq)
  · intro n nd _ _ g
    exact A.typed n nd g
  · intro s sn n nn _ gs hss hb gn
    obtain ⟨sn₀, gs₀, sid, scls, _⟩ := A.same s sn gs
    constructor
    · intro hbc
      have hcs := Below.chain_scan A.shape gs hss hbc hb
      have hps : Below τ p s := by
        cases hcs with
        | refl _ => exact absurd hss (A.cNotScan hc gs)
        | step hbk hk hm =>
          have := A.shape.uniq _ _ _ _ _ hk gp' hm hcp'
          subst this
          exact hbk
      have hps₀ : Below σ p s := by
        rcases A.below p s hps with h' | ⟨_, h'⟩
        · exact h'
        · exact h'
      rw [sid]
      exact hv s sn₀ gs₀ (scls ▸ hss) hps₀
    · intro hbc
      have hnc : n ≠ c := fun e => hbc (e ▸ .refl _)
      obtain ⟨nn₀, gn₀, _, _, nmd⟩ := A.same n nn gn
      rw [nmd hnc, sid]
      rcases A.below n s hb with h' | ⟨h', _⟩
      · exact h.scan s sn₀ n nn₀ (fun f => f) gs₀ (scls ▸ hss) h' gn₀
      · exact absurd (A.mono n c h') hbc

/-- `add_child` on a container that no scan is above: nothing to propagate -/
theorem inv_noScanTail {σ τ : Store} {p c : Nat} (h : Inv σ) (hc : FreeKid σ c) (A : AddState σ τ p c)
    (hnone : ∀ s sn, σ.get? s = some sn → sn.cls = .scan → ¬ Below σ p s) : Inv τ := by
  refine ⟨A.linked, A.shape, fun n nd _ g => A.typed n nd g, ?_⟩
  intro s sn n nn _ gs hss hb gn
  obtain ⟨sn₀, gs₀, sid, scls, _⟩ := A.same s sn gs
  obtain ⟨nn₀, gn₀, _, _, nmd⟩ := A.same n nn gn
  rcases A.below n s hb with h' | ⟨_, h'⟩
  · have hnc : n ≠ c := by
      intro e
      subst e
      have := Below.eq_of_free hc.2 h'
      subst this
      obtain ⟨⟨cn, gc, hcs⟩, _⟩ := hc
      rw [gc] at gs₀; cases gs₀
      exact hcs (scls ▸ hss)
    rw [nmd hnc, sid]
    exact h.scan s sn₀ n nn₀ (fun f => f) gs₀ (scls ▸ hss) h' gn₀
  · exact absurd h' (hnone s sn₀ gs₀ (scls ▸ hss))

theorem inv_tick {σ : Store} (t : Nat) (h : Inv σ) : Inv { σ with tick := t } :=
  inv_congr (σ := σ) (σ' := { σ with tick := t }) (fun _ => rfl) rfl h

theorem inv_deriveCoords {σ : Store} (p : Nat) (docs : List Nat) (h : Inv σ) : Inv (deriveCoords σ p docs).1 := by
  unfold deriveCoords
  split
  · exact h
  · refine inv_tick _ (inv_upd_local (fun _ => ⟨rfl, rfl, rfl, rfl, rfl, rfl, rfl⟩) (fun nd _ ht => ht) h)

/-- the tail shared by `PageXMLTextRegion.add_child` and `PageXMLPage.add_child` -/
theorem inv_finishAdd {σ τ σ' : Store} {o : Out} {p c : Nat} {pn : Node} {docsOf : Node → List Nat} (h : Inv σ)
    (hc : FreeKid σ c) (A : AddState σ τ p c) (gp : σ.get? p = some pn) (hps : pn.cls ≠ .scan)
    (hf : finishAdd τ p c docsOf = .ok (σ', o)) : Inv σ' := by
  unfold finishAdd at hf
  obtain ⟨pn', gp', _⟩ := A.listed
  -- no scan is above `p` when `p` is the child itself
  have hpc : ∀ s sn, σ.get? s = some sn → sn.cls = .scan → Below σ p s → p ≠ c := by
    intro s sn gs hss hb e
    subst e
    have := Below.eq_of_free hc.2 hb
    subst this
    obtain ⟨⟨cn, gc, hcs⟩, _⟩ := hc
    rw [gc] at gs; cases gs
    exact hcs hss
  have hmd : ∀ s sn, σ.get? s = some sn → sn.cls = .scan → Below σ p s → mget pn'.md "scan_id" = some sn.id := by
    intro s sn gs hss hb
    obtain ⟨pn₀, g₀, _, _, pmd⟩ := A.same p pn' gp'
    rw [gp] at g₀; cases g₀
    rw [pmd (hpc s sn gs hss hb)]
    exact h.scan s sn p pn (fun f => f) gs hss hb gp
  have mid : ∀ τ₁, propagateScanId τ p c = .ok τ₁ → Inv τ₁ := by
    intro τ₁ hp
    unfold propagateScanId at hp
    rw [gp'] at hp
    simp only [] at hp
    cases hm : mget pn'.md "scan_id" with
    | none =>
      rw [hm] at hp
      simp only [Except.ok.injEq] at hp
      subst hp
      refine inv_noScanTail h hc A (fun s sn gs hss hb => ?_)
      have := hmd s sn gs hss hb
      rw [hm] at this
      cases this
    | some v =>
      rw [hm] at hp
      simp only [] at hp
      refine inv_scanTail h hc A gp (fun s sn gs hss hb => ?_) (fun hh => absurd hh hps) hp
      have := hmd s sn gs hss hb
      rw [hm] at this
      cases this
      rfl
  cases hp : propagateScanId τ p c with
  | error e => rw [hp] at hf; cases hf
  | ok τ₁ =>
    rw [hp] at hf
    simp only [bind, Except.bind] at hf
    cases hg : τ₁.get? p with
    | none => rw [hg] at hf; cases hf
    | some pn₁ =>
      rw [hg] at hf
      simp only [pure, Except.pure, Except.ok.injEq] at hf
      have := inv_deriveCoords p (docsOf pn₁) (mid τ₁ hp)
      rw [hf] at this
      exact this

theorem FreeKid.transfer {σ σ' : Store} (se : ShapeEq σ σ') {c : Nat} (h : FreeKid σ c) : FreeKid σ' c := by
  obtain ⟨⟨cn, gc, hcs⟩, hfree⟩ := h
  obtain ⟨cn', gc', hcls, _⟩ := se.2 c cn gc
  refine ⟨⟨cn', gc', hcls ▸ hcs⟩, fun q qn' gq hq => ?_⟩
  obtain ⟨qn, g, _, hall, _⟩ := se.back gq
  exact hfree q qn g (hall ▸ hq)

/-- `set_scan_id` on an element that nobody lists -/
theorem inv_setScanId_free {σ σ' : Store} {c : Nat} {v : MVal} {fuel : Nat} (h : Inv σ) (hc : FreeKid σ c)
    (hs : setScanId fuel σ c v = .ok σ') : Inv σ' := by
  have spec := setScanId_spec _ _ _ _ _ hs
  obtain ⟨⟨cn, gc, hcs⟩, hfree⟩ := hc
  refine invEx_setScanId (X' := fun _ => False) spec h ?_ ?_ ?_
  · intro q qn d gq hd hb
    refine ⟨(h.typed q qn (fun f => f) gq).1, fun hqs => ?_⟩
    cases hb with
    | refl _ => exact absurd (mem_allKids_of_mem_kids hd) (hfree q qn gq)
    | step hbk hk hm =>
      have := h.shape.uniq _ _ _ _ _ hk gq hm (mem_allKids_of_mem_kids hd)
      subst this
      have := Below.scan_top h.shape gq hqs hbk
      subst this
      rw [gc] at gq; cases gq
      exact absurd hqs hcs
  · intro n nd _ hX _
    exact absurd hX (fun f => f)
  · intro s sn n nn _ gs hss hb gn
    refine ⟨fun hbc => absurd hb (Below.disjoint_free_scan h.shape hfree gc hcs gs hss hbc), fun _ => ?_⟩
    exact h.scan s sn n nn (fun f => f) gs hss hb gn

theorem inv_addChildRegion {σ σ' : Store} {o : Out} {p c : Nat} {pn : Node} (cc : Cls) (h : Inv σ)
    (gp : σ.get? p = some pn) (hcls : pn.cls = .region ∨ pn.cls = .column) (hc : FreeKid σ c)
    (hs : addChildRegion σ p c cc = .ok (σ', o)) : Inv σ' := by
  have htr : pn.truthy = true := by rcases hcls with e | e <;> simp [Node.truthy, e]
  have hps : pn.cls ≠ .scan := by rcases hcls with e | e <;> simp [e]
  unfold addChildRegion at hs
  simp only [] at hs
  split at hs
  · have A := (addState (f := fun nd => { nd with lines := nd.lines ++ [c] }) [] h gp htr hc
      (fun nd => relists_lines nd c) (fun nd => by simp [Node.allKids])
      (fun nd x hx => by simp only [Node.allKids, List.mem_append] at hx ⊢; grind) (fun x hx => by cases hx)).1
    exact inv_finishAdd h hc A gp hps hs
  · split at hs
    · have A := (addState (f := fun nd => { nd with regions := nd.regions ++ [c] }) [c] h gp htr hc
        (fun nd => relists_regions nd c) (fun nd => by simp [Node.allKids])
        (fun nd x hx => by simp only [Node.allKids, List.mem_append] at hx ⊢; grind)
        (fun x hx => by simpa using hx)).1
      exact inv_finishAdd h hc A gp hps hs
    · simp only [Except.ok.injEq, Prod.mk.injEq] at hs
      rw [← hs.1]
      exact inv_setParent1 h (get?_lt gp) (hc.attachable p)

theorem inv_addChildPage {σ σ' : Store} {o : Out} {p c : Nat} {pn : Node} (cc : Cls) (asExtra : Bool) (h : Inv σ)
    (gp : σ.get? p = some pn) (hcls : pn.cls = .page) (hc : FreeKid σ c)
    (hs : addChildPage σ p c cc asExtra = .ok (σ', o)) : Inv σ' := by
  have htr : pn.truthy = true := by simp [Node.truthy, hcls]
  have hps : pn.cls ≠ .scan := by simp [hcls]
  unfold addChildPage at hs
  simp only [] at hs
  split at hs
  · have A := (addState (f := fun nd => { nd with extra := nd.extra ++ [c] }) [] h gp htr hc
      (fun nd => relists_extra nd c) (fun nd => by simp [Node.allKids])
      (fun nd x hx => by simp only [Node.allKids, List.mem_append] at hx ⊢; grind) (fun x hx => by cases hx)).1
    exact inv_finishAdd h hc A gp hps hs
  · split at hs
    · have A := (addState (f := fun nd => { nd with columns := nd.columns ++ [c] }) [] h gp htr hc
        (fun nd => relists_columns nd c) (fun nd => by simp [Node.allKids])
        (fun nd x hx => by simp only [Node.allKids, List.mem_append] at hx ⊢; grind) (fun x hx => by cases hx)).1
      exact inv_finishAdd h hc A gp hps hs
    · split at hs
      · have A := (addState (f := fun nd => { nd with lines := nd.lines ++ [c] }) [] h gp htr hc
          (fun nd => relists_lines nd c) (fun nd => by simp [Node.allKids])
          (fun nd x hx => by simp only [Node.allKids, List.mem_append] at hx ⊢; grind) (fun x hx => by cases hx)).1
        exact inv_finishAdd h hc A gp hps hs
      · split at hs
        · have A := (addState (f := fun nd => { nd with regions := nd.regions ++ [c] }) [] h gp htr hc
            (fun nd => relists_regions nd c) (fun nd => by simp [Node.allKids])
            (fun nd x hx => by simp only [Node.allKids, List.mem_append] at hx ⊢; grind) (fun x hx => by cases hx)).1
          exact inv_finishAdd h hc A gp hps hs
        · simp only [Except.ok.injEq, Prod.mk.injEq] at hs
          rw [← hs.1]
          exact inv_setParent1 h (get?_lt gp) (hc.attachable p)

/-- `PageXMLScan.add_child`: the listed cases -/
theorem inv_addChildScan_listed {σ τ σ' : Store} {p c : Nat} {pn : Node} (h : Inv σ) (gp : σ.get? p = some pn)
    (hcls : pn.cls = .scan) (hc : FreeKid σ c) (A : AddState σ τ p c)
    (hs : (match τ.get? p with
      | none => (.error .KeyError : Res (Store × Out))
      | some pn' => do
        let σ₂ ← setScanId (τ.size + 1) τ c pn'.id
        return (σ₂, .unit)) = .ok (σ', Out.unit)) : Inv σ' := by
  obtain ⟨pn', gp', _⟩ := A.listed
  rw [gp'] at hs
  simp only [] at hs
  cases hsc : setScanId (τ.size + 1) τ c pn'.id with
  | error e => rw [hsc] at hs; cases hs
  | ok σ₂ =>
    rw [hsc] at hs
    simp only [bind, Except.bind, pure, Except.pure, Except.ok.injEq, Prod.mk.injEq, and_true] at hs
    subst hs
    obtain ⟨pn₀, g₀, hid, _⟩ := A.same p pn' gp'
    rw [gp] at g₀; cases g₀
    refine inv_scanTail h hc A gp (fun s sn gs hss hb => ?_) (fun _ => hid) hsc
    have := Below.scan_top h.shape gp hcls hb
    subst this
    rw [gp] at gs; cases gs
    exact hid

theorem out_unit_of_addChildScan {σ σ' : Store} {o : Out} {p c : Nat} {cc : Cls}
    (hs : addChildScan σ p c cc = .ok (σ', o)) : o = .unit := by
  unfold addChildScan at hs
  simp only [] at hs
  split at hs
  · cases hs
  · rename_i pn hg
    cases hsc : setScanId _ _ c pn.id with
    | error e => rw [hsc] at hs; cases hs
    | ok σ₂ =>
      rw [hsc] at hs
      simp only [bind, Except.bind, pure, Except.pure, Except.ok.injEq, Prod.mk.injEq] at hs
      exact hs.2.symm

theorem inv_addChildScan {σ σ' : Store} {o : Out} {p c : Nat} {pn : Node} (cc : Cls) (h : Inv σ)
    (gp : σ.get? p = some pn) (hcls : pn.cls = .scan) (hc : FreeKid σ c)
    (hs : addChildScan σ p c cc = .ok (σ', o)) : Inv σ' := by
  have ho := out_unit_of_addChildScan hs
  subst ho
  have htr : pn.truthy = true := by simp [Node.truthy, hcls]
  unfold addChildScan at hs
  simp only [] at hs
  by_cases h1 : cc = .page
  · rw [if_pos h1] at hs
    have A := (addState (f := fun nd => { nd with pages := nd.pages ++ [c] }) [] h gp htr hc
      (fun nd => relists_pages nd c) (fun nd => by simp [Node.allKids])
      (fun nd x hx => by simp only [Node.allKids, List.mem_append] at hx ⊢; grind) (fun x hx => by cases hx)).1
    exact inv_addChildScan_listed h gp hcls hc A hs
  · rw [if_neg h1] at hs
    by_cases h2 : cc = .column
    · rw [if_pos h2] at hs
      have A := (addState (f := fun nd => { nd with columns := nd.columns ++ [c] }) [] h gp htr hc
        (fun nd => relists_columns nd c) (fun nd => by simp [Node.allKids])
        (fun nd x hx => by simp only [Node.allKids, List.mem_append] at hx ⊢; grind) (fun x hx => by cases hx)).1
      exact inv_addChildScan_listed h gp hcls hc A hs
    · rw [if_neg h2] at hs
      by_cases h3 : cc.isRegion = true
      · rw [if_pos h3] at hs
        have A := (addState (f := fun nd => { nd with regions := nd.regions ++ [c] }) [] h gp htr hc
          (fun nd => relists_regions nd c) (fun nd => by simp [Node.allKids])
          (fun nd x hx => by simp only [Node.allKids, List.mem_append] at hx ⊢; grind) (fun x hx => by cases hx)).1
        exact inv_addChildScan_listed h gp hcls hc A hs
      · rw [if_neg h3] at hs
        by_cases h4 : cc = .line
        · rw [if_pos h4] at hs
          have A := (addState (f := fun nd => { nd with lines := nd.lines ++ [c] }) [] h gp htr hc
            (fun nd => relists_lines nd c) (fun nd => by simp [Node.allKids])
            (fun nd x hx => by simp only [Node.allKids, List.mem_append] at hx ⊢; grind) (fun x hx => by cases hx)).1
          exact inv_addChildScan_listed h gp hcls hc A hs
        · rw [if_neg h4] at hs
          have inva := inv_setParent1 h (get?_lt gp) (hc.attachable p)
          have sea := shapeEq_setParent1 σ c p
          cases hg : (setParent1 σ c p).get? p with
          | none => rw [hg] at hs; cases hs
          | some pn' =>
            rw [hg] at hs
            simp only [] at hs
            cases hsc : setScanId ((setParent1 σ c p).size + 1) (setParent1 σ c p) c pn'.id with
            | error e => rw [hsc] at hs; cases hs
            | ok σ₂ =>
              rw [hsc] at hs
              simp only [bind, Except.bind, pure, Except.pure, Except.ok.injEq, Prod.mk.injEq, and_true] at hs
              subst hs
              exact inv_setScanId_free inva (hc.transfer sea) hsc

/-! ### set_parentage -/

theorem inv_setAsParent_listed {σ : Store} {p : Nat} {pn : Node} (cs : List Nat) (h : Inv σ)
    (gp : σ.get? p = some pn) (hcs : ∀ c ∈ cs, c ∈ pn.allKids) :
    Inv (setAsParent σ p cs) ∧ ShapeEq σ (setAsParent σ p cs) :=
  inv_setAsParent cs h (get?_lt gp) (fun c hc => attachable_of_listed h gp (hcs c hc))

theorem inv_setParentage : ∀ (f : Nat) (σ σ' : Store) (p : Nat), Inv σ → setParentage f σ p = .ok σ' →
    Inv σ' ∧ ShapeEq σ σ' := by
  intro f
  induction f with
  | zero => intro σ σ' p _ h; simp [setParentage] at h
  | succ f ih =>
    intro σ σ' p hI h
    have fold : ∀ (L : List Nat) (τ τ' : Store), Inv τ → L.foldlM (fun s c => setParentage f s c) τ = .ok τ' →
        Inv τ' ∧ ShapeEq τ τ' := by
      intro L
      induction L with
      | nil =>
        intro τ τ' hτ hf
        simp only [List.foldlM_nil, pure, Except.pure, Except.ok.injEq] at hf
        subst hf
        exact ⟨hτ, ShapeEq.rfl' _⟩
      | cons c L ihL =>
        intro τ τ' hτ hf
        obtain ⟨τ₁, h₁, h₂⟩ := foldlM_ok_cons hf
        obtain ⟨i₁, s₁⟩ := ih τ τ₁ c hτ h₁
        obtain ⟨i₂, s₂⟩ := ihL τ₁ τ' i₁ h₂
        exact ⟨i₂, s₁.trans s₂⟩
    -- one round: re-link a child list of `p`, then recurse into it
    have round : ∀ (L : List Nat) (τ τ' : Store), Inv τ → ShapeEq σ τ → (∀ nd, σ.get? p = some nd → ∀ c ∈ L, c ∈ nd.allKids) →
        L.foldlM (fun s c => setParentage f s c) (setAsParent τ p L) = .ok τ' → Inv τ' ∧ ShapeEq σ τ' := by
      intro L τ τ' hτ se hL hf
      cases hp : σ.get? p with
      | none =>
        -- `p` does not exist: set_as_parent changes nothing
        have hp' : τ.get? p = none := by
          cases hq : τ.get? p with
          | none => rfl
          | some x => obtain ⟨y, gy, _⟩ := se.back hq; rw [hp] at gy; cases gy
        have e : setAsParent τ p L = τ := by
          clear hf hL
          induction L with
          | nil => rfl
          | cons c L ihc =>
            have : setAsParent τ p (c :: L) = setAsParent (setParent1 τ c p) p L := rfl
            rw [this, setParent1_none hp', ihc]
        rw [e] at hf
        obtain ⟨i, s⟩ := fold L τ τ' hτ hf
        exact ⟨i, se.trans s⟩
      | some nd =>
        obtain ⟨nd', g', _, hall, _⟩ := se.2 p nd hp
        obtain ⟨i₁, s₁⟩ := inv_setAsParent_listed L hτ g' (fun c hc => hall ▸ hL nd hp c hc)
        obtain ⟨i₂, s₂⟩ := fold L _ τ' i₁ hf
        exact ⟨i₂, (se.trans s₁).trans s₂⟩
    simp only [setParentage] at h
    cases hp : σ.get? p with
    | none => rw [hp] at h; cases h
    | some nd =>
      rw [hp] at h
      simp only [] at h
      have mem : ∀ {L : List Nat}, (∀ c ∈ L, c ∈ nd.allKids) → ∀ nd', σ.get? p = some nd' → ∀ c ∈ L, c ∈ nd'.allKids := by
        intro L hL nd' g c hc
        rw [hp] at g; cases g
        exact hL c hc
      cases h1 : nd.pages.foldlM (fun s c => setParentage f s c) (setAsParent σ p nd.pages) with
      | error e => rw [h1] at h; cases h
      | ok σ₁ =>
        rw [h1] at h
        simp only [bind, Except.bind] at h
        obtain ⟨i₁, s₁⟩ := round nd.pages σ σ₁ hI (ShapeEq.rfl' _)
          (mem (fun c hc => by simp only [Node.allKids, List.mem_append]; grind)) h1
        cases h2 : nd.columns.foldlM (fun s c => setParentage f s c) (setAsParent σ₁ p nd.columns) with
        | error e => rw [h2] at h; cases h
        | ok σ₂ =>
          rw [h2] at h
          simp only [] at h
          obtain ⟨i₂, s₂⟩ := round nd.columns σ₁ σ₂ i₁ s₁
            (mem (fun c hc => by simp only [Node.allKids, List.mem_append]; grind)) h2
          cases h3 : nd.regions.foldlM (fun s c => setParentage f s c) (setAsParent σ₂ p nd.regions) with
          | error e => rw [h3] at h; cases h
          | ok σ₃ =>
            rw [h3] at h
            simp only [] at h
            obtain ⟨i₃, s₃⟩ := round nd.regions σ₂ σ₃ i₂ s₂
              (mem (fun c hc => by simp only [Node.allKids, List.mem_append]; grind)) h3
            cases h4 : nd.lines.foldlM (fun s c => setParentage f s c) (setAsParent σ₃ p nd.lines) with
            | error e => rw [h4] at h; cases h
            | ok σ₄ =>
              rw [h4] at h
              simp only [] at h
              obtain ⟨i₄, s₄⟩ := round nd.lines σ₃ σ₄ i₃ s₃
                (mem (fun c hc => by simp only [Node.allKids, List.mem_append]; grind)) h4
              exact round nd.words σ₄ σ' i₄ s₄
                (mem (fun c hc => by simp only [Node.allKids, List.mem_append]; grind)) h

end Pagexml.C02
