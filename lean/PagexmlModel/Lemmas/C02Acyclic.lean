/-
C02: disciplined histories keep the structure acyclic; in an acyclic closed structure no chain
of child links is longer than the number of objects, so the recursions of `set_scan_id` and
`set_parentage` stay within the fuel `size + 1`.
-/
import PagexmlModel.Lemmas.C02Edges

set_option linter.unusedSimpArgs false
set_option linter.unusedVariables false

namespace Pagexml.C02

theorem mem_kidsOf {σ : Store} {k m : Nat} : m ∈ σ.kidsOf k ↔ ∃ kn, σ.get? k = some kn ∧ m ∈ kn.allKids := by
  unfold Store.kidsOf
  cases σ.get? k with
  | none => simp
  | some kn => simp

theorem Below.step' {σ : Store} {m k r : Nat} (h : Below σ k r) (hm : m ∈ σ.kidsOf k) : Below σ m r := by
  obtain ⟨kn, g, hk⟩ := mem_kidsOf.mp hm
  exact .step h g hk

/-- `m` is strictly below `r` -/
def SBelow (σ : Store) (m r : Nat) : Prop := ∃ k, Below σ k r ∧ m ∈ σ.kidsOf k

theorem SBelow.below {σ : Store} {m r : Nat} (h : SBelow σ m r) : Below σ m r := by
  obtain ⟨k, hb, hm⟩ := h
  exact hb.step' hm

/-- no element sits strictly below itself -/
def Acyclic (σ : Store) : Prop := ∀ n, ¬ SBelow σ n n

/-- every listed id names an object -/
def Closed (σ : Store) : Prop := ∀ k m, m ∈ σ.kidsOf k → m < σ.size

theorem Shape.closed' {σ : Store} (sh : Shape σ) : Closed σ := by
  intro k m hm
  obtain ⟨kn, g, hk⟩ := mem_kidsOf.mp hm
  exact sh.closed k kn m g hk

theorem acyclic_empty : Acyclic Store.empty := by
  intro n ⟨k, _, hm⟩
  simp [Store.kidsOf, Store.empty, Store.get?] at hm

/-! ### adding edges out of one node -/

theorem below_of_adds {σ σ' : Store} {p : Nat} {cs : List Nat} (a : Adds σ σ' p cs)
    (hno : ∀ c ∈ cs, ¬ Below σ p c) {m r : Nat} (h : Below σ' m r) :
    Below σ m r ∨ ∃ c ∈ cs, Below σ p r ∧ Below σ m c := by
  induction h with
  | refl _ => exact Or.inl (.refl _)
  | @step m k r kn hb hk hm ih =>
    have hm' : m ∈ σ'.kidsOf k := mem_kidsOf.mpr ⟨kn, hk, hm⟩
    rcases a.edge k m hm' with hold | ⟨rfl, hnew⟩
    · rcases ih with h1 | ⟨c, hc, h1, h2⟩
      · exact Or.inl (h1.step' hold)
      · exact Or.inr ⟨c, hc, h1, h2.step' hold⟩
    · rcases ih with h1 | ⟨c, hc, _, h2⟩
      · exact Or.inr ⟨m, hnew, h1, .refl m⟩
      · exact absurd h2 (hno c hc)

/-- new child-list entries out of one node `p`, none of them leading to something `p` is below:
    no cycle arises -/
theorem acyclic_adds {σ σ' : Store} {p : Nat} {cs : List Nat} (a : Adds σ σ' p cs)
    (hno : ∀ c ∈ cs, ¬ Below σ p c) (hac : Acyclic σ) : Acyclic σ' := by
  intro n ⟨k, hb, hn⟩
  rcases a.edge k n hn with hold | ⟨rfl, hnew⟩
  · rcases below_of_adds a hno hb with h1 | ⟨c, hc, h1, h2⟩
    · exact hac n ⟨k, h1, hold⟩
    · have : Below σ n c := h2.step' hold
      exact hno c hc (h1.trans this)
  · rcases below_of_adds a hno hb with h1 | ⟨c, hc, h1, h2⟩
    · exact hno n hnew h1
    · exact hno n hnew h1

theorem closed_adds {σ σ' : Store} {p : Nat} {cs : List Nat} (a : Adds σ σ' p cs) (hcl : Closed σ)
    (hcs : ∀ c ∈ cs, c < σ.size) : Closed σ' := by
  intro k m hm
  rcases a.edge k m hm with hold | ⟨_, hnew⟩
  · exact Nat.lt_of_lt_of_le (hcl k m hold) a.size_le
  · exact Nat.lt_of_lt_of_le (hcs m hnew) a.size_le

theorem KidsEq.below {σ σ' : Store} (e : KidsEq σ σ') {m r : Nat} (h : Below σ m r) : Below σ' m r := by
  induction h with
  | refl _ => exact .refl _
  | step hb hk hm ih => exact ih.step' ((e.2 _).1 ▸ mem_kidsOf.mpr ⟨_, hk, hm⟩)

theorem KidsEq.acyclic {σ σ' : Store} (e : KidsEq σ σ') (h : Acyclic σ) : Acyclic σ' :=
  acyclic_adds (e.adds 0 []) (fun _ hc => by cases hc) h

theorem KidsEq.closed {σ σ' : Store} (e : KidsEq σ σ') (h : Closed σ) : Closed σ' :=
  closed_adds (e.adds 0 []) h (fun _ hc => by cases hc)

/-- an id that names no object yet is below nothing -/
theorem not_below_fresh {σ : Store} (hcl : Closed σ) {c : Nat} (hc : c < σ.size) : ¬ Below σ σ.size c := by
  intro h
  cases h with
  | refl _ => omega
  | step _ hk hm => exact absurd (hcl _ _ (mem_kidsOf.mpr ⟨_, hk, hm⟩)) (by omega)

/-! ### chains are no longer than the number of objects -/

theorem nodup_bound : ∀ (N : Nat) (l : List Nat), l.Nodup → (∀ x ∈ l, x < N) → l.length ≤ N := by
  intro N
  induction N with
  | zero =>
    intro l _ h
    cases l with
    | nil => simp
    | cons a l => exact absurd (h a (by simp)) (by omega)
  | succ N ih =>
    intro l hn hl
    have h1 := ih (l.erase N) (hn.erase N) (fun x hx => by
      have := (hn.mem_erase_iff).mp hx
      have := hl x this.2
      omega)
    by_cases hm : N ∈ l
    · rw [List.length_erase_of_mem hm] at h1; omega
    · rw [List.erase_of_not_mem hm] at h1; omega

theorem height_aux {σ : Store} (hcl : Closed σ) (hac : Acyclic σ) :
    ∀ (k : Nat) (anc : List Nat), anc.Nodup → (∀ a ∈ anc, a < σ.size) → anc.length + k = σ.size →
      ∀ n, n < σ.size → (∀ a ∈ anc, SBelow σ n a) → Height σ n k := by
  intro k
  induction k with
  | zero =>
    intro anc hnd hlt hlen n hn hb
    have hnot : n ∉ anc := fun hm => hac n (hb n hm)
    have := nodup_bound σ.size (n :: anc) (List.nodup_cons.mpr ⟨hnot, hnd⟩) (by
      intro x hx
      rcases List.mem_cons.mp hx with rfl | hx
      · exact hn
      · exact hlt x hx)
    simp at this
    omega
  | succ k ih =>
    intro anc hnd hlt hlen n hn hb
    have hnot : n ∉ anc := fun hm => hac n (hb n hm)
    obtain ⟨nd, g⟩ := get?_of_lt hn
    refine .mk g (fun c hc => ?_)
    have hck : c ∈ σ.kidsOf n := mem_kidsOf.mpr ⟨nd, g, hc⟩
    refine ih (n :: anc) (List.nodup_cons.mpr ⟨hnot, hnd⟩) ?_ (by simp; omega) c (hcl n c hck) ?_
    · intro x hx
      rcases List.mem_cons.mp hx with rfl | hx
      · exact hn
      · exact hlt x hx
    · intro a ha
      rcases List.mem_cons.mp ha with rfl | ha
      · exact ⟨a, .refl a, hck⟩
      · exact ⟨n, (hb a ha).below, hck⟩

/-- in an acyclic closed store every chain of child links has at most `size` nodes -/
theorem height_of_acyclic {σ : Store} (hcl : Closed σ) (hac : Acyclic σ) (n : Nat) (hn : n < σ.size) :
    Height σ n σ.size :=
  height_aux hcl hac σ.size [] List.nodup_nil (by simp) (by simp) n hn (by simp)

/-! ### the decision procedure behind `Pre` -/

theorem mem_foldl_addNew (l acc : List Nat) (x : Nat) : x ∈ l.foldl addNew acc ↔ x ∈ acc ∨ x ∈ l := by
  induction l generalizing acc with
  | nil => simp
  | cons a l ih =>
    simp only [List.foldl_cons, ih, List.mem_cons]
    unfold addNew
    split
    · constructor
      · rintro (h | h)
        · exact Or.inl h
        · exact Or.inr (Or.inr h)
      · rintro (h | rfl | h)
        · exact Or.inl h
        · exact Or.inl (by assumption)
        · exact Or.inr h
    · simp only [List.mem_append, List.mem_singleton]
      constructor
      · rintro ((h | rfl) | h)
        · exact Or.inl h
        · exact Or.inr (Or.inl rfl)
        · exact Or.inr (Or.inr h)
      · rintro (h | rfl | h)
        · exact Or.inl (Or.inl h)
        · exact Or.inl (Or.inr rfl)
        · exact Or.inr h

theorem mem_grow {σ : Store} {s : List Nat} {m : Nat} : m ∈ σ.grow s ↔ m ∈ s ∨ ∃ x ∈ s, m ∈ σ.kidsOf x := by
  unfold Store.grow
  rw [mem_foldl_addNew, List.mem_flatMap]

theorem subset_closure {σ : Store} : ∀ (f : Nat) (s : List Nat) (x : Nat), x ∈ s → x ∈ σ.closure f s := by
  intro f
  induction f with
  | zero => intro s x h; exact h
  | succ f ih => intro s x h; exact ih _ x (mem_grow.mpr (Or.inl h))

/-- everything below a member of `s` within the depth the fuel allows is found -/
theorem mem_closure_of_below {σ : Store} : ∀ (d : Nat) (n : Nat), Height σ n d → ∀ (m : Nat), Below σ m n →
    ∀ (f : Nat) (s : List Nat), n ∈ s → d ≤ f + 1 → m ∈ σ.closure f s := by
  intro d
  induction d with
  | zero => intro n h; cases h
  | succ d ih =>
    intro n h m hb f s hs hd
    cases h with
    | @mk _ _ nd g hk =>
      rcases hb.cases_head with rfl | ⟨rn, k, gr, hkr, hbk⟩
      · exact subset_closure f s m hs
      · rw [g] at gr; cases gr
        cases f with
        | zero =>
          have : d = 0 := by omega
          subst this
          exact absurd (hk k hkr) (fun h => by cases h)
        | succ f =>
          exact ih k (hk k hkr) m hbk f (σ.grow s)
            (mem_grow.mpr (Or.inr ⟨n, hs, mem_kidsOf.mpr ⟨nd, g, hkr⟩⟩)) (by omega)

/-- `reaches` finds every element at or below `c` (on an acyclic closed store) -/
theorem reaches_of_below {σ : Store} (hcl : Closed σ) (hac : Acyclic σ) {c p : Nat} (hc : c < σ.size)
    (h : Below σ p c) : σ.reaches c p = true := by
  unfold Store.reaches
  simp only [List.contains_eq_mem, decide_eq_true_eq]
  exact mem_closure_of_below σ.size c (height_of_acyclic hcl hac c hc) p h σ.size [c] (by simp) (by omega)

/-! ### one step of a disciplined history keeps the structure acyclic -/

theorem newKids_sub_refs (op : Op) : ∀ c ∈ op.newKids, c ∈ op.refs := by
  intro c hc
  cases op <;> simp only [Op.newKids, Op.refs] at hc ⊢ <;> first | exact hc | (cases hc)

/-- the new child-list entries of a step never lead to something the written node is below -/
theorem step_no_back {σ : Store} {op : Op} (hinv : Inv σ) (hac : Acyclic σ) (hpre : Pre σ op = true) :
    ∀ c ∈ op.targets, ¬ Below σ (op.source σ) c := by
  have hcl := hinv.shape.closed'
  unfold Pre at hpre
  rw [Bool.and_eq_true] at hpre
  obtain ⟨hrefs, hpre⟩ := hpre
  have hr : ∀ x ∈ op.refs, x < σ.size := fun x hx => has_iff.mp (List.all_eq_true.mp hrefs x hx)
  have fresh : ∀ c ∈ op.newKids, ¬ Below σ σ.size c :=
    fun c hc => not_below_fresh hcl (hr c (newKids_sub_refs op c hc))
  cases op with
  | addChild p c asExtra =>
    simp only [Bool.and_eq_true, Bool.not_eq_true'] at hpre
    intro x hx hb
    simp only [Op.targets, List.mem_singleton] at hx
    subst hx
    have := reaches_of_below hcl hac (hr x (by simp [Op.refs])) hb
    change σ.reaches x p = true at this
    rw [hpre.2] at this; cases this
  | attachLines p cs =>
    simp only [Bool.and_eq_true] at hpre
    intro x hx hb
    have e := Below.eq_of_free (free_iff.mp hpre.1.1.1) hb
    have := List.all_eq_true.mp hpre.2 x hx
    simp [e] at this
  | attachRegions p cs =>
    simp only [Bool.and_eq_true] at hpre
    intro x hx hb
    have e := Below.eq_of_free (free_iff.mp hpre.1.1.1) hb
    have := List.all_eq_true.mp hpre.2 x hx
    simp [e] at this
  | attachRows p cs =>
    simp only [Bool.and_eq_true] at hpre
    intro x hx hb
    have e := Below.eq_of_free (free_iff.mp hpre.1.1.1) hb
    have := List.all_eq_true.mp hpre.2 x hx
    simp [e] at this
  | mkWord a => exact fresh
  | mkLine a ws => exact fresh
  | mkRegion col a ls rs ts => exact fresh
  | mkPage a ls rs ts cols ex => exact fresh
  | mkScan a ls rs ts cols pages => exact fresh
  | mkCell a ls => exact fresh
  | mkRow a cs => exact fresh
  | mkTable a rs => exact fresh
  | setParent c p => exact fresh
  | setAsParent p cs => exact fresh
  | setParentage p => exact fresh
  | addType n ts => exact fresh
  | removeType n ts => exact fresh
  | hasType n t => exact fresh
  | types n => exact fresh
  | setFilename n v => exact fresh

theorem targets_lt {σ : Store} {op : Op} (hpre : Pre σ op = true) : ∀ c ∈ op.targets, c < σ.size := by
  unfold Pre at hpre
  rw [Bool.and_eq_true] at hpre
  have hr : ∀ x ∈ op.refs, x < σ.size := fun x hx => has_iff.mp (List.all_eq_true.mp hpre.1 x hx)
  intro c hc
  apply hr
  cases op <;> simp only [Op.targets, Op.newKids, Op.refs] at hc ⊢ <;>
    first | (simp at hc; done) | exact hc | (simp only [List.mem_singleton] at hc; subst hc; simp; done) | (simp [hc]; done)

theorem step_acyclic {σ σ' : Store} {op : Op} {o : Out} (hinv : Inv σ) (hac : Acyclic σ) (hpre : Pre σ op = true)
    (h : step σ op = .ok (σ', o)) : Acyclic σ' :=
  acyclic_adds (step_adds hinv h) (step_no_back hinv hac hpre) hac

end Pagexml.C02
