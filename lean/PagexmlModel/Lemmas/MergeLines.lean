/-
`merge_lines`: the text loop as a pure fold over the non-empty texts.
-/
import PagexmlModel.Model.C16
import PagexmlModel.Lemmas.Words

namespace Pagexml.C16
open Pagexml.C17

/-- the texts that take part: `text is not None and text != ''` -/
def presentTexts (texts : List (Option Str)) : List Str :=
  texts.filterMap (fun t => match t with
    | some (a :: r) => some (a :: r)
    | _ => none)

/-- one step of the loop: the accumulated text loses its last character exactly when asked, when it is
    non-empty and ends with `word_break_char`, and the next text starts with a lower-case character -/
def mergeStep (cc : CharClass) (removeWordBreak : Bool) (wb : Str) (acc txt : Str) : Str :=
  (if removeWordBreak && decide (acc.length > 0) && wb.isSuffixOf acc && cc.isLower (txt.headD ' ')
   then acc.dropLast else acc) ++ txt

theorem mergeText_eq (cc : CharClass) (removeWordBreak : Bool) (wb : Str) (texts : List (Option Str)) (acc : Str) :
    mergeText cc removeWordBreak wb acc texts =
      .ok ((presentTexts texts).foldl (mergeStep cc removeWordBreak wb) acc) := by
  induction texts generalizing acc with
  | nil => rfl
  | cons t rest ih =>
    cases t with
    | none => simpa [mergeText, presentTexts] using ih acc
    | some txt =>
      cases txt with
      | nil => simpa [mergeText, presentTexts] using ih acc
      | cons a r =>
        have hp : presentTexts (some (a :: r) :: rest) = (a :: r) :: presentTexts rest := by
          simp [presentTexts]
        rw [hp, List.foldl_cons]
        unfold mergeText
        by_cases hc : (removeWordBreak && decide (acc.length > 0) && wb.isSuffixOf acc) = true
        · simp only [hc, if_true, pyHead_cons, bind, Except.bind, pure, Except.pure]
          rw [ih]
          simp [mergeStep, hc]
        · simp only [hc, pure, Except.pure, bind, Except.bind, Bool.false_eq_true, if_false]
          rw [ih]
          have hc' : (removeWordBreak && decide (acc.length > 0) && wb.isSuffixOf acc) = false := by
            cases h : (removeWordBreak && decide (acc.length > 0) && wb.isSuffixOf acc) with
            | false => rfl
            | true => exact absurd h hc
          simp [mergeStep, hc']

theorem foldl_mergeStep_false (cc : CharClass) (wb : Str) (ts : List Str) (acc : Str) :
    ts.foldl (mergeStep cc false wb) acc = acc ++ ts.flatten := by
  induction ts generalizing acc with
  | nil => simp
  | cons t ts ih => simp [List.foldl_cons, ih, mergeStep]

end Pagexml.C16
