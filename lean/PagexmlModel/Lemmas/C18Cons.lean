/-
C18 helper lemmas, part 4: handle_extra_lines / split_lines_on_column_gaps:
conservation and fuel.
-/
import PagexmlModel.Lemmas.C18Split

namespace Pagexml.C18

/-- `handle_extra_lines` written as nested matches (the do-block of the model, unfolded once) -/
theorem handleExtra_eq (recSplit : RegInfo → List Line → Res (List Col))
    (g : RegInfo) (cols : List Col) (extra : List Line) (mcw : Int) :
    handleExtra recSplit g cols extra mcw =
      match placeAll g extra cols [] with
      | .error e => .error e
      | .ok (cols1, nc) =>
        if nc.isEmpty then .ok cols1 else
        match hullBox nc with
        | .error _ => .error .ValueError
        | .ok eb =>
          match (if mcw > recGuard then recSplit (extraReg g eb) nc
                 else match hullBox nc with
                   | .ok b => .ok [⟨nc, b, .derived (extraReg g eb).id "column" b⟩]
                   | .error e => .error e) with
          | .error e => .error e
          | .ok ecs => .ok (cols1 ++ reId g ecs) := by
  unfold handleExtra
  cases hpa : placeAll g extra cols [] with
  | error e => simp [bind, Except.bind]
  | ok r =>
    obtain ⟨cols1, nc⟩ := r
    simp only [bind, Except.bind, pure, Except.pure]
    by_cases hne : nc.isEmpty
    · simp [hne]
    · simp only [hne]
      cases hh : hullBox nc with
      | error e => simp
      | ok eb =>
        simp only
        by_cases hm : mcw > recGuard
        · simp only [hm, if_true]
          cases recSplit (extraReg g eb) nc <;> simp
        · simp [hm]

theorem rooted_extraReg {g : RegInfo} {eb : Box} {p : PyId} (h : Rooted (extraReg g eb) p) :
    Rooted g p := by
  induction h with
  | region => exact Rooted.sub (rooted_base g)
  | parent hp =>
    simp only [extraReg] at hp
    split at hp
    · exact Rooted.parent hp
    · cases hp
  | sub _ ih => exact Rooted.sub ih

theorem reId_lines (g : RegInfo) (cs : List Col) :
    (reId g cs).flatMap Col.lines = cs.flatMap Col.lines := by
  unfold reId
  cases g.parent with
  | none => rfl
  | some p => simp [List.flatMap_def, List.map_map, Function.comp_def]

theorem reId_inv {g g' : RegInfo} (hroot : ∀ p, Rooted g' p → Rooted g p) {cs : List Col}
    (h : ∀ c ∈ cs, Inv g' c) : ∀ c ∈ reId g cs, Inv g c := by
  unfold reId
  cases hp : g.parent with
  | none =>
    intro c hc
    obtain ⟨h1, q, bx, h2, h3⟩ := h c hc
    exact ⟨h1, q, bx, h2, hroot q h3⟩
  | some p =>
    intro c hc
    simp only [List.mem_map] at hc
    obtain ⟨c0, hc0, rfl⟩ := hc
    exact ⟨(h c0 hc0).1, p, c0.box, rfl, Rooted.parent hp⟩

theorem handleExtra_good {recSplit : RegInfo → List Line → Res (List Col)}
    {g : RegInfo} {cols : List Col} {extra : List Line} {mcw : Int} {out : List Col}
    (hrec : ∀ eb ls' cs, (∀ l ∈ ls', l ∈ extra) → recSplit (extraReg g eb) ls' = .ok cs →
      Good (extraReg g eb) ls' cs)
    (hinv : ∀ c ∈ cols, Inv g c)
    (h : handleExtra recSplit g cols extra mcw = .ok out) :
    (out.flatMap Col.lines).Perm (cols.flatMap Col.lines ++ extra) ∧ ∀ c ∈ out, Inv g c := by
  rw [handleExtra_eq] at h
  cases hpa : placeAll g extra cols [] with
  | error e => simp [hpa] at h
  | ok r =>
    obtain ⟨cols1, nc⟩ := r
    obtain ⟨p1, i1, s1⟩ := placeAll_spec hpa hinv
    simp only [hpa] at h
    split at h
    · rename_i hne
      cases h
      have : nc = [] := by simpa using hne
      subst this
      exact ⟨by simpa using p1, i1⟩
    · cases hh : hullBox nc with
      | error e => simp [hh] at h
      | ok eb =>
        simp only [hh] at h
        have hsub : ∀ l ∈ nc, l ∈ extra := by
          intro l hl
          rcases s1 l hl with h' | h'
          · cases h'
          · exact h'
        -- the extra columns, whichever way they are made, are good for the extra region
        have hgood : ∀ ecs, (if mcw > recGuard then recSplit (extraReg g eb) nc
                 else .ok [⟨nc, eb, .derived (extraReg g eb).id "column" eb⟩]) = .ok ecs →
                 Good (extraReg g eb) nc ecs := by
          intro ecs he
          split at he
          · exact hrec eb nc ecs hsub he
          · cases he
            refine ⟨by simp, ?_⟩
            intro c hc
            simp at hc; subst hc
            exact ⟨hh, _, _, rfl, Rooted.region⟩
        split at h
        · cases h
        · rename_i ecs he
          cases h
          obtain ⟨pe, ie⟩ := hgood ecs he
          refine ⟨?_, ?_⟩
          · rw [List.flatMap_append, reId_lines]
            have : (cols1.flatMap Col.lines ++ ecs.flatMap Col.lines).Perm
                (cols1.flatMap Col.lines ++ nc) := List.Perm.append_left _ pe
            refine this.trans ?_
            simpa using p1
          · intro c hc
            rcases List.mem_append.mp hc with hc | hc
            · exact i1 c hc
            · exact reId_inv (fun p hp => rooted_extraReg hp) ie c hc

/-- exclusivity of the column ranges: a line is within at most one of them -/
theorem columnRanges_exclusive (thr mcw : Int) {lines : List Line} (hw : WF lines) :
    (columnRanges thr mcw lines).Pairwise
      (fun ρ1 ρ2 => ∀ l ∈ lines, ¬ (hit l ρ1 = true ∧ hit l ρ2 = true)) := by
  have hp := gapIntervals_pairwise thr (pixels_sorted lines)
  have hp' := List.Pairwise.sublist (List.filter_sublist (p := fun ρ => decide (ρ.2 - ρ.1 ≥ mcw))) hp
  refine List.Pairwise.imp ?_ hp'
  intro ρ1 ρ2 h l hl ⟨h1, h2⟩
  exact hit_disjoint (hw l hl) (by have := consts_min_gap_ge_two; omega) h1 h2

/-- conservation, box and id shape for every fuel and every list of well-formed lines -/
theorem split_good (fuel : Nat) (thr mcw : Int) (g : RegInfo) (lines : List Line) (hw : WF lines)
    {cols : List Col} (h : split fuel thr mcw g lines = .ok cols) : Good g lines cols := by
  induction fuel generalizing mcw g lines cols with
  | zero => simp [split] at h
  | succ n ih =>
    simp only [split] at h
    cases h0 : makeRangeCols g (colLines lines (columnRanges thr mcw lines)) with
    | error e => simp [h0, bind, Except.bind] at h
    | ok cols0 =>
      cases h1 : mergeOverlapping cols0 with
      | error e => simp [h0, h1, bind, Except.bind] at h
      | ok cols1 =>
        simp only [h0, h1, bind, Except.bind] at h
        have hspec := makeRangeCols_spec g h0
        have hflat := makeRangeCols_flat g h0
        obtain ⟨hperm, _⟩ := mergeOverlapping_ok h1
        have hinv1 : ∀ c ∈ cols1, Inv g c := by
          intro c hc
          obtain ⟨a, b⟩ := hspec.2 c (hperm.mem_iff.mp hc)
          exact ⟨a, g.base, c.box, b, rooted_base g⟩
        have hex : ∀ l ∈ extraLines lines (columnRanges thr mcw lines), l ∈ lines := by
          intro l hl
          exact (List.mem_filter.mp hl).1
        obtain ⟨p, i⟩ := handleExtra_good (fun eb ls' cs hsub hr =>
            ih 0 (extraReg g eb) ls' (fun l hl => hw l (hex l (hsub l hl))) hr) hinv1 h
        refine ⟨?_, i⟩
        refine p.trans ?_
        have : (cols1.flatMap Col.lines).Perm (cols0.flatMap Col.lines) := hperm.flatMap_right _
        refine (List.Perm.append_right _ this).trans ?_
        rw [hflat]
        exact colLines_extra_perm lines _ (columnRanges_exclusive thr mcw hw)

/-! ### fuel -/

theorem split_succ (n : Nat) (thr mcw : Int) (g : RegInfo) (lines : List Line) :
    split (n + 1) thr mcw g lines =
      (makeRangeCols g (colLines lines (columnRanges thr mcw lines)) >>= fun cols0 =>
        mergeOverlapping cols0 >>= fun cols =>
          handleExtra (split n thr recMcw) g cols (extraLines lines (columnRanges thr mcw lines)) mcw) := rfl

theorem handleExtra_rec_irrelevant (r1 r2 : RegInfo → List Line → Res (List Col))
    (g : RegInfo) (cols : List Col) (extra : List Line) {mcw : Int} (hm : ¬ mcw > recGuard) :
    handleExtra r1 g cols extra mcw = handleExtra r2 g cols extra mcw := by
  rw [handleExtra_eq, handleExtra_eq]
  simp only [if_neg hm]

/-- with `min_column_width` not above the guard there is no recursive call: one unit of fuel is as good as any -/
theorem split_fuel_inner (n : Nat) (thr : Int) {mcw : Int} (hm : ¬ mcw > recGuard) (g : RegInfo)
    (ls : List Line) : split (n + 1) thr mcw g ls = split 1 thr mcw g ls := by
  show split (n + 1) thr mcw g ls = split (0 + 1) thr mcw g ls
  simp only [split_succ, handleExtra_rec_irrelevant (split n thr recMcw) (split 0 thr recMcw) _ _ _ hm]

/-- two units of fuel are as good as any larger amount -/
theorem split_fuel (n : Nat) (thr mcw : Int) (g : RegInfo) (ls : List Line) :
    split (n + 2) thr mcw g ls = split 2 thr mcw g ls := by
  have : split (n + 1) thr recMcw = split (0 + 1) thr recMcw := by
    funext g' ls'
    exact split_fuel_inner n thr (by have := consts_recursion_stops.1; omega) g' ls'
  show split ((n + 1) + 1) thr mcw g ls = split ((0 + 1) + 1) thr mcw g ls
  rw [split_succ, split_succ, this]

theorem bind_noFuel {α β : Type} {x : Res α} {f : α → Res β} (hx : x ≠ .error .OutOfFuel)
    (hf : ∀ a, f a ≠ .error .OutOfFuel) : (x >>= f) ≠ .error .OutOfFuel := by
  cases x with
  | error e =>
    simp only [bind, Except.bind]
    intro h; cases h; exact hx rfl
  | ok a => exact hf a

theorem hullBox_noFuel (ls : List Line) : hullBox ls ≠ .error .OutOfFuel := by
  cases ls with
  | nil => simp [hullBox]
  | cons l rest => simp [hullBox]

theorem makeRangeCols_noFuel (g : RegInfo) (cl : List (List Line)) :
    makeRangeCols g cl ≠ .error .OutOfFuel := by
  induction cl with
  | nil => simp [makeRangeCols]
  | cons ls rest ih =>
    simp only [makeRangeCols]
    split
    · exact ih
    · exact bind_noFuel (hullBox_noFuel ls) (fun b => bind_noFuel ih (fun cs => by simp [pure, Except.pure]))

theorem mergeOverlapping_noFuel (cols : List Col) : mergeOverlapping cols ≠ .error .OutOfFuel := by
  simp only [mergeOverlapping]; split <;> simp

theorem placeLine_noFuel (g : RegInfo) (l : Line) (cols : List Col) :
    placeLine g l cols ≠ .error .OutOfFuel := by
  simp only [placeLine]
  split
  · simp
  · split
    · simp
    · rename_i c _
      split
      · exact bind_noFuel (hullBox_noFuel _) (fun b => by simp [pure, Except.pure])
      · simp

theorem placeAll_noFuel (g : RegInfo) (extra : List Line) (cols : List Col) (nc : List Line) :
    placeAll g extra cols nc ≠ .error .OutOfFuel := by
  induction extra generalizing cols nc with
  | nil => simp [placeAll]
  | cons l ls ih =>
    simp only [placeAll]
    refine bind_noFuel (placeLine_noFuel g l cols) (fun r => ?_)
    cases r with
    | some c1 => exact ih c1 nc
    | none => exact ih cols (nc ++ [l])

theorem handleExtra_noFuel (recSplit : RegInfo → List Line → Res (List Col))
    (g : RegInfo) (cols : List Col) (extra : List Line) (mcw : Int)
    (hrec : mcw > recGuard → ∀ g' ls', recSplit g' ls' ≠ .error .OutOfFuel) :
    handleExtra recSplit g cols extra mcw ≠ .error .OutOfFuel := by
  rw [handleExtra_eq]
  cases hpa : placeAll g extra cols [] with
  | error e =>
    have := placeAll_noFuel g extra cols []
    simp only
    intro he; cases he; exact this hpa
  | ok r =>
    obtain ⟨cols1, nc⟩ := r
    simp only
    split
    · simp
    · cases hh : hullBox nc with
      | error e => simp
      | ok eb =>
        simp only
        split
        · rename_i e he
          intro hc; cases hc
          split at he
          · rename_i hm; exact hrec hm _ _ he
          · cases he
        · simp

theorem split_noFuel_inner (thr : Int) {mcw : Int} (hm : ¬ mcw > recGuard) (g : RegInfo) (ls : List Line) :
    split 1 thr mcw g ls ≠ .error .OutOfFuel := by
  show split (0 + 1) thr mcw g ls ≠ _
  rw [split_succ]
  exact bind_noFuel (makeRangeCols_noFuel _ _) (fun cols0 =>
    bind_noFuel (mergeOverlapping_noFuel _) (fun cols =>
      handleExtra_noFuel _ g cols _ mcw (fun h => absurd h hm)))

theorem split_noFuel (thr mcw : Int) (g : RegInfo) (ls : List Line) :
    split 2 thr mcw g ls ≠ .error .OutOfFuel := by
  show split ((0 + 1) + 1) thr mcw g ls ≠ _
  rw [split_succ]
  exact bind_noFuel (makeRangeCols_noFuel _ _) (fun cols0 =>
    bind_noFuel (mergeOverlapping_noFuel _) (fun cols =>
      handleExtra_noFuel _ g cols _ mcw (fun _ g' ls' =>
        split_noFuel_inner thr (mcw := recMcw) (by have := consts_recursion_stops.1; omega) g' ls')))

end Pagexml.C18
